package main

import (
	"bytes"
	"fmt"
	"io"

	"github.com/9elements/converged-security-suite/v2/pkg/bootflow/systemartifacts/amdregisters"
	"github.com/9elements/converged-security-suite/v2/pkg/bootflow/systemartifacts/biosimage"
	"github.com/9elements/converged-security-suite/v2/pkg/bootflow/systemartifacts/txtpublic"
	"github.com/9elements/converged-security-suite/v2/pkg/registers"
	"github.com/9elements/converged-security-suite/v2/pkg/bootflow/types"
	pkgbytes "github.com/linuxboot/fiano/pkg/bytes"

	"verifharness/gal"
)

type gen struct{ c *gal.Ctx }

func (g *gen) rn(n int) int { return g.c.Rng.Intn(n) }

func (g *gen) content(n int) []byte {
	b := make([]byte, n)
	for i := range b {
		b[i] = byte(1 + g.rn(250))
	}
	return b
}

// ================= ReadAt =================

func errClass(err error) int64 {
	switch err {
	case nil:
		return 0
	case io.EOF:
		return 1
	}
	return 2
}

func (g *gen) readAt1(raw bool, b []byte, plen int, off int64) {
	c := g.c
	p := bytes.Repeat([]byte{0xEE}, plen)
	orig := append([]byte(nil), p...)
	var n int
	var err error
	var sa types.SystemArtifact
	if raw {
		sa = types.RawBytes(b)
	} else {
		sa = biosimage.New(b)
	}
	panicked, _ := gal.Recover(func() { n, err = sa.ReadAt(p, off) })
	obs := "OPanic"
	if !panicked {
		obs = fmt.Sprintf("(OOk (%d, %s, %d))", n, gal.Bytes(p), errClass(err))
	}
	kind := "readat_reader"
	if raw {
		kind = "readat_raw"
	}
	d := map[string]interface{}{"op": kind, "b": fmt.Sprintf("%x", b), "len_p": plen, "off": off}
	idx := c.Add(kind, fmt.Sprintf("CReadAt %s %s %s %s %s", gal.Bool(raw), gal.Bytes(b), gal.Bytes(orig), gal.Z(off), obs), d, len(b) >= 1)
	// positional-read contract
	bad := ""
	switch {
	case panicked && off >= 0:
		bad = "ReadAt panicked on a non-negative offset"
	case panicked:
		// negative offset: Go's b[offset:] panics; the contract does not cover it
	case n < 0 || n > plen:
		bad = fmt.Sprintf("ReadAt reports n=%d for a buffer of %d bytes", n, plen)
	case off >= int64(len(b)):
		if n != 0 || err != io.EOF {
			bad = fmt.Sprintf("ReadAt at/after the end returned n=%d err=%v, want 0, EOF", n, err)
		}
	case off >= 0:
		want := len(b) - int(off)
		if plen < want {
			want = plen
		}
		if n != want {
			bad = fmt.Sprintf("ReadAt returned n=%d, want min(len p, len b - off)=%d", n, want)
		} else if !bytes.Equal(p[:n], b[off:int(off)+n]) {
			bad = "ReadAt copied the wrong bytes"
		} else if !bytes.Equal(p[n:], orig[n:]) {
			bad = "ReadAt wrote beyond the n bytes it reports"
		} else if raw && err != nil {
			bad = fmt.Sprintf("ReadAt inside the data returned error %v", err)
		}
	}
	if bad != "" {
		c.OracleFail(idx, "positional read: "+bad, siteData+":RawBytes.ReadAt", d)
	} else {
		c.OracleOK()
	}
}

func (g *gen) readAtExhaustive() {
	for lb := 0; lb <= 5; lb++ {
		b := make([]byte, lb)
		for i := range b {
			b[i] = byte(0x10 + i)
		}
		for lp := 0; lp <= 6; lp++ {
			for off := int64(-2); off <= int64(lb)+2; off++ {
				g.readAt1(true, b, lp, off)
				if (lb+lp)%2 == 0 {
					g.readAt1(false, b, lp, off)
				}
			}
		}
	}
	// a few larger ones
	for i := 0; i < 40; i++ {
		b := g.content(1 + g.rn(40))
		g.readAt1(true, b, g.rn(50), int64(g.rn(len(b)+3))-1)
	}
}

// ================= plain ranges =================

func (g *gen) smallRanges(n int, lo uint64) []hrange {
	out := make([]hrange, 0, n)
	for i := 0; i < n; i++ {
		var r hrange
		switch g.rn(8) {
		case 0: // zero length
			r = hrange{lo + uint64(g.rn(20)), 0}
		case 1: // duplicate of an earlier one
			if len(out) > 0 {
				r = out[g.rn(len(out))]
			} else {
				r = hrange{lo + uint64(g.rn(16)), uint64(1 + g.rn(4))}
			}
		case 2: // adjacent to an earlier one (either side)
			if len(out) > 0 {
				e := out[g.rn(len(out))]
				if g.rn(2) == 0 || e.Off < lo+3 {
					r = hrange{e.Off + e.Len, uint64(g.rn(4))}
				} else {
					l := uint64(1 + g.rn(3))
					r = hrange{e.Off - l, l}
				}
			} else {
				r = hrange{lo + uint64(g.rn(16)), uint64(g.rn(5))}
			}
		case 3: // one apart from an earlier one (must NOT merge)
			if len(out) > 0 {
				e := out[g.rn(len(out))]
				r = hrange{e.Off + e.Len + 1, uint64(g.rn(3))}
			} else {
				r = hrange{lo + uint64(g.rn(16)), uint64(g.rn(5))}
			}
		default:
			r = hrange{lo + uint64(g.rn(20)), uint64(g.rn(7))}
		}
		out = append(out, r)
	}
	return out
}

func setOf(rs []hrange) map[uint64]bool {
	s := map[uint64]bool{}
	for _, r := range rs {
		for i := uint64(0); i < r.Len; i++ {
			s[r.Off+i] = true
		}
	}
	return s
}

func sameSet(a, b map[uint64]bool) bool {
	if len(a) != len(b) {
		return false
	}
	for k := range a {
		if !b[k] {
			return false
		}
	}
	return true
}

func overflows(rs []hrange) bool {
	for _, r := range rs {
		if r.Off+r.Len < r.Off || r.Len > 1<<20 { // wraps, or too large for an explicit set
			return true
		}
	}
	return false
}

func (g *gen) rangesMerge(rs []hrange) {
	c := g.c
	rr := toRealRanges(rs)
	rr.SortAndMerge()
	out := fromRealRanges(rr)
	d := map[string]interface{}{"op": "Ranges.SortAndMerge", "ranges": fmt.Sprint(rs)}
	idx := c.Add("ranges_sortmerge", fmt.Sprintf("CRMerge %s %s", rangesLit(rs), rangesLit(out)), d, !overflows(rs) && len(setOf(rs)) > 0)
	if overflows(rs) {
		return // the property is stated for ranges that fit in the address space
	}
	switch {
	case !sameSet(setOf(rs), setOf(out)):
		c.OracleFail(idx, fmt.Sprintf("Ranges.SortAndMerge changed the set of offsets: %v -> %v", rs, out), "fiano/pkg/bytes/range.go:MergeRanges", d)
	case !separated(out):
		c.OracleFail(idx, fmt.Sprintf("Ranges.SortAndMerge result is not sorted/disjoint/non-adjacent: %v -> %v", rs, out), "fiano/pkg/bytes/range.go:MergeRanges", d)
	default:
		c.OracleOK()
	}
}

func (g *gen) rangeExclude(r hrange, tes []hrange) {
	c := g.c
	var out []hrange
	rr := pkgbytes.Range{Offset: r.Off, Length: r.Len}
	out = fromRealRanges(rr.Exclude(toRealRanges(tes)...))
	d := map[string]interface{}{"op": "Range.Exclude", "range": fmt.Sprint(r), "exclude": fmt.Sprint(tes)}
	all := append([]hrange{r}, tes...)
	idx := c.Add("range_exclude", fmt.Sprintf("CRExcl (r_ %s %s) %s %s", gal.U(r.Off), gal.U(r.Len), rangesLit(tes), rangesLit(out)), d, r.Len > 0 && !overflows(all))
	if overflows(all) {
		return
	}
	want := map[uint64]bool{}
	ex := setOf(tes)
	for o := range setOf([]hrange{r}) {
		if !ex[o] {
			want[o] = true
		}
	}
	if !sameSet(want, setOf(out)) {
		c.OracleFail(idx, fmt.Sprintf("Range.Exclude is not the set difference: %v minus %v gave %v", r, tes, out), "fiano/pkg/bytes/range.go:Range.Exclude", d)
	} else {
		c.OracleOK()
	}
}

func (g *gen) rangeIntersect(a, b hrange) {
	c := g.c
	got := pkgbytes.Range{Offset: a.Off, Length: a.Len}.Intersect(pkgbytes.Range{Offset: b.Off, Length: b.Len})
	d := map[string]interface{}{"op": "Range.Intersect", "a": fmt.Sprint(a), "b": fmt.Sprint(b)}
	idx := c.Add("range_intersect", fmt.Sprintf("CRInter (r_ %s %s) (r_ %s %s) %s", gal.U(a.Off), gal.U(a.Len), gal.U(b.Off), gal.U(b.Len), gal.Bool(got)), d, a.Len > 0 && b.Len > 0)
	if overflows([]hrange{a, b}) {
		return
	}
	want := false
	sb := setOf([]hrange{b})
	for o := range setOf([]hrange{a}) {
		if sb[o] {
			want = true
		}
	}
	if want != got {
		c.OracleFail(idx, fmt.Sprintf("Range.Intersect(%v,%v)=%v", a, b, got), "fiano/pkg/bytes/range.go:Range.Intersect", d)
	} else {
		c.OracleOK()
	}
}

// ranges near 2^64 whose Offset+Length wraps; offsets pairwise distinct so that the
// unstable sort has only one admissible result
func (g *gen) wrappingRanges(n int) []hrange {
	used := map[uint64]bool{}
	var out []hrange
	for len(out) < n {
		var off uint64
		if g.rn(2) == 0 {
			off = maxUint64 - uint64(g.rn(12))
		} else {
			off = uint64(g.rn(12))
		}
		if used[off] {
			continue
		}
		used[off] = true
		l := uint64(g.rn(16))
		if g.rn(4) == 0 {
			l = maxUint64 - uint64(g.rn(8))
		}
		out = append(out, hrange{off, l})
	}
	return out
}

func (g *gen) rangeCases(n int) {
	for i := 0; i < n; i++ {
		switch i % 5 {
		case 0, 1:
			g.rangesMerge(g.smallRanges(g.rn(7), uint64(g.rn(3))*5))
		case 2, 3:
			rs := g.smallRanges(1+g.rn(5), 2)
			g.rangeExclude(rs[0], rs[1:])
		default:
			rs := g.smallRanges(2, 3)
			g.rangeIntersect(rs[0], rs[1])
		}
		if i%12 == 0 {
			w := g.wrappingRanges(1 + g.rn(4))
			g.rangesMerge(w)
			g.rangeExclude(w[0], w[1:])
			if len(w) > 1 {
				g.rangeIntersect(w[0], w[1])
			}
		}
	}
	// fixed edges
	g.rangesMerge(nil)
	g.rangesMerge([]hrange{{5, 0}})
	g.rangesMerge([]hrange{{5, 0}, {5, 0}})
	g.rangesMerge([]hrange{{3, 2}, {5, 0}})
	g.rangesMerge([]hrange{{3, 2}, {6, 0}})
	g.rangesMerge([]hrange{{5, 3}, {5, 0}})
	g.rangesMerge([]hrange{{5, 0}, {5, 3}})
	g.rangesMerge([]hrange{{0, 4}, {4, 4}, {9, 1}, {8, 1}})
	g.rangeExclude(hrange{4, 0}, []hrange{{2, 5}})
	g.rangeExclude(hrange{4, 0}, []hrange{{4, 5}})
	g.rangeExclude(hrange{4, 0}, nil)
	g.rangeExclude(hrange{0, 8}, []hrange{{0, 8}})
	g.rangeExclude(hrange{0, 8}, []hrange{{2, 2}, {3, 3}, {7, 5}})
}

// ================= references =================

// a per-case pool of up to four artifacts and the mappers used with them
type scene struct {
	p       *pool
	arts    []*hart
	mappers map[int][]types.AddressMapper // artifact id -> mappers usable with it
}

// regs: the scene may hold the real register files (*txtpublic.TXTPublic,
// *amdregisters.AMDRegisters) beside the artifacts made of bytes
func (g *gen) scene(distinguishable, regs bool) *scene {
	s := &scene{p: newPool(), mappers: map[int][]types.AddressMapper{}}
	size := func() int { return 8 + g.rn(17) }
	mapperFor := func(a *hart) types.AddressMapper {
		if a.regs != nil {
			return g.regMapper()
		}
		return g.mapper()
	}
	if distinguishable {
		// distinct type names, one mapper per artifact
		cands := []func(){
			func() { s.arts = append(s.arts, s.p.addRaw(g.content(size()))) },
			func() { s.arts = append(s.arts, s.p.addImage(g.content(size()))) },
			func() { s.arts = append(s.arts, s.p.addReg(g.content(size()))) },
			func() { s.arts = append(s.arts, s.p.addZZ(g.content(size()))) },
		}
		if regs {
			cands = append(cands,
				func() { s.arts = append(s.arts, s.p.addTxt(g.txtArtifact())) },
				func() { s.arts = append(s.arts, s.p.addAmd(g.amdArtifact())) })
		}
		g.c.Rng.Shuffle(len(cands), func(i, j int) { cands[i], cands[j] = cands[j], cands[i] })
		n := 1 + g.rn(3)
		if g.rn(4) == 0 {
			n = 4
		}
		for i := 0; i < n; i++ {
			cands[i]()
		}
		for _, a := range s.arts {
			s.mappers[a.id] = []types.AddressMapper{mapperFor(a)}
		}
		return s
	}
	n := 2 + g.rn(3)
	imgs, txts, amds := 0, 0, 0
	for i := 0; i < n; i++ {
		c := g.rn(10)
		if regs && g.rn(4) == 0 {
			c = 10 + g.rn(2)
		}
		switch c {
		case 10:
			if txts == 0 || g.rn(4) == 0 { // a second one makes the comparator panic: rare
				s.arts = append(s.arts, s.p.addTxt(g.txtArtifact()))
				txts++
			} else {
				s.arts = append(s.arts, s.p.addRaw(g.content(size())))
			}
		case 11:
			if amds == 0 || g.rn(4) == 0 {
				s.arts = append(s.arts, s.p.addAmd(g.amdArtifact()))
				amds++
			} else {
				s.arts = append(s.arts, s.p.addRaw(g.content(size())))
			}
		case 0, 1, 2, 3, 4:
			// sometimes a DIFFERENT artifact with the same bytes as an earlier RawBytes one:
			// identity is the slice, not the content
			var twin []byte
			for _, a := range s.arts {
				if a.raw && g.rn(3) == 0 {
					twin = a.content
				}
			}
			if twin != nil {
				s.arts = append(s.arts, s.p.addRaw(twin))
			} else {
				s.arts = append(s.arts, s.p.addRaw(g.content(size())))
			}
		case 5, 6:
			if imgs == 0 || g.rn(3) == 0 { // a second image makes the comparator panic: keep it rare
				s.arts = append(s.arts, s.p.addImage(g.content(size())))
				imgs++
			} else {
				s.arts = append(s.arts, s.p.addRaw(g.content(size())))
			}
		case 7, 8:
			s.arts = append(s.arts, s.p.addZZ(g.content(size())))
		default:
			s.arts = append(s.arts, s.p.addReg(g.content(size())))
		}
	}
	for _, a := range s.arts {
		k := 1 + g.rn(2)
		for i := 0; i < k; i++ {
			s.mappers[a.id] = append(s.mappers[a.id], mapperFor(a))
		}
	}
	return s
}

func (g *gen) mapper() types.AddressMapper {
	switch g.rn(8) {
	case 0, 1, 2:
		return nil
	case 3, 4:
		return biosimage.PhysMemMapper{}
	case 5:
		return vMapper{Delta: uint64(g.rn(4)), Split: g.rn(2) == 0, FailAt: maxUint64}
	case 6:
		return vMapper{Delta: 0 - uint64(1+g.rn(6)), Split: g.rn(2) == 0, FailAt: maxUint64}
	default:
		return vMapper{Delta: uint64(g.rn(3)), Split: g.rn(2) == 0, FailAt: uint64(4 + g.rn(16))}
	}
}

// lowest unresolved offset that lands on byte 0 of the artifact (or 0)
func windowLo(m types.AddressMapper, size uint64) uint64 {
	switch v := m.(type) {
	case biosimage.PhysMemMapper:
		return (1 << 32) - size
	case vMapper:
		if v.Delta >= 1<<63 {
			return 0 - v.Delta
		}
	}
	return 0
}

func (g *gen) refList(s *scene, n int) []href {
	out := make([]href, 0, n)
	for i := 0; i < n; i++ {
		if len(out) > 0 && g.rn(6) == 0 { // exact duplicate reference
			d := out[g.rn(len(out))]
			d.ranges = append([]hrange(nil), d.ranges...)
			out = append(out, d)
			continue
		}
		a := s.arts[g.rn(len(s.arts))]
		ms := s.mappers[a.id]
		m := ms[g.rn(len(ms))]
		var rs []hrange
		if g.rn(9) != 0 {
			rs = g.smallRanges(g.rn(4), windowLo(m, uint64(len(a.content))))
		}
		out = append(out, href{art: a, mapper: m, ranges: rs})
	}
	return out
}

func nonEmpty(lists ...[]href) bool {
	for _, l := range lists {
		for _, r := range l {
			for _, x := range r.ranges {
				if x.Len > 0 {
					return true
				}
			}
		}
	}
	return false
}

func (g *gen) sortMerge(s *scene, refs []href) {
	c := g.c
	real := toReal(refs)
	panicked, msg := gal.Recover(func() { real.SortAndMerge() })
	var out []oref
	if !panicked {
		out = s.p.project(real)
	}
	d := map[string]interface{}{"op": "References.SortAndMerge", "refs": s.p.descrRefs(refs)}
	idx := c.Add("refs_sortmerge", fmt.Sprintf("CSortMerge %s %s %s", s.p.refsLit(refs), natList(sortOrder(refs)), obsRefs(panicked, out)), d, nonEmpty(refs))
	known := func(what string) {
		switch {
		case d6Condition(refs):
			c.OracleFailKnown(idx, d6, what, siteData+":compareReferenceType", d)
		default:
			// includes lists of fewer than two references (repaired: the former
			// finding C11-D24, such a list was returned untouched)
			c.OracleFail(idx, what, siteData+":References.SortAndMerge", d)
		}
	}
	if panicked {
		known("SortAndMerge panicked: " + msg)
		return
	}
	if df := denOfIn(refs).diff(denOfOut(out)); df != "" {
		// the denotation must be preserved whatever the artifacts are
		c.OracleFail(idx, "SortAndMerge changed the denoted set: "+df, siteData+":References.SortAndMerge", d)
		return
	}
	if nf := normalForm(out); nf != "" {
		known("SortAndMerge result is not in normal form: " + nf)
		return
	}
	c.OracleOK()
}

func (g *gen) exclude(s *scene, refs, exc []href) {
	c := g.c
	realS, realE := toReal(refs), toReal(exc)
	var res types.References
	panicked, msg := gal.Recover(func() { res = realS.Exclude(realE...) })
	var out []oref
	if !panicked {
		out = s.p.project(res)
	}
	d := map[string]interface{}{"op": "References.Exclude", "refs": s.p.descrRefs(refs), "exclude": s.p.descrRefs(exc)}
	idx := c.Add("refs_exclude", fmt.Sprintf("CExclude %s %s %s %s %s", s.p.refsLit(refs), s.p.refsLit(exc), natList(sortOrder(refs)), natList(sortOrder(exc)), obsRefs(panicked, out)), d, nonEmpty(refs))
	report := func(what string) {
		if d6Condition(refs, exc) {
			c.OracleFailKnown(idx, d6, what, siteData+":compareReferenceType", d)
		} else {
			c.OracleFail(idx, what, siteData+":References.Exclude", d)
		}
	}
	if panicked {
		report("Exclude panicked: " + msg)
		return
	}
	// Exclude works on copies: the caller's lists must still denote the same sets
	if df := denOfIn(refs).diff(denOfOut(s.p.project(realS))); df != "" {
		c.OracleFail(idx, "Exclude altered its receiver: "+df, siteData+":References.Exclude", d)
		return
	}
	if df := denOfIn(exc).diff(denOfOut(s.p.project(realE))); df != "" {
		c.OracleFail(idx, "Exclude altered its argument: "+df, siteData+":References.Exclude", d)
		return
	}
	want := denOfIn(refs).minus(denOfIn(exc))
	if df := want.diff(denOfOut(out)); df != "" {
		report("Exclude is not the set difference (first set = expected): " + df)
		return
	}
	c.OracleOK()
}

func (g *gen) resolve(s *scene, refs []href) {
	c := g.c
	real := toReal(refs)
	var err error
	panicked, msg := gal.Recover(func() { err = real.Resolve() })
	d := map[string]interface{}{"op": "References.Resolve", "refs": s.p.descrRefs(refs)}
	if panicked {
		idx := c.Add("refs_resolve", fmt.Sprintf("CResolve %s [] false", s.p.refsLit(refs)), d, nonEmpty(refs))
		c.OracleFail(idx, "Resolve panicked: "+msg, siteData+":References.Resolve", d)
		return
	}
	out := s.p.project(real)
	idx := c.Add("refs_resolve", fmt.Sprintf("CResolve %s %s %s", s.p.refsLit(refs), orefsLit(out), gal.Bool(err != nil)), d, nonEmpty(refs))
	if err != nil {
		// only a refusing mapper may fail
		for _, r := range refs {
			if v, ok := r.mapper.(vMapper); ok && v.FailAt != maxUint64 {
				c.OracleOK()
				return
			}
		}
		c.OracleFail(idx, "Resolve failed although no mapper refuses: "+err.Error(), siteData+":References.Resolve", d)
		return
	}
	bad := ""
	if len(out) != len(refs) {
		bad = "Resolve changed the number of references"
	}
	for i := 0; bad == "" && i < len(out); i++ {
		if out[i].mapper != nil {
			bad = fmt.Sprintf("reference #%d still has a mapper", i)
			break
		}
		want := map[uint64]bool{}
		for o := range setOf(refs[i].ranges) {
			want[resolveOff(refs[i].mapper, uint64(len(refs[i].art.content)), o)] = true
		}
		if out[i].aid != refs[i].art.id || !sameSet(want, setOf(out[i].ranges)) {
			bad = fmt.Sprintf("reference #%d does not resolve to the mapped offsets", i)
		}
	}
	if bad != "" {
		c.OracleFail(idx, bad, siteData+":References.Resolve", d)
	} else {
		c.OracleOK()
	}
}

func (g *gen) byArtAndRanges(s *scene, refs []href) {
	c := g.c
	a := s.arts[g.rn(len(s.arts))]
	real := toReal(refs)
	out := s.p.project(real.BySystemArtifact(a.sa))
	d := map[string]interface{}{"op": "References.BySystemArtifact", "refs": s.p.descrRefs(refs), "artifact": a.id}
	idx := c.Add("refs_by_artifact", fmt.Sprintf("CByArt %s %s %s", s.p.refsLit(refs), s.p.artLit(a), orefsLit(out)), d, nonEmpty(refs))
	var want []href
	for _, r := range refs {
		if r.art.id == a.id {
			want = append(want, r)
		}
	}
	ok := len(want) == len(out)
	for i := 0; ok && i < len(out); i++ {
		ok = out[i].aid == a.id && mapperKey(out[i].mapper) == mapperKey(want[i].mapper) && fmt.Sprint(out[i].ranges) == fmt.Sprint(want[i].ranges)
	}
	if !ok {
		c.OracleFail(idx, "BySystemArtifact does not return exactly the references to the artifact, in order", siteData+":References.BySystemArtifact", d)
	} else {
		c.OracleOK()
	}
	rr := fromRealRanges(toReal(refs).Ranges())
	d2 := map[string]interface{}{"op": "References.Ranges", "refs": s.p.descrRefs(refs)}
	idx2 := c.Add("refs_ranges", fmt.Sprintf("CRanges %s %s", s.p.refsLit(refs), rangesLit(rr)), d2, nonEmpty(refs))
	var all []hrange
	for _, r := range refs {
		all = append(all, r.ranges...)
	}
	if fmt.Sprint(all) != fmt.Sprint(rr) {
		c.OracleFail(idx2, "Ranges is not the concatenation of the references' ranges", siteData+":References.Ranges", d2)
	} else {
		c.OracleOK()
	}
}

func (g *gen) refCases(n int) {
	for i := 0; i < n; i++ {
		s := g.scene(i%2 == 0, i%3 != 1)
		switch i % 6 {
		case 0, 1:
			k := g.rn(7)
			if g.rn(5) == 0 {
				k = g.rn(2)
			}
			g.sortMerge(s, g.refList(s, k))
		case 2, 3, 4:
			k := g.rn(6)
			if g.rn(4) == 0 {
				k = 1
			}
			g.exclude(s, g.refList(s, k), g.refList(s, g.rn(5)))
		default:
			refs := g.refList(s, g.rn(5))
			g.resolve(s, refs)
			g.byArtAndRanges(s, refs)
		}
	}
}

// ================= bytes =================

// ranges that mostly stay inside the artifact once resolved
func (g *gen) inBoundRanges(a *hart, m types.AddressMapper, n int) []hrange {
	size := uint64(len(a.content))
	lo := windowLo(m, size)
	span := size
	if v, ok := m.(vMapper); ok && v.Delta < 1<<63 {
		span = size - v.Delta // resolved = off + Delta
	}
	var out []hrange
	for i := 0; i < n; i++ {
		off := uint64(g.rn(int(span) + 1))
		l := uint64(0)
		if off < span {
			l = uint64(g.rn(int(span-off) + 1))
		}
		switch g.rn(12) {
		case 0:
			l = 0
		case 1:
			l += uint64(1 + g.rn(3)) // may run past the end: the implementation panics
		case 2:
			if len(out) > 0 {
				e := out[g.rn(len(out))]
				off, l = e.Off+e.Len-lo, 0
				if off < span {
					l = uint64(g.rn(int(span-off) + 1))
				}
			}
		}
		out = append(out, hrange{lo + off, l})
	}
	return out
}

// what the property says about the bytes of one reference, for every kind of artifact
func expectAny(r href) regExpect {
	if r.art.regs != nil {
		return expectRegBytes(r)
	}
	w, ok, abstain := expectBytes(r)
	return regExpect{want: w, ok: ok, abstain: abstain, must: ok}
}

// the bytes of a list of references (Reference.RawBytes: a list of one), judged
// from the property text: "" = fine or not judged
func judgeBytes(refs []href, panicked bool, msg string, got []byte, fn string) (fail, known string) {
	var want []byte
	allOK, allMust := true, true
	for _, r := range refs {
		e := expectAny(r)
		if e.abstain {
			return "", ""
		}
		allOK = allOK && e.ok
		allMust = allMust && e.must
		if known == "" {
			known = e.known
		}
		want = append(want, e.want...)
	}
	switch {
	case !panicked && !allOK:
		return fmt.Sprintf("%s returned %x for ranges outside the artifacts (bytes nothing backs)", fn, got), ""
	case !panicked && !bytes.Equal(want, got):
		return fmt.Sprintf("%s = %x, the concatenation in list order of the referenced bytes (each reference: its offsets in increasing order) is %x", fn, got, want), ""
	case panicked && allMust && known != "":
		return fmt.Sprintf("%s has no bytes for references made of whole present registers: %s", fn, msg), known
	case panicked && allMust:
		return fmt.Sprintf("%s panicked on in-bounds ranges: %s", fn, msg), ""
	}
	return "", ""
}

// results of one scene, kept by the caller: whatever is called later, a result
// handed out earlier still is what it was
type keptBytes struct {
	what string
	got  []byte // the slice that was handed out
	full []byte // got[:cap(got)]
	was  []byte // its copy, taken at once (over the full capacity)
}

type byteSeq struct{ kept []keptBytes }

func (q *byteSeq) keep(what string, got []byte, panicked bool) {
	if panicked || got == nil {
		return
	}
	full := got[:cap(got)]
	q.kept = append(q.kept, keptBytes{what: what, got: got, full: full, was: append([]byte(nil), full...)})
}

// first earlier result that is not what it was ("" = all are)
func (q *byteSeq) changed() string {
	for i, k := range q.kept {
		if !bytes.Equal(k.got, k.was[:len(k.got)]) {
			return fmt.Sprintf("the bytes handed out by call #%d (%s) were %x and are %x after the later call", i+1, k.what, k.was[:len(k.got)], k.got)
		}
		if !bytes.Equal(k.full, k.was) {
			return fmt.Sprintf("the spare capacity behind the bytes handed out by call #%d (%s) was rewritten by the later call", i+1, k.what)
		}
	}
	return ""
}

func (q *byteSeq) calls() []string {
	out := []string{}
	for i, k := range q.kept {
		out = append(out, fmt.Sprintf("#%d %s -> %x (result kept by the caller)", i+1, k.what, k.was[:len(k.got)]))
	}
	return out
}

func (g *gen) refBytes(s *scene, r href, q *byteSeq) {
	c := g.c
	real := toReal([]href{r})
	var got []byte
	panicked, msg := gal.Recover(func() { got = real[0].RawBytes() })
	d := map[string]interface{}{"op": "Reference.RawBytes", "ref": s.p.descrRefs([]href{r})}
	if q != nil && len(q.kept) > 0 {
		d["earlier calls on the same artifacts"] = q.calls()
	}
	var idx int
	if r.art.regs != nil {
		idx = c.Add("ref_rawbytes_regs", fmt.Sprintf("CGRefBytes (%s) %s", s.p.grefLit(r), obsBytes(panicked, got)), d, nonEmpty([]href{r}))
	} else {
		idx = c.Add("ref_rawbytes", fmt.Sprintf("CRefBytes (%s) %s", s.p.refLit(r), obsBytes(panicked, got)), d, nonEmpty([]href{r}))
	}
	g.verdictBytes(idx, d, []href{r}, panicked, msg, got, "Reference.RawBytes", siteData+":Reference.RawBytes", q)
}

func (g *gen) verdictBytes(idx int, d map[string]interface{}, refs []href, panicked bool, msg string, got []byte, fn, site string, q *byteSeq) {
	c := g.c
	fail, known := judgeBytes(refs, panicked, msg, got, fn)
	switch {
	case fail != "" && known != "":
		c.OracleFailKnown(idx, known, fail, regSite(refs, site), d)
	case fail != "":
		c.OracleFail(idx, fail, regSite(refs, site), d)
	default:
		c.OracleOK()
	}
	if q == nil {
		return
	}
	if ch := q.changed(); ch != "" {
		c.OracleFail(idx, fn+" altered a result of an earlier call: "+ch, site, d)
		q.kept = nil // reported once
	} else if len(q.kept) > 0 {
		c.OracleOK()
	}
	q.keep(fn+" of "+shortRefs(refs), got, panicked)
}

func shortRefs(refs []href) string {
	out := []string{}
	for _, r := range refs {
		out = append(out, fmt.Sprintf("{artifact %d (%s), mapper %s, ranges %v}", r.art.id, r.art.tn, mapperKey(r.mapper), r.ranges))
	}
	return fmt.Sprint(out)
}

// a failure on a list that refers to a register file: most likely in there
func regSite(refs []href, site string) string {
	for _, r := range refs {
		if r.art.regs != nil {
			if r.art.regs.amd {
				return siteAMD + " (via " + site + ")"
			}
			return siteTXT + " (via " + site + ")"
		}
	}
	return site
}

func (g *gen) refsBytes(s *scene, refs []href, q *byteSeq) {
	c := g.c
	real := toReal(refs)
	var got []byte
	panicked, msg := gal.Recover(func() { got = real.RawBytes() })
	d := map[string]interface{}{"op": "References.RawBytes", "refs": s.p.descrRefs(refs)}
	if q != nil && len(q.kept) > 0 {
		d["earlier calls on the same artifacts"] = q.calls()
	}
	var idx int
	if anyRegs(refs) {
		idx = c.Add("refs_rawbytes_regs", fmt.Sprintf("CGRefsBytes %s %s", s.p.grefsLit(refs), obsBytes(panicked, got)), d, nonEmpty(refs))
	} else {
		idx = c.Add("refs_rawbytes", fmt.Sprintf("CRefsBytes %s %s", s.p.refsLit(refs), obsBytes(panicked, got)), d, nonEmpty(refs))
	}
	g.verdictBytes(idx, d, refs, panicked, msg, got, "References.RawBytes", siteData+":References.RawBytes", q)
}

func (g *gen) bytesCases(n int) {
	for i := 0; i < n; {
		s := g.scene(i%3 != 0, i%4 != 3)
		mk := func() href {
			a := s.arts[g.rn(len(s.arts))]
			ms := s.mappers[a.id]
			m := ms[g.rn(len(ms))]
			if a.regs != nil {
				return href{art: a, mapper: m, ranges: g.regRanges(a, m, g.rn(4))}
			}
			return href{art: a, mapper: m, ranges: g.inBoundRanges(a, m, g.rn(4))}
		}
		// one to three calls on the artifacts of one scene, every result kept and
		// looked at again after every later call
		q := &byteSeq{}
		for k := 1 + g.rn(3); k > 0; k-- {
			if (i+k)%2 == 0 {
				g.refBytes(s, mk(), q)
			} else {
				m := g.rn(5)
				refs := make([]href, 0, m)
				for j := 0; j < m; j++ {
					refs = append(refs, mk())
				}
				g.refsBytes(s, refs, q)
			}
			i++
		}
	}
}

// ReadAt of the register files: a handful of reads on one object
func (g *gen) regFileCases(n int) {
	for i := 0; i < n; i++ {
		s := &scene{p: newPool()}
		var a *hart
		if i%3 == 2 {
			a = s.p.addAmd(g.amdArtifact())
		} else {
			a = s.p.addTxt(g.txtArtifact())
		}
		if i%8 == 0 {
			g.regReadEach(a)
		}
		g.regReads(s, a, 3+g.rn(6))
	}
}

// ================= fixed cases and probes =================

func (g *gen) fixedCases() {
	// sub-ranges of a RawBytes artifact (used to panic "unexpected read size")
	{
		s := &scene{p: newPool()}
		a := s.p.addRaw([]byte{1, 2, 3, 4, 5, 6, 7, 8, 9, 10})
		for off := uint64(0); off <= 10; off++ {
			for l := uint64(0); off+l <= 11; l += 1 + l/3 {
				g.refBytes(s, href{art: a, ranges: []hrange{{off, l}}}, nil)
			}
		}
		g.refBytes(s, href{art: a, ranges: []hrange{{6, 2}, {0, 3}, {2, 2}}}, nil)
		g.refBytes(s, href{art: a, ranges: nil}, nil)
		g.refBytes(s, href{art: a, ranges: []hrange{{1 << 63, 0}}}, nil)
		g.refBytes(s, href{art: a, ranges: []hrange{{1 << 63, 1}}}, nil)
		img := s.p.addImage([]byte{1, 2, 3, 4, 5, 6, 7, 8})
		g.refBytes(s, href{art: img, ranges: []hrange{{1 << 63, 0}}}, nil)
		g.refBytes(s, href{art: img, mapper: biosimage.PhysMemMapper{}, ranges: []hrange{{0xFFFFFFF8, 8}}}, nil)
		g.refBytes(s, href{art: img, mapper: biosimage.PhysMemMapper{}, ranges: []hrange{{0xFFFFFFFC, 2}, {0xFFFFFFF8, 4}}}, nil)
		g.refBytes(s, href{art: img, mapper: biosimage.PhysMemMapper{}, ranges: []hrange{{0xFFFFFFFC, 5}}}, nil)
		g.refBytes(s, href{art: img, mapper: vMapper{Delta: 1, Split: true, FailAt: 4}, ranges: []hrange{{0, 3}, {3, 2}, {6, 1}}}, nil)
		g.refBytes(s, href{art: img, mapper: vMapper{Delta: 1, Split: true, FailAt: 4}, ranges: []hrange{{0, 3}, {5, 1}}}, nil)
	}
	// mappers m, nil, m on one artifact; A, B, A over two RawBytes; two images
	{
		s := &scene{p: newPool()}
		a := s.p.addRaw([]byte{1, 2, 3, 4, 5, 6, 7, 8})
		b := s.p.addRaw([]byte{11, 12, 13, 14, 15, 16, 17, 18})
		i1 := s.p.addImage([]byte{21, 22, 23, 24})
		i2 := s.p.addImage([]byte{31, 32, 33, 34})
		m := vMapper{Delta: 1, FailAt: maxUint64}
		g.sortMerge(s, []href{{art: a, mapper: m, ranges: []hrange{{0, 2}}}, {art: a, ranges: []hrange{{1, 2}}}, {art: a, mapper: m, ranges: []hrange{{2, 2}}}})
		g.sortMerge(s, []href{{art: a, ranges: []hrange{{0, 2}}}, {art: b, ranges: []hrange{{1, 2}}}, {art: a, ranges: []hrange{{2, 2}}}})
		g.sortMerge(s, []href{{art: i1, ranges: []hrange{{0, 2}}}, {art: i2, ranges: []hrange{{1, 2}}}})
		g.sortMerge(s, []href{{art: i1, ranges: []hrange{{0, 2}}}, {art: a, ranges: []hrange{{1, 2}}}, {art: i1, ranges: []hrange{{2, 1}}}, {art: a, ranges: nil}})
		g.sortMerge(s, []href{{art: a, ranges: nil}, {art: i1, ranges: nil}})
		g.sortMerge(s, []href{{art: a, ranges: []hrange{{2, 2}, {0, 3}}}})
		g.exclude(s, []href{{art: a, ranges: []hrange{{0, 4}}}}, []href{{art: b, ranges: []hrange{{1, 2}}}})
		g.exclude(s, []href{{art: a, mapper: m, ranges: []hrange{{0, 4}}}}, []href{{art: a, ranges: []hrange{{1, 2}}}})
		g.exclude(s, []href{{art: i1, ranges: []hrange{{0, 4}}}}, []href{{art: i2, ranges: []hrange{{1, 2}}}})
		g.exclude(s, []href{{art: a, ranges: []hrange{{0, 4}, {2, 4}}}}, []href{{art: a, ranges: []hrange{{3, 1}}}})
		g.exclude(s, nil, []href{{art: a, ranges: []hrange{{3, 1}}}})
		g.exclude(s, []href{{art: a, ranges: []hrange{{0, 4}}}, {art: i1, ranges: []hrange{{0, 4}}}}, nil)
	}
}

// the register files of a platform: every register in a reference of its own,
// neighbours (TXT.STS | TXT.ESTS, ACM_STATUS | TXT.DPR), a mixed list
func (g *gen) fixedRegisterCases() {
	var key registers.TXTPublicKey
	for i := range key {
		key[i] = byte(0xA0 + i)
	}
	s := &scene{p: newPool()}
	txt := s.p.addTxt(txtpublic.New(registers.Registers{
		registers.ParseACMPolicyStatusRegister(0x1122334455667788), registers.ParseTXTStatus(0x0102030405060708),
		registers.ParseTXTErrorStatus(0x5A), registers.ParseTXTErrorCode(0xC0000001), registers.ParseACMStatusRegister(0xCAFEBABE),
		registers.ParseTXTDMAProtectedRangeRegister(0xDDCCBBAA), registers.ParseTXTHeapBase(0x11111111), registers.ParseTXTHeapSize(0x22222222), key}))
	amd := s.p.addAmd(amdregisters.New(registers.Registers{registers.ParseMP0C2PMsg38Register(0x38383838), registers.ParseMP0C2PMsg37Register(0x01020304)}))
	img := s.p.addImage([]byte{1, 2, 3, 4, 5, 6, 7, 8})
	raw := s.p.addRaw([]byte{21, 22, 23, 24, 25, 26})
	q := &byteSeq{}
	var each []href
	for _, r := range txt.regs.view {
		ref := href{art: txt, ranges: []hrange{{uint64(r.off), uint64(len(r.val))}}}
		g.refBytes(s, ref, q)
		each = append(each, ref)
	}
	for _, r := range amd.regs.view {
		ref := href{art: amd, ranges: []hrange{{uint64(r.off), uint64(len(r.val))}}}
		g.refBytes(s, ref, q)
		each = append(each, ref)
	}
	// registers in references of their own + firmware image + in-line string
	each = append(each, href{art: img, mapper: biosimage.PhysMemMapper{}, ranges: []hrange{{0xFFFFFFFA, 4}}}, href{art: raw, ranges: []hrange{{1, 3}}})
	g.refsBytes(s, each, q)
	g.refsBytes(s, []href{each[len(each)-1], each[1], each[0]}, q)
	// the way amddata refers to the two registers: two ranges of one reference
	g.refBytes(s, href{art: amd, ranges: []hrange{{0, 4}, {4, 4}}}, q)
	g.refBytes(s, href{art: amd, ranges: []hrange{{4, 4}, {0, 4}}}, q)
	g.refBytes(s, href{art: amd, ranges: []hrange{{0, 6}}}, q)
	g.refBytes(s, href{art: amd, ranges: []hrange{{2, 2}}}, q)
	g.refBytes(s, href{art: amd, ranges: []hrange{{4, 8}}}, q)
	// neighbours in ONE reference (two ranges / one range / with the register behind them), a prefix, a start in the middle, a gap
	g.refBytes(s, href{art: txt, ranges: []hrange{{0, 8}, {8, 1}}}, q)
	g.refBytes(s, href{art: txt, ranges: []hrange{{0x330, 4}, {0x328, 8}}}, q)
	g.refBytes(s, href{art: txt, ranges: []hrange{{0, 9}}}, q)
	g.refBytes(s, href{art: txt, ranges: []hrange{{0x400, 32}, {0x378, 8}}}, q)
	g.refBytes(s, href{art: txt, ranges: []hrange{{0x328, 13}}}, q)
	g.refBytes(s, href{art: txt, ranges: []hrange{{0x300, 16}}}, q)
	g.refBytes(s, href{art: txt, ranges: []hrange{{0, 4}}}, q)
	g.refBytes(s, href{art: txt, ranges: []hrange{{2, 2}}}, q)
	g.refBytes(s, href{art: txt, ranges: []hrange{{0x10, 4}}}, q)
	g.refBytes(s, href{art: txt, ranges: []hrange{{0x10, 0}, {0x8, 0}, {0x378, 8}}}, q)
	g.refBytes(s, href{art: txt, mapper: vMapper{Delta: maxUint64 - 0x2FF, FailAt: maxUint64}, ranges: []hrange{{0x600, 4}, {0x608, 4}}}, q)
	// every register address, exact width; then the neighbours' addresses again
	g.regReadEach(txt)
	g.regReadEach(amd)
	g.regReads(s, txt, 12)
	g.regReads(s, amd, 8)
}

func (g *gen) probes() {
	c := g.c
	// C11-D6: References{refA}.Exclude(refB) over two different RawBytes artifacts
	{
		a := types.RawBytes{1, 2, 3, 4}
		b := types.RawBytes{9, 9, 9, 9}
		refA := types.Reference{Artifact: a, MappedRanges: types.MappedRanges{Ranges: pkgbytes.Ranges{{Offset: 0, Length: 4}}}}
		refB := types.Reference{Artifact: b, MappedRanges: types.MappedRanges{Ranges: pkgbytes.Ranges{{Offset: 1, Length: 2}}}}
		var out types.References
		panicked, _ := gal.Recover(func() { out = types.References{refA}.Exclude(refB) })
		exact := !panicked && len(out) == 1 && types.EqualSystemArtifacts(out[0].Artifact, a) &&
			len(out[0].Ranges) == 1 && out[0].Ranges[0] == pkgbytes.Range{Offset: 0, Length: 4}
		c.Probe(d6, !exact, fmt.Sprintf("References{A[0:4]}.Exclude(B[1:3]) over two different RawBytes artifacts returned %v (panicked=%v); exact set difference is A[0:4]", out, panicked))
	}
	// regression probe of the repaired C11-D24 (a one-element list was returned
	// unchanged, ranges neither sorted nor merged): not a listed finding any more,
	// so a reproduction is an ordinary failure with this input
	{
		a := types.RawBytes{1, 2, 3, 4, 5}
		s := types.References{{Artifact: a, MappedRanges: types.MappedRanges{Ranges: pkgbytes.Ranges{{Offset: 2, Length: 2}, {Offset: 0, Length: 3}}}}}
		panicked, _ := gal.Recover(func() { s.SortAndMerge() })
		normal := !panicked && len(s) == 1 && len(s[0].Ranges) == 1 && s[0].Ranges[0] == pkgbytes.Range{Offset: 0, Length: 4}
		c.Probe(d24, !normal, fmt.Sprintf("References{A[2:4],[0:3]}.SortAndMerge() on a one-element list left ranges %v; normal form is [0:4]", s[0].Ranges))
	}
}
