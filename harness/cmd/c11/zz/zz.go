// Package zz holds a value-typed system artifact whose type name ("zz.Art")
// sorts AFTER "types.RawBytes" in Go string order, so that RawBytes references
// are not always the last group after compareReferenceType sorting.
package zz

import "bytes"

// Art is comparable (pointer field): two Arts are == iff they share B.
type Art struct{ B *[]byte }

func (a Art) ReadAt(p []byte, off int64) (int, error) { return bytes.NewReader(*a.B).ReadAt(p, off) }
func (a Art) Size() uint64                             { return uint64(len(*a.B)) }
