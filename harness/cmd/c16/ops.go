// C16 harness, fourth part: ONE registers.Registers variable under a history of calls —
// Unmarshal (JSON / YAML; directly, as a struct field, through helpers.FlagRegisters.Set), Sort,
// json.Marshal, yaml.Marshal, Find, and the branches of FlagRegisters.Set that read no document
// (empty path, unreadable path, a file without a document) — against Model/MarshalOps.v `run`;
// and the boundary families of the comparisons the code makes (the integer resolution of
// yaml.v3 at 2^63 / 2^64, the key's 64-bit boundary, ParseUint's bit size, the key's length).
//
// Oracle (from the property text; the title is "collections survive serialisation unchanged"):
//   - serialising shows the collection and leaves it as it is (same registers, same order), and
//     what was written parses back — with the package, into a fresh variable — to the same
//     registers: the round trip holds in EVERY state the variable reaches, not only in states
//     built by the harness;
//   - Unmarshal: as in forms.go (the collection the document denotes, whatever the variable held;
//     a refused document leaves it untouched);
//   - Sort keeps the registers and orders them by (address, ID);
//   - Find returns the register carrying the ID, nil iff there is none;
//   - a Set that reads no document changes nothing, an unreadable path is an error; nothing panics.
package main

import (
	"encoding/json"
	"fmt"
	"math/big"
	"os"
	"path/filepath"
	"strings"

	"github.com/9elements/converged-security-suite/v2/cmd/exp/pcr0tool/commands/dumpregisters/helpers"
	"github.com/9elements/converged-security-suite/v2/pkg/registers"
	"gopkg.in/yaml.v3"
	"verifharness/gal"
)

func regOptLit(r registers.Register) string {
	if r == nil {
		return "None"
	}
	return "(Some " + regLit(r) + ")"
}

func sortedByAddrID(rs registers.Registers) bool {
	for i := 1; i < len(rs); i++ {
		a, b := rs[i-1], rs[i]
		if a.Address() > b.Address() || (a.Address() == b.Address() && a.ID() > b.ID()) {
			return false
		}
	}
	return true
}

func sizeClass(n int) string {
	switch {
	case n == 0:
		return "0"
	case n == 1:
		return "1"
	case n <= 4:
		return "2-4"
	case n <= 10:
		return "5-10"
	case n < len(protos):
		return "11-25"
	}
	return "26"
}

func runOps(c *gal.Ctx, tmp string) {
	n := c.Scale(220, 2600)
	vias := []string{"variable", "struct-field", "FlagRegisters.Set"}
	blanks := []string{"", "\n", "# registers\n"}
	for i := 0; i < n; i++ {
		via := vias[c.Rng.Intn(len(vias))]
		var dst registers.Registers
		initHow := "nil"
		switch c.Rng.Intn(5) {
		case 0:
		case 1:
			dst, initHow = registers.Registers{}, "empty"
		case 2:
			filled := randRegs(c, 1+c.Rng.Intn(4))
			dst = make(registers.Registers, len(filled), len(filled)+1+c.Rng.Intn(30))
			copy(dst, filled)
			initHow = "filled, spare capacity"
		default:
			dst, initHow = randRegs(c, 1+seqSize(c)), "filled"
		}
		init := append(registers.Registers{}, dst...)
		h := &holder{Regs: dst}
		flag := (*helpers.FlagRegisters)(&h.Regs)
		steps := 3 + c.Rng.Intn(6)
		c.Count(fmt.Sprintf("ops_history_len_%d", steps))
		c.Count("ops_init_" + strings.ReplaceAll(initHow, ", ", "_"))
		var opLits, after []string
		var judges []func(idx int)
		var trail []map[string]interface{}
		modelled := true
		for s := 0; s < steps; s++ {
			before := append(registers.Registers{}, h.Regs...)
			d := map[string]interface{}{"via": via, "destination_initially": initHow, "variable_before_call": regsJSON(before), "call": s + 1}
			if len(trail) > 0 {
				d["earlier_calls"] = append([]map[string]interface{}{}, trail...)
			}
			what := fmt.Sprintf("call %d of a history on one variable holding %d register(s)", s+1, len(before))
			var opLit, shown, opName string
			var panicked bool
			var msg string
			var judgeOp func(idx int, got registers.Registers)
			k := c.Rng.Intn(100)
			if len(before) == 0 && c.Rng.Intn(3) > 0 {
				k = c.Rng.Intn(34) // little to show in an empty variable: fill it first, most of the time
			} else if s > 0 && strings.HasPrefix(opLits[s-1], "(OUnmarshal (DJson") && !sortedByAddrID(before) && c.Rng.Intn(2) == 0 {
				k = 34 // a Sort that has something to do
			}
			switch {
			case k < 34: // ---- Unmarshal
				prev := before
				if len(prev) == 0 {
					prev = randRegs(c, 1+seqSize(c))
				}
				sd := genSeqDoc(c, prev)
				opName = "unmarshal_" + sd.format
				modelled = modelled && sd.modelled
				d["op"], d["format"], d["document"], d["document_from"] = "Unmarshal", sd.format, sd.text, sd.how
				if sd.want != nil {
					d["denotes"] = regsJSON(sd.want)
				}
				c.Begin("unmarshalling into a variable with a history", "pkg/registers/registers.go:UnmarshalJSON/UnmarshalYAML", d)
				var err error
				panicked, msg = gal.Recover(func() {
					switch via {
					case "variable":
						if sd.format == "json" {
							err = json.Unmarshal([]byte(sd.text), &h.Regs)
						} else {
							err = yaml.Unmarshal([]byte(sd.text), &h.Regs)
						}
					case "struct-field":
						if sd.format == "json" {
							err = json.Unmarshal([]byte(`{"regs":`+sd.text+`}`), h)
						} else {
							err = yaml.Unmarshal([]byte("regs:\n  "+strings.ReplaceAll(strings.TrimSuffix(sd.text, "\n"), "\n", "\n  ")+"\n"), h)
						}
					default:
						fn := filepath.Join(tmp, fmt.Sprintf("ops-%d-%d.%s", i, s, sd.format))
						if werr := os.WriteFile(fn, []byte(sd.text), 0o644); werr != nil {
							panic(werr)
						}
						err = flag.Set(fn)
						_ = os.Remove(fn)
					}
				})
				opLit, shown = "(OUnmarshal "+sd.lit()+")", "(SCall "+gal.Bool(err == nil)+")"
				if err == nil {
					c.Count("ops_unmarshal_accepted")
				} else {
					c.Count("ops_unmarshal_refused")
				}
				judgeOp = func(idx int, got registers.Registers) {
					w := what + fmt.Sprintf(" (Unmarshal %s, %s)", sd.format, via)
					if !panicked && err != nil && regsLit(before) != regsLit(got) {
						c.OracleFail(idx, w+" is refused ("+err.Error()+") but changes the variable: "+fmt.Sprintf("before %v after %v", regsJSON(before), regsJSON(got)), "pkg/registers/registers.go:UnmarshalJSON/UnmarshalYAML", d)
						return
					}
					if sd.want == nil {
						if panicked {
							c.OracleFail(idx, w+" panics: "+msg, "pkg/registers/registers.go", d)
						} else {
							c.OracleOK()
						}
						return
					}
					judge(c, idx, w, sd.want, sd.must, sd.yes, panicked, msg, err, got, "pkg/registers/registers.go:UnmarshalJSON/UnmarshalYAML (the variable must be replaced)", d)
				}
			case k < 48: // ---- Sort
				opName = "sort"
				d["op"] = "Sort"
				if sortedByAddrID(before) {
					c.Count("ops_sort_already_sorted")
				} else {
					c.Count("ops_sort_reorders")
				}
				panicked, msg = gal.Recover(func() { h.Regs.Sort() })
				opLit, shown = "OSort", "SNone"
				judgeOp = func(idx int, got registers.Registers) {
					switch {
					case panicked:
						c.OracleFail(idx, what+" (Sort) panics: "+msg, "pkg/registers/registers.go:Sort", d)
					case sameSet(before, got) != "":
						c.OracleFail(idx, what+" (Sort) changes the registers: "+sameSet(before, got), "pkg/registers/registers.go:Sort", d)
					case !sortedByAddrID(got):
						c.OracleFail(idx, what+fmt.Sprintf(" (Sort) leaves the registers out of (address, ID) order: %v", regsJSON(got)), "pkg/registers/registers.go:Sort", d)
					default:
						c.OracleOK()
					}
				}
			case k < 72: // ---- Marshal
				isJSON := k < 60
				var b []byte
				var err error
				var site string
				if isJSON {
					opName, site = "marshal_json", "pkg/registers/registers.go:MarshalJSON"
					d["op"] = "json.Marshal"
					panicked, msg = gal.Recover(func() { b, err = json.Marshal(h.Regs) })
					es, ok := readJSONDoc(b)
					opLit, shown = "OMarshalJSON", "(SJson RErr)"
					if err == nil && ok {
						shown = "(SJson (ROk " + jentriesLit(es) + "))"
					}
				} else {
					opName, site = "marshal_yaml", "pkg/registers/registers.go:MarshalYAML"
					d["op"] = "yaml.Marshal"
					panicked, msg = gal.Recover(func() { b, err = yaml.Marshal(h.Regs) })
					es, ok := readYAMLDoc(b)
					opLit, shown = "OMarshalYAML", "(SYaml RErr)"
					if err == nil && ok {
						shown = "(SYaml (ROk " + yentriesLit(es) + "))"
						modelled = modelled && entriesModelled(es)
					}
				}
				d["written"] = string(b)
				c.Count("ops_marshal_of_" + sizeClass(len(before)) + "_registers")
				judgeOp = func(idx int, got registers.Registers) {
					w := what + " (" + d["op"].(string) + ")"
					switch {
					case panicked || err != nil:
						c.OracleFail(idx, fmt.Sprintf("%s fails on a collection of supported registers: %v %s", w, err, msg), site, d)
						return
					case regsLit(before) != regsLit(got):
						c.OracleFail(idx, fmt.Sprintf("%s changes the collection it serialises: before %v after %v", w, regsJSON(before), regsJSON(got)), site, d)
						return
					}
					// what was written parses back, into a fresh variable, to the same registers
					var back registers.Registers
					var uerr error
					p2, m2 := gal.Recover(func() {
						if isJSON {
							uerr = json.Unmarshal(b, &back)
						} else {
							uerr = yaml.Unmarshal(b, &back)
						}
					})
					switch {
					case p2:
						c.OracleFail(idx, w+": parsing what was written panics: "+m2, site, d)
					case uerr != nil && !isJSON && knownSmallKeyRoundTrip(before):
						c.OracleFailKnown(idx, "C16-yaml-small-public-key", w+": the document written for a reached state holding a TXT.PUBLIC.KEY whose first 24 bytes are zero does not parse back: "+uerr.Error(), "pkg/registers/registers.go:MarshalYAML / marshal_value.go:valueUnpack", d)
					case uerr != nil:
						c.OracleFail(idx, fmt.Sprintf("%s: the document written for a reached state does not parse back: %v; document %q", w, uerr, b), site, d)
					case sameSet(before, back) != "":
						c.OracleFail(idx, w+": the document written for a reached state parses back to other registers: "+sameSet(before, back), site, d)
					case isJSON && regsLit(before) != regsLit(back):
						c.OracleFail(idx, w+": the legacy JSON round trip of a reached state changes the order of the registers", site, d)
					default:
						c.OracleOK()
					}
				}
			case k < 90: // ---- Find
				opName = "find"
				var id registers.RegisterID
				switch j := c.Rng.Intn(10); {
				case j < 6 && len(before) > 0:
					id = before[c.Rng.Intn(len(before))].ID()
				case j < 9:
					id = protos[c.Rng.Intn(len(protos))].ID()
				default:
					id = "BOGUS.REGISTER"
				}
				d["op"], d["id"] = "Find", string(id)
				var r registers.Register
				panicked, msg = gal.Recover(func() { r = h.Regs.Find(id) })
				opLit, shown = "(OFind "+gal.Str2(string(id))+")", "(SFound "+regOptLit(r)+")"
				if r == nil {
					c.Count("ops_find_miss")
				} else {
					c.Count("ops_find_hit")
				}
				judgeOp = func(idx int, got registers.Registers) {
					var want registers.Register
					for _, x := range before {
						if x.ID() == id {
							want = x
							break
						}
					}
					switch {
					case panicked:
						c.OracleFail(idx, what+" (Find) panics: "+msg, "pkg/registers/registers.go:Find", d)
					case regsLit(before) != regsLit(got):
						c.OracleFail(idx, what+" (Find) changes the collection", "pkg/registers/registers.go:Find", d)
					case (want == nil) != (r == nil) || (want != nil && regLit(want) != regLit(r)):
						c.OracleFail(idx, fmt.Sprintf("%s: Find(%s) returns %s, the collection holds %s", what, id, regOptLit(r), regOptLit(want)), "pkg/registers/registers.go:Find", d)
					default:
						c.OracleOK()
					}
				}
			default: // ---- FlagRegisters.Set without a document
				var err error
				var wantErr bool
				switch {
				case k < 93:
					opName, opLit = "set_no_path", "OSetNoPath"
					d["op"] = `FlagRegisters.Set("")`
					panicked, msg = gal.Recover(func() { err = flag.Set("") })
				case k < 96:
					opName, opLit, wantErr = "set_missing_file", "OSetMissing", true
					fn := filepath.Join(tmp, fmt.Sprintf("no-such-file-%d-%d", i, s))
					d["op"] = "FlagRegisters.Set(path of a file that does not exist)"
					panicked, msg = gal.Recover(func() { err = flag.Set(fn) })
				default:
					opName, opLit = "set_blank_file", "OSetBlank"
					text := blanks[c.Rng.Intn(len(blanks))]
					fn := filepath.Join(tmp, fmt.Sprintf("blank-%d-%d", i, s))
					if werr := os.WriteFile(fn, []byte(text), 0o644); werr != nil {
						panic(werr)
					}
					d["op"], d["document"] = "FlagRegisters.Set(file without a document)", text
					panicked, msg = gal.Recover(func() { err = flag.Set(fn) })
					_ = os.Remove(fn)
				}
				shown = "(SCall " + gal.Bool(err == nil) + ")"
				judgeOp = func(idx int, got registers.Registers) {
					w := what + " (" + d["op"].(string) + ")"
					switch {
					case panicked:
						c.OracleFail(idx, w+" panics: "+msg, "cmd/exp/pcr0tool/commands/dumpregisters/helpers/flag_registers.go:Set", d)
					case regsLit(before) != regsLit(got):
						c.OracleFail(idx, fmt.Sprintf("%s read no document but changes the variable: before %v after %v", w, regsJSON(before), regsJSON(got)), "cmd/exp/pcr0tool/commands/dumpregisters/helpers/flag_registers.go:Set", d)
					case wantErr && err == nil:
						c.OracleFail(idx, w+" reports no error", "cmd/exp/pcr0tool/commands/dumpregisters/helpers/flag_registers.go:Set", d)
					default:
						c.OracleOK()
					}
				}
			}
			c.Count("ops_op_" + opName)
			got := append(registers.Registers{}, h.Regs...)
			opLits = append(opLits, opLit)
			if panicked {
				after = append(after, "None")
			} else {
				after = append(after, "(Some "+gal.Pair(regsLit(got), shown)+")")
			}
			trail = append(trail, map[string]interface{}{"op": d["op"], "document": d["document"], "id": d["id"]})
			{
				j, got := judgeOp, got
				judges = append(judges, func(idx int) { j(idx, got) })
			}
			if panicked {
				break
			}
		}
		idx := -1
		if modelled {
			idx = c.Add("ops_history", fmt.Sprintf("COps %s %s %s", regsLit(init), gal.List(opLits), gal.List(after)),
				map[string]interface{}{"via": via, "variable_initially": regsJSON(init), "calls": trail}, true)
		} else {
			c.Count("ops_history_oracle_only")
		}
		for _, f := range judges {
			f(idx)
		}
	}
}

// ---- boundary families: one family per comparison the code (or the decoder under it) makes ----

func pow2(k uint) *big.Int { return new(big.Int).Lsh(big.NewInt(1), k) }

// a collection through yaml.Marshal / yaml.Unmarshal, judged like the "yaml" cases of main.go
func yamlRoundTripCase(c *gal.Ctx, kind string, regs registers.Registers, boundary string) {
	d := map[string]interface{}{"registers": regsJSON(regs), "boundary": boundary}
	var out registers.Registers
	var err error
	panicked, msg := gal.Recover(func() {
		var b []byte
		b, err = yaml.Marshal(regs)
		if err == nil {
			err = yaml.Unmarshal(b, &out)
		}
	})
	idx := c.Add(kind, fmt.Sprintf("CYAML %s %s", regsLit(regs), obsRegs(panicked, err, out)), d, true)
	switch {
	case !panicked && err != nil && knownSmallKeyRoundTrip(regs):
		c.OracleFailKnown(idx, "C16-yaml-small-public-key", "YAML round trip of a TXT.PUBLIC.KEY whose first 24 bytes are zero fails ("+boundary+"): "+err.Error(), "pkg/registers/registers.go:MarshalYAML / marshal_value.go:valueUnpack", d)
	case panicked || err != nil:
		c.OracleFail(idx, fmt.Sprintf("YAML round trip fails (%s): %v %s", boundary, err, msg), "pkg/registers/registers.go", d)
	case sameSet(regs, out) != "":
		c.OracleFail(idx, "YAML round trip changes the collection ("+boundary+"): "+sameSet(regs, out), "pkg/registers/registers.go:MarshalYAML/UnmarshalYAML", d)
	default:
		c.OracleOK()
	}
}

func runBoundaries(c *gal.Ctx) {
	// 1. the integer resolution of yaml.v3 (int below 2^63, uint64 below 2^64) under every
	//    64-bit register, and the top of every narrower one
	for _, p := range protos {
		if isKey(p) {
			continue
		}
		w := uint(widthOf(p))
		var vals []*big.Int
		for _, k := range []uint{w - 1, w} {
			vals = append(vals, new(big.Int).Sub(pow2(k), big.NewInt(1)), pow2(k))
		}
		for _, v := range vals {
			if v.BitLen() > int(w) {
				continue
			}
			yamlRoundTripCase(c, "yaml_boundary_int", registers.Registers{mk(p, v)}, fmt.Sprintf("raw %#x of the %d-bit %s", v, w, p.ID()))
		}
	}
	// 2. the key: its hexadecimal text as a number around 2^64 (below: known finding)
	for _, be := range []*big.Int{new(big.Int).Sub(pow2(64), big.NewInt(1)), pow2(64), new(big.Int).Add(pow2(64), big.NewInt(1)), pow2(63), pow2(255), big.NewInt(1)} {
		// be is the big-endian reading of the 32 bytes; mk wants the little-endian number
		b := make([]byte, 32)
		be.FillBytes(b)
		yamlRoundTripCase(c, "yaml_boundary_key", registers.Registers{mk(registers.TXTPublicKey{}, leNumber(b))}, fmt.Sprintf("key whose hexadecimal text is the number %#x", be))
	}
	// 3. ParseUint's bit size: the largest value of the register's width as a QUOTED hexadecimal
	//    string must come back, one more hexadecimal digit / one more bit denotes no value
	for _, p := range protos {
		if isKey(p) {
			continue
		}
		w := uint(8 * serWidth(p))
		top := new(big.Int).Sub(pow2(w), big.NewInt(1))
		r := mk(p, top)
		if fitsType(p, top) {
			runYamlDoc(c, "yaml_boundary_hex_width", []yentry{{ID: string(p.ID()), Quoted: true, quote: '"', Text: "0x" + top.Text(16)}}, registers.Registers{r}, true, "hex, largest value of the width")
		}
		for _, over := range []*big.Int{pow2(w), new(big.Int).Add(pow2(w), top), pow2(w + 3)} {
			e := yentry{ID: string(p.ID()), Quoted: true, quote: '\'', Text: "0x" + over.Text(16)}
			doc := docText([]yentry{e})
			d := map[string]interface{}{"yaml": doc, "boundary": fmt.Sprintf("%#x does not fit the %d-bit serialisation of %s", over, w, p.ID())}
			var out registers.Registers
			var err error
			panicked, msg := gal.Recover(func() { err = yaml.Unmarshal([]byte(doc), &out) })
			idx := c.Add("yaml_boundary_hex_too_wide", fmt.Sprintf("CYamlDoc %s %s", yentriesLit([]yentry{e}), obsRegs(panicked, err, out)), d, true)
			switch {
			case panicked:
				c.OracleFail(idx, fmt.Sprintf("UnmarshalYAML panics on %q: %s", doc, msg), "pkg/registers/marshal_value.go:valueFromHex", d)
			case err == nil:
				c.OracleFail(idx, fmt.Sprintf("the YAML document %q is accepted (%v): the hexadecimal string is wider than the register and denotes no value of it", doc, regsJSON(out)), "pkg/registers/marshal_value.go:valueFromHex", d)
			default:
				c.OracleOK()
			}
		}
	}
	// 4. registers.New: the length test of the byte-array register, one below / at / one above
	for _, l := range []int{1, 31, 32, 33, 64} {
		b := make([]byte, l)
		c.Rng.Read(b)
		for _, p := range []registers.Register{registers.TXTPublicKey{}, registers.TXTStatus(0)} {
			var nr registers.Register
			var err error
			panicked, msg := gal.Recover(func() { nr, err = registers.New(p.ID(), b) })
			obs := "OErr"
			if panicked {
				obs = "OPanic"
			} else if err == nil {
				obs = "(OOk " + regLit(nr) + ")"
			}
			d := map[string]interface{}{"id": string(p.ID()), "value": fmt.Sprintf("[]byte of length %d", l)}
			idx := c.Add("new_boundary_bytes_len", fmt.Sprintf("CNew %s (VBytes %s) %s", gal.Str2(string(p.ID())), gal.Bytes(b), obs), d, true)
			switch {
			case panicked:
				c.OracleFail(idx, fmt.Sprintf("registers.New(%s, %d bytes) panics: %s", p.ID(), l, msg), "pkg/registers/registry.go:New", d)
			case isKey(p) && l == 32 && (err != nil || sameSet([]registers.Register{mk(p, leNumber(b))}, []registers.Register{nr}) != ""):
				c.OracleFail(idx, fmt.Sprintf("registers.New(TXT.PUBLIC.KEY, its own 32 bytes) does not yield the key: %v", err), "pkg/registers/registry.go:New", d)
			case (!isKey(p) || l != 32) && err == nil:
				c.OracleFail(idx, fmt.Sprintf("registers.New(%s, %d bytes) accepts an incompatible value", p.ID(), l), "pkg/registers/registry.go:New", d)
			default:
				c.OracleOK()
			}
		}
	}
}
