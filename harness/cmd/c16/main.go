// C16 harness: serialisation round trips of register collections (YAML, legacy
// JSON, raw bytes) and registers.New, against Model/Marshal.v.
package main

import (
	"encoding/json"
	"flag"
	"fmt"
	"math/big"
	"os"
	"reflect"
	"sort"
	"strings"

	"github.com/9elements/converged-security-suite/v2/pkg/registers"
	"gopkg.in/yaml.v3"
	"verifharness/gal"
)

const header = `From Coq Require Import NArith List String.
From CSS Require Import Lib.Base Lib.Cases Model.Marshal Model.MarshalOps Model.MarshalCases.
Import ListNotations.
Open Scope N_scope.
Open Scope string_scope.`

var protos = []registers.Register{
	registers.ACMPolicyStatus(0), registers.ACMStatus(0), registers.BTGSACMInfo(0), registers.BootGuardPBEC(0),
	registers.IA32DebugInterface(0), registers.IA32FeatureControl(0), registers.IA32MTRRCAP(0), registers.IA32PlatformID(0),
	registers.IA32SMRRPhysBase(0), registers.IA32SMRRPhysMask(0), registers.MP0C2PMsg37(0), registers.MP0C2PMsg38(0),
	registers.TXTBootStatus(0), registers.TXTDMAProtectedRange(0), registers.TXTDeviceID(0), registers.TXTErrorCode(0),
	registers.TXTErrorStatus(0), registers.TXTHeapBase(0), registers.TXTHeapSize(0), registers.TXTMLEJoin(0),
	registers.TXTSInitBase(0), registers.TXTSInitSize(0), registers.TXTStatus(0), registers.TXTVerEMIF(0),
	registers.TXTVerFSBIF(0), registers.TXTPublicKey{},
}

// raw value of a register as a big integer (little-endian for the key), and its width in bits
func rawOf(r registers.Register) (*big.Int, bool) {
	v := reflect.ValueOf(r)
	switch v.Kind() {
	case reflect.Uint8, reflect.Uint16, reflect.Uint32, reflect.Uint64:
		return new(big.Int).SetUint64(v.Uint()), true
	case reflect.Array:
		n := v.Len()
		b := make([]byte, n)
		for i := 0; i < n; i++ {
			b[n-1-i] = byte(v.Index(i).Uint())
		}
		return new(big.Int).SetBytes(b), true
	}
	return nil, false
}

func widthOf(r registers.Register) int { return int(reflect.TypeOf(r).Size()) * 8 }

// make a register of the type of proto holding raw (truncated to the type's width)
func mk(proto registers.Register, raw *big.Int) registers.Register {
	t := reflect.TypeOf(proto)
	v := reflect.New(t).Elem()
	switch t.Kind() {
	case reflect.Array:
		b := raw.Bytes() // big endian
		for i := 0; i < len(b) && i < t.Len(); i++ {
			v.Index(i).SetUint(uint64(b[len(b)-1-i]))
		}
	default:
		m := new(big.Int).And(raw, new(big.Int).Sub(new(big.Int).Lsh(big.NewInt(1), uint(t.Size())*8), big.NewInt(1)))
		v.SetUint(m.Uint64())
	}
	return v.Interface().(registers.Register)
}

func regLit(r registers.Register) string {
	if r == nil { // a nil entry in a parsed collection: no register of the model has this ID
		return "(\"<nil>\", 0)"
	}
	raw, _ := rawOf(r)
	return fmt.Sprintf("(%s, %s)", gal.Str2(string(r.ID())), gal.Big(raw))
}

func regsLit(rs []registers.Register) string {
	s := make([]string, len(rs))
	for i, r := range rs {
		s[i] = regLit(r)
	}
	return gal.List(s)
}

func regsJSON(rs []registers.Register) []map[string]string {
	var o []map[string]string
	for _, r := range rs {
		if r == nil {
			o = append(o, map[string]string{"id": "<nil>"})
			continue
		}
		raw, _ := rawOf(r)
		o = append(o, map[string]string{"id": string(r.ID()), "raw": "0x" + raw.Text(16)})
	}
	return o
}

func randRaw(c *gal.Ctx, w int) *big.Int {
	full := new(big.Int).Sub(new(big.Int).Lsh(big.NewInt(1), uint(w)), big.NewInt(1))
	switch c.Rng.Intn(8) {
	case 0:
		return big.NewInt(0)
	case 1:
		return full
	case 2:
		return new(big.Int).Lsh(big.NewInt(1), uint(c.Rng.Intn(w)))
	case 3:
		return new(big.Int).Xor(full, new(big.Int).Lsh(big.NewInt(1), uint(c.Rng.Intn(w))))
	case 4: // small: leading zero bytes/nibbles matter for the hex encoding
		return big.NewInt(int64(c.Rng.Intn(0x1000)))
	case 5: // exactly one byte above 8/16/32 bits
		k := []int{8, 16, 32}[c.Rng.Intn(3)]
		if k >= w {
			k = w - 1
		}
		return new(big.Int).Lsh(big.NewInt(int64(1+c.Rng.Intn(255))), uint(k))
	}
	b := make([]byte, w/8)
	c.Rng.Read(b)
	return new(big.Int).SetBytes(b)
}

// the key's hexadecimal rendering is a number below 2^64 (first 24 bytes zero)
func smallKey(regs registers.Registers) bool {
	for _, r := range regs {
		if k, ok := r.(registers.TXTPublicKey); ok {
			small := true
			for _, b := range k[:24] {
				if b != 0 {
					small = false
				}
			}
			if small {
				return true
			}
		}
	}
	return false
}

func sameSet(a, b []registers.Register) string {
	key := func(r registers.Register) string {
		if r == nil {
			return "<nil>"
		}
		raw, _ := rawOf(r)
		return string(r.ID()) + "=" + raw.Text(16)
	}
	ka, kb := []string{}, []string{}
	for _, r := range a {
		ka = append(ka, key(r))
	}
	for _, r := range b {
		kb = append(kb, key(r))
	}
	sort.Strings(ka)
	sort.Strings(kb)
	if strings.Join(ka, ",") != strings.Join(kb, ",") {
		return fmt.Sprintf("in: %v out: %v", ka, kb)
	}
	return ""
}

func main() {
	dump := flag.Bool("dump", false, "print the register table and exit")
	c := gal.New("C16", header, 350)
	if *dump {
		for _, p := range protos {
			b, _ := registers.ValueBytes(mk(p, big.NewInt(1)))
			fmt.Printf("(%q, %d, %d, %d)\n", p.ID(), widthOf(p), len(b), p.Address())
		}
		return
	}
	// ---- ValueBytes / ValueFromBytes / New per type ----
	for _, p := range protos {
		w := widthOf(p)
		n := c.Scale(24, 300)
		for i := 0; i < n; i++ {
			raw := randRaw(c, w)
			r := mk(p, raw)
			lit := regLit(r)
			d := map[string]interface{}{"id": string(p.ID()), "raw": "0x" + raw.Text(16)}
			// bytes round trip
			var b []byte
			var err error
			var back registers.Register
			panicked, msg := gal.Recover(func() {
				b, err = registers.ValueBytes(r)
				if err == nil {
					back, err = registers.ValueFromBytes(r.ID(), b)
				}
			})
			obs := "OErr"
			if panicked {
				obs = "OPanic"
			} else if err == nil {
				obs = "(OOk " + regLit(back) + ")"
			}
			idx := c.Add("bytes_roundtrip", fmt.Sprintf("CBytesRT %s %s %s", lit, gal.Bytes(b), obs), d, raw.Sign() != 0)
			if panicked || err != nil {
				c.OracleFail(idx, fmt.Sprintf("ValueBytes/ValueFromBytes of %s raw %#x fails: %v %s", p.ID(), raw, err, msg), "pkg/registers/marshalling.go", d)
			} else if x := sameSet([]registers.Register{r}, []registers.Register{back}); x != "" {
				c.OracleFail(idx, "raw-bytes round trip changes the register: "+x, "pkg/registers/marshalling.go:ValueFromBytes", d)
			} else {
				c.OracleOK()
			}
			// New(id, value of the register's own width)
			var nr registers.Register
			panicked, msg = gal.Recover(func() { nr, err = registers.New(r.ID(), r.Value()) })
			obs = "OErr"
			if panicked {
				obs = "OPanic"
			} else if err == nil {
				obs = "(OOk " + regLit(nr) + ")"
			}
			idx = c.Add("new_own_width", fmt.Sprintf("CNewOwn %s %s", lit, obs), d, raw.Sign() != 0)
			if panicked || err != nil {
				c.OracleFail(idx, fmt.Sprintf("New(%s, own-width value %#x) fails: %v %s", p.ID(), raw, err, msg), "pkg/registers/registry.go:New", d)
			} else if x := sameSet([]registers.Register{r}, []registers.Register{nr}); x != "" {
				c.OracleFail(idx, "New with a value of the register's own width yields another raw value: "+x, "pkg/registers/registry.go:New", d)
			} else {
				c.OracleOK()
			}
		}
		// every byte length around the register's serialised width (widths.go)
		runFromBytesWidths(c, p)
	}
	// ---- New as a public constructor: every identifier x every kind of value (newvals.go) ----
	runNewValues(c)
	// ---- collections: JSON and YAML ----
	nc := c.Scale(150, 2000)
	for i := 0; i < nc; i++ {
		perm := c.Rng.Perm(len(protos))
		k := c.Rng.Intn(len(protos) + 1)
		if i%10 == 0 {
			k = len(protos)
		}
		var regs registers.Registers
		for _, j := range perm[:k] {
			regs = append(regs, mk(protos[j], randRaw(c, widthOf(protos[j]))))
		}
		d := map[string]interface{}{"registers": regsJSON(regs)}
		// JSON (legacy)
		{
			var out registers.Registers
			var err error
			panicked, msg := gal.Recover(func() {
				var b []byte
				b, err = json.Marshal(regs)
				if err == nil {
					err = json.Unmarshal(b, &out)
				}
			})
			obs := "OErr"
			if panicked {
				obs = "OPanic"
			} else if err == nil {
				obs = "(OOk " + regsLit(out) + ")"
			}
			idx := c.Add("json", fmt.Sprintf("CJSON %s %s", regsLit(regs), obs), d, k > 0)
			if panicked || err != nil {
				c.OracleFail(idx, fmt.Sprintf("JSON round trip fails: %v %s", err, msg), "pkg/registers/registers.go", d)
			} else if x := sameSet(regs, out); x != "" {
				c.OracleFail(idx, "JSON round trip changes the collection: "+x, "pkg/registers/registers.go:MarshalJSON/UnmarshalJSON", d)
			} else {
				c.OracleOK()
			}
		}
		// YAML
		{
			var out registers.Registers
			var err error
			panicked, msg := gal.Recover(func() {
				var b []byte
				b, err = yaml.Marshal(regs)
				if err == nil {
					err = yaml.Unmarshal(b, &out)
				}
			})
			obs := "OErr"
			if panicked {
				obs = "OPanic"
			} else if err == nil {
				obs = "(OOk " + regsLit(out) + ")"
			}
			idx := c.Add("yaml", fmt.Sprintf("CYAML %s %s", regsLit(regs), obs), d, k > 0)
			if !panicked && err != nil && knownSmallKeyRoundTrip(regs) {
				c.OracleFailKnown(idx, "C16-yaml-small-public-key", "YAML round trip of a TXT.PUBLIC.KEY whose first 24 bytes are zero fails: "+err.Error(), "pkg/registers/registers.go:MarshalYAML / marshal_value.go:valueUnpack", d)
			} else if panicked || err != nil {
				c.OracleFail(idx, fmt.Sprintf("YAML round trip fails: %v %s", err, msg), "pkg/registers/registers.go", d)
			} else if x := sameSet(regs, out); x != "" {
				c.OracleFail(idx, "YAML round trip changes the collection: "+x, "pkg/registers/registers.go:MarshalYAML/UnmarshalYAML", d)
			} else {
				// independent of the order given: the same collection reversed gives the same result
				var rev registers.Registers
				for j := len(regs) - 1; j >= 0; j-- {
					rev = append(rev, regs[j])
				}
				var out2 registers.Registers
				b2, _ := yaml.Marshal(rev)
				_ = yaml.Unmarshal(b2, &out2)
				if regsLit(out) != regsLit(out2) {
					c.OracleFail(idx, "YAML round trip result depends on the order in which the registers were given", "pkg/registers/registers.go:Sort", d)
				} else {
					c.OracleOK()
				}
			}
		}
	}
	{
		var out registers.Registers
		b, _ := yaml.Marshal(registers.Registers{registers.TXTPublicKey{}})
		err := yaml.Unmarshal(b, &out)
		c.Probe("C16-yaml-small-public-key", err != nil, "yaml.Marshal then yaml.Unmarshal of Registers{TXTPublicKey{} (all zero)} returns an error")
	}
	// value forms, harness-written documents, what Marshal writes, reused destinations (forms.go)
	runForms(c)
	runMalformed(c)
	runWidths(c)
	runMarshalled(c)
	tmp, terr := os.MkdirTemp("", "c16-")
	if terr != nil {
		panic(terr)
	}
	runSequences(c, tmp)
	// histories of calls on one variable, boundary families (ops.go)
	runOps(c, tmp)
	_ = os.RemoveAll(tmp)
	runBoundaries(c)
	c.Finish("per register type: raw-bytes round trip and New(id, own-width value) on zero/all-ones/single-bit/all-but-one-bit/small/byte-boundary/random raw values, ValueFromBytes on nil and EVERY byte length 0..40 (exhaustive sweep of the dispatch: every register type, its ID checked against the registry, and 7 unknown ids), 2*width, 2*width+1 and a longer one (random / all-ones / all-zero content) judged against the register's serialised width (value iff the length is the width, then the little-endian number), unknown ids; registers.New as a constructor: each of the 26 identifiers and 4 unknown ones (arbitrary, empty, a registered one in lower case / with a trailing blank) x 80 values - a register value of EVERY register type (small or full-width raw), the own type in both size classes, pointers to register values, every Go integer type (unsigned of each width, named, signed, negative), byte slices and byte arrays of 32, 31, 33, 4, 2, 0 bytes and of the register's serialised width and one more, the same lengths in NAMED byte-slice types (a harness type and registers.TXTConfigSpace: may be refused at any length, never panic, never be cut), nil, string, bool, struct, map, other slices - judged from the property text: no panic, unknown id = error, an accepted result IS a register of the requested identifier (ID, Go type, found by Find), keeps a number that fits / the bytes handed over, own-width values must be accepted, values of another kind (integer <-> 32-byte register, wrong byte length, no number and no bytes) must be refused; random sub-collections (in random order) through legacy JSON and YAML; every textual form of a YAML value (0x/0X, lower/upper/mixed-case and zero-padded digits, decimal, base64:<std base64 of ValueBytes>, each plain and quoted) for every register type alone and mixed inside whole collections, with the collection the document denotes as the expected result; malformed and borderline scalars (wrong widths, broken base64, wrong-case prefixes, repeated and unknown keys); the entries json.Marshal / yaml.Marshal write, read back with plain decoders; 2-4 documents (package-written JSON/YAML, harness-written, malformed) unmarshalled one after another into ONE destination (nil, empty, filled, filled with spare capacity) directly, as a struct field and through helpers.FlagRegisters.Set; for every register type legacy-JSON and YAML documents (alone or among healthy entries, into nil/filled destinations) with ONE entry of another width: no bytes (JSON value '', null, no value field; YAML 'base64:', '0x', '', ~, no value), one byte short, shorter, one byte long, longer, and the exact width as control, the key also in hexadecimal; histories of 3-8 calls on ONE variable (nil / empty / filled / spare capacity): Unmarshal of JSON and YAML documents (directly, as a struct field, through FlagRegisters.Set), Sort, json.Marshal and yaml.Marshal (the variable must stay as it is and what was written must parse back, into a fresh variable, to the same registers: the round trip in every REACHED state), Find of present / absent / unknown IDs, FlagRegisters.Set with an empty path, an unreadable path and a file without a document; boundary families: raw 2^(w-1)-1, 2^(w-1), 2^w-1 of every integer register through YAML (int / uint64 resolution of yaml.v3), keys whose hexadecimal text is 2^64-1, 2^64, 2^64+1, the largest value of the width as a quoted hexadecimal string and three wider ones per register (ParseUint bit size), New on byte slices of length 1, 31, 32, 33, 64; non-trivial = non-zero raw / non-empty collection; distinct = distinct Gallina literal")
}
