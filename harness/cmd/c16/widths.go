// C16 harness, third part: inputs that do NOT denote a value of the register.
//
// Oracle (from the property text): a serialised register value is a byte string of ONE
// length, the register's serialised width (the width of its declared raw accessor Raw():
// 1, 4 or 8 bytes, 32 for the key), and it denotes the little-endian number it spells.
// "Parsing it back yields the same raw values" therefore lets one demand of every transport
// (registers.ValueFromBytes, the legacy JSON entry {"id","value"}, the obsolete YAML value
// "base64:<text>", the hexadecimal YAML value of the key):
//   - a decoded register carries the value the transported bytes denote, and the ID asked for;
//   - bytes of any OTHER length — none at all (nil, empty, "value":"", "value":null, no value
//     field, "base64:", "0x", an empty or null YAML value), too few by 1..width-1, too many —
//     denote no value: they are "reported as an error", never turned into a made-up register,
//     and the document holding such an entry is refused as a whole, leaving the destination
//     as it was;
//   - nothing panics.
// Not judged: 8 bytes of ACM_STATUS whose upper half is non-zero (the serialisation is wider
// than the 32-bit register; the number does not fit), like the too-wide integers of forms.go.
package main

import (
	"encoding/base64"
	"encoding/hex"
	"encoding/json"
	"fmt"
	"math/big"
	"reflect"
	"strings"

	"github.com/9elements/converged-security-suite/v2/pkg/registers"
	"gopkg.in/yaml.v3"
	"verifharness/gal"
)

// repaired in /repo 4a8d65e; the probe below stays as a regression witness (a reproduced probe
// of a finding that is not open is a violation)
const formerTrailing = "C16-from-bytes-trailing-bytes-accepted"

// serialised width in bytes, read off the register's DECLARED raw accessor (the RawRegister*
// interfaces of registers.go), not off ValueBytes / ValueFromBytes
func serWidth(p registers.Register) int {
	m, ok := reflect.TypeOf(p).MethodByName("Raw")
	if !ok || m.Type.NumOut() != 1 {
		panic(fmt.Sprintf("register %T has no Raw() accessor", p))
	}
	out := m.Type.Out(0)
	switch out.Kind() {
	case reflect.Uint8, reflect.Uint16, reflect.Uint32, reflect.Uint64:
		return int(out.Size())
	case reflect.Slice: // variable-length accessor: the bytes of the register type itself
		return int(reflect.TypeOf(p).Size())
	}
	panic(fmt.Sprintf("register %T: unexpected Raw() type %v", p, out))
}

func leNumber(b []byte) *big.Int {
	be := make([]byte, len(b))
	for i := range b {
		be[len(b)-1-i] = b[i]
	}
	return new(big.Int).SetBytes(be)
}

// does the number fit the register's Go type (always, except 8 bytes for the 32-bit ACM_STATUS)
func fitsType(p registers.Register, n *big.Int) bool { return n.BitLen() <= widthOf(p) }

// n bytes none of which is zero where it matters: the first width bytes spell a number that
// fits the register type, whatever follows is non-zero
func widthBytes(c *gal.Ctx, p registers.Register, n int, style int) []byte {
	b := make([]byte, n)
	tb := widthOf(p) / 8
	w := serWidth(p)
	for i := range b {
		switch style {
		case 1:
			b[i] = 0xff
		case 2:
			b[i] = 0
		default:
			b[i] = byte(1 + c.Rng.Intn(255))
		}
		if i >= tb && i < w {
			b[i] = 0
		}
	}
	return b
}

// the lengths tried for a register of width w: EVERY length 0..sweepMax (the domain of
// ValueFromBytes' dispatch is finite: 26 identifiers, and beyond the widest register every
// length behaves alike), twice the width, a longer one
func widthLengths(c *gal.Ctx, w int) []int {
	var ls []int
	for l := 0; l <= sweepMax; l++ { // exhaustive: every length from none to beyond the widest register
		ls = append(ls, l)
	}
	for _, l := range []int{2 * w, 2*w + 1} {
		if l > sweepMax {
			ls = append(ls, l)
		}
	}
	return append(ls, sweepMax+1+c.Rng.Intn(40))
}

// every byte length 0..sweepMax is tried for every registered identifier and for the unknown ones
const sweepMax = 40

func describeBytes(p registers.Register, b []byte) map[string]interface{} {
	d := map[string]interface{}{"id": string(p.ID()), "bytes": hex.EncodeToString(b), "bytes_len": len(b), "serialised_width": serWidth(p)}
	if b == nil {
		d["bytes"] = "nil"
	}
	return d
}

// ---- 1. registers.ValueFromBytes on every length ----

func runFromBytesWidths(c *gal.Ctx, p registers.Register) {
	w := serWidth(p)
	// the identifier comes from the type's ID() method and must be one the registry knows
	if z, err := registers.New(p.ID(), nil); err != nil || z == nil || reflect.TypeOf(z) != reflect.TypeOf(p) {
		c.OracleFail(-1, fmt.Sprintf("register type %T (ID %s) is not what the registry holds under its ID: %v", p, p.ID(), err), "pkg/registers/registry.go", map[string]interface{}{"id": string(p.ID())})
	}
	type inp struct {
		b   []byte
		how string
	}
	ins := []inp{{nil, "nil"}}
	for _, l := range widthLengths(c, w) {
		ins = append(ins, inp{widthBytes(c, p, l, 0), "random"})
		if l == w || l == w+1 || l == w-1 {
			ins = append(ins, inp{widthBytes(c, p, l, 1), "all-ones"}, inp{widthBytes(c, p, l, 2), "all-zero"})
		}
		if l == w && widthOf(p)/8 < w { // the whole serialisation random, upper half included
			b := make([]byte, l)
			c.Rng.Read(b)
			ins = append(ins, inp{b, "random-all"})
		}
	}
	for _, in := range ins {
		b := in.b
		d := describeBytes(p, b)
		d["content"] = in.how
		c.Begin("registers.ValueFromBytes", "pkg/registers/marshalling.go:ValueFromBytes", d)
		var back registers.Register
		var err error
		panicked, msg := gal.Recover(func() { back, err = registers.ValueFromBytes(p.ID(), b) })
		obs := "OErr"
		if panicked {
			obs = "OPanic"
		} else if err == nil {
			obs = "(OOk " + regLit(back) + ")"
		}
		idx := c.Add("from_bytes", fmt.Sprintf("CFromBytes %s %s %s", gal.Str2(string(p.ID())), gal.Bytes(b), obs), d, len(b) > 0)
		judgeFromBytes(c, idx, p, b, panicked, msg, err, back, fmt.Sprintf("registers.ValueFromBytes(%s, %d byte(s))", p.ID(), len(b)), d)
	}
}

// what the property lets one demand of a decoded byte value
func judgeFromBytes(c *gal.Ctx, idx int, p registers.Register, b []byte, panicked bool, msg string, err error, back registers.Register, what string, d interface{}) {
	const site = "pkg/registers/marshalling.go:ValueFromBytes"
	w := serWidth(p)
	switch {
	case panicked:
		c.OracleFail(idx, what+" panics: "+msg, site, d)
	case len(b) != w && err == nil:
		got := "a nil register"
		if back != nil {
			raw, _ := rawOf(back)
			got = fmt.Sprintf("register %s raw %#x", back.ID(), raw)
		}
		c.OracleFail(idx, fmt.Sprintf("%s returns %s and no error: %d byte(s) do not denote a value of this %d-byte register", what, got, len(b), w), site, d)
	case len(b) != w:
		c.OracleOK() // refused
	case !fitsType(p, leNumber(b)):
		c.OracleOK() // not judged: the number is wider than the register (ACM_STATUS only)
	case err != nil:
		c.OracleFail(idx, fmt.Sprintf("%s refuses a value of the register's own serialised width: %v", what, err), site, d)
	case back == nil:
		c.OracleFail(idx, what+" returns neither a register nor an error", site, d)
	default:
		if x := sameSet([]registers.Register{mk(p, leNumber(b))}, []registers.Register{back}); x != "" {
			c.OracleFail(idx, what+" does not yield the value the bytes denote: "+x, site, d)
		} else {
			c.OracleOK()
		}
	}
}

func runFromBytesUnknown(c *gal.Ctx) {
	for _, id := range []string{"BOGUS.REGISTER", "", "txt.ests", "TXT.ESTS ", "TXT.PUBLIC.KEY ", "IA32_MTRRCA", "TXT.E2STS"} {
		if _, err := registers.New(registers.RegisterID(id), nil); err == nil {
			continue // registered after all: swept with the known ones
		}
		for l := 0; l <= sweepMax; l++ {
			b := make([]byte, l)
			c.Rng.Read(b)
			d := map[string]interface{}{"id": id, "bytes": hex.EncodeToString(b)}
			var back registers.Register
			var err error
			panicked, msg := gal.Recover(func() { back, err = registers.ValueFromBytes(registers.RegisterID(id), b) })
			obs := "OErr"
			if panicked {
				obs = "OPanic"
			} else if err == nil {
				obs = "(OOk " + regLit(back) + ")"
			}
			idx := c.Add("from_bytes_unknown_id", fmt.Sprintf("CFromBytes %s %s %s", gal.Str2(id), gal.Bytes(b), obs), d, true)
			if panicked || err == nil {
				c.OracleFail(idx, fmt.Sprintf("registers.ValueFromBytes(%q, %d bytes): an unknown identifier is not reported as an error (%s)", id, l, msg), "pkg/registers/marshalling.go:ValueFromBytes", d)
			} else {
				c.OracleOK()
			}
		}
	}
}

// ---- 2. documents with one entry that denotes no value ----

// a way to damage the value of one entry
type damage struct {
	name  string
	bytes []byte // what the entry carries (nil: no bytes at all)
	long  bool   // longer than the width
	exact bool   // control: exactly the width, must be accepted
}

func damagesFor(c *gal.Ctx, p registers.Register) []damage {
	w := serWidth(p)
	ds := []damage{{name: "empty"}, {name: "exact", bytes: widthBytes(c, p, w, 0), exact: true}}
	if w > 1 {
		ds = append(ds, damage{name: "one-short", bytes: widthBytes(c, p, w-1, 0)})
	}
	if w > 2 {
		ds = append(ds, damage{name: "short", bytes: widthBytes(c, p, 1+c.Rng.Intn(w-2), c.Rng.Intn(3))})
	}
	ds = append(ds, damage{name: "one-long", bytes: widthBytes(c, p, w+1, 0), long: true},
		damage{name: "long", bytes: widthBytes(c, p, w+2+c.Rng.Intn(2*w+6), 0), long: true})
	return ds
}

// the other, healthy registers of the document and where the damaged entry goes
func neighbours(c *gal.Ctx, p registers.Register) (registers.Registers, int) {
	var others registers.Registers
	k := []int{0, 0, 1, 2, 4}[c.Rng.Intn(5)]
	for _, r := range randRegs(c, k+1) {
		if r.ID() != p.ID() && len(others) < k {
			others = append(others, r)
		}
	}
	return others, c.Rng.Intn(len(others) + 1)
}

func initialDestination(c *gal.Ctx) (registers.Registers, string) {
	switch c.Rng.Intn(3) {
	case 0:
		return nil, "nil"
	case 1:
		return randRegs(c, 1+c.Rng.Intn(3)), "filled"
	}
	filled := randRegs(c, 1+c.Rng.Intn(3))
	dst := make(registers.Registers, len(filled), len(filled)+1+c.Rng.Intn(8))
	copy(dst, filled)
	return dst, "filled, spare capacity"
}

// run one document against one destination and judge it: dmg says what the document holds
func runDamagedDoc(c *gal.Ctx, kind, format, text, lit string, modelled bool, p registers.Register, dmg damage, spelling string, want registers.Registers, yes []yentry) {
	dst, initHow := initialDestination(c)
	init := append(registers.Registers{}, dst...)
	d := map[string]interface{}{"format": format, "document": text, "entry": string(p.ID()), "entry_value": spelling, "entry_bytes": hex.EncodeToString(dmg.bytes),
		"entry_bytes_len": len(dmg.bytes), "serialised_width": serWidth(p), "destination_initially": initHow, "destination_before_call": regsJSON(init)}
	c.Begin("unmarshalling a document with an entry of another width", "pkg/registers/registers.go:UnmarshalJSON/UnmarshalYAML", d)
	var err error
	panicked, msg := gal.Recover(func() {
		if format == "json" {
			err = json.Unmarshal([]byte(text), &dst)
		} else {
			err = yaml.Unmarshal([]byte(text), &dst)
		}
	})
	got := append(registers.Registers{}, dst...)
	idx := -1
	if modelled {
		after := "None"
		if !panicked {
			after = "(Some " + gal.Pair(regsLit(got), gal.Bool(err == nil)) + ")"
		}
		idx = c.Add(kind, fmt.Sprintf("CSeq %s [%s] [%s]", regsLit(init), lit, after), d, true)
	} else {
		c.Count(kind + "_oracle_only")
	}
	what := fmt.Sprintf("%s document %q whose entry %s (%s) carries %d byte(s) for a %d-byte register", format, text, p.ID(), spelling, len(dmg.bytes), serWidth(p))
	site := "pkg/registers/registers.go:UnmarshalJSON -> marshalling.go:ValueFromBytes"
	if format == "yaml" {
		site = "pkg/registers/registers.go:UnmarshalYAML -> marshal_value.go:valueUnpack (valueFromHex / valueFromBase64 -> marshalling.go:ValueFromBytes)"
	}
	switch {
	case panicked:
		c.OracleFail(idx, what+" panics: "+msg, site, d)
	case err != nil && regsLit(init) != regsLit(got):
		c.OracleFail(idx, what+" is refused ("+err.Error()+") but changes the destination", site, d)
	case dmg.exact:
		// control: the same document with a value of the register's width
		judge(c, idx, what, want, true, yes, panicked, msg, err, got, site, d)
	case err != nil:
		c.OracleOK()
	default: // accepted although one entry denotes no value
		c.OracleFail(idx, what+fmt.Sprintf(" is accepted (%d register(s): %v): the entry does not denote a value of the register", len(got), regsJSON(got)), site, d)
	}
}

func b64(b []byte) string { return base64.StdEncoding.EncodeToString(b) }

func runDamagedJSON(c *gal.Ctx) {
	for _, p := range protos {
		for _, dmg := range damagesFor(c, p) {
			// the ways JSON can spell a value of these bytes
			spellings := []string{`"value":"` + b64(dmg.bytes) + `"`}
			if len(dmg.bytes) == 0 {
				spellings = append(spellings, `"value":null`, ``)
			}
			for _, sp := range spellings {
				others, pos := neighbours(c, p)
				var parts []string
				var jes []jentry
				var want registers.Registers
				for i := 0; i <= len(others); i++ {
					if i == pos {
						e := `{"id":` + jsonStr(string(p.ID()))
						if sp != "" {
							e += "," + sp
						}
						parts = append(parts, e+"}")
						jes = append(jes, jentry{ID: string(p.ID()), Value: dmg.bytes})
						if len(dmg.bytes) >= serWidth(p) {
							want = append(want, mk(p, leNumber(dmg.bytes[:serWidth(p)])))
						}
					}
					if i < len(others) {
						r := others[i]
						vb, _ := registers.ValueBytes(r)
						parts = append(parts, `{"id":`+jsonStr(string(r.ID()))+`,"value":"`+b64(vb)+`"}`)
						jes = append(jes, jentry{ID: string(r.ID()), Value: vb})
						want = append(want, r)
					}
				}
				text := "[" + strings.Join(parts, ",") + "]"
				if sp == "" {
					sp = "no value field"
				}
				runDamagedDoc(c, "json_entry_width_"+dmg.name, "json", text, "(DJson "+jentriesLit(jes)+")", true, p, dmg, sp, want, nil)
			}
		}
	}
}

func jsonStr(s string) string { b, _ := json.Marshal(s); return string(b) }

func runDamagedYAML(c *gal.Ctx) {
	type spelled struct {
		e   yentry
		dmg damage
		how string
	}
	for _, p := range protos {
		id := string(p.ID())
		var list []spelled
		for _, dmg := range damagesFor(c, p) {
			t := "base64:" + b64(dmg.bytes)
			if len(dmg.bytes) > 0 { // "ID: base64:" would be a nested mapping, not a scalar
				list = append(list, spelled{yentry{ID: id, Text: t}, dmg, "plain " + t})
			}
			list = append(list, spelled{yentry{ID: id, Quoted: true, quote: "\"'"[c.Rng.Intn(2)], Text: t}, dmg, "quoted " + t})
			if isKey(p) { // the key in hexadecimal is its bytes: the same widths apply
				h := "0x" + hex.EncodeToString(dmg.bytes)
				list = append(list, spelled{yentry{ID: id, Text: h}, dmg, "plain " + h},
					spelled{yentry{ID: id, Quoted: true, quote: '"', Text: mixCase(c, h)}, dmg, "quoted " + h})
			}
		}
		// values of no bytes in the other spellings: no digits, no text, null
		none := damage{name: "empty"}
		list = append(list, spelled{yentry{ID: id, Text: "0x"}, none, "plain 0x"},
			spelled{yentry{ID: id, Quoted: true, quote: '\'', Text: "0x"}, none, "quoted 0x"},
			spelled{yentry{ID: id, Quoted: true, quote: '"', Text: ""}, none, "quoted empty string"},
			spelled{yentry{ID: id, Text: "~"}, none, "null (~)"},
			spelled{yentry{ID: id, Text: "null"}, none, "null"},
			spelled{yentry{ID: id, Text: ""}, none, "no value"})
		for _, s := range list {
			others, pos := neighbours(c, p)
			var es []yentry
			var want registers.Registers
			for i := 0; i <= len(others); i++ {
				if i == pos {
					es = append(es, s.e)
					if len(s.dmg.bytes) >= serWidth(p) {
						want = append(want, mk(p, leNumber(s.dmg.bytes[:serWidth(p)])))
					}
				}
				if i < len(others) {
					// (a key neighbour is quoted: as a plain scalar a small key is finding C16-yaml-small-public-key)
					e, _, _ := mkEntry(c, others[i], []string{"hex", "base64", "hex-upper"}[c.Rng.Intn(3)], isKey(others[i]) || c.Rng.Intn(2) == 0)
					es = append(es, e)
					want = append(want, others[i])
				}
			}
			modelled := entriesModelled(es)
			runDamagedDoc(c, "yaml_entry_width_"+s.dmg.name, "yaml", docText(es), "(DYaml "+yentriesLit(es)+")", modelled, p, s.dmg, s.how, want, es)
		}
	}
}

func runWidths(c *gal.Ctx) {
	runFromBytesUnknown(c)
	runDamagedJSON(c)
	runDamagedYAML(c)
	// fixed witness of the former finding: one byte too many for the one-byte register
	{
		var back registers.Register
		var err error
		panicked, _ := gal.Recover(func() { back, err = registers.ValueFromBytes(registers.TXTErrorStatusRegisterID, []byte{0x01, 0xff}) })
		rep := !panicked && err == nil && back != nil
		c.Probe(formerTrailing, rep, "registers.ValueFromBytes(TXT.ESTS, []byte{0x01, 0xff}) returns a register (raw 0x1) and no error although TXT.ESTS is serialised as one byte")
	}
}
