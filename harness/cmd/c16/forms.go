// C16 harness, second part: the textual forms of a YAML value (hexadecimal with 0x / 0X,
// lower / upper / mixed case digits, zero padded, quoted or plain, decimal, the obsolete
// "base64:" form), documents written by the harness instead of by the package, what the
// package's own Marshal wrote (read back with plain decoders), and several documents
// unmarshalled one after another into ONE destination that is already filled.
//
// Oracle (from the property text): a document is a serialisation of a collection; parsing it
// yields registers with exactly the identifiers and raw values of that collection — whatever
// the destination held before — or, for the forms the package never wrote itself, an error.
package main

import (
	"encoding/base64"
	"encoding/hex"
	"encoding/json"
	"fmt"
	"os"
	"path/filepath"
	"reflect"
	"strings"

	"github.com/9elements/converged-security-suite/v2/cmd/exp/pcr0tool/commands/dumpregisters/helpers"
	"github.com/9elements/converged-security-suite/v2/pkg/registers"
	"gopkg.in/yaml.v3"
	"verifharness/gal"
)

// one mapping entry of a YAML document
type yentry struct {
	ID     string
	Quoted bool
	Text   string
	quote  byte // '"' or '\'' when Quoted
}

type jentry struct {
	ID    string `json:"id"`
	Value []byte `json:"value"`
}

func isKey(r registers.Register) bool { return reflect.TypeOf(r).Kind() == reflect.Array }

// the bytes of the key in array order
func keyBytes(r registers.Register) []byte {
	v := reflect.ValueOf(r)
	b := make([]byte, v.Len())
	for i := range b {
		b[i] = byte(v.Index(i).Uint())
	}
	return b
}

// canonical hexadecimal digits of the value: the number for integer registers, the bytes in
// order for the key
func hexDigits(r registers.Register) string {
	if isKey(r) {
		return hex.EncodeToString(keyBytes(r))
	}
	raw, _ := rawOf(r)
	return raw.Text(16)
}

func mixCase(c *gal.Ctx, s string) string {
	b := []byte(s)
	for i := range b {
		if b[i] >= 'a' && b[i] <= 'f' && c.Rng.Intn(2) == 0 {
			b[i] -= 32
		}
	}
	return string(b)
}

var formNames = []string{"hex", "hex-upper", "hex-mixed", "hex-padded", "0X", "0X-upper", "base64", "base64-typewidth", "decimal"}

// text of value r in form name; ok=false when the form does not exist for this register
func formText(c *gal.Ctx, r registers.Register, name string) (text string, must bool, ok bool) {
	h := hexDigits(r)
	switch name {
	case "hex":
		return "0x" + h, true, true
	case "hex-upper":
		return "0x" + strings.ToUpper(h), true, true
	case "hex-mixed":
		return "0x" + mixCase(c, h), true, true
	case "hex-padded":
		if isKey(r) {
			return "", false, false
		}
		w := widthOf(r) / 4
		if c.Rng.Intn(3) == 0 {
			w = len(h) + 1 + c.Rng.Intn(3)
		}
		for len(h) < w {
			h = "0" + h
		}
		return "0x" + mixCase(c, h), true, true
	case "0X":
		return "0X" + h, false, true
	case "0X-upper":
		return "0X" + strings.ToUpper(h), false, true
	case "base64":
		b, err := registers.ValueBytes(r)
		if err != nil || len(b) == 0 {
			return "", false, false
		}
		return "base64:" + base64.StdEncoding.EncodeToString(b), true, true
	case "base64-typewidth":
		// the little-endian bytes of the Go type, when ValueBytes renders another width
		if isKey(r) {
			return "", false, false
		}
		b, _ := registers.ValueBytes(r)
		n := widthOf(r) / 8
		if len(b) == n {
			return "", false, false
		}
		raw, _ := rawOf(r)
		le := make([]byte, n)
		be := raw.Bytes()
		for i := range be {
			le[i] = be[len(be)-1-i]
		}
		return "base64:" + base64.StdEncoding.EncodeToString(le), false, true
	case "decimal":
		if isKey(r) {
			return "", false, false
		}
		raw, _ := rawOf(r)
		return raw.Text(10), false, true
	}
	return "", false, false
}

func mkEntry(c *gal.Ctx, r registers.Register, name string, quoted bool) (yentry, bool, bool) {
	t, must, ok := formText(c, r, name)
	if !ok {
		return yentry{}, false, false
	}
	if name == "decimal" && quoted {
		must = false // a quoted decimal is a string without a known prefix
	}
	e := yentry{ID: string(r.ID()), Quoted: quoted, Text: t}
	if quoted {
		e.quote = "\"'"[c.Rng.Intn(2)]
	}
	return e, must, true
}

func randEntry(c *gal.Ctx, r registers.Register) (yentry, bool, string) {
	for {
		name := formNames[c.Rng.Intn(len(formNames))]
		if c.Rng.Intn(3) == 0 {
			name = []string{"hex", "base64"}[c.Rng.Intn(2)]
		}
		e, must, ok := mkEntry(c, r, name, c.Rng.Intn(2) == 0)
		if ok {
			return e, must, name
		}
	}
}

func docText(es []yentry) string {
	if len(es) == 0 {
		return "{}\n"
	}
	var sb strings.Builder
	for _, e := range es {
		sb.WriteString(e.ID)
		sb.WriteString(": ")
		if e.Quoted {
			q := e.quote
			if q == 0 {
				q = '"'
			}
			sb.WriteByte(q)
			sb.WriteString(e.Text)
			sb.WriteByte(q)
		} else {
			sb.WriteString(e.Text)
		}
		sb.WriteString("\n")
	}
	return sb.String()
}

func yentriesLit(es []yentry) string {
	s := make([]string, len(es))
	for i, e := range es {
		s[i] = gal.Pair(gal.Str2(e.ID), gal.Pair(gal.Bool(e.Quoted), gal.Str2(e.Text)))
	}
	return gal.List(s)
}

func jentriesLit(es []jentry) string {
	s := make([]string, len(es))
	for i, e := range es {
		s[i] = gal.Pair(gal.Str2(e.ID), gal.Bytes(e.Value))
	}
	return gal.List(s)
}

func jsonText(es []jentry) string {
	if es == nil {
		es = []jentry{}
	}
	b, _ := json.Marshal(es)
	return string(b)
}

// ---- the class of scalars Model/Marshal.v yaml_plain covers (Go copy of the DOMAIN only) ----

func allOf(s string, f func(byte) bool) bool {
	for i := 0; i < len(s); i++ {
		if !f(s[i]) {
			return false
		}
	}
	return true
}
func isDigit(b byte) bool { return b >= '0' && b <= '9' }
func isAlnum(b byte) bool {
	return isDigit(b) || (b >= 'a' && b <= 'z') || (b >= 'A' && b <= 'Z')
}
func isB64ish(b byte) bool { return isAlnum(b) || b == '+' || b == '/' || b == '=' }

var otherWords = map[string]bool{"": true, "~": true, "null": true, "Null": true, "NULL": true,
	"true": true, "True": true, "TRUE": true, "false": true, "False": true, "FALSE": true}

func plainModelled(s string) bool {
	if otherWords[s] { // null and the booleans: neither an integer nor a string
		return true
	}
	if len(s) >= 2 && s[0] == '0' && (s[1] == 'x' || s[1] == 'X') {
		return allOf(s[2:], isAlnum)
	}
	if s == "" {
		return false
	}
	if isDigit(s[0]) {
		return allOf(s, isDigit) && (s[0] != '0' || len(s) == 1)
	}
	if strings.HasPrefix(s, "base64:") {
		return len(s) > 7 && allOf(s[7:], isB64ish)
	}
	return false
}

// printable ASCII without quotes and backslash, so that "..." and '...' carry the text unchanged
func quotedModelled(s string) bool {
	return allOf(s, func(b byte) bool { return b >= 0x20 && b < 0x7f && b != '"' && b != '\'' && b != '\\' })
}

func entriesModelled(es []yentry) bool {
	for _, e := range es {
		if !allOf(e.ID, func(b byte) bool { return isAlnum(b) || b == '.' || b == '_' }) || e.ID == "" || isDigit(e.ID[0]) {
			return false
		}
		if e.Quoted && !quotedModelled(e.Text) || !e.Quoted && !plainModelled(e.Text) {
			return false
		}
	}
	return true
}

// ---- reading documents back without any package code ----

func readYAMLDoc(b []byte) ([]yentry, bool) {
	var n yaml.Node
	if err := yaml.Unmarshal(b, &n); err != nil {
		return nil, false
	}
	if n.Kind == 0 {
		return nil, false
	}
	m := &n
	if m.Kind == yaml.DocumentNode && len(m.Content) == 1 {
		m = m.Content[0]
	}
	if m.Kind != yaml.MappingNode {
		return nil, false
	}
	var es []yentry
	for i := 0; i+1 < len(m.Content); i += 2 {
		k, v := m.Content[i], m.Content[i+1]
		if k.Kind != yaml.ScalarNode || v.Kind != yaml.ScalarNode || v.Style&yaml.TaggedStyle != 0 || v.Style&(yaml.LiteralStyle|yaml.FoldedStyle) != 0 {
			return nil, false
		}
		q := v.Style&(yaml.DoubleQuotedStyle|yaml.SingleQuotedStyle) != 0
		es = append(es, yentry{ID: k.Value, Quoted: q, Text: v.Value})
	}
	return es, true
}

func readJSONDoc(b []byte) ([]jentry, bool) {
	var es []jentry
	if err := json.Unmarshal(b, &es); err != nil {
		return nil, false
	}
	return es, true
}

// ---- small helpers ----

func obsRegs(panicked bool, err error, out registers.Registers) string {
	if panicked {
		return "OPanic"
	}
	if err != nil {
		return "OErr"
	}
	return "(OOk " + regsLit(out) + ")"
}

func hasNil(rs registers.Registers) bool {
	for _, r := range rs {
		if r == nil {
			return true
		}
	}
	return false
}

// a key whose hexadecimal rendering is a number below 2^64, written as a PLAIN 0x scalar
func smallPlainKey(es []yentry) bool {
	for _, e := range es {
		if e.ID != string(registers.TXTPublicKeyRegisterID) || e.Quoted || len(e.Text) != 66 || !(strings.HasPrefix(e.Text, "0x") || strings.HasPrefix(e.Text, "0X")) {
			continue
		}
		if strings.Trim(e.Text[2:50], "0") == "" {
			return true
		}
	}
	return false
}

// the known finding C16-yaml-small-public-key is recognised by the INPUT, never by the text of
// an error: the document holds a key with 24 leading zero bytes as a plain 0x scalar, it is
// refused, and the same document without that entry parses to the rest of the collection (so
// nothing else is wrong with it)
func isSmallPlainKeyEntry(e yentry) bool { return smallPlainKey([]yentry{e}) }

func knownSmallKey(err error, es []yentry, want registers.Registers) bool {
	if err == nil || !smallPlainKey(es) {
		return false
	}
	var rest []yentry
	for _, e := range es {
		if !isSmallPlainKeyEntry(e) {
			rest = append(rest, e)
		}
	}
	var wantRest registers.Registers
	for _, r := range want {
		if r.ID() != registers.TXTPublicKeyRegisterID {
			wantRest = append(wantRest, r)
		}
	}
	var out registers.Registers
	var perr error
	panicked, _ := gal.Recover(func() { perr = yaml.Unmarshal([]byte(docText(rest)), &out) })
	return !panicked && perr == nil && !hasNil(out) && sameSet(wantRest, out) == ""
}

// the same for a collection sent through yaml.Marshal / yaml.Unmarshal: it holds a key whose
// first 24 bytes are zero, and without such keys the round trip is the identity
func knownSmallKeyRoundTrip(regs registers.Registers) bool {
	if !smallKey(regs) {
		return false
	}
	var rest registers.Registers
	for _, r := range regs {
		if !smallKey(registers.Registers{r}) {
			rest = append(rest, r)
		}
	}
	var out registers.Registers
	var err error
	panicked, _ := gal.Recover(func() {
		var b []byte
		b, err = yaml.Marshal(rest)
		if err == nil {
			err = yaml.Unmarshal(b, &out)
		}
	})
	return !panicked && err == nil && !hasNil(out) && sameSet(rest, out) == ""
}

func randRegs(c *gal.Ctx, k int) registers.Registers {
	perm := c.Rng.Perm(len(protos))
	if k > len(protos) {
		k = len(protos)
	}
	var regs registers.Registers
	for _, j := range perm[:k] {
		regs = append(regs, mk(protos[j], randRaw(c, widthOf(protos[j]))))
	}
	return regs
}

// judge a parse result against the collection the document serialises
func judge(c *gal.Ctx, idx int, what string, want registers.Registers, must bool, es []yentry, panicked bool, msg string, err error, got registers.Registers, site string, d interface{}) {
	switch {
	case panicked:
		c.OracleFail(idx, what+" panics: "+msg, site, d)
	case err != nil && es != nil && knownSmallKey(err, es, want):
		c.OracleFailKnown(idx, "C16-yaml-small-public-key", what+": a TXT.PUBLIC.KEY whose first 24 bytes are zero, written as a plain 0x scalar, is rejected: "+err.Error(), "pkg/registers/registers.go:MarshalYAML / marshal_value.go:valueUnpack", d)
	case err != nil && must:
		c.OracleFail(idx, what+" fails: "+err.Error(), site, d)
	case err != nil:
		c.OracleOK() // a form the package never wrote: refusing it is fine
	case hasNil(got):
		c.OracleFail(idx, what+" yields a nil register", site, d)
	default:
		if x := sameSet(want, got); x != "" {
			c.OracleFail(idx, what+" does not yield the collection the document denotes: "+x, site, d)
		} else {
			c.OracleOK()
		}
	}
}

// ---- 1. every textual form of every register type ----

func runForms(c *gal.Ctx) {
	for _, p := range protos {
		w := widthOf(p)
		for _, name := range formNames {
			for _, quoted := range []bool{false, true} {
				n := c.Scale(2, 12)
				if name == "base64" {
					n = c.Scale(6, 40)
				}
				for i := 0; i < n; i++ {
					r := mk(p, randRaw(c, w))
					e, must, ok := mkEntry(c, r, name, quoted)
					if !ok {
						continue
					}
					runYamlDoc(c, "yaml_form", []yentry{e}, registers.Registers{r}, must, name)
				}
			}
		}
	}
	// whole collections, every entry in a form of its own
	n := c.Scale(120, 1500)
	for i := 0; i < n; i++ {
		regs := randRegs(c, c.Rng.Intn(len(protos)+1))
		var es []yentry
		must := true
		names := []string{}
		for _, r := range regs {
			e, m, name := randEntry(c, r)
			es = append(es, e)
			must = must && m
			names = append(names, name)
		}
		runYamlDoc(c, "yaml_forms_collection", es, regs, must, strings.Join(names, ","))
	}
}

// unmarshal a harness-written document into a fresh variable; want == nil: malformed stream
// (only "no panic" is judged)
func runYamlDoc(c *gal.Ctx, kind string, es []yentry, want registers.Registers, must bool, formName string) {
	doc := docText(es)
	d := map[string]interface{}{"yaml": doc, "forms": formName}
	if want != nil {
		d["denotes"] = regsJSON(want)
	}
	var out registers.Registers
	var err error
	c.Begin("yaml.Unmarshal of a document written by the harness", "pkg/registers/registers.go:UnmarshalYAML", d)
	panicked, msg := gal.Recover(func() { err = yaml.Unmarshal([]byte(doc), &out) })
	idx := -1
	if entriesModelled(es) {
		idx = c.Add(kind, fmt.Sprintf("CYamlDoc %s %s", yentriesLit(es), obsRegs(panicked, err, out)), d, len(es) > 0)
	} else {
		c.Count(kind + "_oracle_only")
	}
	if want == nil {
		if panicked {
			c.OracleFail(idx, fmt.Sprintf("UnmarshalYAML panics on %q: %s", doc, msg), "pkg/registers/registers.go:UnmarshalYAML", d)
		} else {
			c.OracleOK()
		}
		return
	}
	judge(c, idx, fmt.Sprintf("parsing the YAML document %q (value forms: %s)", doc, formName), want, must, es, panicked, msg, err, out, "pkg/registers/marshal_value.go:valueUnpack/valueUnpackString", d)
}

// ---- 2. malformed and borderline values ----

func runMalformed(c *gal.Ctx) {
	ids := []string{"ACM_STATUS", "TXT.ESTS", "TXT.ERRORCODE", "TXT.STS", "TXT.PUBLIC.KEY", "MP0_C2P_MSG_37", "BOGUS"}
	texts := []string{
		"0x12", "0x", "0X", "0x1ffffffff", "0x1ffffffffffffffff", "0xffffffffffffffff", "0x10000000000000000", "18", "0", "18446744073709551615", "18446744073709551616",
		"base64:EgAAAAAAAAA=", "base64:EgA=", "base64:Eg==", "base64:EgAAAA==", "base64:EgAAAAAAAAAA", "base64:/w==", "base64:/x==", "base64:/w", "base64:/w==/w==", "base64:_w==", "base64:=w==",
		"base64:!!!", "base64:", "zz", "0xzz", "0x1ff", "0xff", "0xFF", "0Xff", "0xc0000001", "base64:AQAAwA==", "BASE64:AQAAwA==", "Base64:/w==", "base64:aqaawa==",
		"0x0102", "0x" + strings.Repeat("ab", 32), "0x" + strings.Repeat("AB", 32), "0x" + strings.Repeat("ab", 33), "0x" + strings.Repeat("ab", 31) + "a", "0x" + strings.Repeat("0", 62) + "ff", "5",
		"base64:" + base64.StdEncoding.EncodeToString([]byte(strings.Repeat("\xab", 32))), "base64:" + base64.StdEncoding.EncodeToString([]byte(strings.Repeat("\xab", 31))),
		" 0x12", "0x12 ", "x12", "1x2", "true", "-1", "0x-1", "+0x12", "0x+12", "0x1_2",
	}
	for _, id := range ids {
		for _, t := range texts {
			for _, q := range []bool{false, true} {
				if !q && (strings.TrimSpace(t) != t || strings.HasSuffix(t, ":") || strings.ContainsAny(t, "!")) {
					continue
				}
				runYamlDoc(c, "yaml_value_malformed", []yentry{{ID: id, Quoted: q, Text: t, quote: '"'}}, nil, false, "malformed")
			}
		}
	}
	// a repeated key, an unknown key among known ones, values of other YAML kinds
	runYamlDoc(c, "yaml_value_malformed", []yentry{{ID: "ACM_STATUS", Text: "0x12"}, {ID: "ACM_STATUS", Text: "0x13"}}, nil, false, "repeated key")
	runYamlDoc(c, "yaml_value_malformed", []yentry{{ID: "ACM_STATUS", Text: "0x12"}, {ID: "TXT.ESTS", Text: "0x01"}, {ID: "TXT.STS", Text: "0xffffffffffffffff"}}, nil, false, "three")
	runYamlDoc(c, "yaml_value_malformed", []yentry{{ID: "ACM_STATUS", Text: "0x12"}, {ID: "BOGUS", Text: "0x01"}}, nil, false, "unknown id")
	for _, doc := range []string{"ACM_STATUS: [1,2]\n", "ACM_STATUS: {a: 1}\n", "- a\n- b\n", "ACM_STATUS: 1.5\n", "ACM_STATUS: ~\n", "ACM_STATUS:\n", "null\n", "", "ACM_STATUS: !!binary EgAAAAAAAAA=\n", "ACM_STATUS: 017\n", "ACM_STATUS: 0o17\n", "ACM_STATUS: 0b11\n", "ACM_STATUS: 1_0\n", "ACM_STATUS: 2001-01-01\n"} {
		var out registers.Registers
		d := map[string]interface{}{"yaml": doc}
		panicked, msg := gal.Recover(func() { _ = yaml.Unmarshal([]byte(doc), &out) })
		c.Count("yaml_doc_oracle_only")
		if panicked {
			c.OracleFail(-1, fmt.Sprintf("UnmarshalYAML panics on %q: %s", doc, msg), "pkg/registers/registers.go:UnmarshalYAML", d)
		} else {
			c.OracleOK()
		}
	}
}

// ---- 3. what the package's Marshal writes ----

func runMarshalled(c *gal.Ctx) {
	n := c.Scale(60, 600)
	for i := 0; i < n; i++ {
		regs := randRegs(c, c.Rng.Intn(len(protos)+1))
		if i == 0 {
			regs = nil
		}
		d := map[string]interface{}{"registers": regsJSON(regs)}
		{
			var b []byte
			var err error
			panicked, msg := gal.Recover(func() { b, err = json.Marshal(regs) })
			es, ok := readJSONDoc(b)
			obs := "OErr"
			if panicked {
				obs = "OPanic"
			} else if err == nil && ok {
				obs = "(OOk " + jentriesLit(es) + ")"
			}
			idx := c.Add("marshal_json", fmt.Sprintf("CMarshalJSON %s %s", regsLit(regs), obs), d, len(regs) > 0)
			if panicked || err != nil || !ok {
				c.OracleFail(idx, fmt.Sprintf("json.Marshal of a collection of supported registers fails or writes no list of {id,value}: %v %s %q", err, msg, b), "pkg/registers/registers.go:MarshalJSON", d)
			} else if len(es) != len(regs) {
				c.OracleFail(idx, fmt.Sprintf("json.Marshal writes %d entries for %d registers", len(es), len(regs)), "pkg/registers/registers.go:MarshalJSON", d)
			} else {
				c.OracleOK()
			}
		}
		{
			var b []byte
			var err error
			panicked, msg := gal.Recover(func() { b, err = yaml.Marshal(regs) })
			es, ok := readYAMLDoc(b)
			obs := "OErr"
			if panicked {
				obs = "OPanic"
			} else if err == nil && ok {
				obs = "(OOk " + yentriesLit(es) + ")"
			}
			idx := c.Add("marshal_yaml", fmt.Sprintf("CMarshalYAML %s %s", regsLit(regs), obs), d, len(regs) > 0)
			if panicked || err != nil || !ok {
				c.OracleFail(idx, fmt.Sprintf("yaml.Marshal of a collection of supported registers fails or writes no mapping of scalars: %v %s %q", err, msg, b), "pkg/registers/registers.go:MarshalYAML", d)
			} else if len(es) != len(regs) {
				c.OracleFail(idx, fmt.Sprintf("yaml.Marshal writes %d entries for %d registers", len(es), len(regs)), "pkg/registers/registers.go:MarshalYAML", d)
			} else {
				c.OracleOK()
			}
		}
	}
}

// ---- 4. one destination, several documents ----

type seqDoc struct {
	format   string // "json" | "yaml"
	text     string
	jes      []jentry
	yes      []yentry
	want     registers.Registers // nil: malformed
	must     bool
	how      string
	modelled bool
}

type holder struct {
	Regs registers.Registers `json:"regs" yaml:"regs"`
}

func genSeqDoc(c *gal.Ctx, prev registers.Registers) seqDoc {
	// the collection: fresh, or related to what the destination holds
	var regs registers.Registers
	switch c.Rng.Intn(8) {
	case 0:
		regs = registers.Registers{}
	case 1, 2: // same IDs, other values
		for _, r := range prev {
			regs = append(regs, mk(r, randRaw(c, widthOf(r))))
		}
		c.Rng.Shuffle(len(regs), func(i, j int) { regs[i], regs[j] = regs[j], regs[i] })
	case 3: // a sub-collection of it, same values
		for _, r := range prev {
			if c.Rng.Intn(2) == 0 {
				regs = append(regs, r)
			}
		}
	case 4:
		regs = randRegs(c, 1+c.Rng.Intn(3))
	default:
		regs = randRegs(c, seqSize(c))
	}
	if regs == nil {
		regs = registers.Registers{}
	}
	sd := seqDoc{want: regs, must: true, modelled: true}
	switch c.Rng.Intn(10) {
	case 0, 1, 2: // the package's JSON
		b, err := json.Marshal(regs)
		es, ok := readJSONDoc(b)
		sd.format, sd.text, sd.jes, sd.how, sd.modelled = "json", string(b), es, "json.Marshal", err == nil && ok
	case 3, 4, 5: // the package's YAML
		b, err := yaml.Marshal(regs)
		es, ok := readYAMLDoc(b)
		sd.format, sd.text, sd.yes, sd.how = "yaml", string(b), es, "yaml.Marshal"
		sd.modelled = err == nil && ok && entriesModelled(es)
	case 6, 7: // YAML in mixed value forms
		names := []string{}
		for _, r := range regs {
			e, m, name := randEntry(c, r)
			sd.yes = append(sd.yes, e)
			sd.must = sd.must && m
			names = append(names, name)
		}
		sd.format, sd.text, sd.how = "yaml", docText(sd.yes), "harness-written YAML: "+strings.Join(names, ",")
		sd.modelled = entriesModelled(sd.yes)
	case 8: // JSON written by the harness from ValueBytes
		for _, r := range regs {
			b, _ := registers.ValueBytes(r)
			sd.jes = append(sd.jes, jentry{ID: string(r.ID()), Value: b})
		}
		sd.format, sd.text, sd.how = "json", jsonText(sd.jes), "harness-written JSON"
	default: // malformed: one entry broken
		sd.want, sd.must = nil, false
		if c.Rng.Intn(2) == 0 {
			for _, r := range regs {
				b, _ := registers.ValueBytes(r)
				sd.jes = append(sd.jes, jentry{ID: string(r.ID()), Value: b})
			}
			bad := jentry{ID: "TXT.STS", Value: []byte{1, 2, 3}}
			if c.Rng.Intn(2) == 0 {
				bad = jentry{ID: "BOGUS", Value: []byte{1}}
			}
			sd.jes = append(sd.jes, bad)
			sd.format, sd.text, sd.how = "json", jsonText(sd.jes), "malformed JSON"
		} else {
			for _, r := range regs {
				e, _, _ := mkEntry(c, r, "hex", true)
				sd.yes = append(sd.yes, e)
			}
			bad := yentry{ID: "BOGUS", Text: "0x1"}
			if c.Rng.Intn(2) == 0 {
				bad = yentry{ID: "BOGUS2", Quoted: true, quote: '"', Text: "base64:AQ="}
			}
			sd.yes = append(sd.yes, bad)
			sd.format, sd.text, sd.how = "yaml", docText(sd.yes), "malformed YAML"
			sd.modelled = entriesModelled(sd.yes)
		}
	}
	return sd
}

// mostly small collections (the literals of whole sequences are what Coq spends its time
// reading), now and then all 26 types
func seqSize(c *gal.Ctx) int {
	switch k := c.Rng.Intn(10); {
	case k < 6:
		return c.Rng.Intn(5)
	case k < 9:
		return c.Rng.Intn(11)
	}
	return c.Rng.Intn(len(protos) + 1)
}

func (sd seqDoc) lit() string {
	if sd.format == "json" {
		return "(DJson " + jentriesLit(sd.jes) + ")"
	}
	return "(DYaml " + yentriesLit(sd.yes) + ")"
}

func runSequences(c *gal.Ctx, tmp string) {
	n := c.Scale(160, 2000)
	vias := []string{"variable", "struct-field", "FlagRegisters.Set"}
	for i := 0; i < n; i++ {
		via := vias[c.Rng.Intn(len(vias))]
		// the destination before the first call
		var dst registers.Registers
		initHow := "nil"
		switch c.Rng.Intn(5) {
		case 0:
		case 1:
			dst, initHow = registers.Registers{}, "empty"
		case 2:
			k := 1 + c.Rng.Intn(4)
			filled := randRegs(c, k)
			dst = make(registers.Registers, len(filled), len(filled)+1+c.Rng.Intn(30))
			copy(dst, filled)
			initHow = "filled, spare capacity"
		default:
			dst, initHow = randRegs(c, 1+seqSize(c)), "filled"
		}
		init := append(registers.Registers{}, dst...)
		h := &holder{Regs: dst}
		flag := (*helpers.FlagRegisters)(&h.Regs)
		steps := 2 + c.Rng.Intn(3)
		var docs []seqDoc
		var after []string
		var fails []func(idx int)
		var trail []map[string]interface{}
		modelled := true
		cur := init
		for s := 0; s < steps; s++ {
			sd := genSeqDoc(c, cur)
			docs = append(docs, sd)
			modelled = modelled && sd.modelled
			before := append(registers.Registers{}, h.Regs...)
			d := map[string]interface{}{"via": via, "destination_initially": initHow, "destination_before_call": regsJSON(before), "call": s + 1, "format": sd.format, "document": sd.text, "document_from": sd.how}
			if sd.want != nil {
				d["denotes"] = regsJSON(sd.want)
			}
			if len(trail) > 0 {
				d["earlier_calls"] = append([]map[string]interface{}{}, trail...)
			}
			trail = append(trail, map[string]interface{}{"format": sd.format, "document": sd.text})
			c.Begin("unmarshalling into a destination that is already in use", "pkg/registers/registers.go:UnmarshalJSON/UnmarshalYAML", d)
			var err error
			panicked, msg := gal.Recover(func() {
				switch via {
				case "variable":
					if sd.format == "json" {
						err = json.Unmarshal([]byte(sd.text), &h.Regs)
					} else {
						err = yaml.Unmarshal([]byte(sd.text), &h.Regs)
					}
				case "struct-field":
					if sd.format == "json" {
						err = json.Unmarshal([]byte(`{"regs":`+sd.text+`}`), h)
					} else {
						err = yaml.Unmarshal([]byte("regs:\n  "+strings.ReplaceAll(strings.TrimSuffix(sd.text, "\n"), "\n", "\n  ")+"\n"), h)
					}
				default:
					fn := filepath.Join(tmp, fmt.Sprintf("regs-%d-%d.%s", i, s, sd.format))
					if werr := os.WriteFile(fn, []byte(sd.text), 0o644); werr != nil {
						panic(werr)
					}
					err = flag.Set(fn)
					_ = os.Remove(fn)
				}
			})
			got := append(registers.Registers{}, h.Regs...)
			if panicked {
				after = append(after, "None")
			} else {
				after = append(after, "(Some "+gal.Pair(regsLit(got), gal.Bool(err == nil))+")")
			}
			{
				sd, d, panicked, msg, err, got, before, s := sd, d, panicked, msg, err, got, before, s
				fails = append(fails, func(idx int) {
					what := fmt.Sprintf("call %d (%s, %s) into a destination holding %d register(s) (%s)", s+1, sd.format, via, len(before), initHow)
					if !panicked && err != nil && regsLit(before) != regsLit(got) {
						// the variable holds what the last successful parse gave it: a refused
						// document must not leave anything else behind
						c.OracleFail(idx, what+" is refused ("+err.Error()+") but changes the destination: "+fmt.Sprintf("before %v after %v", regsJSON(before), regsJSON(got)), "pkg/registers/registers.go:UnmarshalJSON/UnmarshalYAML", d)
						return
					}
					if sd.want == nil {
						if panicked {
							c.OracleFail(idx, what+" panics: "+msg, "pkg/registers/registers.go", d)
						} else {
							c.OracleOK()
						}
						return
					}
					judge(c, idx, what, sd.want, sd.must, sd.yes, panicked, msg, err, got, "pkg/registers/registers.go:UnmarshalJSON/UnmarshalYAML (destination must be replaced)", d)
				})
			}
			if panicked {
				break
			}
			cur = got
		}
		idx := -1
		if modelled {
			lits := make([]string, len(docs))
			for k, sd := range docs {
				lits[k] = sd.lit()
			}
			idx = c.Add("unmarshal_sequence", fmt.Sprintf("CSeq %s %s %s", regsLit(init), gal.List(lits), gal.List(after)),
				map[string]interface{}{"via": via, "destination_initially": regsJSON(init), "documents": trail}, true)
		} else {
			c.Count("unmarshal_sequence_oracle_only")
		}
		for _, f := range fails {
			f(idx)
		}
	}
}
