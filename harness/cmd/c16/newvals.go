// C16 harness, part 4: registers.New as a public constructor - EVERY registered identifier
// (and unknown ones) against every kind of value a caller can hand over: a register value of
// every one of the 26 register types (the typed integer / the typed 32-byte array, i.e. a value
// copied from another register or re-labelled), pointers to register values, every Go integer
// type (unsigned, signed, negative, named), byte slices and byte arrays of the register's width
// and of other lengths, and values that are no number and no bytes at all.
//
// The oracle (judgeNew) is written from the property text: "Constructing a register from an
// identifier and a value of the register's own width yields a register with that raw value; an
// unknown identifier or an incompatible value is reported as an error, not a panic."
//   - no panic, whatever the value;
//   - an unknown identifier is an error;
//   - what New returns without an error IS a register of the identifier asked for: not nil, its
//     ID() is the requested one, its Go type is the type registered for that identifier, and a
//     collection holding it answers Find(requested id) with it;
//   - the raw value: a number that fits the register (a Go integer, an integer register's value),
//     if accepted, is the raw value of the result; bytes of the register's serialised width, if
//     accepted, are its raw value read little-endian; a value of the register's OWN width (an
//     unsigned integer of exactly the register's bits, an integer register of the same Go width,
//     32 bytes for the key) must be accepted;
//   - incompatible = of another kind: bytes of any length for an integer register unless the
//     length is its width (then only the value is judged), an integer for the 32-byte register,
//     bytes of another length than 32 for the 32-byte register, and anything that is neither a
//     number nor bytes (string, bool, pointer, other slices, struct): must be an error.
//
// Not judged: a number too wide for the register or negative (the code truncates: props/C16.json
// level_note), the nil value (the code gives the zero register); the identifier / type / Find
// demands hold for them too.
//
// The ground truth about each value (what number or bytes it denotes) is kept by the generator
// from the way it built the value; nothing is read off the result of the code under test.
package main

import (
	"fmt"
	"math/big"
	"reflect"

	"github.com/9elements/converged-security-suite/v2/pkg/registers"
	"verifharness/gal"
)

type namedU32 uint32
type namedKey [32]byte
type namedBytes []byte
type someStruct struct{ A uint32 }

// one value handed to New, with what the generator knows about it
type newVal struct {
	kind    string      // for the report
	v       interface{} // what is handed to New
	lit     string      // the model's view (Model/Marshal.v value)
	num     *big.Int    // the number it denotes (integers, integer registers); nil if none
	neg     bool        // a negative Go integer (num is then its 64-bit two's complement)
	bits    int         // Go width of an UNSIGNED integer / integer register value (0 otherwise)
	bytes   []byte      // the bytes it denotes (byte slices, byte arrays, the key register)
	isB     bool        // denotes bytes (bytes may be empty)
	none    bool        // neither a number nor bytes
	isNil   bool
	fromReg bool // a register value (one of the 26 register types)
	named   bool // bytes held in a slice type that is not []byte itself (a named slice type): the code may
	// refuse them whatever their length (it does: only []byte itself is taken for the key), so 'own width must be
	// accepted' is not demanded; everything else is (no panic, wrong length refused, accepted bytes kept whole)
}

func randBytes(c *gal.Ctx, n int) []byte {
	b := make([]byte, n)
	c.Rng.Read(b)
	if n > 0 && c.Rng.Intn(4) == 0 { // small numbers: leading zero bytes
		for i := 1 + c.Rng.Intn(n); i < n; i++ {
			b[i] = 0
		}
	}
	return b
}

// a register value of the type of q: small (fits every integer register) or of full width
func regVal(c *gal.Ctx, q registers.Register, small bool) newVal {
	w := widthOf(q)
	var raw *big.Int
	if small && w <= 64 {
		raw = big.NewInt(int64(1 + c.Rng.Intn(255)))
	} else {
		raw = randRaw(c, w)
	}
	src := mk(q, raw)
	raw, _ = rawOf(src)
	nv := newVal{kind: fmt.Sprintf("register %s (Go type %T) raw 0x%s", q.ID(), src, raw.Text(16)), v: src, lit: "(VReg " + regLit(src) + ")", fromReg: true}
	if reflect.TypeOf(q).Kind() == reflect.Array {
		k := src.(registers.TXTPublicKey)
		nv.bytes, nv.isB = k[:], true
	} else {
		nv.num, nv.bits = raw, w
	}
	return nv
}

func uintVal(kind string, v interface{}, bits int, n uint64) newVal {
	return newVal{kind: fmt.Sprintf("%s(%#x)", kind, n), v: v, lit: fmt.Sprintf("(VUint %d %s)", bits, gal.U(n)), num: new(big.Int).SetUint64(n), bits: bits}
}

func intVal(kind string, v interface{}, n int64) newVal {
	nv := newVal{kind: fmt.Sprintf("%s(%d)", kind, n), v: v, lit: fmt.Sprintf("(VUint 64 %s)", gal.U(uint64(n))), num: new(big.Int).SetUint64(uint64(n)), neg: n < 0}
	return nv // bits stays 0: a signed type is never "the register's own width"
}

func bytesVal(kind string, v interface{}, b []byte) newVal {
	return newVal{kind: fmt.Sprintf("%s of %d byte(s) %x", kind, len(b), b), v: v, lit: "(VBytes " + gal.Bytes(b) + ")", bytes: b, isB: true}
}

func otherVal(kind string, v interface{}) newVal {
	return newVal{kind: kind, v: v, lit: "VOther", none: true}
}

// the values tried for one identifier (p == nil: unknown identifier)
func newValues(c *gal.Ctx, p registers.Register) []newVal {
	var vs []newVal
	// a register value of every register type
	for _, q := range protos {
		vs = append(vs, regVal(c, q, c.Rng.Intn(2) == 0))
	}
	// the register's own type once more with the other size class, and a pointer to it
	own := p
	if own == nil {
		own = protos[c.Rng.Intn(len(protos))]
	}
	vs = append(vs, regVal(c, own, true), regVal(c, own, false))
	other := protos[c.Rng.Intn(len(protos))]
	for _, q := range []registers.Register{own, other} {
		src := mk(q, randRaw(c, widthOf(q)))
		ptr := reflect.New(reflect.TypeOf(src))
		ptr.Elem().Set(reflect.ValueOf(src))
		vs = append(vs, otherVal(fmt.Sprintf("pointer to a %s register (%T)", q.ID(), ptr.Interface()), ptr.Interface()))
	}
	vs = append(vs, otherVal("nil pointer to a register (*registers.TXTHeapBase)", (*registers.TXTHeapBase)(nil)))
	// Go integers
	u64 := c.Rng.Uint64()
	if c.Rng.Intn(3) == 0 {
		u64 >>= uint(c.Rng.Intn(64))
	}
	vs = append(vs,
		uintVal("uint8", uint8(u64), 8, uint64(uint8(u64))),
		uintVal("uint16", uint16(u64), 16, uint64(uint16(u64))),
		uintVal("uint32", uint32(u64), 32, uint64(uint32(u64))),
		uintVal("uint64", u64, 64, u64),
		uintVal("uint", uint(u64), 64, u64),
		uintVal("uintptr", uintptr(u64), 64, u64),
		uintVal("named uint32", namedU32(uint32(u64)), 32, uint64(uint32(u64))),
		uintVal("uint8", uint8(0xAB), 8, 0xAB),
		uintVal("uint64", uint64(0xABCD123455667788), 64, 0xABCD123455667788),
		intVal("int", int(77), 77),
		intVal("int8", int8(u64&0x7f), int64(u64&0x7f)),
		intVal("int32", int32(u64&0x7fffffff), int64(u64&0x7fffffff)),
		intVal("int64", int64(u64>>1), int64(u64>>1)),
		intVal("int", int(-1), -1),
		intVal("int16", -int16(1+u64&0xff), -int64(1+u64&0xff)),
	)
	// bytes
	ser := 0
	if p != nil {
		ser = serWidth(p)
	} else {
		ser = []int{1, 4, 8}[c.Rng.Intn(3)]
	}
	k32 := randBytes(c, 32)
	var a32 [32]byte
	copy(a32[:], randBytes(c, 32))
	var n32 namedKey
	copy(n32[:], randBytes(c, 32))
	var a31 [31]byte
	copy(a31[:], randBytes(c, 31))
	var a4 [4]byte
	copy(a4[:], randBytes(c, 4))
	vs = append(vs,
		bytesVal("[]byte", k32, k32),
		bytesVal("[32]byte", a32, a32[:]),
		bytesVal("named [32]byte", n32, n32[:]),
		bytesVal("[31]byte", a31, a31[:]),
		bytesVal("[4]byte", a4, a4[:]),
		bytesVal("[]byte", []byte{}, []byte{}),
	)
	for _, n := range []int{ser, ser + 1, 31, 33, 2} {
		b := randBytes(c, n)
		vs = append(vs, bytesVal("[]byte", b, b))
	}
	// bytes in named slice types (registers.TXTConfigSpace is one the package itself hands out): the model sees
	// a value that is not []byte (VOther: refused)
	for _, n := range []int{32, 31, 33, 0, 1, 64, ser, ser + 1} {
		b := randBytes(c, n)
		nb := bytesVal("named []byte (harness type)", namedBytes(b), b)
		nb.lit, nb.named = "VOther", true
		cs := bytesVal("registers.TXTConfigSpace", registers.TXTConfigSpace(b), b)
		cs.lit, cs.named = "VOther", true
		vs = append(vs, nb, cs)
	}
	// nothing that could be a raw value
	vs = append(vs,
		newVal{kind: "nil", v: nil, lit: "VNil", isNil: true},
		otherVal("string \"0x12\"", "0x12"),
		otherVal("bool", true),
		otherVal("[]string", []string{"a"}),
		otherVal("struct", someStruct{A: 7}),
		otherVal("[]uint32", []uint32{1, 2, 3, 4, 5, 6, 7, 8}),
		otherVal("map", map[string]int{"a": 1}),
	)
	return vs
}

// literal of whatever New returned; something that is none of the 26 register types (a pointer
// handed back, say) is a register the model does not know
func resultLit(r registers.Register) string {
	if r == nil {
		return regLit(nil)
	}
	lit := ""
	panicked, _ := gal.Recover(func() {
		if _, ok := rawOf(r); ok {
			lit = regLit(r)
		}
	})
	if panicked || lit == "" {
		return "(\"<no register type>\", 0)"
	}
	return lit
}

// judgeNew: the demands of the property text on one call New(id, nv.v); p is the prototype
// registered for id (nil: unknown identifier)
func judgeNew(c *gal.Ctx, idx int, id registers.RegisterID, p registers.Register, nv newVal, panicked bool, msg string, err error, nr registers.Register, d interface{}) {
	const site = "pkg/registers/registry.go:New"
	call := fmt.Sprintf("registers.New(%q, %s)", string(id), nv.kind)
	if panicked {
		c.OracleFail(idx, call+" panics: "+msg, site, d)
		return
	}
	if p == nil {
		if err == nil {
			c.OracleFail(idx, call+" accepts an unknown register ID", site, d)
		} else {
			c.OracleOK()
		}
		return
	}
	destKey := reflect.TypeOf(p).Kind() == reflect.Array
	w := widthOf(p)
	fits := nv.num != nil && !nv.neg && nv.num.BitLen() <= w
	if err != nil {
		must := ""
		switch {
		case destKey && nv.isB && len(nv.bytes) == 32 && !nv.named:
			must = "32 bytes are a value of the key register's own width"
		case !destKey && nv.num != nil && !nv.neg && nv.bits == w:
			must = fmt.Sprintf("an unsigned %d-bit value is of the register's own width", w)
		}
		if must != "" {
			c.OracleFail(idx, fmt.Sprintf("%s is refused (%v), but %s", call, err, must), site, d)
		} else {
			c.OracleOK()
		}
		return
	}
	// accepted: the result is a register of the identifier asked for
	var gotID registers.RegisterID
	var gotRaw *big.Int
	var found registers.Register
	okType, noReg := false, false
	bad, bmsg := gal.Recover(func() {
		if nr == nil || (reflect.ValueOf(nr).Kind() == reflect.Ptr && reflect.ValueOf(nr).IsNil()) {
			noReg = true
			return
		}
		okType = reflect.TypeOf(nr) == reflect.TypeOf(p)
		gotID = nr.ID()
		gotRaw, _ = rawOf(nr)
		found = registers.Registers{nr}.Find(id)
	})
	switch {
	case bad:
		c.OracleFail(idx, call+" returns, without an error, a register that cannot be used: "+bmsg, site, d)
		return
	case noReg:
		c.OracleFail(idx, call+" returns neither a register nor an error", site, d)
		return
	case gotID != id:
		c.OracleFail(idx, fmt.Sprintf("%s returns a register with another identifier: asked for %s, got %s (raw %v); Registers{result}.Find(%s) = %v", call, id, gotID, rawText(gotRaw), id, found), site, d)
		return
	case !okType:
		c.OracleFail(idx, fmt.Sprintf("%s returns a %T, the type registered for %s is %T", call, nr, id, p), site, d)
		return
	case found == nil:
		c.OracleFail(idx, fmt.Sprintf("%s: a collection holding the result does not find it under %s", call, id), site, d)
		return
	}
	// incompatible values must have been refused
	incompatible := ""
	switch {
	case nv.none:
		incompatible = "a value that is neither a number nor bytes"
	case destKey && nv.num != nil:
		incompatible = "an integer for the 32-byte register"
	case destKey && nv.isB && len(nv.bytes) != 32:
		incompatible = fmt.Sprintf("%d byte(s) for the 32-byte register", len(nv.bytes))
	case !destKey && nv.isB && len(nv.bytes) != serWidth(p):
		incompatible = fmt.Sprintf("%d byte(s) for a register serialised in %d", len(nv.bytes), serWidth(p))
	}
	if incompatible != "" {
		c.OracleFail(idx, fmt.Sprintf("%s accepts an incompatible value (%s): result %s = %s", call, incompatible, gotID, rawText(gotRaw)), site, d)
		return
	}
	// the raw value
	var want *big.Int
	switch {
	case nv.isB:
		want = leNumber(nv.bytes)
		if !destKey && want.BitLen() > w {
			want = nil // ACM_STATUS: serialised wider than the register
		}
	case fits:
		want = nv.num
	}
	if want != nil && (gotRaw == nil || gotRaw.Cmp(want) != 0) {
		c.OracleFail(idx, fmt.Sprintf("%s yields raw value %s, the value handed over is 0x%s", call, rawText(gotRaw), want.Text(16)), site, d)
		return
	}
	c.OracleOK()
}

func rawText(x *big.Int) string {
	if x == nil {
		return "<none>"
	}
	return "0x" + x.Text(16)
}

func runNewValues(c *gal.Ctx) {
	type target struct {
		id registers.RegisterID
		p  registers.Register
	}
	var ts []target
	for _, p := range protos {
		ts = append(ts, target{p.ID(), p})
	}
	// unknown identifiers: arbitrary, empty, a registered one in another letter case
	some := protos[c.Rng.Intn(len(protos))].ID()
	for _, id := range []string{"BOGUS.REGISTER", "", lowerASCII(string(some)), string(some) + " "} {
		ts = append(ts, target{registers.RegisterID(id), nil})
	}
	for _, t := range ts {
		for _, nv := range newValues(c, t.p) {
			var nr registers.Register
			var err error
			panicked, msg := gal.Recover(func() { nr, err = registers.New(t.id, nv.v) })
			obs := "OErr"
			if panicked {
				obs = "OPanic"
			} else if err == nil {
				obs = "(OOk " + resultLit(nr) + ")"
			}
			d := map[string]interface{}{"id": string(t.id), "value": nv.kind, "registered": t.p != nil}
			kind := "new_value"
			if nv.fromReg {
				kind = "new_from_register"
			}
			idx := c.Add(kind, fmt.Sprintf("CNew %s %s %s", gal.Str2(string(t.id)), nv.lit, obs), d, true)
			judgeNew(c, idx, t.id, t.p, nv, panicked, msg, err, nr, d)
		}
	}
}

func lowerASCII(s string) string {
	b := []byte(s)
	for i, ch := range b {
		if ch >= 'A' && ch <= 'Z' {
			b[i] = ch + 32
		}
	}
	return string(b)
}
