// C09 correspondence harness: pkg/bootflow/bootengine (BootProcess.NextStep /
// Finish) and the step/action constructors of commonsteps, commonactions,
// tpmsteps, tpmactions against Model/Interp.v.
//
// Every case is a random family of flows described by a small AST (gFlow /
// gStep / gAct).  From the AST the harness builds REAL flows with the public
// constructors (plus a few harness-defined Step / Action / Condition / Actor /
// DataSource types for behaviours no built-in offers: an action returning an
// error, a step whose Actions() panics, a measuring action ...), runs the real
// interpreter and projects BootProcess.Log and the final State.
//
// The independent oracle (type oracle below) is a direct recursive
// interpreter of the AST written from the property text; it never looks at
// the Coq model.
//
// Conditions are built with the public constructors wherever there is one:
// a negation is commonconds.Not(...) applied to the built sub-condition (so n
// stacked negations are n nested wrappers), "TPM initialised" is
// tpmconds.TPMIsInited{}; only the leaves no package offers (actor is ...,
// measured ..., constant, panicking) are harness-defined.  A flow may contain
// HOLES: nil entries of types.Steps (gTop.S == nil) and nil pointers of the
// harness' step type, at any position.
//
// Memory layout.  The action list of a static (or harness-defined custom) step
// is a Go slice, and StaticStep.Actions() hands out that very slice.  Every
// case therefore comes with a layout (gCase.Arrays + Arr/Off/Cap of the
// steps): the action lists are windows of action arrays that belong to the
// flow definition — private and exact like a composite literal, private with
// spare capacity, several steps (of several flows) side by side in ONE array
// so that the spare capacity of one window is the content of the next, the
// same window used by several steps, or a sub-window (prefix ...) of another
// step's list.  The oracle judges the run against the AST, i.e. against the
// flow AS DEFINED BEFORE the run, and checks afterwards that no slot of the
// definition's arrays (and of the flows' Steps arrays) changed and, for
// stepwise runs, that no log entry changed after it was recorded.  The Coq
// side replays the case on the slice-level model (Model/InterpHeap.v): where
// every logged slice points and what the arrays hold after the run.
package main

import (
	"context"
	"errors"
	"fmt"
	"reflect"
	"strconv"
	"strings"
	"sync/atomic"
	"time"
	"unsafe"

	"github.com/9elements/converged-security-suite/v2/pkg/bootflow/actions/commonactions"
	"github.com/9elements/converged-security-suite/v2/pkg/bootflow/actions/tpmactions"
	"github.com/9elements/converged-security-suite/v2/pkg/bootflow/bootengine"
	"github.com/9elements/converged-security-suite/v2/pkg/bootflow/conditions/commonconds"
	"github.com/9elements/converged-security-suite/v2/pkg/bootflow/conditions/tpmconds"
	"github.com/9elements/converged-security-suite/v2/pkg/bootflow/steps/commonsteps"
	"github.com/9elements/converged-security-suite/v2/pkg/bootflow/steps/tpmsteps"
	"github.com/9elements/converged-security-suite/v2/pkg/bootflow/subsystems/trustchains/tpm"
	"github.com/9elements/converged-security-suite/v2/pkg/bootflow/subsystems/trustchains/tpm/pcr"
	"github.com/9elements/converged-security-suite/v2/pkg/bootflow/types"
	"github.com/9elements/converged-security-suite/v2/pkg/tpmeventlog"
	"verifharness/gal"
)

const header = "From CSS Require Import Lib.Base Lib.Cases Model.Interp Model.InterpHeap Model.InterpSession Model.InterpCases."

// ------------------------------------------------------------------ AST

const (
	aSetFlow  = 1
	aSetActor = 2
	aPanic    = 3
	aTPMInit  = 4
	aLogAdd   = 5
	aMeasure  = 6
	aCustom   = 7
	// commonactions.SetFlowFunc(fn): the flow is whatever fn returns for the
	// State at the moment the action is applied
	aSetFlowFunc = 8
)

const (
	rOk    = 0
	rErr   = 1
	rPanic = 2
)

// gAct: one action. Flow / Actor / Meas use -1 for "none / nil".
type gAct struct {
	K     int   `json:"k"`
	ID    int   `json:"id,omitempty"`
	Flow  int   `json:"flow"`
	Actor int   `json:"actor"`
	Meas  int   `json:"meas"`
	Res   int   `json:"res,omitempty"`
	Fn    *gFun `json:"fn,omitempty"` // aSetFlowFunc
}

// gFun: the function given to SetFlowFunc / SetFlowFromFunc, a decision tree
// over the State.
const (
	fFlow  = 0 // return flow Flow
	fIf    = 1 // Cond ? T : E
	fPanic = 2
)

type gFun struct {
	K    int    `json:"k"`
	Flow int    `json:"flow,omitempty"`
	Cond *gCond `json:"cond,omitempty"`
	T    *gFun  `json:"t,omitempty"`
	E    *gFun  `json:"e,omitempty"`
}

const (
	cConst       = 0
	cActorIs     = 1
	cMeasuredLt  = 2
	cTPMInited   = 3
	cNot         = 4
	cPanic       = 5
	cMeasuredHas = 6 // some entry of State.MeasuredData comes from data source N
	cNil         = 7 // a nil types.Condition: calling Check panics
)

type gCond struct {
	K     int    `json:"k"`
	B     bool   `json:"b,omitempty"`
	Actor int    `json:"actor,omitempty"`
	N     int    `json:"n,omitempty"`
	Sub   *gCond `json:"sub,omitempty"`
}

const (
	sStatic      = 0
	sIf          = 1
	sMerge       = 2
	sSetFlow     = 3
	sSetActor    = 4
	sPanic       = 5
	sInitTPM     = 6
	sCustom      = 7
	sMeasure     = 8  // tpmsteps.Measure: a StaticStep with one TPMEvent
	sSetFlowFunc = 9  // commonsteps.SetFlowFromFunc
	sLogInit     = 10 // tpmsteps.LogInit as a step of its own
)

type gStep struct {
	K       int      `json:"k"`
	Nil     bool     `json:"nil,omitempty"` // StaticStep(nil) / MergeSteps(nil) / sCustom: a nil *hStep
	Acts    []gAct   `json:"acts,omitempty"`
	Cond    *gCond   `json:"cond,omitempty"`
	Then    *gStep   `json:"then,omitempty"`
	Else    *gStep   `json:"else,omitempty"`
	Subs    []*gStep `json:"subs,omitempty"` // nil element = nil types.Step
	Flow    int      `json:"flow,omitempty"`
	Actor   int      `json:"actor,omitempty"`
	WithLog bool     `json:"withlog,omitempty"`
	ID      int      `json:"id,omitempty"`
	Panics  bool     `json:"panics,omitempty"`
	Fn      *gFun    `json:"fn,omitempty"` // sSetFlowFunc
	// memory of the action list (sStatic non-nil, sCustom, sMeasure): the
	// window Arrays[Arr][Off : Off+len(Acts) : Off+Cap]; such a step always
	// has cap >= 1 in the JSON, arr / off are left out when 0
	Arr int `json:"arr,omitempty"`
	Off int `json:"off,omitempty"`
	Cap int `json:"cap,omitempty"`

	aliasOf *gStep // layout: this step's list is a sub-window of that step's list
}

// hasList: the step owns an action list in memory
func (s *gStep) hasList() bool {
	return (s.K == sStatic && !s.Nil) || (s.K == sCustom && !s.Nil) || s.K == sMeasure
}

// sids of the step values that exist once: every nil StaticStep is the same Go
// value, and so on
const (
	sidNilStatic = 1
	sidNilMerge  = 2
	sidHole      = 3 // nil types.Step
	sidNilCustom = 4 // (*hStep)(nil)
	sidLogInit   = 5 // .. 9: tpmsteps.LogInit(locality 0..4)
)

// fixedSid: the sid of a step value that exists once (0: an ordinary step)
func fixedSid(s *gStep) int {
	switch {
	case s == nil:
		return sidHole
	case s.Nil && s.K == sStatic:
		return sidNilStatic
	case s.Nil && s.K == sMerge:
		return sidNilMerge
	case s.Nil && s.K == sCustom:
		return sidNilCustom
	case s.K == sLogInit:
		return sidLogInit + s.ID%5 // LogInitStruct{Locality} is a comparable value
	}
	return 0
}

type gTop struct {
	Sid int    `json:"sid"`
	S   *gStep `json:"s"` // nil: a hole, Steps[i] == nil
}

type gFlow struct {
	Name  int    `json:"name"`
	Steps []gTop `json:"steps"` // non-nil (possibly empty) Steps
}

// gOp: one operation of a session on a BootProcess.
const (
	opNext    = "next"    // N calls of NextStep, whatever they return
	opFinish  = "finish"  // Finish
	opSetFlow = "setflow" // State.SetFlow(flow Flow) between two calls
)

type gOp struct {
	K    string `json:"op"`
	N    int    `json:"n,omitempty"`
	Flow int    `json:"flow,omitempty"`
}

// gCase: the closed input of one run.
type gCase struct {
	Flows  []gFlow `json:"flows"` // names outside this list are flows with nil Steps
	Root   int     `json:"root"`
	TPM    int     `json:"tpm"`      // -1: no TPM subsystem, 0: present, 1: present and already initialised
	Actor0 int     `json:"actor0"`   // initial CurrentActor (-1 nil)
	Meas0  []int   `json:"meas0"`    // MeasuredData present before the run
	Steps  int     `json:"nextstep"` // -1: Finish; k >= 0: at most k NextStep calls
	// a session: the operations applied one after the other to ONE BootProcess
	// (when present, Steps is not used)
	Ops     []gOp  `json:"ops,omitempty"`
	Comment string `json:"comment,omitempty"`
	// the action arrays of the flow definition (every slot, spare capacity
	// included) and how they were laid out
	Arrays [][]gAct `json:"arrays"`
	Layout string   `json:"layout,omitempty"`
}

// ------------------------------------------------------------------ harness-defined bootflow types

type hChain struct{}

func (*hChain) IsInitialized() bool { return true }

type hDS struct {
	ID   int
	Res  int
	data *types.Data
}

func (d *hDS) Data(context.Context, *types.State) (*types.Data, error) {
	switch d.Res {
	case rErr:
		return nil, fmt.Errorf("data source %d fails", d.ID)
	case rPanic:
		panic(fmt.Sprintf("data source %d panics", d.ID))
	}
	return d.data, nil
}
func (d *hDS) String() string { return fmt.Sprintf("ds#%d", d.ID) }

func newDS(id, res int) *hDS {
	return &hDS{ID: id, Res: res, data: types.NewData(types.RawBytes{byte(id), byte(id >> 8), 0xA5})}
}

type hActor struct {
	ID   int
	code *hDS
}

func (a *hActor) ResponsibleCode() types.DataSource {
	switch a.ID % 4 {
	case 0:
		return nil
	case 2:
		panic(fmt.Sprintf("actor %d: ResponsibleCode panics", a.ID))
	}
	return a.code
}
func (a *hActor) String() string { return fmt.Sprintf("actor#%d", a.ID) }

type hAction struct {
	ID    int
	Meas  *hDS
	Flow  *types.Flow
	Res   int
	chain types.TrustChain
}

// park: the watchdog of run() gave this run up (a changed interpreter may loop
// for ever on a family that is acyclic as defined): the abandoned goroutine
// stops here instead of filling the memory with log entries
func park(ctx context.Context) {
	if g, ok := ctx.Value(guardKey{}).(*guard); ok && atomic.AddInt64(&g.calls, 1) == runawayCalls {
		close(g.runaway) // no run of a generated case comes anywhere near: tell the watchdog now
	}
	if ctx.Err() != nil {
		select {}
	}
}

// guard: counts the calls of harness-defined steps and actions of one run
type guardKey struct{}
type guard struct {
	calls   int64
	runaway chan struct{}
}

const runawayCalls = 200000

func (a *hAction) Apply(ctx context.Context, state *types.State) error {
	park(ctx)
	if a.Meas != nil {
		state.AddMeasuredData(*a.Meas.data, a.chain, a.Meas)
	}
	if a.Flow != nil {
		state.SetFlow(*a.Flow)
	}
	switch a.Res {
	case rErr:
		return fmt.Errorf("action %d fails", a.ID)
	case rPanic:
		panic(fmt.Sprintf("action %d panics", a.ID))
	}
	return nil
}

type hStep struct {
	ID     int
	Panics bool
	Acts   types.Actions
}

func (s *hStep) Actions(ctx context.Context, _ *types.State) types.Actions {
	park(ctx)
	if s.Panics {
		panic(errors.New("step " + strconv.Itoa(s.ID) + ": Actions panics"))
	}
	return s.Acts
}

// hCond: the leaf conditions no package of the repository offers
type hCond struct {
	c      *gCond
	actors map[int]*hActor
}

// cond builds the condition with the public constructors: commonconds.Not
// around the built sub-condition, tpmconds.TPMIsInited, harness leaves.
func (b *built) cond(g *gCond) types.Condition {
	switch g.K {
	case cNil:
		return nil
	case cNot:
		return commonconds.Not(b.cond(g.Sub))
	case cTPMInited:
		return tpmconds.TPMIsInited{}
	}
	return hCond{c: g, actors: b.actors}
}

func (c hCond) Check(ctx context.Context, s *types.State) bool { return c.eval(c.c, s) }
func (c hCond) eval(g *gCond, s *types.State) bool {
	switch g.K {
	case cConst:
		return g.B
	case cActorIs:
		if g.Actor < 0 {
			return s.CurrentActor == nil
		}
		a, ok := s.CurrentActor.(*hActor)
		return ok && a.ID == g.Actor
	case cMeasuredLt:
		return len(s.MeasuredData) < g.N
	case cTPMInited:
		t, err := tpm.GetFrom(s)
		return err == nil && t.IsInitialized()
	case cNot:
		return !c.eval(g.Sub, s)
	case cMeasuredHas:
		for i := range s.MeasuredData {
			if dsID(s.MeasuredData[i].DataSource) == g.N {
				return true
			}
		}
		return false
	}
	panic("condition panics")
}

// ------------------------------------------------------------------ building the real flows

type built struct {
	gc      *gCase
	flows   map[int]*types.Flow
	actors  map[int]*hActor
	dss     map[int]*hDS
	chain   *hChain
	reg     []regEntry // top-level steps with their sids
	tpm     *tpm.TPM
	state   *types.State
	process *bootengine.BootProcess
	// the definition's memory: action arrays (every slot), what they and the
	// flows' Steps arrays (every slot up to the capacity) held before the run
	arrays    []types.Actions
	snapArr   [][]types.Action
	snapSteps map[int][]types.Step
	measured  map[*gStep]types.Step // one StaticStep value per sMeasure node
}

type regEntry struct {
	step types.Step
	sid  int
}

// chooser builds the Go function of a gFun.
func (b *built) chooser(id int, fn *gFun) func(*types.State) types.Flow {
	var eval func(fn *gFun, s *types.State) types.Flow
	eval = func(fn *gFun, s *types.State) types.Flow {
		switch fn.K {
		case fFlow:
			return b.flow(fn.Flow)
		case fIf:
			if b.cond(fn.Cond).Check(context.Background(), s) {
				return eval(fn.T, s)
			}
			return eval(fn.E, s)
		}
		panic(fmt.Sprintf("flow function %d panics", id))
	}
	return func(s *types.State) types.Flow { return eval(fn, s) }
}

func flowName(n int) string { return "F" + strconv.Itoa(n) }
func flowID(name string) int {
	if !strings.HasPrefix(name, "F") {
		return -99
	}
	v, err := strconv.Atoi(name[1:])
	if err != nil {
		return -99
	}
	return v
}

func (b *built) actor(id int) types.Actor {
	if id < 0 {
		return nil
	}
	a, ok := b.actors[id]
	if !ok {
		a = &hActor{ID: id}
		res := rOk
		if id%4 == 3 {
			res = rErr
		}
		a.code = newDS(100000+id, res)
		b.actors[id] = a
	}
	return a
}

func (b *built) ds(id, res int) *hDS {
	key := id*4 + res
	d, ok := b.dss[key]
	if !ok {
		d = newDS(id, res)
		b.dss[key] = d
	}
	return d
}

func (b *built) flow(name int) types.Flow {
	f, ok := b.flows[name]
	if !ok {
		// a flow with nil Steps
		f = &types.Flow{Name: flowName(name)}
		b.flows[name] = f
	}
	return *f
}

func (b *built) action(a gAct) types.Action {
	switch a.K {
	case aSetFlow:
		return commonactions.SetFlow(b.flow(a.Flow))
	case aSetActor:
		return commonactions.SetActor(b.actor(a.Actor))
	case aPanic:
		return commonactions.Panic(errors.New("boom"))
	case aTPMInit:
		return tpmactions.NewTPMInit(uint8(a.ID % 5))
	case aLogAdd:
		return tpmactions.NewTPMEventLogAdd(0, tpm.SupportedHashAlgos()[0], make([]byte, 20), tpmeventlog.EV_NO_ACTION, []byte("x"))
	case aMeasure:
		return tpmactions.NewTPMEvent(pcr.ID(a.ID%2), b.ds(a.ID, a.Res), tpmeventlog.EV_POST_CODE, nil)
	case aCustom:
		h := &hAction{ID: a.ID, Res: a.Res, chain: b.chain}
		if a.Meas >= 0 {
			h.Meas = b.ds(a.Meas, rOk)
		}
		if a.Flow >= 0 {
			f := b.flow(a.Flow)
			h.Flow = &f
		}
		return h
	case aSetFlowFunc:
		return commonactions.SetFlowFunc(b.chooser(a.ID, a.Fn))
	}
	panic("bad action kind")
}

// window: the slice of the definition's memory that is the step's action list
func (b *built) window(s *gStep) types.Actions {
	if s.Arr < 0 || s.Arr >= len(b.arrays) {
		panic(fmt.Sprintf("harness: step without layout (arr %d of %d)", s.Arr, len(b.arrays)))
	}
	arr := b.arrays[s.Arr]
	n := len(s.Acts)
	if s.Off < 0 || s.Cap < n || s.Cap < 1 || s.Off+s.Cap > len(arr) {
		panic(fmt.Sprintf("harness: bad window arr=%d off=%d len=%d cap=%d of %d", s.Arr, s.Off, n, s.Cap, len(arr)))
	}
	for i := range s.Acts {
		if !reflect.DeepEqual(s.Acts[i], b.gc.Arrays[s.Arr][s.Off+i]) {
			panic(fmt.Sprintf("harness: window arr=%d off=%d does not hold the step's actions", s.Arr, s.Off))
		}
	}
	return arr[s.Off : s.Off+n : s.Off+s.Cap]
}

func (b *built) step(s *gStep) types.Step {
	if s == nil {
		return nil
	}
	switch s.K {
	case sStatic:
		if s.Nil {
			return types.StaticStep(nil)
		}
		return types.StaticStep(b.window(s))
	case sIf:
		return commonsteps.If(b.cond(s.Cond), b.step(s.Then), b.step(s.Else))
	case sMerge:
		if s.Nil {
			return commonsteps.MergeSteps(nil)
		}
		m := make(commonsteps.MergeSteps, 0, len(s.Subs)+1)
		for _, sub := range s.Subs {
			m = append(m, b.step(sub))
		}
		return m
	case sSetFlow:
		return commonsteps.SetFlow(b.flow(s.Flow))
	case sSetActor:
		return commonsteps.SetActor(b.actor(s.Actor))
	case sPanic:
		return commonsteps.Panic("panic step " + strconv.Itoa(s.ID))
	case sInitTPM:
		return tpmsteps.InitTPM(uint8(s.ID%5), s.WithLog)
	case sCustom:
		if s.Nil {
			return (*hStep)(nil)
		}
		return &hStep{ID: s.ID, Panics: s.Panics, Acts: b.window(s)}
	case sLogInit:
		return tpmsteps.LogInit(uint8(s.ID % 5))
	case sMeasure:
		// the literal made by the real constructor is the step's array
		if st, ok := b.measured[s]; ok {
			return st
		}
		a := s.Acts[0]
		st := tpmsteps.Measure(pcr.ID(a.ID%2), tpmeventlog.EV_POST_CODE, b.ds(a.ID, a.Res))
		b.measured[s] = st
		if lit, ok := st.(types.StaticStep); ok && s.Arr >= 0 && s.Arr < len(b.arrays) {
			b.arrays[s.Arr] = types.Actions(lit)
		}
		return st
	case sSetFlowFunc:
		return commonsteps.SetFlowFromFunc(b.chooser(s.ID, s.Fn))
	}
	panic("bad step kind")
}

func build(gc *gCase) *built {
	b := &built{gc: gc, flows: map[int]*types.Flow{}, actors: map[int]*hActor{}, dss: map[int]*hDS{}, chain: &hChain{},
		snapSteps: map[int][]types.Step{}, measured: map[*gStep]types.Step{}}
	if gc.Arrays == nil {
		layoutExact(gc)
	}
	// allocate every Steps slice first: Flow values are copied into SetFlow
	// steps/actions, the slice header they carry shares the backing array that
	// is filled in afterwards (this is also what makes cyclic families possible).
	for i := range gc.Flows {
		f := &gc.Flows[i]
		// cap+1 keeps zero-length slices non-nil
		b.flows[f.Name] = &types.Flow{Name: flowName(f.Name), Steps: make(types.Steps, len(f.Steps), len(f.Steps)+1)}
	}
	// the action arrays, one action object per slot
	for _, arr := range gc.Arrays {
		mem := make(types.Actions, len(arr))
		for j, a := range arr {
			mem[j] = b.action(a)
		}
		b.arrays = append(b.arrays, mem)
	}
	for i := range gc.Flows {
		f := &gc.Flows[i]
		steps := b.flows[f.Name].Steps
		for j, ts := range f.Steps {
			st := b.step(ts.S)
			steps[j] = st
			b.reg = append(b.reg, regEntry{step: st, sid: ts.Sid})
		}
	}
	state := types.NewState()
	if gc.TPM >= 0 {
		b.tpm = tpm.NewTPM()
		state.IncludeSubSystem(b.tpm)
		if gc.TPM == 1 {
			if err := b.tpm.TPMInit(context.Background(), 0, nil); err != nil {
				panic(err)
			}
		}
	}
	state.IncludeSubSystem(b.chain)
	state.CurrentActor = b.actor(gc.Actor0)
	for _, m := range gc.Meas0 {
		d := b.ds(m, rOk)
		state.AddMeasuredData(*d.data, b.chain, d)
	}
	state.SetFlow(b.flow(gc.Root))
	b.state = state
	b.process = bootengine.NewBootProcess(state)
	// what the definition looks like before the run
	for _, arr := range b.arrays {
		b.snapArr = append(b.snapArr, append([]types.Action{}, arr[:cap(arr)]...))
	}
	for name, f := range b.flows {
		if f.Steps != nil {
			b.snapSteps[name] = append([]types.Step{}, f.Steps[:cap(f.Steps)]...)
		}
	}
	return b
}

// ------------------------------------------------------------------ observation

type obsEntry struct {
	Sid      int      `json:"sid"`
	Actions  [][2]int `json:"actions"`
	Issues   []int    `json:"issues"` // -1 step->actions, -2 actor, k>=0 action#k, -9 unknown
	Measured []int    `json:"measured"`
	Actor    int      `json:"actor"`
	Code     int      `json:"code"`
	// where StepResult.Actions points: [array, offset] inside the definition's
	// memory, nil: nil slice or memory that is not part of the definition
	Loc *[2]int `json:"loc,omitempty"`
}

type obsResult struct {
	Panicked bool       `json:"panicked,omitempty"`
	Msg      string     `json:"msg,omitempty"`
	Log      []obsEntry `json:"log"`
	Flow     int        `json:"flow"`
	StepIdx  uint64     `json:"step_index"`
	ActIdx   uint64     `json:"action_index"`
	Measured []int      `json:"measured"`
	Actor    int        `json:"actor"`
	TPM      int        `json:"tpm"`
	Done     bool       `json:"done"`
	// the definition's action arrays in which some slot holds another action
	// object after the run than before it: index -> codes of every slot now
	ArraysChanged map[int][][2]int `json:"arrays_changed,omitempty"`
	// "" or how the definition differs from what it was before the run
	DefChanged string `json:"definition_changed,omitempty"`
	// "" or which log entry changed after it had been recorded (stepwise runs, sessions)
	Unstable string `json:"log_entry_changed,omitempty"`
	// sessions: after every operation the length of the Log and whether the end
	// of the flow was reported (next: the last call returned false; finish: true)
	Trace []opObs `json:"trace,omitempty"`
}

type opObs struct {
	Len   int  `json:"len"`
	Ended bool `json:"ended"`
}

func sameStep(a, b types.Step) bool {
	if a == nil || b == nil {
		return a == nil && b == nil
	}
	va, vb := reflect.ValueOf(a), reflect.ValueOf(b)
	if va.Type() != vb.Type() {
		return false
	}
	switch va.Kind() {
	case reflect.Ptr:
		return va.Pointer() == vb.Pointer()
	case reflect.Slice:
		return va.Pointer() == vb.Pointer() && va.Len() == vb.Len()
	case reflect.String:
		return va.String() == vb.String()
	case reflect.Struct:
		return va.Type().Comparable() && a == b
	}
	return false
}

func (b *built) sidOf(s types.Step) int {
	for _, r := range b.reg {
		if sameStep(r.step, s) {
			return r.sid
		}
	}
	return -1
}

func actorID(a types.Actor) int {
	if a == nil {
		return -1
	}
	if h, ok := a.(*hActor); ok {
		return h.ID
	}
	return -99
}

func dsID(d types.DataSource) int {
	if h, ok := d.(*hDS); ok {
		return h.ID
	}
	return -99
}

func actionCode(a types.Action) [2]int {
	if a == nil {
		return [2]int{98, 0}
	}
	switch v := a.(type) {
	case *commonactions.SetFlowStruct:
		return [2]int{aSetFlow, flowID(v.NextFlow.Name)}
	case *tpmactions.TPMInit:
		return [2]int{aTPMInit, 0}
	case *tpmactions.TPMEventLogAdd:
		return [2]int{aLogAdd, 0}
	case *tpmactions.TPMEvent:
		return [2]int{aMeasure, dsID(v.DataSource)}
	case *hAction:
		return [2]int{aCustom, v.ID}
	}
	switch fmt.Sprintf("%T", a) {
	case "*commonactions.setActor":
		s := a.(fmt.Stringer).String()
		switch {
		case s == "SetActor(<nil>)":
			return [2]int{aSetActor, 0}
		case strings.HasPrefix(s, "SetActor(actor#") && strings.HasSuffix(s, ")"):
			n, err := strconv.Atoi(s[len("SetActor(actor#") : len(s)-1])
			if err == nil {
				return [2]int{aSetActor, n + 1}
			}
		}
		return [2]int{aSetActor, -99}
	case "commonactions.panicT":
		return [2]int{aPanic, 0}
	case "*commonactions.setFlowFunc":
		// which function it carries is not observable (and not part of the
		// statement); what the function answers shows in the steps that follow
		return [2]int{aSetFlowFunc, 0}
	}
	return [2]int{99, 0}
}

func issueCode(c bootengine.StepIssueCoords) int {
	switch v := c.(type) {
	case bootengine.StepIssueCoordsActions:
		return -1
	case bootengine.StepIssueCoordsActor:
		return -2
	case bootengine.StepIssueCoordsAction:
		return int(v.ActionIndex)
	}
	return -9
}

func measuredIDs(m types.MeasuredDataSlice) []int {
	r := []int{}
	for i := range m {
		r = append(r, dsID(m[i].DataSource))
	}
	return r
}

// sameAction: the very same action object (or the same value of a comparable
// non-pointer action type)
func sameAction(x, y types.Action) (same bool) {
	defer func() {
		if recover() != nil {
			same = false
		}
	}()
	return x == y
}

// locate: where in the definition's memory the slice starts
func (b *built) locate(a types.Actions) *[2]int {
	if cap(a) == 0 {
		return nil
	}
	p := uintptr(unsafe.Pointer(unsafe.SliceData(a)))
	size := unsafe.Sizeof(types.Action(nil))
	for k, arr := range b.arrays {
		if cap(arr) == 0 {
			continue
		}
		base := uintptr(unsafe.Pointer(unsafe.SliceData(arr)))
		if p >= base && p < base+uintptr(cap(arr))*size {
			return &[2]int{k, int((p - base) / size)}
		}
	}
	return nil
}

// users: the steps of the definition whose action list covers slot j of array k
func (gc *gCase) users(k, j int) string {
	var r []string
	seen := map[*gStep]bool{}
	var walk func(flow, sid int, s *gStep)
	walk = func(flow, sid int, s *gStep) {
		if s == nil || seen[s] {
			return
		}
		seen[s] = true
		if s.hasList() && s.Arr == k && s.Off <= j && j < s.Off+len(s.Acts) {
			r = append(r, fmt.Sprintf("action #%d of a static part of step %d (flow F%d)", j-s.Off, sid, flow))
		}
		walk(flow, sid, s.Then)
		walk(flow, sid, s.Else)
		for _, x := range s.Subs {
			walk(flow, sid, x)
		}
	}
	for _, f := range gc.Flows {
		for _, ts := range f.Steps {
			walk(f.Name, ts.Sid, ts.S)
		}
	}
	if len(r) == 0 {
		return "spare capacity of the definition's slices"
	}
	if len(r) > 3 {
		r = append(r[:3], "...")
	}
	return strings.Join(r, ", ")
}

// definitionChanged: "" when every slot of the definition's action arrays and
// of the flows' Steps arrays is what it was before the run.
func (b *built) definitionChanged() string {
	for k, arr := range b.arrays {
		now := arr[:cap(arr)]
		for j := range now {
			if !sameAction(now[j], b.snapArr[k][j]) {
				return fmt.Sprintf("action array #%d slot %d held %v before the run and holds %v after it (%s)",
					k, j, actionCode(b.snapArr[k][j]), actionCode(now[j]), b.gc.users(k, j))
			}
		}
	}
	for name, f := range b.flows {
		snap, ok := b.snapSteps[name]
		if !ok {
			if f.Steps != nil {
				return fmt.Sprintf("flow F%d had nil Steps before the run", name)
			}
			continue
		}
		now := f.Steps[:cap(f.Steps)]
		if len(now) != len(snap) {
			return fmt.Sprintf("the Steps of flow F%d were re-sliced", name)
		}
		for j := range now {
			if !sameStep(now[j], snap[j]) {
				return fmt.Sprintf("slot %d of the Steps array of flow F%d changed", j, name)
			}
		}
	}
	return ""
}

// projectLog: the observables of BootProcess.Log as it is now
func (b *built) projectLog() []obsEntry { return b.projectLogOf(b.process.Log) }

func (b *built) projectLogOf(l bootengine.Log) []obsEntry {
	log := []obsEntry{}
	for _, e := range l {
		oe := obsEntry{Sid: b.sidOf(e.Step), Actions: [][2]int{}, Issues: []int{}, Actor: actorID(e.Actor), Code: -1}
		for _, a := range e.Actions {
			oe.Actions = append(oe.Actions, actionCode(a))
		}
		for _, is := range e.Issues {
			code := issueCode(is.Coords)
			if is.Issue == nil {
				code = -8
			}
			oe.Issues = append(oe.Issues, code)
		}
		oe.Measured = measuredIDs(e.MeasuredData)
		if e.ActorCode != nil {
			oe.Code = -99
			for id, a := range b.actors {
				if a.code.data == e.ActorCode {
					oe.Code = id
				}
			}
		}
		oe.Loc = b.locate(e.Actions)
		log = append(log, oe)
	}
	return log
}

func (b *built) observe(done bool) obsResult {
	var o obsResult
	o.Log = b.projectLog()
	for k, arr := range b.arrays {
		now := arr[:cap(arr)]
		changed := false
		for j := range now {
			if !sameAction(now[j], b.snapArr[k][j]) {
				changed = true
			}
		}
		if changed {
			codes := [][2]int{}
			for _, a := range now {
				codes = append(codes, actionCode(a))
			}
			if o.ArraysChanged == nil {
				o.ArraysChanged = map[int][][2]int{}
			}
			o.ArraysChanged[k] = codes
		}
	}
	o.DefChanged = b.definitionChanged()
	co := b.state.CurrentActionCoordinates
	o.Flow = flowID(co.Flow.Name)
	o.StepIdx = uint64(co.StepIndex)
	o.ActIdx = uint64(co.ActionIndex)
	o.Measured = measuredIDs(b.state.MeasuredData)
	o.Actor = actorID(b.state.CurrentActor)
	o.TPM = -1
	if b.tpm != nil {
		o.TPM = 0
		if b.tpm.IsInitialized() {
			o.TPM = 1
		}
	}
	o.Done = done
	return o
}

func sameEntry(a, b obsEntry) bool {
	return a.Sid == b.Sid && eqCodes(a.Actions, b.Actions) && eqInts(a.Issues, b.Issues) && eqInts(a.Measured, b.Measured) &&
		a.Actor == b.Actor && a.Code == b.Code
}

func showEntry(e obsEntry) string {
	return fmt.Sprintf("{step %d actions %v issues %v measured %v actor %d}", e.Sid, e.Actions, e.Issues, e.Measured, e.Actor)
}

func showEntryAt(l []obsEntry, j int) string {
	if j >= len(l) {
		return "(gone)"
	}
	return showEntry(l[j])
}

// session applies gc.Ops to the one BootProcess.  After every call the whole
// Log is read again: what earlier calls recorded must still be there and say
// the same.  After every operation the caller also keeps the Log VALUE it sees
// (the slice header); at the end each of these must still read what it read
// when it was taken.
func (b *built) session(ctx context.Context, trace *[]opObs) (ended bool, unstable string) {
	var before []obsEntry
	reread := func(after string) {
		now := b.projectLog()
		for j := range before {
			if unstable == "" && (j >= len(now) || !sameEntry(before[j], now[j])) {
				unstable = fmt.Sprintf("log entry %d was %s when it was recorded and reads %s after %s",
					j, showEntry(before[j]), showEntryAt(now, j), after)
			}
		}
		before = now
	}
	type keptLog struct {
		after string
		hdr   bootengine.Log
		read  []obsEntry
	}
	var kept []keptLog
	for i, op := range b.gc.Ops {
		name := fmt.Sprintf("operation #%d (%s)", i+1, op.K)
		switch op.K {
		case opNext:
			ended = false
			for k := 0; k < op.N; k++ {
				ended = !b.process.NextStep(ctx)
				b.runaway()
				reread(fmt.Sprintf("NextStep call %d of operation #%d", k+1, i+1))
			}
		case opFinish:
			b.process.Finish(ctx)
			ended = true
			reread(name)
		case opSetFlow:
			b.state.SetFlow(b.flow(op.Flow))
			ended = false
			reread(name)
		}
		*trace = append(*trace, opObs{Len: len(b.process.Log), Ended: ended})
		kept = append(kept, keptLog{after: name, hdr: b.process.Log, read: before})
	}
	for _, k := range kept {
		now := b.projectLogOf(k.hdr)
		for j := range k.read {
			if unstable == "" && (j >= len(now) || !sameEntry(k.read[j], now[j])) {
				unstable = fmt.Sprintf("the Log value read after %s: its entry %d was %s then and reads %s at the end of the session",
					k.after, j, showEntry(k.read[j]), showEntryAt(now, j))
			}
		}
	}
	return ended, unstable
}

// runaway: a changed interpreter that rewrites the definition may make the
// action lists grow from call to call (doubling: memory is gone within
// seconds); no step of a generated definition asks for more than a few dozen
// actions.  Stops the run (reported like a hang).
func (b *built) runaway() {
	if n := len(b.process.Log); n > 0 && len(b.process.Log[n-1].Actions) > 50000 {
		panic(fmt.Sprintf("timeout: the step executed last asked for %d actions; the run was given up", len(b.process.Log[n-1].Actions)))
	}
}

// parkStep / stopAll: Go cannot stop the goroutine of a run that was given up,
// and a changed interpreter looping through built-in steps only never reaches
// a harness-defined step or action, appending log entries until the memory is
// gone.  The watchdog therefore replaces every step of the (abandoned) family
// by a step that blocks; the observation of such a run is not used.
type parkStep struct{}

func (parkStep) Actions(context.Context, *types.State) types.Actions { select {} }

func (b *built) stopAll() {
	for _, f := range b.flows {
		all := f.Steps[:cap(f.Steps)]
		for j := range all {
			all[j] = parkStep{}
		}
	}
}

// run executes the real interpreter under a watchdog.
func run(gc *gCase) obsResult {
	b := build(gc)
	g := &guard{runaway: make(chan struct{})}
	ctx, giveUp := context.WithCancel(context.WithValue(context.Background(), guardKey{}, g))
	type res struct {
		panicked bool
		msg      string
		done     bool
	}
	ch := make(chan res, 1)
	unstable := ""
	var trace []opObs
	go func() {
		var done bool
		p, msg := gal.Recover(func() {
			if gc.Ops != nil {
				done, unstable = b.session(ctx, &trace)
				return
			}
			if gc.Steps < 0 {
				b.process.Finish(ctx)
				done = true
				return
			}
			var before []obsEntry
			for i := 0; i < gc.Steps; i++ {
				more := b.process.NextStep(ctx)
				b.runaway()
				// the log records what was executed: the entries recorded by
				// earlier calls still say the same
				now := b.projectLog()
				for j := range before {
					if unstable == "" && (j >= len(now) || !sameEntry(before[j], now[j])) {
						unstable = fmt.Sprintf("log entry %d was %s when it was recorded and reads %s after NextStep call #%d",
							j, showEntry(before[j]), showEntryAt(now, j), i+1)
					}
				}
				before = now
				if !more {
					done = true
					return
				}
			}
		})
		ch <- res{p, msg, done}
	}()
	// a run of a generated case logs a few dozen entries
	long := make(chan struct{})
	go func() {
		for ctx.Err() == nil {
			if len(b.process.Log) > 200000 {
				close(long)
				return
			}
			time.Sleep(2 * time.Millisecond)
		}
	}()
	select {
	case r := <-ch:
		giveUp()
		o := b.observe(r.done)
		o.Unstable = unstable
		o.Trace = trace
		o.Panicked, o.Msg = r.panicked, r.msg
		if len(o.Msg) > 200 {
			o.Msg = o.Msg[:200]
		}
		return o
	case <-long:
		giveUp()
		b.stopAll()
		return obsResult{Panicked: true, Msg: "timeout: interpreter did not terminate (more than 200000 log entries)", Log: []obsEntry{}}
	case <-g.runaway:
		giveUp()
		b.stopAll()
		return obsResult{Panicked: true, Msg: "timeout: interpreter did not terminate (runaway: " + strconv.Itoa(runawayCalls) + " calls of steps/actions)", Log: []obsEntry{}}
	case <-time.After(20 * time.Second):
		giveUp()
		b.stopAll()
		return obsResult{Panicked: true, Msg: "timeout: interpreter did not terminate", Log: []obsEntry{}}
	}
}

// ------------------------------------------------------------------ Gallina printers

func optZ(v int) string {
	if v == -1 {
		return "None"
	}
	return "(Some " + gal.Z(int64(v)) + ")"
}

func galRes(r int) string { return [...]string{"ROk", "RErr", "RPanic"}[r] }

func galAct(a gAct) string {
	switch a.K {
	case aSetFlow:
		return "ASetFlow " + gal.Z(int64(a.Flow))
	case aSetActor:
		return "ASetActor " + optZ(a.Actor)
	case aPanic:
		return "APanic"
	case aTPMInit:
		return "ATPMInit"
	case aLogAdd:
		return "ATPMLogAdd"
	case aMeasure:
		return "ATPMMeasure " + gal.Z(int64(a.ID)) + " " + galRes(a.Res)
	case aCustom:
		return "ACustom " + gal.Z(int64(a.ID)) + " " + optZ(a.Meas) + " " + optZ(a.Flow) + " " + galRes(a.Res)
	case aSetFlowFunc:
		return "ASetFlowFunc " + gal.Z(int64(a.ID)) + " (" + galFun(a.Fn) + ")"
	}
	panic("bad action")
}

func galFun(f *gFun) string {
	switch f.K {
	case fFlow:
		return "FFlow " + gal.Z(int64(f.Flow))
	case fIf:
		return "FIf (" + galCond(f.Cond) + ") (" + galFun(f.T) + ") (" + galFun(f.E) + ")"
	}
	return "FPanic"
}

func galActs(as []gAct) string {
	s := make([]string, len(as))
	for i, a := range as {
		s[i] = galAct(a)
	}
	return gal.List(s)
}

func galCond(c *gCond) string {
	switch c.K {
	case cConst:
		return "CConst " + gal.Bool(c.B)
	case cActorIs:
		return "CActorIs " + optZ(c.Actor)
	case cMeasuredLt:
		return "CMeasuredLt " + gal.Z(int64(c.N))
	case cTPMInited:
		return "CTPMInited"
	case cNot:
		return "CNot (" + galCond(c.Sub) + ")"
	case cMeasuredHas:
		return "CMeasuredHas " + gal.Z(int64(c.N))
	}
	return "CPanic" // cPanic, and cNil: Check on a nil Condition panics
}

func galOptStep(s *gStep) string {
	if s == nil {
		return "None"
	}
	return "(Some (" + galStep(s) + "))"
}

// the window of a step as a Model/InterpHeap.v slice
func galSlice(s *gStep) string {
	return "(Some (mkSl " + gal.Nat(s.Arr) + " " + gal.Nat(s.Off) + " " + gal.Nat(len(s.Acts)) + " " + gal.Nat(s.Cap) + "))"
}

func galStep(s *gStep) string {
	if s == nil {
		return "HNil"
	}
	switch s.K {
	case sStatic, sMeasure:
		if s.Nil {
			return "HStatic None"
		}
		return "HStatic " + galSlice(s)
	case sIf:
		return "HIf (" + galCond(s.Cond) + ") " + galOptStep(s.Then) + " " + galOptStep(s.Else)
	case sMerge:
		subs := make([]string, len(s.Subs))
		for i, x := range s.Subs {
			subs[i] = galOptStep(x)
		}
		return "HMerge " + gal.List(subs)
	case sSetFlow:
		return "HSetFlow " + gal.Z(int64(s.Flow))
	case sSetActor:
		return "HSetActor " + optZ(s.Actor)
	case sPanic:
		return "HPanic"
	case sInitTPM:
		return "HInitTPM " + gal.Bool(s.WithLog)
	case sLogInit:
		return "HLogInit"
	case sCustom:
		if s.Nil {
			return "HNil"
		}
		return "HCustom " + gal.Z(int64(s.ID)) + " " + gal.Bool(s.Panics) + " " + galSlice(s)
	case sSetFlowFunc:
		return "HSetFlowFunc " + gal.Z(int64(s.ID)) + " (" + galFun(s.Fn) + ")"
	}
	panic("bad step")
}

func galFamily(gc *gCase) string {
	fl := make([]string, len(gc.Flows))
	for i, f := range gc.Flows {
		st := make([]string, len(f.Steps))
		for j, ts := range f.Steps {
			st[j] = gal.Pair(gal.Z(int64(ts.Sid)), galStep(ts.S))
		}
		fl[i] = gal.Pair(gal.Z(int64(f.Name)), gal.List(st))
	}
	return gal.List(fl)
}

func galHeap(gc *gCase) string {
	arrs := make([]string, len(gc.Arrays))
	for i, a := range gc.Arrays {
		arrs[i] = galActs(a)
	}
	return gal.List(arrs)
}

// slice-level observation: where each logged slice points, the arrays after the run
func galHObs(o obsResult) string {
	locs := make([]string, len(o.Log))
	for i, e := range o.Log {
		if e.Loc == nil {
			locs[i] = "None"
		} else {
			locs[i] = "(Some (" + gal.Nat(e.Loc[0]) + ", " + gal.Nat(e.Loc[1]) + "))"
		}
	}
	arrs := []string{}
	for k := 0; k < len(o.ArraysChanged)+1000 && len(arrs) < len(o.ArraysChanged); k++ {
		a, ok := o.ArraysChanged[k]
		if !ok {
			continue
		}
		cs := make([]string, len(a))
		for j, c := range a {
			cs[j] = gal.Pair(gal.Z(int64(c[0])), gal.Z(int64(c[1])))
		}
		arrs = append(arrs, gal.Pair(gal.Nat(k), gal.List(cs)))
	}
	return "(" + gal.List(locs) + ", " + gal.List(arrs) + ")"
}

func galTPM(v int) string {
	switch v {
	case 0:
		return "(Some false)"
	case 1:
		return "(Some true)"
	}
	return "None"
}

func galCore(gc *gCase) string {
	return "(mkCore " + optZ(gc.Actor0) + " " + gal.IntList(gc.Meas0) + " " + galTPM(gc.TPM) + ")"
}

func galObs(o obsResult) string {
	if o.Panicked {
		return "OPanic"
	}
	es := make([]string, len(o.Log))
	for i, e := range o.Log {
		acts := make([]string, len(e.Actions))
		for j, a := range e.Actions {
			acts[j] = gal.Pair(gal.Z(int64(a[0])), gal.Z(int64(a[1])))
		}
		es[i] = "(" + gal.Z(int64(e.Sid)) + ", " + gal.List(acts) + ", " + gal.IntList(e.Issues) + ", " +
			gal.IntList(e.Measured) + ", " + optZ(e.Actor) + ", " + optZ(e.Code) + ")"
	}
	return "(OOk (" + gal.List(es) + ", (" + gal.Z(int64(o.Flow)) + ", " + gal.U(o.StepIdx) + ", " + gal.U(o.ActIdx) + "), " +
		gal.IntList(o.Measured) + ", " + optZ(o.Actor) + ", " + galTPM(o.TPM) + ", " + gal.Bool(o.Done) + "))"
}

func galOps(ops []gOp) string {
	r := make([]string, len(ops))
	for i, op := range ops {
		switch op.K {
		case opNext:
			r[i] = "ONext " + gal.Nat(op.N)
		case opFinish:
			r[i] = "OFinish"
		default:
			r[i] = "OSetFlow " + gal.Z(int64(op.Flow))
		}
	}
	return gal.List(r)
}

func galTrace(t []opObs) string {
	r := make([]string, len(t))
	for i, x := range t {
		r[i] = gal.Pair(gal.Nat(x.Len), gal.Bool(x.Ended))
	}
	return gal.List(r)
}

func galCase(gc *gCase, o obsResult) string {
	if gc.Ops != nil {
		return "CHSession " + galHeap(gc) + " " + galFamily(gc) + " " + galCore(gc) + " " + gal.Z(int64(gc.Root)) + " " + galOps(gc.Ops) + " " + galObs(o) + " " + galHObs(o) + " " + galTrace(o.Trace)
	}
	if gc.Steps < 0 {
		return "CHFinish " + galHeap(gc) + " " + galFamily(gc) + " " + galCore(gc) + " " + gal.Z(int64(gc.Root)) + " " + galObs(o) + " " + galHObs(o)
	}
	return "CHSteps " + galHeap(gc) + " " + galFamily(gc) + " " + galCore(gc) + " " + gal.Z(int64(gc.Root)) + " " + gal.Nat(gc.Steps) + " " + galObs(o) + " " + galHObs(o)
}

// ------------------------------------------------------------------ the independent oracle
//
// Written from the property text:
//   "Running a flow executes its steps in order starting at the first one,
//    applies each step's actions in order, switches to the first step of the
//    new flow immediately after an action changes the flow (skipping the
//    remaining actions of that step), and stops after the last step of the
//    current flow.  A step or action that returns an error or panics never
//    aborts the simulation: it is recorded as an issue of that step and
//    execution continues with the next action or step.  The execution log
//    contains one entry per executed step, and the measured data attached to
//    the log entries, concatenated, is exactly the state's list of
//    measurements."

type oracle struct {
	gc       *gCase
	fam      map[int][]gTop
	actor    int
	measured []int
	tpm      int
	budget   int // remaining steps that may be executed; <0: unlimited
	log      []obsEntry
	finished bool
	lastFlow int
	// statistics only: function-based set-flows applied, and how many of them
	// chose differently from what the state at the start of their step gives
	funcApplied, funcSensitive int
	stepStart                  *oracle // snapshot of the state when the current step began
	// sessions: the steps of the current flow that are still to be executed,
	// and what every operation should leave behind
	todo  []gTop
	trace []opObs
}

type stepPanic struct{}

// what the step asks to do (may panic with stepPanic)
func (o *oracle) want(s *gStep) []gAct {
	if s == nil {
		panic(stepPanic{}) // calling a method of a nil step
	}
	switch s.K {
	case sStatic, sMeasure:
		return s.Acts
	case sIf:
		br := s.Else
		if o.holds(s.Cond) {
			br = s.Then
		}
		if br == nil {
			return nil
		}
		return o.want(br)
	case sMerge:
		var all []gAct
		for _, sub := range s.Subs {
			all = append(all, o.want(sub)...)
		}
		return all
	case sSetFlow:
		return []gAct{{K: aSetFlow, Flow: s.Flow, Actor: -1, Meas: -1}}
	case sSetActor:
		return []gAct{{K: aSetActor, Actor: s.Actor, Flow: -1, Meas: -1}}
	case sPanic:
		return []gAct{{K: aPanic, Flow: -1, Actor: -1, Meas: -1}}
	case sInitTPM:
		r := []gAct{{K: aTPMInit, Flow: -1, Actor: -1, Meas: -1}}
		if s.WithLog {
			if o.tpm < 0 {
				r = append(r, gAct{K: aPanic, Flow: -1, Actor: -1, Meas: -1})
			} else {
				la := gAct{K: aLogAdd, Flow: -1, Actor: -1, Meas: -1}
				r = append(r, la, la)
			}
		}
		return r
	case sLogInit:
		la := gAct{K: aLogAdd, Flow: -1, Actor: -1, Meas: -1}
		if o.tpm < 0 {
			return []gAct{{K: aPanic, Flow: -1, Actor: -1, Meas: -1}}
		}
		return []gAct{la, la}
	case sCustom:
		if s.Panics || s.Nil {
			panic(stepPanic{}) // a nil pointer step: its Actions cannot run
		}
		return s.Acts
	case sSetFlowFunc:
		// the step asks for ONE action; which flow it leads to is not known yet
		return []gAct{{K: aSetFlowFunc, ID: s.ID, Fn: s.Fn, Flow: -1, Actor: -1, Meas: -1}}
	}
	panic("oracle: bad step")
}

func (o *oracle) holds(c *gCond) bool {
	switch c.K {
	case cConst:
		return c.B
	case cActorIs:
		return o.actor == c.Actor || (c.Actor < 0 && o.actor < 0)
	case cMeasuredLt:
		return len(o.measured) < c.N
	case cTPMInited:
		return o.tpm == 1
	case cNot:
		return !o.holds(c.Sub)
	case cMeasuredHas:
		for _, m := range o.measured {
			if m == c.N {
				return true
			}
		}
		return false
	}
	panic(stepPanic{})
}

// choose: the flow the function returns for the state as it is NOW
// (ok=false: the function panics).
func (o *oracle) choose(fn *gFun) (flow int, ok bool) {
	defer func() {
		if r := recover(); r != nil {
			if _, is := r.(stepPanic); !is {
				panic(r)
			}
			flow, ok = -1, false
		}
	}()
	for {
		switch fn.K {
		case fFlow:
			return fn.Flow, true
		case fIf:
			if o.holds(fn.Cond) {
				fn = fn.T
			} else {
				fn = fn.E
			}
		default:
			return -1, false
		}
	}
}

// perform one action: returns failed, and the flow switched to (-1: none)
func (o *oracle) perform(a gAct) (failed bool, newFlow int) {
	newFlow = -1
	switch a.K {
	case aSetFlow:
		newFlow = a.Flow
	case aSetActor:
		o.actor = a.Actor
	case aPanic:
		failed = true
	case aTPMInit:
		if o.tpm == 0 {
			o.tpm = 1
		} else {
			failed = true
		}
	case aLogAdd:
		failed = o.tpm < 0
	case aMeasure:
		if a.Res != rOk || o.tpm != 1 {
			failed = true
		} else {
			o.measured = append(o.measured, a.ID)
		}
	case aCustom:
		if a.Meas >= 0 {
			o.measured = append(o.measured, a.Meas)
		}
		if a.Flow >= 0 {
			newFlow = a.Flow
		}
		failed = a.Res != rOk
	case aSetFlowFunc:
		// applying the action = asking the function about the current state,
		// i.e. after every action applied before this one
		f, ok := o.choose(a.Fn)
		o.funcApplied++
		if o.stepStart != nil {
			if f0, ok0 := o.stepStart.choose(a.Fn); f0 != f || ok0 != ok {
				o.funcSensitive++
			}
		}
		if ok {
			newFlow = f
		} else {
			failed = true // a panicking action: an issue, nothing switched
		}
	}
	return
}

func wantCode(a gAct) [2]int {
	switch a.K {
	case aSetFlow:
		return [2]int{aSetFlow, a.Flow}
	case aSetActor:
		return [2]int{aSetActor, a.Actor + 1}
	case aMeasure:
		return [2]int{aMeasure, a.ID}
	case aCustom:
		return [2]int{aCustom, a.ID}
	}
	return [2]int{a.K, 0}
}

// one step: returns the flow switched to (-1: none)
func (o *oracle) runStep(ts gTop) int {
	e := obsEntry{Sid: ts.Sid, Actions: [][2]int{}, Issues: []int{}, Measured: []int{}, Code: -1}
	before := len(o.measured)
	o.stepStart = &oracle{actor: o.actor, tpm: o.tpm, measured: append([]int{}, o.measured...)}
	var acts []gAct
	func() {
		defer func() {
			if r := recover(); r != nil {
				if _, ok := r.(stepPanic); !ok {
					panic(r)
				}
				acts = nil
				e.Issues = append(e.Issues, -1)
			}
		}()
		acts = o.want(ts.S)
	}()
	next := -1
	for i, a := range acts {
		e.Actions = append(e.Actions, wantCode(a))
		if next >= 0 {
			continue // listed, but skipped
		}
		failed, nf := o.perform(a)
		if failed {
			e.Issues = append(e.Issues, i)
		}
		next = nf
	}
	e.Measured = append(e.Measured, o.measured[before:]...)
	e.Actor = o.actor
	if o.actor >= 0 {
		switch o.actor % 4 {
		case 1:
			e.Code = o.actor
		case 2, 3:
			e.Issues = append(e.Issues, -2)
		}
	}
	o.log = append(o.log, e)
	return next
}

func (o *oracle) runFlow(name int) {
	o.lastFlow = name
	steps := o.fam[name] // nil for flows without steps
	for _, ts := range steps {
		if o.budget == 0 {
			return
		}
		if o.budget > 0 {
			o.budget--
		}
		if next := o.runStep(ts); next >= 0 {
			o.runFlow(next)
			return
		}
	}
	// past the last step: the next NextStep call (if any is left) reports the end
	if o.budget != 0 {
		o.finished = true
	}
}

// Sessions.  The property speaks about running a flow: "executes its steps in
// order starting at the first one ... switches to the first step of the new
// flow immediately after an action changes the flow ... stops after the last
// step of the current flow", and about the log: "one entry per executed step".
// A process that is driven by several calls executes the same steps, each of
// them once, whoever asks for the next one:
//
//	enter(f)  the flow to run is f: its first step comes next
//	next()    one NextStep call: executes the step that comes next, if there
//	          is one left in the current flow
//
// Finish is next() until nothing is left; State.SetFlow(f) is enter(f).  Every
// executed step leaves one entry, and an entry is never taken back.
func (o *oracle) enter(flow int) {
	o.lastFlow = flow
	o.todo = o.fam[flow] // nil for flows without steps
}

func (o *oracle) next() bool {
	if len(o.todo) == 0 {
		return false // past the last step of the current flow
	}
	ts := o.todo[0]
	o.todo = o.todo[1:]
	if f := o.runStep(ts); f >= 0 {
		o.enter(f)
	}
	return true
}

func (o *oracle) runSession(root int, ops []gOp) {
	o.enter(root)
	o.budget = -1
	for _, op := range ops {
		ended := false
		switch op.K {
		case opNext:
			for k := 0; k < op.N; k++ {
				ended = !o.next()
			}
		case opFinish:
			for o.next() {
			}
			ended = true
		case opSetFlow:
			o.enter(op.Flow)
		}
		o.trace = append(o.trace, opObs{Len: len(o.log), Ended: ended})
		o.finished = ended
	}
}

func newOracle(gc *gCase) *oracle {
	o := &oracle{gc: gc, fam: map[int][]gTop{}, actor: gc.Actor0, tpm: gc.TPM, budget: gc.Steps}
	for _, f := range gc.Flows {
		if _, dup := o.fam[f.Name]; !dup {
			o.fam[f.Name] = f.Steps
		}
	}
	o.measured = append([]int{}, gc.Meas0...)
	return o
}

func eqInts(a, b []int) bool {
	if len(a) != len(b) {
		return false
	}
	for i := range a {
		if a[i] != b[i] {
			return false
		}
	}
	return true
}

func eqCodes(a, b [][2]int) bool {
	if len(a) != len(b) {
		return false
	}
	for i := range a {
		if a[i] != b[i] {
			return false
		}
	}
	return true
}

const site = "pkg/bootflow/bootengine/boot_process.go"

// judge compares the observed run with the oracle; returns "" or the violated clause.
func judge(gc *gCase, obs obsResult) (what string, where string, o *oracle) {
	what, where = "", ""
	o = newOracle(gc)
	if gc.Ops != nil {
		o.runSession(gc.Root, gc.Ops)
		what, where = judgeWith(gc, obs, o)
		if what == "" && !obs.Panicked {
			what, where = judgeTrace(gc, obs, o)
		}
		return
	}
	o.runFlow(gc.Root)
	what, where = judgeWith(gc, obs, o)
	return
}

// judgeTrace: what every single operation of a session left behind
func judgeTrace(gc *gCase, obs obsResult, o *oracle) (what string, where string) {
	if len(obs.Trace) != len(o.trace) {
		return fmt.Sprintf("%d of the %d operations of the session were carried out", len(obs.Trace), len(o.trace)), site
	}
	for i, w := range o.trace {
		g := obs.Trace[i]
		if g.Len != w.Len {
			return fmt.Sprintf("after operation #%d (%s) the log has %d entries, %d steps have been executed by then", i+1, gc.Ops[i].K, g.Len, w.Len), site + " NextStep/Finish"
		}
		if g.Ended != w.Ended {
			return fmt.Sprintf("operation #%d (%s): end of the flow reported = %v, expected %v", i+1, gc.Ops[i].K, g.Ended, w.Ended), site + " stateNextStep"
		}
	}
	return "", ""
}

func judgeWith(gc *gCase, obs obsResult, o *oracle) (what string, where string) {
	if obs.Panicked {
		return "a panic / hang escaped the interpreter: " + obs.Msg, site + " safeWrapper"
	}
	// clause: concatenation of the log's measured data = the state's measurements
	var cat []int
	cat = append(cat, gc.Meas0...)
	for _, e := range obs.Log {
		cat = append(cat, e.Measured...)
	}
	if !eqInts(cat, obs.Measured) {
		return fmt.Sprintf("measured data of the log entries concatenated %v != State.MeasuredData %v", cat, obs.Measured), site + " NextStep"
	}
	if len(obs.Log) != len(o.log) {
		n := len(obs.Log)
		if len(o.log) < n {
			n = len(o.log)
		}
		for i := 0; i < n; i++ {
			if obs.Log[i].Sid != o.log[i].Sid {
				return fmt.Sprintf("log entry %d is step %d, expected step %d (and %d entries instead of %d)", i, obs.Log[i].Sid, o.log[i].Sid, len(obs.Log), len(o.log)), site + " stateNextStep"
			}
		}
		return fmt.Sprintf("log has %d entries, %d steps are to be executed", len(obs.Log), len(o.log)), site + " stateNextStep"
	}
	// which steps were executed, in which order
	for i := range o.log {
		if g, w := obs.Log[i], o.log[i]; g.Sid != w.Sid {
			return fmt.Sprintf("log entry %d is step %d, expected step %d", i, g.Sid, w.Sid), site + " stateNextStep"
		}
	}
	// what each of them did
	for i := range o.log {
		g, w := obs.Log[i], o.log[i]
		switch {
		case !eqCodes(g.Actions, w.Actions):
			return fmt.Sprintf("log entry %d (step %d): actions %v, expected %v", i, g.Sid, g.Actions, w.Actions), site + " stateNextStep"
		case !eqInts(g.Measured, w.Measured):
			return fmt.Sprintf("log entry %d (step %d): measured %v, expected %v (an action was skipped, run twice or the slice is off)", i, g.Sid, g.Measured, w.Measured), site + " stateNextStep/NextStep"
		case !eqInts(g.Issues, w.Issues):
			return fmt.Sprintf("log entry %d (step %d): issues %v, expected %v (-1 step->actions, -2 actor, k action#k)", i, g.Sid, g.Issues, w.Issues), site + " stateNextStep"
		case g.Actor != w.Actor || g.Code != w.Code:
			return fmt.Sprintf("log entry %d (step %d): actor %d code %d, expected actor %d code %d", i, g.Sid, g.Actor, g.Code, w.Actor, w.Code), site + " NextStep"
		}
	}
	if !eqInts(obs.Measured, o.measured) {
		return fmt.Sprintf("State.MeasuredData %v, expected %v", obs.Measured, o.measured), site
	}
	if obs.Actor != o.actor || obs.TPM != o.tpm {
		return fmt.Sprintf("final actor %d tpm %d, expected %d %d", obs.Actor, obs.TPM, o.actor, o.tpm), site
	}
	if obs.Flow != o.lastFlow {
		return fmt.Sprintf("final flow F%d, expected F%d", obs.Flow, o.lastFlow), "pkg/bootflow/types/state.go SetFlow"
	}
	if obs.Done != o.finished {
		return fmt.Sprintf("NextStep reported end=%v, expected %v", obs.Done, o.finished), site + " stateNextStep"
	}
	return "", ""
}

// ------------------------------------------------------------------ generator

type gen struct {
	c       *gal.Ctx
	nextSid int
	nextID  int
	targets []int // flow names the current flow may switch to
	// chance (percent, per top-level or nested step) of a step built by coupled()
	coupledPct int
}

func (g *gen) rn(n int) int   { return g.c.Rng.Intn(n) }
func (g *gen) p(pct int) bool { return g.c.Rng.Intn(100) < pct }
func (g *gen) id() int        { g.nextID++; return g.nextID }

func (g *gen) actorID() int {
	if g.p(15) {
		return -1
	}
	return g.rn(8)
}

func (g *gen) target() int {
	if len(g.targets) == 0 || g.p(6) {
		return 100 + g.rn(3) // a flow with nil Steps
	}
	return g.targets[g.rn(len(g.targets))]
}

// two different targets when the family offers them
func (g *gen) twoTargets() (int, int) {
	x := g.target()
	y := g.target()
	for i := 0; i < 4 && y == x; i++ {
		y = g.target()
	}
	if y == x {
		y = 100 + (x+1)%3 // a flow with nil Steps
		if y == x {
			y = 100 + (x+2)%3
		}
	}
	return x, y
}

// fun: a random flow-choosing function.
func (g *gen) fun(depth int) *gFun {
	switch r := g.rn(100); {
	case r < 55 && depth > 0:
		return &gFun{K: fIf, Cond: g.cond(1), T: g.fun(depth - 1), E: g.fun(depth - 1)}
	case r < 62:
		return &gFun{K: fPanic}
	}
	return &gFun{K: fFlow, Flow: g.target()}
}

// sensitiveFun: a function whose answer flips when cond flips.
func (g *gen) sensitiveFun(c *gCond) *gFun {
	x, y := g.twoTargets()
	f := &gFun{K: fIf, Cond: c, T: &gFun{K: fFlow, Flow: x}, E: &gFun{K: fFlow, Flow: y}}
	switch r := g.rn(100); {
	case r < 25:
		f.Cond = nots(c, 1+g.rn(4))
	case r < 35:
		f.E = &gFun{K: fPanic}
	case r < 45:
		f.T = &gFun{K: fPanic}
	case r < 55:
		f.E = g.fun(1)
	}
	return f
}

// coupled: a step in which a function-based set-flow comes AFTER an action
// that changes the part of the State its function looks at (actor, TPM,
// measurements), optionally followed by actions that must be skipped. The
// container is a merged step, a static / custom step, or a branch of a
// conditional.
func (g *gen) coupled() *gStep {
	none := gAct{Flow: -1, Actor: -1, Meas: -1}
	var chA gAct   // the change, as an action
	var chS *gStep // the change, as a step (nil: only available as an action)
	var c *gCond
	switch r := g.rn(100); {
	case r < 40:
		a := g.rn(8)
		chA = none
		chA.K, chA.Actor = aSetActor, a
		chS = &gStep{K: sSetActor, Actor: a}
		c = &gCond{K: cActorIs, Actor: a}
	case r < 60:
		chA = none
		chA.K, chA.ID = aTPMInit, g.rn(5)
		chS = &gStep{K: sInitTPM, ID: chA.ID, WithLog: g.p(30)}
		c = &gCond{K: cTPMInited}
	case r < 80:
		// a harness action that measures unconditionally (and may then fail)
		chA = none
		chA.K, chA.ID, chA.Meas, chA.Res = aCustom, g.id(), g.id(), g.rn(3)
		c = &gCond{K: cMeasuredHas, N: chA.Meas}
		if g.p(40) {
			c = &gCond{K: cMeasuredLt, N: 1 + g.rn(4)}
		}
	default:
		// a TPM measurement (needs an initialised TPM to happen)
		chA = none
		chA.K, chA.ID = aMeasure, g.id()
		chS = &gStep{K: sMeasure, Acts: []gAct{chA}}
		c = &gCond{K: cMeasuredHas, N: chA.ID}
	}
	fn := g.sensitiveFun(c)
	fnA := none
	fnA.K, fnA.ID, fnA.Fn = aSetFlowFunc, g.id(), fn
	var s *gStep
	if chS != nil && g.p(60) {
		// MergeSteps{[noise,] change, [noise,] SetFlowFromFunc(fn), [skipped]}
		s = &gStep{K: sMerge}
		if g.p(25) {
			s.Subs = append(s.Subs, g.step(0, 0))
		}
		s.Subs = append(s.Subs, chS)
		if g.p(25) {
			s.Subs = append(s.Subs, g.step(0, 0))
		}
		if g.p(70) {
			s.Subs = append(s.Subs, &gStep{K: sSetFlowFunc, ID: fnA.ID, Fn: fn})
		} else {
			s.Subs = append(s.Subs, &gStep{K: sStatic, Acts: []gAct{fnA}})
		}
		if g.p(50) {
			s.Subs = append(s.Subs, g.step(0, 10))
		}
	} else {
		acts := []gAct{}
		if g.p(25) {
			acts = append(acts, g.act(0))
		}
		acts = append(acts, chA)
		if g.p(25) {
			acts = append(acts, g.act(0))
		}
		acts = append(acts, fnA)
		if g.p(50) {
			acts = append(acts, g.act(10))
		}
		s = &gStep{K: sStatic, Acts: acts}
		if g.p(25) {
			s = &gStep{K: sCustom, ID: g.id(), Acts: acts}
		}
	}
	if g.p(20) {
		s = &gStep{K: sIf, Cond: g.cond(1), Then: s, Else: s}
		if g.p(50) {
			s.Else = g.step(0, 10)
		}
	}
	return s
}

func (g *gen) act(switchPct int) gAct {
	a := gAct{Flow: -1, Actor: -1, Meas: -1}
	if g.p(switchPct) {
		if r := g.rn(100); r < 40 {
			a.K, a.Flow = aSetFlow, g.target()
		} else if r < 65 {
			a.K, a.ID, a.Fn = aSetFlowFunc, g.id(), g.fun(2)
		} else {
			a.K, a.ID, a.Flow, a.Res = aCustom, g.id(), g.target(), g.rn(3)
			if g.p(40) {
				a.Meas = g.id()
			}
		}
		return a
	}
	switch r := g.rn(100); {
	case r < 14:
		a.K, a.Actor = aSetActor, g.actorID()
	case r < 24:
		a.K = aPanic
	case r < 32:
		a.K, a.ID = aTPMInit, g.rn(5)
	case r < 36:
		a.K = aLogAdd
	case r < 52:
		a.K, a.ID = aMeasure, g.id()
		if g.p(25) {
			a.Res = 1 + g.rn(2)
		}
	default:
		a.K, a.ID, a.Res = aCustom, g.id(), rOk
		if g.p(65) {
			a.Meas = g.id()
		}
		if g.p(45) {
			a.Res = 1 + g.rn(2)
		}
	}
	return a
}

func (g *gen) acts(max, switchPct int) []gAct {
	n := g.rn(max + 1)
	r := make([]gAct, 0, n)
	for i := 0; i < n; i++ {
		r = append(r, g.act(switchPct))
	}
	return r
}

// nots: n times commonconds.Not around c
func nots(c *gCond, n int) *gCond {
	for ; n > 0; n-- {
		c = &gCond{K: cNot, Sub: c}
	}
	return c
}

// cond: a random condition; every eighth one is wrapped in 1..5 stacked
// negations (on top of the negations cond1 nests by itself).
func (g *gen) cond(depth int) *gCond {
	c := g.cond1(depth)
	if g.p(12) {
		c = nots(c, 1+g.rn(5))
	}
	return c
}

func (g *gen) cond1(depth int) *gCond {
	switch r := g.rn(100); {
	case r < 35:
		return &gCond{K: cConst, B: g.p(50)}
	case r < 55:
		return &gCond{K: cActorIs, Actor: g.actorID()}
	case r < 68:
		return &gCond{K: cMeasuredLt, N: g.rn(6)}
	case r < 72:
		return &gCond{K: cMeasuredHas, N: 1 + g.rn(g.nextID+2)}
	case r < 82:
		return &gCond{K: cTPMInited}
	case r < 94 && depth > 0:
		return &gCond{K: cNot, Sub: g.cond1(depth - 1)}
	case r < 97:
		return &gCond{K: cPanic}
	case r < 98:
		return &gCond{K: cNil}
	}
	return &gCond{K: cConst, B: true}
}

func (g *gen) step(depth, switchPct int) *gStep {
	if depth > 0 && switchPct > 0 && g.p(g.coupledPct) {
		return g.coupled()
	}
	r := g.rn(100)
	if depth <= 0 && r >= 30 && r < 58 {
		r = g.rn(30)
	}
	switch {
	case r < 30:
		if g.p(5) {
			return &gStep{K: sStatic, Nil: true}
		}
		return &gStep{K: sStatic, Acts: g.acts(4, switchPct)}
	case r < 44:
		s := &gStep{K: sIf, Cond: g.cond(2)}
		if g.p(85) {
			s.Then = g.step(depth-1, switchPct+8)
		}
		if g.p(60) {
			s.Else = g.step(depth-1, switchPct+8)
		}
		return s
	case r < 58:
		if g.p(5) {
			return &gStep{K: sMerge, Nil: true}
		}
		n := g.rn(4)
		s := &gStep{K: sMerge, Subs: make([]*gStep, 0, n)}
		for i := 0; i < n; i++ {
			if g.p(3) {
				s.Subs = append(s.Subs, nil)
			} else {
				s.Subs = append(s.Subs, g.step(depth-1, switchPct))
			}
		}
		return s
	case r < 58+switchPct:
		if g.p(40) {
			return &gStep{K: sSetFlowFunc, ID: g.id(), Fn: g.fun(2)}
		}
		return &gStep{K: sSetFlow, Flow: g.target()}
	case r < 76:
		return &gStep{K: sSetActor, Actor: g.actorID()}
	case r < 80:
		return &gStep{K: sPanic, ID: g.id()}
	case r < 86:
		if g.p(20) {
			return &gStep{K: sLogInit, ID: g.rn(5)}
		}
		return &gStep{K: sInitTPM, WithLog: g.p(50), ID: g.rn(5)}
	case r < 92:
		a := gAct{K: aMeasure, ID: g.id(), Flow: -1, Actor: -1, Meas: -1}
		if g.p(20) {
			a.Res = 1 + g.rn(2)
		}
		return &gStep{K: sMeasure, Acts: []gAct{a}}
	default:
		if g.p(4) {
			return &gStep{K: sCustom, Nil: true} // a nil pointer of the harness' step type
		}
		return &gStep{K: sCustom, ID: g.id(), Panics: g.p(30), Acts: g.acts(3, switchPct)}
	}
}

// loop rewrites the root flow into a short loop: every round measures, and the
// last step asks a function whether to go round again, so that the SAME
// function-based set-flow step / action object is applied several times with
// different answers (first "again", finally "leave").
func (g *gen) loop(gc *gCase, nf int) {
	g.targets = g.targets[:0]
	for j := 1; j < nf; j++ {
		g.targets = append(g.targets, j)
	}
	var steps []gTop
	for i := g.rn(3); i > 0; i-- {
		steps = append(steps, g.top(g.step(1, 0)))
	}
	m := gAct{K: aCustom, ID: g.id(), Meas: g.id(), Flow: -1, Actor: -1, Res: g.rn(3)}
	rounds := 2 + g.rn(3)
	again := &gCond{K: cMeasuredLt, N: len(gc.Meas0) + rounds}
	fn := &gFun{K: fIf, Cond: again, T: &gFun{K: fFlow, Flow: 0}, E: g.fun(1)}
	if g.p(30) {
		// the same question asked through 1..4 negations
		if n := 1 + g.rn(4); n%2 == 1 {
			fn = &gFun{K: fIf, Cond: nots(again, n), T: fn.E, E: fn.T}
		} else {
			fn.Cond = nots(again, n)
		}
	}
	fa := gAct{K: aSetFlowFunc, ID: g.id(), Fn: fn, Flow: -1, Actor: -1, Meas: -1}
	switch r := g.rn(100); {
	case r < 35: // measuring step, then a static step holding the action object
		steps = append(steps, g.top(&gStep{K: sStatic, Acts: []gAct{m}}), g.top(&gStep{K: sStatic, Acts: []gAct{fa, g.act(0)}}))
	case r < 60: // one static step: measure, then ask
		steps = append(steps, g.top(&gStep{K: sStatic, Acts: []gAct{m, fa, g.act(0)}}))
	case r < 80: // SetFlowFromFunc step
		steps = append(steps, g.top(&gStep{K: sStatic, Acts: []gAct{m}}), g.top(&gStep{K: sSetFlowFunc, ID: fa.ID, Fn: fn}))
	default: // merged: measure, SetFlowFromFunc, something to skip
		steps = append(steps, g.top(&gStep{K: sMerge, Subs: []*gStep{{K: sStatic, Acts: []gAct{m}}, {K: sSetFlowFunc, ID: fa.ID, Fn: fn}, g.step(0, 0)}}))
	}
	if g.p(50) {
		steps = append(steps, g.top(g.step(1, 0))) // reached only if the function panicked
	}
	if g.p(20) {
		// a hole somewhere in the loop: passed on every round
		k := g.rn(len(steps) + 1)
		steps = append(steps[:k], append([]gTop{g.top(nil)}, steps[k:]...)...)
	}
	gc.Flows[0].Steps = steps
}

func (g *gen) top(s *gStep) gTop {
	// all nil StaticSteps (MergeSteps, holes ...) are one and the same Go value: they share a sid
	if sid := fixedSid(s); sid != 0 {
		return gTop{Sid: sid, S: s}
	}
	g.nextSid++
	return gTop{Sid: 9 + g.nextSid, S: s}
}

// family generates flows 0..nf-1; acyclic: flow i switches only to flows of a
// higher level (levels 0..3, so a chain visits at most 4 flows of the family).
func (g *gen) family(acyclic bool) *gCase {
	g.nextSid, g.nextID = 0, 0
	g.coupledPct = 0
	if g.p(50) {
		g.coupledPct = 4 + g.rn(12)
	}
	// every fifth family has holes: 8-35% of its top-level steps are nil
	holePct := 0
	if g.p(20) {
		holePct = 8 + g.rn(28)
	}
	nf := 1 + g.rn(6)
	level := make([]int, nf)
	for i := 1; i < nf; i++ {
		level[i] = level[i-1]
		if g.p(60) && level[i] < 3 {
			level[i]++
		}
	}
	gc := &gCase{Root: 0, TPM: g.rn(3) - 1, Actor0: -1, Meas0: []int{}, Steps: -1}
	if g.p(25) {
		gc.Actor0 = g.rn(8)
	}
	if g.p(25) {
		for i := g.rn(3) + 1; i > 0; i-- {
			gc.Meas0 = append(gc.Meas0, 900+g.rn(50))
		}
	}
	for i := 0; i < nf; i++ {
		g.targets = g.targets[:0]
		for j := 0; j < nf; j++ {
			if !acyclic || level[j] > level[i] {
				g.targets = append(g.targets, j)
			}
		}
		switchPct := 14
		if len(g.targets) == 0 {
			switchPct = 3
		}
		n := g.rn(9)
		if g.p(12) {
			n = 0
		}
		f := gFlow{Name: i, Steps: make([]gTop, 0, n)}
		for j := 0; j < n; j++ {
			if g.p(holePct) {
				// a hole in Steps (sometimes a nil pointer of a step type instead)
				if g.p(80) {
					f.Steps = append(f.Steps, g.top(nil))
				} else {
					f.Steps = append(f.Steps, g.top(&gStep{K: sCustom, Nil: true}))
				}
				continue
			}
			sp := switchPct
			if j == 0 && g.p(25) {
				sp = 70 // first step switches
			}
			f.Steps = append(f.Steps, g.top(g.step(2, sp)))
		}
		gc.Flows = append(gc.Flows, f)
	}
	if !acyclic && g.p(40) {
		g.loop(gc, nf)
	}
	if g.p(3) {
		gc.Root = 100 // run a flow with nil Steps
	}
	if !acyclic {
		gc.Steps = g.rn(26)
	} else if g.p(15) {
		gc.Steps = g.rn(12)
	}
	g.layout(gc)
	return gc
}

// sessions: the family is driven by several operations on one BootProcess.
// Finish only on acyclic families (it would not return on a loop); any flow of
// the family, the root again or a flow without steps may be given to SetFlow.
func (g *gen) ops(gc *gCase, acyclic bool) {
	anyFlow := func() int {
		if g.p(8) {
			return 100 // a flow with nil Steps
		}
		return g.rn(len(gc.Flows))
	}
	next := func(max int) gOp { return gOp{K: opNext, N: g.rn(max + 1)} }
	var ops []gOp
	if !acyclic {
		// single-stepping, now and then another flow is given to the state
		left := 26
		for n := 1 + g.rn(5); n > 0 && left > 0; n-- {
			if g.p(25) {
				ops = append(ops, gOp{K: opSetFlow, Flow: anyFlow()})
				continue
			}
			op := next(8)
			if op.N > left {
				op.N = left
			}
			left -= op.N
			ops = append(ops, op)
		}
		gc.Ops, gc.Steps = ops, -1
		return
	}
	switch r := g.rn(100); {
	case r < 40:
		// single-stepped for a while (possibly beyond the end), the rest with Finish
		ops = append(ops, next(11))
		if g.p(25) {
			ops = append(ops, next(3))
		}
		ops = append(ops, gOp{K: opFinish})
	case r < 65:
		// run to the end, then run further flows on the same process
		ops = append(ops, gOp{K: opFinish})
		for n := 1 + g.rn(3); n > 0; n-- {
			ops = append(ops, gOp{K: opSetFlow, Flow: anyFlow()})
			if g.p(30) {
				ops = append(ops, next(4))
			}
			ops = append(ops, gOp{K: opFinish})
		}
	default:
		for n := 2 + g.rn(5); n > 0; n-- {
			switch q := g.rn(100); {
			case q < 45:
				ops = append(ops, next(5))
			case q < 75:
				ops = append(ops, gOp{K: opFinish})
			default:
				ops = append(ops, gOp{K: opSetFlow, Flow: anyFlow()})
			}
		}
		if g.p(50) {
			ops = append(ops, gOp{K: opFinish})
		}
	}
	gc.Ops, gc.Steps = ops, -1
}

// ------------------------------------------------------------------ memory layout of the definition

// listNodes: the steps that own an action list, in definition order, each
// AST node once; per flow and all together.
func listNodes(gc *gCase) (all []*gStep, perFlow [][]*gStep) {
	seen := map[*gStep]bool{}
	var cur []*gStep
	var walk func(s *gStep)
	walk = func(s *gStep) {
		if s == nil || seen[s] {
			return
		}
		seen[s] = true
		if s.hasList() {
			cur = append(cur, s)
		}
		walk(s.Then)
		walk(s.Else)
		for _, x := range s.Subs {
			walk(x)
		}
	}
	for i := range gc.Flows {
		cur = nil
		for _, ts := range gc.Flows[i].Steps {
			walk(ts.S)
		}
		perFlow = append(perFlow, cur)
		all = append(all, cur...)
	}
	return
}

func copyActs(as []gAct) []gAct { return append([]gAct{}, as...) }

// ownArray: the step gets an array of its own: its actions followed by spare slots
func ownArray(gc *gCase, s *gStep, spare []gAct, capacity int) {
	arr := append(copyActs(s.Acts), spare...)
	s.Arr, s.Off, s.Cap = len(gc.Arrays), 0, capacity
	gc.Arrays = append(gc.Arrays, arr)
}

// layoutExact: every step that has no window yet gets a private array with
// cap == len, as a composite literal has (an empty list: one spare slot, so
// that distinct empty lists are distinct Go values).
func layoutExact(gc *gCase) {
	if gc.Arrays == nil {
		gc.Arrays = [][]gAct{}
	}
	all, _ := listNodes(gc)
	for _, s := range all {
		if s.Cap > 0 {
			continue
		}
		if len(s.Acts) == 0 {
			ownArray(gc, s, []gAct{act(aPanic)}, 1)
		} else {
			ownArray(gc, s, nil, len(s.Acts))
		}
	}
	if gc.Layout == "" {
		gc.Layout = "exact"
	}
	unifySids(gc)
}

// unifySids: top-level static steps that are the same window are the same Go
// value (StaticStep is a slice type: same pointer, same length), the log
// cannot tell them apart; they share an id.
func unifySids(gc *gCase) {
	type key struct{ arr, off, n int }
	first := map[key]int{}
	for i := range gc.Flows {
		for j := range gc.Flows[i].Steps {
			ts := &gc.Flows[i].Steps[j]
			if ts.S == nil || ts.S.K != sStatic || ts.S.Nil {
				continue
			}
			k := key{ts.S.Arr, ts.S.Off, len(ts.S.Acts)}
			if sid, ok := first[k]; ok {
				ts.Sid = sid
			} else {
				first[k] = ts.Sid
			}
		}
	}
}

// layout decides where the action lists of a generated family live.
func (g *gen) layout(gc *gCase) {
	gc.Arrays = [][]gAct{}
	all, perFlow := listNodes(gc)
	mode := "shared"
	switch r := g.rn(100); {
	case r < 15:
		mode = "exact"
	case r < 30:
		mode = "spare"
	}
	aliasPct := 0
	if mode != "exact" && g.p(60) {
		aliasPct = 10 + g.rn(30)
	}
	// which steps re-use (part of) the list of an earlier step of their flow
	aliases := 0
	for _, nodes := range perFlow {
		for i, n := range nodes {
			if i == 0 || n.K == sMeasure || !g.p(aliasPct) {
				continue
			}
			var cand []*gStep
			for _, m := range nodes[:i] {
				if m.K != sMeasure && m.aliasOf == nil && len(m.Acts) > 0 {
					cand = append(cand, m)
				}
			}
			if len(cand) > 0 {
				n.aliasOf = cand[g.rn(len(cand))]
				aliases++
			}
		}
	}
	fillers := func(n int) []gAct {
		r := make([]gAct, 0, n)
		for i := 0; i < n; i++ {
			r = append(r, g.act(0))
		}
		return r
	}
	var owners []*gStep
	for _, s := range all {
		switch {
		case s.K == sMeasure:
			ownArray(gc, s, nil, 1) // the literal of tpmsteps.Measure
		case s.aliasOf == nil:
			owners = append(owners, s)
		}
	}
	switch mode {
	case "exact":
		for _, s := range owners {
			if len(s.Acts) == 0 {
				ownArray(gc, s, fillers(1), 1)
			} else {
				ownArray(gc, s, nil, len(s.Acts))
			}
		}
	case "spare":
		for _, s := range owners {
			sp := 1 + g.rn(3)
			c := len(s.Acts) + sp
			if g.p(30) {
				c = len(s.Acts) + 1 + g.rn(sp)
			}
			ownArray(gc, s, fillers(sp), c)
		}
	default:
		// side by side in a few arrays, in any order
		for i := len(owners) - 1; i > 0; i-- {
			j := g.rn(i + 1)
			owners[i], owners[j] = owners[j], owners[i]
		}
		groups := 1 + g.rn(3)
		for len(owners) > 0 {
			n := len(owners)
			if groups > 1 {
				n = 1 + g.rn(len(owners))
			}
			groups--
			grp := owners[:n]
			owners = owners[n:]
			k := len(gc.Arrays)
			var arr []gAct
			for _, s := range grp {
				s.Arr, s.Off = k, len(arr)
				arr = append(arr, s.Acts...)
				if g.p(25) {
					arr = append(arr, fillers(1+g.rn(2))...)
				}
			}
			// every window keeps at least one slot of capacity
			last := grp[len(grp)-1]
			if last.Off+len(last.Acts) == len(arr) && (len(last.Acts) == 0 || g.p(50)) {
				arr = append(arr, fillers(1+g.rn(2))...)
			}
			for _, s := range grp {
				rest := len(arr) - s.Off // up to the end of the array
				n := len(s.Acts)
				switch r := g.rn(100); {
				case r < 55:
					s.Cap = rest // arr[off : off+len]
				case r < 75:
					s.Cap = n // arr[off : off+len : off+len]
				default:
					s.Cap = n + g.rn(rest-n+1)
				}
				if s.Cap < 1 {
					s.Cap = 1
				}
			}
			gc.Arrays = append(gc.Arrays, arr)
		}
	}
	// sub-windows of other steps' lists
	for _, n := range all {
		m := n.aliasOf
		if m == nil {
			continue
		}
		l := len(m.Acts)
		i, j := 0, l
		switch r := g.rn(100); {
		case r < 45: // the very same window
		case r < 80: // a prefix
			j = g.rn(l + 1)
		default:
			i = g.rn(l)
			j = i + g.rn(l-i+1)
		}
		n.Arr, n.Off, n.Acts = m.Arr, m.Off+i, copyActs(m.Acts[i:j])
		most := m.Cap - i
		switch r := g.rn(100); {
		case r < 60:
			n.Cap = most // plain re-slice
		case r < 80:
			n.Cap = j - i
		default:
			n.Cap = (j - i) + g.rn(most-(j-i)+1)
		}
		if n.Cap < 1 {
			n.Cap = 1
		}
	}
	gc.Layout = mode
	if aliases > 0 {
		gc.Layout += fmt.Sprintf(" + %d re-used (sub-)windows", aliases)
	}
	unifySids(gc)
}

// ------------------------------------------------------------------ fixed edge cases

func act(k int) gAct { return gAct{K: k, Flow: -1, Actor: -1, Meas: -1} }
func setFlowA(f int) gAct {
	a := act(aSetFlow)
	a.Flow = f
	return a
}
func measA(id, res int) gAct {
	a := act(aMeasure)
	a.ID, a.Res = id, res
	return a
}
func customA(id, meas, flow, res int) gAct {
	return gAct{K: aCustom, ID: id, Meas: meas, Flow: flow, Actor: -1, Res: res}
}
func static(as ...gAct) *gStep { return &gStep{K: sStatic, Acts: as} }
func setActorA(a int) gAct {
	x := act(aSetActor)
	x.Actor = a
	return x
}
func flowF(f int) *gFun { return &gFun{K: fFlow, Flow: f} }
func ifF(c *gCond, t, e *gFun) *gFun {
	return &gFun{K: fIf, Cond: c, T: t, E: e}
}
func funcA(id int, fn *gFun) gAct {
	a := act(aSetFlowFunc)
	a.ID, a.Fn = id, fn
	return a
}
func funcS(id int, fn *gFun) *gStep { return &gStep{K: sSetFlowFunc, ID: id, Fn: fn} }

func fixedCases() []*gCase {
	var r []*gCase
	var arrays [][]gAct // set before mk: arrays the windows made by win() point into
	mk := func(comment string, tpmv int, flows ...gFlow) *gCase {
		gc := &gCase{Flows: flows, Root: flows[0].Name, TPM: tpmv, Actor0: -1, Meas0: []int{}, Steps: -1, Comment: comment}
		if arrays != nil {
			gc.Arrays, gc.Layout = arrays, "explicit windows"
			arrays = nil
		}
		sid := 10
		for i := range gc.Flows {
			for j := range gc.Flows[i].Steps {
				s := gc.Flows[i].Steps[j].S
				if fs := fixedSid(s); fs != 0 {
					gc.Flows[i].Steps[j].Sid = fs
				} else {
					gc.Flows[i].Steps[j].Sid = sid
					sid++
				}
			}
		}
		layoutExact(gc)
		r = append(r, gc)
		return gc
	}
	// win: a static step that is the window arrays[arr][off : off+n : off+capacity]
	win := func(arr, off, n, capacity int) *gStep {
		return &gStep{K: sStatic, Acts: copyActs(arrays[arr][off : off+n]), Arr: arr, Off: off, Cap: capacity}
	}
	merge := func(subs ...*gStep) *gStep { return &gStep{K: sMerge, Subs: subs} }
	fl := func(name int, steps ...*gStep) gFlow {
		f := gFlow{Name: name, Steps: []gTop{}}
		for _, s := range steps {
			f.Steps = append(f.Steps, gTop{S: s})
		}
		return f
	}
	mk("empty flow", 0, fl(0))
	mk("root has nil Steps", 0, fl(0)).Root = 100
	mk("single nil static step", 0, fl(0, &gStep{K: sStatic, Nil: true}, &gStep{K: sStatic, Nil: true}, &gStep{K: sMerge, Nil: true}))
	mk("first step switches", 1, fl(0, &gStep{K: sSetFlow, Flow: 1}, static(measA(1, 0))), fl(1, static(measA(2, 0))))
	mk("switch to an empty flow", 1, fl(0, &gStep{K: sSetFlow, Flow: 1}, static(measA(1, 0))), fl(1))
	mk("switch to a nil flow", 1, fl(0, static(measA(3, 0)), &gStep{K: sSetFlow, Flow: 100}, static(measA(1, 0))))
	mk("switch as last action of last step", 1, fl(0, static(measA(1, 0)), static(measA(2, 0), setFlowA(1))), fl(1, static(measA(3, 0))))
	mk("switch in the middle skips the rest", 1, fl(0, static(measA(1, 0), setFlowA(1), measA(2, 0), act(aPanic)), static(measA(3, 0))), fl(1, static(measA(4, 0)), static(measA(5, 0))))
	mk("consecutive switches", 1, fl(0, &gStep{K: sSetFlow, Flow: 1}), fl(1, &gStep{K: sSetFlow, Flow: 2}), fl(2, &gStep{K: sSetFlow, Flow: 3}), fl(3, static(measA(1, 0))))
	mk("two switches in one step: only the first counts", 1, fl(0, static(setFlowA(1), setFlowA(2))), fl(1, static(measA(1, 0))), fl(2, static(measA(2, 0))))
	mk("failures before and after a switch", 1,
		fl(0, static(act(aPanic), customA(1, -1, -1, rErr), measA(2, 0), customA(3, 4, -1, rPanic), setFlowA(1), customA(5, 6, -1, rOk)), static(measA(7, 0))),
		fl(1, static(customA(8, -1, -1, rErr), measA(9, 0))))
	mk("a failing action that switched the flow still switches", 1,
		fl(0, static(customA(1, 2, 1, rErr), measA(3, 0)), static(measA(4, 0))),
		fl(1, static(customA(5, 6, 2, rPanic), measA(7, 0)), static(measA(8, 0))),
		fl(2, static(measA(9, 0))))
	mk("panicking Actions()", 1, fl(0, &gStep{K: sCustom, ID: 1, Panics: true, Acts: []gAct{measA(1, 0)}}, static(measA(2, 0))))
	mk("nil element in MergeSteps", 1, fl(0, &gStep{K: sMerge, Subs: []*gStep{static(measA(1, 0)), nil, static(measA(2, 0))}}, static(measA(3, 0))))
	mk("panicking condition", 1, fl(0, &gStep{K: sIf, Cond: &gCond{K: cPanic}, Then: static(measA(1, 0))}, static(measA(2, 0))))
	mk("switch inside merge inside if", 1,
		fl(0, &gStep{K: sIf, Cond: &gCond{K: cConst, B: false}, Then: static(measA(1, 0)), Else: &gStep{K: sMerge, Subs: []*gStep{static(measA(2, 0)), {K: sSetFlow, Flow: 1}, static(measA(3, 0))}}}, static(measA(4, 0))),
		fl(1, static(measA(5, 0))))
	mk("conditions see the state at the start of the step", 1,
		fl(0, &gStep{K: sMerge, Subs: []*gStep{{K: sSetActor, Actor: 5}, {K: sIf, Cond: &gCond{K: cActorIs, Actor: 5}, Then: static(measA(1, 0)), Else: static(measA(2, 0))}}},
			&gStep{K: sIf, Cond: &gCond{K: cActorIs, Actor: 5}, Then: static(measA(3, 0)), Else: static(measA(4, 0))}))
	// holes: a nil entry of Steps is a step that cannot be asked for its
	// actions; it is logged with that issue and the run goes on behind it
	hole := (*gStep)(nil)
	nilPtr := func() *gStep { return &gStep{K: sCustom, Nil: true} }
	mk("a hole in the middle of a flow", 1, fl(0, static(measA(1, 0)), hole, static(measA(2, 0)), &gStep{K: sSetActor, Actor: 5}, static(measA(3, 0))))
	mk("a hole as the very first step", 1, fl(0, hole, static(measA(1, 0)), &gStep{K: sSetFlow, Flow: 1}), fl(1, static(measA(2, 0))))
	mk("a hole as the first step of the flow switched to", 1, fl(0, static(measA(1, 0)), &gStep{K: sSetFlow, Flow: 1}), fl(1, hole, &gStep{K: sSetActor, Actor: 5}, &gStep{K: sSetFlow, Flow: 2}), fl(2, hole, hole, static(measA(2, 0))))
	mk("a hole as the last step", 1, fl(0, static(measA(1, 0)), hole))
	mk("holes only", 1, fl(0, hole, hole, hole))
	mk("holes and nil pointer steps with an actor whose code fails", 1, fl(0, &gStep{K: sSetActor, Actor: 7}, hole, nilPtr(), &gStep{K: sSetActor, Actor: 5}, hole, static(measA(1, 0))))
	mk("nil pointer steps as step, as branch of a conditional and inside a merged step", 1,
		fl(0, nilPtr(), &gStep{K: sIf, Cond: &gCond{K: cConst, B: true}, Then: nilPtr(), Else: static(measA(1, 0))},
			merge(static(measA(2, 0)), nilPtr()), static(measA(3, 0))))
	for k := 1; k <= 5; k++ {
		gc := mk("holes, stepwise", 1, fl(0, hole, static(measA(1, 0)), hole, &gStep{K: sSetFlow, Flow: 1}), fl(1, hole, static(measA(2, 0))))
		gc.Steps = k
	}
	hc := mk("a hole passed on every round of a cycle", 1, fl(0, static(customA(1, 2, -1, rOk)), hole, funcS(3, ifF(&gCond{K: cMeasuredLt, N: 3}, flowF(0), flowF(100)))))
	hc.Steps = 12
	// stacked negations: commonconds.Not around commonconds.Not ...
	tpmInited := &gCond{K: cTPMInited}
	for n := 0; n <= 5; n++ {
		mk(fmt.Sprintf("a conditional on %d stacked negations of a constant, of the actor and of the TPM state", n), 0,
			fl(0, &gStep{K: sIf, Cond: nots(&gCond{K: cConst, B: true}, n), Then: static(measA(1, 0)), Else: &gStep{K: sSetActor, Actor: 5}},
				&gStep{K: sIf, Cond: nots(&gCond{K: cActorIs, Actor: 5}, n), Then: &gStep{K: sSetActor, Actor: 6}, Else: &gStep{K: sSetActor, Actor: 7}},
				&gStep{K: sIf, Cond: nots(tpmInited, n), Then: static(measA(2, 0)), Else: &gStep{K: sInitTPM}},
				&gStep{K: sIf, Cond: nots(tpmInited, n), Then: &gStep{K: sSetFlow, Flow: 1}, Else: &gStep{K: sSetFlow, Flow: 2}},
				static(measA(3, 0))),
			fl(1, static(measA(4, 0))), fl(2, static(measA(5, 0))))
	}
	mk("init the TPM unless it is (twice negated: if it is not not) initialised, as the AMD flows do", 0,
		fl(0, &gStep{K: sIf, Cond: nots(tpmInited, 1), Then: &gStep{K: sInitTPM}},
			&gStep{K: sIf, Cond: nots(tpmInited, 2), Else: &gStep{K: sInitTPM}},
			&gStep{K: sMeasure, Acts: []gAct{measA(1, 0)}},
			&gStep{K: sIf, Cond: nots(tpmInited, 2), Then: &gStep{K: sMeasure, Acts: []gAct{measA(2, 0)}}, Else: &gStep{K: sInitTPM}}))
	mk("negations of a panicking and of a nil condition, a nil condition", 1,
		fl(0, &gStep{K: sIf, Cond: nots(&gCond{K: cPanic}, 2), Then: static(measA(1, 0)), Else: static(measA(2, 0))},
			&gStep{K: sIf, Cond: nots(&gCond{K: cNil}, 1), Then: static(measA(3, 0)), Else: static(measA(4, 0))},
			&gStep{K: sIf, Cond: &gCond{K: cNil}, Then: static(measA(5, 0)), Else: static(measA(6, 0))},
			static(measA(7, 0))))
	mk("a flow function asking through stacked negations", 1,
		fl(0, &gStep{K: sSetActor, Actor: 5}, funcS(1, ifF(nots(&gCond{K: cActorIs, Actor: 5}, 2), flowF(1), flowF(2))), static(measA(1, 0))),
		fl(1, static(funcA(2, ifF(nots(&gCond{K: cMeasuredLt, N: 1}, 3), flowF(100), flowF(2))), measA(2, 0))),
		fl(2, static(measA(3, 0))))
	mk("LogInit as a step of its own, with and without a TPM behind it", 0, fl(0, &gStep{K: sLogInit, ID: 0}, &gStep{K: sInitTPM}, &gStep{K: sLogInit, ID: 3}, &gStep{K: sLogInit, ID: 0}, static(measA(1, 0))))
	mk("LogInit without a TPM", -1, fl(0, &gStep{K: sLogInit, ID: 1}, static(measA(1, 0))))
	// function-based set-flow: the function is asked when the action is applied
	actorIs := func(a int) *gCond { return &gCond{K: cActorIs, Actor: a} }
	three := func() []gFlow {
		return []gFlow{fl(1, static(measA(11, 0))), fl(2, static(measA(12, 0))), fl(3, static(measA(13, 0)))}
	}
	mk("flow function in a merged step sees the actions merged before it", 1,
		append([]gFlow{fl(0, &gStep{K: sSetActor, Actor: 4},
			&gStep{K: sMerge, Subs: []*gStep{{K: sSetActor, Actor: 5}, funcS(1, ifF(actorIs(5), flowF(1), flowF(2))), {K: sSetActor, Actor: 6}}},
			&gStep{K: sSetActor, Actor: 7})}, three()...)...)
	mk("flow function action sees the actions applied before it in the same step", 0,
		append([]gFlow{fl(0, static(act(aTPMInit), customA(1, 2, -1, rErr), funcA(3, ifF(&gCond{K: cTPMInited}, ifF(&gCond{K: cMeasuredHas, N: 2}, flowF(1), flowF(2)), flowF(3))), measA(4, 0)),
			static(measA(5, 0)))}, three()...)...)
	mk("flow function inside a conditional inside a merged step", 1,
		append([]gFlow{fl(0, &gStep{K: sMerge, Subs: []*gStep{static(measA(1, 0)),
			{K: sIf, Cond: &gCond{K: cMeasuredLt, N: 1}, Then: funcS(2, ifF(&gCond{K: cMeasuredLt, N: 1}, flowF(1), flowF(2))), Else: funcS(3, flowF(3))}}},
			static(measA(4, 0)))}, three()...)...)
	mk("panicking flow function: an issue of that action, the rest of the step still runs", 1,
		append([]gFlow{fl(0, &gStep{K: sMerge, Subs: []*gStep{static(measA(1, 0)), funcS(2, &gFun{K: fPanic}), static(measA(3, 0))}},
			static(funcA(4, ifF(&gCond{K: cPanic}, flowF(1), flowF(2))), measA(5, 0), funcA(6, ifF(&gCond{K: cMeasuredHas, N: 5}, flowF(3), &gFun{K: fPanic})), measA(7, 0)),
			static(measA(8, 0)))}, three()...)...)
	mk("flow function that panics only for the state before the step", 1,
		append([]gFlow{fl(0, &gStep{K: sMerge, Subs: []*gStep{{K: sSetActor, Actor: 5}, static(measA(1, 0)), funcS(2, ifF(actorIs(5), flowF(1), &gFun{K: fPanic})), static(measA(3, 0))}},
			static(measA(4, 0)))}, three()...)...)
	mk("flow function listed after an earlier switch is not applied", 1,
		append([]gFlow{fl(0, static(setFlowA(1), funcA(1, flowF(2))), static(measA(1, 0)))}, three()...)...)
	mk("stand-alone flow function steps", 1,
		fl(0, funcS(1, ifF(&gCond{K: cTPMInited}, flowF(1), flowF(2))), static(measA(1, 0))),
		fl(1, static(measA(2, 0)), funcS(2, flowF(100))), fl(2, static(measA(3, 0))))
	fc := mk("the same flow function action applied on every round of a cycle", 1,
		fl(0, static(customA(1, 2, -1, rOk)), static(funcA(3, ifF(&gCond{K: cMeasuredLt, N: 3}, flowF(0), flowF(1))), measA(4, 0))),
		fl(1, static(measA(5, 0)), funcS(6, ifF(&gCond{K: cMeasuredLt, N: 6}, flowF(0), flowF(100)))))
	fc.Steps = 20
	mk("actors of every kind", 1, fl(0, &gStep{K: sSetActor, Actor: 4}, &gStep{K: sSetActor, Actor: 5}, &gStep{K: sSetActor, Actor: 6}, &gStep{K: sSetActor, Actor: 7}, &gStep{K: sSetActor, Actor: -1}, static(measA(1, 0))))
	mk("tpm steps without a TPM", -1, fl(0, &gStep{K: sInitTPM, WithLog: true}, &gStep{K: sMeasure, Acts: []gAct{measA(1, 0)}}, &gStep{K: sInitTPM}))
	mk("tpm steps, TPM not initialised", 0, fl(0, &gStep{K: sMeasure, Acts: []gAct{measA(1, 0)}}, &gStep{K: sInitTPM, WithLog: true}, &gStep{K: sMeasure, Acts: []gAct{measA(2, 0)}}, &gStep{K: sInitTPM}, &gStep{K: sMeasure, Acts: []gAct{measA(3, 1)}}, &gStep{K: sMeasure, Acts: []gAct{measA(4, 2)}}, &gStep{K: sMeasure, Acts: []gAct{measA(5, 0)}}))
	m := mk("measurements present before the run", 1, fl(0, static(measA(1, 0)), static(), static(measA(2, 0), measA(3, 0))))
	m.Meas0 = []int{901, 902}
	m.Actor0 = 5
	// the same, stepwise
	for k := 0; k <= 4; k++ {
		gc := mk("stepwise", 1, fl(0, static(measA(1, 0)), &gStep{K: sSetFlow, Flow: 1}, static(measA(2, 0))), fl(1, static(measA(3, 0))))
		gc.Steps = k
	}
	// a cycle
	cy := mk("two flows switching to each other", 1, fl(0, static(measA(1, 0)), &gStep{K: sSetFlow, Flow: 1}), fl(1, static(measA(2, 0)), &gStep{K: sSetFlow, Flow: 0}))
	cy.Steps = 11
	self := mk("a flow restarting itself", 1, fl(0, static(customA(1, 2, -1, rErr)), static(setFlowA(0), measA(3, 0))))
	self.Steps = 7
	// action lists that share memory: the list of a step is a window of an
	// array of the definition; what lies behind a window (its spare capacity)
	// is another step's list
	abc := func() [][]gAct {
		return [][]gAct{{customA(1, 101, -1, rOk), customA(2, 102, -1, rErr), customA(3, 103, -1, rOk), customA(4, 104, -1, rOk)}}
	}
	arrays = abc()
	mk("a merged step starting with a prefix of the list that a later step runs in full", 1,
		fl(0, merge(win(0, 0, 1, 4), static(customA(5, 105, -1, rOk))), win(0, 0, 3, 4), static(measA(6, 0))))
	arrays = abc()
	mk("the same short window opens two merged steps", 1,
		fl(0, merge(win(0, 0, 1, 4), static(customA(5, 105, -1, rOk))), merge(win(0, 0, 1, 4), static(customA(6, 106, -1, rOk)), static(customA(7, 107, -1, rOk))), win(0, 1, 2, 3)))
	for k := 1; k <= 4; k++ {
		arrays = abc()
		gc := mk("the same short window opens two merged steps, stepwise", 1,
			fl(0, merge(win(0, 0, 1, 4), static(customA(5, 105, -1, rOk))), merge(win(0, 0, 1, 4), static(customA(6, 106, -1, rOk))), win(0, 0, 4, 4)))
		gc.Steps = k
	}
	arrays = abc()
	mk("a conditional hands the window of its branch to the merged step around it", 1,
		fl(0, merge(&gStep{K: sIf, Cond: &gCond{K: cConst, B: true}, Then: win(0, 1, 1, 3)}, &gStep{K: sSetActor, Actor: 5}, static(measA(5, 0))),
			&gStep{K: sIf, Cond: &gCond{K: cActorIs, Actor: 5}, Then: win(0, 0, 4, 4), Else: win(0, 2, 2, 2)}))
	arrays = abc()
	mk("nested merged steps over neighbouring windows", 1,
		fl(0, merge(merge(win(0, 0, 2, 2), win(0, 2, 1, 2)), merge(win(0, 1, 1, 3)), win(0, 3, 1, 1)), win(0, 0, 4, 4)),
		fl(1, win(0, 1, 3, 3)))
	arrays = abc()
	cyw := mk("a flow restarting itself: the same merged steps over shared windows on every round", 1,
		fl(0, merge(win(0, 0, 1, 4), static(customA(5, 105, -1, rOk))), win(0, 0, 2, 2), merge(win(0, 2, 0, 2), static(setFlowA(0)), win(0, 3, 1, 1))))
	cyw.Steps = 9
	arrays = abc()
	mk("a custom step and a static step on one array, an empty window in between", 1,
		fl(0, merge(&gStep{K: sCustom, ID: 9, Acts: copyActs(arrays[0][0:2]), Arr: 0, Off: 0, Cap: 4}, win(0, 2, 0, 2), win(0, 2, 2, 2)), win(0, 2, 0, 2), win(0, 1, 3, 3)))
	// the longest allowed chain: 4 flows of 8 steps
	var chain []gFlow
	id := 0
	for f := 0; f < 4; f++ {
		var steps []*gStep
		for s := 0; s < 7; s++ {
			id++
			steps = append(steps, static(measA(id, 0), customA(1000+id, -1, -1, s%3)))
		}
		if f < 3 {
			steps = append(steps, &gStep{K: sSetFlow, Flow: f + 1})
		} else {
			steps = append(steps, static(measA(99, 0)))
		}
		chain = append(chain, fl(f, steps...))
	}
	mk("depth 4, 8 steps each", 1, chain...)
	return r
}

// fixedSessions: an 8-step flow (failing, measuring, panicking steps) whose
// last step switches into a 2-step flow, driven in every way a caller can mix
// the calls: k single steps (k = 0..12, beyond the end too) and then Finish;
// Finish twice; Finish, NextStep after the end; Finish, then the next flow (or
// the same flow again) on the same process.
func fixedSessions() []*gCase {
	mk := func(ops ...gOp) *gCase {
		var steps []gTop
		for i := 0; i < 7; i++ {
			var s *gStep
			switch i % 4 {
			case 0:
				s = static(customA(100+i, 200+i, -1, rOk))
			case 1:
				s = static(customA(100+i, -1, -1, rErr), customA(300+i, 400+i, -1, rPanic))
			case 2:
				s = &gStep{K: sCustom, ID: 500 + i, Panics: true}
			default:
				s = &gStep{K: sSetActor, Actor: i}
			}
			steps = append(steps, gTop{Sid: 10 + i, S: s})
		}
		steps = append(steps, gTop{Sid: 17, S: &gStep{K: sSetFlow, Flow: 1}})
		return &gCase{
			Flows: []gFlow{
				{Name: 0, Steps: steps},
				{Name: 1, Steps: []gTop{{Sid: 20, S: static(customA(120, 220, -1, rErr))}, {Sid: 21, S: static(act(aPanic))}}},
			},
			Root: 0, TPM: -1, Actor0: -1, Meas0: []int{}, Steps: -1, Ops: append([]gOp{}, ops...), Comment: "session",
		}
	}
	fin := gOp{K: opFinish}
	var r []*gCase
	for k := 0; k <= 12; k++ {
		r = append(r, mk(gOp{K: opNext, N: k}, fin))
	}
	r = append(r,
		mk(fin, fin),
		mk(fin, gOp{K: opNext, N: 3}, fin),
		mk(fin, gOp{K: opSetFlow, Flow: 1}, fin),
		mk(fin, gOp{K: opSetFlow, Flow: 0}, fin, gOp{K: opSetFlow, Flow: 1}, gOp{K: opNext, N: 1}, fin),
		mk(gOp{K: opNext, N: 3}, gOp{K: opSetFlow, Flow: 0}, gOp{K: opNext, N: 2}, fin),
		mk(fin, gOp{K: opSetFlow, Flow: 100}, fin, gOp{K: opNext, N: 2}),
		mk(),
		mk(gOp{K: opSetFlow, Flow: 1}),
	)
	return r
}

// ------------------------------------------------------------------ main

func nontrivial(o obsResult) bool { return len(o.Log) >= 2 }

func stats(c *gal.Ctx, gc *gCase, o obsResult) {
	issues, skipped := 0, 0
	for _, e := range o.Log {
		issues += len(e.Issues)
		for j, a := range e.Actions {
			if a[0] == aSetFlow && j+1 < len(e.Actions) {
				skipped++
			}
		}
	}
	if o.Flow != gc.Root {
		c.Count("runs ending in another flow")
	}
	if issues > 0 {
		c.Count("runs with issues")
	}
	if skipped > 0 {
		c.Count("runs with actions listed after a SetFlow action")
	}
	if len(o.Measured) > len(gc.Meas0) {
		c.Count("runs with measurements")
	}
	holes, deep := 0, 0
	for _, e := range o.Log {
		if e.Sid == sidHole || e.Sid == sidNilCustom {
			holes++
		}
	}
	if holes > 0 {
		c.Count("runs executing a hole (nil step)")
		if last := o.Log[len(o.Log)-1]; len(o.Log) > holes && !(last.Sid == sidHole || last.Sid == sidNilCustom) {
			c.Count("runs executing a hole and an ordinary step after it")
		}
	}
	executed := map[int]bool{}
	for _, e := range o.Log {
		executed[e.Sid] = true
	}
	var depthOf func(c *gCond) int
	depthOf = func(c *gCond) int {
		if c == nil || c.K != cNot {
			return 0
		}
		return 1 + depthOf(c.Sub)
	}
	var walk func(s *gStep)
	walk = func(s *gStep) {
		if s == nil {
			return
		}
		if s.K == sIf && depthOf(s.Cond) >= 2 {
			deep++
		}
		walk(s.Then)
		walk(s.Else)
		for _, x := range s.Subs {
			walk(x)
		}
	}
	for _, f := range gc.Flows {
		for _, ts := range f.Steps {
			if executed[ts.Sid] {
				walk(ts.S)
			}
		}
	}
	if deep > 0 {
		c.Count("runs executing a conditional on two or more stacked negations")
	}
	for _, e := range o.Log {
		for _, a := range e.Actions {
			if a[0] == aSetFlowFunc {
				c.Count("runs with a function-based set-flow in an executed step")
				return
			}
		}
	}
}

func one(c *gal.Ctx, kind string, gc *gCase) {
	o := run(gc)
	idx := c.Add(kind, galCase(gc, o), gc, nontrivial(o))
	stats(c, gc, o)
	what, where, or := judge(gc, o)
	if or != nil && or.funcApplied > 0 {
		c.Count("runs applying a function-based set-flow")
	}
	if or != nil && or.funcSensitive > 0 {
		c.Count("runs where a flow function answers differently for the state at the start of its step")
	}
	// the log records what was executed, and goes on recording it
	if o.Unstable != "" {
		if what == "" {
			what, where = "a log entry changed after it was recorded: "+o.Unstable, site+" NextStep/Finish (an entry of BootProcess.Log was overwritten or lost, or StepResult.Actions shares memory that is written later)"
		} else {
			what += "; a log entry changed after it was recorded: " + o.Unstable
		}
	}
	// the run is judged against the flow as defined before it; it must still be that flow
	if o.DefChanged != "" {
		msg := "the flow definition was modified by running it: " + o.DefChanged
		if what == "" {
			what, where = msg, "Step.Actions implementations (pkg/bootflow/steps, pkg/bootflow/types/flow.go): a slice handed out by a step was written to"
		} else {
			what += "; " + msg
		}
	}
	layoutStats(c, gc, o)
	if what != "" {
		c.OracleFail(idx, what, where, gc)
	} else {
		c.OracleOK()
	}
}

// layoutStats: how the executed steps' lists lie in memory
func layoutStats(c *gal.Ctx, gc *gCase, o obsResult) {
	c.Count("layout: " + strings.SplitN(gc.Layout, " +", 2)[0])
	executed := map[int]bool{}
	for _, e := range o.Log {
		executed[e.Sid] = true
	}
	type span struct{ arr, lo, hi int }
	var lists []span   // lists of executed steps
	var openers []span // capacity behind the first part of an executed merged step
	var walk func(s *gStep)
	seen := map[*gStep]bool{}
	walk = func(s *gStep) {
		if s == nil || seen[s] {
			return
		}
		seen[s] = true
		if s.hasList() {
			lists = append(lists, span{s.Arr, s.Off, s.Off + len(s.Acts)})
		}
		if s.K == sMerge && len(s.Subs) > 1 {
			f := s.Subs[0]
			for f != nil && f.K == sIf && f.Then != nil {
				f = f.Then
			}
			if f != nil && f.hasList() && f.Cap > len(f.Acts) {
				openers = append(openers, span{f.Arr, f.Off + len(f.Acts), f.Off + f.Cap})
			}
		}
		walk(s.Then)
		walk(s.Else)
		for _, x := range s.Subs {
			walk(x)
		}
	}
	for _, f := range gc.Flows {
		for _, ts := range f.Steps {
			if executed[ts.Sid] {
				walk(ts.S)
			}
		}
	}
	for _, op := range openers {
		for _, l := range lists {
			if l.arr == op.arr && l.lo < op.hi && op.lo < l.hi {
				c.Count("runs executing a merged step whose first part has spare capacity that is another executed step's list")
				return
			}
		}
	}
}

func main() {
	c := gal.New("C09", header, 400)
	for _, gc := range fixedCases() {
		kind := "fixed/finish"
		if gc.Steps >= 0 {
			kind = "fixed/nextstep"
		}
		one(c, kind, gc)
	}
	for _, gc := range fixedSessions() {
		one(c, "fixed/session", gc)
	}
	g := &gen{c: c}
	n := c.Scale(8000, 40000)
	for i := 0; i < n; i++ {
		switch {
		case i%10 == 9:
			gc := g.family(false)
			g.ops(gc, false)
			one(c, "random/cyclic-session", gc)
		case i%5 == 4:
			one(c, "random/cyclic-nextstep", g.family(false))
		case i%5 == 3:
			gc := g.family(true)
			g.ops(gc, true)
			one(c, "random/acyclic-session", gc)
		default:
			gc := g.family(true)
			if gc.Steps >= 0 {
				one(c, "random/acyclic-nextstep", gc)
			} else {
				one(c, "random/acyclic-finish", gc)
			}
		}
	}

	// outside the statement (it speaks of steps and actions): a panic in the
	// data source returned by Actor.ResponsibleCode() is not caught.
	{
		b := build(&gCase{Flows: []gFlow{{Name: 0, Steps: []gTop{{Sid: 10, S: static()}}}}, Root: 0, TPM: -1, Actor0: -1, Meas0: []int{}, Steps: -1})
		a := &hActor{ID: 1, code: newDS(1, rPanic)}
		b.state.CurrentActor = a
		p, _ := gal.Recover(func() { b.process.Finish(context.Background()) })
		c.Rep.Notes = append(c.Rep.Notes, fmt.Sprintf("outside the statement: a panic inside Actor.ResponsibleCode().Data() escapes Finish: %v (stateNextStep calls Data without safeWrapper)", p))
	}

	c.Finish("random acyclic families (<=6 flows in 4 levels, <=8 steps per flow, nesting <=2 of If/Merge, nil and empty flows, nil steps, " +
		"switching first steps, failing/panicking steps, actions, conditions and data sources, actor changes, TPM present/absent/initialised, " +
		"conditions built with commonconds.Not (one wrapper per negation, every eighth condition under 1-5 stacked negations) and tpmconds.TPMIsInited around harness-defined leaves, nil conditions, " +
		"holes (nil entries of Steps, nil pointer steps; every fifth family has 8-35% of them, at any position), tpmsteps.LogInit on its own, " +
		"static and function-based set-flow steps/actions incl. functions placed after an action of the same step that changes what they look at, panicking functions) run with Finish; " +
		"every fifth family is cyclic and run with a bounded number of NextStep calls; fixed edge cases; " +
		"every fifth acyclic and every second cyclic family is driven as a session of several operations on ONE BootProcess (acyclic: 40% k<=11 single NextStep calls, also beyond the end, then Finish; " +
		"25% Finish, then 1-3 times State.SetFlow(any flow of the family / the root again / a flow without steps) and Finish; 35% 2-7 random operations next(<=5)/finish/setflow; cyclic: blocks of NextStep calls and SetFlow), " +
		"the oracle executing the same steps whoever asks for the next one; after every call the whole Log is re-read (recorded entries stay and say the same), after every operation the log length and the reported end are compared, " +
		"and every Log value the caller saw between operations is re-read at the end; fixed sessions: 8-step flow switching into a 2-step flow, k=0..12 single steps then Finish, Finish twice, NextStep after the end, further flows on the finished process; " +
		"every family has a memory layout: the action lists of static/custom steps are windows of action arrays of the definition (15% private exact, 15% private with spare capacity, " +
		"70% several lists of several flows side by side in 1-3 arrays with full/limited/no spare capacity; in 60% of the non-exact layouts 10-40% of the steps re-use the window, a prefix or a sub-window of an earlier step of their flow); " +
		"after the run every slot of the definition's arrays and Steps arrays is compared with its value before the run, stepwise runs re-read the recorded log entries after every NextStep; " +
		"a case is non-trivial when at least two steps were executed; distinct = distinct Gallina literal")
}
