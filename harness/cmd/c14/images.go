package main

// Image builders and the harness' own ground truth about an image: its own walk of
// fiano's tree (independent of ffs.NodeVisitor), where each node's bytes really are
// (pointer arithmetic on the parse buffers: /repo/pkg/uefi sets fiano's ReadOnly, so
// every node that is not the result of a decompression aliases the image), the name the
// walker is documented to derive, and a hand-written FIT reader.

import (
	"encoding/binary"
	"fmt"
	"io"
	"os"
	"unsafe"

	fianoUEFI "github.com/linuxboot/fiano/pkg/uefi"
	"github.com/ulikunitz/xz"
)

const fourGiB = uint64(1) << 32

func loadXZ(p string) []byte {
	f, err := os.Open(p)
	if err != nil {
		panic(err)
	}
	defer f.Close()
	r, err := xz.NewReader(f)
	if err != nil {
		panic(err)
	}
	b, err := io.ReadAll(r)
	if err != nil {
		panic(err)
	}
	return b
}

// ---------------------------------------------------------------- builders

// withIFD wraps a BIOS region into a flash image with an Intel flash descriptor.
// before/after: number of 4 KiB blocks of a platform-data region placed before / after
// the BIOS region (0 = none). Returns the image and the BIOS region's offset.
func withIFD(bios []byte, before, after int) ([]byte, uint32) {
	if len(bios)%0x1000 != 0 {
		panic("BIOS region must be a multiple of 4 KiB")
	}
	biosBase := 1 + before
	biosBlocks := len(bios) / 0x1000
	total := (biosBase + biosBlocks + after) * 0x1000
	img := make([]byte, total)
	for i := range img {
		img[i] = 0xFF
	}
	copy(img[0x10:], []byte{0x5a, 0xa5, 0xf0, 0x0f})
	// descriptor map (16 bytes at 0x14)
	m := img[0x14:0x24]
	for i := range m {
		m[i] = 0
	}
	m[0] = 0x03 // ComponentBase
	m[2] = 0x04 // RegionBase -> 0x40
	m[3] = 0x00 // NumberOfRegions: 0 = all
	m[4] = 0x08 // MasterBase -> 0x80
	// region section at 0x40: FLREG0 (descriptor) + 15 regions
	rs := img[0x40 : 0x40+64]
	binary.LittleEndian.PutUint16(rs[0:], 0)
	binary.LittleEndian.PutUint16(rs[2:], 0)
	for i := 0; i < 15; i++ {
		binary.LittleEndian.PutUint16(rs[4+4*i:], 0x7FFF) // unused: base > limit, limit 0
		binary.LittleEndian.PutUint16(rs[6+4*i:], 0)
	}
	put := func(idx int, base, blocks int) {
		binary.LittleEndian.PutUint16(rs[4+4*idx:], uint16(base))
		binary.LittleEndian.PutUint16(rs[6+4*idx:], uint16(base+blocks-1))
	}
	put(0, biosBase, biosBlocks) // BIOS
	if before > 1 {
		put(3, 1, before) // PD (raw) region in front
	}
	if after > 1 {
		put(2, biosBase+biosBlocks, after) // GBE (raw) region behind
	}
	// master section at 0x80
	for i := 0x80; i < 0x8c; i++ {
		img[i] = 0
	}
	copy(img[biosBase*0x1000:], bios)
	return img, uint32(biosBase * 0x1000)
}

// corebootImage: no descriptor, one FMAP with a COREBOOT area.
func corebootImage(total int, fmapAt int, cbOff, cbSize uint32) []byte {
	img := make([]byte, total)
	for i := range img {
		img[i] = 0xFF
	}
	b := img[fmapAt:]
	copy(b, "__FMAP__")
	b[8], b[9] = 1, 1
	binary.LittleEndian.PutUint64(b[10:], uint64(fourGiB)-uint64(total))
	binary.LittleEndian.PutUint32(b[18:], uint32(total))
	name := make([]byte, 32)
	copy(name, "FLASH")
	copy(b[22:], name)
	binary.LittleEndian.PutUint16(b[54:], 3)
	area := func(i int, off, size uint32, nm string) {
		a := b[56+42*i:]
		binary.LittleEndian.PutUint32(a[0:], off)
		binary.LittleEndian.PutUint32(a[4:], size)
		n := make([]byte, 32)
		copy(n, nm)
		copy(a[8:], n)
		binary.LittleEndian.PutUint16(a[40:], 0)
	}
	area(0, uint32(fmapAt), 0x200, "FMAP")
	area(1, 0, uint32(fmapAt), "RW_MISC")
	area(2, cbOff, cbSize, "COREBOOT")
	return img
}

// unparseableImage: no descriptor, no FMAP, and a firmware-volume signature with a
// header that fiano rejects, so that not even the "bare BIOS region" probe succeeds.
func unparseableImage() []byte {
	img := make([]byte, 0x1000)
	for i := range img {
		img[i] = 0xFF
	}
	copy(img[0x28:], "_FVH")
	return img
}

// ---------------------------------------------------------------- ground truth

type gnode struct {
	f      fianoUEFI.Firmware
	parent *gnode
	kids   []*gnode
	idx    int
	kind   string
	name   string // what the walker is documented to use as the lookup name ("" = none)
	guid   string // GUID of files and volumes (even the zero one)
	isFV   bool
	isFile bool
	isSec  bool

	located bool   // Buf() aliases the image
	trueOff uint64 // ... at this offset
	procSec bool   // GUID-defined section whose header asks for processing
	// ancestors
	underProc bool // some ancestor is a processed section (offsets are meaningless below it)
	underSec  bool // some ancestor is a section at all
}

func (n *gnode) blen() uint64 { return uint64(len(n.f.Buf())) }

type gtVisitor struct {
	img  []byte
	cur  *gnode
	all  []*gnode
	byFW map[fianoUEFI.Firmware]*gnode
}

func (v *gtVisitor) Run(f fianoUEFI.Firmware) error { return f.Apply(v) }

func locate(img, buf []byte) (uint64, bool) {
	if len(buf) == 0 || len(img) == 0 {
		return 0, false
	}
	p := uintptr(unsafe.Pointer(&buf[0]))
	b := uintptr(unsafe.Pointer(&img[0]))
	if p >= b && p+uintptr(len(buf)) <= b+uintptr(len(img)) {
		return uint64(p - b), true
	}
	return 0, false
}

const zeroGUID = "00000000-0000-0000-0000-000000000000"

func (v *gtVisitor) Visit(f fianoUEFI.Firmware) error {
	n := &gnode{f: f, parent: v.cur, idx: len(v.all), kind: fmt.Sprintf("%T", f)}
	switch t := f.(type) {
	case *fianoUEFI.File:
		n.isFile = true
		n.guid = t.Header.GUID.String()
		n.kind += "/" + t.Header.Type.String()
		if n.guid != zeroGUID {
			n.name = n.guid
		}
	case *fianoUEFI.FirmwareVolume:
		n.isFV = true
		n.guid = t.FVName.String()
		if n.guid != zeroGUID {
			n.name = n.guid
		}
	case *fianoUEFI.BIOSRegion:
		n.name = "node/BIOS"
	case *fianoUEFI.Section:
		n.isSec = true
		n.kind += "/" + t.Type
		n.procSec = sectionNeedsProcessing(t.Buf())
	}
	n.trueOff, n.located = locate(v.img, f.Buf())
	if p := n.parent; p != nil {
		n.underProc = p.underProc || p.procSec
		n.underSec = p.underSec || p.isSec
		p.kids = append(p.kids, n)
	}
	v.all = append(v.all, n)
	v.byFW[f] = n
	old := v.cur
	v.cur = n
	err := f.ApplyChildren(v)
	v.cur = old
	return err
}

// sectionNeedsProcessing reads EFI_GUID_DEFINED_SECTION by the PI specification:
// common header (3-byte size, type; 4 more size bytes when the size is 0xFFFFFF),
// GUID, DataOffset, Attributes; bit 0 of Attributes = PROCESSING_REQUIRED.
func sectionNeedsProcessing(b []byte) bool {
	if len(b) < 4 || b[3] != 0x02 {
		return false
	}
	h := 4
	if b[0] == 0xFF && b[1] == 0xFF && b[2] == 0xFF {
		h = 8
	}
	if len(b) < h+20 {
		return false
	}
	attr := binary.LittleEndian.Uint16(b[h+18:])
	return attr&1 != 0
}

func groundTruth(img []byte, root fianoUEFI.Firmware) *gtVisitor {
	v := &gtVisitor{img: img, byFW: map[fianoUEFI.Firmware]*gnode{}}
	if err := v.Run(root); err != nil {
		panic(err)
	}
	return v
}

// nameable ancestor-or-self that the walker can give an offset to (the container
// the fallback is documented to use): has a name and is not below a processed section.
func (n *gnode) anchor() *gnode {
	for a := n; a != nil; a = a.parent {
		if a.name != "" && !a.underProc {
			return a
		}
	}
	return nil
}

// d23 says whether the offset the walker has for this anchor comes from below a
// non-processed section (where fiano's table visitor restarts its offsets at zero).
func (n *gnode) d23() bool { return n != nil && n.underSec && !n.underProc }

func (n *gnode) isAncestorOrSelf(of *gnode) bool {
	for a := of; a != nil; a = a.parent {
		if a == n {
			return true
		}
	}
	return false
}

// ---------------------------------------------------------------- FIT, by hand

type fitEntry struct {
	addr    uint64
	size24  uint32
	version uint16
	typ     uint8
}

// readFIT follows the FIT pointer at 4 GiB - 0x40 and decodes the 16-byte entries.
func readFIT(img []byte) ([]fitEntry, bool) {
	size := uint64(len(img))
	if size < 0x40 {
		return nil, false
	}
	ptr := binary.LittleEndian.Uint64(img[size-0x40:])
	base := fourGiB - size
	if ptr < base || ptr >= fourGiB {
		return nil, false
	}
	off := ptr - base
	if off+16 > size || string(img[off:off+8]) != "_FIT_   " {
		return nil, false
	}
	n := uint64(img[off+8]) | uint64(img[off+9])<<8 | uint64(img[off+10])<<16
	if n == 0 || off+16*n > size {
		return nil, false
	}
	var out []fitEntry
	for i := uint64(0); i < n; i++ {
		e := img[off+16*i : off+16*i+16]
		out = append(out, fitEntry{
			addr:    binary.LittleEndian.Uint64(e[0:]),
			size24:  uint32(e[8]) | uint32(e[9])<<8 | uint32(e[10])<<16,
			version: binary.LittleEndian.Uint16(e[12:]),
			typ:     e[14] & 0x7f,
		})
	}
	return out, true
}
