package main

// The enclosing-volume data source on LISTS of ranges.
//
// "the enclosing-volume data source returns the volumes that contain the given ranges": the
// ranges are GIVEN by an inner data source -- any number of references, any number of ranges
// per reference, in any order and any relation to each other and to the borders between the
// volumes.  The relation that matters most is the one no selector of files ever produces and
// every list of memory ranges / IBB segments may: two given ranges that touch each other exactly
// where two neighbour volumes touch.  Each of them lies in ONE volume; together they look like
// one range that lies in none.
//
// Generator: per parsed image, from the harness' own ground truth (images.go), lists built
// around the located top-level volumes and the borders between neighbours (volumesOf /
// volumeQueries below), handed over through MemRanges, through an inner source that answers
// with several references (PhysMemMapper addresses or plain image offsets, no mapper), and --
// walker.go intel() -- through IBB / FITAll of images whose IBB segments are whole volumes.
//
// Oracle (from the property text): when every given range lies inside one located, named
// top-level volume, the answer names exactly the bytes of these volumes (as a set of image
// offsets: the source merges neighbours into one range); whatever it names, the bytes
// delivered are the image bytes there (delivered.go); the inner source's ranges are what they
// were.  Lists with a range in no (single) volume, an empty range or an unnamed volume are
// not judged, only corresponded (case CVolumeOfList, Model/VolumeOf.v).

import (
	"context"
	"fmt"
	"math"
	"math/rand"
	"sort"

	"verifharness/gal"

	"github.com/9elements/converged-security-suite/v2/pkg/bootflow/datasources"
	"github.com/9elements/converged-security-suite/v2/pkg/bootflow/systemartifacts/biosimage"
	"github.com/9elements/converged-security-suite/v2/pkg/bootflow/types"
	pkgbytes "github.com/linuxboot/fiano/pkg/bytes"
)

const siteVolumeOf = "pkg/bootflow/datasources/volume_of.go:VolumeOfType.Data"

// one reference of the inner Data, as image offsets
type volRef struct {
	mapped bool // the reference carries PhysMemMapper (ranges = addresses); false: no mapper (ranges = offsets)
	offs   []pkgbytes.Range
}

type volQuery struct {
	shape string
	refs  []volRef
}

func (q volQuery) all() []pkgbytes.Range {
	var out []pkgbytes.Range
	for _, rf := range q.refs {
		out = append(out, rf.offs...)
	}
	return out
}

// a located top-level volume by the harness' ground truth
type topVol struct {
	off, length uint64
	named       bool
}

func (v topVol) end() uint64 { return v.off + v.length }

// volumesOf: the top-level (not inside any section) volumes whose bytes alias the image, in
// image order
func volumesOf(gt *gtVisitor) []topVol {
	var out []topVol
	for _, n := range gt.all {
		if n.isFV && n.located && !n.underSec && n.blen() > 0 {
			out = append(out, topVol{n.trueOff, n.blen(), n.name != ""})
		}
	}
	sort.Slice(out, func(i, j int) bool { return out[i].off < out[j].off })
	return out
}

// neighbours: indices i with tops[i] ending exactly where tops[i+1] starts
func neighbours(tops []topVol) []int {
	var out []int
	for i := 0; i+1 < len(tops); i++ {
		if tops[i].end() == tops[i+1].off {
			out = append(out, i)
		}
	}
	return out
}

func shortLen(rng *rand.Rand, max uint64) uint64 {
	if max <= 1 {
		return max
	}
	switch rng.Intn(4) {
	case 0:
		return 1
	case 1:
		return max
	case 2:
		return 1 + uint64(rng.Int63n(int64(max)))
	}
	m := max
	if m > 0x100 {
		m = 0x100
	}
	return 1 + uint64(rng.Int63n(int64(m)))
}

func tailOf(rng *rand.Rand, v topVol) pkgbytes.Range {
	l := shortLen(rng, v.length)
	return pkgbytes.Range{Offset: v.end() - l, Length: l}
}

func headOf(rng *rand.Rand, v topVol) pkgbytes.Range {
	return pkgbytes.Range{Offset: v.off, Length: shortLen(rng, v.length)}
}

func wholeOf(v topVol) pkgbytes.Range { return pkgbytes.Range{Offset: v.off, Length: v.length} }

func insideOf(rng *rand.Rand, v topVol) pkgbytes.Range {
	o := uint64(rng.Int63n(int64(v.length)))
	return pkgbytes.Range{Offset: v.off + o, Length: shortLen(rng, v.length-o)}
}

// volumeQueries: the lists asked about one image.  border: at most that many of the shapes
// around each border between neighbours (all of them when 0 < border >= 8).
func volumeQueries(rng *rand.Rand, tops []topVol, size uint64, nBorders, nOther int) []volQuery {
	var qs []volQuery
	one := func(shape string, rs ...pkgbytes.Range) {
		qs = append(qs, volQuery{shape, []volRef{{true, rs}}})
	}
	nb := neighbours(tops)
	perm := rng.Perm(len(nb))
	if len(perm) > nBorders {
		perm = perm[:nBorders]
	}
	for _, pi := range perm {
		i := nb[pi]
		a, b := tops[i], tops[i+1]
		one("two ranges touching each other at the border of two neighbour volumes", tailOf(rng, a), headOf(rng, b))
		one("two ranges touching at the border of two neighbour volumes, the later volume's first", headOf(rng, b), tailOf(rng, a))
		switch rng.Intn(4) {
		case 0:
			one("two whole neighbour volumes", wholeOf(a), wholeOf(b))
		case 1:
			one("last byte of a volume, first byte of its neighbour", pkgbytes.Range{Offset: a.end() - 1, Length: 1}, pkgbytes.Range{Offset: b.off, Length: 1})
		case 2:
			qs = append(qs, volQuery{"two references, one range each, touching at the border of two neighbour volumes",
				[]volRef{{rng.Intn(2) == 0, []pkgbytes.Range{tailOf(rng, a)}}, {rng.Intn(2) == 0, []pkgbytes.Range{headOf(rng, b)}}}})
		case 3:
			qs = append(qs, volQuery{"two ranges touching at the border of two neighbour volumes, as image offsets (reference without address mapper)",
				[]volRef{{false, []pkgbytes.Range{tailOf(rng, a), headOf(rng, b)}}}})
		}
		switch rng.Intn(5) {
		case 0:
			// control: a gap at the border
			ta := tailOf(rng, a)
			hb := headOf(rng, b)
			if rng.Intn(2) == 0 && ta.Length > 1 {
				ta.Length -= 1 + uint64(rng.Int63n(int64(ta.Length-1)))
			} else if hb.Length > 1 {
				g := 1 + uint64(rng.Int63n(int64(hb.Length-1)))
				hb.Offset, hb.Length = hb.Offset+g, hb.Length-g
			} else if b.length > 1 {
				hb.Offset++
			} else {
				break
			}
			one("two ranges near the border of two neighbour volumes with a gap between them", ta, hb)
		case 1:
			// a third range elsewhere, in between
			c := tops[rng.Intn(len(tops))]
			one("two ranges touching at a border between volumes, a range of some volume between them in the list", tailOf(rng, a), insideOf(rng, c), headOf(rng, b))
		case 2:
			if i+2 < len(tops) && b.end() == tops[i+2].off {
				rs := []pkgbytes.Range{tailOf(rng, a), wholeOf(b), headOf(rng, tops[i+2])}
				rng.Shuffle(len(rs), func(x, y int) { rs[x], rs[y] = rs[y], rs[x] })
				one("end of a volume, its whole neighbour, start of the next neighbour (any order)", rs...)
			} else {
				one("end of a volume, its whole neighbour", tailOf(rng, a), wholeOf(b))
			}
		case 3:
			// not judged: one range across the border (no single volume contains it)
			k1, k2 := shortLen(rng, a.length), shortLen(rng, b.length)
			one("one range across the border of two neighbour volumes, then a range of the second", pkgbytes.Range{Offset: a.end() - k1, Length: k1 + k2}, headOf(rng, b))
		case 4:
			// not judged: an empty range where the volumes touch
			one("two ranges touching at a border between volumes with an empty range between them in the list", tailOf(rng, a), pkgbytes.Range{Offset: b.off, Length: 0}, headOf(rng, b))
		}
	}
	if len(tops) == 0 {
		return qs
	}
	for k := 0; k < nOther; k++ {
		v := tops[rng.Intn(len(tops))]
		w := tops[rng.Intn(len(tops))]
		switch rng.Intn(8) {
		case 0:
			p := insideOf(rng, v)
			if e := p.Offset + p.Length; e < v.end() {
				one("two ranges touching each other inside one volume", p, pkgbytes.Range{Offset: e, Length: shortLen(rng, v.end()-e)})
			} else {
				one("one range", p)
			}
		case 1:
			p := insideOf(rng, v)
			q := pkgbytes.Range{Offset: p.Offset + p.Length/2, Length: shortLen(rng, v.end()-(p.Offset+p.Length/2))}
			one("two overlapping ranges inside one volume", p, q)
		case 2:
			one("ranges of two volumes", insideOf(rng, v), insideOf(rng, w))
		case 3:
			one("a volume's range, another volume's, the first volume's again", insideOf(rng, v), insideOf(rng, w), insideOf(rng, v))
		case 4:
			// several references with several ranges each, mapped or not
			var refs []volRef
			for i := 1 + rng.Intn(3); i > 0; i-- {
				rf := volRef{mapped: rng.Intn(3) > 0}
				for j := rng.Intn(4); j > 0; j-- {
					u := tops[rng.Intn(len(tops))]
					switch rng.Intn(4) {
					case 0:
						rf.offs = append(rf.offs, tailOf(rng, u))
					case 1:
						rf.offs = append(rf.offs, headOf(rng, u))
					default:
						rf.offs = append(rf.offs, insideOf(rng, u))
					}
				}
				refs = append(refs, rf)
			}
			qs = append(qs, volQuery{"several references with 0-3 ranges each (ends, starts and inner parts of volumes)", refs})
		case 5:
			// random list, ends snapped to the volume's ends now and then
			var rs []pkgbytes.Range
			for j := 1 + rng.Intn(6); j > 0; j-- {
				u := tops[rng.Intn(len(tops))]
				switch rng.Intn(5) {
				case 0:
					rs = append(rs, tailOf(rng, u))
				case 1:
					rs = append(rs, headOf(rng, u))
				case 2:
					rs = append(rs, wholeOf(u))
				default:
					rs = append(rs, insideOf(rng, u))
				}
			}
			one("1-6 ranges of random volumes (ends, starts, whole, inner parts), any order", rs...)
		case 6:
			// not judged: a range in no volume among the others
			o := uint64(rng.Int63n(int64(size)))
			one("a range anywhere in the image among ranges of volumes", insideOf(rng, v), pkgbytes.Range{Offset: o, Length: shortLen(rng, size-o)}, insideOf(rng, w))
		case 7:
			if rng.Intn(2) == 0 {
				one("no range at all")
			} else {
				qs = append(qs, volQuery{"no reference at all", nil})
			}
		}
	}
	return qs
}

// volNodes: what the walker (no fallback) reports for the image, cached per run
func (r *run) volNodes() []visited {
	if r.volVis == nil {
		vis, err, p, _ := walkAll(r.fw, false, nil)
		if err != nil || p {
			return nil
		}
		r.volVis = vis
	}
	return r.volVis
}

// volumeOfList: VolumeOf(ds) on r's image where ds hands over q (built by the caller: inner is
// the Data a fixedSource answers with, nil for other sources); one correspondence case + the
// oracle.
func (r *run) volumeOfList(what string, q volQuery, ds types.DataSource, inner *types.Data) {
	ctx := r.ctx
	bg := context.Background()
	given := q.all()
	in := map[string]interface{}{"image": r.im.name, "image_size": r.size, "inner_data_source": what, "shape": q.shape}
	var refsIn []interface{}
	var refLits []string
	var asGivenAll [][]pkgbytes.Range
	for _, rf := range q.refs {
		asGiven := copyRanges(rf.offs)
		if rf.mapped {
			for i := range asGiven {
				asGiven[i].Offset = r.physOf(asGiven[i].Offset)
			}
		}
		asGivenAll = append(asGivenAll, asGiven)
		refLits = append(refLits, gal.Pair(gal.Bool(rf.mapped), rangesLit(asGiven)))
		refsIn = append(refsIn, map[string]interface{}{"ranges_as_image_offsets": hexRanges(rf.offs), "ranges_as_given": hexRanges(asGiven), "physical_addresses": rf.mapped})
	}
	in["given_references"] = refsIn

	// ground truth: the located top-level volume that contains each given range
	tops := volumesOf(r.gt)
	judged := true
	whyNot := ""
	var want []pkgbytes.Range
	for _, g := range given {
		if g.Length == 0 {
			judged, whyNot = false, "an empty range"
			break
		}
		found := false
		for _, v := range tops {
			if v.off <= g.Offset && g.Offset+g.Length <= v.end() {
				found = true
				if !v.named {
					judged, whyNot = false, "a volume without a name (no offset known to the walker)"
				}
				want = append(want, wholeOf(v))
			}
		}
		if !found {
			judged, whyNot = false, "a range in no single top-level volume"
		}
	}
	// a given range that touches no located volume at all: there is no volume to answer with
	// for it -- an answer that passes it over in silence is not "the volumes that contain the
	// given ranges" (for a single range: the repaired defect "no volumes, no error")
	var homeless *pkgbytes.Range
	// the volumes that touch a given range (whatever is answered lies in these)
	var touched []pkgbytes.Range
	for gi, g := range given {
		any := false
		for _, v := range tops {
			if g.Length > 0 && v.off < g.Offset+g.Length && g.Offset < v.end() {
				any = true
				touched = append(touched, wholeOf(v))
			}
		}
		if !any && g.Length > 0 && homeless == nil {
			homeless = &given[gi]
		}
	}
	var volsIn []string
	for _, v := range tops {
		volsIn = append(volsIn, fmt.Sprintf("%#x+%#x", v.off, v.length))
	}
	in["top_level_volumes"] = volsIn

	// what the walker reports: the node list of the case; volumes it has at a wrong place (D23)
	vis := r.volNodes()
	var nodeLits []string
	d23hit := false
	extra := 0
	for _, v := range vis {
		n := r.gt.byFW[v.f]
		isFV := n != nil && n.isFV
		known := v.r.Offset != math.MaxUint64
		covers := false
		touches := false
		for _, g := range given {
			if known && v.r.Offset <= g.Offset && g.Offset-v.r.Offset < v.r.Length {
				covers = true
			}
			if known && g.Length > 0 && v.r.Length > 0 && v.r.Offset < g.Offset+g.Length && g.Offset < v.r.Offset+v.r.Length {
				touches = true
			}
		}
		if isFV && touches && n.d23() && !(n.located && n.trueOff == v.r.Offset) {
			d23hit = true
		}
		if !isFV {
			if !covers || extra >= 24 {
				continue
			}
			extra++
		}
		nodeLits = append(nodeLits, gal.Pair(gal.Bool(isFV), rangeLit(v.r.Offset, v.r.Length)))
	}

	st, bi := r.newState()
	var d *types.Data
	var derr error
	p, pmsg := gal.Recover(func() { d, derr = datasources.VolumeOf(ds).Data(bg, st) })
	var gotPhys []pkgbytes.Range
	if !p && derr == nil && d != nil {
		for i := range d.References {
			gotPhys = append(gotPhys, d.References[i].Ranges...)
		}
	}
	idx := -1
	if vis != nil {
		lit := fmt.Sprintf("CVolumeOfList %s %s %s %s", gal.U(r.size), gal.List(nodeLits), gal.List(refLits), obsRanges(gotPhys, derr, p))
		idx = ctx.Add("volume-of-list", lit, map[string]interface{}{"op": "VolumeOf(" + what + ")", "image": r.im.name, "shape": q.shape, "given_references": refsIn}, judged && len(given) > 1)
	}
	ctx.Count("volume-of-list:" + q.shape)
	fail := func(msg string) {
		if d23hit {
			ctx.OracleFailKnown(idx, findD23, msg, siteVolumeOf, in)
			return
		}
		ctx.OracleFail(idx, msg, siteVolumeOf, in)
	}
	if p {
		ctx.OracleFail(idx, fmt.Sprintf("VolumeOf(%s) panicked: %s", what, pmsg), siteVolumeOf, in)
		return
	}
	// the inner source's references are its own
	if inner != nil && len(inner.References) == len(asGivenAll) {
		for i := range inner.References {
			if !sameRanges(inner.References[i].Ranges, asGivenAll[i]) {
				ctx.OracleFail(idx, fmt.Sprintf("VolumeOf(%s) changed the ranges of reference #%d of the inner data source's Data: they were %v and are %v", what, i, hexRanges(asGivenAll[i]), hexRanges(inner.References[i].Ranges)), siteVolumeOf, in)
				return
			}
		}
		ctx.OracleOK()
	}
	if derr != nil {
		if judged {
			fail(fmt.Sprintf("VolumeOf(%s) failed (%v) although every given range lies inside a located volume: given (image offsets) %s, the volumes that contain them %s", what, derr, fmtRanges(given), fmtRanges(normalise(want))))
		} else {
			ctx.Count("volume-of-list-not-judged (error): " + whyNot)
		}
		return
	}
	got, why := r.dataRanges(d, bi)
	in["answer_as_image_offsets"] = hexRanges(got)
	if len(why) >= 15 && why[:15] == "DELIVERED BYTES" {
		ctx.OracleFail(idx, fmt.Sprintf("VolumeOf(%s): %s", what, why), siteVolumeOf+" -> "+siteRawBytes, in)
		return
	}
	if !judged {
		// not every range has its one enclosing volume; what can still be said: a range that
		// touches no volume cannot be answered, and the answer names nothing but volumes that
		// touch a given range
		unnamed := false
		for _, v := range tops {
			unnamed = unnamed || !v.named
		}
		switch {
		case why != "":
			fail(fmt.Sprintf("VolumeOf(%s): %s", what, why))
		case homeless != nil && !d23hit:
			ctx.OracleFail(idx, fmt.Sprintf("VolumeOf(%s): given (image offsets) %s: the range %#x+%#x touches no volume at all, yet the answer is %s and no error", what, fmtRanges(given), homeless.Offset, homeless.Length, fmtRanges(normalise(got))), siteVolumeOf, in)
		case !unnamed && !sameRanges(normalise(append(copyRanges(got), touched...)), normalise(touched)):
			fail(fmt.Sprintf("VolumeOf(%s): given (image offsets) %s: the answer %s names bytes outside the volumes that touch a given range %s", what, fmtRanges(given), fmtRanges(normalise(got)), fmtRanges(normalise(touched))))
		default:
			ctx.OracleOK()
		}
		ctx.Count("volume-of-list-not-judged (answer): " + whyNot)
		return
	}
	if why == "" && sameRanges(normalise(got), normalise(want)) {
		ctx.OracleOK()
		ctx.Count("oracle-ok:volume-of-list")
		if len(what) >= 3 && (what[:3] == "IBB" || what[:3] == "FIT") {
			ctx.Count("oracle-ok:volume-of-list " + what[:3])
		}
		return
	}
	missing := ""
	gotN := normalise(got)
	for _, w := range want {
		in1 := false
		for _, g := range gotN {
			if g.Offset <= w.Offset && w.Offset+w.Length <= g.Offset+g.Length {
				in1 = true
			}
		}
		if !in1 {
			missing = fmt.Sprintf("; the volume %#x+%#x, which contains a given range, is not in the answer", w.Offset, w.Length)
			break
		}
	}
	fail(fmt.Sprintf("VolumeOf(%s): given (image offsets, %s) %s, the answer names %s %s, the volumes that contain the given ranges are %s%s",
		what, q.shape, fmtRanges(given), fmtRanges(gotN), why, fmtRanges(normalise(want)), missing))
}

// ask q through MemRanges when it is one reference of addresses (now and then through a
// fixed inner source all the same), else through an inner source with these references
func (r *run) askVolumes(q volQuery) {
	rng := r.ctx.Rng
	if len(q.refs) == 1 && q.refs[0].mapped && rng.Intn(4) > 0 {
		list := make(pkgbytes.Ranges, 0, len(q.refs[0].offs)+rng.Intn(3))
		for _, o := range q.refs[0].offs {
			list = append(list, pkgbytes.Range{Offset: r.physOf(o.Offset), Length: o.Length})
		}
		before := copyRanges(list)
		r.volumeOfList("MemRanges", q, datasources.MemRanges(list), nil)
		if !sameRanges(list, before) {
			r.ctx.OracleFail(-1, fmt.Sprintf("VolumeOf(MemRanges(list)) changed the caller's list: it was %v and is %v", hexRanges(before), hexRanges(list)), siteVolumeOf,
				map[string]interface{}{"image": r.im.name, "ranges": hexRanges(before), "ranges_after": hexRanges(list)})
		} else {
			r.ctx.OracleOK()
		}
		return
	}
	// the artifact of the references must be the image object of the state volumeOfList makes:
	// newState() builds a new one per call, so the inner source gets it on demand
	inner := &types.Data{}
	src := &lazySource{r: r, q: q, d: inner}
	r.volumeOfList(fmt.Sprintf("inner data source answering with %d reference(s)", len(q.refs)), q, src, inner)
}

// lazySource fills its Data with references to the BIOS image of the state it is asked about
type lazySource struct {
	r *run
	q volQuery
	d *types.Data
}

func (s *lazySource) Data(_ context.Context, st *types.State) (*types.Data, error) {
	bi, err := biosimage.Get(st)
	if err != nil {
		return nil, err
	}
	s.d.References = s.d.References[:0]
	for _, rf := range s.q.refs {
		ref := types.Reference{Artifact: bi}
		ref.Ranges = copyRanges(rf.offs)
		if rf.mapped {
			ref.AddressMapper = biosimage.PhysMemMapper{}
			for i := range ref.Ranges {
				ref.Ranges[i].Offset = s.r.physOf(ref.Ranges[i].Offset)
			}
		}
		s.d.References = append(s.d.References, ref)
	}
	return s.d, nil
}

// volumeOfLists: every parsed image of the pool + GALAGOPRO3
func volumeOfLists(ctx *gal.Ctx, pool []*run, heavy *run) {
	rng := ctx.Rng
	for _, r := range pool {
		tops := volumesOf(r.gt)
		nB, nO := 2, 4
		if r.im.pristine {
			nB, nO = 8, 10
		}
		for _, q := range volumeQueries(rng, tops, r.size, nB, nO) {
			r.askVolumes(q)
		}
		if len(neighbours(tops)) > 0 {
			ctx.Count("volume-of-list:images-with-neighbour-volumes")
		}
	}
	if heavy != nil {
		// every look-up is a walk over the whole image: short lists, borders first
		tops := volumesOf(heavy.gt)
		qs := volumeQueries(rng, tops, heavy.size, 3, 3)
		for _, q := range qs {
			if len(q.all()) <= 3 {
				heavy.askVolumes(q)
			}
		}
	}
}
