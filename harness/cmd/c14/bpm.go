package main

// Variants of the synthetic Intel image whose Boot Policy Manifest / Key Manifest have a
// different SHAPE: the IBB digest list in every order and composition (SHA1 first, last,
// in the middle, absent, twice; other algorithms in between), hashes of other lengths in
// front of the list, optional elements present or not, manifests moved to other addresses.
// The data sources that name manifest FIELDS (PCR0_DATA) compute the field's address from
// the structure's shape; the bundled image has exactly one shape.
//
// The manifests are re-serialised with fiano (trusted for building the input) and put back
// through the FIT; the oracle's idea of where the IBB digests are comes from the harness'
// own decoding of the bytes by the documented layout (seLayout below), not from fiano's
// offset helpers.

import (
	"bytes"
	"encoding/binary"
	"fmt"
	"math/rand"

	"github.com/linuxboot/fiano/pkg/intel/metadata/cbnt"
	"github.com/linuxboot/fiano/pkg/intel/metadata/cbnt/cbntbootpolicy"
	"github.com/linuxboot/fiano/pkg/intel/metadata/cbnt/cbntkey"
)

type algInfo struct {
	id  uint16
	len int
}

var digestAlgs = []algInfo{{0x04, 20}, {0x0B, 32}, {0x0C, 48}, {0x0D, 64}, {0x12, 32}, {0x10, 0}}

func randBytes(rng *rand.Rand, n int) []byte {
	b := make([]byte, n)
	for i := range b {
		b[i] = byte(rng.Intn(256))
	}
	return b
}

// fitSlot: where the FIT table is and which entry has the given type
func fitSlot(img []byte, typ uint8) (entryOff int, addr uint64, ok bool) {
	size := uint64(len(img))
	if size < 0x40 {
		return 0, 0, false
	}
	ptr := binary.LittleEndian.Uint64(img[size-0x40:])
	base := fourGiB - size
	if ptr < base || ptr >= fourGiB {
		return 0, 0, false
	}
	off := int(ptr - base)
	n := int(img[off+8]) | int(img[off+9])<<8 | int(img[off+10])<<16
	for i := 1; i < n; i++ {
		e := img[off+16*i:]
		if e[14]&0x7f == typ {
			return off + 16*i, binary.LittleEndian.Uint64(e), true
		}
	}
	return 0, 0, false
}

func fitFixChecksum(img []byte) {
	size := uint64(len(img))
	off := int(binary.LittleEndian.Uint64(img[size-0x40:]) - (fourGiB - size))
	if img[off+14]&0x80 == 0 {
		return // checksum not valid/used
	}
	n := int(img[off+8]) | int(img[off+9])<<8 | int(img[off+10])<<16
	img[off+15] = 0
	var sum byte
	for _, c := range img[off : off+16*n] {
		sum += c
	}
	img[off+15] = -sum
}

// digestListShape draws the composition of the IBB digest list.
func digestListShape(rng *rand.Rand, k int) []cbnt.HashStructure {
	mk := func(a algInfo) cbnt.HashStructure {
		l := a.len
		if rng.Intn(12) == 0 {
			l = []int{0, 16, 20, 32, 48}[rng.Intn(5)] // a buffer of another length than the algorithm's
		}
		return cbnt.HashStructure{HashAlg: cbnt.Algorithm(a.id), HashBuffer: randBytes(rng, l)}
	}
	var algs []algInfo
	switch k % 6 {
	case 0: // both measured algorithms plus others, any order
		algs = []algInfo{digestAlgs[0], digestAlgs[1]}
		for i := rng.Intn(3); i > 0; i-- {
			algs = append(algs, digestAlgs[2+rng.Intn(4)])
		}
	case 1: // exactly the two, swapped
		algs = []algInfo{digestAlgs[1], digestAlgs[0]}
	case 2: // another algorithm first
		algs = []algInfo{digestAlgs[2+rng.Intn(3)], digestAlgs[0], digestAlgs[1]}
		if rng.Intn(2) == 0 {
			algs[1], algs[2] = algs[2], algs[1]
		}
	case 3: // an algorithm twice: the first entry is the object
		algs = []algInfo{digestAlgs[1], digestAlgs[0], digestAlgs[1], digestAlgs[0]}
	case 4: // one of the two is missing
		algs = []algInfo{digestAlgs[rng.Intn(2)], digestAlgs[2+rng.Intn(4)]}
	default: // anything
		for i := 1 + rng.Intn(5); i > 0; i-- {
			algs = append(algs, digestAlgs[rng.Intn(len(digestAlgs))])
		}
	}
	if k%6 == 0 || k%6 == 3 || k%6 == 5 {
		rng.Shuffle(len(algs), func(i, j int) { algs[i], algs[j] = algs[j], algs[i] })
	}
	out := make([]cbnt.HashStructure, len(algs))
	for i, a := range algs {
		out[i] = mk(a)
	}
	return out
}

// manifestVariant rebuilds BPM and KM of the synthetic Intel image in another shape.
// the top-level volumes of the bundled synthetic Intel image (set by imagesPart)
var fakeTopVolumes []topVol

func manifestVariant(rng *rand.Rand, fake []byte, k int) ([]byte, string, bool) {
	img := append([]byte(nil), fake...)
	size := uint64(len(img))
	base := fourGiB - size
	bpmEnt, bpmAddr, ok1 := fitSlot(img, 0x0C)
	kmEnt, kmAddr, ok2 := fitSlot(img, 0x0B)
	if !ok1 || !ok2 || bpmAddr < base || kmAddr < base || kmAddr >= bpmAddr {
		return nil, "", false
	}
	bpmOff, kmOff := int(bpmAddr-base), int(kmAddr-base)
	bpmLen := int(img[bpmEnt+8]) | int(img[bpmEnt+9])<<8 | int(img[bpmEnt+10])<<16
	kmLen := int(img[kmEnt+8]) | int(img[kmEnt+9])<<8 | int(img[kmEnt+10])<<16
	var bpm cbntbootpolicy.Manifest
	var km cbntkey.Manifest
	if _, err := bpm.ReadFrom(bytes.NewReader(img[bpmOff : bpmOff+bpmLen])); err != nil || len(bpm.SE) == 0 {
		return nil, "", false
	}
	if _, err := km.ReadFrom(bytes.NewReader(img[kmOff : kmOff+kmLen])); err != nil {
		return nil, "", false
	}
	// room: the manifests sit in a zero-filled part of a raw file; the room of each ends where
	// the next object starts
	room := func(from int) int {
		e := from
		for e < len(img) && img[e] == 0 {
			e++
		}
		return e
	}
	kmEnd := bpmOff
	bpmEnd := room(bpmOff + bpmLen)
	if bpmEnd > bpmOff+0x1000 {
		bpmEnd = bpmOff + 0x1000 // stay well inside the raw file the manifests live in
	}

	se := &bpm.SE[0]
	se.DigestList.List = digestListShape(rng, k)
	descr := "digests="
	for i, d := range se.DigestList.List {
		if i > 0 {
			descr += ","
		}
		descr += fmt.Sprintf("%#x/%d", uint16(d.HashAlg), len(d.HashBuffer))
	}
	if rng.Intn(2) == 0 {
		a := digestAlgs[rng.Intn(5)]
		se.PostIBBHash = cbnt.HashStructure{HashAlg: cbnt.Algorithm(a.id), HashBuffer: randBytes(rng, a.len)}
		descr += fmt.Sprintf(" postIBBHash=%#x", a.id)
	}
	if rng.Intn(2) == 0 {
		a := digestAlgs[rng.Intn(5)]
		se.OBBHash = cbnt.HashStructure{HashAlg: cbnt.Algorithm(a.id), HashBuffer: randBytes(rng, a.len)}
		descr += fmt.Sprintf(" obbHash=%#x", a.id)
	}
	for i := rng.Intn(3); i > 0 && len(se.IBBSegments) > 0; i-- {
		s := se.IBBSegments[0]
		s.Flags = 1 // not hashed
		se.IBBSegments = append(se.IBBSegments, s)
		descr += " +segment"
	}
	// hashed segments that overlap, lie inside or repeat another hashed segment, in front of it
	// or behind it (the IBB data source hands the list on as it is)
	if k%2 == 1 {
		for i := range se.IBBSegments {
			s := se.IBBSegments[i]
			if s.Flags&1 == 1 || s.Size < 8 {
				continue
			}
			x := s
			what := "repeated"
			switch rng.Intn(3) {
			case 0:
				x.Base += s.Size / 4
				x.Size = s.Size / 2
				what = "nested"
			case 1:
				x.Base += s.Size / 2
				if uint64(x.Base)+uint64(x.Size) > fourGiB {
					x.Size = uint32(fourGiB - uint64(x.Base))
				}
				what = "overlapping"
			}
			if rng.Intn(2) == 0 {
				se.IBBSegments = append(se.IBBSegments, x)
				what += " segment behind"
			} else {
				se.IBBSegments = append(se.IBBSegments[:i:i], append([]cbntbootpolicy.IBBSegment{x}, se.IBBSegments[i:]...)...)
				what += " segment in front"
			}
			descr += " +" + what
			break
		}
	}
	// hashed segments that are (ends and starts of) whole neighbour volumes: what VolumeOf(IBB)
	// is given then touches at the border between the volumes (volumes.go)
	if nb := neighbours(fakeTopVolumes); k%3 == 2 && len(nb) > 0 {
		i := nb[rng.Intn(len(nb))]
		a, b := fakeTopVolumes[i], fakeTopVolumes[i+1]
		ra, rb := wholeOf(a), wholeOf(b)
		what := "whole neighbour volumes"
		if rng.Intn(2) == 0 {
			ra, rb = tailOf(rng, a), headOf(rng, b)
			what = "end of a volume + start of its neighbour"
		}
		segs := []cbntbootpolicy.IBBSegment{
			{Base: uint32(base + ra.Offset), Size: uint32(ra.Length)},
			{Base: uint32(base + rb.Offset), Size: uint32(rb.Length)},
		}
		if rng.Intn(2) == 0 {
			segs[0], segs[1] = segs[1], segs[0]
			what += " (later one first)"
		}
		if rng.Intn(2) == 0 {
			se.IBBSegments = append(se.IBBSegments, segs...)
		} else {
			se.IBBSegments = append(segs, se.IBBSegments...)
		}
		descr += " +segments: " + what
	}
	switch rng.Intn(3) {
	case 0:
		bpm.TXTE = nil
		descr += " -TXTE"
	case 1:
		bpm.PME = cbntbootpolicy.NewPM()
		bpm.PME.Data = randBytes(rng, 4*rng.Intn(12))
		descr += fmt.Sprintf(" +PME(%d)", len(bpm.PME.Data))
	}
	for i := rng.Intn(3); i > 0 && len(km.Hash) > 0; i-- {
		h := km.Hash[0]
		a := digestAlgs[rng.Intn(4)]
		h.Digest = cbnt.HashStructure{HashAlg: cbnt.Algorithm(a.id), HashBuffer: randBytes(rng, a.len)}
		if rng.Intn(2) == 0 {
			km.Hash = append(km.Hash, h)
		} else {
			km.Hash = append([]cbntkey.Hash{h}, km.Hash...)
		}
		descr += fmt.Sprintf(" +kmHash(%#x)", a.id)
	}
	bpm.RehashRecursive()
	km.RehashRecursive()
	var bb, kb bytes.Buffer
	if _, err := bpm.WriteTo(&bb); err != nil {
		return nil, "", false
	}
	if _, err := km.WriteTo(&kb); err != nil {
		return nil, "", false
	}
	// new places (16-byte aligned, inside the old room)
	place := func(old, end, n int) (int, bool) {
		slack := (end - old - n) / 16
		if slack < 0 {
			return 0, false
		}
		if slack > 0x30 {
			slack = 0x30
		}
		return old + 16*rng.Intn(slack+1), true
	}
	nb, okb := place(bpmOff, bpmEnd, bb.Len())
	nk, okk := place(kmOff, kmEnd, kb.Len())
	if !okb || !okk {
		return nil, "", false
	}
	for i := kmOff; i < kmOff+kmLen; i++ {
		img[i] = 0
	}
	for i := bpmOff; i < bpmOff+bpmLen; i++ {
		img[i] = 0
	}
	copy(img[nk:], kb.Bytes())
	copy(img[nb:], bb.Bytes())
	binary.LittleEndian.PutUint64(img[bpmEnt:], base+uint64(nb))
	put24(img[bpmEnt+8:], bb.Len())
	binary.LittleEndian.PutUint64(img[kmEnt:], base+uint64(nk))
	put24(img[kmEnt+8:], kb.Len())
	fitFixChecksum(img)
	descr += fmt.Sprintf(" BPM@%#x(%d) KM@%#x(%d)", nb, bb.Len(), nk, kb.Len())
	return img, descr, true
}

// ---------------------------------------------------------------- the harness' own decoding

type digestEntry struct {
	alg uint16
	off uint64 // offset of the hash buffer inside the manifest
	len uint64
}

// seLayout decodes the IBB segments element ("__IBBS__") of a CBnT Boot Policy Manifest by
// the documented layout and returns where the first entry of the digest list starts and
// the entries (algorithm, place and length of the hash buffer), all relative to the BPM.
//
//	StructureID[8] Version Reserved ElementSize[2] | Reserved SetNumber Reserved PBET |
//	Flags[4] IBB_MCHBAR[8] VTD_BAR[8] DMAProtBase0[4] DMAProtLimit0[4] DMAProtBase1[8]
//	DMAProtLimit1[8] | PostIbbHash{Alg[2] Size[2] Buffer[Size]} | IbbEntryPoint[4] |
//	DigestList{Size[2] Count[2] {Alg[2] Size[2] Buffer[Size]}*Count} | ...
func seLayout(bpm []byte) (first uint64, entries []digestEntry, ok bool) {
	i := bytes.Index(bpm, []byte("__IBBS__"))
	if i < 0 {
		return 0, nil, false
	}
	p := i + 12 + 4 + 4 + 8 + 8 + 4 + 4 + 8 + 8
	if p+4 > len(bpm) {
		return 0, nil, false
	}
	p += 4 + int(binary.LittleEndian.Uint16(bpm[p+2:])) // PostIbbHash
	p += 4                                              // IbbEntryPoint
	if p+4 > len(bpm) {
		return 0, nil, false
	}
	count := int(binary.LittleEndian.Uint16(bpm[p+2:]))
	p += 4
	first = uint64(p)
	for j := 0; j < count; j++ {
		if p+4 > len(bpm) {
			return 0, nil, false
		}
		l := int(binary.LittleEndian.Uint16(bpm[p+2:]))
		if p+4+l > len(bpm) {
			return 0, nil, false
		}
		entries = append(entries, digestEntry{alg: binary.LittleEndian.Uint16(bpm[p:]), off: uint64(p + 4), len: uint64(l)})
		p += 4 + l
	}
	return first, entries, true
}
