package main

// Sessions: the same objects used more than once, and the caller's memory looked at again.
//
// The property speaks about every range REPORTED and every conversion OFFERED -- not about the
// first use of a freshly made object. Walkers and address mappers are handed around (a
// NodeVisitor is a public struct with a Run method, PhysMemMapper sits in every Reference and
// is called with the caller's range list spread as variadic arguments), so
//
//   - one NodeVisitor object is run on several trees in a row: other images with the same names
//     at other offsets, the same image with another Node.AddOffset, sub-trees, after a Run
//     that was aborted by the callback, that panicked or that was pruned;
//   - the mappers are given slices of arrays the caller goes on using: several elements, spare
//     capacity behind the slice, the same list converted twice, an answer converted back,
//     the caller writing into its list afterwards;
//   - one data-source object is asked for several images, and twice for the same.
//
// The oracle knows nothing about how the code keeps its books: a Run is judged against the
// ground truth of the image it was run on (judgeWalk) and against a fresh visitor; a mapper call
// against address = 4 GiB - size + offset, "what the caller did not write is unchanged", "the
// same question has the same answer", "there and back is the identity".

import (
	"context"
	"errors"
	"fmt"
	"strings"

	"verifharness/gal"

	"github.com/9elements/converged-security-suite/v2/pkg/bootflow/datasources"
	"github.com/9elements/converged-security-suite/v2/pkg/bootflow/systemartifacts/biosimage"
	"github.com/9elements/converged-security-suite/v2/pkg/bootflow/types"
	"github.com/9elements/converged-security-suite/v2/pkg/uefi/ffs"
	pkgbytes "github.com/linuxboot/fiano/pkg/bytes"
	fianoGUID "github.com/linuxboot/fiano/pkg/guid"
	fianoUEFI "github.com/linuxboot/fiano/pkg/uefi"
)

const siteMapper = "pkg/bootflow/systemartifacts/biosimage/phys_mem_mapper.go"

var mapperNames = []string{"Resolve", "ResolveFullImageOffset", "Unresolve", "UnresolveFullImageOffset", "ResolveBIOSRegionOffset", "UnresolveBIOSRegionOffset"}

// ------------------------------------------------------------------ mappers

type sessArtifact struct {
	art     types.SystemArtifact
	name    string
	size    uint64
	hasBIOS bool
	biosLen uint64
}

func (a sessArtifact) biosLit() string {
	if a.hasBIOS {
		return "(Some " + gal.U(a.biosLen) + ")"
	}
	return "None"
}

func copyRanges(rs []pkgbytes.Range) []pkgbytes.Range {
	return append([]pkgbytes.Range{}, rs...)
}

func hexRanges(rs []pkgbytes.Range) []string {
	out := make([]string, len(rs))
	for i, r := range rs {
		out[i] = fmt.Sprintf("%#x+%#x", r.Offset, r.Length)
	}
	return out
}

type recordedCall struct {
	which, art, a, lo, n int
	via                  string
	at                   int // position in the session
	in                   []pkgbytes.Range
	out                  []pkgbytes.Range
	ok                   bool
	answer               int // index of the answer array
	inverseOfPrev        bool
}

func mapperSessions(ctx *gal.Ctx, fake []byte) {
	rng := ctx.Rng
	mapper := biosimage.PhysMemMapper{}
	withDescr, biosOff := withIFD(fake, 2, 0)
	arts := []sessArtifact{
		{art: sizedArtifact{0x10000}, name: "artifact of 0x10000 bytes", size: 0x10000},
		{art: sizedArtifact{16 << 20}, name: "artifact of 16 MiB", size: 16 << 20},
		{art: sizedArtifact{0x5e0000}, name: "artifact of 0x5e0000 bytes", size: 0x5e0000},
		{art: sizedArtifact{fourGiB}, name: "artifact of 4 GiB", size: fourGiB},
		{art: sizedArtifact{1}, name: "artifact of 1 byte", size: 1},
		{art: sizedArtifact{1 + uint64(rng.Int63n(1<<32))}, name: "artifact of random size"},
		{art: biosimage.New(fake), name: "BIOSImage(fake_intel_firmware.fd)", size: uint64(len(fake)), hasBIOS: true, biosLen: uint64(len(fake))},
		{art: biosimage.New(withDescr), name: fmt.Sprintf("BIOSImage(descriptor + 2 blocks + fake, BIOS region at %#x)", biosOff), size: uint64(len(withDescr)), hasBIOS: true, biosLen: uint64(len(fake))},
	}
	arts[5].size = arts[5].art.Size()
	arts[5].name = fmt.Sprintf("artifact of %#x bytes", arts[5].size)

	element := func(a sessArtifact) pkgbytes.Range {
		ln := uint64(rng.Intn(0x2000))
		switch rng.Intn(5) {
		case 0, 1: // an offset inside the image
			return pkgbytes.Range{Offset: rng.Uint64() % a.size, Length: ln}
		case 2, 3: // an address inside the window
			if a.size <= fourGiB {
				return pkgbytes.Range{Offset: fourGiB - a.size + rng.Uint64()%a.size, Length: ln}
			}
		}
		return pkgbytes.Range{Offset: rng.Uint64(), Length: ln}
	}

	nSessions := ctx.Scale(160, 1500)
	for s := 0; s < nSessions; s++ {
		home := arts[rng.Intn(len(arts))] // most calls of a session are about one artifact
		var arrays [][]pkgbytes.Range     // the real memory
		var expected [][]pkgbytes.Range   // what the caller knows it to contain
		for i, n := 0, 1+rng.Intn(2); i < n; i++ {
			c := 1 + rng.Intn(7)
			if s%3 == 0 {
				c = 3 + rng.Intn(5)
			}
			arr := make([]pkgbytes.Range, c)
			for j := range arr {
				arr[j] = element(home)
			}
			arrays = append(arrays, arr)
			expected = append(expected, copyRanges(arr))
		}
		own := len(arrays)
		h0 := make([]string, own)
		for i := range arrays {
			h0[i] = rangesLit(arrays[i])
		}
		lastWrite := map[int]int{} // array -> position of the caller's last write
		var calls []recordedCall
		var ops []string
		var opsTxt []string
		type failure struct {
			what string
			in   map[string]interface{}
		}
		var fails []failure
		var oks int
		broken := false
		nOps := 3 + rng.Intn(5)
		for k := 0; k < nOps && !broken; k++ {
			// ---- the caller writes into one of its arrays (or into an answer it was given)
			if k > 0 && rng.Intn(4) == 0 {
				a := rng.Intn(len(arrays))
				if len(calls) > 0 && rng.Intn(2) == 0 {
					// into the list just converted, or into the answer just received
					last := calls[len(calls)-1]
					a = []int{last.a, last.answer}[rng.Intn(2)]
				}
				if len(arrays[a]) == 0 {
					continue
				}
				i := rng.Intn(len(arrays[a]))
				v := element(home)
				arrays[a][i] = v
				expected[a][i] = v
				lastWrite[a] = k
				ops = append(ops, gal.Pair(fmt.Sprintf("MWrite %s %s %s", gal.Nat(a), gal.Nat(i), rangeLit(v.Offset, v.Length)), "(OOk [])"))
				opsTxt = append(opsTxt, fmt.Sprintf("caller: array#%d[%d] = %#x+%#x", a, i, v.Offset, v.Length))
				// the write went into ONE array: a list and the answers made from it are separate memory
				for b := range expected {
					if !sameRanges(arrays[b], expected[b]) {
						whose := func(x int) string {
							if x >= own {
								return fmt.Sprintf("array #%d (the answer of the %d. call of the session)", x, x-own+1)
							}
							return fmt.Sprintf("array #%d (a list of the caller)", x)
						}
						fails = append(fails, failure{fmt.Sprintf("an answer of PhysMemMapper shares memory with the list it was made from: the caller wrote %#x+%#x into element %d of %s and %s changed from %v to %v",
							v.Offset, v.Length, i, whose(a), whose(b), hexRanges(expected[b]), hexRanges(arrays[b])), map[string]interface{}{"session": append([]string(nil), opsTxt...)}})
						broken = true
						break
					}
				}
			} else {
				// ---- a call
				c := recordedCall{at: k}
				var prev *recordedCall
				if len(calls) > 0 {
					prev = &calls[len(calls)-1]
				}
				switch p := rng.Intn(20); {
				case prev != nil && p < 6: // the same question again
					c.which, c.art, c.a, c.lo, c.n = prev.which, prev.art, prev.a, prev.lo, prev.n
				case prev != nil && prev.ok && p < 11: // the answer, converted back
					c.which, c.art, c.a, c.lo, c.n = []int{2, 3, 0, 1, 5, 4}[prev.which], prev.art, prev.answer, 0, len(arrays[prev.answer])
					c.inverseOfPrev = true
				default:
					c.which = rng.Intn(4)
					if rng.Intn(4) == 0 {
						c.which = 4 + rng.Intn(2)
					}
					c.art = rng.Intn(len(arts))
					if rng.Intn(3) > 0 {
						for i := range arts {
							if arts[i].name == home.name {
								c.art = i
							}
						}
					}
					c.a = rng.Intn(len(arrays))
					if rng.Intn(3) > 0 {
						c.a = rng.Intn(own)
					}
					l := len(arrays[c.a])
					c.lo = 0
					if l > 0 && rng.Intn(3) == 0 {
						c.lo = rng.Intn(l)
					}
					c.n = rng.Intn(l - c.lo + 1)
					if c.n < 2 && l-c.lo >= 3 && rng.Intn(4) > 0 {
						c.n = 2 + rng.Intn(l-c.lo-2) // several elements, spare capacity behind
					}
				}
				art := arts[c.art]
				sl := arrays[c.a][c.lo : c.lo+c.n] // cap(sl) reaches the end of the caller's array
				c.in = copyRanges(sl)
				var out pkgbytes.Ranges
				var err error
				c.via = "method"
				if c.which == 0 || c.which == 2 {
					c.via = []string{"method", "types.AddressMapper", "types.Reference"}[rng.Intn(3)]
					if c.which == 2 && c.via == "types.Reference" {
						c.via = "types.AddressMapper"
					}
				}
				ctx.Begin("PhysMemMapper."+mapperNames[c.which]+" in a session", siteMapper, map[string]interface{}{"artifact": art.name, "ranges": hexRanges(c.in)})
				panicked, pmsg := gal.Recover(func() {
					switch {
					case c.via == "types.Reference":
						ref := types.Reference{Artifact: art.art, MappedRanges: types.MappedRanges{AddressMapper: mapper, Ranges: sl}}
						out, err = ref.ResolvedRanges()
					case c.via == "types.AddressMapper" && c.which == 0:
						out, err = types.AddressMapper(mapper).Resolve(art.art, sl...)
					case c.via == "types.AddressMapper":
						out, err = types.AddressMapper(mapper).Unresolve(art.art, sl...)
					case c.which == 0:
						out, err = mapper.Resolve(art.art, sl...)
					case c.which == 1:
						out = mapper.ResolveFullImageOffset(art.art, sl...)
					case c.which == 2:
						out, err = mapper.Unresolve(art.art, sl...)
					case c.which == 3:
						out = mapper.UnresolveFullImageOffset(art.art, sl...)
					case c.which == 4:
						out, err = mapper.ResolveBIOSRegionOffset(art.art, sl...)
					default:
						out, err = mapper.UnresolveBIOSRegionOffset(art.art, sl...)
					}
				})
				c.ok = !panicked && err == nil
				if !c.ok {
					out = nil
				}
				c.answer = len(arrays)
				arrays = append(arrays, []pkgbytes.Range(out)) // the answer itself, not a copy
				c.out = copyRanges(out)
				ops = append(ops, gal.Pair(fmt.Sprintf("MCall %d %s %s %s %s %s", c.which, gal.U(art.size), art.biosLit(), gal.Nat(c.a), gal.Nat(c.lo), gal.Nat(c.n)),
					obsRanges(out, err, panicked)))
				txt := fmt.Sprintf("%s(%s, array#%d[%d:%d]...) via %s", mapperNames[c.which], art.name, c.a, c.lo, c.lo+c.n, c.via)
				opsTxt = append(opsTxt, txt)
				in := func() map[string]interface{} {
					return map[string]interface{}{"session": append([]string(nil), opsTxt...), "call": txt, "artifact_size": art.size,
						"argument": hexRanges(c.in), "argument_array_before": hexRanges(expected[c.a]), "argument_array_after": hexRanges(arrays[c.a]),
						"answer": hexRanges(c.out), "spare_capacity_behind_slice": len(expected[c.a]) - c.lo - c.n}
				}
				fail := func(what string) { fails = append(fails, failure{what, in()}) }

				// (1) nothing the caller owns has changed: its list, the elements around the
				//     slice, the spare capacity, answers it was given earlier
				for a := range expected {
					if !sameRanges(arrays[a], expected[a]) {
						whose := "the caller's array"
						if a >= own {
							whose = "the answer of an earlier call, array"
						}
						role := ""
						if a == c.a {
							role = " (the array its argument is a slice of)"
						}
						fail(fmt.Sprintf("PhysMemMapper.%s modified memory of its caller: %s #%d%s was %v and is %v after the call %s",
							mapperNames[c.which], whose, a, role, hexRanges(expected[a]), hexRanges(arrays[a]), txt))
						broken = true
						break
					}
				}
				expected = append(expected, copyRanges(out))
				if broken {
					calls = append(calls, c)
					break
				}
				oks++
				// (2) the answer itself
				switch {
				case panicked:
					fail("PhysMemMapper." + mapperNames[c.which] + " panicked: " + pmsg)
				case c.which >= 4 && !art.hasBIOS:
					if err == nil {
						fail("BIOS-region mapper succeeded on an artifact without a BIOS region")
					} else {
						oks++
					}
				case err != nil || len(out) != len(c.in):
					fail(fmt.Sprintf("PhysMemMapper.%s: err=%v, %d ranges for %d", mapperNames[c.which], err, len(out), len(c.in)))
				default:
					size := art.size
					if c.which >= 4 {
						size = art.biosLen // the region ends at 4 GiB; offsets are relative to its start
					}
					for i, r := range c.in {
						if out[i].Length != r.Length {
							fail(fmt.Sprintf("PhysMemMapper.%s changed the length of range %d", mapperNames[c.which], i))
							break
						}
						if size == 0 || size > fourGiB {
							continue
						}
						toOffset := c.which == 0 || c.which == 1 || c.which == 4
						if toOffset && r.Offset >= fourGiB-size && r.Offset < fourGiB {
							if want := r.Offset - (fourGiB - size); out[i].Offset != want {
								fail(fmt.Sprintf("PhysMemMapper.%s: range %d of the list: address %#x -> %#x, expected %#x (address = 4GiB - size + offset, size %#x)", mapperNames[c.which], i, r.Offset, out[i].Offset, want, size))
								break
							}
							oks++
						}
						if !toOffset && r.Offset < size {
							if want := fourGiB - size + r.Offset; out[i].Offset != want {
								fail(fmt.Sprintf("PhysMemMapper.%s: range %d of the list: offset %#x -> %#x, expected %#x (address = 4GiB - size + offset, size %#x)", mapperNames[c.which], i, r.Offset, out[i].Offset, want, size))
								break
							}
							oks++
						}
					}
				}
				// (3) the same question (same entry point, artifact, slice; the caller has not
				//     written to that array in between) has the same answer
				for j := len(calls) - 1; j >= 0; j-- {
					e := calls[j]
					if e.which != c.which || e.art != c.art || e.a != c.a || e.lo != c.lo || e.n != c.n {
						continue
					}
					if w, ok := lastWrite[c.a]; ok && w > e.at {
						break
					}
					if e.ok == c.ok && sameRanges(e.out, c.out) {
						oks++
					} else {
						fail(fmt.Sprintf("converting the same list twice gives two answers: %s returned %v at step %d and %v at step %d (the caller did not touch the list in between)",
							txt, hexRanges(e.out), e.at, hexRanges(c.out), k))
					}
					break
				}
				// (4) there and back: the inverse entry point applied to a whole answer returns the list
				if c.inverseOfPrev && prev.ok && c.ok {
					if _, w := lastWrite[prev.answer]; !w {
						if sameRanges(c.out, prev.in) {
							oks++
						} else {
							fail(fmt.Sprintf("%s of the answer of %s is %v, the list was %v: the conversions are not inverse", mapperNames[c.which], mapperNames[prev.which], hexRanges(c.out), hexRanges(prev.in)))
						}
					}
				}
				calls = append(calls, c)
			}
		}
		// after the session: every array is what the caller knows it to be (an answer must not
		// change because the caller wrote into the list it came from, or the other way round)
		if !broken {
			for a := range expected {
				if !sameRanges(arrays[a], expected[a]) {
					what := fmt.Sprintf("array #%d is %v at the end of the session, the caller left it as %v", a, hexRanges(arrays[a]), hexRanges(expected[a]))
					if a >= own {
						what = fmt.Sprintf("the answer of call %d (array #%d) is %v at the end of the session, it was returned as %v: it shares memory with a list the caller wrote to later", a-own, a, hexRanges(arrays[a]), hexRanges(expected[a]))
					}
					fails = append(fails, failure{what, map[string]interface{}{"session": opsTxt}})
					break
				}
			}
		}
		hf := make([]string, len(arrays))
		for i := range arrays {
			hf[i] = rangesLit(arrays[i])
		}
		lit := fmt.Sprintf("CPmmSession %s %s %s", gal.List(h0), gal.List(ops), gal.List(hf))
		idx := ctx.Add("pmm-session", lit, map[string]interface{}{"op": "PhysMemMapper session", "artifact": home.name, "steps": opsTxt, "caller_arrays": own}, len(calls) >= 2)
		for i := 0; i < oks; i++ {
			ctx.OracleOK()
		}
		for _, f := range fails {
			ctx.OracleFail(idx, f.what, siteMapper, f.in)
		}
	}
}

// ------------------------------------------------------------------ one visitor, many Runs

var errAbort = errors.New("c14: the callback gives up")

type sessRunSpec struct {
	r         *run
	mode      string // root-node, root-uefi, subtree, abort
	addOffset int64
	fb        bool
	stop      map[fianoUEFI.Firmware]bool
	sub       *gnode
	abortAt   int
}

func (s sessRunSpec) String() string {
	t := fmt.Sprintf("%s[%s fb=%v", s.r.im.name, s.mode, s.fb)
	if s.addOffset != 0 {
		t += fmt.Sprintf(" AddOffset=%#x", s.addOffset)
	}
	if len(s.stop) > 0 {
		t += fmt.Sprintf(" %d stop answers", len(s.stop))
	}
	if s.sub != nil {
		t += fmt.Sprintf(" at node #%d %s", s.sub.idx, s.sub.kind)
	}
	return t + "]"
}

func (s sessRunSpec) root() (fianoUEFI.Firmware, *gnode) {
	switch s.mode {
	case "root-uefi":
		return s.r.fw, s.r.gt.all[0]
	case "subtree":
		return &ffs.Node{Firmware: s.sub.f, AddOffset: s.addOffset}, s.sub
	}
	return &ffs.Node{Firmware: s.r.fw.Firmware, AddOffset: s.addOffset}, s.r.gt.all[0]
}

func runOn(v *ffs.NodeVisitor, s sessRunSpec) (vis []visited, err error, panicked bool, msg string) {
	v.FallbackToContainerRange = s.fb
	calls := 0
	v.Callback = func(n ffs.Node) (bool, error) {
		if s.mode == "abort" && calls == s.abortAt {
			return false, errAbort
		}
		calls++
		vis = append(vis, visited{n.Firmware, n.Range})
		return !s.stop[n.Firmware], nil
	}
	root, _ := s.root()
	panicked, msg = gal.Recover(func() { err = v.Run(root) })
	return
}

func walkerSessions(ctx *gal.Ctx, pool []*run, families [][]*run, heavy *run) {
	rng := ctx.Rng
	if len(pool) == 0 {
		return
	}
	nSessions := ctx.Scale(18, 160)
	for s := 0; s < nSessions; s++ {
		var specs []sessRunSpec
		pickStops := func(r *run) map[fianoUEFI.Firmware]bool {
			m := map[fianoUEFI.Firmware]bool{}
			if rng.Intn(3) == 0 {
				for _, n := range r.gt.all {
					if rng.Float64() < 0.1 {
						m[n.f] = true
					}
				}
			}
			return m
		}
		posOffset := func() int64 {
			if rng.Intn(4) == 0 {
				return 1 << 30
			}
			return int64(1+rng.Intn(0x400)) * 0x1000
		}
		switch {
		case s < 2*len(families) && len(families[s%len(families)]) >= 2:
			// the same volumes at other offsets: A, B, A again, A with a base offset
			f := families[s%len(families)]
			a, b := f[0], f[1+rng.Intn(len(f)-1)]
			if s >= len(families) {
				a, b = b, a
			}
			fb := s%2 == 1
			specs = []sessRunSpec{{r: a, mode: "root-node", fb: fb}, {r: b, mode: "root-node", fb: fb}, {r: a, mode: "root-uefi", fb: fb},
				{r: a, mode: "root-node", fb: fb, addOffset: posOffset()}, {r: a, mode: "root-node", fb: !fb}}
		case s == 2*len(families) && heavy != nil:
			specs = []sessRunSpec{{r: pool[0], mode: "root-node"}, {r: heavy, mode: "root-node", fb: true}, {r: pool[0], mode: "root-uefi"}}
		default:
			var cur *run
			for k, n := 0, 3+rng.Intn(3); k < n; k++ {
				if cur == nil || rng.Intn(2) == 0 {
					cur = pool[rng.Intn(len(pool))]
					if rng.Intn(3) == 0 && len(families) > 0 {
						f := families[rng.Intn(len(families))]
						cur = f[rng.Intn(len(f))]
					}
				}
				sp := sessRunSpec{r: cur, mode: "root-node", fb: rng.Intn(2) == 0}
				switch p := rng.Intn(20); {
				case p < 3:
					sp.mode = "root-uefi"
				case p < 6:
					sp.mode = "subtree"
				case p < 8:
					sp.mode = "abort"
					sp.abortAt = rng.Intn(len(cur.gt.all))
				}
				if sp.mode != "root-uefi" {
					switch p := rng.Intn(20); {
					case p < 6:
						sp.addOffset = posOffset()
					case p < 7:
						sp.addOffset = -0x1000
					}
				}
				if sp.mode == "subtree" {
					var cand []*gnode
					for _, n := range cur.gt.all[1:] {
						if (n.isFile || n.isFV) && len(n.kids) > 0 {
							cand = append(cand, n)
						}
					}
					if len(cand) == 0 {
						sp.mode = "root-node"
					} else {
						sp.sub = cand[rng.Intn(len(cand))]
					}
				}
				if sp.mode != "abort" {
					sp.stop = pickStops(cur)
				}
				specs = append(specs, sp)
			}
		}

		v := &ffs.NodeVisitor{} // ONE object for the whole session
		type outcome struct {
			spec     sessRunSpec
			vis      []visited
			err      error
			panicked bool
			msg      string
			fresh    []visited
			freshErr error
			freshP   bool
		}
		var outs []outcome
		var lits, history []string
		for _, sp := range specs {
			ctx.Begin("NodeVisitor.Run, one visitor object reused", siteWalker, map[string]interface{}{"run": sp.String(), "earlier_runs": history})
			o := outcome{spec: sp}
			o.vis, o.err, o.panicked, o.msg = runOn(v, sp)
			o.fresh, o.freshErr, o.freshP, _ = runOn(&ffs.NodeVisitor{}, sp)
			outs = append(outs, o)
			history = append(history, sp.String())
			if sp.mode == "abort" {
				continue // error-returning callbacks are not modelled: the next Run starts from whatever this one left
			}
			root, g := sp.root()
			rootNode, ok := root.(*ffs.Node)
			if !ok {
				rootNode = &ffs.Node{Firmware: sp.r.fw.Firmware}
			}
			ids := map[string]int{}
			tl := sp.r.treeLit(g, ids, sp.stop)
			rs := make([]pkgbytes.Range, len(o.vis))
			for i, x := range o.vis {
				rs[i] = x.r
			}
			lits = append(lits, gal.Pair(gal.Pair(gal.Pair(tl, rmLit(rootNode.NameToRangesMap(), ids)), gal.Bool(sp.fb)), obsRanges(rs, o.err, o.panicked)))
		}
		idx := ctx.Add("walk-session", "CWalkSession "+gal.List(lits), map[string]interface{}{"op": "one NodeVisitor object, several Runs", "runs": history}, true)
		for k, o := range outs {
			sp := o.spec
			extra := map[string]interface{}{"run": k + 1, "history": append([]string{}, history[:k]...), "this_run": sp.String()}
			in := func() map[string]interface{} {
				return map[string]interface{}{"runs_of_one_visitor": history[:k+1], "failing_run": k + 1, "image": sp.r.im.name, "fallback": sp.fb, "add_offset": sp.addOffset}
			}
			// (a) against the ground truth of the image this Run was about
			if sp.mode == "root-node" || sp.mode == "root-uefi" {
				sp.r.judgeWalk(idx, o.vis, o.err, o.panicked, o.msg, sp.fb, sp.addOffset, sp.stop, extra)
			}
			// (b) against a visitor that has no past: a Run is a function of its arguments
			same := o.panicked == o.freshP && (o.err == nil) == (o.freshErr == nil) && len(o.vis) == len(o.fresh)
			diff := -1
			for i := 0; same && i < len(o.vis); i++ {
				if o.vis[i] != o.fresh[i] {
					same, diff = false, i
				}
			}
			switch {
			case same:
				ctx.OracleOK()
			case k == 0:
				ctx.OracleFail(idx, "two fresh NodeVisitor objects report different things for the same tree", siteWalker, in())
			default:
				what := fmt.Sprintf("Run #%d of ONE NodeVisitor object (%s) differs from the Run of a fresh visitor with the same arguments: ", k+1, sp.String())
				switch {
				case o.panicked != o.freshP || (o.err == nil) != (o.freshErr == nil):
					what += fmt.Sprintf("panic=%v (%s) err=%v, fresh visitor: panic=%v err=%v", o.panicked, o.msg, o.err, o.freshP, o.freshErr)
				case diff >= 0:
					n := sp.r.gt.byFW[o.fresh[diff].f]
					d := ""
					if n != nil {
						d = fmt.Sprintf(" (node #%d %s guid=%s, bytes at %s)", n.idx, n.kind, n.guid, whereOf(n))
					}
					what += fmt.Sprintf("callback invocation %d got Range %#x+%#x, with a fresh visitor %#x+%#x%s", diff, o.vis[diff].r.Offset, o.vis[diff].r.Length, o.fresh[diff].r.Offset, o.fresh[diff].r.Length, d)
				default:
					what += fmt.Sprintf("%d callback invocations, %d with a fresh visitor", len(o.vis), len(o.fresh))
				}
				what += "; earlier Runs of the object: " + strings.Join(history[:k], ", ")
				ctx.OracleFail(idx, what, "pkg/uefi/ffs/node_get_by.go:NodeVisitor.Run", in())
			}
		}
	}
}

func whereOf(n *gnode) string {
	if n.located {
		return fmt.Sprintf("image offset %#x", n.trueOff)
	}
	return "a decompressed buffer"
}

// ------------------------------------------------------------------ data sources: reuse, arguments

func nodesWithGUID(r *run, gs string) []*gnode {
	var out []*gnode
	for _, n := range r.gt.all {
		if (n.isFile || n.isFV) && n.guid == gs {
			out = append(out, n)
		}
	}
	return out
}

func dataSourceSessions(ctx *gal.Ctx, pool []*run, families [][]*run) {
	rng := ctx.Rng
	bg := context.Background()
	// one UEFIGUIDFirst object asked about several images (same GUIDs, other offsets) in a row
	for _, f := range families {
		if len(f) < 2 {
			continue
		}
		var guids []string
		seen := map[string]bool{}
		for _, n := range f[0].gt.all {
			if (n.isFile || n.isFV) && n.name != "" && !seen[n.guid] {
				seen[n.guid] = true
				guids = append(guids, n.guid)
			}
		}
		for i := 0; i < 3 && len(guids) > 0; i++ {
			gs := guids[rng.Intn(len(guids))]
			g, err := fianoGUID.Parse(gs)
			if err != nil {
				continue
			}
			ds := datasources.UEFIGUIDFirst{*g}
			order := []*run{f[0], f[1+rng.Intn(len(f)-1)], f[0]}
			for k, r := range order {
				st, bi := r.newState()
				var d *types.Data
				var derr error
				in := map[string]interface{}{"guid": gs, "data_source_object_used_before_on": k}
				if p, msg := gal.Recover(func() { d, derr = ds.Data(bg, st) }); p {
					ctx.OracleFail(-1, "UEFIGUIDFirst panicked: "+msg, "pkg/bootflow/datasources/uefi_guid.go", in)
					continue
				}
				r.checkSelector("UEFIGUIDFirst (one object, several images)", "pkg/bootflow/datasources/uefi_guid.go", in, nodesWithGUID(r, gs), d, derr, bi, true)
			}
		}
	}
	// VolumeOf(MemRanges(list)): the caller's list (several ranges, spare capacity) is what it
	// was; asking twice gives the same volumes; the first answer survives the second call
	for _, r := range pool {
		var tops []*gnode
		for _, n := range r.gt.all {
			if n.isFV && n.located && !n.underSec && n.name != "" && n.blen() > 0 {
				tops = append(tops, n)
			}
		}
		if len(tops) < 2 {
			continue
		}
		n := 2 + rng.Intn(len(tops)-1)
		perm := rng.Perm(len(tops))[:n]
		list := make(pkgbytes.Ranges, 0, n+1+rng.Intn(3))
		var want []pkgbytes.Range
		for _, i := range perm {
			fv := tops[i]
			o := uint64(rng.Int63n(int64(fv.blen())))
			list = append(list, pkgbytes.Range{Offset: r.physOf(fv.trueOff + o), Length: 1 + uint64(rng.Int63n(int64(fv.blen()-o)))})
			want = append(want, pkgbytes.Range{Offset: fv.trueOff, Length: fv.blen()})
		}
		full := list[:cap(list)]
		for i := len(list); i < len(full); i++ {
			full[i] = pkgbytes.Range{Offset: 0xC0FFEE00 + uint64(i), Length: 0x14}
		}
		before := copyRanges(full)
		in := map[string]interface{}{"image": r.im.name, "ranges": hexRanges(list), "spare_capacity": hexRanges(full[len(list):])}
		site := "pkg/bootflow/datasources/volume_of.go"
		ds := datasources.VolumeOf(datasources.MemRanges(list))
		var answers [][]pkgbytes.Range
		var kept []*types.Data
		failed := false
		for k := 0; k < 3 && !failed; k++ {
			st, bi := r.newState()
			var d *types.Data
			var derr error
			if p, msg := gal.Recover(func() { d, derr = ds.Data(bg, st) }); p || derr != nil {
				ctx.OracleFail(-1, fmt.Sprintf("VolumeOf(MemRanges) of ranges inside top-level volumes failed at call %d: %v %s", k+1, derr, msg), site, in)
				failed = true
				break
			}
			if !sameRanges(full, before) {
				in["ranges_after"] = hexRanges(full)
				ctx.OracleFail(-1, fmt.Sprintf("VolumeOf(MemRanges(list)).Data modified the caller's list: it was %v (with spare capacity) and is %v after call %d", hexRanges(before), hexRanges(full), k+1), site, in)
				failed = true
				break
			}
			got, why := r.dataRanges(d, bi)
			if why != "" || !sameRanges(normalise(got), normalise(want)) {
				msg := fmt.Sprintf("VolumeOf(MemRanges(list)) call %d resolves to %s (%s), the volumes holding the ranges are %s", k+1, fmtRanges(normalise(got)), why, fmtRanges(normalise(want)))
				var phys []pkgbytes.Range
				for _, g := range got {
					phys = append(phys, pkgbytes.Range{Offset: r.physOf(g.Offset), Length: g.Length})
				}
				if k == 0 && why == "" && r.gotIsD23(phys) {
					ctx.OracleFailKnown(-1, findD23, msg, site, in)
				} else {
					ctx.OracleFail(-1, msg, site, in)
				}
				failed = true
				break
			}
			answers = append(answers, copyRanges(got))
			kept = append(kept, d)
			ctx.OracleOK()
		}
		// the Data objects returned earlier still say what they said
		for k := 0; k < len(kept) && !failed; k++ {
			var now []pkgbytes.Range
			for i := range kept[k].References {
				rr, _ := kept[k].References[i].ResolvedRanges()
				now = append(now, rr...)
			}
			if sameRanges(now, answers[k]) {
				ctx.OracleOK()
			} else {
				ctx.OracleFail(-1, fmt.Sprintf("the answer of VolumeOf call %d was %s and reads %s after later calls", k+1, fmtRanges(answers[k]), fmtRanges(now)), site, in)
			}
		}
		// MemRanges alone: its reference resolves to the offsets named, twice, list untouched
		{
			st, bi := r.newState()
			d, err := datasources.MemRanges(list).Data(bg, st)
			var wantOff []pkgbytes.Range
			for _, x := range list {
				wantOff = append(wantOff, pkgbytes.Range{Offset: x.Offset - (fourGiB - r.size), Length: x.Length})
			}
			got, why := r.dataRanges(d, bi)
			got2, _ := r.dataRanges(d, bi)
			switch {
			case err != nil || why != "" || !sameRanges(got, wantOff) || !sameRanges(got2, wantOff):
				ctx.OracleFail(-1, fmt.Sprintf("MemRanges(list) resolves to %v, then %v (%s) err=%v, expected %v", hexRanges(got), hexRanges(got2), why, err, hexRanges(wantOff)), "pkg/bootflow/datasources/mem_ranges.go", in)
			case !sameRanges(full, before):
				ctx.OracleFail(-1, fmt.Sprintf("resolving the reference of MemRanges(list) modified the caller's list: %v -> %v", hexRanges(before), hexRanges(full)), "pkg/bootflow/datasources/mem_ranges.go", in)
			default:
				ctx.OracleOK()
			}
		}
	}
}
