package main

// The BYTES a data-source result delivers.
//
// Property clause: "every byte range reported for a firmware object ... by the data sources
// ... addresses, in the image, exactly the bytes of that object".  What a consumer of a
// data source gets (and hashes, and extends) is Data.RawBytes(); so for every reference a data
// source returns, the bytes it delivers must be exactly the image bytes at the set of image
// positions its ranges name (address = 4 GiB - image size + offset): every named position
// once, in ascending order, nothing else -- however the ranges of the reference are ordered
// and whether or not they overlap, contain each other or repeat.
//
// Oracle (written from that sentence): a coverage bitmap over the image, filled from the
// ranges, read out against the image itself, compared byte by byte with what the code
// delivered.  No sorting, no merging, no address mapper of the suite.
//
// Generator: (1) MemRanges on small BIOSImage artifacts (a few to a few hundred random
// non-zero bytes; MemRanges does not parse the image) with range lists of every relation:
// single, disjoint, touching, overlapping, nested, repeated, chains of overlaps, unsorted,
// zero-length in between, the first/last byte of the image, the whole image plus a part,
// random lists; also lists that leave the image (not judged, corresponded);
// (2) the same lists placed inside a window of a parsed image (around a located object, at the
// start, at the end = just below 4 GiB), and lists built from objects of the tree (a volume
// and one of its files, the same object twice, objects in reverse order) through MemRanges
// and VolumeOf(MemRanges);
// (3) every Data any other part of this harness obtains from a data source (UEFIGUIDFirst,
// UEFIFilesByType/ByName, VolumeOf, FITFirst/FITAll, ACMDate, IBB, PCR0_DATA pieces) is
// judged through run.dataRanges / run.deliveredWhy; UEFIGUIDFirst and UEFIFiles results whose
// objects span little of the image also become correspondence cases (kind 1/2).

import (
	"bytes"
	"context"
	"fmt"
	"math"
	"math/rand"

	"verifharness/gal"

	"github.com/9elements/converged-security-suite/v2/pkg/bootflow/datasources"
	"github.com/9elements/converged-security-suite/v2/pkg/bootflow/systemartifacts/biosimage"
	"github.com/9elements/converged-security-suite/v2/pkg/bootflow/types"
	pkgbytes "github.com/linuxboot/fiano/pkg/bytes"
	fianoUEFI "github.com/linuxboot/fiano/pkg/uefi"
)

const siteRawBytes = "pkg/bootflow/types/data.go:Reference.RawBytes (through types.DataSource.Data(...).RawBytes())"

// scratch coverage bitmap, cleared after use
var covScratch []bool

// namedBytes: the image bytes at the positions the ranges name. phys: the ranges are physical
// addresses (address = 4 GiB - len(img) + offset), else image offsets. ok=false: some
// non-empty range is not inside the image (nothing is named then; not judged).
func namedBytes(img []byte, rs []pkgbytes.Range, phys bool) (want []byte, ok bool) {
	size := uint64(len(img))
	lo, hi := size, uint64(0)
	type span struct{ o, e uint64 }
	var spans []span
	for _, x := range rs {
		if x.Length == 0 {
			continue // names nothing
		}
		o := x.Offset
		if phys {
			base := fourGiB - size
			if size > fourGiB || o < base || o >= fourGiB {
				return nil, false
			}
			o -= base
		}
		if o >= size || x.Length > size-o {
			return nil, false
		}
		spans = append(spans, span{o, o + x.Length})
		if o < lo {
			lo = o
		}
		if o+x.Length > hi {
			hi = o + x.Length
		}
	}
	if len(spans) == 0 {
		return []byte{}, true
	}
	if uint64(len(covScratch)) < size {
		covScratch = make([]bool, size)
	}
	cov := covScratch[:size]
	for _, s := range spans {
		for k := s.o; k < s.e; k++ {
			cov[k] = true
		}
	}
	want = make([]byte, 0, hi-lo)
	for k := lo; k < hi; k++ {
		if cov[k] {
			want = append(want, img[k])
			cov[k] = false
		}
	}
	return want, true
}

func refIsPhys(ref *types.Reference) (phys bool, known bool) {
	if ref.AddressMapper == nil {
		return false, true
	}
	_, ok := ref.AddressMapper.(biosimage.PhysMemMapper)
	return ok, ok
}

func hexShort(b []byte) string {
	if len(b) <= 96 {
		return fmt.Sprintf("%x", b)
	}
	return fmt.Sprintf("%x...(%d bytes)...%x", b[:40], len(b), b[len(b)-40:])
}

// diffBytes describes how got differs from want ("" if equal).
func diffBytes(got, want []byte) string {
	if bytes.Equal(got, want) {
		return ""
	}
	first := 0
	for first < len(got) && first < len(want) && got[first] == want[first] {
		first++
	}
	s := fmt.Sprintf("%d bytes delivered, %d expected (one per named image position); first difference at delivered byte %d", len(got), len(want), first)
	if first < len(got) && first < len(want) {
		s += fmt.Sprintf(" (delivered %#02x, expected %#02x)", got[first], want[first])
	}
	if len(got) > len(want) && bytes.Equal(got[:len(want)], want) {
		tail := got[len(want):]
		allZero := true
		for _, c := range tail {
			allZero = allZero && c == 0
		}
		if allZero {
			s += fmt.Sprintf("; the first %d delivered bytes are right, then follow %d zero bytes that are at no named position", len(want), len(tail))
		} else {
			s += fmt.Sprintf("; the first %d delivered bytes are right, then follow %d more", len(want), len(tail))
		}
	}
	return s + fmt.Sprintf("; delivered=%s expected=%s", hexShort(got), hexShort(want))
}

// deliveredWhy: "" iff RawBytes() of the reference is exactly the image bytes at the positions
// its ranges name. The reference itself is left alone (Reference.RawBytes sorts the range
// slice of its receiver in place: a private copy is asked).
func deliveredWhy(ctx *gal.Ctx, imgName string, img []byte, ref *types.Reference) string {
	phys, known := refIsPhys(ref)
	if !known {
		return ""
	}
	want, ok := namedBytes(img, ref.Ranges, phys)
	if !ok {
		return ""
	}
	cp := *ref
	cp.Ranges = append(pkgbytes.Ranges(nil), ref.Ranges...)
	var got []byte
	if p, msg := gal.Recover(func() { got = cp.RawBytes() }); p {
		return fmt.Sprintf("RawBytes() of the reference %v panicked although every range lies inside the image: %s", hexRanges(ref.Ranges), msg)
	}
	if d := diffBytes(got, want); d != "" {
		return fmt.Sprintf("RawBytes() of the reference %v: %s", hexRanges(ref.Ranges), d)
	}
	if len(got) > 0 && len(got) <= 1<<16 {
		keep(ctx, -1, got, want, fmt.Sprintf("Reference.RawBytes() of %v on %s", hexRanges(ref.Ranges), imgName), siteRawBytes,
			map[string]interface{}{"image": imgName, "reference_ranges": hexRanges(ref.Ranges)})
	}
	return ""
}

// dataDeliveredWhy: Data.RawBytes() is, reference by reference in list order, the named bytes.
func dataDeliveredWhy(img []byte, d *types.Data, bi *biosimage.BIOSImage) string {
	if d == nil {
		return ""
	}
	var want []byte
	cp := &types.Data{Converter: d.Converter}
	for i := range d.References {
		ref := d.References[i]
		if ref.Artifact != types.SystemArtifact(bi) {
			return ""
		}
		phys, known := refIsPhys(&ref)
		if !known {
			return ""
		}
		w, ok := namedBytes(img, ref.Ranges, phys)
		if !ok {
			return ""
		}
		want = append(want, w...)
		ref.Ranges = append(pkgbytes.Ranges(nil), ref.Ranges...)
		cp.References = append(cp.References, ref)
	}
	var got []byte
	if p, msg := gal.Recover(func() { got = cp.RawBytes() }); p {
		return "Data.RawBytes() panicked although every range lies inside the image: " + msg
	}
	if df := diffBytes(got, want); df != "" {
		return "Data.RawBytes(): " + df
	}
	return ""
}

// ------------------------------------------------------------------ range lists of every relation

var shapeNames = []string{"single", "disjoint", "touching", "overlapping", "nested", "repeated", "overlap-chain",
	"unsorted-disjoint", "unsorted-overlapping", "zero-length-between", "first-and-last-byte", "whole-plus-part",
	"same-start", "same-end", "random", "random-dense", "empty-list", "only-zero-length"}

// shapeList: ranges (offsets) inside [0, w), w >= 1.
func shapeList(rng *rand.Rand, w uint64, shape string) []pkgbytes.Range {
	rg := func(o, l uint64) pkgbytes.Range {
		if o >= w {
			o = w - 1
		}
		if l > w-o {
			l = w - o
		}
		return pkgbytes.Range{Offset: o, Length: l}
	}
	rnd := func(n uint64) uint64 {
		if n == 0 {
			return 0
		}
		return uint64(rng.Int63n(int64(n)))
	}
	// a base range somewhere, leaving room on both sides when possible
	l0 := 1 + rnd(w/3+1)
	o0 := rnd(w - l0 + 1)
	a := rg(o0, l0)
	shuffle := func(l []pkgbytes.Range) []pkgbytes.Range {
		rng.Shuffle(len(l), func(i, j int) { l[i], l[j] = l[j], l[i] })
		return l
	}
	switch shape {
	case "single":
		return []pkgbytes.Range{a}
	case "disjoint":
		b := rg(a.Offset+a.Length+1+rnd(4), 1+rnd(w/4+1))
		return []pkgbytes.Range{a, b}
	case "touching":
		b := rg(a.Offset+a.Length, 1+rnd(w/4+1))
		return []pkgbytes.Range{a, b}
	case "overlapping":
		b := rg(a.Offset+rnd(a.Length), a.Length+rnd(w/4+1))
		return []pkgbytes.Range{a, b}
	case "nested":
		in := rg(a.Offset+rnd(a.Length), 1+rnd(a.Length))
		if in.Offset+in.Length > a.Offset+a.Length {
			in.Length = a.Offset + a.Length - in.Offset
		}
		if rng.Intn(2) == 0 {
			return []pkgbytes.Range{a, in}
		}
		return []pkgbytes.Range{in, a}
	case "repeated":
		out := []pkgbytes.Range{a, a}
		for rng.Intn(3) == 0 {
			out = append(out, a)
		}
		return out
	case "overlap-chain":
		out := []pkgbytes.Range{a}
		cur := a
		for i := 0; i < 2+rng.Intn(3); i++ {
			cur = rg(cur.Offset+rnd(cur.Length+1), 1+rnd(w/5+1))
			out = append(out, cur)
		}
		return out
	case "unsorted-disjoint":
		out := []pkgbytes.Range{}
		o := rnd(w/4 + 1)
		for i := 0; i < 3+rng.Intn(3) && o < w; i++ {
			l := 1 + rnd(w/8+1)
			out = append(out, rg(o, l))
			o += l + 1 + rnd(5)
		}
		for i, j := 0, len(out)-1; i < j; i, j = i+1, j-1 {
			out[i], out[j] = out[j], out[i]
		}
		return out
	case "unsorted-overlapping":
		out := shapeList(rng, w, "overlap-chain")
		out = append(out, shapeList(rng, w, "nested")...)
		return shuffle(out)
	case "zero-length-between":
		b := rg(a.Offset+a.Length+1+rnd(4), 1+rnd(w/4+1))
		z := pkgbytes.Range{Offset: a.Offset + rnd(a.Length+2), Length: 0}
		return shuffle([]pkgbytes.Range{a, z, b})
	case "first-and-last-byte":
		out := []pkgbytes.Range{{Offset: w - 1, Length: 1}, {Offset: 0, Length: 1}}
		if rng.Intn(2) == 0 {
			out = append(out, rg(w-1-rnd(w/2+1), w)) // up to the end of the window
		}
		return out
	case "whole-plus-part":
		return shuffle([]pkgbytes.Range{{Offset: 0, Length: w}, a})
	case "same-start":
		return shuffle([]pkgbytes.Range{a, rg(a.Offset, 1+rnd(2*a.Length+1))})
	case "same-end":
		k := rnd(a.Length)
		return shuffle([]pkgbytes.Range{a, {Offset: a.Offset + k, Length: a.Length - k}})
	case "random", "random-dense":
		n := 2 + rng.Intn(5)
		maxl := w/6 + 1
		if shape == "random-dense" {
			maxl = w/2 + 1
		}
		var out []pkgbytes.Range
		for i := 0; i < n; i++ {
			out = append(out, rg(rnd(w), rnd(maxl+1)))
		}
		return out
	case "empty-list":
		return nil
	case "only-zero-length":
		return []pkgbytes.Range{{Offset: rnd(w), Length: 0}, {Offset: rnd(w), Length: 0}}
	}
	return []pkgbytes.Range{a}
}

func relationOf(rs []pkgbytes.Range) string {
	over, nest, rep, unsorted := false, false, false, false
	for i := range rs {
		if i > 0 && rs[i].Offset < rs[i-1].Offset {
			unsorted = true
		}
		for j := range rs {
			if i == j || rs[i].Length == 0 || rs[j].Length == 0 {
				continue
			}
			a, b := rs[i], rs[j]
			switch {
			case a == b:
				rep = true
			case a.Offset <= b.Offset && b.Offset+b.Length <= a.Offset+a.Length:
				nest = true
			case a.Offset < b.Offset+b.Length && b.Offset < a.Offset+a.Length:
				over = true
			}
		}
	}
	s := ""
	for _, x := range []struct {
		b bool
		n string
	}{{over, "overlapping"}, {nest, "nested"}, {rep, "repeated"}, {unsorted, "unsorted"}} {
		if x.b {
			if s != "" {
				s += "+"
			}
			s += x.n
		}
	}
	if s == "" {
		return "plain"
	}
	return s
}

func obsBytes(b []byte, err error, panicked bool) string {
	if panicked {
		return "OPanic"
	}
	if err != nil {
		return "OErr"
	}
	return "(OOk " + gal.Bytes(b) + ")"
}

// memRangesDelivered: MemRanges(list).Data(state).RawBytes() on the BIOS image img; the case
// sends the window [woff, woff+wlen) of the image. Returns whether everything was as required.
func memRangesDelivered(ctx *gal.Ctx, imgName string, img []byte, woff, wlen uint64, offs []pkgbytes.Range, shape string, outside bool, bi *biosimage.BIOSImage, st *types.State) bool {
	size := uint64(len(img))
	base := fourGiB - size
	list := make(pkgbytes.Ranges, len(offs))
	for i, x := range offs {
		list[i] = pkgbytes.Range{Offset: x.Offset + base, Length: x.Length}
	}
	given := copyRanges(list)
	var d *types.Data
	var derr error
	var got []byte
	var resolved pkgbytes.Ranges
	var rerr error
	listKept := true
	p, msg := gal.Recover(func() {
		d, derr = datasources.MemRanges(list).Data(context.Background(), st)
		if derr == nil && d != nil {
			if len(d.References) == 1 {
				resolved, rerr = d.References[0].ResolvedRanges()
			}
			// asking the data source (and resolving its answer) leaves the caller's list alone;
			// Reference.RawBytes is documented (property C11) to sort the range slice it is
			// called on, which here is the caller's list itself: compared before
			listKept = sameRanges(list, given)
			got = d.RawBytes()
		}
	})
	in := map[string]interface{}{"data_source": "MemRanges", "image": imgName, "image_size": size, "ranges_as_addresses": hexRanges(given),
		"ranges_as_image_offsets": hexRanges(offs), "shape": shape, "relation": relationOf(offs)}
	if size <= 512 {
		in["image_hex"] = fmt.Sprintf("%x", img)
	} else {
		in["image_window"] = map[string]interface{}{"offset": woff, "hex": fmt.Sprintf("%x", img[woff:woff+wlen])}
	}
	lit := fmt.Sprintf("CDelivered 0 %s %s %s %s %s", gal.U(size), gal.U(woff), gal.Bytes(img[woff:woff+wlen]), rangesLit(given), obsBytes(got, derr, p))
	idx := ctx.Add("delivered/mem-ranges/"+relationOf(offs), lit, in, !outside)
	if outside {
		ctx.Count("delivered-outside-image-not-judged")
		return true
	}
	want, ok := namedBytes(img, offs, false)
	site := "pkg/bootflow/datasources/mem_ranges.go -> " + siteRawBytes
	switch {
	case !ok:
		return true
	case p:
		ctx.OracleFail(idx, fmt.Sprintf("MemRanges(%v).Data(...).RawBytes() panicked although every range lies inside the image (%d bytes, mapped at %#x): %s", hexRanges(given), size, base, msg), site, in)
	case derr != nil || d == nil:
		ctx.OracleFail(idx, fmt.Sprintf("MemRanges(%v).Data failed on ranges inside the image: %v", hexRanges(given), derr), site, in)
	case len(d.References) != 1 || rerr != nil || !sameRanges([]pkgbytes.Range(resolved), offs):
		ctx.OracleFail(idx, fmt.Sprintf("MemRanges(%v): the reference resolves to %v (err=%v), the ranges given are image offsets %v", hexRanges(given), hexRanges(resolved), rerr, hexRanges(offs)), site, in)
	case !listKept:
		ctx.OracleFail(idx, fmt.Sprintf("MemRanges(list).Data changed the caller's list: %v -> %v", hexRanges(given), hexRanges(list)), site, in)
	default:
		if df := diffBytes(got, want); df != "" {
			in["delivered_hex"] = fmt.Sprintf("%x", got)
			in["expected_hex"] = fmt.Sprintf("%x", want)
			ctx.OracleFail(idx, fmt.Sprintf("MemRanges(%v).Data(...).RawBytes() on a BIOS image of %d bytes (%s ranges): %s", hexRanges(given), size, relationOf(offs), df), site, in)
			return false
		}
		ctx.OracleOK()
		ctx.Count("oracle-ok:delivered bytes MemRanges")
		keep(ctx, idx, got, want, fmt.Sprintf("MemRanges(%v).Data(...).RawBytes() on %s", hexRanges(given), imgName), site, in)
		return true
	}
	return false
}

// Results handed out earlier stay what they were: the harness keeps the last few delivered
// slices themselves (not copies) and compares them again after every later call.
type keptResult struct {
	idx       int
	got, want []byte
	what      string
	site      string
	in        interface{}
}

var keptResults []keptResult

func keep(ctx *gal.Ctx, idx int, got, want []byte, what, site string, in interface{}) {
	recheckKept(ctx)
	keptResults = append(keptResults, keptResult{idx, got, append([]byte(nil), want...), what, site, in})
	if len(keptResults) > 4 {
		keptResults = keptResults[1:]
	}
}

func recheckKept(ctx *gal.Ctx) {
	var still []keptResult
	for _, k := range keptResults {
		if bytes.Equal(k.got, k.want) {
			still = append(still, k)
			continue
		}
		ctx.OracleFail(k.idx, fmt.Sprintf("the bytes %s delivered were right when returned and read differently after later calls of data sources / RawBytes on other references: %s", k.what, diffBytes(k.got, k.want)), k.site, k.in)
	}
	keptResults = still
}

// deliveredSmall: MemRanges on small BIOSImage artifacts.
func deliveredSmall(ctx *gal.Ctx) {
	rng := ctx.Rng
	sizes := []int{1, 2, 3, 8, 16, 31, 64, 100, 255, 256}
	n := ctx.Scale(170, 1500)
	for i := 0; i < n; {
		size := sizes[rng.Intn(len(sizes))]
		if i%3 == 0 {
			size = 4 + rng.Intn(180)
		}
		img := make([]byte, size)
		for k := range img {
			img[k] = byte(1 + rng.Intn(255)) // no zero byte: a byte that was never read shows
		}
		// ONE image object and state for one to three questions
		st := types.NewState()
		bi := biosimage.New(img)
		st.IncludeSystemArtifact(bi)
		var first []pkgbytes.Range
		for j, nq := 0, 1+rng.Intn(3); j < nq && i < n; j, i = j+1, i+1 {
			shape := shapeNames[i%len(shapeNames)]
			offs := shapeList(rng, uint64(size), shape)
			if j > 0 && len(first) >= 2 && rng.Intn(2) == 0 {
				// as many ranges as the first question had, the same first range, others elsewhere
				offs = append([]pkgbytes.Range{first[0]}, shapeList(rng, uint64(size), "random-dense")...)
				for len(offs) < len(first) {
					offs = append(offs, shapeList(rng, uint64(size), "single")...)
				}
				offs = offs[:len(first)]
				shape = "same-first-range-and-count-as-the-question-before"
			}
			outside := false
			if i%23 == 22 {
				// leave the image: below its first address, across 4 GiB, far away (short ranges only)
				outside = true
				switch rng.Intn(3) {
				case 0:
					offs = append(offs, pkgbytes.Range{Offset: uint64(size) - 1, Length: 2 + uint64(rng.Intn(4))})
				case 1:
					offs = append(offs, pkgbytes.Range{Offset: math.MaxUint64 - uint64(rng.Intn(8)), Length: 1 + uint64(rng.Intn(12))}) // address just below the image
				default:
					offs = append([]pkgbytes.Range{{Offset: uint64(size) + uint64(rng.Intn(1<<20)), Length: 1 + uint64(rng.Intn(8))}}, offs...)
				}
				shape += "+outside"
			}
			if j == 0 {
				first = copyRanges(offs)
			}
			name := fmt.Sprintf("%d random non-zero bytes", size)
			if j > 0 {
				name += fmt.Sprintf(" (question %d to the same BIOSImage object)", j+1)
			}
			memRangesDelivered(ctx, name, img, 0, uint64(size), offs, shape, outside, bi, st)
		}
	}
	recheckKept(ctx)
}

// ------------------------------------------------------------------ parsed images

// window of at most w bytes that holds offset at, inside the image
func windowAround(size, at, w uint64) (uint64, uint64) {
	if w > size {
		w = size
	}
	if at+w > size {
		at = size - w
	}
	return at, w
}

// deliveredOnImages: range lists of every relation inside windows of parsed images, and lists
// built from the objects of the tree, through MemRanges and VolumeOf(MemRanges).
func deliveredOnImages(ctx *gal.Ctx, pool []*run, heavy *run) {
	rng := ctx.Rng
	bg := context.Background()
	runs := append([]*run(nil), pool...)
	if heavy != nil {
		runs = append(runs, heavy)
	}
	for ri, r := range runs {
		img := r.im.data
		var located []*gnode
		for _, n := range r.gt.all {
			if n.located && n.blen() > 0 && n.trueOff+n.blen() <= r.size {
				located = append(located, n)
			}
		}
		nWin := 2
		if r.im.heavy {
			nWin = 1 // the window is sent inside an image of full size: one case
		} else if len(img) > 1<<20 {
			nWin = 0
		}
		var winSt *types.State
		var winBI *biosimage.BIOSImage
		for k := 0; k < nWin; k++ {
			w := uint64(48 + rng.Intn(200))
			var at uint64
			switch (ri + k) % 4 {
			case 0:
				at = r.size // the end of the image: addresses just below 4 GiB
			case 1:
				at = 0
			default:
				if len(located) > 0 {
					at = located[rng.Intn(len(located))].trueOff
				}
			}
			woff, wl := windowAround(r.size, at, w)
			shape := shapeNames[rng.Intn(len(shapeNames)-2)] // not the empty shapes again
			offs := shapeList(rng, wl, shape)
			for i := range offs {
				offs[i].Offset += woff
			}
			if winSt == nil {
				winSt, winBI = r.newState() // one image object for the questions of this run
			}
			memRangesDelivered(ctx, r.im.name, img, woff, wl, offs, shape+" inside a window of a parsed image", false, winBI, winSt)
		}
		// objects of the tree: nested (a node and a node below it), repeated, reversed, plus a
		// sub-range that straddles the end of an object
		if len(located) >= 2 {
			nLists := 2
			if r.im.heavy {
				nLists = ctx.Scale(4, 20)
			}
			for k := 0; k < nLists; k++ {
				var offs []pkgbytes.Range
				a := located[rng.Intn(len(located))]
				offs = append(offs, pkgbytes.Range{Offset: a.trueOff, Length: a.blen()})
				what := "object"
				switch k % 4 {
				case 0: // something inside it (a child if it has a located one)
					var kids []*gnode
					for _, c := range a.kids {
						if c.located && c.blen() > 0 {
							kids = append(kids, c)
						}
					}
					if len(kids) > 0 {
						c := kids[rng.Intn(len(kids))]
						offs = append(offs, pkgbytes.Range{Offset: c.trueOff, Length: c.blen()})
						what = "object + an object inside it"
					} else {
						o := uint64(rng.Int63n(int64(a.blen())))
						offs = append(offs, pkgbytes.Range{Offset: a.trueOff + o, Length: 1 + uint64(rng.Int63n(int64(a.blen()-o)))})
						what = "object + a part of it"
					}
				case 1:
					offs = append(offs, offs[0])
					what = "the same object twice"
				case 2:
					b := located[rng.Intn(len(located))]
					offs = append([]pkgbytes.Range{{Offset: b.trueOff, Length: b.blen()}}, offs...)
					if offs[0].Offset < offs[1].Offset {
						offs[0], offs[1] = offs[1], offs[0]
					}
					what = "two objects, the later one first"
				default:
					e := a.trueOff + a.blen()
					back := 1 + uint64(rng.Int63n(int64(a.blen())))
					l := back + uint64(rng.Intn(16))
					if e-back+l > r.size {
						l = r.size - (e - back)
					}
					offs = append(offs, pkgbytes.Range{Offset: e - back, Length: l})
					what = "object + a range across its end"
				}
				// MemRanges (one image object for all the lists of this run)
				if winSt == nil {
					winSt, winBI = r.newState()
				}
				st, bi := winSt, winBI
				list := make(pkgbytes.Ranges, len(offs))
				for i, x := range offs {
					list[i] = pkgbytes.Range{Offset: r.physOf(x.Offset), Length: x.Length}
				}
				in := map[string]interface{}{"image": r.im.name, "ranges_as_image_offsets": hexRanges(offs), "ranges_as_addresses": hexRanges(list), "list": what, "relation": relationOf(offs)}
				var d *types.Data
				var derr error
				if p, msg := gal.Recover(func() { d, derr = datasources.MemRanges(copyRanges(list)).Data(bg, st) }); p || derr != nil {
					ctx.OracleFail(-1, fmt.Sprintf("MemRanges(%v).Data failed on ranges of located objects: %v %s", hexRanges(list), derr, msg), "pkg/bootflow/datasources/mem_ranges.go", in)
					continue
				}
				if why := dataDeliveredWhy(img, d, bi); why != "" {
					ctx.OracleFail(-1, fmt.Sprintf("MemRanges(%v) [%s, %s] on %s: %s", hexRanges(list), what, relationOf(offs), r.im.name, why), "pkg/bootflow/datasources/mem_ranges.go -> "+siteRawBytes, in)
				} else {
					ctx.OracleOK()
					ctx.Count("oracle-ok:delivered bytes MemRanges(objects)")
				}
				// VolumeOf(MemRanges): whatever volumes it answers with, the bytes delivered are
				// the bytes of its own ranges (that the ranges are the right volumes is judged in
				// selectors / dataSourceSessions)
				st, bi = r.newState()
				if p, _ := gal.Recover(func() { d, derr = datasources.VolumeOf(datasources.MemRanges(copyRanges(list))).Data(bg, st) }); p || derr != nil || d == nil {
					ctx.Count("delivered-volume-of-no-answer")
					continue
				}
				if _, why := r.dataRanges(d, bi); why != "" {
					ctx.OracleFail(-1, fmt.Sprintf("VolumeOf(MemRanges(%v)) on %s: %s", hexRanges(list), r.im.name, why), "pkg/bootflow/datasources/volume_of.go -> "+siteRawBytes, in)
				} else {
					ctx.OracleOK()
					ctx.Count("oracle-ok:delivered bytes VolumeOf(MemRanges(objects))")
				}
			}
		}
	}
	recheckKept(ctx)
}

// ------------------------------------------------------------------ UEFIGUIDFirst / UEFIFiles as cases

// fbRanges: what the walker (container fallback on) hands over per node of r's tree
func (r *run) fbRanges() map[fianoUEFI.Firmware]pkgbytes.Range {
	if r.fb != nil {
		return r.fb
	}
	r.fb = map[fianoUEFI.Firmware]pkgbytes.Range{}
	vis, err, p, _ := walkAll(r.fw, true, nil)
	if err != nil || p {
		return r.fb
	}
	for _, v := range vis {
		r.fb[v.f] = v.r
	}
	return r.fb
}

// sourceCase: a UEFIGUIDFirst / UEFIFiles result as a correspondence case, when the selected
// objects span little of a small image. kind 1: UEFIGUIDFirst, 2: UEFIFiles.
func (r *run) sourceCase(kind int, what string, input map[string]interface{}, matching []*gnode, d *types.Data, derr error) {
	if r.size > 1<<20 || r.srcCases[kind] >= 2 || (len(matching) < 2 && r.srcSingles >= 1) {
		return
	}
	fb := r.fbRanges()
	if len(fb) == 0 {
		return
	}
	var rep []pkgbytes.Range
	lo, hi := r.size, uint64(0)
	for _, n := range matching {
		g, ok := fb[n.f]
		if !ok {
			return
		}
		rep = append(rep, g)
		if g.Offset == math.MaxUint64 {
			continue
		}
		if g.Offset > r.size || g.Length > r.size-g.Offset {
			return
		}
		if g.Offset < lo {
			lo = g.Offset
		}
		if g.Offset+g.Length > hi {
			hi = g.Offset + g.Length
		}
	}
	if hi < lo {
		lo, hi = 0, 0
	}
	if hi-lo > 1200 && (len(matching) < 2 || hi-lo > 3000) {
		r.ctx.Count("delivered-source-span-too-large-for-a-case")
		return
	}
	var got []byte
	p := false
	if derr == nil && d != nil {
		cp := &types.Data{Converter: d.Converter}
		for i := range d.References {
			ref := d.References[i]
			ref.Ranges = append(pkgbytes.Ranges(nil), ref.Ranges...)
			cp.References = append(cp.References, ref)
		}
		p, _ = gal.Recover(func() { got = cp.RawBytes() })
	}
	if len(matching) < 2 {
		r.srcSingles++
	}
	r.srcCases[kind]++
	in := map[string]interface{}{"op": what + ".Data(...).RawBytes()", "image": r.im.name, "selector": input,
		"reported_for_the_selected_objects": hexRanges(rep), "relation": relationOf(rep)}
	lit := fmt.Sprintf("CDelivered %d %s %s %s %s %s", kind, gal.U(r.size), gal.U(lo), gal.Bytes(r.im.data[lo:hi]), rangesLit(rep), obsBytes(got, derr, p))
	r.ctx.Add(fmt.Sprintf("delivered/source-%d/%s", kind, relationOf(rep)), lit, in, len(rep) > 0)
}
