package main

// Synthetic BIOS regions built byte by byte from the PI specification (firmware volume
// header, FFS file header, common section header, EFI_GUID_DEFINED_SECTION, firmware
// volume image sections), with a SMALL pool of GUIDs so that the same name occurs many
// times: inside compressed (PROCESSING_REQUIRED) sections, in nested compressed sections,
// after them, in sibling volumes, as file GUID and as volume name.  The walker identifies
// nodes by name and visit count, so these are the shapes where its bookkeeping matters.
//
// Nothing here depends on /repo: the only thing taken from fiano is the compressor
// (zlib / LZMA encoders for the section payloads).

import (
	"encoding/binary"
	"fmt"
	"math/rand"

	"github.com/linuxboot/fiano/pkg/compression"
)

type sGUID [16]byte

var (
	ffs2GUID  = sGUID{0x78, 0xe5, 0x8c, 0x8c, 0x3d, 0x8a, 0x1c, 0x4f, 0x99, 0x35, 0x89, 0x61, 0x85, 0xc3, 0x2d, 0xd3}
	padGUID   = sGUID{0xff, 0xff, 0xff, 0xff, 0xff, 0xff, 0xff, 0xff, 0xff, 0xff, 0xff, 0xff, 0xff, 0xff, 0xff, 0xff}
	zlibGUID  = sGUID(compression.ZLIBGUID)
	lzmaGUID  = sGUID(compression.LZMAGUID)
	crc32GUID = sGUID{0xb0, 0xcd, 0x1b, 0xfc, 0x31, 0x7d, 0xaa, 0x49, 0x93, 0x6a, 0xa4, 0x60, 0x0d, 0x9d, 0xd0, 0x83}
)

const (
	secCompressedZ = iota // GUID-defined, PROCESSING_REQUIRED, zlib payload
	secCompressedL        // GUID-defined, PROCESSING_REQUIRED, LZMA payload
	secGUIDPlain          // GUID-defined without PROCESSING_REQUIRED
	secGUIDUnknown        // GUID-defined, PROCESSING_REQUIRED, GUID no decoder knows
	secVolumeImage        // EFI_SECTION_FIRMWARE_VOLUME_IMAGE
	secRaw
	secPE32
	secUI
)

type sSec struct {
	kind int
	data []byte // leaf payload
	name string // user-interface name
	kids []*sSec
	fv   *sFV
	last bool // last section of its container (set while serialising)
}

type sFile struct {
	guid sGUID
	typ  byte
	raw  []byte // for files without sections
	secs []*sSec
}

type sFV struct {
	name  *sGUID // nil: no extended header
	files []*sFile
	free  int // bytes of free space after the last file (0 or >= 0x40)
}

func put24(b []byte, v int) { b[0], b[1], b[2] = byte(v), byte(v>>8), byte(v>>16) }

func align(b []byte, n int, fill byte) []byte {
	for len(b)%n != 0 {
		b = append(b, fill)
	}
	return b
}

func (s *sSec) bytes() []byte {
	hdr := func(typ byte, body []byte) []byte {
		out := make([]byte, 4, 4+len(body))
		put24(out, 4+len(body))
		out[3] = typ
		return append(out, body...)
	}
	guided := func(g sGUID, attr uint16, payload []byte) []byte {
		body := make([]byte, 20, 20+len(payload))
		copy(body, g[:])
		binary.LittleEndian.PutUint16(body[16:], 24) // DataOffset
		binary.LittleEndian.PutUint16(body[18:], attr)
		return hdr(0x02, append(body, payload...))
	}
	kidsBytes := func() []byte {
		var b []byte
		for i, k := range s.kids {
			b = align(b, 4, 0)
			k.last = i == len(s.kids)-1
			b = append(b, k.bytes()...)
		}
		return b
	}
	switch s.kind {
	case secCompressedZ:
		if !s.last {
			// fiano hands the decoder everything up to the end of the container; its zlib
			// decoder insists on an exact length, the LZMA one does not
			enc, err := (&compression.LZMA{}).Encode(kidsBytes())
			if err != nil {
				panic(err)
			}
			return guided(lzmaGUID, 1, enc)
		}
		enc, err := (&compression.ZLIB{}).Encode(kidsBytes())
		if err != nil {
			panic(err)
		}
		return guided(zlibGUID, 1, enc)
	case secCompressedL:
		enc, err := (&compression.LZMA{}).Encode(kidsBytes())
		if err != nil {
			panic(err)
		}
		return guided(lzmaGUID, 1, enc)
	case secGUIDPlain:
		return guided(crc32GUID, 2, append([]byte{1, 2, 3, 4}, kidsBytes()...))
	case secGUIDUnknown:
		return guided(sGUID{0xde, 0xad, 0xbe, 0xef, 1, 2, 3, 4, 5, 6, 7, 8, 9, 10, 11, 12}, 1, s.data)
	case secVolumeImage:
		return hdr(0x17, s.fv.bytes())
	case secPE32:
		return hdr(0x10, s.data)
	case secUI:
		var u []byte
		for _, c := range s.name {
			u = append(u, byte(c), 0)
		}
		return hdr(0x15, append(u, 0, 0))
	default:
		return hdr(0x19, s.data)
	}
}

func (f *sFile) bytes() []byte {
	body := f.raw
	if f.secs != nil {
		body = nil
		for i, s := range f.secs {
			body = align(body, 4, 0)
			s.last = i == len(f.secs)-1
			body = append(body, s.bytes()...)
		}
	}
	out := make([]byte, 24, 24+len(body))
	copy(out, f.guid[:])
	out[18] = f.typ
	put24(out[20:], 24+len(body))
	var sum byte // header checksum: State and IntegrityCheck.File count as zero
	for _, c := range out {
		sum += c
	}
	out[16] = -sum
	out[17] = 0xAA // no body checksum
	out[23] = 0xF8 // EFI_FILE_DATA_VALID and below, erase polarity 1
	return append(out, body...)
}

func (v *sFV) bytes() []byte {
	const hdrLen = 0x48
	b := make([]byte, hdrLen)
	copy(b[16:], ffs2GUID[:])
	copy(b[40:], "_FVH")
	binary.LittleEndian.PutUint32(b[44:], 0x0004FEFF) // attributes, erase polarity 1
	binary.LittleEndian.PutUint16(b[48:], hdrLen)
	b[55] = 2 // revision
	if v.name != nil {
		binary.LittleEndian.PutUint16(b[52:], hdrLen) // ExtHeaderOffset
		ext := make([]byte, 20)
		copy(ext, v.name[:])
		binary.LittleEndian.PutUint32(ext[16:], 20)
		b = append(b, ext...)
	}
	b = align(b, 8, 0xFF)
	for _, f := range v.files {
		b = align(b, 8, 0xFF)
		b = append(b, f.bytes()...)
	}
	b = align(b, 8, 0xFF)
	for i := 0; i < v.free; i++ {
		b = append(b, 0xFF)
	}
	b = align(b, 8, 0xFF)
	binary.LittleEndian.PutUint64(b[32:], uint64(len(b)))
	binary.LittleEndian.PutUint32(b[56:], uint32(len(b)/8)) // block map: n blocks of 8 bytes
	binary.LittleEndian.PutUint32(b[60:], 8)
	var sum uint16
	for i := 0; i < hdrLen; i += 2 {
		sum += binary.LittleEndian.Uint16(b[i:])
	}
	binary.LittleEndian.PutUint16(b[50:], -sum)
	return b
}

// ------------------------------------------------------------------ random shapes

type synthGen struct {
	rng    *rand.Rand
	pool   []sGUID
	uiSeq  int
	budget int // remaining number of nodes, keeps the images (and the Coq cases) small
}

func (g *synthGen) guid() sGUID { return g.pool[g.rng.Intn(len(g.pool))] }

func (g *synthGen) blob(min, max int) []byte {
	b := make([]byte, min+g.rng.Intn(max-min+1))
	for i := range b {
		b[i] = byte(g.rng.Intn(0x40)) // never spells "_FVH"
	}
	return b
}

func (g *synthGen) leaf() *sSec {
	if g.rng.Intn(3) == 0 {
		return &sSec{kind: secPE32, data: g.blob(8, 80)}
	}
	return &sSec{kind: secRaw, data: g.blob(4, 60)}
}

// secs: the sections of a file (secDepth 0) or the content of an encapsulation section.
// depth: nesting so far (compressed sections and volumes alike).
// ui: may place the file's single user-interface section here.
func (g *synthGen) secs(depth, secDepth int, ui bool) []*sSec {
	var out []*sSec
	n := 1 + g.rng.Intn(3)
	for i := 0; i < n && g.budget > 0; i++ {
		g.budget--
		switch k := g.rng.Intn(10); {
		case k < 3 && depth < 3:
			kind := secCompressedZ
			if g.rng.Intn(4) == 0 {
				kind = secCompressedL
			}
			out = append(out, &sSec{kind: kind, kids: g.secs(depth+1, secDepth+1, ui && secDepth == 0)})
			ui = false
		case k == 3 && depth < 3:
			out = append(out, &sSec{kind: secVolumeImage, fv: g.fv(depth + 1)})
		case k == 4 && g.rng.Intn(2) == 0:
			if g.rng.Intn(2) == 0 {
				out = append(out, &sSec{kind: secGUIDPlain, kids: []*sSec{g.leaf()}})
			} else {
				out = append(out, &sSec{kind: secGUIDUnknown, data: g.blob(8, 40)})
			}
		case k == 5 && ui:
			g.uiSeq++
			out = append(out, &sSec{kind: secUI, name: fmt.Sprintf("Mod%d", g.uiSeq)})
			ui = false
		default:
			out = append(out, g.leaf())
		}
	}
	if len(out) == 0 {
		out = append(out, g.leaf())
	}
	return out
}

func (g *synthGen) file(depth int) *sFile {
	g.budget--
	switch k := g.rng.Intn(10); {
	case k < 2:
		return &sFile{guid: padGUID, typ: 0xF0, raw: bytesOf(0xFF, 8*g.rng.Intn(6))}
	case k == 2:
		return &sFile{guid: g.guid(), typ: 0x01, raw: g.blob(8, 64)} // RAW: no sections
	}
	typ := []byte{0x02, 0x06, 0x07, 0x09, 0x0B}[g.rng.Intn(5)]
	return &sFile{guid: g.guid(), typ: typ, secs: g.secs(depth, 0, true)}
}

func (g *synthGen) fv(depth int) *sFV {
	g.budget--
	v := &sFV{}
	switch k := g.rng.Intn(8); {
	case k == 0: // no extended header: the volume has no name
	case k == 1 && depth == 0:
		z := sGUID{}
		v.name = &z // the zero GUID: "no name" for the walker
	default:
		n := g.guid()
		v.name = &n
	}
	n := 1 + g.rng.Intn(4)
	for i := 0; i < n && g.budget > 0; i++ {
		v.files = append(v.files, g.file(depth))
	}
	if depth == 0 || g.rng.Intn(2) == 0 {
		v.free = 0x40 + 8*g.rng.Intn(16)
	}
	return v
}

func bytesOf(c byte, n int) []byte {
	b := make([]byte, n)
	for i := range b {
		b[i] = c
	}
	return b
}

// compressedVolume: file(guid) { compressed { volume-image { volume(name){ files } } } }
func (g *synthGen) compressedVolume(fileGUID, name sGUID, inner []*sFile, nested bool) *sFile {
	n := name
	sec := &sSec{kind: secCompressedZ, kids: []*sSec{{kind: secVolumeImage, fv: &sFV{name: &n, files: inner}}}}
	if nested { // compressed inside compressed, followed by a sibling in the outer compressed area
		sec = &sSec{kind: secCompressedZ, kids: []*sSec{sec, {kind: secVolumeImage, fv: &sFV{name: &n, files: []*sFile{g.plain(fileGUID)}}}}}
	}
	return &sFile{guid: fileGUID, typ: 0x0B, secs: []*sSec{sec}}
}

func (g *synthGen) plain(guid sGUID) *sFile {
	return &sFile{guid: guid, typ: 0x07, secs: []*sSec{g.leaf()}}
}

func (g *synthGen) pad() *sFile {
	return &sFile{guid: padGUID, typ: 0xF0, raw: bytesOf(0xFF, 8*g.rng.Intn(4))}
}

// directed: names seen below a compressed section occur again later, outside of one
// (same volume, next volume; files, pad files and volume names).
func (g *synthGen) directed(variant int) []*sFV {
	a, b, x, y := g.pool[0], g.pool[1], g.pool[2], g.pool[3]
	inner := []*sFile{g.plain(a), g.pad(), g.plain(b), g.plain(a)}
	if variant%2 == 1 {
		inner = append([]*sFile{g.pad()}, inner...)
	}
	v1 := &sFV{name: &x, free: 0x40, files: []*sFile{
		g.plain(b),
		g.compressedVolume(a, y, inner, variant%4 >= 2),
		g.plain(a), g.pad(), g.plain(b),
	}}
	v2 := &sFV{name: &y, free: 0x48, files: []*sFile{g.pad(), g.plain(a), g.plain(b), g.plain(a)}}
	out := []*sFV{v1, v2}
	if variant%3 == 0 {
		v3 := &sFV{name: &x, free: 0x40, files: []*sFile{g.compressedVolume(b, x, []*sFile{g.plain(b)}, false), g.plain(b)}}
		out = append(out, v3)
	}
	return out
}

// outline: the structure in one line, names as short hex prefixes of the GUIDs
func (s *sSec) outline() string {
	kids := func() string {
		o := ""
		for _, k := range s.kids {
			o += k.outline() + " "
		}
		return o
	}
	switch s.kind {
	case secCompressedZ, secCompressedL:
		return "compressed{ " + kids() + "}"
	case secGUIDPlain:
		return "guided-unprocessed"
	case secGUIDUnknown:
		return "guided-undecodable"
	case secVolumeImage:
		return "volume-image{ " + s.fv.outline() + " }"
	case secUI:
		return "ui(" + s.name + ")"
	case secPE32:
		return "pe32"
	}
	return "raw"
}

func (f *sFile) outline() string {
	if f.guid == padGUID {
		return "pad"
	}
	o := fmt.Sprintf("file:%x", f.guid[:2])
	if f.secs == nil {
		return o + "(raw)"
	}
	o += "[ "
	for _, s := range f.secs {
		o += s.outline() + " "
	}
	return o + "]"
}

func (v *sFV) outline() string {
	o := "FV:-"
	if v.name != nil {
		o = fmt.Sprintf("FV:%x", v.name[:2])
	}
	o += "{ "
	for _, f := range v.files {
		o += f.outline() + " "
	}
	return o + "}"
}

// synthImage returns a BIOS-region image (size a multiple of 4 KiB), a description and an
// outline of its structure.
func synthImage(rng *rand.Rand, idx int) ([]byte, string, string) {
	g := &synthGen{rng: rng, budget: 40 + rng.Intn(60)}
	for i := 0; i < 4+rng.Intn(3); i++ {
		var x sGUID
		for j := range x {
			x[j] = byte(1 + rng.Intn(0xFE))
		}
		g.pool = append(g.pool, x)
	}
	var fvs []*sFV
	descr := "random"
	if idx%3 == 0 {
		fvs = g.directed(idx / 3)
		descr = fmt.Sprintf("directed/%d", idx/3)
	} else {
		for i := 0; i < 1+rng.Intn(3); i++ {
			fvs = append(fvs, g.fv(0))
		}
	}
	var img []byte
	outline := ""
	for _, v := range fvs {
		outline += v.outline() + " "
		if rng.Intn(2) == 0 {
			// padding in front of / between the volumes: erased flash or data that is no
			// volume; none: the volume starts where its neighbour ends
			c := byte(0xFF)
			if rng.Intn(2) == 0 {
				c = byte(rng.Intn(0x40))
			}
			img = append(img, bytesOf(c, 8*(1+rng.Intn(32)))...)
		}
		img = append(img, v.bytes()...)
	}
	img = align(img, 0x1000, 0xFF)
	return img, descr, outline
}
