package main

// Walker, selectors and data sources on one image: observations + independent oracle.

import (
	"bytes"
	"context"
	"encoding/binary"
	"fmt"
	"math"
	"sort"
	"strings"
	"time"

	"verifharness/gal"

	"github.com/9elements/converged-security-suite/v2/pkg/bootflow/actions/tpmactions"
	"github.com/9elements/converged-security-suite/v2/pkg/bootflow/datasources"
	"github.com/9elements/converged-security-suite/v2/pkg/bootflow/datasources/inteldata"
	"github.com/9elements/converged-security-suite/v2/pkg/bootflow/steps/intelsteps"
	"github.com/9elements/converged-security-suite/v2/pkg/bootflow/systemartifacts/biosimage"
	"github.com/9elements/converged-security-suite/v2/pkg/bootflow/systemartifacts/biosimage/accessor/intelbiosimage"
	"github.com/9elements/converged-security-suite/v2/pkg/bootflow/systemartifacts/txtpublic"
	"github.com/9elements/converged-security-suite/v2/pkg/bootflow/types"
	"github.com/9elements/converged-security-suite/v2/pkg/pcd"
	"github.com/9elements/converged-security-suite/v2/pkg/registers"
	"github.com/9elements/converged-security-suite/v2/pkg/uefi"
	"github.com/9elements/converged-security-suite/v2/pkg/uefi/ffs"
	pkgbytes "github.com/linuxboot/fiano/pkg/bytes"
	fianoGUID "github.com/linuxboot/fiano/pkg/guid"
	"github.com/linuxboot/fiano/pkg/intel/metadata/fit"
	fianoUEFI "github.com/linuxboot/fiano/pkg/uefi"
)

const (
	findD23    = "C14-D23-walker-range"
	siteWalker = "pkg/uefi/ffs/node_get_by.go:NodeVisitor.Visit"
)

type image struct {
	name     string
	data     []byte
	heavy    bool // large image: sample selectors instead of trying all
	pristine bool
	synth    bool // built by synth.go
	outline  string
	// built by bpm.go: the manifests must parse and PCR0_DATA must be measurable
	manifests bool
	onlyIntel bool // skip the walker/selectors part (same FFS layout as the bundled image)
	// sessions.go: images that hold the same volumes at other offsets form a family
	family      string
	sessionOnly bool // parsed and indexed for the sessions only
}

type visited struct {
	f fianoUEFI.Firmware
	r pkgbytes.Range
}

func rangeLit(off, length uint64) string { return gal.Pair(gal.U(off), gal.U(length)) }

func rangesLit(rs []pkgbytes.Range) string {
	s := make([]string, len(rs))
	for i, r := range rs {
		s[i] = rangeLit(r.Offset, r.Length)
	}
	return gal.List(s)
}

func obsRanges(rs []pkgbytes.Range, err error, panicked bool) string {
	if panicked {
		return "OPanic"
	}
	if err != nil {
		return "OErr"
	}
	return "(OOk " + rangesLit(rs) + ")"
}

// normalise: sorted, overlapping/adjacent merged, empty dropped (set of bytes).
func normalise(rs []pkgbytes.Range) []pkgbytes.Range {
	var c []pkgbytes.Range
	for _, r := range rs {
		if r.Length > 0 {
			c = append(c, r)
		}
	}
	sort.Slice(c, func(i, j int) bool { return c[i].Offset < c[j].Offset })
	var out []pkgbytes.Range
	for _, r := range c {
		if n := len(out); n > 0 && out[n-1].Offset+out[n-1].Length >= r.Offset {
			if e := r.Offset + r.Length; e > out[n-1].Offset+out[n-1].Length {
				out[n-1].Length = e - out[n-1].Offset
			}
			continue
		}
		out = append(out, r)
	}
	return out
}

func sameRanges(a, b []pkgbytes.Range) bool {
	if len(a) != len(b) {
		return false
	}
	for i := range a {
		if a[i] != b[i] {
			return false
		}
	}
	return true
}

type run struct {
	ctx  *gal.Ctx
	im   image
	fw   *uefi.UEFI
	gt   *gtVisitor
	size uint64
	// accumulated per image
	d23   []string
	fails []string
	// delivered.go
	fb         map[fianoUEFI.Firmware]pkgbytes.Range // what the walker (fallback on) reports per node
	srcCases   [3]int
	srcSingles int
	// volumes.go
	volVis []visited // what the walker (no fallback) reports, in visit order
}

func (r *run) physOf(off uint64) uint64 { return off + fourGiB - r.size }

// resolve a reference independently: address = 4 GiB - size + offset
func (r *run) resolveOwn(ref *types.Reference) ([]pkgbytes.Range, bool) {
	var out []pkgbytes.Range
	for _, x := range ref.Ranges {
		if ref.AddressMapper == nil {
			out = append(out, x)
			continue
		}
		if _, ok := ref.AddressMapper.(biosimage.PhysMemMapper); !ok {
			return nil, false
		}
		base := fourGiB - r.size
		if x.Offset < base || x.Offset+x.Length > fourGiB {
			return nil, false
		}
		out = append(out, pkgbytes.Range{Offset: x.Offset - base, Length: x.Length})
	}
	return out, true
}

func parseWithTimeout(data []byte) (fw *uefi.UEFI, err error) {
	type res struct {
		fw  *uefi.UEFI
		err error
	}
	ch := make(chan res, 1)
	go func() {
		var o res
		if p, msg := gal.Recover(func() { o.fw, o.err = uefi.ParseUEFIFirmwareBytes(data) }); p {
			o.err = fmt.Errorf("panic: %s", msg)
		}
		ch <- o
	}()
	select {
	case o := <-ch:
		return o.fw, o.err
	case <-time.After(30 * time.Second):
		return nil, fmt.Errorf("parse timed out")
	}
}

// exactly the bytes of n? (strict on the location when the node aliases the image)
func (r *run) exact(n *gnode, rg pkgbytes.Range) bool {
	if rg.Length != n.blen() {
		return false
	}
	if n.located {
		return rg.Offset == n.trueOff
	}
	if rg.Offset > r.size || rg.Offset+rg.Length > r.size || rg.Offset+rg.Length < rg.Offset {
		return false
	}
	return bytes.Equal(r.im.data[rg.Offset:rg.Offset+rg.Length], n.f.Buf())
}

func (r *run) nodeDescr(n *gnode, rg pkgbytes.Range) string {
	t := "decompressed"
	if n.located {
		t = fmt.Sprintf("%#x", n.trueOff)
	}
	return fmt.Sprintf("#%d %s guid=%s reported=[%#x+%#x] true_off=%s len=%#x", n.idx, n.kind, n.guid, rg.Offset, rg.Length, t, n.blen())
}

// walkAll runs NodeVisitor with an always-continue callback.
func walkAll(root fianoUEFI.Firmware, fallback bool, stop map[fianoUEFI.Firmware]bool) (out []visited, err error, panicked bool, msg string) {
	panicked, msg = gal.Recover(func() {
		err = (&ffs.NodeVisitor{FallbackToContainerRange: fallback, Callback: func(n ffs.Node) (bool, error) {
			out = append(out, visited{n.Firmware, n.Range})
			return !stop[n.Firmware], nil
		}}).Run(root)
	})
	return
}

func (r *run) treeLit(n *gnode, ids map[string]int, stop map[fianoUEFI.Firmware]bool) string {
	id := 0
	if n.name != "" {
		if _, ok := ids[n.name]; !ok {
			ids[n.name] = len(ids) + 1
		}
		id = ids[n.name]
	}
	off := uint64(math.MaxUint64)
	if n.located {
		off = n.trueOff
	}
	ks := make([]string, len(n.kids))
	for i, k := range n.kids {
		ks[i] = r.treeLit(k, ids, stop)
	}
	return fmt.Sprintf("(T %d %s %s %s %s %s)", id, gal.Bool(n.procSec), gal.Bool(stop[n.f]), gal.U(off), gal.U(n.blen()), gal.List(ks))
}

func rmLit(rm map[string]pkgbytes.Ranges, ids map[string]int) string {
	keys := make([]string, 0, len(rm))
	for k := range rm {
		keys = append(keys, k)
	}
	sort.Strings(keys)
	var items []string
	for _, k := range keys {
		if _, ok := ids[k]; !ok {
			continue // names no node can have (sections, free space ...) are never looked up
		}
		items = append(items, gal.Pair(fmt.Sprint(ids[k]), rangesLit(rm[k])))
	}
	return gal.List(items)
}

// walker: correspondence cases + per-node oracle
func (r *run) walker(addOffset int64, nStopVariants int) (reported []visited) {
	ctx := r.ctx
	rootNode := &ffs.Node{Firmware: r.fw.Firmware, AddOffset: addOffset}
	for _, fb := range []bool{false, true} {
		for variant := 0; variant <= nStopVariants; variant++ {
			stop := map[fianoUEFI.Firmware]bool{}
			if variant > 0 {
				p := []float64{0.02, 0.1, 0.3}[(variant-1)%3]
				for _, n := range r.gt.all {
					if ctx.Rng.Float64() < p {
						stop[n.f] = true
					}
				}
			}
			var root fianoUEFI.Firmware = rootNode
			if addOffset == 0 && variant%2 == 1 {
				root = r.fw // the way the data sources call it (a *uefi.UEFI, not a *ffs.Node)
			}
			vis, err, panicked, msg := walkAll(root, fb, stop)
			ids := map[string]int{}
			tl := r.treeLit(r.gt.all[0], ids, stop)
			rm := rootNode.NameToRangesMap()
			rs := make([]pkgbytes.Range, len(vis))
			for i, v := range vis {
				rs[i] = v.r
			}
			lit := fmt.Sprintf("CWalk %s %s %s %s", tl, rmLit(rm, ids), gal.Bool(fb), obsRanges(rs, err, panicked))
			idx := ctx.Add("walk", lit, map[string]interface{}{"op": "NodeVisitor.Run", "image": r.im.name, "fallback": fb,
				"add_offset": addOffset, "stop_variant": variant, "nodes": len(r.gt.all), "reported": len(vis)}, true)
			done := r.judgeWalk(idx, vis, err, panicked, msg, fb, addOffset, stop, map[string]interface{}{"stop_variant": variant})
			if done && variant == 0 && !fb && addOffset == 0 {
				reported = vis
			}
		}
	}
	return
}

// judgeWalk: the oracle of one NodeVisitor.Run that was started at the root of r's image
// (case idx). stop: the nodes at which the callback answered "do not continue". extra goes into
// the failing input. Returns whether the run completed without stops and visited every node.
func (r *run) judgeWalk(idx int, vis []visited, err error, panicked bool, msg string, fb bool, addOffset int64,
	stop map[fianoUEFI.Firmware]bool, extra map[string]interface{}) (complete bool) {
	ctx := r.ctx
	noStops := len(stop) == 0
	with := func(m map[string]interface{}) map[string]interface{} {
		for k, v := range extra {
			m[k] = v
		}
		return m
	}
	past := ""
	if h, ok := extra["history"]; ok {
		past = fmt.Sprintf("; this was Run #%v of ONE NodeVisitor object, earlier Runs: %v", extra["run"], h)
	}
	if panicked && addOffset < 0 {
		// rows with a negative adjusted offset are dropped by NameToRangesMap (documented TODO),
		// the by-count lookup then runs off the end; Node.AddOffset has no user in the suite
		// and is not part of the property: correspondence only (the model says Panic too)
		ctx.Count("negative-add-offset-panics")
		return false
	}
	if panicked || err != nil {
		ctx.OracleFail(idx, fmt.Sprintf("NodeVisitor.Run failed on a parseable image (%s): err=%v panic=%s%s", r.im.name, err, msg, past), siteWalker,
			with(map[string]interface{}{"image": r.im.name, "fallback": fb, "add_offset": addOffset}))
		return false
	}
	if noStops {
		// every node is visited, in fiano's own order
		if len(vis) != len(r.gt.all) {
			ctx.OracleFail(idx, fmt.Sprintf("walker visited %d nodes, the tree has %d", len(vis), len(r.gt.all)), siteWalker,
				with(map[string]interface{}{"image": r.im.name, "fallback": fb, "add_offset": addOffset}))
			return false
		}
		ctx.OracleOK()
		complete = true
	} else {
		// the callback's answer "do not continue" prunes exactly the subtree below that node
		var want []*gnode
		for _, n := range r.gt.all {
			pruned := false
			for a := n.parent; a != nil; a = a.parent {
				pruned = pruned || stop[a.f]
			}
			if !pruned {
				want = append(want, n)
			}
		}
		same := len(want) == len(vis)
		for i := 0; same && i < len(vis); i++ {
			same = vis[i].f == want[i].f
		}
		if same {
			ctx.OracleOK()
		} else {
			first := -1
			for i := 0; i < len(vis) && i < len(want); i++ {
				if vis[i].f != want[i].f {
					first = want[i].idx
					break
				}
			}
			if first < 0 && len(vis) < len(want) {
				first = want[len(vis)].idx
			}
			var stops []int
			for _, n := range r.gt.all {
				if stop[n.f] {
					stops = append(stops, n.idx)
				}
			}
			ctx.OracleFail(idx, fmt.Sprintf("callback answered 'stop' at %d node(s): it was then invoked for %d nodes, the tree without the subtrees below those nodes has %d (first difference at node #%d)%s", len(stops), len(vis), len(want), first, past), siteWalker,
				with(map[string]interface{}{"image": r.im.name, "fallback": fb, "stop_at_nodes": stops}))
		}
	}
	var bad, known []string
	for i, v := range vis {
		n := r.gt.byFW[v.f]
		if n == nil || (noStops && n != r.gt.all[i]) {
			bad = append(bad, fmt.Sprintf("visit #%d is not node #%d of the tree", i, i))
			continue
		}
		rg := v.r
		ok := false
		switch {
		case rg.Offset == math.MaxUint64:
			// unknown is always allowed by the property; but the walker exists to
			// locate volumes and their files: outside any section they must be known
			ok = !(n.name != "" && n.located && !n.underSec && addOffset >= 0)
			if !ok {
				bad = append(bad, "offset unknown for a top-level object: "+r.nodeDescr(n, rg))
				continue
			}
		default:
			adj := rg
			adj.Offset -= uint64(addOffset)
			if r.exact(n, adj) {
				ok = true
			} else if fb {
				for a := n.parent; a != nil && !ok; a = a.parent {
					ok = r.exact(a, adj)
				}
			}
		}
		if ok {
			ctx.OracleOK()
			continue
		}
		a := n
		if fb {
			a = n.anchor()
		}
		if a.d23() {
			known = append(known, r.nodeDescr(n, rg))
		} else {
			bad = append(bad, r.nodeDescr(n, rg))
		}
	}
	in := with(map[string]interface{}{"image": r.im.name, "fallback": fb, "add_offset": addOffset})
	if r.im.synth {
		in["image_outline"] = r.im.outline
		if len(r.im.data) <= 0x3000 {
			in["image_hex"] = fmt.Sprintf("%x", r.im.data)
		}
	}
	if len(known) > 0 {
		in["nodes"] = head(known, 6)
		ctx.OracleFailKnown(idx, findD23, fmt.Sprintf("%d visited node(s) below a non-processed section get a Range that does not address their bytes; first: %s", len(known), known[0]), siteWalker, in)
		r.d23 = append(r.d23, known...)
	}
	if len(bad) > 0 {
		in["nodes"] = head(bad, 6)
		what := fmt.Sprintf("%d visited node(s) whose Range is neither unknown nor the node's bytes; first: %s", len(bad), bad[0])
		if addOffset != 0 {
			what += fmt.Sprintf(" (Node.AddOffset=%#x: reported offsets are expected %#x above the true ones)", addOffset, addOffset)
		}
		ctx.OracleFail(idx, what+past, siteWalker, in)
	}
	return complete
}

func head(s []string, n int) []string {
	if len(s) > n {
		return s[:n]
	}
	return s
}

func (r *run) newState() (*types.State, *biosimage.BIOSImage) {
	st := types.NewState()
	bi := biosimage.New(r.im.data)
	bi.CacheParsed = r.fw // the parse under test is the one whose nodes the ground truth indexes
	st.IncludeSystemArtifact(bi)
	return st, bi
}

// expected (fallback semantics, from the ground truth) for a set of nodes
func (r *run) expectedFB(ns []*gnode) (rs []pkgbytes.Range, unknown bool, d23 bool) {
	for _, n := range ns {
		a := n.anchor()
		if a == nil || !a.located {
			unknown = true
			continue
		}
		if a.d23() {
			d23 = true
		}
		rs = append(rs, pkgbytes.Range{Offset: a.trueOff, Length: a.blen()})
	}
	return
}

// dataRanges: resolved ranges of a one-reference Data pointing into the BIOS image
func (r *run) dataRanges(d *types.Data, bi *biosimage.BIOSImage) ([]pkgbytes.Range, string) {
	if d == nil {
		return nil, "nil data"
	}
	var out []pkgbytes.Range
	for i := range d.References {
		ref := &d.References[i]
		if ref.Artifact != types.SystemArtifact(bi) {
			return nil, "reference to another artifact"
		}
		own, ok := r.resolveOwn(ref)
		if !ok {
			return nil, fmt.Sprintf("range outside [4GiB-size, 4GiB): %v", ref.Ranges)
		}
		kept := append([]pkgbytes.Range{}, ref.Ranges...)
		theirs, err := ref.ResolvedRanges()
		if err != nil || !sameRanges([]pkgbytes.Range(theirs), own) {
			return nil, fmt.Sprintf("ResolvedRanges()=%v err=%v, by address=4GiB-size+offset: %v", theirs, err, own)
		}
		// resolving is a question, not an operation on the reference: it still holds the
		// addresses it held, and asking again gives the same offsets
		again, err := ref.ResolvedRanges()
		if !sameRanges(ref.Ranges, kept) || err != nil || !sameRanges([]pkgbytes.Range(again), own) {
			return nil, fmt.Sprintf("after ResolvedRanges() the reference holds %v (it held %v); a second ResolvedRanges() = %v err=%v, the first = %v", ref.Ranges, kept, again, err, own)
		}
		// the bytes it delivers are the image bytes at the positions it names (delivered.go)
		if why := deliveredWhy(r.ctx, r.im.name, r.im.data, ref); why != "" {
			return own, "DELIVERED BYTES: " + why
		}
		out = append(out, own...)
	}
	if len(d.References) > 1 {
		if why := dataDeliveredWhy(r.im.data, d, bi); why != "" {
			return out, "DELIVERED BYTES: " + why
		}
	}
	return out, ""
}

func (r *run) checkSelector(what, site string, input map[string]interface{}, matching []*gnode, d *types.Data, err error, bi *biosimage.BIOSImage, emptyIsErr bool) {
	ctx := r.ctx
	input["image"] = r.im.name
	switch {
	case strings.HasPrefix(what, "UEFIGUIDFirst") && input["guids"] == nil:
		r.sourceCase(1, what, input, matching, d, err)
	case strings.HasPrefix(what, "UEFIFiles"):
		r.sourceCase(2, what, input, matching, d, err)
	}
	exp, unknown, d23 := r.expectedFB(matching)
	if unknown || (emptyIsErr && len(matching) == 0) {
		// some matching object cannot be located: the data source must not invent a place
		if err == nil && d != nil && len(d.References) > 0 {
			got, why := r.dataRanges(d, bi)
			if strings.HasPrefix(why, "DELIVERED BYTES") {
				ctx.OracleFail(-1, what+": "+why, site+" -> "+siteRawBytes, input)
				return
			}
			if !sameRanges(normalise(got), normalise(exp)) {
				ctx.OracleFail(-1, what+": objects with unknown location were given ranges: "+fmt.Sprint(got), site, input)
				return
			}
		}
		ctx.OracleOK()
		return
	}
	if err != nil {
		ctx.OracleFail(-1, fmt.Sprintf("%s: error %v although every matching object has a location", what, err), site, input)
		return
	}
	got, why := r.dataRanges(d, bi)
	if why == "" && sameRanges(normalise(got), normalise(exp)) {
		ctx.OracleOK()
		ctx.Count("oracle-ok:" + what)
		return
	}
	msg := fmt.Sprintf("%s: resolved ranges %s are not the bytes of the selected objects %s %s", what, fmtRanges(normalise(got)), fmtRanges(normalise(exp)), why)
	if strings.HasPrefix(why, "DELIVERED BYTES") {
		// the ranges may be right or not: what is delivered is not what they name
		ctx.OracleFail(-1, what+": "+why, site+" -> "+siteRawBytes, input)
		return
	}
	if d23 {
		ctx.OracleFailKnown(-1, findD23, msg, site, input)
		r.d23 = append(r.d23, msg)
		return
	}
	ctx.OracleFail(-1, msg, site, input)
}

func fmtRanges(rs []pkgbytes.Range) string {
	s := "["
	for i, r := range rs {
		if i > 0 {
			s += " "
		}
		if i >= 6 {
			s += "..."
			break
		}
		s += fmt.Sprintf("%#x+%#x", r.Offset, r.Length)
	}
	return s + "]"
}

func (r *run) pick(n, max int) []int {
	p := r.ctx.Rng.Perm(n)
	if len(p) > max {
		p = p[:max]
	}
	sort.Ints(p)
	return p
}

// selectors of ffs.Node and the data sources built on the walker
func (r *run) selectors(reported []visited) {
	ctx := r.ctx
	bg := context.Background()
	all := r.gt.all
	lim := func(q, t int) int {
		if r.im.heavy {
			return ctx.Scale(q, t)
		}
		return 1 << 30
	}

	// ---- GetByGUID / UEFIGUIDFirst
	var guids []string
	byGUID := map[string][]*gnode{}
	for _, n := range all {
		if n.isFile || n.isFV {
			if _, ok := byGUID[n.guid]; !ok {
				guids = append(guids, n.guid)
			}
			byGUID[n.guid] = append(byGUID[n.guid], n)
		}
	}
	sort.Strings(guids)
	for _, gi := range r.pick(len(guids), lim(24, 400)) {
		gs := guids[gi]
		g, err := fianoGUID.Parse(gs)
		if err != nil {
			continue
		}
		nodes, err := r.fw.GetByGUID(*g)
		in := map[string]interface{}{"image": r.im.name, "guid": gs}
		if err != nil || len(nodes) != len(byGUID[gs]) {
			ctx.OracleFail(-1, fmt.Sprintf("GetByGUID returned %d node(s), err=%v; the tree has %d", len(nodes), err, len(byGUID[gs])), "pkg/uefi/ffs/node_get_by_guid.go", in)
		} else {
			var bad, known []string
			for i, nd := range nodes {
				n := byGUID[gs][i]
				if r.gt.byFW[nd.Firmware] != n {
					bad = append(bad, "wrong node")
				} else if nd.Offset != math.MaxUint64 && !r.exact(n, nd.Range) {
					if n.d23() {
						known = append(known, r.nodeDescr(n, nd.Range))
					} else {
						bad = append(bad, r.nodeDescr(n, nd.Range))
					}
				}
			}
			switch {
			case len(bad) > 0:
				ctx.OracleFail(-1, "GetByGUID: "+bad[0], "pkg/uefi/ffs/node_get_by_guid.go", in)
			case len(known) > 0:
				ctx.OracleFailKnown(-1, findD23, "GetByGUID: "+known[0], "pkg/uefi/ffs/node_get_by_guid.go", in)
			default:
				ctx.OracleOK()
			}
		}
		st, bi := r.newState()
		var d *types.Data
		var derr error
		p, msg := gal.Recover(func() { d, derr = datasources.UEFIGUIDFirst{*g}.Data(bg, st) })
		if p {
			ctx.OracleFail(-1, "UEFIGUIDFirst panicked: "+msg, "pkg/bootflow/datasources/uefi_guid.go", in)
			continue
		}
		r.checkSelector("UEFIGUIDFirst", "pkg/bootflow/datasources/uefi_guid.go", in, byGUID[gs], d, derr, bi, true)
	}

	// UEFIGUIDFirst with several GUIDs: the first one that selects something wins
	if len(guids) >= 2 {
		absent, _ := fianoGUID.Parse("DEADBEEF-0000-4000-8000-00000000C014")
		for i := 0; i < 4; i++ {
			a, b := guids[ctx.Rng.Intn(len(guids))], guids[ctx.Rng.Intn(len(guids))]
			ga, e1 := fianoGUID.Parse(a)
			gb, e2 := fianoGUID.Parse(b)
			if e1 != nil || e2 != nil {
				continue
			}
			ds := datasources.UEFIGUIDFirst{*ga, *gb}
			want := byGUID[a]
			if i%2 == 1 {
				ds = datasources.UEFIGUIDFirst{*absent, *gb}
				want = byGUID[b]
			}
			if _, unknown, _ := r.expectedFB(byGUID[a]); unknown && i%2 == 0 {
				continue // the first GUID fails: covered by the single-GUID checks
			}
			st, bi := r.newState()
			var d *types.Data
			var derr error
			in := map[string]interface{}{"guids": ds.String()}
			if p, msg := gal.Recover(func() { d, derr = ds.Data(bg, st) }); p {
				ctx.OracleFail(-1, "UEFIGUIDFirst panicked: "+msg, "pkg/bootflow/datasources/uefi_guid.go", in)
				continue
			}
			r.checkSelector("UEFIGUIDFirst", "pkg/bootflow/datasources/uefi_guid.go", in, want, d, derr, bi, true)
		}
	}

	// ---- files by type / by name
	byType := map[fianoUEFI.FVFileType][]*gnode{}
	var typesSeen []int
	byName := map[string][]*gnode{}
	var names []string
	for _, n := range all {
		if !n.isFile {
			continue
		}
		t := n.f.(*fianoUEFI.File).Header.Type
		if _, ok := byType[t]; !ok {
			typesSeen = append(typesSeen, int(t))
		}
		byType[t] = append(byType[t], n)
		if nm, ok := moduleName(n); ok {
			if _, ok := byName[nm]; !ok {
				names = append(names, nm)
			}
			byName[nm] = append(byName[nm], n)
		}
	}
	sort.Ints(typesSeen)
	sort.Strings(names)
	for _, t := range typesSeen {
		ft := fianoUEFI.FVFileType(t)
		st, bi := r.newState()
		var d *types.Data
		var derr error
		in := map[string]interface{}{"file_type": ft.String()}
		if p, msg := gal.Recover(func() { d, derr = datasources.UEFIFilesByType{ft}.Data(bg, st) }); p {
			ctx.OracleFail(-1, "UEFIFilesByType panicked: "+msg, "pkg/bootflow/datasources/uefi_files.go", in)
			continue
		}
		r.checkSelector("UEFIFilesByType", "pkg/bootflow/datasources/uefi_files.go", in, byType[ft], d, derr, bi, false)
	}
	// a type nobody has: an empty Data, no error
	{
		st, _ := r.newState()
		d, derr := datasources.UEFIFilesByType{fianoUEFI.FVFileType(0x7e)}.Data(bg, st)
		if derr != nil || d == nil || len(d.References) != 0 {
			ctx.OracleFail(-1, fmt.Sprintf("UEFIFilesByType(absent type): %v %v", d, derr), "pkg/bootflow/datasources/uefi_files.go", map[string]interface{}{"image": r.im.name})
		} else {
			ctx.OracleOK()
		}
	}
	nameLimit := lim(6, 80)
	if r.im.pristine {
		nameLimit = 1 << 30
	}
	for _, ni := range r.pick(len(names), nameLimit) {
		nm := names[ni]
		st, bi := r.newState()
		var d *types.Data
		var derr error
		in := map[string]interface{}{"file_name": nm}
		if p, msg := gal.Recover(func() { d, derr = datasources.UEFIFilesByName{nm}.Data(bg, st) }); p {
			ctx.OracleFail(-1, "UEFIFilesByName panicked: "+msg, "pkg/bootflow/datasources/uefi_files_by_name.go", in)
			continue
		}
		r.checkSelector("UEFIFilesByName", "pkg/bootflow/datasources/uefi_files_by_name.go", in, byName[nm], d, derr, bi, false)
	}

	// ---- GetByRegionType(BIOS)
	{
		var bios []*gnode
		for _, n := range all {
			if _, ok := n.f.(*fianoUEFI.BIOSRegion); ok {
				bios = append(bios, n)
			}
		}
		nodes, err := r.fw.GetByRegionType(fianoUEFI.RegionTypeBIOS)
		ok := err == nil && len(nodes) == len(bios)
		for i := 0; ok && i < len(nodes); i++ {
			ok = r.gt.byFW[nodes[i].Firmware] == bios[i] && (nodes[i].Offset == math.MaxUint64 || r.exact(bios[i], nodes[i].Range))
		}
		if ok {
			ctx.OracleOK()
		} else {
			ctx.OracleFail(-1, fmt.Sprintf("GetByRegionType(BIOS): %d node(s) err=%v, tree has %d / range wrong", len(nodes), err, len(bios)), "pkg/uefi/ffs/node_get_by_region_type.go", map[string]interface{}{"image": r.im.name})
		}
	}

	// ---- GetByRange + VolumeOf
	var topFVs []*gnode
	for _, n := range all {
		if n.isFV && n.located && !n.underSec {
			topFVs = append(topFVs, n)
		}
	}
	// the volume pick only ever takes volumes; to keep the cases small the node list holds
	// every volume the walker reported (known offset or not) and, per query, the other
	// nodes with a known offset that cover the first byte of the query
	nodesFor := func(q pkgbytes.Range) string {
		var nodesLit []string
		for _, v := range reported {
			n := r.gt.byFW[v.f]
			isFV := n != nil && n.isFV
			if !isFV && !(v.r.Offset != math.MaxUint64 && v.r.Offset <= q.Offset && q.Offset-v.r.Offset < v.r.Length) {
				continue
			}
			nodesLit = append(nodesLit, gal.Pair(gal.Bool(isFV), rangeLit(v.r.Offset, v.r.Length)))
		}
		return gal.List(nodesLit)
	}
	type q struct {
		rg   pkgbytes.Range
		in   *gnode // top-level volume that contains it, nil if none
		kind string
	}
	var qs []q
	for _, fi := range r.pick(len(topFVs), lim(6, 40)) {
		fv := topFVs[fi]
		l := fv.blen()
		o := uint64(ctx.Rng.Int63n(int64(l)))
		ln := 1 + uint64(ctx.Rng.Int63n(int64(l-o)))
		qs = append(qs, q{pkgbytes.Range{Offset: fv.trueOff + o, Length: ln}, fv, "inside"})
		qs = append(qs, q{pkgbytes.Range{Offset: fv.trueOff, Length: 1}, fv, "first-byte"})
		qs = append(qs, q{pkgbytes.Range{Offset: fv.trueOff + l - 1, Length: 1}, fv, "last-byte"})
		qs = append(qs, q{pkgbytes.Range{Offset: fv.trueOff, Length: l}, fv, "whole"})
	}
	qs = append(qs, q{pkgbytes.Range{Offset: 0, Length: 0}, nil, "empty"})
	qs = append(qs, q{pkgbytes.Range{Offset: 0, Length: r.size}, nil, "whole-image"})
	for _, n := range all {
		if _, ok := n.f.(*fianoUEFI.BIOSPadding); ok && n.located && n.blen() > 0 && !n.underSec {
			qs = append(qs, q{pkgbytes.Range{Offset: n.trueOff + n.blen()/2, Length: 1}, nil, "padding"})
			break
		}
	}
	for _, x := range qs {
		in := map[string]interface{}{"image": r.im.name, "range": []uint64{x.rg.Offset, x.rg.Length}, "kind": x.kind}
		// GetByRange: what it returns must at least intersect the range and include the containing volume
		nodes, err := r.fw.GetByRange(x.rg)
		if err != nil {
			ctx.OracleFail(-1, "GetByRange failed: "+err.Error(), "pkg/uefi/ffs/node_get_by_range.go", in)
		} else {
			found := x.in == nil || x.in.name == "" // a volume without a name has no known offset
			var bad, known []string
			for _, nd := range nodes {
				n := r.gt.byFW[nd.Firmware]
				if n == x.in {
					found = true
				}
				if n == nil {
					bad = append(bad, "unknown node")
					continue
				}
				// truly overlapping?
				if n.located && x.rg.Length > 0 && n.trueOff < x.rg.Offset+x.rg.Length && x.rg.Offset < n.trueOff+n.blen() {
					continue
				}
				if n.d23() {
					known = append(known, r.nodeDescr(n, nd.Range))
				} else {
					bad = append(bad, r.nodeDescr(n, nd.Range))
				}
			}
			switch {
			case !found:
				ctx.OracleFail(-1, "GetByRange does not return the volume that contains the range: "+r.nodeDescr(x.in, x.rg), "pkg/uefi/ffs/node_get_by_range.go", in)
			case len(bad) > 0:
				ctx.OracleFail(-1, "GetByRange returns a node that does not overlap the range: "+bad[0], "pkg/uefi/ffs/node_get_by_range.go", in)
			case len(known) > 0:
				ctx.OracleFailKnown(-1, findD23, "GetByRange returns a node that does not overlap the range: "+known[0], "pkg/uefi/ffs/node_get_by_range.go", in)
			default:
				ctx.OracleOK()
			}
		}
		// VolumeOf(MemRanges{phys})
		st, volBI := r.newState()
		phys := pkgbytes.Range{Offset: r.physOf(x.rg.Offset), Length: x.rg.Length}
		var d *types.Data
		var derr error
		p, msg := gal.Recover(func() { d, derr = datasources.VolumeOf(datasources.MemRanges{phys}).Data(bg, st) })
		var got []pkgbytes.Range
		if !p && derr == nil && d != nil {
			for i := range d.References {
				got = append(got, d.References[i].Ranges...)
			}
			// whatever it answers with, the bytes delivered are the bytes of those ranges
			if why := dataDeliveredWhy(r.im.data, d, volBI); why != "" {
				ctx.OracleFail(-1, fmt.Sprintf("VolumeOf(MemRanges{%#x+%#x}): %s", phys.Offset, phys.Length, why), "pkg/bootflow/datasources/volume_of.go -> "+siteRawBytes, in)
			} else {
				ctx.OracleOK()
			}
		}
		lit := fmt.Sprintf("CVolumeOf %s %s %s %s", gal.U(r.size), nodesFor(x.rg), rangeLit(x.rg.Offset, x.rg.Length), obsRanges(got, derr, p))
		idx := ctx.Add("volume-of", lit, map[string]interface{}{"op": "VolumeOf(MemRanges)", "image": r.im.name, "range": in["range"], "kind": x.kind}, x.in != nil)
		switch {
		case p:
			ctx.OracleFail(idx, "VolumeOf panicked: "+msg, "pkg/bootflow/datasources/volume_of.go", in)
		case x.in == nil:
			// no (single) containing volume: nothing is required beyond "not a non-volume"
			okv := true
			for _, g := range got {
				isVol := false
				for _, n := range all {
					if n.isFV && n.located && r.physOf(n.trueOff) == g.Offset && n.blen() == g.Length {
						isVol = true
					}
				}
				okv = okv && isVol
			}
			if okv {
				ctx.OracleOK()
			} else if r.gotIsD23(got) {
				ctx.OracleFailKnown(idx, findD23, fmt.Sprintf("VolumeOf returns %s which is not a volume", fmtRanges(got)), "pkg/bootflow/datasources/volume_of.go", in)
			} else {
				ctx.OracleFail(idx, fmt.Sprintf("VolumeOf returns %s which is not a volume", fmtRanges(got)), "pkg/bootflow/datasources/volume_of.go", in)
			}
		default:
			want := pkgbytes.Range{Offset: r.physOf(x.in.trueOff), Length: x.in.blen()}
			if len(got) == 1 && got[0] == want {
				ctx.OracleOK()
				break
			}
			if derr != nil && x.in.name == "" {
				ctx.OracleOK() // the volume has no name the walker could look its offset up by: "unknown"
				break
			}
			msg := fmt.Sprintf("VolumeOf(range inside the volume at %#x+%#x) = %s err=%v, expected that volume (%#x+%#x)", x.in.trueOff, x.in.blen(), fmtRanges(got), derr, want.Offset, want.Length)
			if r.gotIsD23(got) {
				ctx.OracleFailKnown(idx, findD23, msg, "pkg/bootflow/datasources/volume_of.go", in)
			} else {
				ctx.OracleFail(idx, msg, "pkg/bootflow/datasources/volume_of.go", in)
			}
		}
	}

	// ---- MemRanges: the reference it returns resolves to the offsets named
	for i := 0; i < 4; i++ {
		o := uint64(ctx.Rng.Int63n(int64(r.size)))
		l := 1 + uint64(ctx.Rng.Int63n(int64(r.size-o)))
		st, bi := r.newState()
		d, err := datasources.MemRanges{{Offset: r.physOf(o), Length: l}}.Data(bg, st)
		got, why := r.dataRanges(d, bi)
		if err == nil && why == "" && len(got) == 1 && got[0].Offset == o && got[0].Length == l {
			ctx.OracleOK()
		} else {
			ctx.OracleFail(-1, fmt.Sprintf("MemRanges(%#x+%#x) resolves to %v (%s) err=%v", r.physOf(o), l, got, why, err), "pkg/bootflow/datasources/mem_ranges.go", map[string]interface{}{"image": r.im.name, "offset": o, "length": l})
		}
	}

	// ---- pcd.ParseFirmwareOCP: the vendor-version ranges are the node's bytes
	if p, _ := gal.Recover(func() {
		pf, _ := pcd.ParseFirmwareOCP(r.fw)
		if g, ok := pf.(*pcd.ParsedFirmwareOCPGeneric); ok && g != nil {
			for _, rg := range g.FirmwareVendorVersionCodeRanges {
				okr := false
				for _, n := range all {
					if n.isFile && r.exact(n, rg) {
						okr = true
					}
				}
				if okr || rg.Offset == math.MaxUint64 {
					ctx.OracleOK()
				} else {
					ctx.OracleFail(-1, fmt.Sprintf("ParseFirmwareOCP: range %#x+%#x is no file's bytes", rg.Offset, rg.Length), "pkg/pcd/parse_firmware_ocp.go", map[string]interface{}{"image": r.im.name})
				}
			}
		}
	}); p {
		ctx.Count("ocp-panic")
	}
}

func (r *run) gotIsD23(got []pkgbytes.Range) bool {
	for _, g := range got {
		for _, n := range r.gt.all {
			if n.d23() && n.name != "" && n.blen() == g.Length {
				return true
			}
		}
	}
	return false
}

// moduleName: the (only) user-interface section below the file, not looking into nested volumes
func moduleName(file *gnode) (string, bool) {
	var found []string
	var rec func(n *gnode)
	rec = func(n *gnode) {
		for _, k := range n.kids {
			if k.isFV {
				continue
			}
			if s, ok := k.f.(*fianoUEFI.Section); ok && s.Header.Type == fianoUEFI.SectionTypeUserInterface {
				found = append(found, s.Name)
			}
			rec(k)
		}
	}
	rec(file)
	if len(found) != 1 {
		return "", false
	}
	return found[0], true
}

// ---------------------------------------------------------------- Intel data sources

func (r *run) intel() {
	ctx := r.ctx
	bg := context.Background()
	img := r.im.data
	entries, ok := readFIT(img)
	if !ok {
		ctx.Count("image-without-fit")
		return
	}
	base := fourGiB - r.size
	fianoEntries, ferr := fit.GetEntries(img)
	if ferr != nil {
		ctx.Count("fit-unparseable-by-fiano")
		return
	}
	if len(fianoEntries) != len(entries) {
		ctx.OracleFail(-1, fmt.Sprintf("fiano sees %d FIT entries, the table has %d", len(fianoEntries), len(entries)), "fiano fit.GetEntries", map[string]interface{}{"image": r.im.name})
		return
	}
	seenType := map[uint8]bool{}
	ownLen := func(e fitEntry) (uint64, bool) {
		switch e.typ {
		case 0x02: // startup ACM: module size in dwords at +24
			if e.addr < base || e.addr+28 > fourGiB {
				return 0, false
			}
			o := e.addr - base
			return uint64(binary.LittleEndian.Uint32(img[o+24:])) * 4, true
		case 0x07:
			return uint64(e.size24) << 4, true
		case 0x0b, 0x0c:
			return uint64(e.size24), true
		}
		return 0, false
	}
	checkRef := func(what string, in map[string]interface{}, got []pkgbytes.Range, why string, want []pkgbytes.Range, wantBytes [][]byte) {
		in["image"] = r.im.name
		if why != "" || !sameRanges(got, want) {
			ctx.OracleFail(-1, fmt.Sprintf("%s: resolved %s (%s), expected %s", what, fmtRanges(got), why, fmtRanges(want)), "pkg/bootflow/datasources/inteldata", in)
			return
		}
		for i, g := range got {
			if wantBytes != nil && wantBytes[i] != nil && !bytes.Equal(img[g.Offset:g.Offset+g.Length], wantBytes[i]) {
				ctx.OracleFail(-1, fmt.Sprintf("%s: bytes at %#x+%#x differ from the object's bytes", what, g.Offset, g.Length), "pkg/bootflow/datasources/inteldata", in)
				return
			}
		}
		ctx.OracleOK()
		ctx.Count("oracle-ok:" + what)
	}
	for i, e := range entries {
		if seenType[e.typ] || i == 0 {
			continue
		}
		seenType[e.typ] = true
		var want []pkgbytes.Range
		var wantB [][]byte
		located := true
		for j, e2 := range entries {
			if e2.typ != e.typ {
				continue
			}
			seg := fianoEntries[j].GetEntryBase().DataSegmentBytes
			l := uint64(len(seg))
			if ol, ok := ownLen(e2); ok && ol != l && l != 0 {
				ctx.Count(fmt.Sprintf("fit-length-differs-type-%#x", e2.typ))
			}
			if e2.addr < base || e2.addr+l > fourGiB {
				located = false
				continue
			}
			want = append(want, pkgbytes.Range{Offset: e2.addr - base, Length: l})
			wantB = append(wantB, seg)
		}
		in := map[string]interface{}{"fit_type": e.typ}
		st, bi := r.newState()
		d, err := inteldata.FITAll(fit.EntryType(e.typ)).Data(bg, st)
		if !located {
			ctx.Count("fit-entry-outside-image")
			continue
		}
		if err != nil {
			ctx.OracleFail(-1, "FITAll: "+err.Error(), "pkg/bootflow/datasources/inteldata/fit.go", in)
		} else {
			got, why := r.dataRanges(d, bi)
			checkRef("FITAll", in, got, why, want, wantB)
			// the volumes the entries of this type lie in (volumes.go)
			if why == "" && sameRanges(got, want) && (!r.im.heavy || (r.im.pristine && len(want) <= 2)) && (!r.im.manifests || ctx.Rng.Intn(4) == 0) {
				r.volumeOfList(fmt.Sprintf("FITAll(%#x)", e.typ), volQuery{"the data of all FIT entries of one type", []volRef{{true, want}}}, inteldata.FITAll(fit.EntryType(e.typ)), nil)
			}
		}
		st, bi = r.newState()
		d, err = inteldata.FITFirst(fit.EntryType(e.typ)).Data(bg, st)
		if err != nil {
			ctx.OracleFail(-1, "FITFirst: "+err.Error(), "pkg/bootflow/datasources/inteldata/fit.go", in)
		} else {
			got, why := r.dataRanges(d, bi)
			checkRef("FITFirst", in, got, why, want[:1], wantB[:1])
		}
	}

	// ACM date: 4 bytes at +20 of every startup ACM
	{
		var want []pkgbytes.Range
		for _, e := range entries {
			if e.typ == 0x02 && e.addr >= base && e.addr+24 <= fourGiB {
				want = append(want, pkgbytes.Range{Offset: e.addr - base + 20, Length: 4})
			}
		}
		st, bi := r.newState()
		var d *types.Data
		var err error
		p, msg := gal.Recover(func() { d, err = inteldata.ACMDate{}.Data(bg, st) })
		switch {
		case p:
			ctx.OracleFail(-1, "ACMDate panicked: "+msg, "pkg/bootflow/datasources/inteldata/acm_date.go", map[string]interface{}{"image": r.im.name})
		case err != nil:
			ctx.Count("acm-date-error")
		default:
			got, why := r.dataRanges(d, bi)
			if len(got) < len(want) {
				want = want[:len(got)] // entries whose ACM does not parse are skipped by design
				ctx.Count("acm-date-partial")
			}
			checkRef("ACMDate", map[string]interface{}{}, got, why, want, nil)
		}
	}

	// IBB + PCR0_DATA
	st, bi := r.newState()
	acc, err := intelbiosimage.Get(bg, st)
	if err != nil {
		ctx.Count("no-intel-accessor")
		return
	}
	var bpmErr error
	gal.Recover(func() {
		bpm, bpmFit, err := acc.BootPolicyManifest()
		bpmErr = err
		if err != nil || bpm == nil || len(bpm.SE) == 0 {
			return
		}
		var want []pkgbytes.Range
		for _, seg := range bpm.SE[0].IBBSegments {
			if seg.Flags&1 == 1 {
				continue
			}
			if uint64(seg.Base) < base {
				return
			}
			want = append(want, pkgbytes.Range{Offset: uint64(seg.Base) - base, Length: uint64(seg.Size)})
		}
		d, err := inteldata.IBB{}.Data(bg, st)
		if err != nil {
			ctx.OracleFail(-1, "IBB: "+err.Error(), "pkg/bootflow/datasources/inteldata/ibb.go", map[string]interface{}{"image": r.im.name})
		} else {
			got, why := r.dataRanges(d, bi)
			checkRef("IBB", map[string]interface{}{}, got, why, want, nil)
			// the volumes of the IBB segments (volumes.go)
			if why == "" && sameRanges(got, want) && (!r.im.heavy || len(want) <= 3) {
				r.volumeOfList("IBB", volQuery{"the hashed IBB segments of the Boot Policy Manifest", []volRef{{true, want}}}, inteldata.IBB{}, nil)
			}
		}
		_ = bpmFit
	})
	if bpmErr != nil {
		ctx.Count("bpm-unparseable")
		return
	}
	r.pcr0data(st, bi, acc)
}

func (r *run) pcr0data(st *types.State, bi *biosimage.BIOSImage, acc *intelbiosimage.Accessor) {
	ctx := r.ctx
	bg := context.Background()
	img := r.im.data
	st.IncludeSystemArtifact(txtpublic.New(registers.Registers{registers.ParseACMPolicyStatusRegister(0x0000000200108681)}))
	var actions types.Actions
	if p, msg := gal.Recover(func() { actions = intelsteps.MeasurePCR0DATA{}.Actions(bg, st) }); p {
		ctx.OracleFail(-1, "MeasurePCR0DATA panicked: "+msg, "pkg/bootflow/steps/intelsteps/measure_pcr0_data.go", map[string]interface{}{"image": r.im.name})
		return
	}
	acm, _, e1 := acc.ACM()
	km, _, e2 := acc.KeyManifest()
	bpm, _, e3 := acc.BootPolicyManifest()
	if e1 != nil || e2 != nil || e3 != nil || acm == nil || km == nil || bpm == nil {
		ctx.Count("pcr0data-no-manifests")
		return
	}
	svn := make([]byte, 2)
	binary.LittleEndian.PutUint16(svn, uint16(acm.GetTXTSVN()))
	r.pcr0digests(st, actions)
	n := 0
	for _, a := range actions {
		ext, ok := a.(*tpmactions.TPMExtend)
		if !ok {
			continue
		}
		d, err := ext.DataSource.Data(bg, st)
		if err != nil || d == nil || len(d.References) != 6 {
			ctx.OracleFail(-1, fmt.Sprintf("PCR0_DATA: %d references, err=%v", len(d.References), err), "pkg/bootflow/steps/intelsteps/measure_pcr0_data.go", map[string]interface{}{"image": r.im.name})
			continue
		}
		n++
		var digest []byte
		for _, dg := range bpm.SE[0].DigestList.List {
			if uint16(dg.HashAlg) == uint16(ext.HashAlgo) {
				digest = dg.HashBuffer
				break
			}
		}
		want := [][]byte{nil, svn, acm.GetRSASig(), km.KeyAndSignature.Signature.Data, bpm.PMSE.Signature.Data, digest}
		label := []string{"acmPolicyStatus", "acmHeaderSVN", "acmSignature", "kmSignature", "bpmSignature", "ibbDigest"}
		for i := 1; i < 6; i++ {
			ref := &d.References[i]
			in := map[string]interface{}{"image": r.im.name, "piece": label[i], "alg": uint16(ext.HashAlgo)}
			own, ok := r.resolveOwn(ref)
			theirs, err := ref.ResolvedRanges()
			if !ok || err != nil || !sameRanges(own, []pkgbytes.Range(theirs)) || len(own) != 1 {
				ctx.OracleFail(-1, fmt.Sprintf("PCR0_DATA %s: ranges %v do not resolve into the image (%v)", label[i], ref.Ranges, theirs), "pkg/bootflow/steps/intelsteps/measure_pcr0_data.go", in)
				continue
			}
			g := own[0]
			if g.Offset+g.Length > uint64(len(img)) || !bytes.Equal(img[g.Offset:g.Offset+g.Length], want[i]) || (len(want[i]) == 0 && i != 5) {
				ctx.OracleFail(-1, fmt.Sprintf("PCR0_DATA %s: bytes at %#x+%#x are not the parsed field (%d bytes)", label[i], g.Offset, g.Length, len(want[i])), "pkg/bootflow/steps/intelsteps/measure_pcr0_data.go", in)
				continue
			}
			// and what is delivered for the piece is the parsed field, byte by byte
			cp := *ref
			cp.Ranges = append(pkgbytes.Ranges(nil), ref.Ranges...)
			var delivered []byte
			if p, msg := gal.Recover(func() { delivered = cp.RawBytes() }); p || !bytes.Equal(delivered, want[i]) {
				ctx.OracleFail(-1, fmt.Sprintf("PCR0_DATA %s: RawBytes() of the reference %v: %s %s", label[i], hexRanges(ref.Ranges), diffBytes(delivered, want[i]), msg), "pkg/bootflow/steps/intelsteps/measure_pcr0_data.go -> "+siteRawBytes, in)
				continue
			}
			ctx.OracleOK()
			ctx.Count("oracle-ok:PCR0_DATA " + label[i])
		}
		// the whole PCR0_DATA: the pieces in order (the first one comes from the TXT registers)
		{
			in := map[string]interface{}{"image": r.im.name, "alg": uint16(ext.HashAlgo)}
			cp := &types.Data{Converter: d.Converter}
			for i := range d.References {
				ref := d.References[i]
				ref.Ranges = append(pkgbytes.Ranges(nil), ref.Ranges...)
				cp.References = append(cp.References, ref)
			}
			var whole, first []byte
			p, msg := gal.Recover(func() {
				first = cp.References[0].RawBytes()
				whole = cp.RawBytes()
			})
			wantWhole := append([]byte{}, first...)
			for i := 1; i < 6; i++ {
				wantWhole = append(wantWhole, want[i]...)
			}
			if p || !bytes.Equal(whole, wantWhole) {
				ctx.OracleFail(-1, fmt.Sprintf("PCR0_DATA: Data.RawBytes() is not the six pieces in order: %s %s", diffBytes(whole, wantWhole), msg), "pkg/bootflow/steps/intelsteps/measure_pcr0_data.go -> "+siteRawBytes, in)
			} else {
				ctx.OracleOK()
				ctx.Count("oracle-ok:PCR0_DATA whole")
			}
		}
	}
	if n == 0 {
		ctx.Count("pcr0data-no-extend-actions")
	}
}

// pcr0digests: where the ibbDigest reference of each measured algorithm points, against the
// harness' own decoding of the Boot Policy Manifest's bytes (FIT entry -> "__IBBS__" element
// -> digest list by the documented layout): the hash buffer of the FIRST list entry with
// that algorithm, wherever it is in the list.
func (r *run) pcr0digests(st *types.State, actions types.Actions) {
	ctx := r.ctx
	bg := context.Background()
	img := r.im.data
	site := "pkg/bootflow/steps/intelsteps/measure_pcr0_data.go:MeasurePCR0DATA.Actions"
	base := fourGiB - r.size
	ent, bpmAddr, ok := fitSlot(img, 0x0C)
	if !ok || bpmAddr < base {
		ctx.Count("pcr0digests-no-bpm-entry")
		return
	}
	bpmLen := uint64(img[ent+8]) | uint64(img[ent+9])<<8 | uint64(img[ent+10])<<16
	bpmOff := bpmAddr - base
	if bpmOff+bpmLen > r.size {
		ctx.Count("pcr0digests-bpm-outside")
		return
	}
	first, entries, ok := seLayout(img[bpmOff : bpmOff+bpmLen])
	if !ok {
		ctx.Count("pcr0digests-undecodable")
		return
	}
	shape := make([]string, len(entries))
	shapeTxt := make([]string, len(entries))
	for i, e := range entries {
		shape[i] = gal.Pair(gal.U(uint64(e.alg)), gal.U(e.len))
		shapeTxt[i] = fmt.Sprintf("%#x/%d", e.alg, e.len)
	}
	measured := []uint16{0x04, 0x0B} // SHA1, SHA256: the banks PCR0_DATA is extended into
	obs := make([]string, len(measured))
	in := func(alg uint16) map[string]interface{} {
		return map[string]interface{}{"image": r.im.name, "bpm_at": bpmOff, "bpm_len": bpmLen, "digest_list": shapeTxt,
			"first_entry_at": bpmOff + first, "alg": alg, "bpm_hex": fmt.Sprintf("%x", img[bpmOff:bpmOff+bpmLen])}
	}
	type res struct {
		alg uint16
		rg  *pkgbytes.Range
		why string
	}
	var results []res
	for i, alg := range measured {
		obs[i] = "None"
		var found *pkgbytes.Range
		why := ""
		for _, a := range actions {
			ext, ok := a.(*tpmactions.TPMExtend)
			if !ok || uint16(ext.HashAlgo) != alg {
				continue
			}
			d, err := ext.DataSource.Data(bg, st)
			if err != nil || d == nil || len(d.References) != 6 || len(d.References[5].Ranges) != 1 {
				why = fmt.Sprintf("unexpected PCR0_DATA structure (err=%v)", err)
				break
			}
			if _, isPhys := d.References[5].AddressMapper.(biosimage.PhysMemMapper); !isPhys {
				why = "ibbDigest reference is not a physical-address reference"
				break
			}
			rg := d.References[5].Ranges[0]
			found = &rg
			break
		}
		if found != nil {
			obs[i] = "(Some " + rangeLit(found.Offset, found.Length) + ")"
		}
		results = append(results, res{alg, found, why})
	}
	lit := fmt.Sprintf("CDigestRefs %s %s %s", gal.U(bpmAddr+first), gal.List(shape), gal.List(obs))
	idx := ctx.Add("pcr0-digest-refs", lit, map[string]interface{}{"op": "MeasurePCR0DATA.Actions/ibbDigest", "image": r.im.name,
		"digest_list": shapeTxt, "first_entry_addr": bpmAddr + first}, len(entries) > 0)
	for _, x := range results {
		var want *digestEntry
		for j := range entries {
			if entries[j].alg == x.alg {
				want = &entries[j]
				break
			}
		}
		switch {
		case x.why != "":
			ctx.OracleFail(idx, "PCR0_DATA ibbDigest: "+x.why, site, in(x.alg))
		case x.rg == nil && want == nil:
			ctx.OracleOK() // nothing to measure, nothing referenced
		case x.rg == nil:
			// the property speaks about the ranges that ARE reported
			ctx.Count("pcr0digests-present-but-not-measured")
		case want == nil:
			ctx.OracleFail(idx, fmt.Sprintf("PCR0_DATA ibbDigest for algorithm %#x references [%#x+%#x], but the BPM's digest list %v has no entry of that algorithm",
				x.alg, x.rg.Offset, x.rg.Length, shapeTxt), site, in(x.alg))
		default:
			wantAddr := bpmAddr + want.off
			if x.rg.Offset == wantAddr && x.rg.Length == want.len {
				ctx.OracleOK()
				ctx.Count("oracle-ok:PCR0_DATA ibbDigest place")
				break
			}
			ctx.OracleFail(idx, fmt.Sprintf("PCR0_DATA ibbDigest for algorithm %#x references address %#x+%#x (image offset %#x); the hash buffer of the first entry with that algorithm in the BPM's digest list %v is at %#x+%#x (image offset %#x)",
				x.alg, x.rg.Offset, x.rg.Length, x.rg.Offset-base, shapeTxt, wantAddr, want.len, wantAddr-base), site, in(x.alg))
		}
	}
}
