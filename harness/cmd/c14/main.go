// Harness of property C14: data sources and firmware walker denote the bytes they name;
// address maps cohere.
//
// Part A: every physical-address/offset conversion of the suite on every offset class and
//
//	image size (correspondence cases + independent oracle: address = 4 GiB - size + offset,
//	round trips).
//
// Part B: tools.CalcImageOffset on the three image layouts (+ nothing-matches).
// Part C: the walker (ffs.NodeVisitor), the node selectors and the data sources on the
//
//	bundled images and images derived from them, against the harness' own ground truth.
//
// Sessions (sessions.go): the same objects used again and the caller's memory re-read --
//
//	mapper calls on slices of arrays the harness owns (several ranges, spare capacity, the
//	same list twice, the answer converted back, writes of the caller in between), one
//	NodeVisitor object for several Runs on other trees / other AddOffset, one data source
//	object for several images.
//
// Volume lists (volumes.go): VolumeOf on what an inner data source may hand over -- several
//
//	ranges per reference, several references, in every relation to the borders between
//	neighbour volumes.
//
// Delivered bytes (delivered.go): what Data.RawBytes() of a data-source result hands to the
//
//	hash, byte by byte against the image, for range lists of every relation (overlapping,
//	nested, repeated, unsorted ...).
package main

import (
	"fmt"
	"math"
	"os"
	"syscall"

	"verifharness/gal"

	"github.com/9elements/converged-security-suite/v2/pkg/bootflow/subsystems/trustchains/tpm/pcrbruteforcer"
	"github.com/9elements/converged-security-suite/v2/pkg/bootflow/systemartifacts/biosimage"
	"github.com/9elements/converged-security-suite/v2/pkg/bootflow/types"
	"github.com/9elements/converged-security-suite/v2/pkg/tools"
	"github.com/9elements/converged-security-suite/v2/pkg/tpmeventlog"
	"github.com/9elements/converged-security-suite/v2/pkg/uefi"
	"github.com/9elements/converged-security-suite/v2/pkg/uefi/consts"
	"github.com/9elements/converged-security-suite/v2/pkg/uefi/ffs"
	pkgbytes "github.com/linuxboot/fiano/pkg/bytes"
	fianoUEFI "github.com/linuxboot/fiano/pkg/uefi"
)

const header = `From CSS Require Import Lib.Base Lib.Cases Model.AddrMap Model.AddrMapCases.`

const (
	findD9 = "C14-D9-CalcImageOffset-bios-only"
)

// an artifact of any size (PhysMemMapper only asks for Size())
type sizedArtifact struct{ size uint64 }

func (a sizedArtifact) Size() uint64                            { return a.size }
func (a sizedArtifact) ReadAt(p []byte, off int64) (int, error) { return 0, fmt.Errorf("no content") }

var _ types.SystemArtifact = sizedArtifact{}

// a firmware node of any length (UEFI.PhysAddrToOffset only asks for len(Buf()))
type fakeFW struct{ buf []byte }

func (f *fakeFW) Buf() []byte                           { return f.buf }
func (f *fakeFW) SetBuf(b []byte)                       { f.buf = b }
func (f *fakeFW) Apply(v fianoUEFI.Visitor) error       { return v.Visit(f) }
func (f *fakeFW) ApplyChildren(fianoUEFI.Visitor) error { return nil }

// address space only: PROT_NONE, never touched
func reserve(n int) []byte {
	b, err := syscall.Mmap(-1, 0, n, syscall.PROT_NONE, syscall.MAP_ANON|syscall.MAP_PRIVATE|syscall.MAP_NORESERVE)
	if err != nil {
		return nil
	}
	return b
}

func u64s(v ...uint64) []uint64 { return v }

func main() {
	ctx := gal.New("C14", header, 120)
	repo := os.Getenv("VERIF_REPO")
	if repo == "" {
		repo = "/repo"
	}
	conversions(ctx)
	fake, err := os.ReadFile(repo + "/testdata/firmware/fake_intel_firmware.fd")
	if err != nil {
		panic(err)
	}
	galago := loadXZ(repo + "/testdata/firmware/GALAGOPRO3.fd.xz")
	calcOffsets(ctx, fake, galago)
	mapperSessions(ctx, fake)
	deliveredSmall(ctx)
	imagesPart(ctx, fake, galago)
	ctx.Finish("A: sizes {1, 64K, 8M, 16M, 32M, 0x5e0000, 2^32-1, 2^32, 0, >2^32, random} x offsets {0, 1, size-1, size, size+1, random<size, random u64}: " +
		"PhysMemMapper (all six entry points, range lists), UEFI.PhysAddrToOffset/OffsetToPhysAddr, consts.Calculate*, both isPhysAddr copies; " +
		"A': mapper sessions on arrays the harness owns (1-2 lists of 1-7 ranges, slices with spare capacity behind them, 3-7 steps: any entry point x any artifact incl. real BIOSImages, via method / types.AddressMapper / Reference.ResolvedRanges, the same question again, the inverse on the answer, the caller writing into a list or an answer; all arrays re-read after every step); " +
		"B: CalcImageOffset on full-flash (descriptor + BIOS region, BIOS last / not last), coreboot (FMAP), bare BIOS region and unparseable images x address classes; " +
		"C: NodeVisitor (fallback on/off, AddOffset, random stop answers; ONE visitor object for 3-5 Runs over image families with the same volumes at other offsets, other AddOffset, flipped fallback, sub-trees, pruned and aborted Runs, each Run judged against its image's ground truth and a fresh visitor), one data source object for several images, VolumeOf(MemRanges(multi-range list with spare capacity)) repeated, GetByGUID/Range/RegionType, UEFIGUIDFirst, UEFIFilesByType/ByName, VolumeOf, MemRanges, FITFirst/FITAll, ACMDate, IBB, PCR0_DATA on " +
		"GALAGOPRO3, the synthetic Intel image, both behind a flash descriptor, tail truncations and parse-preserving byte mutations; " +
		"synthetic BIOS regions built from the PI layouts (few GUIDs used many times as file and volume names: inside zlib/LZMA-compressed sections, nested compressed sections, after them, in sibling and nested volumes; named/unnamed volumes, pad and raw files, non-processed sections); " +
		"the synthetic Intel image with re-shaped Boot Policy / Key Manifests (IBB digest list in every order and composition: SHA1 first/last/absent/twice, other algorithms and odd buffer lengths in between; PostIBB/OBB hashes, extra segments incl. hashed segments that overlap / lie inside / repeat another one in front of or behind it, TXT/PM elements present or not, more KM hashes, manifests moved) for PCR0_DATA, incl. the digest-reference search as correspondence cases; " +
		"D: the BYTES delivered (Data.RawBytes()) judged byte-wise against the image for every data-source result above and for MemRanges lists of every relation (single, disjoint, touching, overlapping, nested, repeated, overlap chains, unsorted, zero-length in between, first/last byte, whole+part, same start/end, random; leaving the image: corresponded, not judged) on small BIOSImages of 1..256 random non-zero bytes and inside windows of the parsed images (start, end = just below 4 GiB, around located objects), lists built from objects of the tree (object + object inside it, the same object twice, later object first, a range across an object's end) through MemRanges and VolumeOf(MemRanges); UEFIGUIDFirst / UEFIFiles results spanning <= 3000 bytes as correspondence cases from the ranges the walker reported; " +
		"E: VolumeOf on LISTS of ranges (volumes.go) on every parsed image incl. GALAGOPRO3 and synthetic BIOS regions whose volumes start where their neighbour ends: two ranges touching each other exactly at the border of two neighbour volumes (either order, whole volumes, last byte + first byte, in two references, as plain image offsets without an address mapper, with a third range between them in the list, chains over three neighbours), the same with a gap (control), touching / overlapping ranges inside one volume, distant volumes, a volume twice with another in between, several references with 0-3 ranges each, 1-6 random ranges, no range / no reference, and (corresponded, judged only for 'no answer for a range that touches no volume' and 'nothing but volumes that touch a given range') a range across a border, an empty range in between, a range anywhere in the image; handed over through MemRanges, through an inner data source answering with several references, and through IBB / FITAll (Boot Policy Manifests whose hashed IBB segments are whole neighbour volumes or the end of one + the start of the next); the inner source's ranges re-read after the call")
}

// ------------------------------------------------------------------ Part A

func conversions(ctx *gal.Ctx) {
	rng := ctx.Rng
	sizes := u64s(1, 0x10000, 8<<20, 16<<20, 32<<20, 0x5e0000, 0x11000, 1<<32-1, 1<<32, 0, 1<<32+1, 1<<33, math.MaxUint64)
	for i := 0; i < ctx.Scale(10, 60); i++ {
		sizes = append(sizes, 1+uint64(rng.Int63n(1<<32)))
	}
	sizes = append(sizes, rng.Uint64())
	space := reserve(1<<32 + 0x1000)
	mapper := biosimage.PhysMemMapper{}
	for _, size := range sizes {
		var offs []uint64
		offs = append(offs, 0, 1, size-1, size, size+1)
		if size > 0 {
			for i := 0; i < ctx.Scale(4, 12); i++ {
				offs = append(offs, rng.Uint64()%size)
			}
		}
		offs = append(offs, rng.Uint64(), rng.Uint64())
		art := sizedArtifact{size}
		var fw *uefi.UEFI
		if space != nil && size <= uint64(len(space)) {
			fw = &uefi.UEFI{Node: ffs.Node{Firmware: &fakeFW{buf: space[:size:size]}}}
		}
		for k, off := range offs {
			addr := off + fourGiB - size // uint64 wrap; meaningful when size <= 4 GiB
			inDom := size <= fourGiB && off < size
			descr := func(op string, extra ...interface{}) map[string]interface{} {
				m := map[string]interface{}{"op": op, "size": size, "offset": off, "addr": addr}
				for i := 0; i+1 < len(extra); i += 2 {
					m[extra[i].(string)] = extra[i+1]
				}
				return m
			}
			oracle := func(idx int, what string, site string, got, want uint64, in map[string]interface{}) {
				if !inDom {
					return
				}
				if got == want {
					ctx.OracleOK()
				} else {
					ctx.OracleFail(idx, fmt.Sprintf("%s = %#x, expected %#x (address = 4GiB - size + offset)", what, got, want), site, in)
				}
			}
			ln := uint64(1 + rng.Intn(0x1000))

			// PhysMemMapper, single ranges + a random list
			pmm := func(which int, in pkgbytes.Ranges) (pkgbytes.Ranges, int) {
				var out pkgbytes.Ranges
				var err error
				var cp = append(pkgbytes.Ranges(nil), in...)
				p, _ := gal.Recover(func() {
					switch which {
					case 0:
						out, err = mapper.Resolve(art, cp...)
					case 1:
						out = mapper.ResolveFullImageOffset(art, cp...)
					case 2:
						out, err = mapper.Unresolve(art, cp...)
					case 3:
						out = mapper.UnresolveFullImageOffset(art, cp...)
					}
				})
				name := []string{"Resolve", "ResolveFullImageOffset", "Unresolve", "UnresolveFullImageOffset"}[which]
				lit := fmt.Sprintf("CPmm %d %s %s %s", which, gal.U(size), rangesLit(in), obsRanges(out, err, p))
				idx := ctx.Add("pmm", lit, descr("PhysMemMapper."+name, "ranges", in), inDom)
				if p || err != nil || len(out) != len(in) {
					ctx.OracleFail(idx, fmt.Sprintf("PhysMemMapper.%s: panic/err/length: %v %v %d", name, p, err, len(out)), "pkg/bootflow/systemartifacts/biosimage/phys_mem_mapper.go", descr(name))
					return nil, idx
				}
				return out, idx
			}
			site := "pkg/bootflow/systemartifacts/biosimage/phys_mem_mapper.go"
			w := k % 2
			if out, idx := pmm(w, pkgbytes.Ranges{{Offset: addr, Length: ln}}); out != nil {
				oracle(idx, "Resolve(addr)", site, out[0].Offset, off, descr("Resolve"))
				if out[0].Length != ln {
					ctx.OracleFail(idx, "Resolve changed the length", site, descr("Resolve"))
				}
				// and back
				if back, idx2 := pmm(2+w, out); back != nil {
					if back[0].Offset == addr {
						ctx.OracleOK()
					} else {
						ctx.OracleFail(idx2, fmt.Sprintf("Unresolve(Resolve(%#x)) = %#x", addr, back[0].Offset), site, descr("Unresolve∘Resolve"))
					}
				}
			}
			if out, idx := pmm(3-w, pkgbytes.Ranges{{Offset: off, Length: ln}}); out != nil {
				oracle(idx, "Unresolve(offset)", site, out[0].Offset, addr, descr("Unresolve"))
			}
			if k%4 == 0 {
				var l pkgbytes.Ranges
				for i := rng.Intn(5); i > 0; i-- {
					o := rng.Uint64()
					if rng.Intn(2) == 0 && size > 0 && size <= fourGiB {
						o = fourGiB - size + rng.Uint64()%size
					}
					l = append(l, pkgbytes.Range{Offset: o, Length: uint64(rng.Intn(1 << 20))})
				}
				pmm(rng.Intn(4), l)
			}

			// uefi.UEFI
			if fw != nil {
				got := fw.PhysAddrToOffset(addr)
				idx := ctx.Add("uefi", fmt.Sprintf("CUefi true %s %s %s", gal.U(size), gal.U(addr), gal.U(got)), descr("UEFI.PhysAddrToOffset"), inDom)
				oracle(idx, "UEFI.PhysAddrToOffset(addr)", "pkg/uefi/uefi.go", got, off, descr("UEFI.PhysAddrToOffset"))
				got2 := fw.OffsetToPhysAddr(off)
				idx = ctx.Add("uefi", fmt.Sprintf("CUefi false %s %s %s", gal.U(size), gal.U(off), gal.U(got2)), descr("UEFI.OffsetToPhysAddr"), inDom)
				oracle(idx, "UEFI.OffsetToPhysAddr(offset)", "pkg/uefi/uefi.go", got2, addr, descr("UEFI.OffsetToPhysAddr"))
				if fw.OffsetToPhysAddr(fw.PhysAddrToOffset(addr)) != addr || fw.PhysAddrToOffset(fw.OffsetToPhysAddr(off)) != off {
					ctx.OracleFail(idx, "UEFI.PhysAddrToOffset / OffsetToPhysAddr are not inverse", "pkg/uefi/uefi.go", descr("roundtrip"))
				} else {
					ctx.OracleOK()
				}
			}

			// consts
			{
				tail := size - off // distance from the end of the image
				got := consts.CalculatePhysAddrFromTailOffset(tail)
				idx := ctx.Add("consts", fmt.Sprintf("CConsts 0 %s 0 %s", gal.U(tail), gal.U(got)), descr("CalculatePhysAddrFromTailOffset", "tail", tail), inDom)
				oracle(idx, "CalculatePhysAddrFromTailOffset(size-offset)", "pkg/uefi/consts/calculate.go", got, addr, descr("CalculatePhysAddrFromTailOffset"))
				got = consts.CalculateTailOffsetFromPhysAddr(addr)
				idx = ctx.Add("consts", fmt.Sprintf("CConsts 1 %s 0 %s", gal.U(addr), gal.U(got)), descr("CalculateTailOffsetFromPhysAddr"), inDom)
				oracle(idx, "CalculateTailOffsetFromPhysAddr(addr)", "pkg/uefi/consts/calculate.go", got, tail, descr("CalculateTailOffsetFromPhysAddr"))
				got = consts.CalculateOffsetFromPhysAddr(addr, size)
				idx = ctx.Add("consts", fmt.Sprintf("CConsts 2 %s %s %s", gal.U(addr), gal.U(size), gal.U(got)), descr("CalculateOffsetFromPhysAddr"), inDom)
				oracle(idx, "CalculateOffsetFromPhysAddr(addr, size)", "pkg/uefi/consts/calculate.go", got, off, descr("CalculateOffsetFromPhysAddr"))
				if consts.CalculatePhysAddrFromTailOffset(consts.CalculateTailOffsetFromPhysAddr(addr)) != addr {
					ctx.OracleFail(idx, "tail-offset conversions are not inverse", "pkg/uefi/consts/calculate.go", descr("roundtrip"))
				} else {
					ctx.OracleOK()
				}
			}

			// isPhysAddr (two copies), on the address and on its neighbours
			for _, a := range u64s(addr, addr-1, addr+1, fourGiB-size, fourGiB-size-1, fourGiB-1, fourGiB, rng.Uint64()) {
				want := size > 0 && size <= fourGiB && a >= fourGiB-size && a < fourGiB
				for c, f := range []func(uint64, uint64) bool{tpmeventlog.VerifIsPhysAddr, pcrbruteforcer.VerifIsPhysAddr} {
					got := f(a, size)
					site := []string{"pkg/tpmeventlog/parse_event_data.go:isPhysAddr", "pkg/bootflow/subsystems/trustchains/tpm/pcrbruteforcer/analyze_unexpected_log_entry.go:isPhysAddr"}[c]
					idx := ctx.Add("is-phys-addr", fmt.Sprintf("CIsPhys %s %s %s", gal.U(a), gal.U(size), gal.Bool(got)), map[string]interface{}{"op": "isPhysAddr", "copy": c, "addr": a, "size": size}, size <= fourGiB)
					if size <= fourGiB {
						if got == want {
							ctx.OracleOK()
						} else {
							ctx.OracleFail(idx, fmt.Sprintf("isPhysAddr(%#x, %#x) = %v, expected %v", a, size, got, want), site, map[string]interface{}{"addr": a, "size": size})
						}
					}
				}
			}
		}
	}
}

// ------------------------------------------------------------------ Part B

type layoutCase struct {
	name  string
	img   []byte
	lit   string // Gallina layout
	top   uint64 // offset that is mapped to 4 GiB (end of the BIOS region / COREBOOT area); 0 = none
	kind  string
	atEnd bool // top == len(img): "address = 4 GiB - image size + offset" applies
	// the only BIOS region fiano finds when the bytes are parsed as a BIOSImage: offset and
	// length (hasBIOS=false: the image does not parse)
	hasBIOS          bool
	biosOff, biosLen uint64
}

func calcOffsets(ctx *gal.Ctx, fake, galago []byte) {
	rng := ctx.Rng
	var ls []layoutCase
	add := func(name string, img []byte, lit string, top uint64, kind string) {
		l := layoutCase{name: name, img: img, lit: lit, top: top, kind: kind, atEnd: top == uint64(len(img))}
		switch kind {
		case "full-flash":
			l.hasBIOS, l.biosLen = true, uint64(len(fake))
			if len(img) > len(galago) {
				l.biosLen = uint64(len(galago))
			}
			l.biosOff = top - l.biosLen
		case "bios-only", "coreboot": // no descriptor: the whole file is taken as the BIOS region
			l.hasBIOS, l.biosLen = true, uint64(len(img))
		}
		ls = append(ls, l)
	}
	add("fake (bare BIOS region)", fake, "LBiosOnly", uint64(len(fake)), "bios-only")
	add("GALAGOPRO3 (bare BIOS region)", galago, "LBiosOnly", uint64(len(galago)), "bios-only")
	for _, v := range [][2]int{{0, 0}, {3, 0}, {0, 2}, {5, 7}} {
		img, off := withIFD(fake, v[0], v[1])
		add(fmt.Sprintf("descriptor + %d blocks + fake + %d blocks", v[0], v[1]), img,
			fmt.Sprintf("(LFullFlash %d %d)", off, len(fake)), uint64(off)+uint64(len(fake)), "full-flash")
	}
	{
		img, off := withIFD(galago, 0, 0)
		add("descriptor + GALAGOPRO3", img, fmt.Sprintf("(LFullFlash %d %d)", off, len(galago)), uint64(off)+uint64(len(galago)), "full-flash")
	}
	for i := 0; i < 4; i++ {
		total := 0x20000 << uint(i%2)
		cbOff := uint32(0x2000 + 0x1000*rng.Intn(8))
		cbSize := uint32(total) - cbOff
		if i == 3 {
			cbSize -= 0x3000 // COREBOOT area not at the end of the flash
		}
		add(fmt.Sprintf("coreboot %#x, COREBOOT %#x+%#x", total, cbOff, cbSize), corebootImage(total, 0x1000, cbOff, cbSize),
			fmt.Sprintf("(LCoreboot %d %d)", cbOff, cbSize), uint64(cbOff)+uint64(cbSize), "coreboot")
	}
	add("unparseable", unparseableImage(), "LNone", 0, "none")

	for _, l := range ls {
		size := uint64(len(l.img))
		base := fourGiB - size
		addrs := u64s(base, base+1, fourGiB-1, fourGiB-0x10, fourGiB-0x40, base+size/2, fourGiB, base-1, 0, rng.Uint64())
		for i := 0; i < ctx.Scale(3, 10); i++ {
			addrs = append(addrs, base+rng.Uint64()%size)
		}
		if len(l.img) > 1<<20 {
			addrs = addrs[:6] // every call re-parses the image
		}
		for _, addr := range addrs {
			var got uint64
			var err error
			p, msg := gal.Recover(func() { got, err = tools.CalcImageOffset(l.img, addr) })
			obs := "(OOk " + gal.U(got) + ")"
			if p {
				obs = "OPanic"
			} else if err != nil {
				obs = "OErr"
			}
			in := map[string]interface{}{"op": "CalcImageOffset", "image": l.name, "size": size, "addr": addr, "layout": l.kind}
			inRange := addr >= base && addr < fourGiB
			idx := ctx.Add("calc-image-offset/"+l.kind, fmt.Sprintf("CCalcOff %s %d %s %s", l.lit, size, gal.U(addr), obs), in, inRange)
			switch {
			case p:
				ctx.OracleFail(idx, "CalcImageOffset panicked: "+msg, "pkg/tools/ifd.go:CalcImageOffset", in)
			case l.kind == "none":
				if err != nil && got == math.MaxUint64 {
					ctx.OracleOK()
				} else {
					ctx.OracleFail(idx, fmt.Sprintf("CalcImageOffset on an image nothing recognises: %#x, %v", got, err), "pkg/tools/ifd.go:CalcImageOffset", in)
				}
			case err != nil:
				ctx.OracleFail(idx, "CalcImageOffset: "+err.Error(), "pkg/tools/ifd.go:CalcImageOffset", in)
			case inRange && l.atEnd:
				want := addr - base
				if got == want {
					ctx.OracleOK()
				} else if l.kind == "bios-only" && got == fourGiB-addr {
					// the former finding C14-D9 (repaired by 98fb605): an ordinary failure now
					ctx.OracleFail(idx, fmt.Sprintf("CalcImageOffset(%s, %#x) = %#x = 4GiB - addr, the distance from the END of the image; expected %#x (address = 4GiB - size + offset)", l.name, addr, got, want), "pkg/tools/ifd.go:CalcImageOffset (bare BIOS region branch)", in)
				} else {
					ctx.OracleFail(idx, fmt.Sprintf("CalcImageOffset(%s, %#x) = %#x, expected %#x (address = 4GiB - size + offset)", l.name, addr, got, want), "pkg/tools/ifd.go:CalcImageOffset", in)
				}
			case inRange:
				// the region that ends at 4 GiB is not the end of the file: the anchor is the region's end
				want := l.top - (fourGiB - addr)
				if got == want {
					ctx.OracleOK()
				} else {
					ctx.OracleFail(idx, fmt.Sprintf("CalcImageOffset(%s, %#x) = %#x, expected %#x (end of the mapped region at 4GiB)", l.name, addr, got, want), "pkg/tools/ifd.go:CalcImageOffset", in)
				}
			}
		}
		biosRegionVariants(ctx, l)
	}
	// fixed witness of the former finding C14-D9 (repaired by 98fb605): reproduced = not the offset
	got, err := tools.CalcImageOffset(fake, 0xfffffff0)
	ctx.Probe(findD9, len(fake) == 0x10000 && !(err == nil && got == 0xfff0),
		fmt.Sprintf("tools.CalcImageOffset(fake_intel_firmware.fd (64 KiB, bare BIOS region), 0xfffffff0) = %#x, err=%v; the byte is at offset 0xfff0", got, err))
}

// ResolveBIOSRegionOffset / UnresolveBIOSRegionOffset on a real BIOSImage artifact
func biosRegionVariants(ctx *gal.Ctx, l layoutCase) {
	rng := ctx.Rng
	mapper := biosimage.PhysMemMapper{}
	site := "pkg/bootflow/systemartifacts/biosimage/phys_mem_mapper.go"
	arts := []types.SystemArtifact{biosimage.New(l.img)}
	if l.kind == "none" {
		arts = append(arts, sizedArtifact{0x10000}) // not a BIOSImage at all
	}
	for _, art := range arts {
		bios := "None"
		if _, ok := art.(*biosimage.BIOSImage); ok && l.hasBIOS {
			bios = "(Some " + gal.U(l.biosLen) + ")"
		}
		base := fourGiB - l.biosLen
		offs := u64s(0, 1, l.biosLen-1, l.biosLen, rng.Uint64())
		for i := 0; i < 3 && l.biosLen > 0; i++ {
			offs = append(offs, rng.Uint64()%l.biosLen)
		}
		if len(l.img) > 1<<20 {
			offs = offs[:3]
		}
		for _, off := range offs {
			addr := base + off
			ln := uint64(1 + rng.Intn(256))
			for _, unres := range []bool{false, true} {
				in := pkgbytes.Ranges{{Offset: addr, Length: ln}}
				if unres {
					in = pkgbytes.Ranges{{Offset: off, Length: ln}}
				}
				if rng.Intn(3) == 0 {
					in = append(in, pkgbytes.Range{Offset: rng.Uint64(), Length: uint64(rng.Intn(100))})
				}
				var out pkgbytes.Ranges
				var err error
				p, msg := gal.Recover(func() {
					if unres {
						out, err = mapper.UnresolveBIOSRegionOffset(art, append(pkgbytes.Ranges(nil), in...)...)
					} else {
						out, err = mapper.ResolveBIOSRegionOffset(art, append(pkgbytes.Ranges(nil), in...)...)
					}
				})
				d := map[string]interface{}{"op": "PhysMemMapper.(Un)ResolveBIOSRegionOffset", "unresolve": unres, "image": l.name, "ranges": in, "bios_region": []uint64{l.biosOff, l.biosLen}}
				idx := ctx.Add("pmm-bios", fmt.Sprintf("CPmmBios %s %s %s %s", gal.Bool(unres), bios, rangesLit(in), obsRanges(out, err, p)), d, off < l.biosLen)
				switch {
				case p:
					ctx.OracleFail(idx, "BIOS-region mapper panicked: "+msg, site, d)
				case bios == "None":
					if err != nil {
						ctx.OracleOK()
					} else {
						ctx.OracleFail(idx, "BIOS-region mapper succeeded without a BIOS region", site, d)
					}
				case err != nil || len(out) != len(in):
					ctx.OracleFail(idx, fmt.Sprintf("BIOS-region mapper failed on an image with one BIOS region: %v", err), site, d)
				case off < l.biosLen:
					// the BIOS region ends at 4 GiB: offset inside the region <-> address
					want := off
					if unres {
						want = addr
					}
					if out[0].Offset != want || out[0].Length != ln {
						ctx.OracleFail(idx, fmt.Sprintf("BIOS-region mapper: %#x, expected %#x (region of %#x bytes ending at 4GiB)", out[0].Offset, want, l.biosLen), site, d)
						break
					}
					ctx.OracleOK()
					// coherence with the full-image mapper when the region ends the file
					if !unres && l.atEnd {
						full := mapper.ResolveFullImageOffset(art, in[0])
						if full[0].Offset != l.biosOff+out[0].Offset {
							ctx.OracleFail(idx, fmt.Sprintf("full-image offset %#x != BIOS region offset %#x + offset in region %#x", full[0].Offset, l.biosOff, out[0].Offset), site, d)
						} else {
							ctx.OracleOK()
						}
					}
				}
			}
		}
	}
}

// ------------------------------------------------------------------ Part C

func imagesPart(ctx *gal.Ctx, fake, galago []byte) {
	rng := ctx.Rng
	var ims []image
	ims = append(ims, image{name: "fake_intel_firmware.fd", data: fake, pristine: true, family: "fake"})
	ims = append(ims, image{name: "GALAGOPRO3.fd", data: galago, heavy: true, pristine: true})
	{
		img, _ := withIFD(fake, 0, 0)
		ims = append(ims, image{name: "descriptor+fake", data: img, family: "fake"})
		img, _ = withIFD(fake, 3, 0)
		ims = append(ims, image{name: "descriptor+3 blocks+fake", data: img, family: "fake"})
		img, _ = withIFD(galago, 0, 0)
		ims = append(ims, image{name: "descriptor+GALAGOPRO3", data: img, heavy: true})
	}
	// tail truncations (a BIOS region that starts later)
	for _, cut := range []int{0x40000, 0x50000 + 0x1000*rng.Intn(16), 0x110000} {
		ims = append(ims, image{name: fmt.Sprintf("GALAGOPRO3[%#x:]", cut), data: append([]byte(nil), galago[cut:]...), heavy: true})
	}
	ims = append(ims, image{name: "fake[0x3000:]", data: append([]byte(nil), fake[0x3000:]...)})
	// byte mutations
	mutate := func(src []byte, n int) ([]byte, []int) {
		b := append([]byte(nil), src...)
		var at []int
		for i := 0; i < n; i++ {
			p := rng.Intn(len(b))
			b[p] ^= byte(1 + rng.Intn(255))
			at = append(at, p)
		}
		return b, at
	}
	for i := 0; i < ctx.Scale(24, 200); i++ {
		b, at := mutate(fake, 1+rng.Intn(6))
		ims = append(ims, image{name: fmt.Sprintf("fake mutated at %v", at), data: b})
	}
	for i := 0; i < ctx.Scale(3, 20); i++ {
		b, at := mutate(galago, 1+rng.Intn(24))
		ims = append(ims, image{name: fmt.Sprintf("GALAGOPRO3 mutated at %v", at), data: b, heavy: true})
	}

	// synthetic BIOS regions: few names, many occurrences, compressed and nested areas
	nSynth := ctx.Scale(45, 400)
	for i := 0; i < nSynth; i++ {
		b, descr, outline := synthImage(rng, i)
		im := image{name: fmt.Sprintf("synthetic #%d (%s, %#x bytes)", i, descr, len(b)), data: b, synth: true, outline: outline}
		if i%7 == 3 {
			im.data, _ = withIFD(b, i%3, 0)
			im.name += " behind a flash descriptor"
		}
		ims = append(ims, im)
		if i%8 == 1 {
			// the same volumes at other offsets, for the sessions
			im.family = fmt.Sprintf("synthetic #%d", i)
			ims[len(ims)-1].family = im.family
			im.data, _ = withIFD(b, 1+i%4, 0)
			im.name += " behind a flash descriptor"
			im.sessionOnly = true
			ims = append(ims, im)
		}
	}

	// the synthetic Intel image with Boot Policy / Key Manifests of other shapes
	if fw, err := parseWithTimeout(fake); err == nil && fw != nil {
		fakeTopVolumes = volumesOf(groundTruth(fake, fw.Firmware))
	}
	for k := 0; k < ctx.Scale(36, 300); k++ {
		b, descr, ok := manifestVariant(rng, fake, k)
		if !ok {
			ctx.Count("manifest-variant-not-built")
			continue
		}
		im := image{name: fmt.Sprintf("fake with manifests #%d: %s", k, descr), data: b, onlyIntel: k%6 != 0, manifests: true}
		if k%5 == 4 {
			im.data, _ = withIFD(b, k%3, 0)
			im.name += " behind a flash descriptor"
		}
		ims = append(ims, im)
	}

	var d23all []string
	parsed := 0
	var pool []*run
	var heavyRun *run
	famIdx := map[string]int{}
	var families [][]*run
	for i, im := range ims {
		fw, err := parseWithTimeout(im.data)
		if err != nil || fw == nil {
			ctx.Count("derived-image-unparseable")
			if im.pristine {
				ctx.OracleFail(-1, "bundled image does not parse: "+fmt.Sprint(err), "pkg/uefi/uefi.go:ParseUEFIFirmwareBytes", map[string]interface{}{"image": im.name})
			}
			if im.synth {
				ctx.Count("synthetic-image-unparseable")
				fmt.Fprintf(os.Stderr, "c14: %s does not parse: %v\n", im.name, err)
			}
			continue
		}
		parsed++
		r := &run{ctx: ctx, im: im, fw: fw, size: uint64(len(im.data))}
		r.gt = groundTruth(im.data, fw.Firmware)
		if !im.heavy && !im.onlyIntel {
			pool = append(pool, r)
		}
		if im.heavy && im.pristine {
			heavyRun = r
		}
		if im.family != "" {
			k, ok := famIdx[im.family]
			if !ok {
				k = len(families)
				famIdx[im.family] = k
				families = append(families, nil)
			}
			families[k] = append(families[k], r)
		}
		if im.sessionOnly {
			continue
		}
		nStop := 2
		if im.heavy {
			nStop = 1
			if !im.pristine {
				nStop = 0
			}
		}
		if !im.onlyIntel {
			reported := r.walker(0, nStop)
			if i < 2 || (!im.heavy && i%5 == 0) {
				r.walker(int64(1<<30), 0)
				if !im.heavy {
					r.walker(-0x1000, 0)
				}
			}
			if reported != nil {
				r.selectors(reported)
			}
		}
		r.intel()
		d23all = append(d23all, r.d23...)
		ctx.Count("image-parsed")
	}
	// the same objects used again: one visitor for several Runs, one data source for several images
	walkerSessions(ctx, pool, families, heavyRun)
	dataSourceSessions(ctx, pool, families)
	volumeOfLists(ctx, pool, heavyRun)
	deliveredOnImages(ctx, pool, heavyRun)
	ctx.Rep.Extra["images_tried"] = len(ims)
	ctx.Rep.Extra["images_parsed"] = parsed
	ctx.Rep.Extra["d23_examples"] = head(d23all, 8)

	// fixed witness of D23: GALAGOPRO3, volume 9B7FA59D-... inside an uncompressed volume-image section
	probeD23(ctx, galago)
}

func probeD23(ctx *gal.Ctx, galago []byte) {
	fw, err := parseWithTimeout(galago)
	if err != nil {
		ctx.Probe(findD23, false, "GALAGOPRO3 does not parse: "+err.Error())
		return
	}
	gt := groundTruth(galago, fw.Firmware)
	what := "no visited node of GALAGOPRO3 has a wrong range"
	repro := false
	vis, _, _, _ := walkAll(fw, false, nil)
	n := 0
	for _, v := range vis {
		g := gt.byFW[v.f]
		if g == nil || v.r.Offset == math.MaxUint64 || !g.located {
			continue
		}
		if v.r.Offset != g.trueOff && g.d23() {
			if !repro {
				what = fmt.Sprintf("GALAGOPRO3: %s %s (below a non-compressed section) is reported at offset %#x, its bytes are at %#x", g.kind, g.guid, v.r.Offset, g.trueOff)
			}
			repro = true
			n++
		}
	}
	if repro {
		what += fmt.Sprintf(" (%d such nodes)", n)
	}
	ctx.Probe(findD23, repro, what)
}
