package main

import (
	"bytes"
	"fmt"
	"io"
	"math"
	"os"

	"github.com/9elements/converged-security-suite/v2/pkg/uefi"
	"github.com/9elements/converged-security-suite/v2/pkg/uefi/ffs"
	fianoUEFI "github.com/linuxboot/fiano/pkg/uefi"
	"github.com/ulikunitz/xz"
)

func loadXZ(p string) []byte {
	f, err := os.Open(p)
	if err != nil {
		panic(err)
	}
	defer f.Close()
	r, err := xz.NewReader(f)
	if err != nil {
		panic(err)
	}
	b, err := io.ReadAll(r)
	if err != nil {
		panic(err)
	}
	return b
}

func kind(f fianoUEFI.Firmware) string {
	s := fmt.Sprintf("%T", f)
	if sec, ok := f.(*fianoUEFI.Section); ok {
		s += "/" + sec.Type
	}
	if fl, ok := f.(*fianoUEFI.File); ok {
		s += "/" + fl.Header.Type.String()
	}
	return s
}

func walk(name string, img []byte, fallback bool) {
	fw, err := uefi.ParseUEFIFirmwareBytes(img)
	if err != nil {
		fmt.Println(name, "parse error", err)
		return
	}
	total, unknown, okc, bad := 0, 0, 0, 0
	stats := map[string][3]int{}
	err = (&ffs.NodeVisitor{FallbackToContainerRange: fallback, Callback: func(n ffs.Node) (bool, error) {
		total++
		k := kind(n.Firmware)
		st := stats[k]
		if n.Offset == math.MaxUint64 {
			unknown++
			st[0]++
		} else if n.Offset+n.Length <= uint64(len(img)) && bytes.Equal(img[n.Offset:n.Offset+n.Length], n.Buf()) {
			okc++
			st[1]++
		} else {
			bad++
			st[2]++
			g := n.GUID()
			fmt.Printf("  BAD %s guid=%v off=%#x len=%#x buflen=%#x\n", k, g, n.Offset, n.Length, len(n.Buf()))
			if idx := bytes.Index(img, n.Buf()); idx >= 0 && len(n.Buf()) > 16 {
				fmt.Printf("      true offset (first occurrence) %#x\n", idx)
			}
		}
		stats[k] = st
		return true, nil
	}}).Run(fw)
	fmt.Println(name, "fallback", fallback, "err", err, "size", len(img), "total", total, "unknown", unknown, "ok", okc, "bad", bad)
	for k, v := range stats {
		fmt.Println("   ", k, v)
	}
}

func main() {
	repo := os.Getenv("VERIF_REPO")
	if repo == "" {
		repo = "/repo"
	}
	gal := loadXZ(repo + "/testdata/firmware/GALAGOPRO3.fd.xz")
	fake, _ := os.ReadFile(repo + "/testdata/firmware/fake_intel_firmware.fd")
	walk("fake", fake, false)
	walk("fake", fake, true)
	walk("galago", gal, false)
	walk("galago", gal, true)
}
