// C02 correspondence harness: the simulated TPM of
// pkg/bootflow/subsystems/trustchains/tpm against Model/TPM.v.
//
// A sequential case is the whole life of ONE *tpm.TPM object: several
// sub-histories separated by Reset() / DoNotUse_ResetNoInit(); two thirds of the
// cases run on an object shared by all of them (so buffers and pooled hashers
// recycled from earlier cases are in play).  After EVERY command the harness
// records the error class, PCRValues.Get over a fixed grid, SupportedAlgos, and
// length + structural digest of CommandLog and EventLog (the full logs at the end
// of each sub-history).
//
// About every tenth case drives SEVERAL objects at the same time, one goroutine
// per object, under a recorded deterministic schedule (conc.go): the pools of
// hashers are shared by all TPM objects of the process, the property is about
// each object's own history.
//
// The independent oracle is refTPM below: a reference TPM written from the
// property text (map of banks, crypto/sha1, crypto/sha256), compared with the
// implementation after every command of every object.
package main

import (
	"bytes"
	"context"
	"crypto/sha1"
	"crypto/sha256"
	"encoding/hex"
	"fmt"
	"hash"
	"strings"

	"github.com/9elements/converged-security-suite/v2/pkg/bootflow/subsystems/trustchains/tpm"
	"github.com/9elements/converged-security-suite/v2/pkg/bootflow/subsystems/trustchains/tpm/pcr"
	"github.com/9elements/converged-security-suite/v2/pkg/tpmeventlog"
	"github.com/google/go-tpm/legacy/tpm2"
	"verifharness/gal"
)

const header = "From Coq Require Import Init.Byte.\nFrom CSS Require Import Lib.Base Lib.Cases Model.TPM Model.TPMPool Model.TPMExec Model.TPMCases."

const site = "pkg/bootflow/subsystems/trustchains/tpm"

// ---------------------------------------------------------------- commands

const (
	kStartup = iota + 1
	kExtend
	kLogAdd
	kReset
	kResetNoInit
)

type cmdT struct {
	kind    int
	l       uint8
	p       uint8
	a       uint16
	d       []byte
	ty      uint32
	data    []byte
	dataNil bool
}

func (c cmdT) String() string {
	switch c.kind {
	case kStartup:
		return fmt.Sprintf("startup(%d)", c.l)
	case kExtend:
		return fmt.Sprintf("extend(pcr=%d,alg=0x%x,digest=%s)", c.p, c.a, hex.EncodeToString(c.d))
	case kLogAdd:
		dt := "nil"
		if !c.dataNil {
			dt = "0x" + hex.EncodeToString(c.data)
		}
		return fmt.Sprintf("eventlogadd(pcr=%d,alg=0x%x,digest=%s,type=0x%x,data=%s)", c.p, c.a, hex.EncodeToString(c.d), c.ty, dt)
	case kReset:
		return "reset"
	case kResetNoInit:
		return "reset-no-init"
	}
	return "?"
}

// bsLit prints a byte string as the packed literal of Model/TPMCases.v: (L (B32 .. (B16 .. (B4 .. (B1 .. BE))))).
func bsLit(b []byte) string {
	if len(b) == 0 {
		return "[]"
	}
	var sb strings.Builder
	sb.WriteString("(L ")
	depth := 0
	for len(b) > 0 {
		n, name := 1, "(B1"
		switch {
		case len(b) >= 32:
			n, name = 32, "(B32"
		case len(b) >= 16:
			n, name = 16, "(B16"
		case len(b) >= 4:
			n, name = 4, "(B4"
		}
		sb.WriteString(name)
		for _, x := range b[:n] {
			fmt.Fprintf(&sb, " x%02x", x)
		}
		sb.WriteString(" ")
		b = b[n:]
		depth++
	}
	sb.WriteString("BE")
	sb.WriteString(strings.Repeat(")", depth+1))
	return sb.String()
}

func optLit(isNil bool, b []byte) string {
	if isNil {
		return "None"
	}
	return "(Some " + bsLit(b) + ")"
}

func (c cmdT) lit() string {
	switch c.kind {
	case kStartup:
		return fmt.Sprintf("(Startup %d)", c.l)
	case kExtend:
		return fmt.Sprintf("(Extend %d %d %s)", c.p, c.a, bsLit(c.d))
	case kLogAdd:
		return fmt.Sprintf("(LogAdd %d %d %s %d %s)", c.p, c.a, bsLit(c.d), c.ty, optLit(c.dataNil, c.data))
	case kReset:
		return "Reset"
	case kResetNoInit:
		return "ResetNoInit"
	}
	panic("bad kind")
}

func (c cmdT) evLit() string {
	return fmt.Sprintf("(EV %d %d %s %d %s)", c.p, c.a, bsLit(c.d), c.ty, optLit(c.dataNil, c.data))
}

func sameCmd(x, y cmdT, asEvent bool) bool {
	if !asEvent && x.kind != y.kind {
		return false
	}
	return x.l == y.l && x.p == y.p && x.a == y.a && bytes.Equal(x.d, y.d) && x.ty == y.ty &&
		x.dataNil == y.dataNil && bytes.Equal(x.data, y.data)
}

// ---------------------------------------------------------------- reference TPM (the oracle)

// refTPM is written from the property text only: startup succeeds once and sets
// PCR0 to zeros ending in the locality and PCR1 to zeros (SHA1 and SHA256 banks);
// extend replaces the addressed bank by H(old || digest); anything else fails
// and changes nothing; every command is logged; reset gives a new TPM.
type refTPM struct {
	started bool
	banks   map[[2]int][]byte
	log     []cmdT
	ev      []cmdT
	table   []string // Gallina literals ((alg, message), digest) of every hash computed
	// why the last command given to apply could not be executed (0: it was executed); see failKind
	lastKind int
}

func newHash(a uint16) hash.Hash {
	switch a {
	case 4:
		return sha1.New()
	case 0xB:
		return sha256.New()
	}
	return nil
}

func (r *refTPM) reset() {
	r.started, r.banks, r.log, r.ev = false, map[[2]int][]byte{}, nil, nil
}

func (r *refTPM) exec(c cmdT) bool {
	switch c.kind {
	case kReset, kResetNoInit:
		r.reset()
		return true
	}
	r.log = append(r.log, c)
	return r.apply(c)
}

// apply is the effect of one command on the reference TPM (the command log is the caller's business).
func (r *refTPM) apply(c cmdT) bool {
	r.lastKind = r.failKind(c)
	if r.lastKind != 0 {
		return false
	}
	switch c.kind {
	case kStartup:
		for _, a := range []uint16{4, 0xB} {
			n := newHash(a).Size()
			pcr0, pcr1 := make([]byte, n), make([]byte, n)
			pcr0[n-1] = c.l
			r.banks[[2]int{0, int(a)}], r.banks[[2]int{1, int(a)}] = pcr0, pcr1
		}
		r.started = true
		return true
	case kExtend:
		old := r.banks[[2]int{int(c.p), int(c.a)}]
		h := newHash(c.a)
		msg := append(append([]byte{}, old...), c.d...)
		h.Write(msg)
		nv := h.Sum(nil)
		r.table = append(r.table, gal.Pair(gal.Pair(fmt.Sprint(c.a), bsLit(msg)), bsLit(nv)))
		r.banks[[2]int{int(c.p), int(c.a)}] = nv
		return true
	case kLogAdd:
		r.ev = append(r.ev, c)
		return true
	}
	panic("bad kind")
}

// The preconditions of the commands, in the words of the property ("TPM not started, unknown PCR
// index or hash algorithm"), numbered like the ERR_* codes of Model/TPM.v so that Coq can compare
// the reference TPM's reason with the model's.  Computed from the state of the reference TPM and
// the arguments only -- never from anything the implementation returned.
const (
	whyExecuted       = 0
	whyAlreadyStarted = 1 // startup on a started TPM
	whyNoHasher       = 2 // the algorithm identifier is not a hash algorithm (go-tpm has no hash for it)
	whyNoPCR          = 3 // TPM not started, or no PCR with that index
	whyNoBank         = 4 // the PCR exists, but has no bank for that algorithm
	whyValueLength    = 5 // only after PCRValues.Set: what sits in the bank is not a value of that algorithm
)

var whyNames = [...]string{"executed", "already-started", "not-a-hash-algorithm", "no-such-pcr", "no-such-bank", "bank-value-length"}

// hasHasher: is the identifier a hash algorithm at all?  Asked of go-tpm (the third-party table the
// implementation uses as well), not of the code under test.
func hasHasher(a uint16) bool {
	_, err := tpm2.Algorithm(a).Hash()
	return err == nil
}

func (r *refTPM) hasPCR(p int) bool {
	for k := range r.banks {
		if k[0] == p {
			return true
		}
	}
	return false
}

// bankKind: why bank (p, a) cannot be addressed (0: it can).
func (r *refTPM) bankKind(p, a int) int {
	if !r.hasPCR(p) {
		return whyNoPCR
	}
	if _, ok := r.banks[[2]int{p, a}]; !ok {
		return whyNoBank
	}
	return whyExecuted
}

func (r *refTPM) failKind(c cmdT) int {
	switch c.kind {
	case kStartup:
		if r.started {
			return whyAlreadyStarted
		}
	case kExtend:
		if !hasHasher(c.a) {
			return whyNoHasher
		}
		if k := r.bankKind(int(c.p), int(c.a)); k != 0 {
			return k
		}
		if h := newHash(c.a); h == nil || len(r.banks[[2]int{int(c.p), int(c.a)}]) != h.Size() {
			return whyValueLength
		}
	}
	return whyExecuted
}

// ---------------------------------------------------------------- implementation side

var ctxBg = context.Background()

// runCmd applies c to the real TPM: 0 = nil error, 1 = error, 2 = panic.
func runCmd(t *tpm.TPM, c cmdT) (class int, msg string) {
	var err error
	panicked, pmsg := gal.Recover(func() {
		// the implementation keeps references to the slices it is given
		d := append([]byte{}, c.d...)
		switch c.kind {
		case kStartup:
			err = t.TPMInit(ctxBg, c.l, nil)
		case kExtend:
			err = t.TPMExtend(ctxBg, pcr.ID(c.p), tpm2.Algorithm(c.a), d, nil)
		case kLogAdd:
			var data []byte
			if !c.dataNil {
				data = append([]byte{}, c.data...)
			}
			err = t.TPMEventLogAdd(ctxBg, pcr.ID(c.p), tpm2.Algorithm(c.a), d, tpmeventlog.EventType(c.ty), data, nil)
		case kReset:
			t.Reset()
		case kResetNoInit:
			t.DoNotUse_ResetNoInit()
		}
	})
	if panicked {
		return 2, pmsg
	}
	if err != nil {
		return 1, err.Error()
	}
	return 0, ""
}

// outcomeName: how a command ended, for the input distribution: the class of what the implementation
// returned and, for a refused command, the reference TPM's reason.
func outcomeName(class, why int) string {
	switch class {
	case 0:
		return "ok"
	case 2:
		return "panic"
	}
	return "refused:" + whyNames[why]
}

// classes of the generated arguments, for the input distribution of the evidence
func algClass(a uint16) string {
	switch {
	case a == 4:
		return "sha1"
	case a == 0xB:
		return "sha256"
	case a == 0xC:
		return "sha384(first id without bank)"
	case a == 0xD:
		return "sha512"
	case a >= 39 && a <= 41:
		return "sha3"
	case a >= 0xFFFE:
		return "0xfffe-0xffff(pool edge)"
	case a == 0:
		return "0"
	case a < 12:
		return "bank slot, not a hash"
	}
	return "other 16-bit"
}

func pcrClass(p uint8) string {
	switch p {
	case 0, 1, 2, 255:
		return fmt.Sprint(p)
	}
	return "3..254"
}

func digestClass(a uint16, n int) string {
	size := 0
	if h := newHash(a); h != nil {
		size = h.Size()
	}
	switch {
	case n == 0:
		return "0"
	case size > 0 && n == size:
		return "=hash size"
	case size > 0 && n == size-1:
		return "hash size-1"
	case size > 0 && n == size+1:
		return "hash size+1"
	case n == 20 || n == 32:
		return "20|32 (other algorithm's size)"
	}
	return "other<=64"
}

func countCmd(dist map[string]int, cm cmdT, class, ek int, started bool) {
	dist["outcome:"+cmdNames[cm.kind]+":"+outcomeName(class, ek)]++
	switch cm.kind {
	case kExtend:
		dist["extend:alg:"+algClass(cm.a)]++
		dist["extend:pcr:"+pcrClass(cm.p)]++
		dist["extend:digest-len:"+digestClass(cm.a, len(cm.d))]++
		if !started {
			dist["extend:on-not-started-tpm"]++
		}
	case kStartup:
		switch cm.l {
		case 0, 3, 255:
			dist[fmt.Sprintf("startup:locality:%d", cm.l)]++
		default:
			dist["startup:locality:other"]++
		}
	case kLogAdd:
		if cm.dataNil {
			dist["eventlogadd:data:nil"]++
		} else if len(cm.data) == 0 {
			dist["eventlogadd:data:empty"]++
		} else {
			dist["eventlogadd:data:bytes"]++
		}
	}
}

func mergeDist(c *gal.Ctx, dist map[string]int) {
	for k, n := range dist {
		for i := 0; i < n; i++ {
			c.Count(k)
		}
	}
}

// the grid of Model/TPMCases.v get_grid
func getGrid() [][2]int {
	var g [][2]int
	for p := 0; p < 2; p++ {
		for a := 0; a < 12; a++ {
			g = append(g, [2]int{p, a})
		}
	}
	return append(g, [][2]int{{2, 4}, {2, 11}, {255, 4}, {0, 12}, {1, 12}, {0, 13}, {0, 65535}, {1, 39}}...)
}

var grid = getGrid()

type getObs struct {
	class int // 0 ok, 1 error, 2 panic
	val   []byte
}

func observeGet(t *tpm.TPM, p, a int) getObs {
	var v pcr.Digest
	var err error
	panicked, _ := gal.Recover(func() { v, err = t.PCRValues.Get(pcr.ID(p), tpm2.Algorithm(a)) })
	if panicked {
		return getObs{class: 2}
	}
	if err != nil {
		return getObs{class: 1}
	}
	return getObs{class: 0, val: append([]byte{}, v...)}
}

func (g getObs) lit() string {
	switch g.class {
	case 0:
		return "(OOk " + bsLit(g.val) + ")"
	case 1:
		return "OErr"
	}
	return "OPanic"
}

// projection of the implementation's logs to kind+arguments
func projectCmdLog(t *tpm.TPM) ([]cmdT, bool) {
	out := make([]cmdT, 0, len(t.CommandLog))
	for _, e := range t.CommandLog {
		switch c := e.Command.(type) {
		case *tpm.CommandInit:
			out = append(out, cmdT{kind: kStartup, l: c.Locality})
		case *tpm.CommandExtend:
			out = append(out, cmdT{kind: kExtend, p: uint8(c.PCRIndex), a: uint16(c.HashAlgo), d: append([]byte{}, c.Digest...)})
		case *tpm.CommandEventLogAdd:
			out = append(out, cmdT{kind: kLogAdd, p: uint8(c.PCRIndex), a: uint16(c.HashAlgo), d: append([]byte{}, c.Digest...),
				ty: uint32(c.Type), data: append([]byte{}, c.Data...), dataNil: c.Data == nil})
		default:
			return out, false
		}
	}
	return out, true
}

func projectEvLog(t *tpm.TPM) []cmdT {
	out := make([]cmdT, 0, len(t.EventLog))
	for _, e := range t.EventLog {
		out = append(out, cmdT{kind: kLogAdd, p: uint8(e.PCRIndex), a: uint16(e.HashAlgo), d: append([]byte{}, e.Digest...),
			ty: uint32(e.Type), data: append([]byte{}, e.Data...), dataNil: e.Data == nil})
	}
	return out
}

// logText is the implementation's own rendering of its command log -- quoted in failure reports,
// never compared with anything.
func logText(t *tpm.TPM) string {
	var got string
	if p, _ := gal.Recover(func() { got = t.CommandLog.String() }); p {
		return "(CommandLog.String() panicked)"
	}
	if len(got) > 300 {
		got = got[:300] + "..."
	}
	return got
}

// oracleStep compares the implementation (after command cm returned class/pmsg)
// with the reference TPM (which has executed cm as well; refOK is its verdict).
// Returns "" or a description of the first disagreement.
func oracleStep(t *tpm.TPM, ref *refTPM, cm cmdT, class int, pmsg string, refOK bool,
	gobs []getObs, cl []cmdT, clOK bool, el []cmdT) string {
	bad := oracleVerdict(class, pmsg, refOK)
	if bad == "" {
		bad = oracleBanks(ref, gobs)
	}
	if bad == "" && cm.kind == kReset {
		// a reset object is indistinguishable from a new one, SupportedAlgos included
		want := tpm.NewTPM().SupportedAlgos
		if fmt.Sprint(t.SupportedAlgos) != fmt.Sprint(want) {
			bad = fmt.Sprintf("after Reset() SupportedAlgos is %v, NewTPM() has %v", t.SupportedAlgos, want)
		}
	}
	if bad == "" {
		switch {
		case !clOK:
			bad = "CommandLog holds an entry of an unknown command type"
		case len(cl) != len(ref.log):
			bad = fmt.Sprintf("CommandLog has %d entries, %d commands were executed since the last reset", len(cl), len(ref.log))
		case len(el) != len(ref.ev):
			bad = fmt.Sprintf("EventLog has %d entries, %d were added since the last reset", len(el), len(ref.ev))
		}
	}
	if bad == "" {
		for j := range cl {
			if !sameCmd(cl[j], ref.log[j], false) {
				bad = fmt.Sprintf("CommandLog[%d] is %s, executed was %s", j, cl[j], ref.log[j])
				break
			}
		}
	}
	if bad == "" {
		for j := range el {
			if !sameCmd(el[j], ref.ev[j], true) {
				bad = fmt.Sprintf("EventLog[%d] is %s, added was %s", j, el[j], ref.ev[j])
				break
			}
		}
	}
	if bad == "" {
		// every command of these cases is executed with a nil info provider: the entries carry no cause
		for j, e := range t.CommandLog {
			if z := projCause(e); z != nil {
				bad = fmt.Sprintf("CommandLog[%d] (%s) carries %s, the command was executed without a cause provider", j, cl[j], z)
				break
			}
		}
	}
	if bad != "" && strings.HasPrefix(bad, "CommandLog") {
		bad += fmt.Sprintf(" [the log as the implementation renders it: %q]", logText(t))
	}
	return bad
}

// oracleVerdict: a command the reference TPM executes returns nil, one it cannot execute returns an error, nothing panics.
func oracleVerdict(class int, pmsg string, refOK bool) string {
	switch {
	case class == 2:
		return "command panicked: " + pmsg
	case refOK && class != 0:
		return "reference TPM executes the command, implementation returned an error: " + pmsg
	case !refOK && class == 0:
		return "command cannot be executed on the reference TPM, implementation returned no error"
	}
	return ""
}

// oracleBanks: PCRValues.Get over the grid against the banks of the reference TPM.
func oracleBanks(ref *refTPM, gobs []getObs) string {
	for j, pa := range grid {
		want, has := ref.banks[[2]int{pa[0], pa[1]}]
		g := gobs[j]
		switch {
		case g.class == 2:
			return fmt.Sprintf("PCRValues.Get(%d, 0x%x) panicked", pa[0], pa[1])
		case has && g.class != 0:
			return fmt.Sprintf("PCRValues.Get(%d, 0x%x) fails, reference value %x", pa[0], pa[1], want)
		case has && !bytes.Equal(g.val, want):
			return fmt.Sprintf("PCR %d bank 0x%x is %x, reference TPM has %x", pa[0], pa[1], g.val, want)
		case !has && g.class == 0 && len(g.val) != 0:
			return fmt.Sprintf("PCR %d bank 0x%x holds %x, the reference TPM has no such bank", pa[0], pa[1], g.val)
		case !has && g.class == 0 && (pa[0] >= 2 || pa[1] >= 12) && ref.started:
			return fmt.Sprintf("PCRValues.Get(%d, 0x%x) succeeds for a PCR/bank that does not exist", pa[0], pa[1])
		case !ref.started && g.class == 0:
			return fmt.Sprintf("PCRValues.Get(%d, 0x%x) succeeds on a TPM that was not started", pa[0], pa[1])
		}
	}
	return ""
}

// a canonical prefix that leaves non-zero data in every recycled buffer
func dirtyPrefix() []cmdT {
	ff := bytes.Repeat([]byte{0xff}, 32)
	h := []cmdT{{kind: kStartup, l: 0xA5}}
	for _, pa := range [][2]int{{0, 4}, {0, 0xB}, {1, 4}, {1, 0xB}} {
		h = append(h, cmdT{kind: kExtend, p: uint8(pa[0]), a: uint16(pa[1]), d: ff})
	}
	return append(h, cmdT{kind: kLogAdd, p: 1, a: 4, d: ff[:20], ty: 0xD, data: []byte{1, 2, 3}})
}

// closedRepro replays hist on a NEW object (oracle only): first failing step and what, or -1.
func closedRepro(hist []cmdT) (int, string) {
	t := tpm.NewTPM()
	ref := &refTPM{}
	ref.reset()
	for i, cm := range hist {
		class, pmsg := runCmd(t, cm)
		refOK := ref.exec(cm)
		gobs := make([]getObs, len(grid))
		for j, pa := range grid {
			gobs[j] = observeGet(t, pa[0], pa[1])
		}
		cl, clOK := projectCmdLog(t)
		if bad := oracleStep(t, ref, cm, class, pmsg, refOK, gobs, cl, clOK, projectEvLog(t)); bad != "" {
			return i, bad
		}
	}
	return -1, ""
}

// ---------------------------------------------------------------- generator

func pick[T any](c *gal.Ctx, xs ...T) T { return xs[c.Rng.Intn(len(xs))] }

func randBytes(c *gal.Ctx, n int) []byte {
	b := make([]byte, n)
	for i := range b {
		b[i] = byte(c.Rng.Intn(256))
	}
	return b
}

func genAlg(c *gal.Ctx) uint16 {
	if c.Rng.Intn(100) < 72 {
		return pick[uint16](c, 4, 0xB)
	}
	switch c.Rng.Intn(9) {
	case 0:
		return 0xC
	case 1:
		return 0
	case 2:
		return 5
	case 3:
		return 0xFFFE
	case 4:
		return 0xFFFF
	case 5:
		return pick[uint16](c, 0xD, 0x27, 0x28, 0x29, 0xA, 3, 0x10)
	case 6:
		return uint16(c.Rng.Intn(12)) // allocated slot of the bank matrix, mostly not a hash
	default:
		return uint16(c.Rng.Intn(0x10000))
	}
}

func genPCR(c *gal.Ctx) uint8 {
	if c.Rng.Intn(100) < 78 {
		return uint8(c.Rng.Intn(2))
	}
	switch c.Rng.Intn(4) {
	case 0:
		return 2
	case 1:
		return 255
	default:
		return uint8(c.Rng.Intn(256))
	}
}

func genDigest(c *gal.Ctx, a uint16) []byte {
	n := 0
	switch c.Rng.Intn(10) {
	case 0, 1, 2, 3, 4:
		if h := newHash(a); h != nil {
			n = h.Size()
		} else {
			n = pick(c, 20, 32)
		}
	case 5:
		n = 0
	case 6:
		n = pick(c, 19, 21)
	case 7:
		n = pick(c, 20, 32)
	default:
		n = c.Rng.Intn(65)
	}
	return randBytes(c, n)
}

func genLocality(c *gal.Ctx) uint8 {
	if c.Rng.Intn(3) == 0 {
		return pick[uint8](c, 0, 3, 255, 1, 4)
	}
	return uint8(c.Rng.Intn(256))
}

func genLogAdd(c *gal.Ctx) cmdT {
	a := genAlg(c)
	x := cmdT{kind: kLogAdd, p: genPCR(c), a: a, d: genDigest(c, a)}
	switch c.Rng.Intn(4) {
	case 0:
		x.ty = 3 // EV_NO_ACTION
	case 1:
		x.ty = uint32(c.Rng.Intn(0x13))
	case 2:
		x.ty = 0x80000000 + uint32(c.Rng.Intn(0x10))
	default:
		x.ty = c.Rng.Uint32()
	}
	switch c.Rng.Intn(4) {
	case 0:
		x.dataNil = true
	case 1:
		x.data = []byte{}
	case 2:
		x.data = []byte("StartupLocality\x00\x03")
	default:
		x.data = randBytes(c, 1+c.Rng.Intn(12))
	}
	return x
}

// one sub-history of 0..maxLen commands; firstLoc >= 0 forces the locality of the first startup
func genSegment(c *gal.Ctx, maxLen int, firstLoc int) []cmdT {
	n := c.Rng.Intn(maxLen + 1)
	var h []cmdT
	loc := func() uint8 {
		if firstLoc >= 0 {
			l := uint8(firstLoc)
			firstLoc = -1
			return l
		}
		return genLocality(c)
	}
	if n > 0 && c.Rng.Intn(100) < 75 {
		h = append(h, cmdT{kind: kStartup, l: loc()})
	}
	for len(h) < n {
		switch r := c.Rng.Intn(100); {
		case r < 64:
			a := genAlg(c)
			h = append(h, cmdT{kind: kExtend, p: genPCR(c), a: a, d: genDigest(c, a)})
		case r < 80:
			h = append(h, genLogAdd(c))
		case r < 92:
			h = append(h, cmdT{kind: kStartup, l: loc()})
		case r < 95:
			h = append(h, cmdT{kind: kReset})
		case r < 98:
			h = append(h, cmdT{kind: kResetNoInit})
			if c.Rng.Intn(3) > 0 {
				h = append(h, cmdT{kind: kStartup, l: loc()})
			}
		default:
			// the same failing command twice in a row
			a := pick[uint16](c, 0xFFFF, 0xFFFE, 0, 0xC)
			x := cmdT{kind: kExtend, p: genPCR(c), a: a, d: genDigest(c, a)}
			h = append(h, x, x)
		}
	}
	return h
}

// ---------------------------------------------------------------- one object

func histStrings(h []cmdT) []string {
	s := make([]string, len(h))
	for i, c := range h {
		s[i] = c.String()
	}
	return s
}

// objRun drives ONE *tpm.TPM through its history, command by command: runs the
// command on the implementation and on the reference TPM, records what the
// implementation shows (the Gallina literal of the step) and asks the oracle.
// It touches nothing but its own fields, so several objRuns can be stepped by
// different goroutines.
type objRun struct {
	t         *tpm.TPM
	ref       *refTPM
	hist      []cmdT
	fullAt    []bool // steps at which the whole logs are recorded
	steps     []string
	prevGets  []getObs
	prevAlgos string
	checks    int
	okExtends int
	failStep  int // first step the oracle rejected, -1 if none
	failWhat  string
	dist      map[string]int // input distribution: outcomes per command kind, argument classes
}

func newObjRun(t *tpm.TPM, hist []cmdT, fullAt []bool) *objRun {
	o := &objRun{t: t, ref: &refTPM{}, hist: hist, fullAt: fullAt, failStep: -1, dist: map[string]int{}}
	o.ref.reset()
	// baseline of the delta observations: a new TPM
	o.prevGets = make([]getObs, len(grid))
	for j := range o.prevGets {
		o.prevGets[j] = getObs{class: 1}
	}
	o.prevAlgos = gal.List([]string{"4", "11"})
	return o
}

// fullSteps decides (from the PRNG, before anything runs) at which steps the full logs are recorded.
func fullSteps(c *gal.Ctx, n int, segEnd map[int]bool) []bool {
	f := make([]bool, n)
	for i := range f {
		f[i] = segEnd[i] || i == n-1 || c.Rng.Intn(30) == 0
	}
	return f
}

// step executes command #i; returns the oracle's complaint or "".
func (o *objRun) step(i int) string {
	t, ref, cm := o.t, o.ref, o.hist[i]
	class, pmsg := runCmd(t, cm)
	startedBefore := ref.started
	refOK := ref.exec(cm)
	// the reason is the reference TPM's (from its state and the arguments); the implementation only
	// contributes error / no error
	ek := 0
	if !refOK {
		ek = ref.lastKind
	}
	countCmd(o.dist, cm, class, ek, startedBefore)
	if refOK && cm.kind == kExtend {
		o.okExtends++
	}

	// ---- observation
	var gets []string
	gobs := make([]getObs, len(grid))
	for j, pa := range grid {
		gobs[j] = observeGet(t, pa[0], pa[1])
		if gobs[j].class != o.prevGets[j].class || !bytes.Equal(gobs[j].val, o.prevGets[j].val) {
			gets = append(gets, gal.Pair(fmt.Sprint(j), gobs[j].lit()))
		}
	}
	o.prevGets = gobs
	algosNow := make([]string, len(t.SupportedAlgos))
	for j, a := range t.SupportedAlgos {
		algosNow[j] = fmt.Sprint(uint16(a))
	}
	algos := "None"
	if al := gal.List(algosNow); al != o.prevAlgos {
		algos = "(Some " + al + ")"
		o.prevAlgos = al
	}
	cl, clOK := projectCmdLog(t)
	el := projectEvLog(t)
	full := "None"
	if o.fullAt[i] {
		cls := make([]string, len(cl))
		for j, x := range cl {
			cls[j] = x.lit()
		}
		els := make([]string, len(el))
		for j, x := range el {
			els[j] = x.evLit()
		}
		full = "(Some " + gal.Pair(gal.List(cls), gal.List(els)) + ")"
	}
	r := [...]string{"(OOk tt)", "OErr", "OPanic"}[class]
	o.steps = append(o.steps, gal.Pair(cm.lit(), fmt.Sprintf("(SO %s %d %s %s %d %d %s)",
		r, ek, gal.List(gets), algos, len(cl), len(el), full)))

	// ---- oracle: compare with the reference TPM
	o.checks++
	bad := oracleStep(t, ref, cm, class, pmsg, refOK, gobs, cl, clOK, el)
	if bad != "" && o.failStep < 0 {
		o.failStep, o.failWhat = i, bad
	}
	return bad
}

var cmdNames = [...]string{"", "startup", "extend", "eventlogadd", "reset", "reset-no-init"}

// runCase drives t through hist (segEnd marks the last command of each
// sub-history) and registers the case.
func runCase(c *gal.Ctx, kind string, t *tpm.TPM, hist []cmdT, segEnd map[int]bool) {
	o := newObjRun(t, hist, fullSteps(c, len(hist), segEnd))
	for i := range hist {
		o.step(i)
	}
	lit := "(CHist " + gal.List(o.ref.table) + " " + gal.List(o.steps) + ")"
	idx := c.Add(kind, lit, map[string]interface{}{"object": kind, "history": histStrings(hist)}, o.okExtends > 0)
	nfail := 0
	if o.failStep >= 0 {
		nfail = 1
	}
	for i := 0; i < o.checks-nfail; i++ {
		c.OracleOK()
	}
	if i := o.failStep; i >= 0 {
		what := fmt.Sprintf("after command #%d %s: %s", i, hist[i], o.failWhat)
		var input interface{} = map[string]interface{}{"object": "new TPM", "history": histStrings(hist[:i+1]), "failing_step": i}
		if strings.HasPrefix(kind, "shared-object") {
			// the object carries state of earlier cases: look for a closed history on a new object
			closed := append(dirtyPrefix(), hist[:i+1]...)
			if k, w := closedRepro(closed); k >= 0 {
				what = fmt.Sprintf("after command #%d %s: %s", k, closed[k], w)
				input = map[string]interface{}{"object": "new TPM", "history": histStrings(closed[:k+1]), "failing_step": k}
			} else {
				input = map[string]interface{}{"object": "TPM object reused from the earlier cases of this run (replay by seed; the case index identifies the history)",
					"history": histStrings(hist[:i+1]), "failing_step": i}
			}
		}
		c.OracleFail(idx, what, site, input)
	}
	for _, cm := range hist {
		c.Count("cmd:" + cmdNames[cm.kind])
	}
	mergeDist(c, o.dist)
}

func genLife(c *gal.Ctx, maxSeg, maxLen int) ([]cmdT, map[int]bool) {
	var hist []cmdT
	segEnd := map[int]bool{}
	nseg := 1 + c.Rng.Intn(maxSeg)
	for s := 0; s < nseg; s++ {
		hist = append(hist, genSegment(c, maxLen, -1)...)
		if s+1 < nseg {
			segEnd[len(hist)-1] = true
			if c.Rng.Intn(2) == 0 {
				hist = append(hist, cmdT{kind: kReset})
			} else {
				hist = append(hist, cmdT{kind: kResetNoInit})
				if c.Rng.Intn(4) > 0 {
					hist = append(hist, cmdT{kind: kStartup, l: genLocality(c)})
				}
			}
		}
	}
	return hist, segEnd
}

func main() {
	installHashWrappers() // before anything can put a hasher into the pool
	c := gal.New("C02", header, 145)
	shared := tpm.NewTPM()
	vets := []*tpm.TPM{shared, tpm.NewTPM(), tpm.NewTPM(), tpm.NewTPM()}

	// fixed witness of the repaired pool-index bug
	{
		t := tpm.NewTPM()
		runCmd(t, cmdT{kind: kStartup, l: 3})
		class, _ := runCmd(t, cmdT{kind: kExtend, p: 0, a: 0xFFFF, d: make([]byte, 20)})
		c.Probe("C02-hasher-pool-index", class == 2, "TPMExtend(pcr 0, alg 0xFFFF, 20 zero bytes) panics (hasherPools indexed out of range)")
	}

	nSweep := 256
	nRandom := c.Scale(1250, 12000)
	nConc := c.Scale(170, 1600)
	nPar := c.Scale(6, 40)
	nExec := c.Scale(330, 3000)
	total := nSweep + nRandom
	for i := 0; i < total; i++ {
		// objects driven at the same time, spread evenly over the run (and over the shards)
		if (i+1)*nConc/total > i*nConc/total {
			runConcCase(c, vets)
		}
		if (i+1)*nPar/total > i*nPar/total {
			runParCase(c, vets)
		}
		if (i+1)*nExec/total > i*nExec/total {
			runExecCase(c)
		}
		var hist []cmdT
		segEnd := map[int]bool{}
		useShared := c.Rng.Intn(3) > 0
		kind := "fresh-object"
		t := shared
		if useShared {
			kind = "shared-object"
			hist = append(hist, cmdT{kind: pick(c, kReset, kResetNoInit)})
		} else {
			t = tpm.NewTPM()
		}
		if i < nSweep {
			// locality sweep: every locality once, short history touching all four banks
			hist = append(hist, cmdT{kind: kStartup, l: uint8(i)})
			for _, pa := range [][2]int{{0, 4}, {0, 0xB}, {1, 4}, {1, 0xB}} {
				if c.Rng.Intn(2) == 0 {
					hist = append(hist, cmdT{kind: kExtend, p: uint8(pa[0]), a: uint16(pa[1]), d: genDigest(c, uint16(pa[1]))})
				}
			}
			hist = append(hist, cmdT{kind: kStartup, l: genLocality(c)})
			kind += "/sweep"
		} else {
			h, se := genLife(c, 3, 40)
			for k := range se {
				segEnd[k+len(hist)] = true
			}
			hist = append(hist, h...)
		}
		runCase(c, kind, t, hist, segEnd)
	}

	c.Finish("each sequential case = whole life of one *TPM (1-3 sub-histories of 0..40 commands separated by Reset / ResetNoInit[+Startup]; 2/3 of the cases reuse one shared object); " +
		"commands startup/extend/eventlogadd/reset/reset-no-init, alg in {4,0xB,0xC,0,5,0xFFFE,0xFFFF,other hash ids,0..11,random 16-bit}, pcr in {0,1,2,255,random}, " +
		"digest length in {hash size,0,19,20,21,32,random<=64}, 256-case locality sweep; observed after every command; " +
		"each objects-scheduled case = 2-3 *TPM objects (new or reused), one goroutine each, own histories of 2..12 commands mostly extending the same bank algorithm, " +
		"under GOMAXPROCS(1) with a PRNG-driven scheduler that moves control at the entry/exit of every Write/Sum/Reset of the pooled hashers (crypto.RegisterHash wrappers) and between commands; " +
		"each objects-parallel case = 4 *TPM objects driven by really parallel goroutines; in both every object is judged against its own history alone; " +
		"each api/... case = ONE *TPM (new, zero value &TPM{}, or one object reused by all such cases) driven through 2..24 operations of the API level: TPMExecute of single commands (directly or through the wrappers) and of Commands slices " +
		"(0..5 sub-commands, nested ones, a sub-command that cannot be executed at the first/middle/last position), each with or without a cause provider, direct Apply, PCRValues.Set (value length = hash size, -1, +1, 0, x2; missing pcr/bank), " +
		"Reset followed by TPMExecute(log.Commands()), the log executed again on the object itself, resets; after every fifth operation and the last one CommandLog.Commands().Apply(ctx, NewTPM()) is observed as well; " +
		"outcome:* / extend:* / startup:* / eventlogadd:* / api:* in the distribution count commands and operations by result (a refused command by the reference TPM's reason: already started / not a hash algorithm / no such PCR / no such bank / bank value length -- computed from the reference state and the arguments, the text of an error is never looked at) and by argument class; " +
		"a case is non-trivial when at least one extend succeeds; distinct = distinct Gallina literal")
}
