// API-level cases (Model/TPMExec.v): ONE *tpm.TPM driven through everything a
// caller can do with it beyond TPMInit / TPMExtend / TPMEventLogAdd with a nil
// info -- the three ways /repo itself uses the package:
//
//	tpm.TPMExecute(ctx, cmd, info)   any Command, also a tpm.Commands slice (nested
//	                                 ones too), with and without a cause provider
//	cmd.Apply(ctx, tpm)              directly: nothing is logged (pcrbruteforcer)
//	log.Commands().Apply(ctx, NewTPM())            cmd/exp/pcr0tool sum
//	tpm.Reset(); tpm.TPMExecute(ctx, log.Commands(), nil)   bruteforce_acm_policy_status
//	tpm.PCRValues.Set(pcr, alg, value)
//
// The oracle is the same reference TPM as in the sequential cases (refTPM, from
// the property text), extended by what the documentation of the package says
// about this layer: TPMExecute logs exactly one entry per call, carrying the
// command and the cause it was given, before applying; Commands.Apply applies
// the sub-commands in order and returns at the first error; Apply does not
// log; Set overrides an existing bank.
package main

import (
	"bytes"
	"context"
	"encoding/hex"
	"fmt"
	"strings"

	"github.com/9elements/converged-security-suite/v2/pkg/bootflow/subsystems/trustchains/tpm"
	"github.com/9elements/converged-security-suite/v2/pkg/bootflow/subsystems/trustchains/tpm/pcr"
	"github.com/9elements/converged-security-suite/v2/pkg/bootflow/types"
	"github.com/9elements/converged-security-suite/v2/pkg/tpmeventlog"
	"github.com/google/go-tpm/legacy/tpm2"
	"verifharness/gal"
)

// ---------------------------------------------------------------- commands, nested

type xcmdT struct {
	one  *cmdT
	many []xcmdT
}

func xone(c cmdT) xcmdT { return xcmdT{one: &c} }

func (x xcmdT) lit() string {
	if x.one != nil {
		return "(XOne " + x.one.lit() + ")"
	}
	l := make([]string, len(x.many))
	for i, y := range x.many {
		l[i] = y.lit()
	}
	return "(XMany " + gal.List(l) + ")"
}

func (x xcmdT) String() string {
	if x.one != nil {
		return x.one.String()
	}
	l := make([]string, len(x.many))
	for i, y := range x.many {
		l[i] = y.String()
	}
	return "Commands{" + strings.Join(l, ", ") + "}"
}

func (x xcmdT) flat() []cmdT {
	if x.one != nil {
		return []cmdT{*x.one}
	}
	var l []cmdT
	for _, y := range x.many {
		l = append(l, y.flat()...)
	}
	return l
}

func sameX(x, y xcmdT) bool {
	if (x.one != nil) != (y.one != nil) {
		return false
	}
	if x.one != nil {
		return sameCmd(*x.one, *y.one, false)
	}
	if len(x.many) != len(y.many) {
		return false
	}
	for i := range x.many {
		if !sameX(x.many[i], y.many[i]) {
			return false
		}
	}
	return true
}

// build makes new Go command objects.
func (x xcmdT) build() tpm.Command {
	if x.one != nil {
		c := *x.one
		d := append([]byte{}, c.d...)
		switch c.kind {
		case kStartup:
			return tpm.NewCommandInit(c.l)
		case kExtend:
			return tpm.NewCommandExtend(pcr.ID(c.p), tpm2.Algorithm(c.a), d)
		case kLogAdd:
			var data []byte
			if !c.dataNil {
				data = append([]byte{}, c.data...)
			}
			return tpm.NewCommandEventLogAdd(*tpm.NewCommandExtend(pcr.ID(c.p), tpm2.Algorithm(c.a), d), tpmeventlog.EventType(c.ty), data)
		}
		panic("not a Command")
	}
	cs := make(tpm.Commands, len(x.many))
	for i, y := range x.many {
		cs[i] = y.build()
	}
	return cs
}

// projX reads a Go command back.
func projX(c tpm.Command) (xcmdT, bool) {
	switch c := c.(type) {
	case *tpm.CommandInit:
		return xone(cmdT{kind: kStartup, l: c.Locality}), true
	case *tpm.CommandExtend:
		return xone(cmdT{kind: kExtend, p: uint8(c.PCRIndex), a: uint16(c.HashAlgo), d: append([]byte{}, c.Digest...)}), true
	case *tpm.CommandEventLogAdd:
		return xone(cmdT{kind: kLogAdd, p: uint8(c.PCRIndex), a: uint16(c.HashAlgo), d: append([]byte{}, c.Digest...),
			ty: uint32(c.Type), data: append([]byte{}, c.Data...), dataNil: c.Data == nil}), true
	case tpm.Commands:
		x := xcmdT{many: []xcmdT{}}
		for _, y := range c {
			p, ok := projX(y)
			if !ok {
				return x, false
			}
			x.many = append(x.many, p)
		}
		return x, true
	}
	return xcmdT{}, false
}

// ---------------------------------------------------------------- causes

type causeT struct{ coord, action int }

func (z *causeT) lit() string {
	if z == nil {
		return "None"
	}
	return fmt.Sprintf("(Some (%d, %d))", z.coord, z.action)
}

func (z *causeT) String() string {
	if z == nil {
		return "nil"
	}
	return fmt.Sprintf("cause(step %d, action %d)", z.coord, z.action)
}

func sameCause(a, b *causeT) bool {
	if a == nil || b == nil {
		return a == b
	}
	return *a == *b
}

type hAction struct{ id int }

func (hAction) Apply(context.Context, *types.State) error { return nil }

type infoT struct{ z causeT }

func (i infoT) CauseCoordinates() types.ActionCoordinates {
	return types.ActionCoordinates{Flow: types.Flow{Name: "verif"}, StepIndex: uint(i.z.coord), ActionIndex: uint(i.z.coord) + 7}
}
func (i infoT) CauseAction() types.Action { return hAction{id: i.z.action} }

// projCause reads the cause of a log entry back: nil for the zero values, -1 for anything unexpected.
func projCause(e tpm.CommandLogEntry) *causeT {
	zeroCoords := e.CauseCoordinates.Flow.Name == "" && len(e.CauseCoordinates.Flow.Steps) == 0 &&
		e.CauseCoordinates.StepIndex == 0 && e.CauseCoordinates.ActionIndex == 0
	if zeroCoords && e.CauseAction == nil {
		return nil
	}
	z := &causeT{coord: -1, action: -1}
	if e.CauseCoordinates.Flow.Name == "verif" && e.CauseCoordinates.ActionIndex == e.CauseCoordinates.StepIndex+7 {
		z.coord = int(e.CauseCoordinates.StepIndex)
	}
	if a, ok := e.CauseAction.(hAction); ok {
		z.action = a.id
	}
	return z
}

// ---------------------------------------------------------------- operations

const (
	oExec = iota + 1
	oApply
	oSet
	oReset
	oResetNoInit
)

var opKindNames = [...]string{"", "TPMExecute", "Apply", "Set", "reset", "reset-no-init"}

type opT struct {
	kind  int
	x     xcmdT
	cause *causeT
	// oExec of a single command through the wrapper TPMInit / TPMExtend / TPMEventLogAdd
	wrapper bool
	// oExec / oApply: the Go value passed is what CommandLog.Commands() returned (x is its structure):
	// 1 = taken right before the last reset, 2 = taken now
	relog int
	p     uint8
	a     uint16
	v     []byte
	// look at log.Commands().Apply(ctx, NewTPM()) after this operation
	replay bool
	fam    string // generator family, for the distribution
}

func (o opT) String() string {
	switch o.kind {
	case oExec:
		via := "TPMExecute"
		if o.wrapper {
			via = "wrapper"
		}
		src := ""
		if o.relog == 1 {
			src = " [= CommandLog.Commands() taken before the last reset]"
		} else if o.relog == 2 {
			src = " [= CommandLog.Commands() taken now]"
		}
		return fmt.Sprintf("%s(%s, %s)%s", via, o.x, o.cause, src)
	case oApply:
		return fmt.Sprintf("(%s).Apply(tpm)", o.x)
	case oSet:
		return fmt.Sprintf("PCRValues.Set(%d, 0x%x, %s)", o.p, o.a, hex.EncodeToString(o.v))
	case oReset:
		return "reset"
	case oResetNoInit:
		return "reset-no-init"
	}
	return "?"
}

func (o opT) lit() string {
	switch o.kind {
	case oExec:
		return fmt.Sprintf("(OExec %s %s)", o.x.lit(), o.cause.lit())
	case oApply:
		return fmt.Sprintf("(OApply %s)", o.x.lit())
	case oSet:
		return fmt.Sprintf("(OSet %d %d %s)", o.p, o.a, bsLit(o.v))
	case oReset:
		return "OReset"
	case oResetNoInit:
		return "OResetNoInit"
	}
	panic("bad op")
}

func opStrings(ops []opT) []string {
	s := make([]string, len(ops))
	for i, o := range ops {
		s[i] = o.String()
		if o.replay {
			s[i] += "; then CommandLog.Commands().Apply(NewTPM())"
		}
	}
	return s
}

// ---------------------------------------------------------------- reference

type xentry struct {
	x     xcmdT
	cause *causeT
}

type xref struct {
	refTPM
	entries []xentry
}

// applyX: sub-commands in order until the first that cannot be executed.
func (r *xref) applyX(x xcmdT) bool {
	r.lastKind = 0
	for _, c := range x.flat() {
		if !r.apply(c) {
			return false
		}
	}
	return true
}

func (r *xref) do(o opT) bool {
	switch o.kind {
	case oExec:
		r.entries = append(r.entries, xentry{o.x, o.cause})
		return r.applyX(o.x)
	case oApply:
		return r.applyX(o.x)
	case oSet:
		k := [2]int{int(o.p), int(o.a)}
		if r.lastKind = r.bankKind(k[0], k[1]); r.lastKind != 0 {
			return false
		}
		r.banks[k] = append([]byte{}, o.v...)
		return true
	case oReset, oResetNoInit:
		r.reset()
		r.entries = nil
		r.lastKind = 0
		return true
	}
	panic("bad op")
}

// ---------------------------------------------------------------- one object

type xRun struct {
	steps     []string
	table     []string
	checks    int
	okExtends int
	failStep  int
	failWhat  string
	dist      map[string]int
}

func entryLit(e xentry) string { return fmt.Sprintf("(mkEntry %s %s)", e.x.lit(), e.cause.lit()) }

// driveX runs ops on t (zero: t is &tpm.TPM{}, otherwise NewTPM() or a reused object whose first
// operation is a reset), records the Gallina literals of the steps and asks the oracle after every one.
func driveX(t *tpm.TPM, zero bool, ops []opT, fullAt []bool) *xRun {
	run := &xRun{failStep: -1, dist: map[string]int{}}
	ref := &xref{}
	ref.reset()
	prevGets := make([]getObs, len(grid))
	for j := range prevGets {
		prevGets[j] = getObs{class: 1}
	}
	// baseline of the delta observations: the state the model starts from
	prevAlgos := gal.List([]string{"4", "11"})
	if zero {
		prevAlgos = gal.List(nil)
	}
	var beforeReset tpm.Commands
	var extraTable []string
	bypassed := false // an Apply or a Set changed the object behind the log since the last reset
	allOK := true     // every TPMExecute since the last reset returned nil
	for i, o := range ops {
		// ---- the Go values
		var goCmd tpm.Command
		if o.kind == oExec || o.kind == oApply {
			switch o.relog {
			case 1:
				goCmd = beforeReset
			case 2:
				goCmd = t.CommandLog.Commands()
			default:
				goCmd = o.x.build()
			}
		}
		if o.kind == oReset || o.kind == oResetNoInit {
			beforeReset = t.CommandLog.Commands()
		}
		var err error
		panicked, pmsg := gal.Recover(func() {
			switch o.kind {
			case oExec:
				var info tpm.CommandLogInfoProvider
				if o.cause != nil {
					info = infoT{*o.cause}
				}
				if o.wrapper && o.x.one != nil {
					c := *o.x.one
					d := append([]byte{}, c.d...)
					switch c.kind {
					case kStartup:
						err = t.TPMInit(ctxBg, c.l, info)
					case kExtend:
						err = t.TPMExtend(ctxBg, pcr.ID(c.p), tpm2.Algorithm(c.a), d, info)
					case kLogAdd:
						var data []byte
						if !c.dataNil {
							data = append([]byte{}, c.data...)
						}
						err = t.TPMEventLogAdd(ctxBg, pcr.ID(c.p), tpm2.Algorithm(c.a), d, tpmeventlog.EventType(c.ty), data, info)
					}
				} else {
					err = t.TPMExecute(ctxBg, goCmd, info)
				}
			case oApply:
				err = goCmd.Apply(ctxBg, t)
			case oSet:
				err = t.PCRValues.Set(pcr.ID(o.p), tpm2.Algorithm(o.a), append(pcr.Digest{}, o.v...))
			case oReset:
				t.Reset()
			case oResetNoInit:
				t.DoNotUse_ResetNoInit()
			}
		})
		class, ek := 0, 0
		switch {
		case panicked:
			class = 2
		case err != nil:
			class, pmsg = 1, err.Error() // the text is only quoted in reports, never looked at
		}
		nOKBefore := len(ref.table)
		refOK := ref.do(o)
		if !refOK {
			ek = ref.lastKind // the reference TPM's reason
		}
		run.okExtends += len(ref.table) - nOKBefore
		switch o.kind {
		case oApply, oSet:
			bypassed = true
		case oReset, oResetNoInit:
			bypassed, allOK = false, true
		case oExec:
			if !refOK {
				allOK = false
			}
		}
		run.dist["api:op:"+o.fam]++
		run.dist["api:outcome:"+opKindNames[o.kind]+":"+outcomeName(class, ek)]++

		// ---- observation
		var gets []string
		gobs := make([]getObs, len(grid))
		for j, pa := range grid {
			gobs[j] = observeGet(t, pa[0], pa[1])
			if gobs[j].class != prevGets[j].class || !bytes.Equal(gobs[j].val, prevGets[j].val) {
				gets = append(gets, gal.Pair(fmt.Sprint(j), gobs[j].lit()))
			}
		}
		prevGets = gobs
		algos := "None"
		if al := gal.List(algoStrings(t)); al != prevAlgos {
			algos = "(Some " + al + ")"
			prevAlgos = al
		}
		var cl []xentry
		clOK := true
		for _, e := range t.CommandLog {
			x, ok := projX(e.Command)
			if !ok {
				clOK = false
				break
			}
			cl = append(cl, xentry{x, projCause(e)})
		}
		el := projectEvLog(t)
		full := "None"
		if fullAt[i] {
			cls := make([]string, len(cl))
			for j, e := range cl {
				cls[j] = entryLit(e)
			}
			els := make([]string, len(el))
			for j, x := range el {
				els[j] = x.evLit()
			}
			full = "(Some " + gal.Pair(gal.List(cls), gal.List(els)) + ")"
		}
		// replay of the log on a new object
		rep := "None"
		var dummy *tpm.TPM
		var nr *xref
		nrOK := true
		var dClass, dEk int
		var dObs []getObs
		if o.replay {
			dummy = tpm.NewTPM()
			var derr error
			dp, _ := gal.Recover(func() { derr = t.CommandLog.Commands().Apply(ctxBg, dummy) })
			switch {
			case dp:
				dClass = 2
			case derr != nil:
				dClass = 1
			}
			// the logged commands applied in order to a new reference TPM, until the first that cannot be executed
			nr = &xref{}
			nr.reset()
			nrOK = true
			for _, e := range ref.entries {
				if !nr.applyX(e.x) {
					nrOK, dEk = false, nr.lastKind
					break
				}
			}
			var dg []string
			dObs = make([]getObs, len(grid))
			for j, pa := range grid {
				dObs[j] = observeGet(dummy, pa[0], pa[1])
				if dObs[j].class != 1 {
					dg = append(dg, gal.Pair(fmt.Sprint(j), dObs[j].lit()))
				}
			}
			rep = fmt.Sprintf("(Some (%s, %d, %s, %d))", [...]string{"(OOk tt)", "OErr", "OPanic"}[dClass], dEk, gal.List(dg), len(dummy.EventLog))
			run.dist["api:outcome:log.Commands().Apply(NewTPM()):"+outcomeName(dClass, dEk)]++
		}
		r := [...]string{"(OOk tt)", "OErr", "OPanic"}[class]
		run.steps = append(run.steps, gal.Pair(o.lit(), fmt.Sprintf("(XSO %s %d %s %s %d %d %s %s)",
			r, ek, gal.List(gets), algos, len(t.CommandLog), len(el), full, rep)))

		// ---- oracle
		run.checks++
		bad := oracleVerdict(class, pmsg, refOK)
		if bad == "" {
			bad = oracleBanks(&ref.refTPM, gobs)
		}
		if bad == "" && o.kind == oReset {
			want := tpm.NewTPM().SupportedAlgos
			if fmt.Sprint(t.SupportedAlgos) != fmt.Sprint(want) {
				bad = fmt.Sprintf("after Reset() SupportedAlgos is %v, NewTPM() has %v", t.SupportedAlgos, want)
			}
		}
		if bad == "" {
			switch {
			case !clOK:
				bad = "CommandLog holds an entry of an unknown command type"
			case len(cl) != len(ref.entries):
				bad = fmt.Sprintf("CommandLog has %d entries, TPMExecute was called %d times since the last reset", len(cl), len(ref.entries))
			case len(el) != len(ref.ev):
				bad = fmt.Sprintf("EventLog has %d entries, %d were added since the last reset", len(el), len(ref.ev))
			}
		}
		if bad == "" {
			for j := range cl {
				if !sameX(cl[j].x, ref.entries[j].x) {
					bad = fmt.Sprintf("CommandLog[%d] is %s, executed was %s", j, cl[j].x, ref.entries[j].x)
					break
				}
				if !sameCause(cl[j].cause, ref.entries[j].cause) {
					bad = fmt.Sprintf("CommandLog[%d] (%s) carries %s, the call was given %s", j, cl[j].x, cl[j].cause, ref.entries[j].cause)
					break
				}
			}
		}
		if bad == "" {
			for j := range el {
				if !sameCmd(el[j], ref.ev[j], true) {
					bad = fmt.Sprintf("EventLog[%d] is %s, added was %s", j, el[j], ref.ev[j])
					break
				}
			}
		}
		if bad == "" && o.replay {
			// hashes the replay needs and the object's own history did not (a command refused there, executed here)
			have := map[string]bool{}
			for _, e := range ref.table {
				have[e] = true
			}
			for _, e := range extraTable {
				have[e] = true
			}
			for _, e := range nr.table {
				if !have[e] {
					have[e] = true
					extraTable = append(extraTable, e)
				}
			}
			bad = oracleVerdict(dClass, "CommandLog.Commands().Apply(NewTPM())", nrOK)
			if bad == "" {
				bad = oracleBanks(&nr.refTPM, dObs)
			}
			if bad == "" && len(dummy.EventLog) != len(nr.ev) {
				bad = fmt.Sprintf("EventLog of the new object has %d entries, the replayed commands add %d", len(dummy.EventLog), len(nr.ev))
			}
			if bad == "" && allOK && !bypassed {
				// every command since the last reset went through TPMExecute and was executed:
				// the command log is the whole story of the object
				for j := range grid {
					if dObs[j].class != gobs[j].class || !bytes.Equal(dObs[j].val, gobs[j].val) {
						bad = fmt.Sprintf("replaying the command log on a new TPM gives another PCR %d bank 0x%x (%x) than the object has (%x) although every logged command was executed",
							grid[j][0], grid[j][1], dObs[j].val, gobs[j].val)
						break
					}
				}
			}
			if bad != "" {
				bad = "CommandLog.Commands().Apply(ctx, NewTPM()): " + bad
			}
		}
		if bad != "" && run.failStep < 0 {
			run.failStep, run.failWhat = i, bad
		}
	}
	run.table = append(ref.table, extraTable...)
	return run
}

func algoStrings(t *tpm.TPM) []string {
	s := make([]string, len(t.SupportedAlgos))
	for j, a := range t.SupportedAlgos {
		s[j] = fmt.Sprint(uint16(a))
	}
	return s
}

// ---------------------------------------------------------------- generator

func genSingle(c *gal.Ctx, started bool) cmdT {
	switch r := c.Rng.Intn(100); {
	case r < 62:
		a := genAlg(c)
		return cmdT{kind: kExtend, p: genPCR(c), a: a, d: genDigest(c, a)}
	case r < 80:
		return genLogAdd(c)
	default:
		return cmdT{kind: kStartup, l: genLocality(c)}
	}
}

func genGoodExtend(c *gal.Ctx) cmdT {
	a := pick[uint16](c, 4, 0xB)
	return cmdT{kind: kExtend, p: uint8(c.Rng.Intn(2)), a: a, d: genDigest(c, a)}
}

func genBadCmd(c *gal.Ctx, started bool) cmdT {
	if started && c.Rng.Intn(3) == 0 {
		return cmdT{kind: kStartup, l: genLocality(c)}
	}
	a := pick[uint16](c, 0xC, 0xFFFF, 0, 5, 0xD, 4, 0xB)
	p := uint8(c.Rng.Intn(2))
	if a == 4 || a == 0xB {
		p = pick[uint8](c, 2, 255)
	}
	return cmdT{kind: kExtend, p: p, a: a, d: genDigest(c, a)}
}

// genBatch: a Commands slice; failAt: -1 all sub-commands executable (on a started TPM), otherwise the
// position (in the flattened order) of one that is not.
func genBatch(c *gal.Ctx, started bool) (xcmdT, string) {
	n := c.Rng.Intn(6) // 0..5 single commands
	if c.Rng.Intn(12) == 0 {
		n = 0
	}
	var singles []cmdT
	for i := 0; i < n; i++ {
		if c.Rng.Intn(5) == 0 {
			singles = append(singles, genLogAdd(c))
		} else {
			singles = append(singles, genGoodExtend(c))
		}
	}
	fam := "batch:all-executable"
	if n == 0 {
		fam = "batch:empty"
	} else if !started && c.Rng.Intn(2) == 0 {
		// the batch starts the TPM itself
		singles[0] = cmdT{kind: kStartup, l: genLocality(c)}
		fam = "batch:with-startup"
	} else if c.Rng.Intn(100) < 45 {
		at := pick(c, 0, n-1, c.Rng.Intn(n))
		singles[at] = genBadCmd(c, started)
		switch {
		case n == 1:
			fam = "batch:fails-at-only"
		case at == 0:
			fam = "batch:fails-at-first"
		case at == n-1:
			fam = "batch:fails-at-last"
		default:
			fam = "batch:fails-in-the-middle"
		}
	}
	x := xcmdT{many: []xcmdT{}}
	if n >= 2 && c.Rng.Intn(4) == 0 {
		// nested: Commands{a, Commands{b, c}, d}
		i := c.Rng.Intn(n - 1)
		j := i + 1 + c.Rng.Intn(n-i-1) + 1
		if j > n {
			j = n
		}
		for k := 0; k < i; k++ {
			x.many = append(x.many, xone(singles[k]))
		}
		inner := xcmdT{many: []xcmdT{}}
		for k := i; k < j; k++ {
			inner.many = append(inner.many, xone(singles[k]))
		}
		x.many = append(x.many, inner)
		for k := j; k < n; k++ {
			x.many = append(x.many, xone(singles[k]))
		}
		if c.Rng.Intn(3) == 0 {
			x.many = append(x.many, xcmdT{many: []xcmdT{}}) // an empty Commands inside
		}
		fam += "/nested"
	} else {
		for _, s := range singles {
			x.many = append(x.many, xone(s))
		}
	}
	return x, fam
}

func genSetOp(c *gal.Ctx) opT {
	a := pick[uint16](c, 4, 0xB)
	size := newHash(a).Size()
	o := opT{kind: oSet, p: uint8(c.Rng.Intn(2)), a: a}
	switch c.Rng.Intn(9) {
	case 0, 1, 2:
		o.v, o.fam = randBytes(c, size), "set:len=hash size"
	case 3:
		o.v, o.fam = randBytes(c, size-1), "set:len=hash size-1"
	case 4:
		o.v, o.fam = randBytes(c, size+1), "set:len=hash size+1"
	case 5:
		o.v, o.fam = []byte{}, "set:len=0"
	case 6:
		o.v, o.fam = randBytes(c, 2*size), "set:len=2*hash size"
	case 7:
		o.p, o.v, o.fam = pick[uint8](c, 2, 255), randBytes(c, size), "set:no such pcr"
	default:
		o.a, o.v, o.fam = pick[uint16](c, 0xC, 0xD, 0xFFFF), randBytes(c, size), "set:no such bank"
	}
	return o
}

var causeSeq int

func genCause(c *gal.Ctx) *causeT {
	if c.Rng.Intn(2) == 0 {
		return nil
	}
	causeSeq++
	return &causeT{coord: 1 + causeSeq%1000, action: 1 + c.Rng.Intn(100000)}
}

// genOps: the life of one object at API level.
func genOps(c *gal.Ctx, reused bool) []opT {
	var ops []opT
	var logged []xentry // generator's view of the command log (TPMExecute calls since the last reset)
	var loggedBeforeReset []xentry
	started := false
	reset := func(kind int) {
		loggedBeforeReset, logged, started = logged, nil, false
		fam := "reset"
		if kind == oResetNoInit {
			fam = "reset-no-init"
		}
		ops = append(ops, opT{kind: kind, fam: fam})
	}
	exec := func(x xcmdT, fam string) {
		o := opT{kind: oExec, x: x, cause: genCause(c), fam: fam}
		if x.one != nil && c.Rng.Intn(2) == 0 {
			o.wrapper = true
		}
		if o.cause != nil {
			o.fam += "+cause"
		}
		ops = append(ops, o)
		logged = append(logged, xentry{x, o.cause})
		for _, s := range x.flat() {
			if s.kind == kStartup {
				started = true // (if it is reached; good enough for steering the generator)
			}
		}
	}
	logX := func(l []xentry) xcmdT {
		x := xcmdT{many: []xcmdT{}}
		for _, e := range l {
			x.many = append(x.many, e.x)
		}
		return x
	}
	if reused {
		reset(pick(c, oReset, oResetNoInit))
	}
	n := 2 + c.Rng.Intn(22)
	for len(ops) < n {
		if !started && c.Rng.Intn(100) < 70 {
			// start the TPM, one of the three ways
			st := cmdT{kind: kStartup, l: genLocality(c)}
			switch c.Rng.Intn(4) {
			case 0:
				ops = append(ops, opT{kind: oApply, x: xone(st), fam: "apply:single"})
				started = true
			default:
				exec(xone(st), "exec:single")
			}
			continue
		}
		switch r := c.Rng.Intn(100); {
		case r < 34:
			exec(xone(genSingle(c, started)), "exec:single")
		case r < 58:
			x, fam := genBatch(c, started)
			exec(x, "exec:"+fam)
		case r < 68:
			if c.Rng.Intn(2) == 0 {
				ops = append(ops, opT{kind: oApply, x: xone(genSingle(c, started)), fam: "apply:single"})
			} else {
				x, fam := genBatch(c, started)
				ops = append(ops, opT{kind: oApply, x: x, fam: "apply:" + fam})
			}
		case r < 78:
			ops = append(ops, genSetOp(c))
			if c.Rng.Intn(2) == 0 {
				// ... and extend the bank that was just overridden
				last := ops[len(ops)-1]
				exec(xone(cmdT{kind: kExtend, p: last.p, a: last.a, d: genDigest(c, last.a)}), "exec:single(after set)")
			}
		case r < 84:
			// bruteforce_acm_policy_status: Reset, then the whole log as ONE Commands
			reset(oReset)
			x := logX(loggedBeforeReset)
			o := opT{kind: oExec, x: x, cause: genCause(c), relog: 1, fam: "exec:relog-after-reset"}
			ops = append(ops, o)
			logged = append(logged, xentry{x, o.cause})
			started = true
		case r < 87:
			// the log executed again on the object itself
			x := logX(logged)
			o := opT{kind: pick(c, oExec, oApply), x: x, relog: 2, fam: "relog-on-same-object"}
			ops = append(ops, o)
			if o.kind == oExec {
				logged = append(logged, xentry{x, nil})
			}
		case r < 92:
			reset(oReset)
		default:
			reset(oResetNoInit)
		}
	}
	for i := range ops {
		ops[i].replay = i == len(ops)-1 || c.Rng.Intn(5) == 0
	}
	return ops
}

// ---------------------------------------------------------------- the case

var xShared = tpm.NewTPM()

func runExecCase(c *gal.Ctx) {
	kind, zero, reused := "api/new-object", false, false
	var t *tpm.TPM
	switch c.Rng.Intn(5) {
	case 0, 1:
		t = tpm.NewTPM()
	case 2:
		t, kind, zero = &tpm.TPM{}, "api/zero-value-object", true
	default:
		t, kind, reused = xShared, "api/shared-object", true
	}
	ops := genOps(c, reused)
	fullAt := make([]bool, len(ops))
	for i := range fullAt {
		fullAt[i] = i == len(ops)-1 || c.Rng.Intn(8) == 0 || (i+1 < len(ops) && (ops[i+1].kind == oReset || ops[i+1].kind == oResetNoInit))
	}
	run := driveX(t, zero, ops, fullAt)
	z := "false"
	if zero {
		z = "true"
	}
	lit := fmt.Sprintf("(CExec %s %s %s)", gal.List(run.table), z, gal.List(run.steps))
	idx := c.Add(kind, lit, map[string]interface{}{"object": kind, "operations": opStrings(ops)}, run.okExtends > 0)
	nfail := 0
	if run.failStep >= 0 {
		nfail = 1
	}
	for i := 0; i < run.checks-nfail; i++ {
		c.OracleOK()
	}
	if i := run.failStep; i >= 0 {
		what := fmt.Sprintf("after operation #%d %s: %s", i, ops[i], run.failWhat)
		obj := "new TPM"
		if zero {
			obj = "&tpm.TPM{}"
		}
		var input interface{} = map[string]interface{}{"object": obj, "operations": opStrings(ops[:i+1]), "failing_step": i}
		if reused {
			// the object carries state of earlier cases: look for a closed sequence on a new object
			closed := append(dirtyOps(), ops[:i+1]...)
			cr := driveX(tpm.NewTPM(), false, closed, make([]bool, len(closed)))
			if k := cr.failStep; k >= 0 {
				what = fmt.Sprintf("after operation #%d %s: %s", k, closed[k], cr.failWhat)
				input = map[string]interface{}{"object": "new TPM", "operations": opStrings(closed[:k+1]), "failing_step": k}
			} else {
				input = map[string]interface{}{"object": "TPM object reused from the earlier API-level cases of this run (replay by seed; the case index identifies the operations)",
					"operations": opStrings(ops[:i+1]), "failing_step": i}
			}
		}
		c.OracleFail(idx, what, site, input)
	}
	mergeDist(c, run.dist)
}

// dirtyOps leaves non-zero data in every recycled buffer and entries with causes in the log.
func dirtyOps() []opT {
	var ops []opT
	for i, cm := range dirtyPrefix() {
		ops = append(ops, opT{kind: oExec, x: xone(cm), cause: &causeT{coord: 900 + i, action: 77}, fam: "exec:single+cause"})
	}
	return ops
}
