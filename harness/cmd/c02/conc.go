// Several TPM objects driven at the same time (C02: "hasher pooling").
//
// The property speaks about every command history of a TPM object; nothing in
// it allows the history of ANOTHER object to matter.  The implementation shares
// state between all TPM objects of the process (the pools of hashers), so the
// harness also drives several objects at once, each from its own goroutine and
// each strictly sequentially, and judges every object by its own history alone
// (same reference TPM, same per-command comparison as in the sequential cases).
//
// To make the interleaving a reproducible input instead of luck, the hash
// constructors the implementation obtains through crypto.Hash.New are replaced
// (crypto.RegisterHash, public API) by wrappers around the very same
// crypto/sha* hashers.  In a scheduled case the goroutines run under
// GOMAXPROCS(1) and pass a baton: a goroutine gives up control only at the entry
// or the exit of a Write/Sum/Reset of a pooled hasher and between two of its
// commands, and a PRNG (seeded from ctx.Rng) decides at each such point who
// runs next.  The list of decisions is the schedule; it is recorded, replayed
// on new objects for the failing input, and the hasher operations in the order
// in which they happened are handed to Coq, which replays them on the pool
// model (Model/TPMPool.v).  Outside scheduled cases the wrappers only count.
package main

import (
	"crypto"
	"crypto/sha1"
	"crypto/sha256"
	"crypto/sha512"
	"fmt"
	"hash"
	"math/rand"
	"runtime"
	"strings"
	"sync"
	"sync/atomic"
	"time"

	"github.com/9elements/converged-security-suite/v2/pkg/bootflow/subsystems/trustchains/tpm"
	"verifharness/gal"
)

// ---------------------------------------------------------------- instrumented hashers

type wrapHash struct {
	inner hash.Hash
	alg   uint16 // TPM algorithm id
	buf   []byte // bytes written since the last Reset (what a reset hasher does not have)
	// bookkeeping of the scheduled case that is running
	epoch     int64
	snap      []byte // buf when first touched in this case
	bornActor *actorT
	bornCmd   int
}

var wrapCount int64

func (w *wrapHash) Size() int      { return w.inner.Size() }
func (w *wrapHash) BlockSize() int { return w.inner.BlockSize() }

func (w *wrapHash) Write(p []byte) (n int, err error) {
	hashOp(w, tagWrite, func() {
		n, err = w.inner.Write(p)
		w.buf = append(w.buf, p[:n]...)
	})
	return
}

func (w *wrapHash) Sum(b []byte) (out []byte) {
	hashOp(w, tagSum, func() { out = w.inner.Sum(b) })
	return
}

func (w *wrapHash) Reset() {
	hashOp(w, tagReset, func() {
		w.inner.Reset()
		w.buf = w.buf[:0]
	})
}

func installHashWrappers() {
	for _, x := range []struct {
		h   crypto.Hash
		alg uint16
		mk  func() hash.Hash
	}{
		{crypto.SHA1, 4, sha1.New},
		{crypto.SHA256, 0xB, sha256.New},
		{crypto.SHA384, 0xC, sha512.New384},
		{crypto.SHA512, 0xD, sha512.New},
	} {
		x := x
		crypto.RegisterHash(x.h, func() hash.Hash {
			atomic.AddInt64(&wrapCount, 1)
			w := &wrapHash{inner: x.mk(), alg: x.alg}
			if s := sch; s != nil && s.cur != nil {
				w.epoch, w.bornActor, w.bornCmd = s.epoch, s.cur, s.cur.cmdIdx
			}
			return w
		})
	}
}

// ---------------------------------------------------------------- scheduler

const (
	tagStart = iota
	tagWrite
	tagSum
	tagReset
	tagEnd
)

type traceEv struct {
	actor int
	tag   int
	w     *wrapHash // tagStart: the hasher the command got (nil: none)
	fresh bool      // tagStart: created for this command
}

type actorT struct {
	idx      int
	run      *objRun
	wake     chan struct{}
	finished bool
	cmdIdx   int       // command in flight
	started  int       // commands begun
	startEv  int       // index of its tagStart event
	hasher   *wrapHash // hasher seen during the command in flight
}

type schedFail struct {
	actor, step int
	what        string
	nDecisions  int
	started     []int
}

type scheduler struct {
	epoch     int64
	rng       *rand.Rand // decisions come from here ...
	replay    []int      // ... or, when not nil, from this list
	num, den  int        // probability of moving control at a yield point
	actors    []*actorT
	cur       *actorT
	decisions []int // actor that ran after each yield point
	trace     []traceEv
	fail      *schedFail
	done      chan struct{}
}

// sch is the scheduler of the scheduled case that is running, nil otherwise.
// It is written only while no goroutine but main runs.
var sch *scheduler
var epochs int64

func (s *scheduler) live(except *actorT) []*actorT {
	var l []*actorT
	for _, a := range s.actors {
		if !a.finished && a != except {
			l = append(l, a)
		}
	}
	return l
}

// choose decides who runs after the yield point the running actor has reached
// (stay = true: it may keep running).
func (s *scheduler) choose(me *actorT, stay bool) *actorT {
	others := s.live(me)
	var next *actorT
	if stay {
		next = me
	}
	if s.replay != nil {
		if n := len(s.decisions); n < len(s.replay) {
			if a := s.actors[s.replay[n]]; !a.finished && (stay || a != me) {
				next = a
			}
		}
	} else if len(others) > 0 && (!stay || s.rng.Intn(s.den) < s.num) {
		next = others[s.rng.Intn(len(others))]
	}
	if next == nil && len(others) > 0 {
		next = others[0]
	}
	if next != nil {
		s.decisions = append(s.decisions, next.idx)
	}
	return next
}

func (s *scheduler) yield() {
	me := s.cur
	if next := s.choose(me, true); next != me {
		s.cur = next
		next.wake <- struct{}{}
		<-me.wake
	}
}

// hashOp is every Write/Sum/Reset of a wrapped hasher.
func hashOp(w *wrapHash, tag int, do func()) {
	s := sch
	if s == nil || s.cur == nil {
		do()
		return
	}
	s.yield() // entry
	a := s.cur
	if w.epoch != s.epoch {
		w.epoch, w.snap, w.bornActor = s.epoch, append([]byte{}, w.buf...), nil
	}
	do()
	if a.hasher == nil {
		a.hasher = w
		ev := &s.trace[a.startEv]
		ev.w, ev.fresh = w, w.bornActor == a && w.bornCmd == a.cmdIdx
	}
	s.trace = append(s.trace, traceEv{actor: a.idx, tag: tag, w: w})
	s.yield() // exit
}

func (s *scheduler) actorMain(a *actorT) {
	<-a.wake
	for i := range a.run.hist {
		a.cmdIdx, a.hasher = i, nil
		a.started = i + 1
		s.trace = append(s.trace, traceEv{actor: a.idx, tag: tagStart})
		a.startEv = len(s.trace) - 1
		bad := a.run.step(i) // command, observation of the object, oracle: nothing in between yields but the hashers
		if a.hasher != nil {
			s.trace = append(s.trace, traceEv{actor: a.idx, tag: tagEnd})
		}
		if bad != "" && s.fail == nil {
			f := &schedFail{actor: a.idx, step: i, what: bad, nDecisions: len(s.decisions)}
			for _, b := range s.actors {
				f.started = append(f.started, b.started)
			}
			s.fail = f
		}
		s.yield() // between two commands
	}
	a.finished = true
	if next := s.choose(a, false); next != nil {
		s.cur = next
		next.wake <- struct{}{}
	} else {
		s.cur = nil
		close(s.done)
	}
}

// execSched runs the objects under scheduler s; false if the run got stuck.
func execSched(s *scheduler, runs []*objRun) bool {
	epochs++
	s.epoch, s.done = epochs, make(chan struct{})
	for i, r := range runs {
		s.actors = append(s.actors, &actorT{idx: i, run: r, wake: make(chan struct{})})
	}
	prev := runtime.GOMAXPROCS(1) // one P: a hasher that was Put is what the next Get returns
	defer runtime.GOMAXPROCS(prev)
	sch = s
	defer func() { sch = nil }()
	for _, a := range s.actors {
		go s.actorMain(a)
	}
	first := s.choose(nil, false)
	if first == nil {
		return true
	}
	s.cur = first
	first.wake <- struct{}{}
	select {
	case <-s.done:
		return true
	case <-time.After(60 * time.Second):
		return false
	}
}

func rle(dec []int) string {
	var b strings.Builder
	for i := 0; i < len(dec); {
		j := i
		for j < len(dec) && dec[j] == dec[i] {
			j++
		}
		if b.Len() > 0 {
			b.WriteByte(' ')
		}
		fmt.Fprintf(&b, "%c*%d", 'A'+dec[i], j-i)
		i = j
	}
	return b.String()
}

const scheduleLegend = "one goroutine per object, GOMAXPROCS(1); a goroutine can lose control only at the entry and at the exit of a Write/Sum/Reset " +
	"of a hasher obtained through crypto.Hash.New (wrappers around crypto/sha*) and after each of its commands; 'X*n' = after the next n such points object X runs (the first item: who starts)"

// ---------------------------------------------------------------- scheduled case

func concAlg(c *gal.Ctx) uint16 {
	a := genAlg(c)
	if a >= 39 && a <= 41 {
		// SHA3: a hash for go-tpm, but not one of the wrapped constructors (and not always linked)
		a = 0xC
	}
	return a
}

// history of one of the objects: mostly executable extends of the bank algorithm
// the objects of the case have in common, mixed with everything else
func genConcHist(c *gal.Ctx, mainAlg uint16, veteran bool) []cmdT {
	var h []cmdT
	if veteran {
		h = append(h, cmdT{kind: pick(c, kReset, kResetNoInit)})
	}
	if c.Rng.Intn(10) > 0 {
		h = append(h, cmdT{kind: kStartup, l: genLocality(c)})
	}
	n := len(h) + 1 + c.Rng.Intn(11)
	for len(h) < n {
		switch r := c.Rng.Intn(100); {
		case r < 55:
			a := mainAlg
			if c.Rng.Intn(5) == 0 {
				a = pick[uint16](c, 4, 0xB)
			}
			h = append(h, cmdT{kind: kExtend, p: uint8(c.Rng.Intn(2)), a: a, d: genDigest(c, a)})
		case r < 72:
			a := concAlg(c)
			h = append(h, cmdT{kind: kExtend, p: genPCR(c), a: a, d: genDigest(c, a)})
		case r < 80:
			x := genLogAdd(c)
			x.a = concAlg(c)
			h = append(h, x)
		case r < 88:
			h = append(h, cmdT{kind: kStartup, l: genLocality(c)})
		case r < 94:
			h = append(h, cmdT{kind: kReset}, cmdT{kind: kStartup, l: genLocality(c)})
		default:
			h = append(h, cmdT{kind: kResetNoInit}, cmdT{kind: kStartup, l: genLocality(c)})
		}
	}
	return h
}

func objName(i int) string { return string(rune('A' + i)) }

func runConcCase(c *gal.Ctx, vets []*tpm.TPM) {
	k := 2
	if c.Rng.Intn(3) == 0 {
		k = 3
	}
	mainAlg := pick[uint16](c, 4, 0xB)
	runs := make([]*objRun, k)
	hists := make([][]cmdT, k)
	fulls := make([][]bool, k)
	kinds := make([]string, k)
	for i := 0; i < k; i++ {
		veteran := c.Rng.Intn(2) == 0
		t := vets[i]
		kinds[i] = "TPM object reused from earlier cases"
		if !veteran {
			t, kinds[i] = tpm.NewTPM(), "new TPM"
		}
		hists[i] = genConcHist(c, mainAlg, veteran)
		fulls[i] = fullSteps(c, len(hists[i]), nil)
		runs[i] = newObjRun(t, hists[i], fulls[i])
	}
	odds := pick(c, [2]int{1, 2}, [2]int{1, 2}, [2]int{1, 4}, [2]int{3, 4}, [2]int{1, 8})
	s := &scheduler{rng: rand.New(rand.NewSource(c.Rng.Int63())), num: odds[0], den: odds[1]}
	descr := func(dec []int) map[string]interface{} {
		objs := make([]interface{}, k)
		for i := range objs {
			objs[i] = map[string]interface{}{"name": objName(i), "object": kinds[i], "history": histStrings(hists[i])}
		}
		return map[string]interface{}{"objects": objs, "schedule": rle(dec), "schedule_legend": scheduleLegend}
	}
	c.Begin("objects driven at the same time", site, descr(nil))
	finished := execSched(s, runs)

	// ---- the case for Coq
	// hashers: those that existed before the case (numbered in the order in which the pool handed
	// them out), then those created during the case
	ids := map[*wrapHash]int{}
	var hs []string
	for _, e := range s.trace {
		if e.tag == tagStart && e.w != nil && !e.fresh {
			if _, ok := ids[e.w]; !ok {
				ids[e.w] = len(ids)
				hs = append(hs, gal.Pair(fmt.Sprint(e.w.alg), bsLit(e.w.snap)))
			}
		}
	}
	for _, e := range s.trace {
		if e.tag == tagStart && e.w != nil && e.fresh {
			if _, ok := ids[e.w]; !ok {
				ids[e.w] = len(ids)
			}
		}
	}
	tr := make([]string, len(s.trace))
	for i, e := range s.trace {
		switch e.tag {
		case tagStart:
			pk := "PNone"
			if e.w != nil {
				pk = "PFresh"
				if !e.fresh {
					pk = fmt.Sprintf("(PPooled %d)", ids[e.w])
				}
			}
			tr[i] = fmt.Sprintf("EStart %d %s", e.actor, pk)
		case tagWrite:
			tr[i] = fmt.Sprintf("EWrite %d", e.actor)
		case tagSum:
			tr[i] = fmt.Sprintf("ESum %d", e.actor)
		case tagReset:
			tr[i] = fmt.Sprintf("EReset %d", e.actor)
		case tagEnd:
			tr[i] = fmt.Sprintf("EEnd %d", e.actor)
		}
	}
	var table, objs []string
	checks, withExtend := 0, 0
	for _, r := range runs {
		table = append(table, r.ref.table...)
		objs = append(objs, gal.List(r.steps))
		checks += r.checks
		if r.okExtends > 0 {
			withExtend++
		}
	}
	lit := fmt.Sprintf("(CConc %s %s %s (Some %s))", gal.List(table), gal.List(hs), gal.List(objs), gal.List(tr))
	kind := fmt.Sprintf("objects-scheduled/%d", k)
	idx := c.Add(kind, lit, descr(s.decisions), withExtend >= 2)
	c.Count(fmt.Sprintf("objects-scheduled:switch-odds-%d/%d", odds[0], odds[1]))

	// ---- oracle
	switch {
	case !finished:
		c.OracleFail(idx, "the objects did not finish their histories within 60 s", site, descr(s.decisions))
	case s.fail == nil:
		for i := 0; i < checks; i++ {
			c.OracleOK()
		}
	default:
		for i := 0; i < checks-1; i++ {
			c.OracleOK()
		}
		f := s.fail
		what := fmt.Sprintf("object %s after its command #%d %s: %s", objName(f.actor), f.step, hists[f.actor][f.step], f.what)
		input := descr(s.decisions[:f.nDecisions])
		input["failing_object"], input["failing_step"] = objName(f.actor), f.step
		// closed form: NEW objects, only the commands begun so far, the same decisions
		trunc := make([][]cmdT, k)
		for i := range trunc {
			trunc[i] = hists[i][:f.started[i]]
		}
		alone := append(dirtyPrefix(), hists[f.actor][:f.step+1]...)
		if j, w := closedRepro(alone); j >= 0 {
			// the failing object alone, sequentially: the other objects do not matter
			what = fmt.Sprintf("after command #%d %s: %s", j, alone[j], w)
			input = map[string]interface{}{"object": "new TPM", "history": histStrings(alone[:j+1]), "failing_step": j}
		} else if w2, in2 := closedSched(trunc, s.decisions[:f.nDecisions]); in2 != nil {
			what, input = w2, in2
			// look for the same kind of failure in the smallest scope: two new objects, startup + one extend each
			if w3, in3 := smallScope(c, hists[f.actor][f.step]); in3 != nil {
				what, input = w3, in3
			}
		} else {
			input["note"] = "not reproduced on new objects with the same schedule: depends on objects / pooled hashers left by earlier cases (replay by seed)"
		}
		c.OracleFail(idx, what, site, input)
	}
	for _, h := range hists {
		for _, cm := range h {
			c.Count("cmd:" + cmdNames[cm.kind])
		}
	}
	for _, r := range runs {
		mergeDist(c, r.dist)
	}
}

// closedSched runs the histories on NEW objects under the given decisions; if
// the oracle rejects a step, returns what and the closed input (objects,
// histories cut to the commands begun, schedule cut to the failure).
func closedSched(hists [][]cmdT, decisions []int) (string, map[string]interface{}) {
	s := &scheduler{replay: append([]int{}, decisions...)}
	runs := make([]*objRun, len(hists))
	for i := range runs {
		runs[i] = newObjRun(tpm.NewTPM(), hists[i], make([]bool, len(hists[i])))
	}
	if !execSched(s, runs) || s.fail == nil {
		return "", nil
	}
	g := s.fail
	objs := make([]interface{}, len(hists))
	for i := range objs {
		objs[i] = map[string]interface{}{"name": objName(i), "object": "new TPM", "history": histStrings(hists[i][:g.started[i]])}
	}
	return fmt.Sprintf("object %s after its command #%d %s: %s", objName(g.actor), g.step, hists[g.actor][g.step], g.what),
		map[string]interface{}{"objects": objs, "schedule": rle(s.decisions[:g.nDecisions]), "schedule_legend": scheduleLegend,
			"failing_object": objName(g.actor), "failing_step": g.step}
}

var smallScopeDone bool

// smallScope is run once per harness run, after a scheduled case failed at
// command cm: it searches schedules of the smallest scenario of that shape --
// two new objects, each started and given one command like cm -- and returns
// the first one the oracle rejects (confirmed by a second run from the recorded
// decisions).
func smallScope(c *gal.Ctx, cm cmdT) (string, map[string]interface{}) {
	if smallScopeDone || cm.kind != kExtend {
		return "", nil
	}
	smallScopeDone = true
	other := cm
	other.d = make([]byte, len(cm.d))
	for i := range other.d {
		other.d[i] = cm.d[i] ^ 0xFF
	}
	if len(other.d) == 0 {
		other.d = []byte{0xA5}
	}
	// different localities and digests: the two objects never hold equal values
	hists := [][]cmdT{{{kind: kStartup, l: 0xA1}, other}, {{kind: kStartup, l: 0xB2}, cm}}
	for try := 0; try < 400; try++ {
		s := &scheduler{rng: rand.New(rand.NewSource(c.Rng.Int63())), num: 1, den: 2 + try%3}
		runs := make([]*objRun, 2)
		for i := range runs {
			runs[i] = newObjRun(tpm.NewTPM(), hists[i], make([]bool, 2))
		}
		if !execSched(s, runs) || s.fail == nil {
			continue
		}
		if what, input := closedSched(hists, s.decisions[:s.fail.nDecisions]); input != nil {
			return what, input
		}
	}
	return "", nil
}

// ---------------------------------------------------------------- really parallel case

func runParCase(c *gal.Ctx, vets []*tpm.TPM) {
	const k = 4
	runs := make([]*objRun, k)
	hists := make([][]cmdT, k)
	kinds := make([]string, k)
	for i := 0; i < k; i++ {
		t := vets[i]
		kinds[i] = "TPM object reused from earlier cases"
		var h []cmdT
		if c.Rng.Intn(2) == 0 {
			t, kinds[i] = tpm.NewTPM(), "new TPM"
		} else {
			h = append(h, cmdT{kind: pick(c, kReset, kResetNoInit)})
		}
		life, segEnd := genLife(c, 3, 40)
		se := map[int]bool{}
		for j := range segEnd {
			se[j+len(h)] = true
		}
		hists[i] = append(h, life...)
		runs[i] = newObjRun(t, hists[i], fullSteps(c, len(hists[i]), se))
	}
	var wg sync.WaitGroup
	start := make(chan struct{})
	for _, r := range runs {
		wg.Add(1)
		go func(r *objRun) {
			defer wg.Done()
			<-start
			for i := range r.hist {
				r.step(i)
			}
		}(r)
	}
	close(start)
	wg.Wait()

	var table, objs []string
	checks, withExtend := 0, 0
	for _, r := range runs {
		table = append(table, r.ref.table...)
		objs = append(objs, gal.List(r.steps))
		checks += r.checks
		if r.okExtends > 0 {
			withExtend++
		}
	}
	objsJ := make([]interface{}, k)
	for i := range objsJ {
		objsJ[i] = map[string]interface{}{"name": objName(i), "object": kinds[i], "history": histStrings(hists[i])}
	}
	lit := fmt.Sprintf("(CConc %s [] %s None)", gal.List(table), gal.List(objs))
	idx := c.Add("objects-parallel/4", lit, map[string]interface{}{"objects": objsJ, "schedule": "parallel goroutines, not controlled"}, withExtend >= 2)
	for i, r := range runs {
		n := r.checks
		if st := r.failStep; st >= 0 {
			n--
			what := fmt.Sprintf("object %s after its command #%d %s: %s", objName(i), st, hists[i][st], r.failWhat)
			if k, w := closedRepro(append(dirtyPrefix(), hists[i][:st+1]...)); k >= 0 {
				// not a matter of the other objects at all
				closed := append(dirtyPrefix(), hists[i][:st+1]...)
				c.OracleFail(idx, fmt.Sprintf("after command #%d %s: %s", k, closed[k], w), site,
					map[string]interface{}{"object": "new TPM", "history": histStrings(closed[:k+1]), "failing_step": k})
			} else {
				c.OracleFail(idx, what, site, map[string]interface{}{"objects": objsJ, "failing_object": objName(i), "failing_step": st,
					"schedule": "one goroutine per object, running in parallel (GOMAXPROCS=" + fmt.Sprint(runtime.GOMAXPROCS(0)) +
						"); not reproduced by the failing object alone, so it depends on the interleaving with the other objects (not controlled in this kind of case)"})
			}
		}
		for j := 0; j < n; j++ {
			c.OracleOK()
		}
	}
	for _, h := range hists {
		for _, cm := range h {
			c.Count("cmd:" + cmdNames[cm.kind])
		}
	}
	for _, r := range runs {
		mergeDist(c, r.dist)
	}
}
