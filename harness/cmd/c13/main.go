// C13 correspondence harness: pcrbruteforcer.ReproduceEventLog (and, through the
// add-only hook export_c13_verif.go, eventAndMeasurementsDistance and
// bruteForceAlignedEventLogs) against Model/EventLogAlign.v, plus the independent
// oracle of the property: conservation of both event sequences, truthful
// per-entry verdicts (recomputed with Go crypto; on edit scripts with a ground truth the
// verdicts of the script; no mismatch entry of two unrelated events while the settings
// allow to leave both out), identical log => no issues, no panic.
package main

import (
	"bufio"
	"bytes"
	"context"
	"crypto/sha1"
	"crypto/sha256"
	"encoding/binary"
	"encoding/hex"
	"fmt"
	"math/bits"
	"math/rand"
	"os"
	"os/exec"
	"runtime"
	"strings"
	"syscall"
	"time"

	"github.com/9elements/converged-security-suite/v2/pkg/bootflow/actions/tpmactions"
	"github.com/9elements/converged-security-suite/v2/pkg/bootflow/actors"
	"github.com/9elements/converged-security-suite/v2/pkg/bootflow/actors/intelactors"
	"github.com/9elements/converged-security-suite/v2/pkg/bootflow/bootengine"
	"github.com/9elements/converged-security-suite/v2/pkg/bootflow/datasources"
	"github.com/9elements/converged-security-suite/v2/pkg/bootflow/steps/commonsteps"
	"github.com/9elements/converged-security-suite/v2/pkg/bootflow/steps/intelsteps"
	"github.com/9elements/converged-security-suite/v2/pkg/bootflow/steps/tpmsteps"
	"github.com/9elements/converged-security-suite/v2/pkg/bootflow/subsystems/trustchains/intelpch"
	"github.com/9elements/converged-security-suite/v2/pkg/bootflow/subsystems/trustchains/tpm"
	"github.com/9elements/converged-security-suite/v2/pkg/bootflow/subsystems/trustchains/tpm/pcrbruteforcer"
	"github.com/9elements/converged-security-suite/v2/pkg/bootflow/systemartifacts/biosimage"
	"github.com/9elements/converged-security-suite/v2/pkg/bootflow/systemartifacts/txtpublic"
	"github.com/9elements/converged-security-suite/v2/pkg/bootflow/types"
	"github.com/9elements/converged-security-suite/v2/pkg/registers"
	"github.com/9elements/converged-security-suite/v2/pkg/tpmeventlog"
	ffsConsts "github.com/9elements/converged-security-suite/v2/pkg/uefi/ffs/consts"
	"github.com/9elements/converged-security-suite/v2/testdata/firmware"
	"github.com/google/go-tpm/legacy/tpm2"
	pkgbytes "github.com/linuxboot/fiano/pkg/bytes"
	"github.com/linuxboot/fiano/pkg/guid"
	"verifharness/gal"
)

const baseHeader = "From CSS Require Import Lib.Base Lib.Cases Model.EventLog Model.EventLogAlign Model.EventLogAlignCases."

const (
	findUnhash = "C13-unhash-concurrent-found-digests"
	findD20    = "C13-D20-rangesToChunks-index"
	findNilM   = "C13-nil-measurement-deref"
	findRange  = "C13-range-beyond-image"
	findOneReg = "C13-single-corrected-register"
)

const physBase = uint64(0x100000000)

const (
	evPostCode = tpmeventlog.EV_POST_CODE
	evBlob2    = tpmeventlog.EV_EFI_PLATFORM_FIRMWARE_BLOB2
	evNoAction = tpmeventlog.EV_NO_ACTION
)

// ---------------------------------------------------------------- boots

type boot struct {
	name       string
	coq        string // name of the Coq constant
	tp         *tpm.TPM
	proc       *bootengine.BootProcess
	regs       bool
	isz        uint64
	simErrSHA1 bool // the flow is one alignLogAndMeasurements rejects (for the SHA1 bank)
	def        string
	measOf     []int // per tpm.CommandLog entry: index in State.MeasuredData of measuredDataMap[CauseAction], -1 = nil
}

func mkState(reg uint64, withRegs bool, flow types.Flow) (*tpm.TPM, *bootengine.BootProcess) {
	tpmInstance := tpm.NewTPM()
	s := types.NewState()
	s.IncludeSubSystem(tpmInstance)
	s.IncludeSubSystem(intelpch.NewPCH())
	s.IncludeSystemArtifact(biosimage.New(firmware.FakeIntelFirmware))
	if withRegs {
		s.IncludeSystemArtifact(txtpublic.New(registers.Registers{registers.ParseACMPolicyStatusRegister(reg)}))
	}
	s.SetFlow(flow)
	return tpmInstance, bootengine.NewBootProcess(s)
}

// refsSource is a data source with SEVERAL references, as real measurements have them (PCR0_DATA: registers +
// hard-coded bytes + image ranges): each item is a hard-coded value (raw != nil) or ranges of the BIOS image
// in physical addresses.
type refSpec struct {
	raw    []byte
	ranges pkgbytes.Ranges
}

type refsSource []refSpec

func (rs refsSource) Data(_ context.Context, s *types.State) (*types.Data, error) {
	img, err := biosimage.Get(s)
	if err != nil {
		return nil, err
	}
	var refs types.References
	for _, r := range rs {
		if r.raw != nil {
			refs = append(refs, *types.NewReference(types.RawBytes(r.raw)))
			continue
		}
		refs = append(refs, types.Reference{Artifact: img, MappedRanges: types.MappedRanges{
			AddressMapper: biosimage.PhysMemMapper{}, Ranges: append(pkgbytes.Ranges{}, r.ranges...)}})
	}
	return types.NewData(refs), nil
}

func (rs refsSource) String() string { return fmt.Sprintf("refsSource(%d references)", len(rs)) }

func imgRef(off, length uint64) refSpec {
	return refSpec{ranges: pkgbytes.Ranges{{Offset: off, Length: length}}}
}

var dxe = datasources.UEFIGUIDFirst([]guid.GUID{ffsConsts.GUIDDXEContainer, ffsConsts.GUIDDXE})

func flows() []struct {
	name string
	reg  uint64
	regs bool
	flow types.Flow
	bad  bool
} {
	type F = struct {
		name string
		reg  uint64
		regs bool
		flow types.Flow
		bad  bool
	}
	return []F{
		// the flow of the package's own test
		{"intel-test-flow", 0x0000000200108681, true, types.NewFlow("c13-flow-a", types.Steps{
			commonsteps.SetActor(intelactors.PCH{}),
			commonsteps.SetActor(intelactors.ACM{}),
			tpmsteps.InitTPM(3, true),
			intelsteps.MeasurePCR0DATA{},
			commonsteps.SetActor(actors.PEI{}),
			tpmsteps.Measure(0, tpmeventlog.EV_S_CRTM_VERSION, datasources.Bytes{0x1e, 0xfb, 0x6b, 0x54, 0x0c, 0x1d, 0x55, 0x40}),
			tpmsteps.Measure(0, evBlob2, dxe),
			tpmsteps.Measure(0, tpmeventlog.EV_SEPARATOR, datasources.Bytes{0, 0, 0, 0}),
			commonsteps.SetActor(actors.DXE{}),
		}), false},
		// small register (decrements wrap below zero), no startup-locality entry, POST_CODE measurements,
		// a PCR1 measurement (filtered out), two measurements in one step
		{"intel-small-reg", 2, true, types.NewFlow("c13-flow-b", types.Steps{
			commonsteps.SetActor(intelactors.ACM{}),
			tpmsteps.InitTPM(0, false),
			intelsteps.MeasurePCR0DATA{},
			commonsteps.SetActor(actors.PEI{}),
			tpmsteps.Measure(0, evPostCode, dxe),
			tpmsteps.Measure(1, tpmeventlog.EV_EFI_VARIABLE_DRIVER_CONFIG, datasources.Bytes{1, 2, 3}),
			types.StaticStep{
				tpmactions.NewTPMEvent(0, datasources.Bytes{9, 9}, evPostCode, []byte("two-in-one-step A")),
				tpmactions.NewTPMEvent(0, dxe, evBlob2, nil),
			},
			tpmsteps.Measure(0, tpmeventlog.EV_SEPARATOR, datasources.Bytes{0, 0, 0, 0}),
		}), false},
		// no TXT registers, no PCR0_DATA; startup locality entry and a log-only entry
		{"no-txt-registers", 0, false, types.NewFlow("c13-flow-c", types.Steps{
			commonsteps.SetActor(actors.PEI{}),
			tpmsteps.InitTPM(3, true),
			tpmsteps.Measure(0, tpmeventlog.EV_S_CRTM_VERSION, datasources.Bytes{7}),
			types.StaticStep{
				tpmactions.NewTPMEventLogAdd(0, tpm2.AlgSHA1, bytes.Repeat([]byte{0x5a}, 20), tpmeventlog.EV_EFI_ACTION, []byte("log only")),
			},
			tpmsteps.Measure(0, evBlob2, dxe),
			tpmsteps.Measure(0, evPostCode, datasources.Bytes{4, 5, 6, 7}),
		}), false},
		// TXT registers present, startup locality entry, no PCR0_DATA measurement at all
		{"regs-no-pcr0data", 0x0000000200108681, true, types.NewFlow("c13-flow-d", types.Steps{
			commonsteps.SetActor(actors.PEI{}),
			tpmsteps.InitTPM(3, true),
			tpmsteps.Measure(0, evPostCode, dxe),
			tpmsteps.Measure(0, tpmeventlog.EV_SEPARATOR, datasources.Bytes{0, 0, 0, 0}),
		}), false},
		// PCR0_DATA measured twice: two repairable entries, one returned register
		{"two-pcr0data", 0x0000000200108681, true, types.NewFlow("c13-flow-f", types.Steps{
			commonsteps.SetActor(intelactors.ACM{}),
			tpmsteps.InitTPM(0, false),
			intelsteps.MeasurePCR0DATA{},
			tpmsteps.Measure(0, tpmeventlog.EV_SEPARATOR, datasources.Bytes{0, 0, 0, 0}),
			intelsteps.MeasurePCR0DATA{},
		}), false},
		// an Extend without an EventLog entry: alignLogAndMeasurements refuses
		{"extend-without-log", 0, false, types.NewFlow("c13-flow-e", types.Steps{
			tpmsteps.InitTPM(3, true),
			tpmsteps.Measure(0, evPostCode, datasources.Bytes{1}),
			types.StaticStep{tpmactions.NewTPMExtend(0, datasources.Bytes{2}, tpm2.AlgSHA1)},
		}), true},
		// measurements with two and three references (image ranges and hard-coded values mixed) behind entries
		// of the two types whose event data is parsed; no TXT registers
		{"multi-reference", 0, false, types.NewFlow("c13-flow-g", types.Steps{
			commonsteps.SetActor(actors.PEI{}),
			tpmsteps.InitTPM(0, false),
			tpmsteps.Measure(0, evBlob2, refsSource{imgRef(0xffff0000, 0x40), imgRef(0xffff8000, 0x80)}),
			tpmsteps.Measure(0, evPostCode, refsSource{{raw: []byte("hard-coded")}, imgRef(0xffff4000, 0x20)}),
			tpmsteps.Measure(0, evBlob2, refsSource{imgRef(0xffffc000, 0x10), {raw: []byte{1, 2, 3, 4}}, imgRef(0xffffe000, 0x100)}),
			tpmsteps.Measure(0, evPostCode, refsSource{{raw: []byte{0xaa}}, {raw: []byte{0xbb, 0xcc}}}),
			tpmsteps.Measure(0, tpmeventlog.EV_SEPARATOR, datasources.Bytes{0, 0, 0, 0}),
		}), false},
	}
}

func refKind(a types.SystemArtifact) int {
	switch a.(type) {
	case *biosimage.BIOSImage:
		return 0
	case types.RawBytes:
		return 1
	case *txtpublic.TXTPublic:
		return 2
	}
	return 3
}

func le64first(b []byte) uint64 {
	if len(b) < 8 {
		return 0
	}
	return binary.LittleEndian.Uint64(b[:8])
}

func measLit(s *types.State, idx int) string {
	if idx < 0 {
		return "None"
	}
	m := &s.MeasuredData[idx]
	var raw []byte
	gal.Recover(func() { raw = m.RawBytes() })
	refs := []string{}
	for _, r := range m.References {
		rs := []string{}
		for _, x := range r.Ranges {
			rs = append(rs, gal.Pair(gal.U(x.Offset), gal.U(x.Length)))
		}
		refs = append(refs, fmt.Sprintf("(mkRef %d %s)", refKind(r.Artifact), gal.List(rs)))
	}
	return fmt.Sprintf("(Some (mkMeas %d %s %s))", idx, gal.U(le64first(raw)), gal.List(refs))
}

func simLit(i int, e *tpm.EventLogEntry) string {
	return fmt.Sprintf("(mkSim %d %s %s)", i, gal.U(uint64(e.Type)), gal.Bytes(e.Digest))
}

func buildBoots() []*boot {
	ctx := context.Background()
	var out []*boot
	for i, f := range flows() {
		tp, proc := mkState(f.reg, f.regs, f.flow)
		proc.Finish(ctx)
		b := &boot{name: f.name, coq: fmt.Sprintf("boot%d", i), tp: tp, proc: proc, regs: f.regs, simErrSHA1: f.bad,
			isz: uint64(len(firmware.FakeIntelFirmware))}
		s := proc.CurrentState
		// command log as alignLogAndMeasurements reads it
		var cmds []string
		var prev types.ActionCoordinates
		for ci := range tp.CommandLog {
			le := &tp.CommandLog[ci]
			coords := le.CauseCoordinates
			newstep := !(coords.Flow.Name == prev.Flow.Name && coords.StepIndex == prev.StepIndex)
			if newstep {
				prev = coords
			}
			mi := -1
			for j := range s.MeasuredData {
				if s.MeasuredData[j].TrustChain == types.TrustChain(tp) && s.MeasuredData[j].Action != nil && s.MeasuredData[j].Action == le.CauseAction {
					mi = j
					break
				}
			}
			b.measOf = append(b.measOf, mi)
			var c string
			switch cmd := le.Command.(type) {
			case *tpm.CommandExtend:
				c = fmt.Sprintf("SExtend %d %d %s", cmd.PCRIndex, cmd.HashAlgo, measLit(s, mi))
			case *tpm.CommandEventLogAdd:
				c = fmt.Sprintf("SLogAdd %d %d", cmd.PCRIndex, cmd.HashAlgo)
			default:
				c = "SOther"
			}
			cmds = append(cmds, fmt.Sprintf("(%s, %s)", gal.Bool(newstep), c))
		}
		var evs []string
		for ei := range tp.EventLog {
			evs = append(evs, simLit(ei, &tp.EventLog[ei]))
			if mi := b.measurementOfEvent(ei); mi >= 0 {
				gal.Recover(func() {
					noteFindable(tp.EventLog[ei].HashAlgo, s.MeasuredData[mi].ConvertedBytes())
					noteFindable(tp.EventLog[ei].HashAlgo, s.MeasuredData[mi].RawBytes())
				})
			}
		}
		b.def = fmt.Sprintf("Definition %s : boot := mkBoot %d %s\n  %s\n  %s.", b.coq, b.isz, gal.Bool(b.regs), gal.List(cmds), gal.List(evs))
		out = append(out, b)
	}
	return out
}

func (b *boot) simErr(alg tpm2.Algorithm) bool { return b.simErrSHA1 && alg == tpm2.AlgSHA1 }

// simulated events of PCR0 and the bank, as indexes into tp.EventLog
func (b *boot) simIdx(alg tpm2.Algorithm) []int {
	var r []int
	for i := range b.tp.EventLog {
		if b.tp.EventLog[i].PCRIndex == 0 && b.tp.EventLog[i].HashAlgo == alg {
			r = append(r, i)
		}
	}
	return r
}

// the PCR0_DATA measurement of the bank (the step is intelsteps.MeasurePCR0DATA and its digest is the
// digest of a simulated event of the bank): index in MeasuredData and in tp.EventLog, raw bytes
func (b *boot) pcr0(alg tpm2.Algorithm) (mIdx, evIdx int, raw []byte) {
	s := b.proc.CurrentState
	for j := range s.MeasuredData {
		m := &s.MeasuredData[j]
		if _, ok := m.Step.(intelsteps.MeasurePCR0DATA); !ok {
			continue
		}
		r := m.RawBytes()
		d := hashOf(alg, r)
		for _, i := range b.simIdx(alg) {
			if bytes.Equal(b.tp.EventLog[i].Digest, d) {
				return j, i, r
			}
		}
	}
	return -1, -1, nil
}

// the measurement whose data hashes to the digest of simulated event i (-1: none, the event was only logged);
// measurements with identical data are told apart by their order
func (b *boot) measurementOfEvent(i int) int {
	s := b.proc.CurrentState
	ev := &b.tp.EventLog[i]
	// rank of the event among the events of its bank with the same digest
	rank := 0
	for j := 0; j < i; j++ {
		if b.tp.EventLog[j].PCRIndex == ev.PCRIndex && b.tp.EventLog[j].HashAlgo == ev.HashAlgo && bytes.Equal(b.tp.EventLog[j].Digest, ev.Digest) {
			rank++
		}
	}
	for j := range s.MeasuredData {
		m := &s.MeasuredData[j]
		if m.TrustChain != types.TrustChain(b.tp) {
			continue
		}
		var cb, rb []byte
		if pan, _ := gal.Recover(func() { cb = m.ConvertedBytes(); rb = m.RawBytes() }); pan {
			continue
		}
		// the action hashes the (converted) data, or the converter already is the hash
		if bytes.Equal(hashOf(ev.HashAlgo, cb), ev.Digest) || bytes.Equal(cb, ev.Digest) || bytes.Equal(hashOf(ev.HashAlgo, rb), ev.Digest) {
			if rank == 0 {
				return j
			}
			rank--
		}
	}
	return -1
}

type pcr0Info struct {
	m, ev int
	raw   []byte
}

// all PCR0_DATA measurements of the bank, paired in order with the simulated events carrying their digest
func (b *boot) pcr0All(alg tpm2.Algorithm) []pcr0Info {
	s := b.proc.CurrentState
	used := map[int]bool{}
	var out []pcr0Info
	for j := range s.MeasuredData {
		m := &s.MeasuredData[j]
		if _, ok := m.Step.(intelsteps.MeasurePCR0DATA); !ok {
			continue
		}
		r := m.RawBytes()
		d := hashOf(alg, r)
		for _, i := range b.simIdx(alg) {
			if !used[i] && bytes.Equal(b.tp.EventLog[i].Digest, d) {
				used[i] = true
				out = append(out, pcr0Info{j, i, r})
				break
			}
		}
	}
	return out
}

func hashOf(alg tpm2.Algorithm, msg []byte) []byte {
	switch alg {
	case tpm2.AlgSHA1:
		h := sha1.Sum(msg)
		return h[:]
	case tpm2.AlgSHA256:
		h := sha256.Sum256(msg)
		return h[:]
	}
	return nil
}

func hashSize(alg tpm2.Algorithm) int {
	h, err := alg.Hash()
	if err != nil {
		return -1
	}
	return h.Size()
}

// ---------------------------------------------------------------- recorded logs

func cloneEvent(e *tpmeventlog.Event) *tpmeventlog.Event {
	c := &tpmeventlog.Event{PCRIndex: e.PCRIndex, Type: e.Type}
	if e.Data != nil {
		c.Data = append([]byte{}, e.Data...)
	}
	if e.Digest != nil {
		c.Digest = &tpmeventlog.Digest{HashAlgo: e.Digest.HashAlgo, Digest: append([]byte{}, e.Digest.Digest...)}
	}
	return c
}

func recFromSim(b *boot) []*tpmeventlog.Event {
	var r []*tpmeventlog.Event
	for i := range b.tp.EventLog {
		e := &b.tp.EventLog[i]
		ev := &tpmeventlog.Event{PCRIndex: e.PCRIndex, Type: e.Type,
			Digest: &tpmeventlog.Digest{HashAlgo: e.HashAlgo, Digest: append([]byte{}, e.Digest...)}}
		if e.Data != nil {
			ev.Data = append([]byte{}, e.Data...)
		}
		r = append(r, ev)
	}
	return r
}

func selected(e *tpmeventlog.Event, alg tpm2.Algorithm) bool {
	return e.PCRIndex == 0 && e.Digest != nil && e.Digest.HashAlgo == alg
}

func bankPos(evs []*tpmeventlog.Event, alg tpm2.Algorithm) []int {
	var r []int
	for i, e := range evs {
		if selected(e, alg) {
			r = append(r, i)
		}
	}
	return r
}

func pair16(length, offset uint64) []byte {
	d := make([]byte, 16)
	binary.LittleEndian.PutUint64(d[0:], length)
	binary.LittleEndian.PutUint64(d[8:], offset)
	return d
}

// kinds of (length, offset) pairs in event data
const (
	pkEmpty   = 'E' // length 0 at an offset inside the mapped image
	pkReal    = 'R' // 1..64 bytes inside the image
	pkSwapped = 'S' // like R, stored offset first
	pkEmptySw = 'Z' // like E, stored offset first
	pkAtEnd   = 'X' // ends exactly at the image end
	pkPastEnd = 'P' // reaches past the image end
	pkWide    = 'W' // a record of two 64-bit numbers: an address (mostly of the window) next to a boundary value of the 64-bit range, either field first
)

// ---- records whose two fields are arbitrary 64-bit numbers.  The event data is the recorded log's own, so a field
// may be any number below 2^64.  The generator takes them from the boundaries of the 64-bit range as seen from the
// format (a length is at most the image size, an offset lies in the window [4 GiB - image size, 4 GiB) the image is
// mapped to): values at / next to those bounds, powers of two, and the numbers with which a sum of the two fields, or
// of the length and the offset inside the image, wraps around 2^64 to a small value.
type wideField struct {
	name string
	v    uint64
}

// addresses inside the window ...
func wideOffsetsInside(rng *rand.Rand, isz uint64) []wideField {
	base := physBase - isz
	return []wideField{
		{"the first address of the window", base},
		{"an address near the start of the window", base + 1 + uint64(rng.Intn(4096))},
		{"an address inside the window", base + 4097 + uint64(rng.Intn(int(isz-8192)))},
		{"the last address of the window", physBase - 1},
	}
}

// ... and numbers that are no address of the window
func wideOffsetsOutside(rng *rand.Rand, isz uint64) []wideField {
	base := physBase - isz
	return []wideField{
		{"one below the window", base - 1},
		{"4 GiB (one above the window)", physBase},
		{"0", 0},
		{"an offset inside the image file (not a physical address)", 1 + uint64(rng.Intn(int(isz-1)))},
		{"2^63 + an address of the window", 1<<63 + base + uint64(rng.Intn(int(isz)))},
		{"2^64 - 1", ^uint64(0)},
	}
}

// the lengths tried next to the address off (of the window)
func wideLengths(rng *rand.Rand, isz, off uint64) []wideField {
	base := physBase - isz
	io := off - base // offset inside the image
	small := 1 + uint64(rng.Intn(256))
	return []wideField{
		{"0", 0},
		{"1", 1},
		{"up to the image end exactly", isz - io},
		{"one byte past the image end", isz - io + 1},
		{"the image size - 1", isz - 1},
		{"the image size", isz},
		{"the image size + 1", isz + 1},
		{"twice the image size", 2 * isz},
		{"the first address of the window", base},
		{"4 GiB - 1", physBase - 1},
		{"4 GiB", physBase},
		{"4 GiB - the address (address + length = 4 GiB)", physBase - off},
		{"2^63 - 1", 1<<63 - 1},
		{"2^63", 1 << 63},
		{"2^64 - the image size", -isz},
		{"2^64 - the offset inside the image (offset + length wraps to 0)", -io},
		{"2^64 - the offset inside the image + 1 (offset + length wraps to 1)", -io + 1},
		{"offset inside the image + length wraps to a small number", -io + small},
		{"offset inside the image + length wraps to the image size", -io + isz},
		{"offset inside the image + length wraps to the image size + 1", -io + isz + 1},
		{"2^64 - the address (address + length wraps to 0)", -off},
		{"address + length wraps to a small number", -off + small},
		{"address + length wraps to the image size", -off + isz},
		{"address + length wraps to the address itself less one", ^uint64(0)},
		{"a random 64-bit number", rng.Uint64()},
		{"a random number of 33..63 bits", (uint64(1)<<uint(32+rng.Intn(31)) | rng.Uint64()>>32)},
	}
}

// the 16 bytes of a record: (length, offset) as the format has it, or the offset first
func wideRecord(off, length uint64, offsetFirst bool) []byte {
	if offsetFirst {
		return pair16(off, length)
	}
	return pair16(length, off)
}

// one record with two 64-bit numbers, drawn: mostly an address of the window next to one of the lengths above
func randWideRecord(rng *rand.Rand, isz uint64) ([]byte, string) {
	var o wideField
	if rng.Intn(6) == 0 {
		os := wideOffsetsOutside(rng, isz)
		o = os[rng.Intn(len(os))]
	} else {
		os := wideOffsetsInside(rng, isz)
		o = os[rng.Intn(len(os))]
	}
	ls := wideLengths(rng, isz, o.v)
	l := ls[rng.Intn(len(ls))]
	first := rng.Intn(2) == 0
	return wideRecord(o.v, l.v, first), wideDescr(o, l, first)
}

func wideDescr(o, l wideField, offsetFirst bool) string {
	order := "(length, offset)"
	if offsetFirst {
		order = "(offset, length)"
	}
	return fmt.Sprintf("record stored as %s with offset %#x [%s] and length %#x [%s]", order, o.v, o.name, l.v, l.name)
}

func onePair(rng *rand.Rand, isz uint64, kind byte) []byte {
	base := physBase - isz
	swap := func(p []byte) []byte { return append(append([]byte{}, p[8:]...), p[:8]...) }
	switch kind {
	case pkEmpty:
		return pair16(0, base+uint64(rng.Intn(int(isz))))
	case pkEmptySw:
		return swap(pair16(0, base+uint64(rng.Intn(int(isz)))))
	case pkAtEnd:
		l := uint64(1 + rng.Intn(256))
		return pair16(l, physBase-l)
	case pkPastEnd:
		l := uint64(2 + rng.Intn(256))
		return pair16(l, physBase-1-uint64(rng.Intn(int(l-1))))
	case pkWide:
		r, _ := randWideRecord(rng, isz)
		return r
	}
	l := uint64(1 + rng.Intn(64))
	p := pair16(l, base+uint64(rng.Intn(int(isz-l))))
	if kind == pkSwapped {
		return swap(p)
	}
	return p
}

// event data holding the pairs of [kinds] in this order (the LAST one is at the end of the data), optionally after a description
func pairListData(rng *rand.Rand, isz uint64, kinds string, descr string) []byte {
	var d []byte
	if descr != "" {
		d = append([]byte{byte(len(descr))}, []byte(descr)...)
	}
	for i := 0; i < len(kinds); i++ {
		d = append(d, onePair(rng, isz, kinds[i])...)
	}
	return d
}

// a random list of 0..max pairs: mostly empty and real ones, in any order
func randKinds(rng *rand.Rand, max int) string {
	n := rng.Intn(max + 1)
	k := make([]byte, n)
	for i := range k {
		switch x := rng.Intn(22); {
		case x < 8:
			k[i] = pkEmpty
		case x < 15:
			k[i] = pkReal
		case x < 16:
			k[i] = pkSwapped
		case x < 17:
			k[i] = pkEmptySw
		case x < 19:
			k[i] = pkAtEnd
		case x < 20:
			k[i] = pkPastEnd
		default:
			k[i] = pkWide
		}
	}
	return string(k)
}

// every list of empty / real pairs of length 0..n
func allKinds(n int) []string {
	out := []string{""}
	prev := []string{""}
	for l := 1; l <= n; l++ {
		var cur []string
		for _, p := range prev {
			cur = append(cur, p+string(pkEmpty), p+string(pkReal))
		}
		out = append(out, cur...)
		prev = cur
	}
	return out
}

// The (length, offset) pairs of event data as the property's input format has them: 16-byte records at the END of
// the data, last one first, each a length (at most the image size) and an offset inside the image mapped below
// 4 GiB, in either field order; reading stops at the first record that is neither.
type dataPair struct{ off, length uint64 }

func tailPairs(data []byte, isz uint64) []dataPair {
	valid := func(off, l uint64) bool { return l <= isz && off >= physBase-isz && off < physBase }
	var out []dataPair
	for len(data) >= 16 {
		off := binary.LittleEndian.Uint64(data[len(data)-8:])
		l := binary.LittleEndian.Uint64(data[len(data)-16:])
		if !valid(off, l) {
			off, l = l, off
		}
		if !valid(off, l) {
			break
		}
		out = append(out, dataPair{off, l})
		data = data[:len(data)-16]
	}
	return out
}

// event data with (offset,length) pairs: returns the data and a description
func genEventData(rng *rand.Rand, isz uint64) ([]byte, string) {
	base := physBase - isz
	inRange := func() []byte {
		l := uint64(rng.Intn(64))
		off := base + uint64(rng.Intn(int(isz-l)))
		return pair16(l+uint64(rng.Intn(2)), off) // length 0..64, fits
	}
	descr := func(s string) []byte {
		return append([]byte{byte(len(s))}, []byte(s)...)
	}
	switch rng.Intn(18) {
	case 16, 17: // two arbitrary 64-bit numbers, alone or behind a real pair / a description
		r, what := randWideRecord(rng, isz)
		switch rng.Intn(4) {
		case 0:
			return append(inRange(), r...), "one pair in range, then a " + what
		case 1:
			return append(r, inRange()...), "a " + what + ", then one pair in range"
		case 2:
			return append(descr("FV_BB"), r...), "description + a " + what
		}
		return r, "a " + what
	case 0:
		return nil, "nil"
	case 1:
		return []byte{}, "empty"
	case 2:
		return descr("FV_BB_AFTER_MEMORY"), "description only (zero pairs)"
	case 3:
		return append(descr("FV_BB"), inRange()...), "description + one pair in range"
	case 4:
		return inRange(), "one pair in range"
	case 5:
		return append(inRange(), inRange()...), "two pairs in range"
	case 6:
		return append(append(inRange(), inRange()...), inRange()...), "three pairs in range"
	case 7: // swapped order: offset first
		p := inRange()
		return append(append([]byte{}, p[8:]...), p[:8]...), "one pair, offset before length"
	case 8: // past the end of the image
		l := uint64(1 + rng.Intn(int(isz)))
		off := physBase - uint64(rng.Intn(int(l))) - 0 // off + l > physBase whenever the subtrahend < l
		if off >= physBase {
			off = physBase - 1
		}
		return pair16(l, off), "one pair reaching past the image end"
	case 9: // ends exactly at the image end
		l := uint64(1 + rng.Intn(4096))
		return pair16(l, physBase-l), "one pair ending exactly at the image end"
	case 10: // invalid: offset below the mapped region / length above the image size
		if rng.Intn(2) == 0 {
			return pair16(16, base-1-uint64(rng.Intn(1000))), "offset below the image (not a pair)"
		}
		return pair16(isz+1+uint64(rng.Intn(100)), base), "length above the image size (not a pair)"
	case 11: // a list of pairs, empty ones among them, in any order
		k := randKinds(rng, 5)
		d := ""
		if rng.Intn(3) == 0 {
			d = "FV_MAIN"
		}
		return pairListData(rng, isz, k, d), fmt.Sprintf("pair list %q (E empty, R real, S/Z stored offset first, X ends at the image end, P reaches past it, W two 64-bit numbers; the last one is read first), description %q", k, d)
	case 14, 15:
		k := randKinds(rng, 4)
		return pairListData(rng, isz, k, ""), fmt.Sprintf("pair list %q", k)
	case 12: // Fv(GUID) description
		return append(descr("Fv(4F1C52D3-D824-4D2A-A2F0-EC40C23C5916)"), inRange()...), "Fv(guid) description + pair"
	default: // random bytes
		d := make([]byte, rng.Intn(40))
		rng.Read(d)
		return d, "random bytes"
	}
}

var eventTypes = []tpmeventlog.EventType{evPostCode, evBlob2, evNoAction, tpmeventlog.EV_SEPARATOR,
	tpmeventlog.EV_S_CRTM_CONTENTS, tpmeventlog.EV_S_CRTM_VERSION, tpmeventlog.EV_EFI_VARIABLE_AUTHORITY, tpmeventlog.EV_EFI_ACTION, 0x7fffffff}

type hpEntry struct {
	m   int
	v   uint64
	dig []byte
}

type genCtx struct {
	rng     *rand.Rand
	b       *boot
	alg     tpm2.Algorithm
	st      pcrbruteforcer.SettingsReproduceEventLog
	P       int
	evs     []*tpmeventlog.Event
	ops     []string
	hp      []hpEntry
	truth   *scriptTruth // when set: the log was made by an edit script whose verdicts are known (scriptCase)
	want    *uint64 // when set: the PCR0_DATA entry was re-digested with this register and the search must find it
	wantNot *uint64 // when set: ... with this register, which the settings exclude: the entry must stay a mismatch
}

func (g *genCtx) pcr0Digest(v uint64) []byte {
	var d []byte
	for _, p := range g.b.pcr0All(g.alg) {
		buf := append([]byte{}, p.raw...)
		binary.LittleEndian.PutUint64(buf, v)
		d = hashOf(g.alg, buf)
		g.hp = append(g.hp, hpEntry{p.m, v, d})
	}
	return append([]byte{}, d...) // the caller's copy may be edited later; the table entry must not change with it
}

// the digest of PCR0_DATA with the given bits flipped (bit i = bit i%8 of byte i/8; the register is bits 0..63, the
// fields that follow it - ACM SVN, signatures, IBB digest - are the rest).  Only a buffer that differs from the
// measured one inside the register alone is "PCR0_DATA with another register": only then the table learns it.
func (g *genCtx) pcr0FlipDigest(bits []int) (dig []byte, v uint64, outside bool) {
	for _, p := range g.b.pcr0All(g.alg) {
		buf := append([]byte{}, p.raw...)
		outside = false
		for _, i := range bits {
			if i/8 >= len(buf) {
				continue
			}
			buf[i/8] ^= 1 << uint(i%8)
			outside = outside || i >= 64
		}
		dig = hashOf(g.alg, buf)
		v = le64first(buf)
		if !outside {
			g.hp = append(g.hp, hpEntry{p.m, v, dig})
		}
	}
	return append([]byte{}, dig...), v, outside
}

// number of bits of the PCR0_DATA measurement of the bank
func (g *genCtx) pcr0Bits() int {
	_, _, raw := g.b.pcr0(g.alg)
	return 8 * len(raw)
}

// a bit position behind the register: often the byte next to it or the last one
func (g *genCtx) bitOutside() int {
	n := g.pcr0Bits()
	if n <= 64 {
		return 64
	}
	switch g.rng.Intn(4) {
	case 0:
		return 64 + g.rng.Intn(8)
	case 1:
		return n - 1 - g.rng.Intn(8)
	}
	return 64 + g.rng.Intn(n-64)
}

// What the settings promise, read as their names and the property's quantifier say (not as the search is coded):
// a recorded register value is found when it is the simulated one minus 0 < d < MaxACMPolicyLinearDistance or, with
// EnableACMPolicyCombinatorialStrategy, differs from it in 1..MaxACMPolicyCombinatorialDistance bits.
func reachable(st pcrbruteforcer.SettingsReproduceEventLog, reg, v uint64) bool {
	if d := reg - v; d > 0 && st.MaxACMPolicyLinearDistance > 0 && d < uint64(st.MaxACMPolicyLinearDistance) {
		return true
	}
	if k := bits.OnesCount64(reg ^ v); st.EnableACMPolicyCombinatorialStrategy && k > 0 && k <= st.MaxACMPolicyCombinatorialDistance {
		return true
	}
	return false
}

// the PCR0_DATA entry is re-digested with register v (simulated: reg): what the settings demand of the result
// (v == reg is the unchanged digest: a plain match, nothing to repair)
func (g *genCtx) expect(reg, v uint64) {
	g.want, g.wantNot = nil, nil
	w := v
	switch {
	case v == reg:
	case reachable(g.st, reg, v):
		g.want = &w
	default:
		g.wantNot = &w
	}
}

func (g *genCtx) randDigest() []byte {
	n := hashSize(g.alg)
	if n < 0 {
		n = 20
	}
	d := make([]byte, n)
	switch g.rng.Intn(10) {
	case 0: // zeros
	case 1: // digest of a piece of the image: the explainer finds it
		off := g.rng.Intn(len(firmware.FakeIntelFirmware) - 600)
		piece := firmware.FakeIntelFirmware[off : off+16+g.rng.Intn(500)]
		if h := hashOf(g.alg, piece); h != nil {
			d = h
			noteFindable(g.alg, piece)
		}
	case 2: // digest of a hash-sized piece of the image (follow-up search of the explainer)
		off := g.rng.Intn(len(firmware.FakeIntelFirmware) - 64)
		if h := hashOf(g.alg, firmware.FakeIntelFirmware[off:off+n]); h != nil {
			d = h
			noteFindable(g.alg, firmware.FakeIntelFirmware[off:off+n])
		}
	default:
		g.rng.Read(d)
	}
	return d
}

func (g *genCtx) newEntry() *tpmeventlog.Event {
	data, _ := genEventData(g.rng, g.b.isz)
	if g.rng.Intn(3) == 0 {
		data = nil
	}
	return &tpmeventlog.Event{PCRIndex: 0, Type: eventTypes[g.rng.Intn(len(eventTypes))], Data: data,
		Digest: &tpmeventlog.Digest{HashAlgo: g.alg, Digest: g.randDigest()}}
}

func (g *genCtx) insertAt(pos int, e *tpmeventlog.Event) {
	g.evs = append(g.evs, nil)
	copy(g.evs[pos+1:], g.evs[pos:])
	g.evs[pos] = e
}

// one edit operation on the entries of the bank
func (g *genCtx) edit() {
	rng := g.rng
	pos := bankPos(g.evs, g.alg)
	pick := func() int { return pos[rng.Intn(len(pos))] }
	op := rng.Intn(11)
	if len(pos) == 0 {
		op = 0
	}
	switch op {
	case 0: // insert a new entry
		at := rng.Intn(len(g.evs) + 1)
		g.insertAt(at, g.newEntry())
		g.ops = append(g.ops, fmt.Sprintf("insert new entry at %d", at))
	case 1: // insert a copy of an existing entry
		src := cloneEvent(g.evs[pick()])
		at := rng.Intn(len(g.evs) + 1)
		g.insertAt(at, src)
		g.ops = append(g.ops, fmt.Sprintf("insert copy at %d", at))
	case 2: // delete
		at := pick()
		g.evs = append(g.evs[:at], g.evs[at+1:]...)
		g.ops = append(g.ops, fmt.Sprintf("delete %d", at))
	case 3: // swap with the next entry of the bank
		if len(pos) >= 2 {
			k := rng.Intn(len(pos) - 1)
			g.evs[pos[k]], g.evs[pos[k+1]] = g.evs[pos[k+1]], g.evs[pos[k]]
			g.ops = append(g.ops, fmt.Sprintf("swap %d,%d", pos[k], pos[k+1]))
		}
	case 4: // move an entry elsewhere
		at := pick()
		e := g.evs[at]
		g.evs = append(g.evs[:at], g.evs[at+1:]...)
		to := rng.Intn(len(g.evs) + 1)
		g.insertAt(to, e)
		g.ops = append(g.ops, fmt.Sprintf("move %d to %d", at, to))
	case 5: // retype
		at := pick()
		g.evs[at].Type = eventTypes[rng.Intn(len(eventTypes))]
		g.ops = append(g.ops, fmt.Sprintf("retype %d to %#x", at, uint32(g.evs[at].Type)))
	case 6: // re-digest
		at := pick()
		if rng.Intn(2) == 0 && len(g.evs[at].Digest.Digest) > 0 { // one flipped bit, anywhere (often in the last bytes)
			d := g.evs[at].Digest.Digest
			pos := rng.Intn(len(d))
			if rng.Intn(2) == 0 {
				pos = len(d) - 1 - rng.Intn(4)%len(d)
			}
			d[pos] ^= 1 << uint(rng.Intn(8))
			g.ops = append(g.ops, fmt.Sprintf("flip one bit in byte %d of the digest of %d", pos, at))
		} else {
			g.evs[at].Digest.Digest = g.randDigest()
			g.ops = append(g.ops, fmt.Sprintf("re-digest %d", at))
		}
	case 7: // event data
		at := pick()
		var what string
		g.evs[at].Data, what = genEventData(rng, g.b.isz)
		if rng.Intn(2) == 0 { // a type with a registered parser, so that the pairs are looked at
			g.evs[at].Type = []tpmeventlog.EventType{evPostCode, evBlob2}[rng.Intn(2)]
		}
		if rng.Intn(2) == 0 {
			g.evs[at].Digest.Digest = g.randDigest()
		}
		g.ops = append(g.ops, fmt.Sprintf("event data of %d: %s", at, what))
	case 8: // re-digest the PCR0_DATA entry with a nearby register value
		g.redigestPCR0()
	case 9: // other PCR / other bank / no digest
		at := pick()
		switch rng.Intn(3) {
		case 0:
			g.evs[at].PCRIndex = 1 + tpm.PCRID(rng.Intn(3))
		case 1:
			g.evs[at].Digest = nil
		default:
			if g.alg == tpm2.AlgSHA1 {
				g.evs[at].Digest = &tpmeventlog.Digest{HashAlgo: tpm2.AlgSHA256, Digest: make([]byte, 32)}
			} else {
				g.evs[at].Digest = &tpmeventlog.Digest{HashAlgo: tpm2.AlgSHA1, Digest: make([]byte, 20)}
			}
		}
		g.ops = append(g.ops, fmt.Sprintf("entry %d leaves the PCR0 bank", at))
	default: // wrong digest length (rare)
		if rng.Intn(6) == 0 {
			at := pick()
			if n := len(g.evs[at].Digest.Digest); n > 0 { // (an already emptied digest stays)
				g.evs[at].Digest.Digest = g.evs[at].Digest.Digest[:rng.Intn(n)]
			}
			g.ops = append(g.ops, fmt.Sprintf("truncate digest of %d", at))
		} else {
			g.redigestPCR0()
		}
	}
}

// the recorded entry that carries the simulated PCR0_DATA digest (if still there)
func (g *genCtx) findPCR0Entry() int {
	_, ei, _ := g.b.pcr0(g.alg)
	if ei < 0 {
		return -1
	}
	d := g.b.tp.EventLog[ei].Digest
	for i, e := range g.evs {
		if selected(e, g.alg) && bytes.Equal(e.Digest.Digest, d) {
			return i
		}
	}
	return -1
}

func (g *genCtx) redigestPCR0() {
	at := g.findPCR0Entry()
	if at < 0 {
		return
	}
	_, _, raw := g.b.pcr0(g.alg)
	reg := le64first(raw)
	rng := g.rng
	limit := g.st.MaxACMPolicyLinearDistance
	var v uint64
	var what string
	switch rng.Intn(9) {
	case 0, 1: // inside the linear window
		if limit > 0 {
			d := rng.Intn(limit)
			v, what = reg-uint64(d), fmt.Sprintf("decrement %d < limit %d", d, limit)
			break
		}
		fallthrough
	case 2: // at / just above the limit (may still be tried by a goroutine block when limit < GOMAXPROCS-1)
		d := limit + rng.Intn(3)
		if d < 0 {
			d = rng.Intn(3)
		}
		v, what = reg-uint64(d), fmt.Sprintf("decrement %d >= limit %d", d, limit)
	case 3: // far above
		d := 200 + rng.Intn(1000)
		v, what = reg-uint64(d), fmt.Sprintf("decrement %d far above the limit", d)
	case 4: // one flipped bit
		bit := rng.Intn(64)
		v, what = reg^(1<<uint(bit)), fmt.Sprintf("bit %d flipped", bit)
	case 5: // two flipped bits
		b1, b2 := rng.Intn(64), rng.Intn(64)
		v, what = reg^(1<<uint(b1))^(1<<uint(b2)), fmt.Sprintf("bits %d,%d flipped", b1, b2)
	default: // bits flipped behind the register (another ACM SVN, a bit error in the measured structure), alone or
		// together with a register bit: no register value explains such a digest
		fl := []int{g.bitOutside()}
		switch rng.Intn(3) {
		case 0:
			fl = append(fl, g.bitOutside())
		case 1:
			fl = append(fl, rng.Intn(64))
		}
		g.evs[at].Digest.Digest, v, _ = g.pcr0FlipDigest(fl)
		g.ops = append(g.ops, fmt.Sprintf("PCR0_DATA entry %d re-digested with bits %v of PCR0_DATA flipped (bits 0..63 are ACM_POLICY_STATUS, which reads %#x then)", at, fl, v))
		return
	}
	g.expect(reg, v)
	g.evs[at].Digest.Digest = g.pcr0Digest(v)
	g.ops = append(g.ops, fmt.Sprintf("PCR0_DATA entry %d re-digested with ACM_POLICY_STATUS %#x (%s)", at, v, what))
}

func randSettings(rng *rand.Rand) pcrbruteforcer.SettingsReproduceEventLog {
	st := pcrbruteforcer.SettingsReproduceEventLog{}
	st.MaxACMPolicyLinearDistance = []int{0, 1, 2, 3, 4, 5, 8, 13, 16, 20, 33, 64, 128, -1, -7}[rng.Intn(15)]
	st.EnableACMPolicyCombinatorialStrategy = rng.Intn(2) == 0
	st.MaxACMPolicyCombinatorialDistance = []int{0, 1, 1, 2}[rng.Intn(4)]
	st.DisabledEventsMaxDistance = uint64([]int{0, 1, 2, 2, 3, 4}[rng.Intn(6)])
	st.MaxDigestRangeGuesses = uint64(1 + rng.Intn(300))
	return st
}

// ---------------------------------------------------------------- running and observing

type entryObs struct {
	Exp    int `json:"recorded"` // index in the recorded log, -1 none
	Calc   int `json:"simulated"`
	Meas   int `json:"measurement"`
	Status int `json:"status"`
}

type runObs struct {
	Outcome  string     `json:"outcome"` // ok | err | panic | timeout
	Msg      string     `json:"msg,omitempty"`
	Entries  []entryObs `json:"entries,omitempty"`
	Reg      *uint64    `json:"corrected_register,omitempty"`
	Issues   [][2]int   `json:"issues,omitempty"`
	IssueTxt []string   `json:"-"`
	Combined [][2]int   `json:"-"` // (1 = simulated, index) / (0 = recorded, index)
	CombPan  bool       `json:"-"`
	res      pcrbruteforcer.ReproduceEventLogResult
}

func issueKind(i pcrbruteforcer.Issue) [2]int {
	switch v := i.(type) {
	case pcrbruteforcer.IssueUnexpectedLogEntry:
		return [2]int{1, v.Index}
	case pcrbruteforcer.IssueLoggedDigestDoesNotMatch:
		return [2]int{5, v.Index}
	}
	s := i.Error()
	switch {
	case strings.HasPrefix(s, "missing entry"):
		return [2]int{2, -1}
	case strings.HasPrefix(s, "PCR0_DATA measurement does not match"):
		return [2]int{3, -1}
	case strings.HasPrefix(s, "changed ACM_POLICY_STATUS"):
		return [2]int{4, -1}
	}
	return [2]int{99, -1}
}

func runRepro(b *boot, log *tpmeventlog.TPMEventLog, alg tpm2.Algorithm, st pcrbruteforcer.SettingsReproduceEventLog, P int) runObs {
	old := runtime.GOMAXPROCS(P)
	defer runtime.GOMAXPROCS(old)
	type ret struct {
		res    pcrbruteforcer.ReproduceEventLogResult
		reg    *registers.ACMPolicyStatus
		issues []pcrbruteforcer.Issue
		err    error
		pan    bool
		msg    string
	}
	ch := make(chan ret, 1)
	go func() {
		var r ret
		r.pan, r.msg = gal.Recover(func() {
			r.res, r.reg, r.issues, r.err = pcrbruteforcer.ReproduceEventLog(context.Background(), b.proc, log, alg, st)
		})
		ch <- r
	}()
	var r ret
	select {
	case r = <-ch:
	case <-time.After(60 * time.Second):
		return runObs{Outcome: "timeout"}
	}
	if r.pan {
		return runObs{Outcome: "panic", Msg: r.msg}
	}
	if r.err != nil {
		return runObs{Outcome: "err", Msg: r.err.Error()}
	}
	o := runObs{Outcome: "ok", res: r.res}
	if r.reg != nil {
		v := r.reg.Raw()
		o.Reg = &v
	}
	s := b.proc.CurrentState
	for _, e := range r.res {
		eo := entryObs{-1, -1, -1, int(e.Status)}
		if e.Expected != nil {
			eo.Exp = -2
			for i, x := range log.Events {
				if x == e.Expected {
					eo.Exp = i
				}
			}
		}
		if e.Calculated != nil {
			eo.Calc = -2
			for i := range b.tp.EventLog {
				if &b.tp.EventLog[i] == e.Calculated {
					eo.Calc = i
				}
			}
		}
		if e.Measurement != nil {
			eo.Meas = -2
			for i := range s.MeasuredData {
				if &s.MeasuredData[i] == e.Measurement {
					eo.Meas = i
				}
			}
		}
		o.Entries = append(o.Entries, eo)
	}
	for _, i := range r.issues {
		o.Issues = append(o.Issues, issueKind(i))
		o.IssueTxt = append(o.IssueTxt, i.Error())
	}
	return o
}

// ---------------------------------------------------------------- Gallina

func eventLit(e *tpmeventlog.Event) string {
	dg := "None"
	if e.Digest != nil {
		dg = fmt.Sprintf("(Some (mkDg %d %s))", e.Digest.HashAlgo, gal.Bytes(e.Digest.Digest))
	}
	return fmt.Sprintf("(mkEv %d %s %s %s)", e.PCRIndex, gal.U(uint64(e.Type)), gal.Bytes(e.Data), dg)
}

func eventsLit(evs []*tpmeventlog.Event) string {
	s := make([]string, len(evs))
	for i, e := range evs {
		s[i] = eventLit(e)
	}
	return gal.List(s)
}

func optIdx(i int) string {
	if i < 0 {
		return "None"
	}
	return fmt.Sprintf("(Some %d)", i)
}

func settingsLit(st pcrbruteforcer.SettingsReproduceEventLog) string {
	return fmt.Sprintf("(mkSt %s %s %s %s %s)", gal.Bool(st.EnableACMPolicyCombinatorialStrategy),
		gal.Z(int64(st.MaxACMPolicyCombinatorialDistance)), gal.Z(int64(st.MaxACMPolicyLinearDistance)),
		gal.U(st.DisabledEventsMaxDistance), gal.U(st.MaxDigestRangeGuesses))
}

func obsLit(o runObs, comb string) string {
	switch o.Outcome {
	case "panic":
		return "OPanic"
	case "err":
		return "OErr"
	}
	es := make([]string, len(o.Entries))
	for i, e := range o.Entries {
		es[i] = fmt.Sprintf("(%s, %s, %s, %d)", optIdx(e.Exp), optIdx(e.Calc), optIdx(e.Meas), e.Status)
	}
	is := make([]string, len(o.Issues))
	for i, x := range o.Issues {
		is[i] = gal.Pair(gal.Z(int64(x[0])), gal.Z(int64(x[1])))
	}
	reg := "None"
	if o.Reg != nil {
		reg = "(Some " + gal.U(*o.Reg) + ")"
	}
	return fmt.Sprintf("(OOk (mkObs %s %s %s %s))", gal.List(es), reg, gal.List(is), comb)
}

type entryContent struct {
	pcr  uint32
	alg  tpm2.Algorithm
	typ  uint32
	dig  string
	data string
}

func contentOfSim(e *tpm.EventLogEntry) entryContent {
	return entryContent{uint32(e.PCRIndex), e.HashAlgo, uint32(e.Type), string(e.Digest), string(e.Data)}
}

func contentOfRec(e *tpmeventlog.Event) entryContent {
	return entryContent{uint32(e.PCRIndex), e.Digest.HashAlgo, uint32(e.Type), string(e.Digest.Digest), string(e.Data)}
}

// ---------------------------------------------------------------- the case

type caseDescr struct {
	Kind     string      `json:"kind"`
	Boot     string      `json:"boot"`
	Alg      string      `json:"alg"`
	Settings interface{} `json:"settings"`
	P        int         `json:"gomaxprocs"`
	Ops      []string    `json:"edit_ops"`
	Recorded []string    `json:"recorded_log"`
	Observed runObs      `json:"observed"`
}

func describeEvents(evs []*tpmeventlog.Event) []string {
	var r []string
	for _, e := range evs {
		d := "nil"
		if e.Digest != nil {
			d = fmt.Sprintf("%d:%s", e.Digest.HashAlgo, hex.EncodeToString(e.Digest.Digest))
		}
		r = append(r, fmt.Sprintf("pcr=%d type=%#x digest=%s data=%s", e.PCRIndex, uint32(e.Type), d, hex.EncodeToString(e.Data)))
	}
	return r
}

// does a pair of the data reach past the image end?
func hasRangePastEnd(data []byte, isz uint64) bool {
	for _, p := range tailPairs(data, isz) {
		if p.length > 0 && p.off-(physBase-isz)+p.length > isz {
			return true
		}
	}
	return false
}

// Is there a 16-byte record in the data that the format does not admit as a (length, offset) pair although one of
// its fields is an address of the mapped image: the other field is above the image size?  (Only to name the place in
// the report of a panic: the reading of pairs has to stop there, whatever the two numbers add up to modulo 2^64.)
func hasWideRecord(data []byte, isz uint64) (bool, string) {
	inWin := func(x uint64) bool { return x >= physBase-isz && x < physBase }
	for end := len(data); end >= 16; end -= 16 {
		a := binary.LittleEndian.Uint64(data[end-16:])
		b := binary.LittleEndian.Uint64(data[end-8:])
		if (inWin(a) && b > isz && !inWin(b)) || (inWin(b) && a > isz && !inWin(a)) {
			return true, fmt.Sprintf("%#x, %#x", a, b)
		}
	}
	return false, ""
}

// Signature of the known finding C13-D20-rangesToChunks-index: the pairs are read one after the other (the last
// one of the data first) and each one looks up the reference "number of chunks made so far" of the paired
// measurement; a pair makes a chunk when it is not empty, or when the reference it looked up is a hard-coded
// value.  The defect shows when a pair is read after as many chunk-making pairs as the measurement has
// references - and only then: pairs that make no chunk do not count, whatever their number.
func d20Trigger(pairs []dataPair, refs types.References) bool {
	made := 0
	for _, p := range pairs {
		if made >= len(refs) {
			return true
		}
		if _, hard := refs[made].Artifact.(types.RawBytes); p.length > 0 || hard {
			made++
		}
	}
	return false
}

func hasParser(t tpmeventlog.EventType) bool { return t == evPostCode || t == evBlob2 }

var nCase int

func doCase(c *gal.Ctx, kind string, g *genCtx, nilLog bool) {
	b := g.b
	var log *tpmeventlog.TPMEventLog
	if !nilLog {
		log = &tpmeventlog.TPMEventLog{Events: g.evs}
	}
	// --- the input is recorded before the call: a panic in a goroutine of the digest search of the explainer cannot
	// be recovered and kills the process (the repaired defect C13-unhash-concurrent-found-digests did that); the
	// driver then reports this input.  The guess limit is the one drawn for the case, whatever the log.
	c.Begin("ReproduceEventLog kills the process (a panic in a goroutine of its own, or an allocation of gigabytes for the 64 KiB image)", "pkg/bootflow/subsystems/trustchains/tpm/pcrbruteforcer/reproduce_event_log.go",
		map[string]interface{}{"kind": kind, "boot": b.name, "alg": fmt.Sprint(g.alg), "settings": g.st, "gomaxprocs": g.P, "edit_ops": g.ops, "recorded_log": describeEvents(g.evs)})
	o := runRepro(b, log, g.alg, g.st, g.P)
	nCase++

	// --- the disable bitmaps: read off the result, or the ones of the search hook
	var exp []*tpmeventlog.Event
	for _, e := range g.evs {
		if selected(e, g.alg) {
			exp = append(exp, e)
		}
	}
	sims := b.simIdx(g.alg)
	de := make([]bool, len(exp))
	dc := make([]bool, len(sims))
	haveBitmaps := false
	if o.Outcome == "ok" {
		haveBitmaps = true
		expPos := map[int]int{}
		for k, p := range bankPos(g.evs, g.alg) {
			expPos[p] = k
		}
		simPos := map[int]int{}
		for k, p := range sims {
			simPos[p] = k
		}
		for _, e := range o.Entries {
			if e.Exp >= 0 && e.Calc == -1 {
				if k, ok := expPos[e.Exp]; ok {
					de[k] = true
				}
			}
			if e.Calc >= 0 && e.Exp == -1 {
				if k, ok := simPos[e.Calc]; ok {
					dc[k] = true
				}
			}
		}
	} else if preDe, preDc, havePre := g.preAlign(nilLog); havePre {
		// who is paired with whom, from the search hook: to attribute a panic to an entry
		copy(de, preDe)
		copy(dc, preDc)
		haveBitmaps = true
	}

	if !nilLog && !b.simErr(g.alg) && hashSize(g.alg) >= 0 && g.searchRisk(de, dc, haveBitmaps) >= 2 {
		c.Count("digest search: unexplained digests found at two or more places of the image")
	}

	// --- CombineAsEventLog
	comb := "OPanic"
	var combined tpm.EventLog
	combPan := false
	if o.Outcome == "ok" {
		combPan, _ = gal.Recover(func() { combined = o.res.CombineAsEventLog() })
		if !combPan {
			// identify every entry by content, walking the result entries in order
			var items []string
			k := 0
			ok := true
			for _, e := range o.res {
				take := func(sim bool) {
					if k >= len(combined) {
						ok = false
						return
					}
					got := contentOfSim(&combined[k])
					k++
					if sim && e.Calculated != nil && got == contentOfSim(e.Calculated) {
						for i := range b.tp.EventLog {
							if &b.tp.EventLog[i] == e.Calculated {
								items = append(items, fmt.Sprintf("(true, %d)", i))
							}
						}
						return
					}
					if !sim && e.Expected != nil && got == contentOfRec(e.Expected) {
						for i, x := range g.evs {
							if x == e.Expected {
								items = append(items, fmt.Sprintf("(false, %d)", i))
							}
						}
						return
					}
					ok = false
				}
				switch e.Status {
				case pcrbruteforcer.ReproduceEventLogEntryStatusMatch, pcrbruteforcer.ReproduceEventLogEntryStatusMissing:
					take(true)
				case pcrbruteforcer.ReproduceEventLogEntryStatusMismatch:
					take(true)
					take(false)
				case pcrbruteforcer.ReproduceEventLogEntryStatusUnexpected:
					take(false)
				}
			}
			if !ok || k != len(combined) {
				items = append(items, "(true, -1)") // cannot be attributed: a mismatch for Coq, and the oracle below reports it
			}
			comb = "(OOk " + gal.List(items) + ")"
		}
	}

	// --- Gallina case
	hp := make([]string, len(g.hp))
	for i, h := range g.hp {
		hp[i] = fmt.Sprintf("(%d, %s, %s)", h.m, gal.U(h.v), gal.Bytes(h.dig))
	}
	rec := "None"
	if !nilLog {
		rec = "(Some " + eventsLit(g.evs) + ")"
	}
	lit := fmt.Sprintf("CRepro %s %s %d %s %d (%s, %s) %s %s", b.coq, rec, g.alg, settingsLit(g.st), g.P,
		gal.BoolList(de), gal.BoolList(dc), gal.List(hp), obsLit(o, comb))
	descr := caseDescr{Kind: kind, Boot: b.name, Alg: fmt.Sprint(g.alg), Settings: g.st, P: g.P, Ops: g.ops,
		Recorded: describeEvents(g.evs), Observed: o}
	if o.Outcome == "timeout" {
		c.OracleFail(-1, "ReproduceEventLog did not return within 60 s", "pcrbruteforcer.ReproduceEventLog", descr)
		return
	}
	idx := c.Add(kind+"/"+o.Outcome, lit, descr, len(g.ops) > 0 || kind != "random")

	// ------------------------------------------------------------ independent oracle
	site := "pkg/bootflow/subsystems/trustchains/tpm/pcrbruteforcer/reproduce_event_log.go"
	fail := func(what string) { c.OracleFail(idx, what, site, descr) }

	// expected error classes (from the documented preconditions, not from the model)
	wantErr := nilLog || b.simErr(g.alg) || hashSize(g.alg) < 0
	if !wantErr {
		for _, e := range exp {
			if len(e.Digest.Digest) != hashSize(g.alg) {
				wantErr = true
			}
		}
	}
	switch o.Outcome {
	case "panic":
		// A panic always fails the property.  The three repaired defects (e99f02a, 60718db, dbffb11) are recognised
		// by their signature - the panic message AND the trigger on an entry that reaches the place (who is paired
		// with whom: the disable bitmaps of the alignment; without them every pairing is considered) - only to name
		// the site in the report: they are ordinary failures.
		var d20, nilMeas, pastEnd, wide bool
		wideRec := ""
		d20Len := -1
		judge := func(e *tpmeventlog.Event, sim int) {
			// sim < 0: the entry is left unpaired (unexpected): analysed without a measurement
			mi := -1
			if sim >= 0 {
				if bytes.Equal(e.Digest.Digest, b.tp.EventLog[sim].Digest) {
					return // a plain match: nothing is analysed
				}
				mi = b.measurementOfEvent(sim)
				if b.regs && mi < 0 {
					nilMeas = true // registers present, differing digest, simulated event without a measurement
					return
				}
				if b.regs && mi >= 0 {
					if _, ok := b.proc.CurrentState.MeasuredData[mi].Step.(intelsteps.MeasurePCR0DATA); ok {
						return // a PCR0_DATA entry is repaired (or not), its event data is not looked at
					}
				}
			}
			if !hasParser(e.Type) {
				return
			}
			if hasRangePastEnd(e.Data, b.isz) {
				pastEnd = true
			}
			if w, rec := hasWideRecord(e.Data, b.isz); w {
				wide, wideRec = true, rec
			}
			if mi >= 0 {
				refs := b.proc.CurrentState.MeasuredData[mi].References
				if d20Trigger(tailPairs(e.Data, b.isz), refs) {
					d20 = true
					d20Len = len(refs)
				}
			}
		}
		if haveBitmaps {
			i, j := 0, 0
			for i < len(exp) || j < len(sims) {
				switch {
				case j < len(sims) && dc[j]:
					j++
				case i < len(exp) && de[i]:
					judge(exp[i], -1)
					i++
				case i < len(exp) && j < len(sims):
					judge(exp[i], sims[j])
					i++
					j++
				default: // unbalanced bitmaps: cannot be attributed
					i, j = len(exp), len(sims)
				}
			}
		} else {
			for _, e := range exp {
				judge(e, -1)
				for _, sj := range sims {
					judge(e, sj)
				}
			}
		}
		switch {
		case d20 && strings.Contains(o.Msg, fmt.Sprintf("index out of range [%d] with length %d", d20Len, d20Len)):
			c.OracleFail(idx, "ReproduceEventLog panics (a pair of the event data is read after as many chunk-making pairs as the paired measurement has references; repaired defect "+findD20+" is back): "+o.Msg, "pkg/bootflow/subsystems/trustchains/tpm/pcrbruteforcer/analyze_unexpected_log_entry.go:rangesToChunks", descr)
		case nilMeas && strings.Contains(o.Msg, "nil pointer dereference"):
			c.OracleFail(idx, "ReproduceEventLog panics (TXT registers present, differing digest, simulated event without a measurement; repaired defect "+findNilM+" is back): "+o.Msg, "pkg/bootflow/subsystems/trustchains/tpm/pcrbruteforcer/reproduce_event_log.go:getACMPolicyStatusRefFromMeasurement (m == nil)", descr)
		case pastEnd && strings.Contains(o.Msg, "artifact *biosimage.BIOSImage, range"):
			c.OracleFail(idx, "ReproduceEventLog panics (a (length,offset) pair of the event data reaches past the image end; repaired defect "+findRange+" is back): "+o.Msg, "pkg/bootflow/subsystems/trustchains/tpm/pcrbruteforcer/analyze_unexpected_log_entry.go:rangesToChunks / tryMeasurement -> types.Reference.RawBytes", descr)
		case wide:
			c.OracleFail(idx, "ReproduceEventLog panics on a recorded entry whose event data holds a 16-byte record of two 64-bit numbers ("+wideRec+") that is no (length, offset) pair of the format - one is an address of the mapped image, the other exceeds the image size - and so names no range to read: "+o.Msg, "pkg/tpmeventlog/parse_event_data.go:parseEventDataPCR0PlatformFirmwareBlob2 / pkg/bootflow/subsystems/trustchains/tpm/pcrbruteforcer/analyze_unexpected_log_entry.go:rangesToChunks", descr)
		default:
			fail("ReproduceEventLog panics: " + o.Msg)
		}
		return
	case "err":
		if !wantErr {
			fail("ReproduceEventLog returns an error for a well-formed recorded log: " + o.Msg)
		} else {
			c.OracleOK()
		}
		return
	}
	if wantErr {
		fail("ReproduceEventLog accepts an input it must reject (nil log / unsupported bank / digest of the wrong length / unsupported flow)")
		return
	}

	// 1. conservation, by pointer identity and order
	var gotExp, gotCalc []int
	for _, e := range o.Entries {
		if e.Exp != -1 {
			gotExp = append(gotExp, e.Exp)
		}
		if e.Calc != -1 {
			gotCalc = append(gotCalc, e.Calc)
		}
	}
	if fmt.Sprint(gotExp) != fmt.Sprint(bankPos(g.evs, g.alg)) {
		fail(fmt.Sprintf("recorded events are not conserved: result has recorded indexes %v, the PCR0 events of the bank are %v", gotExp, bankPos(g.evs, g.alg)))
		return
	}
	if fmt.Sprint(gotCalc) != fmt.Sprint(sims) {
		fail(fmt.Sprintf("simulated events are not conserved: result has simulated indexes %v, the simulated PCR0 events of the bank are %v", gotCalc, sims))
		return
	}
	// 1b. an entry carries the measurement that produced its simulated event (or none if the event was only logged)
	for k, e := range o.Entries {
		if e.Calc < 0 {
			if e.Meas != -1 && e.Status == 3 {
				fail(fmt.Sprintf("entry %d has no simulated event but a measurement", k))
				return
			}
			continue
		}
		want := b.measurementOfEvent(e.Calc)
		if e.Meas != want {
			fail(fmt.Sprintf("entry %d pairs simulated event %d with measurement %d, its own measurement is %d", k, e.Calc, e.Meas, want))
			return
		}
	}
	// 2. truthful statuses
	pAll := b.pcr0All(g.alg)
	_, pe, _ := b.pcr0(g.alg)
	issuesWanted := 0
	repaired := 0
	var unjustified []int
	for k, e := range o.Entries {
		switch {
		case e.Exp == -1 && e.Calc == -1:
			fail(fmt.Sprintf("entry %d has neither a recorded nor a simulated event", k))
			return
		case e.Calc == -1:
			issuesWanted++
			if e.Status != 3 {
				fail(fmt.Sprintf("entry %d has only a recorded event but status %d (want unexpected)", k, e.Status))
				return
			}
		case e.Exp == -1:
			issuesWanted++
			if e.Status != 4 {
				fail(fmt.Sprintf("entry %d has only a simulated event but status %d (want missing)", k, e.Status))
				return
			}
		default:
			recD := g.evs[e.Exp].Digest.Digest
			simD := b.tp.EventLog[e.Calc].Digest
			if bytes.Equal(recD, simD) {
				if e.Status != 1 {
					fail(fmt.Sprintf("entry %d: digests are equal but status is %d (want match)", k, e.Status))
					return
				}
				break
			}
			issuesWanted++
			for i := range pAll {
				if pAll[i].ev == e.Calc && b.regs {
					comb := "off"
					if g.st.EnableACMPolicyCombinatorialStrategy {
						comb = fmt.Sprintf("on, distance %d", g.st.MaxACMPolicyCombinatorialDistance)
					}
					c.Count(fmt.Sprintf("PCR0_DATA entry paired with a differing digest, combinatorial strategy %s: status %d", comb, e.Status))
				}
			}
			switch e.Status {
			case 1:
				repaired++
				// only legitimate for PCR0_DATA with a corrected register that re-hashes to the recorded digest
				var pi *pcr0Info
				for i := range pAll {
					if pAll[i].ev == e.Calc && pAll[i].m == e.Meas {
						pi = &pAll[i]
					}
				}
				if pi == nil || o.Reg == nil {
					fail(fmt.Sprintf("entry %d is marked matching although the digests differ and it is not a repaired PCR0_DATA entry", k))
					return
				}
				buf := append([]byte{}, pi.raw...)
				binary.LittleEndian.PutUint64(buf, *o.Reg)
				if !bytes.Equal(hashOf(g.alg, buf), recD) {
					unjustified = append(unjustified, k)
				}
			case 2:
			default:
				fail(fmt.Sprintf("entry %d: both events present, digests differ, status %d (want mismatch)", k, e.Status))
				return
			}
		}
	}
	// 2b. "mismatch" says that ONE event is present on both sides and differs; a recorded and a simulated event that
	// agree in neither type nor digest are not one event: they are an event only recorded and an event only simulated
	// (the documented pairing rule: an event is left out if it matches by neither type nor digest), and must be
	// reported as unexpected + missing whenever DisabledEventsMaxDistance still allows one more recorded event to be
	// left out.  The search varies the recorded side by at most DisabledEventsMaxDistance entries around the ones it
	// must leave out anyway (the surplus of recorded events); leaving out one more is within that for sure when
	// (left out now) + surplus + 1 <= DisabledEventsMaxDistance.
	{
		unexpected := 0
		for _, e := range o.Entries {
			if e.Calc == -1 {
				unexpected++
			}
		}
		surplus := len(exp) - len(sims)
		if surplus < 0 {
			surplus = 0
		}
		if budget := int(g.st.DisabledEventsMaxDistance) - unexpected - surplus; budget >= 1 {
			for k, e := range o.Entries {
				if e.Exp < 0 || e.Calc < 0 || e.Status != 2 {
					continue
				}
				r, s := g.evs[e.Exp], &b.tp.EventLog[e.Calc]
				if r.Type != s.Type && !bytes.Equal(r.Digest.Digest, s.Digest) {
					c.OracleFail(idx, fmt.Sprintf("entry %d is marked mismatch, but its recorded event %d (type %#x) and its simulated event %d (type %#x) agree in neither type nor digest: they are one event only recorded and one only simulated, and DisabledEventsMaxDistance %d allows to leave out one more recorded event (%d left out, %d more recorded than simulated events); want unexpected + missing (the statuses of the result are %v)",
						k, e.Exp, uint32(r.Type), e.Calc, uint32(s.Type), g.st.DisabledEventsMaxDistance, unexpected, surplus, statusesOf(o.Entries)),
						site+":bruteForceAlignedEventLogs", descr)
					return
				}
			}
		}
	}
	// 2c. edit scripts with a ground truth (see scriptCase): the verdicts are the ones of the script
	if g.truth != nil && !g.truthJudge(c, idx, o, descr, site) {
		return
	}
	if len(unjustified) > 0 {
		what := fmt.Sprintf("entries %v are marked matching but PCR0_DATA with the returned ACM_POLICY_STATUS %#x does not hash to their recorded digests", unjustified, *o.Reg)
		if repaired >= 2 && len(unjustified) < repaired {
			// several PCR0_DATA entries were repaired with different registers: only the last one is returned
			c.OracleFailKnown(idx, findOneReg, what, site+":ReproduceEventLog (updatedACMPolicyStatusValue is overwritten)", descr)
		} else {
			fail(what)
		}
		return
	}
	if repaired == 0 && o.Reg != nil {
		fail("a corrected ACM_POLICY_STATUS is returned although no entry was repaired")
		return
	}
	if len(o.Issues) != issuesWanted {
		fail(fmt.Sprintf("%d issues reported, %d entries are not plain matches", len(o.Issues), issuesWanted))
		return
	}
	// 3. a PCR0_DATA digest produced with a register the settings promise to find (a decrement inside the window, bit
	// flips within the distance of the enabled combinatorial strategy) must be repaired, and with that register
	if g.want != nil {
		at := g.findWanted(*g.want)
		if at >= 0 {
			for k, e := range o.Entries {
				if e.Exp == at && e.Calc == pe && (e.Status != 1 || o.Reg == nil || *o.Reg != *g.want) {
					fail(fmt.Sprintf("entry %d: PCR0_DATA recorded with ACM_POLICY_STATUS %#x (inside the linear window, or within the distance of the enabled combinatorial strategy) is not repaired with that value", k, *g.want))
					return
				}
			}
		}
	}
	// 3b. ... and one the settings exclude (a decrement at or beyond MaxACMPolicyLinearDistance that is not within
	// MaxACMPolicyCombinatorialDistance bit flips either, or the strategy is not enabled) must not: the limits bound
	// the search, a disabled strategy is not run
	if g.wantNot != nil {
		at := g.findWanted(*g.wantNot)
		if at >= 0 {
			for k, e := range o.Entries {
				if e.Exp == at && e.Calc == pe && e.Status == 1 {
					fail(fmt.Sprintf("entry %d: PCR0_DATA recorded with ACM_POLICY_STATUS %#x is repaired although the settings exclude that value (simulated %#x; MaxACMPolicyLinearDistance %d, combinatorial strategy enabled: %v, MaxACMPolicyCombinatorialDistance %d)", k, *g.wantNot,
						le64first(pAll[0].raw), g.st.MaxACMPolicyLinearDistance, g.st.EnableACMPolicyCombinatorialStrategy, g.st.MaxACMPolicyCombinatorialDistance))
					return
				}
			}
		}
	}
	// 4. identical log: no issues
	if kind == "identical" && (len(o.Issues) != 0 || o.Reg != nil) {
		fail("a recorded log identical to the simulated one produces issues: " + strings.Join(o.IssueTxt, " | "))
		return
	}
	// 5. CombineAsEventLog: every simulated event once and in order, plus the recorded events that did not match
	if combPan {
		fail("CombineAsEventLog panics on a result of ReproduceEventLog")
		return
	}
	var wantComb []entryContent
	for _, e := range o.Entries {
		if e.Calc >= 0 {
			wantComb = append(wantComb, contentOfSim(&b.tp.EventLog[e.Calc]))
		}
		if e.Exp >= 0 && e.Status != 1 {
			wantComb = append(wantComb, contentOfRec(g.evs[e.Exp]))
		}
	}
	if len(wantComb) != len(combined) {
		fail(fmt.Sprintf("CombineAsEventLog has %d entries, want %d", len(combined), len(wantComb)))
		return
	}
	for k := range wantComb {
		if contentOfSim(&combined[k]) != wantComb[k] {
			fail(fmt.Sprintf("CombineAsEventLog entry %d is not the expected event", k))
			return
		}
	}
	c.OracleOK()
}

// ---------------------------------------------------------------- edit scripts with a ground truth

// A recorded log made from the simulated one by a script whose meaning is not open to interpretation: the simulated
// events of the bank have pairwise different digests, nothing is reordered, and every recorded entry is one of
//   kept       the entry recorded for a simulated event, unchanged                          -> match, with that event
//   retyped    ... with another event type (a type no simulated event of the bank has)      -> match (digests are equal)
//   re-digested ... with a fresh random digest, type kept                                   -> mismatch (present on both sides, differs)
//   replaced   ... with a foreign type AND a fresh digest: nothing of the event is left     -> only recorded + only simulated
//   inserted   a foreign entry (foreign type, fresh digest)                                 -> only recorded
// and a simulated event whose entry was deleted (or replaced) is only simulated.
type scriptTruth struct {
	script  string
	status  map[*tpmeventlog.Event]int // recorded entry of the bank -> its verdict (1 match, 2 mismatch, 3 unexpected)
	origin  map[*tpmeventlog.Event]int // recorded entry -> simulated event (index in tp.EventLog) it stands for, -1 none
	missing map[int]bool               // simulated events no recorded entry stands for
	leftOut int                        // recorded entries that stand for no simulated event
}

var statusNames = map[int]string{1: "match", 2: "mismatch", 3: "unexpected", 4: "missing"}

func statusesOf(es []entryObs) []string {
	r := make([]string, len(es))
	for i, e := range es {
		r[i] = statusNames[e.Status]
	}
	return r
}

// The verdicts of the script are demanded when the settings allow them: DisabledEventsMaxDistance bounds how many
// recorded entries the alignment may leave out beyond / around the surplus of recorded entries, so with
// (entries the script leaves without a simulated event) + (surplus) <= DisabledEventsMaxDistance every such entry can
// be left out.  When the recorded log is the shorter one, the alignment first leaves out simulated events to even out
// the amounts and only adds to them later: the verdicts are demanded when the simulated events reported missing are
// among the ones the script left without an entry (otherwise the case is counted, not judged) - or when the script
// leaves no recorded entry without its simulated event (only deletions, re-digests, retypes): then leaving out the
// deleted events is itself one of the ways to even out the amounts, and none pairs more entries with their own events.
func (g *genCtx) truthJudge(c *gal.Ctx, idx int, o runObs, descr interface{}, site string) bool {
	t, b := g.truth, g.b
	nExp, nSim := len(bankPos(g.evs, g.alg)), len(b.simIdx(g.alg))
	surplus := nExp - nSim
	if surplus < 0 {
		surplus = 0
	}
	if int(g.st.DisabledEventsMaxDistance) < t.leftOut+surplus {
		c.Count("edit script: DisabledEventsMaxDistance below what the script needs (its verdicts are not demanded)")
		return true
	}
	nMissing := 0
	for _, e := range o.Entries {
		if e.Exp == -1 && e.Calc >= 0 {
			nMissing++
			if nExp < nSim && !t.missing[e.Calc] && t.leftOut > 0 {
				c.Count("edit script: a simulated event that has its recorded entry is left out (verdicts of the script not demanded)")
				return true
			}
		}
	}
	c.Count("edit script: verdicts of the script demanded")
	site += ":bruteForceAlignedEventLogs / alignLogs"
	for k, e := range o.Entries {
		if e.Exp < 0 {
			continue
		}
		r := g.evs[e.Exp]
		want, have := t.status[r]
		if !have {
			continue
		}
		if e.Status != want {
			c.OracleFail(idx, fmt.Sprintf("edit script [%s]: entry %d, recorded event %d, is reported as %s; the script makes it %s (statuses of the result: %v; DisabledEventsMaxDistance %d suffices for the %d recorded entries the script leaves without a simulated event)",
				t.script, k, e.Exp, statusNames[e.Status], statusNames[want], statusesOf(o.Entries), g.st.DisabledEventsMaxDistance, t.leftOut), site, descr)
			return false
		}
		if want == 1 && e.Calc != t.origin[r] {
			c.OracleFail(idx, fmt.Sprintf("edit script [%s]: entry %d pairs recorded event %d with simulated event %d, it was recorded for simulated event %d", t.script, k, e.Exp, e.Calc, t.origin[r]), site, descr)
			return false
		}
	}
	if nMissing != len(t.missing) {
		c.OracleFail(idx, fmt.Sprintf("edit script [%s]: %d simulated events are reported missing, the script leaves %d without a recorded entry (statuses of the result: %v)", t.script, nMissing, len(t.missing), statusesOf(o.Entries)), site, descr)
		return false
	}
	return true
}

// ops: one letter per edited entry - D delete, X replace (foreign type and fresh digest), I insert a foreign entry,
// R re-digest, T retype; budget: DisabledEventsMaxDistance relative to what the script needs
func scriptCase(c *gal.Ctx, b *boot, alg tpm2.Algorithm, ops string, budget int) bool {
	rng := c.Rng
	sims := b.simIdx(alg)
	seen := map[string]bool{}
	types := map[tpmeventlog.EventType]bool{}
	for _, i := range sims {
		seen[string(b.tp.EventLog[i].Digest)] = true
		types[b.tp.EventLog[i].Type] = true
	}
	onEntries := len(ops) - strings.Count(ops, "I")
	if len(seen) != len(sims) || onEntries > len(sims) || b.simErr(alg) {
		return false // simulated digests of the bank not pairwise different, or fewer entries than operations: another boot
	}
	var foreign []tpmeventlog.EventType
	for _, t := range eventTypes {
		if !types[t] {
			foreign = append(foreign, t)
		}
	}
	fresh := func() []byte {
		d := make([]byte, hashSize(alg))
		rng.Read(d)
		return d
	}
	g := newGen(c, b, alg)
	t := &scriptTruth{script: ops, status: map[*tpmeventlog.Event]int{}, origin: map[*tpmeventlog.Event]int{}, missing: map[int]bool{}}
	for _, i := range sims {
		t.status[g.evs[i]], t.origin[g.evs[i]] = 1, i
	}
	targets := rng.Perm(len(sims))
	deleted := map[*tpmeventlog.Event]bool{}
	inserts := 0
	for _, op := range ops {
		if op == 'I' {
			inserts++
			continue
		}
		si := sims[targets[0]]
		targets = targets[1:]
		e := g.evs[si]
		switch op {
		case 'D':
			deleted[e] = true
			delete(t.status, e)
			t.missing[si] = true
			g.ops = append(g.ops, fmt.Sprintf("delete the entry of simulated event %d", si))
		case 'X':
			e.Type, e.Digest.Digest = foreign[rng.Intn(len(foreign))], fresh()
			t.status[e], t.origin[e] = 3, -1
			t.missing[si] = true
			t.leftOut++
			g.ops = append(g.ops, fmt.Sprintf("entry of simulated event %d replaced: type %#x (no simulated event has it) and a fresh digest", si, uint32(e.Type)))
		case 'R':
			e.Digest.Digest = fresh()
			t.status[e] = 2
			g.ops = append(g.ops, fmt.Sprintf("entry of simulated event %d re-digested (fresh digest, type kept)", si))
		case 'T':
			e.Type = foreign[rng.Intn(len(foreign))]
			g.ops = append(g.ops, fmt.Sprintf("entry of simulated event %d retyped to %#x (digest kept)", si, uint32(e.Type)))
		}
	}
	var kept []*tpmeventlog.Event
	for _, e := range g.evs {
		if !deleted[e] {
			kept = append(kept, e)
		}
	}
	g.evs = kept
	for ; inserts > 0; inserts-- {
		e := &tpmeventlog.Event{PCRIndex: 0, Type: foreign[rng.Intn(len(foreign))], Digest: &tpmeventlog.Digest{HashAlgo: alg, Digest: fresh()}}
		if rng.Intn(2) == 0 {
			e.Data, _ = genEventData(rng, b.isz)
		}
		at := rng.Intn(len(g.evs) + 1)
		g.insertAt(at, e)
		t.status[e], t.origin[e] = 3, -1
		t.leftOut++
		g.ops = append(g.ops, fmt.Sprintf("foreign entry (type %#x, fresh digest) inserted at %d", uint32(e.Type), at))
	}
	surplus := len(bankPos(g.evs, alg)) - len(sims)
	if surplus < 0 {
		surplus = 0
	}
	md := t.leftOut + surplus + budget
	if md < 0 {
		md = 0
	}
	g.st.DisabledEventsMaxDistance = uint64(md)
	g.ops = append(g.ops, fmt.Sprintf("DisabledEventsMaxDistance %d (the script leaves %d recorded entries without a simulated event, the recorded log has %d entries more than the simulated one)", md, t.leftOut, surplus))
	g.truth = t
	doCase(c, "edit-script", g, false)
	// the same log through the search alone (the model of the search is exact about which results are optimal)
	var exp []*tpmeventlog.Event
	for _, e := range g.evs {
		if selected(e, alg) {
			exp = append(exp, e)
		}
	}
	searchCase(c, b, alg, exp, uint64(md))
	return true
}

// every multiset of n operations
func scriptsOf(n int) []string {
	var r []string
	var rec func(prefix string, from int)
	letters := "DXIRT"
	rec = func(prefix string, from int) {
		if len(prefix) == n {
			r = append(r, prefix)
			return
		}
		for i := from; i < len(letters); i++ {
			rec(prefix+string(letters[i]), i)
		}
	}
	rec("", 0)
	return r
}

// the alignment the search hook finds for the recorded log (when the call gets that far)
func (g *genCtx) preAlign(nilLog bool) (de, dc []bool, ok bool) {
	b := g.b
	if nilLog || b.simErr(g.alg) || hashSize(g.alg) < 0 {
		return nil, nil, false
	}
	var exp []*tpmeventlog.Event
	for _, e := range g.evs {
		if selected(e, g.alg) {
			if len(e.Digest.Digest) != hashSize(g.alg) {
				return nil, nil, false
			}
			exp = append(exp, e)
		}
	}
	var calc []*tpm.EventLogEntry
	var digs []tpm.Digest
	for _, i := range b.simIdx(g.alg) {
		calc = append(calc, &b.tp.EventLog[i])
		digs = append(digs, b.tp.EventLog[i].Digest)
	}
	st := g.st
	gal.Recover(func() {
		e2, c2, _, err := pcrbruteforcer.VerifBruteForceAlignedEventLogs(&st, calc, exp, digs)
		if err == nil && len(e2) == len(exp) && len(c2) == len(calc) {
			de, dc, ok = e2, c2, true
		}
	})
	return
}

// in how many places of the image the digests that will be left unexplained (entries left unpaired, or paired with
// another digest) can be found; without an alignment every entry counts
func (g *genCtx) searchRisk(de, dc []bool, have bool) int {
	var exp []*tpmeventlog.Event
	for _, e := range g.evs {
		if selected(e, g.alg) {
			exp = append(exp, e)
		}
	}
	sims := g.b.simIdx(g.alg)
	risk := 0
	add := func(e *tpmeventlog.Event) { risk += findable[string(e.Digest.Digest)] }
	if !have {
		for _, e := range exp {
			add(e)
		}
		return risk
	}
	i, j := 0, 0
	for i < len(exp) {
		switch {
		case j < len(sims) && dc[j]:
			j++
		case de[i] || j >= len(sims):
			add(exp[i])
			i++
		default:
			if !bytes.Equal(exp[i].Digest.Digest, g.b.tp.EventLog[sims[j]].Digest) {
				add(exp[i])
			}
			i++
			j++
		}
	}
	return risk
}

// digest -> number of places of the image that hold its preimage (2 stands for two or more); digests whose
// preimage the generator does not know (random, bit-flipped, PCR0_DATA) are found nowhere
var findable = map[string]int{}

func noteFindable(alg tpm2.Algorithm, pre []byte) {
	d := hashOf(alg, pre)
	if d == nil || len(pre) == 0 {
		return
	}
	if _, done := findable[string(d)]; done {
		return
	}
	n := 0
	img := firmware.FakeIntelFirmware
	for off := 0; n < 2 && off+len(pre) <= len(img); {
		k := bytes.Index(img[off:], pre)
		if k < 0 {
			break
		}
		n++
		off += k + 1
	}
	findable[string(d)] = n
}

// the recorded entry re-digested with the wanted register
func (g *genCtx) findWanted(v uint64) int {
	var d []byte
	for _, h := range g.hp {
		if h.v == v {
			d = h.dig
		}
	}
	for i, e := range g.evs {
		if selected(e, g.alg) && bytes.Equal(e.Digest.Digest, d) {
			return i
		}
	}
	return -1
}

func newGen(c *gal.Ctx, b *boot, alg tpm2.Algorithm) *genCtx {
	g := &genCtx{rng: c.Rng, b: b, alg: alg, st: randSettings(c.Rng), P: []int{1, 2, 3, 4, 5, 8, 14, 16, 32}[c.Rng.Intn(9)]}
	g.evs = recFromSim(b)
	// the table always knows the unmodified PCR0_DATA digest
	for _, p := range b.pcr0All(alg) {
		g.hp = append(g.hp, hpEntry{p.m, le64first(p.raw), hashOf(alg, p.raw)})
	}
	return g
}

// ---------------------------------------------------------------- hook cases

func flagged(bm []bool, items []string) string {
	s := make([]string, len(items))
	for i := range items {
		s[i] = gal.Pair(gal.Bool(bm[i]), items[i])
	}
	return gal.List(s)
}

func distCase(c *gal.Ctx, b *boot, alg tpm2.Algorithm, exp []*tpmeventlog.Event, de, dc []bool, kind string) {
	sims := b.simIdx(alg)
	var calc []*tpm.EventLogEntry
	var digs []tpm.Digest
	var simL, expL []string
	for _, i := range sims {
		calc = append(calc, &b.tp.EventLog[i])
		digs = append(digs, b.tp.EventLog[i].Digest)
		simL = append(simL, simLit(i, &b.tp.EventLog[i]))
	}
	for _, e := range exp {
		expL = append(expL, eventLit(e))
	}
	var d uint64
	pan, msg := gal.Recover(func() { d = pcrbruteforcer.VerifEventAndMeasurementsDistance(exp, de, calc, digs, dc) })
	r := "(OOk " + gal.U(d) + ")"
	if pan {
		r = "OPanic"
	}
	lit := fmt.Sprintf("CDist %s %s %s", flagged(dc, simL), flagged(de, expL), r)
	descr := map[string]interface{}{"kind": kind, "boot": b.name, "alg": fmt.Sprint(alg), "recorded": describeEvents(exp),
		"disabled_recorded": de, "disabled_simulated": dc, "distance": d, "panic": msg}
	idx := c.Add(kind, lit, descr, true)
	// oracle: distance 0 iff nothing is disabled and the two lists agree pairwise in type and digest
	if !pan {
		zero := len(exp) == len(calc)
		for _, x := range de {
			zero = zero && !x
		}
		for _, x := range dc {
			zero = zero && !x
		}
		if zero {
			for k := range exp {
				if exp[k].Type != calc[k].Type || !bytes.Equal(exp[k].Digest.Digest, digs[k]) {
					zero = false
				}
			}
		}
		if zero != (d == 0) {
			c.OracleFail(idx, fmt.Sprintf("eventAndMeasurementsDistance = %d although lists identical and nothing disabled = %v", d, zero),
				"reproduce_event_log.go:eventAndMeasurementsDistance", descr)
		} else {
			c.OracleOK()
		}
	}
}

func searchCase(c *gal.Ctx, b *boot, alg tpm2.Algorithm, exp []*tpmeventlog.Event, maxDist uint64) {
	sims := b.simIdx(alg)
	var calc []*tpm.EventLogEntry
	var digs []tpm.Digest
	var simL, expL []string
	for _, i := range sims {
		calc = append(calc, &b.tp.EventLog[i])
		digs = append(digs, b.tp.EventLog[i].Digest)
		simL = append(simL, simLit(i, &b.tp.EventLog[i]))
	}
	for _, e := range exp {
		expL = append(expL, eventLit(e))
	}
	st := pcrbruteforcer.SettingsReproduceEventLog{DisabledEventsMaxDistance: maxDist}
	var de, dc []bool
	var dist uint64
	var err error
	pan, msg := gal.Recover(func() { de, dc, dist, err = pcrbruteforcer.VerifBruteForceAlignedEventLogs(&st, calc, exp, digs) })
	descr := map[string]interface{}{"kind": "search", "boot": b.name, "alg": fmt.Sprint(alg), "recorded": describeEvents(exp),
		"max_distance": maxDist, "disabled_recorded": de, "disabled_simulated": dc, "distance": dist, "panic": msg}
	if pan || err != nil {
		c.OracleFail(-1, fmt.Sprintf("bruteForceAlignedEventLogs fails: panic=%v err=%v", msg, err), "reproduce_event_log.go:bruteForceAlignedEventLogs", descr)
		return
	}
	lit := fmt.Sprintf("CSearch %s %s %s %s %s %s", gal.List(simL), gal.List(expL), gal.U(maxDist), gal.BoolList(de), gal.BoolList(dc), gal.U(dist))
	idx := c.Add("search", lit, descr, true)
	ne, nc := 0, 0
	for _, x := range de {
		if x {
			ne++
		}
	}
	for _, x := range dc {
		if x {
			nc++
		}
	}
	if len(de) != len(exp) || len(dc) != len(calc) || len(exp)-ne != len(calc)-nc {
		c.OracleFail(idx, "the search returns bitmaps that do not leave equally many events on both sides", "reproduce_event_log.go:bruteForceAlignedEventLogs", descr)
	} else {
		c.OracleOK()
	}
}

// ---------------------------------------------------------------- main

// The analysis of a 64 KiB image has no use for gigabytes: the address space of the harness process is capped, so
// that a length taken from the event data and handed to make() unchecked ends the process with Go's "fatal error:
// runtime: out of memory" - which the driver reports together with the input recorded before the call - instead of
// draining the machine until the kernel kills some process.  (The harness itself stays below 100 MiB resident.)
func limitAddressSpace() {
	const lim = 4 << 30
	var r syscall.Rlimit
	if syscall.Getrlimit(syscall.RLIMIT_AS, &r) == nil && r.Cur > lim {
		r.Cur = lim
		_ = syscall.Setrlimit(syscall.RLIMIT_AS, &r)
	}
}

// The harness proper runs as a child of a thin supervisor (this binary again, with the variable set).  When the code
// under test ends the process - a panic in a goroutine of its own, a Go "fatal error" such as an allocation the
// process cannot get - the runtime prints the reason FIRST and then the stacks of all goroutines, which pushes the
// reason out of the part of the output the driver keeps.  The supervisor passes everything through and repeats that
// first line at the very end, so that the driver recognises the crash and reports the input recorded before the call.
const supervisedEnv = "C13_SUPERVISED"

func supervise() {
	exe, err := os.Executable()
	if err != nil {
		return // no supervisor: run the harness in this process
	}
	cmd := exec.Command(exe, os.Args[1:]...)
	cmd.Env = append(os.Environ(), supervisedEnv+"=1")
	cmd.Stdout = os.Stdout
	runtime.LockOSThread() // the death signal is bound to the thread that starts the child
	cmd.SysProcAttr = &syscall.SysProcAttr{Pdeathsig: syscall.SIGKILL}
	pr, err := cmd.StderrPipe()
	if err != nil {
		return
	}
	if err := cmd.Start(); err != nil {
		return
	}
	reason := ""
	rd := bufio.NewReaderSize(pr, 1<<16)
	for {
		line, err := rd.ReadString('\n')
		if line != "" {
			os.Stderr.WriteString(line)
			if reason == "" && (strings.HasPrefix(line, "fatal error: ") || strings.HasPrefix(line, "panic: ")) {
				reason = strings.TrimRight(line, "\n")
			}
		}
		if err != nil {
			break
		}
	}
	err = cmd.Wait()
	if err == nil {
		os.Exit(0)
	}
	code := 1
	if ee, ok := err.(*exec.ExitError); ok && ee.ExitCode() > 0 {
		code = ee.ExitCode()
	}
	if reason != "" {
		fmt.Fprintf(os.Stderr, "\nthe harness process died: %s\n", reason)
	} else {
		fmt.Fprintf(os.Stderr, "\nthe harness process ended abnormally: %v\n", err)
	}
	os.Exit(code)
}

func main() {
	if os.Getenv(supervisedEnv) == "" && os.Getenv(unhashProbeEnv) == "" {
		supervise()
	}
	limitAddressSpace()
	boots := buildBoots()
	if os.Getenv(unhashProbeEnv) != "" {
		unhashWitness(boots[0])
		return
	}
	header := baseHeader
	for _, b := range boots {
		header += "\n" + b.def
	}
	c := gal.New("C13", header, 60)
	algs := []tpm2.Algorithm{tpm2.AlgSHA1, tpm2.AlgSHA256}
	good := boots[:4]
	twoPCR0 := boots[4]
	badBoot := boots[5]
	multiRef := boots[6]
	refBoots := append(append([]*boot{}, good...), multiRef)

	// ---- probes: the fixed witnesses of the repaired defects (regression checks: a reproduced probe of a finding that
	// is no longer open is a violation) and, further down, of the open finding C13-single-corrected-register
	unhashDone := probeUnhash() // a child process, collected at the end
	probeD20(c, boots[0])
	probeNilMeas(c, boots[0])
	probeRange(c, boots[0])

	// ---- identical logs, nil / empty logs, unsupported banks
	for _, b := range boots {
		for _, alg := range algs {
			for k := 0; k < 2; k++ {
				g := newGen(c, b, alg)
				doCase(c, "identical", g, false)
			}
			g := newGen(c, b, alg)
			doCase(c, "nil-log", g, true)
			g = newGen(c, b, alg)
			g.evs = nil
			g.ops = []string{"empty log"}
			doCase(c, "empty-log", g, false)
		}
		for _, alg := range []tpm2.Algorithm{tpm2.AlgSHA384, tpm2.Algorithm(0x1234), tpm2.AlgNull} {
			g := newGen(c, b, alg)
			doCase(c, "other-bank", g, false)
		}
	}

	// ---- PCR0_DATA: every decrement around the window, per limit and GOMAXPROCS
	for _, b := range boots[:2] {
		for _, alg := range algs {
			_, _, raw := b.pcr0(alg)
			reg := le64first(raw)
			for _, limit := range []int{0, 1, 2, 3, 5, 8, 16} {
				for _, P := range []int{1, 2, 4, 7, 16} {
					if !c.Thorough() && (limit+P)%2 == 0 && limit > 3 {
						continue
					}
					top := limit + 2
					if P+1 > top {
						top = P + 1
					}
					for d := 0; d <= top; d++ {
						if !c.Thorough() && d > 3 && d < limit-1 {
							continue
						}
						g := newGen(c, b, alg)
						g.P = P
						g.st.MaxACMPolicyLinearDistance = limit
						g.st.EnableACMPolicyCombinatorialStrategy = false
						at := g.findPCR0Entry()
						v := reg - uint64(d)
						g.evs[at].Digest.Digest = g.pcr0Digest(v)
						g.expect(reg, v)
						g.ops = []string{fmt.Sprintf("PCR0_DATA entry re-digested with ACM_POLICY_STATUS - %d (limit %d, GOMAXPROCS %d)", d, limit, P)}
						doCase(c, "pcr0-decrement", g, false)
					}
				}
			}
			// bit flips anywhere in PCR0_DATA, under every combination of the two combinatorial settings: inside the
			// register (first / last bit, one, two, three bits), behind it (the next byte, the last byte, anywhere; one
			// or two bits), and on both sides at once.  Only the first kind is a register correction, and only within
			// the distance of the enabled strategy (or when the linear search happens to reach the value).
			g0 := newGen(c, b, alg)
			nbits := g0.pcr0Bits()
			in := func() int { return c.Rng.Intn(64) }
			pats := []struct {
				name string
				bits func() []int
			}{
				{"register bit 0", func() []int { return []int{0} }},
				{"register bit 63", func() []int { return []int{63} }},
				{"one register bit", func() []int { return []int{in()} }},
				{"two register bits", func() []int { a := in(); return []int{a, (a + 1 + c.Rng.Intn(63)) % 64} }},
				{"three register bits", func() []int {
					a := in()
					return []int{a, (a + 1 + c.Rng.Intn(31)) % 64, (a + 32 + c.Rng.Intn(31)) % 64}
				}},
				{"first bit behind the register", func() []int { return []int{64} }},
				{"a bit of the byte behind the register", func() []int { return []int{64 + c.Rng.Intn(8)} }},
				{"last bit of PCR0_DATA", func() []int { return []int{nbits - 1} }},
				{"one bit behind the register", func() []int { return []int{g0.bitOutside()} }},
				{"two bits behind the register", func() []int { a := g0.bitOutside(); return []int{a, 64 + (a-64+1+c.Rng.Intn(nbits-65))%(nbits-64)} }},
				{"register bit 63 and the bit behind it", func() []int { return []int{63, 64} }},
				{"a register bit and a bit behind the register", func() []int { return []int{in(), g0.bitOutside()} }},
			}
			if nbits > 72 {
				for pi, pat := range pats {
					for si, cs := range []struct {
						on   bool
						dist int
					}{{false, 2}, {true, 0}, {true, 1}, {true, 2}} {
						if !c.Thorough() && !cs.on && pi%2 == 1 {
							continue
						}
						g := newGen(c, b, alg)
						g.st.MaxACMPolicyLinearDistance = []int{0, 8, 2, 128}[(pi+si)%4]
						g.st.EnableACMPolicyCombinatorialStrategy = cs.on
						g.st.MaxACMPolicyCombinatorialDistance = cs.dist
						fl := pat.bits()
						at := g.findPCR0Entry()
						var v uint64
						var outside bool
						g.evs[at].Digest.Digest, v, outside = g.pcr0FlipDigest(fl)
						if !outside {
							g.expect(reg, v)
						}
						g.ops = []string{fmt.Sprintf("PCR0_DATA entry re-digested with bits %v of PCR0_DATA flipped (%s; bits 0..63 are ACM_POLICY_STATUS, which reads %#x then)", fl, pat.name, v)}
						doCase(c, "pcr0-bitflip", g, false)
					}
				}
			}
		}
	}

	// ---- two PCR0_DATA measurements in one bank
	probeTwoRegisters(c, twoPCR0)
	for _, alg := range algs {
		ps := twoPCR0.pcr0All(alg)
		reg := le64first(ps[0].raw)
		for _, dd := range [][2]int{{0, 0}, {1, 1}, {0, 2}, {3, 0}, {1, 2}, {2, 1}, {5, 9}, {9, 1}} {
			g := newGen(c, twoPCR0, alg)
			g.st.MaxACMPolicyLinearDistance = 8
			g.st.EnableACMPolicyCombinatorialStrategy = false
			k := 0
			for _, i := range bankPos(g.evs, alg) {
				if g.evs[i].Type == tpmeventlog.EV_S_CRTM_CONTENTS && k < 2 {
					g.evs[i].Digest.Digest = g.pcr0Digest(reg - uint64(dd[k]))
					k++
				}
			}
			g.ops = []string{fmt.Sprintf("the two PCR0_DATA entries re-digested with ACM_POLICY_STATUS - %d and - %d", dd[0], dd[1])}
			doCase(c, "two-pcr0data", g, false)
		}
	}

	// ---- event data with (offset,length) pairs on a mismatching / unexpected entry
	for k := 0; k < c.Scale(160, 1200); k++ {
		b := refBoots[c.Rng.Intn(len(refBoots))]
		alg := algs[c.Rng.Intn(2)]
		g := newGen(c, b, alg)
		pos := bankPos(g.evs, alg)
		at := pos[c.Rng.Intn(len(pos))]
		data, what := genEventData(c.Rng, b.isz)
		if k%3 == 0 { // as an inserted (unexpected) entry
			e := g.newEntry()
			e.Data = data
			e.Type = []tpmeventlog.EventType{evPostCode, evBlob2}[c.Rng.Intn(2)]
			g.insertAt(at, e)
			g.ops = []string{fmt.Sprintf("insert entry at %d with data: %s", at, what)}
		} else { // on an existing entry whose digest no longer matches
			g.evs[at].Data = data
			if k%3 == 1 {
				g.evs[at].Type = []tpmeventlog.EventType{evPostCode, evBlob2}[c.Rng.Intn(2)]
			}
			g.evs[at].Digest.Digest = g.randDigest()
			g.ops = []string{fmt.Sprintf("entry %d re-digested, data: %s", at, what)}
		}
		doCase(c, "event-data", g, false)
	}

	parserTypes := []tpmeventlog.EventType{evPostCode, evBlob2}
	// ---- records of two arbitrary 64-bit numbers ("event data containing arbitrary (offset, length) pairs"): every
	// address class of the window x every length class of the 64-bit range x both field orders, and the numbers that
	// are no address of the window next to a few lengths; alone, behind a real pair (so that a chunk was made before
	// it is read) or in front of one; on an inserted (unexpected) entry and on an entry that stays paired with its
	// simulated event and measurement but has another digest
	wideN := 0
	wideCase := func(o, l wideField, offsetFirst bool) {
		b := refBoots[c.Rng.Intn(len(refBoots))]
		alg := algs[c.Rng.Intn(2)]
		// the classes are relative to the image of the boot
		g := newGen(c, b, alg)
		rec := wideRecord(o.v, l.v, offsetFirst)
		what := "a " + wideDescr(o, l, offsetFirst)
		data := rec
		switch wideN % 5 {
		case 1:
			data = append(onePair(c.Rng, b.isz, pkReal), rec...)
			what = "a real pair, then (read first) " + what
		case 3:
			data = append(append([]byte{}, rec...), onePair(c.Rng, b.isz, pkReal)...)
			what += ", then (read first) a real pair"
		}
		typ := parserTypes[wideN%2]
		if wideN%2 == 0 { // inserted
			pos := bankPos(g.evs, alg)
			at := pos[c.Rng.Intn(len(pos))]
			e := g.newEntry()
			e.Data, e.Type = data, typ
			g.insertAt(at, e)
			g.ops = []string{fmt.Sprintf("insert entry of type %#x at %d with event data: %s", uint32(typ), at, what)}
		} else { // paired, other digest
			sims := b.simIdx(alg)
			si := sims[c.Rng.Intn(len(sims))]
			if _, pi, _ := b.pcr0(alg); b.regs && si == pi { // the event data of a PCR0_DATA entry is not looked at
				si = sims[c.Rng.Intn(len(sims))]
			}
			e := g.evs[si]
			e.Data = data
			how := "same type"
			if !hasParser(e.Type) {
				e.Type = typ
				g.st.DisabledEventsMaxDistance = 0
				how = fmt.Sprintf("retyped to %#x, DisabledEventsMaxDistance 0", uint32(typ))
			}
			e.Digest.Digest[c.Rng.Intn(len(e.Digest.Digest))] ^= 1 << uint(c.Rng.Intn(8))
			g.ops = []string{fmt.Sprintf("entry %d re-digested (%s), event data: %s", si, how, what)}
		}
		wideN++
		doCase(c, "wide-record", g, false)
	}
	{
		isz := refBoots[0].isz // one image for all boots
		for _, first := range []bool{true, false} {
			for _, o := range wideOffsetsInside(c.Rng, isz) {
				for _, l := range wideLengths(c.Rng, isz, o.v) {
					wideCase(o, l, first)
				}
			}
			for _, o := range wideOffsetsOutside(c.Rng, isz) {
				ls := wideLengths(c.Rng, isz, o.v)
				for _, li := range []int{0, 1, 5, 7, 12, 23} {
					if !c.Thorough() && li == 12 {
						continue
					}
					wideCase(o, ls[li], first)
				}
			}
		}
	}

	// ---- lists of (length, offset) pairs on an entry that is only re-digested, so that it stays paired with its
	// simulated event and measurement (one, two, three references; image ranges and hard-coded values): every list
	// of empty / real pairs up to three (thorough: four) pairs on every simulated entry, then longer random lists
	pairCase := func(b *boot, alg tpm2.Algorithm, si int, kinds, descr string, kind string) {
		g := newGen(c, b, alg)
		e := g.evs[si] // recFromSim keeps the indexes of the simulated log
		e.Data = pairListData(c.Rng, b.isz, kinds, descr)
		what := "same type"
		if !hasParser(e.Type) {
			// a type whose event data is read; with no entry to spare for the alignment the two stay paired
			e.Type = parserTypes[c.Rng.Intn(2)]
			g.st.DisabledEventsMaxDistance = 0
			what = fmt.Sprintf("retyped to %#x, DisabledEventsMaxDistance 0", uint32(e.Type))
		}
		e.Digest.Digest[c.Rng.Intn(len(e.Digest.Digest))] ^= 1 << uint(c.Rng.Intn(8))
		g.ops = []string{fmt.Sprintf("entry %d re-digested (%s), event data = pair list %q after description %q (E empty, R real, S/Z stored offset first, X ends at the image end, P reaches past it, W two 64-bit numbers; the last pair of the data is read first)", si, what, kinds, descr)}
		doCase(c, kind, g, false)
	}
	lists := allKinds(c.Scale(3, 4))
	for _, b := range refBoots {
		for ai, alg := range algs {
			for pos, si := range b.simIdx(alg) {
				noMeas := b.measurementOfEvent(si) < 0
				for ki, kinds := range lists {
					if !c.Thorough() && (pos+ki+ai)%2 != 0 {
						continue
					}
					if noMeas && ki > 3 { // an event that was only logged has no references to count: a few lists do
						continue
					}
					pairCase(b, alg, si, kinds, "", "pair-list")
				}
			}
		}
	}
	for k := 0; k < c.Scale(80, 800); k++ {
		b := refBoots[c.Rng.Intn(len(refBoots))]
		alg := algs[c.Rng.Intn(2)]
		sims := b.simIdx(alg)
		descr := ""
		if k%4 == 0 {
			descr = []string{"FV_BB", "FV_MAIN_COMPACT", "Fv(4F1C52D3-D824-4D2A-A2F0-EC40C23C5916)"}[c.Rng.Intn(3)]
		}
		pairCase(b, alg, sims[c.Rng.Intn(len(sims))], randKinds(c.Rng, 6), descr, "pair-list-random")
	}

	// ---- the digest search of the explainer with many guesses on logs whose unexplained digests are found at several
	// places of the image by several workers at once (the input class of the repaired defect
	// C13-unhash-concurrent-found-digests: the search died in a goroutine): a copied EV_SEPARATOR entry (digest of four
	// zero bytes), entries with the digest of a short run of 0x00 / 0xff bytes, one to three of them per log
	for k := 0; k < c.Scale(40, 400); k++ {
		b := refBoots[c.Rng.Intn(len(refBoots))]
		alg := algs[c.Rng.Intn(2)]
		g := newGen(c, b, alg)
		g.st.MaxDigestRangeGuesses = uint64(20000 + c.Rng.Intn(1500000))
		n := 1 + c.Rng.Intn(3)
		for i := 0; i < n; i++ {
			pos := bankPos(g.evs, alg)
			at := pos[c.Rng.Intn(len(pos))]
			sep := -1
			for _, q := range pos {
				if g.evs[q].Type == tpmeventlog.EV_SEPARATOR {
					sep = q
				}
			}
			if sep >= 0 && c.Rng.Intn(2) == 0 {
				g.insertAt(sep+1, cloneEvent(g.evs[sep]))
				g.ops = append(g.ops, fmt.Sprintf("copy of the EV_SEPARATOR entry %d inserted after it", sep))
				continue
			}
			piece := bytes.Repeat([]byte{[]byte{0, 0xff}[c.Rng.Intn(2)]}, []int{4, 8, 16, 20, 32}[c.Rng.Intn(5)])
			noteFindable(alg, piece)
			e := &tpmeventlog.Event{PCRIndex: 0, Type: eventTypes[c.Rng.Intn(len(eventTypes))],
				Digest: &tpmeventlog.Digest{HashAlgo: alg, Digest: hashOf(alg, piece)}}
			if c.Rng.Intn(2) == 0 {
				g.insertAt(at, e)
				g.ops = append(g.ops, fmt.Sprintf("insert entry at %d with the digest of %d bytes %#x", at, len(piece), piece[0]))
			} else {
				g.evs[at].Digest.Digest = e.Digest.Digest
				g.ops = append(g.ops, fmt.Sprintf("entry %d re-digested with the digest of %d bytes %#x", at, len(piece), piece[0]))
			}
		}
		g.ops = append(g.ops, fmt.Sprintf("MaxDigestRangeGuesses %d", g.st.MaxDigestRangeGuesses))
		doCase(c, "digest-search", g, false)
	}

	// ---- edit scripts with a ground truth: every multiset of one to three operations (thorough: four; quick: a
	// sample of the four-operation ones) out of delete / replace / insert / re-digest / retype, on entries drawn per
	// case, with DisabledEventsMaxDistance one below, at, and one or two above what the script needs
	{
		var scripts []string
		for n := 1; n <= 3; n++ {
			scripts = append(scripts, scriptsOf(n)...)
		}
		four := scriptsOf(4)
		if c.Thorough() {
			scripts = append(scripts, four...)
		} else {
			for _, i := range c.Rng.Perm(len(four))[:24] {
				scripts = append(scripts, four[i])
			}
		}
		for si, sc := range scripts {
			for bi, budget := range []int{-1, 0, 1, 2} {
				if !c.Thorough() && budget == 2 && si%3 != 0 {
					continue
				}
				for rep := 0; rep < c.Scale(1, 4); rep++ {
					alg := algs[c.Rng.Intn(2)]
					first := si + bi + rep + c.Rng.Intn(2)
					done := false
					for try := 0; try < len(refBoots) && !done; try++ {
						done = scriptCase(c, refBoots[(first+try)%len(refBoots)], alg, sc, budget)
					}
					if !done {
						c.Count("edit script: no boot has enough simulated events with pairwise different digests for the script")
					}
				}
			}
		}
	}

	// ---- random edit scripts of 1..4 operations
	for k := 0; k < c.Scale(640, 6000); k++ {
		b := refBoots[c.Rng.Intn(len(refBoots))]
		if c.Rng.Intn(40) == 0 {
			b = badBoot
		}
		alg := algs[c.Rng.Intn(2)]
		g := newGen(c, b, alg)
		n := 1 + c.Rng.Intn(4)
		for i := 0; i < n; i++ {
			g.edit()
		}
		doCase(c, "random", g, false)

		// the same recorded log through the hooks
		if k%4 == 0 && !b.simErr(alg) {
			var exp []*tpmeventlog.Event
			okLen := true
			for _, e := range g.evs {
				if selected(e, alg) {
					exp = append(exp, e)
					okLen = okLen && len(e.Digest.Digest) == hashSize(alg)
				}
			}
			if okLen {
				searchCase(c, b, alg, exp, g.st.DisabledEventsMaxDistance)
				ns := len(b.simIdx(alg))
				// balanced random bitmaps
				de := make([]bool, len(exp))
				dc := make([]bool, ns)
				common := len(exp)
				if ns < common {
					common = ns
				}
				keep := 0
				if common > 0 {
					keep = c.Rng.Intn(common + 1)
				}
				for _, i := range c.Rng.Perm(len(exp))[:len(exp)-keep] {
					de[i] = true
				}
				for _, i := range c.Rng.Perm(ns)[:ns-keep] {
					dc[i] = true
				}
				distCase(c, b, alg, exp, de, dc, "distance/balanced")
				if k%16 == 0 { // unbalanced: the "should never happen" panic
					de2 := append([]bool{}, de...)
					if len(de2) > 0 {
						de2[c.Rng.Intn(len(de2))] = !de2[0]
						distCase(c, b, alg, exp, de2, dc, "distance/any")
					}
				}
			}
		}
	}
	// distance: identical lists, and a digest of the wrong length
	for _, b := range good {
		for _, alg := range algs {
			var exp []*tpmeventlog.Event
			for _, e := range recFromSim(b) {
				if selected(e, alg) {
					exp = append(exp, e)
				}
			}
			none := make([]bool, len(exp))
			distCase(c, b, alg, exp, none, make([]bool, len(exp)), "distance/identical")
			if len(exp) > 0 {
				exp2 := append([]*tpmeventlog.Event{}, exp...)
				exp2[0] = cloneEvent(exp2[0])
				exp2[0].Type++
				distCase(c, b, alg, exp2, none, make([]bool, len(exp)), "distance/one-type")
				exp3 := append([]*tpmeventlog.Event{}, exp...)
				exp3[len(exp3)-1] = cloneEvent(exp3[len(exp3)-1])
				exp3[len(exp3)-1].Digest.Digest = exp3[len(exp3)-1].Digest.Digest[:5]
				distCase(c, b, alg, exp3, none, make([]bool, len(exp)), "distance/short-digest")
			}
		}
	}

	unhashDone(c)
	c.Rep.Extra["boots"] = func() []string {
		var r []string
		for _, b := range boots {
			r = append(r, b.name)
		}
		return r
	}()
	c.Finish("simulated boots on testdata/firmware/fake_intel_firmware.fd (Intel test flow with startup locality + PCR0_DATA + 3 measurements; small register, no locality entry, POST_CODE measurements, PCR1 measurement, two measurements in one step; no TXT registers with a log-only entry; registers without PCR0_DATA; a flow alignLogAndMeasurements rejects; measurements of two and three references, image ranges and hard-coded values mixed, behind EV_POST_CODE / firmware-blob entries); " +
		"recorded logs = both banks of the simulated log changed by 0..4 edit operations on the PCR0 entries of the chosen bank (insert new / copied entry, delete, swap, move, retype, re-digest with random / zero / image-piece digests, event data with zero, one, two, three (length,offset) pairs in range, swapped, ending at / reaching past the image end, invalid, Fv(guid) descriptions, lists of 0..6 pairs (empty, real, stored offset first, at / past the image end, records of two 64-bit numbers) in any order, one record of two 64-bit numbers alone / next to a real pair / behind a description, entry leaves the bank, truncated digest, PCR0_DATA re-digested with ACM_POLICY_STATUS decremented inside / at / above the window, with 1-2 flipped register bits, or with 1-2 bits flipped behind the register / on both sides of its end); " +
		"pair lists: every list of empty / real pairs up to three pairs (thorough: four) as the event data of every simulated entry, the entry only re-digested (retyped to a parsed type with DisabledEventsMaxDistance 0 where needed) so that it stays paired with its measurement of one, two or three references, plus random longer lists after descriptions; " +
		"wide records (the two fields of a 16-byte record are arbitrary 64-bit numbers): every address class (first / near the start / inside / last address of the window the image is mapped to; and, with fewer lengths, one below the window, 4 GiB, 0, an offset inside the image file, 2^63 + an address, 2^64 - 1) x every length class (0, 1, up to / one past the image end, image size - 1 / +0 / +1 / x2, the window base, 4 GiB - 1, 4 GiB, 4 GiB - address, 2^63 - 1, 2^63, 2^64 - image size, the lengths with which offset-inside-the-image + length wraps around 2^64 to 0 / 1 / a small number / the image size / the image size + 1, the lengths with which address + length wraps to 0 / a small number / the image size, 2^64 - 1, random 64-bit and 33..63-bit numbers) x both field orders, alone, read after a real pair or before one, alternately on an inserted (unexpected) entry and on an entry that stays paired with its measurement but has another digest, both parsed event types; the harness proper runs under a 4 GiB address-space cap as a child of a supervisor that repeats the reason of a crash (panic in a goroutine of the code under test, Go fatal error such as an allocation of gigabytes) at the end of the output, so that the input recorded before the call is reported; " +
		"sweeps: every decrement 0..max(limit,GOMAXPROCS)+2 for limits 0..16 and GOMAXPROCS 1..16, bit flips anywhere in PCR0_DATA (register bit 0 / 63 / one / two / three bits; the first bit, the next byte, the last bit, one or two bits behind the register; a register bit together with a bit behind it) under combinatorial strategy off / on with distance 0, 1, 2 and linear limits 0, 2, 8, 128; the oracle re-hashes PCR0_DATA with the returned register for every repaired entry and demands the repair (with that value) whenever the settings promise it (decrement inside the window, or strategy enabled and at most distance register bits differ); settings drawn per case (linear limit incl. negative, combinatorial strategy on in half of the cases with distance 0..2, DisabledEventsMaxDistance 0..4, MaxDigestRangeGuesses 1..300; 20000..1520000 on the digest-search logs, whose unexplained digests (copied EV_SEPARATOR entry, runs of 0x00 / 0xff bytes) are found at many places of the image by several workers at once - the input class of the repaired defect C13-unhash-concurrent-found-digests, whose witness also runs in a child process as a regression check); SHA1 and SHA256 (+ SHA384, unknown and null algorithm, nil and empty log); " +
		"edit scripts with a ground truth: every multiset of one to three (quick: a sample of the four-, thorough: every four-) operations out of delete an entry / replace it (foreign type and fresh digest) / insert a foreign entry / re-digest / retype, on entries drawn per case of a boot whose simulated digests are pairwise different, nothing reordered, with DisabledEventsMaxDistance one below, at, one and two above what the script needs - so that the recorded log is shorter, equally long or longer than the simulated one and the alignment has to leave out further entries on BOTH sides after evening out the amounts; the oracle demands the verdicts of the script (inserted / replaced entry unexpected, deleted / replaced event missing, re-digested entry mismatch, kept / retyped entry match with its own event) whenever the settings allow them, and in every case of every kind rejects a mismatch entry whose two events agree in neither type nor digest while DisabledEventsMaxDistance still allows to leave out one more recorded event; the bitmaps of every returned result (and of every hook call) must be a result of the set-level model of the search (minimal distance in the space its phases enumerate); " +
		"hook cases: eventAndMeasurementsDistance on balanced/unbalanced bitmaps and short digests, bruteForceAlignedEventLogs on the generated logs and on every edit-script log; non-trivial = at least one edit operation; distinct = distinct Gallina literal")
}

// ---------------------------------------------------------------- probes

func blobEntry(g *genCtx) int {
	for _, i := range bankPos(g.evs, g.alg) {
		if g.evs[i].Type == evBlob2 {
			return i
		}
	}
	return -1
}

func fixedGen(c *gal.Ctx, b *boot) *genCtx {
	g := newGen(c, b, tpm2.AlgSHA1)
	g.st = pcrbruteforcer.SettingsReproduceEventLog{DisabledEventsMaxDistance: 2, MaxDigestRangeGuesses: 10}
	g.st.MaxACMPolicyLinearDistance = 8
	g.P = 4
	return g
}

func probeD20(c *gal.Ctx, b *boot) {
	g := fixedGen(c, b)
	at := blobEntry(g)
	g.evs[at].Digest.Digest[0] ^= 1
	g.evs[at].Data = append(pair16(16, 0xffff0000), pair16(16, 0xffff1000)...)
	o := runRepro(b, &tpmeventlog.TPMEventLog{Events: g.evs}, g.alg, g.st, g.P)
	c.Probe(findD20, o.Outcome == "panic",
		"regression check of the repaired defect (e99f02a): ReproduceEventLog (fake Intel image, test flow, SHA1) on the simulated log whose firmware-blob entry got a wrong digest (byte 0 flipped) and the event data le64(16) le64(0xffff0000) le64(16) le64(0xffff1000), i.e. two (length,offset) pairs over a measurement of one reference: "+o.Outcome+" "+o.Msg)
	g.ops = []string{"probe D20: firmware-blob entry re-digested, two (length,offset) pairs in its data"}
	doCase(c, "probe-d20", g, false)
}

func probeNilMeas(c *gal.Ctx, b *boot) {
	g := fixedGen(c, b)
	for _, i := range bankPos(g.evs, g.alg) {
		if g.evs[i].Type == evNoAction {
			g.evs[i].Digest.Digest[0] = 1
			break
		}
	}
	o := runRepro(b, &tpmeventlog.TPMEventLog{Events: g.evs}, g.alg, g.st, g.P)
	c.Probe(findNilM, o.Outcome == "panic",
		"regression check of the repaired defect (60718db): ReproduceEventLog (fake Intel image, test flow, TXT registers present, SHA1) on the simulated log whose startup-locality (EV_NO_ACTION) entry has digest byte 0 set to 1: "+o.Outcome+" "+o.Msg)
	g.ops = []string{"probe: startup-locality entry re-digested"}
	doCase(c, "probe-nil-measurement", g, false)
}

func probeTwoRegisters(c *gal.Ctx, b *boot) {
	g := fixedGen(c, b)
	ps := b.pcr0All(g.alg)
	reg := le64first(ps[0].raw)
	k := 0
	var digs [][]byte
	for _, i := range bankPos(g.evs, g.alg) {
		if g.evs[i].Type == tpmeventlog.EV_S_CRTM_CONTENTS && k < 2 {
			g.evs[i].Digest.Digest = g.pcr0Digest(reg - uint64(k+1))
			digs = append(digs, g.evs[i].Digest.Digest)
			k++
		}
	}
	o := runRepro(b, &tpmeventlog.TPMEventLog{Events: g.evs}, g.alg, g.st, g.P)
	rep := false
	if o.Outcome == "ok" && o.Reg != nil && len(digs) == 2 {
		buf := append([]byte{}, ps[0].raw...)
		binary.LittleEndian.PutUint64(buf, *o.Reg)
		h := hashOf(g.alg, buf)
		nMatch := 0
		for _, e := range o.Entries {
			if e.Status == 1 && e.Exp >= 0 && (bytes.Equal(g.evs[e.Exp].Digest.Digest, digs[0]) || bytes.Equal(g.evs[e.Exp].Digest.Digest, digs[1])) {
				nMatch++
			}
		}
		rep = nMatch == 2 && !bytes.Equal(h, digs[0]) && bytes.Equal(h, digs[1])
	}
	c.Probe(findOneReg, rep, "boot with PCR0_DATA measured twice, recorded with ACM_POLICY_STATUS-1 and -2: both entries marked matching, the single returned register justifies only the second: "+o.Outcome+" "+o.Msg)
}

func probeRange(c *gal.Ctx, b *boot) {
	g := fixedGen(c, b)
	at := blobEntry(g)
	g.evs[at].Digest.Digest[0] ^= 1
	g.evs[at].Data = pair16(0x20, 0xfffffff0)
	o := runRepro(b, &tpmeventlog.TPMEventLog{Events: g.evs}, g.alg, g.st, g.P)
	c.Probe(findRange, o.Outcome == "panic",
		"regression check of the repaired defect (dbffb11): ReproduceEventLog (fake Intel image of 64 KiB, test flow, SHA1) on the simulated log whose firmware-blob entry got a wrong digest (byte 0 flipped) and the event data le64(0x20) le64(0xfffffff0), one (length,offset) pair reaching 16 bytes past the image end: "+o.Outcome+" "+o.Msg)
	g.ops = []string{"probe: firmware-blob entry re-digested, pair (0x20 bytes at 0xfffffff0)"}
	doCase(c, "probe-range", g, false)
}

// ---------------------------------------------------------------- the digest search of the explainer (repaired defect C13-unhash-concurrent-found-digests, d07fe59)

// Regression check.  The defect: the check function of the third-party digest search removed a found digest from a
// list shared by all worker goroutines without a lock; two workers finding a digest at the same time panicked in a
// goroutine, which cannot be recovered and kills the process.  So the witness runs in a child process (this binary
// with the variable set); a crash there is a violation.
const unhashProbeEnv = "C13_UNHASH_WITNESS"
const unhashWitnessTime = 6 * time.Second

// recorded log = simulated log with a second copy of the EV_SEPARATOR entry (digest of four zero bytes, which the
// image holds in many places), default guess limit
func unhashWitnessLog(b *boot) []*tpmeventlog.Event {
	evs := recFromSim(b)
	for i, e := range evs {
		if e.Type == tpmeventlog.EV_SEPARATOR && selected(e, tpm2.AlgSHA1) {
			evs = append(evs[:i+1], append([]*tpmeventlog.Event{cloneEvent(e)}, evs[i+1:]...)...)
			break
		}
	}
	return evs
}

func unhashWitness(b *boot) {
	st := pcrbruteforcer.DefaultSettingsReproduceEventLog()
	st.MaxDigestRangeGuesses = 2000000
	t0 := time.Now()
	k := 0
	for ; time.Since(t0) < unhashWitnessTime; k++ {
		evs := unhashWitnessLog(b)
		pcrbruteforcer.ReproduceEventLog(context.Background(), b.proc, &tpmeventlog.TPMEventLog{Events: evs}, tpm2.AlgSHA1, st)
	}
	fmt.Println("witness: no crash in", k, "calls")
}

func probeUnhash() func(c *gal.Ctx) {
	exe, err := os.Executable()
	if err != nil {
		return func(*gal.Ctx) {}
	}
	cmd := exec.Command(exe)
	cmd.Env = append(os.Environ(), unhashProbeEnv+"=1")
	done := make(chan struct{})
	var out []byte
	go func() { out, _ = cmd.CombinedOutput(); close(done) }()
	return func(c *gal.Ctx) {
		select {
		case <-done:
		case <-time.After(unhashWitnessTime + 20*time.Second):
			if cmd.Process != nil {
				cmd.Process.Kill()
			}
			<-done
		}
		s := string(out)
		crashed := strings.Contains(s, "panic: ") || strings.Contains(s, "fatal error: ")
		msg := "no crash"
		if i := strings.Index(s, "fatal error: "); crashed && i >= 0 {
			msg = "the process died: " + strings.SplitN(s[i:], "\n", 2)[0]
		}
		if i := strings.Index(s, "panic: "); crashed && i >= 0 {
			msg = s[i:]
			if j := strings.IndexByte(msg, '\n'); j >= 0 {
				msg = msg[:j]
			}
			msg = "the process died in a goroutine of the digest search: " + msg
		}
		c.Probe(findUnhash, crashed, fmt.Sprintf("regression check of the repaired defect (d07fe59): child process: ReproduceEventLog (fake Intel image, test flow, SHA1, default settings, MaxDigestRangeGuesses 2000000) on the simulated log with a second copy of the EV_SEPARATOR entry, repeated for up to %s: %s", unhashWitnessTime, msg))
	}
}
