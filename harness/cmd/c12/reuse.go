// Repeated calls on one reused object of the two other observed entry points: a tpm.EventLog
// slice replayed again after its entries were edited in place, and one *Event parsed again by
// ParseEventData after its fields were edited in place.  Every call is an ordinary case of its
// kind (judged and modelled on the content at the moment of the call); between the calls of a
// sequence nothing else of the code under test is called.
package main

import (
	"github.com/9elements/converged-security-suite/v2/pkg/bootflow/subsystems/trustchains/tpm"
	"github.com/9elements/converged-security-suite/v2/pkg/tpmeventlog"
	"verifharness/gal"
)

func tpmReuse(c *gal.Ctx) {
	l, a := rEntries(c)
	for len(l) < 2 {
		l, a = rEntries(c)
	}
	loc := rloc(c)
	tpmReplay1(c, l, 0, a, loc, "reused-slice")
	rounds := 2 + c.Rng.Intn(3)
	for k := 0; k < rounds; k++ {
		i, j := c.Rng.Intn(len(l)), c.Rng.Intn(len(l))
		what := ""
		switch c.Rng.Intn(7) {
		case 0:
			l[i], l[j] = l[j], l[i]
			what = "swap"
		case 1:
			if len(l[i].Digest) > 0 {
				l[i].Digest[c.Rng.Intn(len(l[i].Digest))] ^= byte(1 + c.Rng.Intn(255))
			}
			what = "digest-byte-in-place"
		case 2:
			l[i].Digest = rbytes(c, digestLen(a))
			l[i].HashAlgo = a
			l[i].PCRIndex = 0
			what = "new-digest"
		case 3:
			if l[i].Type == evNoAction {
				l[i].Type = rMeasType(c)
			} else {
				l[i].Type = evNoAction
			}
			what = "set-type"
		case 4:
			l[i].PCRIndex = 1 - l[i].PCRIndex%2
			what = "set-pcr"
		case 5:
			if l[i].HashAlgo == a {
				l[i].HashAlgo = bankChoices[c.Rng.Intn(len(bankChoices))]
			} else {
				l[i].HashAlgo = a
			}
			what = "set-alg"
		default:
			l[i] = tpm.EventLogEntry{CommandExtend: tpm.CommandExtend{PCRIndex: 0, HashAlgo: a, Digest: rbytes(c, digestLen(a))}, Type: rMeasType(c)}
			what = "replace-entry"
		}
		c.Count("tpmreplay-reuse-edit/" + what)
		if c.Rng.Intn(4) == 0 {
			loc = rloc(c)
		}
		tpmReplay1(c, l, 0, a, loc, "reused-slice")
		if c.Rng.Intn(3) == 0 {
			restore1(c, l)
		}
	}
}

func parseDataReuse(c *gal.Ctx) {
	in := rParseEventDataInput(c)
	for in.ev.PCRIndex != 0 {
		in = rParseEventDataInput(c)
	}
	ev := in.ev // ONE Event object for the whole sequence
	parseData1(c, in, "reused-event")
	rounds := 2 + c.Rng.Intn(3)
	for k := 0; k < rounds; k++ {
		other := rParseEventDataInput(c)
		what := ""
		switch c.Rng.Intn(5) {
		case 0: // other data of the same length where possible, written into the same array
			if len(other.ev.Data) >= len(ev.Data) && len(ev.Data) > 0 {
				copy(ev.Data, other.ev.Data)
				what = "data-overwritten-in-place"
			} else {
				ev.Data = other.ev.Data
				what = "new-data"
			}
		case 1:
			ev.Data = other.ev.Data
			what = "new-data"
		case 2:
			if len(ev.Data) > 0 {
				ev.Data[c.Rng.Intn(len(ev.Data))] ^= byte(1 + c.Rng.Intn(255))
			}
			what = "data-byte-in-place"
		case 3:
			ev.Type, ev.Data = other.ev.Type, other.ev.Data
			what = "type-and-data"
		default:
			if ev.Type == tpmeventlog.EV_POST_CODE {
				ev.Type = tpmeventlog.EV_EFI_PLATFORM_FIRMWARE_BLOB2
			} else {
				ev.Type = tpmeventlog.EV_POST_CODE
			}
			what = "type"
		}
		c.Count("parsedata-reuse-edit/" + what)
		isz := in.isz
		if c.Rng.Intn(3) == 0 {
			isz = other.isz
		}
		parseData1(c, ped{ev, isz}, "reused-event")
	}
}
