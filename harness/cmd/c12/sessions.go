// Sessions on ONE *tpmeventlog.TPMEventLog object (Model/EventLogSess.v): the object is
// replayed / filtered several times and edited IN PLACE by its owner between the calls
// (entries swapped or replaced, an Event moved to another PCR or bank through its pointer,
// a digest changed / removed / resized, the Events slice replaced by one of the same length,
// events appended and removed ...).  The property quantifies over histories: every call is
// judged, from the property text, on the log as it is at the moment of the call.
//
// The harness keeps its own value-level record of the memory (shadow) and compares it with
// the real objects after every call, keeps every returned result and compares it with a
// private copy after every later step, and between two calls of a session calls NOTHING of
// the code under test (a private replay would refresh or evict whatever a changed
// implementation might remember).
package main

import (
	"bytes"
	"encoding/hex"
	"fmt"
	"io"

	"github.com/9elements/converged-security-suite/v2/pkg/bootflow/subsystems/trustchains/tpm"
	"github.com/9elements/converged-security-suite/v2/pkg/bootflow/subsystems/trustchains/tpm/pcr"
	"github.com/9elements/converged-security-suite/v2/pkg/tpmeventlog"
	"verifharness/gal"
)

// evVal: what an Event object holds, by value (private copies of the byte strings)
type evVal struct {
	pcr       pcr.ID
	typ       tpmeventlog.EventType
	data      []byte
	hasDigest bool
	alg       Alg
	digest    []byte
}

func valOf(e *Event) evVal {
	v := evVal{pcr: e.PCRIndex, typ: e.Type, data: append([]byte(nil), e.Data...)}
	if e.Digest != nil {
		v.hasDigest, v.alg, v.digest = true, e.Digest.HashAlgo, append([]byte(nil), e.Digest.Digest...)
	}
	return v
}

func (v evVal) event() *Event {
	e := &Event{PCRIndex: v.pcr, Type: v.typ, Data: append([]byte(nil), v.data...)}
	if v.hasDigest {
		e.Digest = &tpmeventlog.Digest{HashAlgo: v.alg, Digest: append([]byte(nil), v.digest...)}
	}
	return e
}

func (v evVal) same(e *Event) bool {
	if e == nil || e.PCRIndex != v.pcr || e.Type != v.typ || !bytes.Equal(e.Data, v.data) || (e.Digest != nil) != v.hasDigest {
		return false
	}
	return e.Digest == nil || (e.Digest.HashAlgo == v.alg && bytes.Equal(e.Digest.Digest, v.digest))
}

const (
	keptReplay = iota
	keptFilter
	keptParsed
	keptNone
)

// keptItem: a result the harness holds on to, with a private copy made when it was returned
type keptItem struct {
	kind      int
	r         res
	val       []byte   // the slice Replay returned
	valCopy   []byte   //   and what it held at that moment
	ptrs      []*Event // the slice FilterEvents returned
	ptrsCopy  []*Event
	lit       string // observation literal at the moment of the return
	scribbled bool   // the harness itself wrote into val / ptrs afterwards
	step      int
}

type session struct {
	c       *gal.Ctx
	obj     *tpmeventlog.TPMEventLog
	objs    []*Event
	addr    map[*Event]int
	shadow  []evVal
	evs     []int    // the addresses obj.Events holds, as the harness left them
	capView []*Event // obj.Events[:cap] as the harness left it (spare capacity holds sentinels)
	p       pcr.ID
	a       Alg
	shape   string

	heap0, evs0 string
	initEvs     []int
	initVals    []evVal
	initLog     []evJ
	steps       []string
	script      []map[string]interface{}
	kept        []keptItem
	tbl         []tblEntry
	tblSeen     map[string]bool

	failWhat, failSite string
	failed             bool
	judged             int
	editsSinceCall     []string
	callsAfterEdit     int
	nontrivial         bool
	lastMainSig        string
	mainCalled         bool
}

func (s *session) fail(what, site string) {
	if !s.failed {
		s.failed, s.failWhat, s.failSite = true, what, site
	}
}

// ---------------------------------------------------------------- memory

func (s *session) newObj(e *Event) int {
	ad := len(s.objs)
	s.objs = append(s.objs, e)
	s.addr[e] = ad
	s.shadow = append(s.shadow, valOf(e))
	return ad
}

func (s *session) addrOf(e *Event) int {
	if ad, ok := s.addr[e]; ok {
		return ad
	}
	return len(s.objs) + 1000 // not an Event object of this session
}

func (s *session) addrsLit(l []*Event) string {
	x := make([]string, len(l))
	for i, e := range l {
		x[i] = gal.Nat(s.addrOf(e))
	}
	return gal.List(x)
}

func natsLit(l []int) string {
	x := make([]string, len(l))
	for i, v := range l {
		x[i] = gal.Nat(v)
	}
	return gal.List(x)
}

func (s *session) heapLit() string {
	x := make([]string, len(s.shadow))
	for i, v := range s.shadow {
		x[i] = evLit(v.event())
	}
	return gal.List(x)
}

// the log as the property's reader sees it, rebuilt from the harness's own record
func (s *session) oracleLog() []*Event {
	l := make([]*Event, len(s.evs))
	for i, ad := range s.evs {
		l[i] = s.shadow[ad].event()
	}
	return l
}

var sentinel = &Event{PCRIndex: 0, Type: 0x7E57, Data: []byte("spare capacity")}

// setSlice gives the object a slice with spare capacity behind it (filled with a sentinel)
func (s *session) setSlice(ptrs []*Event) {
	spare := 1 + s.c.Rng.Intn(3)
	arr := make([]*Event, len(ptrs), len(ptrs)+spare)
	copy(arr, ptrs)
	full := arr[:cap(arr)]
	for i := len(ptrs); i < len(full); i++ {
		full[i] = sentinel
	}
	s.obj.Events = arr
}

// sync: after the owner edited the memory, bring the harness's record up to date and emit the
// model operations (new objects were emitted when they were made).
func (s *session) sync(name string, descr map[string]interface{}) {
	for ad, e := range s.objs {
		if !s.shadow[ad].same(e) {
			s.shadow[ad] = valOf(e)
			s.emitEdit("SSetEvent " + gal.Nat(ad) + " " + evLit(e))
		}
	}
	cur := make([]int, len(s.obj.Events))
	changed := len(cur) != len(s.evs)
	for i, e := range s.obj.Events {
		ad, ok := s.addr[e]
		if !ok {
			panic("session: the harness put a foreign pointer into the log")
		}
		cur[i] = ad
		if !changed && s.evs[i] != ad {
			changed = true
		}
	}
	if changed {
		s.evs = cur
		s.emitEdit("SSetEvents " + natsLit(cur))
	}
	s.capView = append([]*Event(nil), s.obj.Events[:cap(s.obj.Events)]...)
	if descr == nil {
		descr = map[string]interface{}{}
	}
	descr["edit"] = name
	descr["log_after_edit"] = logJSON(s.oracleLog())
	s.script = append(s.script, descr)
	s.editsSinceCall = append(s.editsSinceCall, name)
	s.c.Count("session-edit/" + name)
	s.checkKept("the owner's edit '" + name + "' of the log")
}

func (s *session) emitEdit(op string) {
	s.steps = append(s.steps, "("+op+", ONone)")
	s.kept = append(s.kept, keptItem{kind: keptNone, step: len(s.steps) - 1})
}

func (s *session) emitNew(e *Event) int {
	ad := s.newObj(e)
	s.emitEdit("SNew " + evLit(e))
	return ad
}

// after a call: the code under test only reads the log
func (s *session) checkMemory(call string) {
	const site = "pkg/tpmeventlog/replay.go (the log object after the call)"
	ev := s.obj.Events
	if len(ev) != len(s.evs) || cap(ev) != len(s.capView) {
		s.fail(fmt.Sprintf("%s changed log.Events: len %d cap %d, before the call len %d cap %d", call, len(ev), cap(ev), len(s.evs), len(s.capView)), site)
		return
	}
	full := ev[:cap(ev)]
	for i := range full {
		if full[i] != s.capView[i] {
			where := "entry"
			if i >= len(ev) {
				where = "spare-capacity entry"
			}
			s.fail(fmt.Sprintf("%s overwrote %s %d of the array behind log.Events", call, where, i), site)
			return
		}
	}
	for ad, e := range s.objs {
		if !s.shadow[ad].same(e) {
			s.fail(fmt.Sprintf("%s changed the Event object #%d of the log: now %+v", call, ad, evJSON(e)), site)
			return
		}
	}
}

// a result returned earlier stays what it was
func (s *session) checkKept(after string) {
	const site = "pkg/tpmeventlog/replay.go (a result kept by the caller)"
	for _, k := range s.kept {
		if k.scribbled {
			continue
		}
		switch k.kind {
		case keptReplay:
			if !bytes.Equal(k.val, k.valCopy) {
				s.fail(fmt.Sprintf("the value returned by Replay in step %d was %x and reads %x after %s", k.step, k.valCopy, k.val, after), site)
				return
			}
		case keptFilter:
			same := len(k.ptrs) == len(k.ptrsCopy)
			for i := 0; same && i < len(k.ptrs); i++ {
				same = k.ptrs[i] == k.ptrsCopy[i]
			}
			if !same {
				s.fail(fmt.Sprintf("the events returned by FilterEvents in step %d were #%v and read #%v after %s", k.step, s.addrsOf(k.ptrsCopy), s.addrsOf(k.ptrs), after), site)
				return
			}
		}
	}
}

func (s *session) addrsOf(l []*Event) []int {
	r := make([]int, len(l))
	for i, e := range l {
		r[i] = s.addrOf(e)
	}
	return r
}

// ---------------------------------------------------------------- calls

func (s *session) addTbl(t []tblEntry) {
	for _, e := range t {
		k := fmt.Sprintf("%d/%x", e.a, e.msg)
		if !s.tblSeen[k] {
			s.tblSeen[k] = true
			s.tbl = append(s.tbl, e)
		}
	}
}

func (s *session) history() string {
	if len(s.editsSinceCall) == 0 {
		return "no edit since the previous call"
	}
	return fmt.Sprintf("the owner edited the log since the previous call: %v", s.editsSinceCall)
}

func (s *session) afterCall(name string, isMain bool, sig string) {
	if len(s.editsSinceCall) > 0 {
		s.callsAfterEdit++
	}
	if isMain {
		if s.mainCalled && len(s.editsSinceCall) > 0 {
			if sig != s.lastMainSig {
				s.c.Count("session-main-call/answer-differs-from-previous")
			} else {
				s.c.Count("session-main-call/answer-same-as-previous")
			}
		}
		s.mainCalled, s.lastMainSig = true, sig
		s.c.Count("session-main-call-outcome/" + sig[:2])
	}
	s.editsSinceCall = nil
	s.c.Count("session-call/" + name)
}

func (s *session) doReplay(p pcr.ID, a Alg) {
	l := s.oracleLog()
	ex := expectReplay(l, p, a)
	s.addTbl(ex.tbl)
	var w io.Writer
	if s.c.Rng.Intn(2) == 0 {
		w = &bytes.Buffer{}
	}
	var v []byte
	var r res
	r.panicked, r.pmsg = gal.Recover(func() { v, r.err = tpmeventlog.Replay(s.obj, p, a, w) })
	lit := "OReplay " + robs(r, gal.Bytes(v))
	s.steps = append(s.steps, "(SReplay "+gal.Z(int64(p))+" "+gal.Z(int64(a))+", "+lit+")")
	s.kept = append(s.kept, keptItem{kind: keptReplay, r: r, val: v, valCopy: append([]byte(nil), v...), lit: lit, step: len(s.steps) - 1})
	s.script = append(s.script, map[string]interface{}{"call": "tpmeventlog.Replay(log, pcr, alg)", "pcr": int(p), "alg": int(a),
		"outcome": outcomeStr(r), "value": hex.EncodeToString(v), "fold_over_the_log_as_it_is": hex.EncodeToString(ex.want)})
	if len(ex.idx) > 0 && len(s.editsSinceCall) > 0 {
		s.nontrivial = true
	}
	if what := judgeReplay(ex, p, a, v, r); what != "" {
		s.fail(fmt.Sprintf("step %d of a session on one log object (%s): %s", len(s.script), s.history(), what), "pkg/tpmeventlog/replay.go Replay")
	} else {
		s.judged++
	}
	s.checkMemory("Replay")
	s.checkKept("a later Replay")
	s.afterCall("Replay", p == s.p && a == s.a, outcomeStr(r)+hex.EncodeToString(v))
}

func (s *session) doFilter(p pcr.ID, a Alg) {
	l := s.oracleLog()
	idx := selIdx(l, p, a)
	size := hashSize(a)
	var out []*Event
	var r res
	r.panicked, r.pmsg = gal.Recover(func() { out, r.err = s.obj.FilterEvents(p, a) })
	lit := "OFilter " + robs(r, s.addrsLit(out))
	s.steps = append(s.steps, "(SFilter "+gal.Z(int64(p))+" "+gal.Z(int64(a))+", "+lit+")")
	s.kept = append(s.kept, keptItem{kind: keptFilter, r: r, ptrs: out, ptrsCopy: append([]*Event(nil), out...), lit: lit, step: len(s.steps) - 1})
	want := make([]int, len(idx))
	for k, i := range idx {
		want[k] = s.evs[i]
	}
	s.script = append(s.script, map[string]interface{}{"call": "log.FilterEvents(pcr, alg)", "pcr": int(p), "alg": int(a),
		"outcome": outcomeStr(r), "returned_events": s.addrsOf(out), "events_of_that_pcr_and_alg_in_the_log_as_it_is": want})
	if len(idx) > 0 && len(s.editsSinceCall) > 0 {
		s.nontrivial = true
	}
	const site = "pkg/tpmeventlog/replay.go FilterEvents"
	pre := fmt.Sprintf("step %d of a session on one log object (%s): ", len(s.script), s.history())
	switch {
	case r.panicked:
		s.fail(pre+"FilterEvents panicked: "+r.pmsg, site)
	case r.err == nil:
		ok := len(out) == len(idx) && size > 0
		for k := 0; ok && k < len(idx); k++ {
			ok = out[k] == s.objs[want[k]]
		}
		wrongLen := -1
		for _, i := range idx {
			if len(l[i].Digest.Digest) != size {
				wrongLen = i
			}
		}
		switch {
		case ok && wrongLen >= 0:
			s.fail(fmt.Sprintf("%sFilterEvents returned the events #%v although log.Events[%d] carries a %d-byte digest for alg 0x%x (digest size %d): it must reject that log", pre, s.addrsOf(out), wrongLen, len(l[wrongLen].Digest.Digest), uint16(a), size), site)
		case !ok:
			s.fail(fmt.Sprintf("%sFilterEvents returned the events #%v; the events of PCR%d/alg 0x%x in the log as it is are #%v", pre, s.addrsOf(out), p, uint16(a), want), site)
		default:
			s.judged++
		}
	default:
		bad := size <= 0
		for _, i := range idx {
			if len(l[i].Digest.Digest) != size {
				bad = true
			}
		}
		if !bad {
			s.fail(pre+"FilterEvents rejected a log whose events of that PCR and algorithm all have right-length digests: "+r.err.Error(), site)
		} else {
			s.judged++
		}
	}
	s.checkMemory("FilterEvents")
	s.checkKept("a later FilterEvents")
	sig := outcomeStr(r) + fmt.Sprint(s.addrsOf(out))
	s.afterCall("FilterEvents", false, sig)
}

func (s *session) doFromParsed() {
	l := s.oracleLog()
	var out tpm.EventLog
	var r res
	r.panicked, r.pmsg = gal.Recover(func() { out = tpm.EventLogFromParsed(s.obj) })
	lit := "OParsed " + robs(r, enLogLit(out))
	s.steps = append(s.steps, "(SFromParsed, "+lit+")")
	s.kept = append(s.kept, keptItem{kind: keptParsed, r: r, lit: lit, step: len(s.steps) - 1})
	s.script = append(s.script, map[string]interface{}{"call": "tpm.EventLogFromParsed(log)", "outcome": outcomeStr(r), "entries": len(out)})
	anyNil := false
	for _, e := range l {
		if e.Digest == nil {
			anyNil = true
		}
	}
	const site = "pkg/bootflow/subsystems/trustchains/tpm/event_log.go EventLogFromParsed"
	switch {
	case r.panicked && !anyNil:
		s.fail("EventLogFromParsed panicked on a log without nil digests: "+r.pmsg, site)
	case !r.panicked:
		ok := len(out) == len(l)
		for i := 0; ok && i < len(l); i++ {
			e := l[i]
			ok = e.Digest != nil && out[i].PCRIndex == e.PCRIndex && out[i].HashAlgo == e.Digest.HashAlgo &&
				bytes.Equal(out[i].Digest, e.Digest.Digest) && out[i].Type == e.Type && bytes.Equal(out[i].Data, e.Data)
		}
		if !ok {
			s.fail(fmt.Sprintf("step %d of a session on one log object (%s): EventLogFromParsed did not return the events of the log as it is", len(s.script), s.history()), site)
		} else {
			s.judged++
		}
	default:
		s.judged++
	}
	s.checkMemory("EventLogFromParsed")
	s.checkKept("a later EventLogFromParsed")
	s.afterCall("EventLogFromParsed", false, "")
}

// ---------------------------------------------------------------- the owner's edits

func (s *session) selPositions() []int { return selIdx(s.oracleLog(), s.p, s.a) }

// a position in log.Events, mostly one of the events of the session's main PCR/bank
func (s *session) pickPos() int {
	n := len(s.obj.Events)
	if n == 0 {
		return -1
	}
	if sel := s.selPositions(); len(sel) > 0 && s.c.Rng.Intn(4) != 0 {
		return sel[s.c.Rng.Intn(len(sel))]
	}
	return s.c.Rng.Intn(n)
}

func (s *session) otherBank(sameSize bool) Alg {
	if sameSize {
		switch uint16(s.a) {
		case 0xB:
			return 0x27
		case 0x27:
			return 0xB
		case 0xC:
			return 0x28
		case 0x28:
			return 0xC
		case 0xD:
			return 0x29
		case 0x29:
			return 0xD
		}
	}
	for {
		b := bankChoices[s.c.Rng.Intn(len(bankChoices))]
		if b != s.a {
			return b
		}
	}
}

func (s *session) freshEvent() *Event {
	c := s.c
	switch c.Rng.Intn(8) {
	case 0:
		return noiseEvent(c, s.p, s.a)
	case 1:
		return startupEvent(c, s.p, s.a, goodStartup(rloc(c)))
	}
	return measEvent(c, s.p, s.a)
}

type ownerEdit struct {
	name   string
	weight int
	do     func(s *session) map[string]interface{} // nil: not applicable now
}

var ownerEdits = []ownerEdit{
	{"swap-two-entries", 14, func(s *session) map[string]interface{} {
		ev := s.obj.Events
		if len(ev) < 2 {
			return nil
		}
		i, j := s.pickPos(), s.pickPos()
		for t := 0; t < 8 && (i == j || ev[i] == ev[j]); t++ {
			j = s.c.Rng.Intn(len(ev))
		}
		if i == j {
			return nil
		}
		ev[i], ev[j] = ev[j], ev[i]
		return map[string]interface{}{"i": i, "j": j}
	}},
	{"replace-entry-by-new-event", 10, func(s *session) map[string]interface{} {
		i := s.pickPos()
		if i < 0 {
			return nil
		}
		e := s.freshEvent()
		s.emitNew(e)
		s.obj.Events[i] = e
		return map[string]interface{}{"i": i, "event": evJSON(e)}
	}},
	{"replace-entry-by-another-event-of-the-session", 4, func(s *session) map[string]interface{} {
		i := s.pickPos()
		if i < 0 {
			return nil
		}
		ad := s.c.Rng.Intn(len(s.objs))
		s.obj.Events[i] = s.objs[ad]
		return map[string]interface{}{"i": i, "event_object": ad}
	}},
	{"set-pcr-index", 9, func(s *session) map[string]interface{} {
		i := s.pickPos()
		if i < 0 {
			return nil
		}
		e := s.obj.Events[i]
		q := s.p
		if e.PCRIndex == s.p {
			q = []pcr.ID{1 - s.p%2, 2, 7}[s.c.Rng.Intn(3)]
			if s.p > 1 {
				q = pcr.ID(s.c.Rng.Intn(2))
			}
		}
		e.PCRIndex = q
		return map[string]interface{}{"i": i, "pcr": int(q)}
	}},
	{"set-digest-algorithm-in-place", 7, func(s *session) map[string]interface{} {
		i := s.pickPos()
		if i < 0 || s.obj.Events[i].Digest == nil {
			return nil
		}
		d := s.obj.Events[i].Digest
		b := s.a
		if d.HashAlgo == s.a {
			b = s.otherBank(s.c.Rng.Intn(2) == 0)
		}
		d.HashAlgo = b
		return map[string]interface{}{"i": i, "alg": int(b)}
	}},
	{"new-digest-object", 9, func(s *session) map[string]interface{} {
		i := s.pickPos()
		if i < 0 {
			return nil
		}
		d := &tpmeventlog.Digest{HashAlgo: s.a, Digest: rbytes(s.c, digestLen(s.a))}
		s.obj.Events[i].Digest = d
		return map[string]interface{}{"i": i, "alg": int(d.HashAlgo), "digest": hex.EncodeToString(d.Digest)}
	}},
	{"digest-byte-in-place", 9, func(s *session) map[string]interface{} {
		i := s.pickPos()
		if i < 0 || s.obj.Events[i].Digest == nil || len(s.obj.Events[i].Digest.Digest) == 0 {
			return nil
		}
		d := s.obj.Events[i].Digest.Digest
		k := s.c.Rng.Intn(len(d))
		d[k] ^= byte(1 + s.c.Rng.Intn(255))
		return map[string]interface{}{"i": i, "byte": k}
	}},
	{"digest-nil", 3, func(s *session) map[string]interface{} {
		i := s.pickPos()
		if i < 0 || s.obj.Events[i].Digest == nil {
			return nil
		}
		s.obj.Events[i].Digest = nil
		return map[string]interface{}{"i": i}
	}},
	{"digest-wrong-length", 3, func(s *session) map[string]interface{} {
		i := s.pickPos()
		if i < 0 || s.obj.Events[i].Digest == nil {
			return nil
		}
		d := s.obj.Events[i].Digest
		if len(d.Digest) > 1 && s.c.Rng.Intn(2) == 0 {
			d.Digest = d.Digest[:len(d.Digest)-1] // same backing array
		} else {
			n := digestLen(s.a)
			d.Digest = rbytes(s.c, []int{0, 1, n - 1, n + 1, 2 * n, 19, 21, 33}[s.c.Rng.Intn(8)])
		}
		return map[string]interface{}{"i": i, "len": len(d.Digest)}
	}},
	{"set-event-type", 4, func(s *session) map[string]interface{} {
		i := s.pickPos()
		if i < 0 {
			return nil
		}
		e := s.obj.Events[i]
		if e.Type == evNoAction {
			e.Type = rMeasType(s.c)
		} else {
			e.Type = evNoAction
			if s.c.Rng.Intn(3) != 0 {
				e.Data = goodStartup(rloc(s.c))
			}
		}
		return map[string]interface{}{"i": i, "type": uint32(e.Type), "data": hex.EncodeToString(e.Data)}
	}},
	{"locality-byte-in-place", 10, func(s *session) map[string]interface{} {
		// first choice: the startup event that leads the main bank
		var cand []int
		if sel := s.selPositions(); len(sel) > 0 {
			cand = append(cand, sel[0])
		}
		if s.shape != "wf+startup/locality" {
			for i := range s.obj.Events {
				cand = append(cand, i)
			}
		}
		for _, i := range cand {
			e := s.obj.Events[i]
			if e.Type == evNoAction && len(e.Data) == 17 {
				if s.c.Rng.Intn(3) == 0 {
					e.Data = goodStartup(e.Data[16] ^ byte(1+s.c.Rng.Intn(255))) // a new slice
				} else {
					e.Data[16] ^= byte(1 + s.c.Rng.Intn(255))
				}
				return map[string]interface{}{"i": i, "locality": e.Data[16]}
			}
		}
		return nil
	}},
	{"leading-startup-event", 6, func(s *session) map[string]interface{} {
		// PCR0: the bank gets a (new) well-formed startup event in front of its first event,
		// or its first event is replaced by one (same number of events)
		if s.p != 0 {
			return nil
		}
		sel := s.selPositions()
		e := startupEvent(s.c, s.p, s.a, goodStartup(rloc(s.c)))
		if len(sel) > 0 && s.c.Rng.Intn(2) == 0 {
			s.emitNew(e)
			s.obj.Events[sel[0]] = e
			return map[string]interface{}{"replaced": sel[0], "event": evJSON(e)}
		}
		pos := 0
		if len(sel) > 0 {
			pos = sel[0]
		}
		s.emitNew(e)
		ptrs := append(append(append([]*Event(nil), s.obj.Events[:pos]...), e), s.obj.Events[pos:]...)
		s.setSlice(ptrs)
		return map[string]interface{}{"inserted_at": pos, "event": evJSON(e)}
	}},
	{"move-foreign-event-into-the-bank", 7, func(s *session) map[string]interface{} {
		l := s.oracleLog()
		var cand []int
		for i, e := range l {
			if !(e.PCRIndex == s.p && e.Digest != nil && e.Digest.HashAlgo == s.a) {
				cand = append(cand, i)
			}
		}
		if len(cand) == 0 {
			return nil
		}
		i := cand[s.c.Rng.Intn(len(cand))]
		e := s.obj.Events[i]
		e.PCRIndex = s.p
		n := digestLen(s.a)
		if s.c.Rng.Intn(5) == 0 {
			n = []int{0, n - 1, n + 1}[s.c.Rng.Intn(3)]
		}
		if e.Digest != nil && len(e.Digest.Digest) == n {
			e.Digest.HashAlgo = s.a // in place
		} else {
			e.Digest = &tpmeventlog.Digest{HashAlgo: s.a, Digest: rbytes(s.c, n)}
		}
		return map[string]interface{}{"i": i}
	}},
	{"repair-the-bank-in-place", 9, func(s *session) map[string]interface{} {
		// every event of the main PCR/bank becomes a right-length measurement again (a leading
		// well-formed startup event of PCR0 may stay); at least one event is changed
		sel := s.selPositions()
		n := digestLen(s.a)
		changed := 0
		for k, i := range sel {
			e := s.obj.Events[i]
			if len(e.Digest.Digest) != n {
				e.Digest.Digest = rbytes(s.c, n)
				changed++
			}
			if e.Type == evNoAction {
				if _, ok := startupLocalityOf(e.Data); ok && k == 0 && s.p == 0 {
					continue
				}
				e.Type = rMeasType(s.c)
				changed++
			}
		}
		if changed == 0 {
			return nil
		}
		return map[string]interface{}{"events_changed": changed}
	}},
	{"new-slice-of-the-same-length", 9, func(s *session) map[string]interface{} {
		old := s.obj.Events
		n := len(old)
		if n == 0 {
			return nil
		}
		ptrs := make([]*Event, n)
		for k, pi := range s.c.Rng.Perm(n) {
			ptrs[k] = old[pi]
		}
		for k := range ptrs {
			if s.c.Rng.Intn(3) == 0 {
				e := s.freshEvent()
				s.emitNew(e)
				ptrs[k] = e
			}
		}
		s.setSlice(ptrs)
		return map[string]interface{}{"len": n}
	}},
	{"append-event", 5, func(s *session) map[string]interface{} {
		e := s.freshEvent()
		s.emitNew(e)
		s.obj.Events = append(s.obj.Events, e) // into the spare capacity when there is some
		return map[string]interface{}{"event": evJSON(e)}
	}},
	{"remove-entry", 5, func(s *session) map[string]interface{} {
		i := s.pickPos()
		if i < 0 {
			return nil
		}
		ev := s.obj.Events
		copy(ev[i:], ev[i+1:])
		ev[len(ev)-1] = sentinel
		s.obj.Events = ev[:len(ev)-1]
		return map[string]interface{}{"i": i}
	}},
	{"remove-entry-and-append-event", 8, func(s *session) map[string]interface{} {
		i := s.pickPos()
		if i < 0 {
			return nil
		}
		ev := s.obj.Events
		e := s.freshEvent()
		s.emitNew(e)
		copy(ev[i:], ev[i+1:])
		ev[len(ev)-1] = e
		return map[string]interface{}{"i": i, "event": evJSON(e)}
	}},
	{"drop-first-entry-by-reslicing", 3, func(s *session) map[string]interface{} {
		if len(s.obj.Events) == 0 {
			return nil
		}
		s.obj.Events = s.obj.Events[1:]
		return map[string]interface{}{}
	}},
	{"clear-and-refill-same-array", 4, func(s *session) map[string]interface{} {
		n := len(s.obj.Events)
		if n == 0 {
			return nil
		}
		ev := s.obj.Events[:0]
		for k := 0; k < n; k++ {
			e := s.freshEvent()
			s.emitNew(e)
			ev = append(ev, e)
		}
		s.obj.Events = ev
		return map[string]interface{}{"len": n}
	}},
	{"restore-the-initial-log", 5, func(s *session) map[string]interface{} {
		for ad, v := range s.initVals {
			e := s.objs[ad]
			e.PCRIndex, e.Type = v.pcr, v.typ
			e.Data = append([]byte(nil), v.data...)
			switch {
			case !v.hasDigest:
				e.Digest = nil
			case e.Digest != nil && len(e.Digest.Digest) == len(v.digest):
				e.Digest.HashAlgo = v.alg
				copy(e.Digest.Digest, v.digest)
			default:
				e.Digest = &tpmeventlog.Digest{HashAlgo: v.alg, Digest: append([]byte(nil), v.digest...)}
			}
		}
		ptrs := make([]*Event, len(s.initEvs))
		for i, ad := range s.initEvs {
			ptrs[i] = s.objs[ad]
		}
		if len(s.obj.Events) == len(ptrs) {
			copy(s.obj.Events, ptrs)
		} else {
			s.setSlice(ptrs)
		}
		return map[string]interface{}{}
	}},
}

var ownerEditsTotal = func() int {
	t := 0
	for _, e := range ownerEdits {
		t += e.weight
	}
	return t
}()

func (s *session) oneEdit() {
	// a log that is refused stays refused under most edits: repair it half of the time
	if !expectReplay(s.oracleLog(), s.p, s.a).mustAccept && s.c.Rng.Intn(2) == 0 {
		for _, e := range ownerEdits {
			if e.name == "repair-the-bank-in-place" {
				if d := e.do(s); d != nil {
					s.sync(e.name, d)
					return
				}
			}
		}
	}
	// sessions about the startup-locality event: its locality byte / its presence changes often
	if s.shape == "wf+startup/locality" && s.c.Rng.Intn(5) < 2 {
		for _, name := range []string{"locality-byte-in-place", "leading-startup-event"} {
			for _, e := range ownerEdits {
				if e.name == name {
					if d := e.do(s); d != nil {
						s.sync(e.name, d)
						return
					}
				}
			}
		}
	}
	for try := 0; try < 20; try++ {
		k := s.c.Rng.Intn(ownerEditsTotal)
		var ed ownerEdit
		for _, e := range ownerEdits {
			if k < e.weight {
				ed = e
				break
			}
			k -= e.weight
		}
		if d := ed.do(s); d != nil {
			s.sync(ed.name, d)
			return
		}
	}
	e := s.freshEvent()
	s.emitNew(e)
	s.obj.Events = append(s.obj.Events, e)
	s.sync("append-event", map[string]interface{}{"event": evJSON(e)})
}

// the caller writes into a result it was given: the log object and later answers are not affected
func (s *session) scribble() {
	var cand []int
	for i, k := range s.kept {
		if !k.scribbled && ((k.kind == keptReplay && len(k.val) > 0) || (k.kind == keptFilter && len(k.ptrs) > 0)) {
			cand = append(cand, i)
		}
	}
	if len(cand) == 0 {
		return
	}
	k := &s.kept[cand[s.c.Rng.Intn(len(cand))]]
	k.scribbled = true
	if k.kind == keptReplay {
		for i := range k.val {
			k.val[i] ^= 0xFF
		}
		s.script = append(s.script, map[string]interface{}{"caller_overwrites_value_returned_in_step": k.step})
		s.c.Count("session-edit/(caller overwrites a returned value)")
	} else {
		for i := range k.ptrs {
			k.ptrs[i] = s.objs[s.c.Rng.Intn(len(s.objs))]
		}
		s.script = append(s.script, map[string]interface{}{"caller_overwrites_events_slice_returned_in_step": k.step})
		s.c.Count("session-edit/(caller overwrites a returned slice)")
	}
	s.editsSinceCall = append(s.editsSinceCall, "(the caller overwrote a result returned earlier)")
	// the log itself is untouched by that
	s.checkMemory("writing into a result returned earlier")
}

// ---------------------------------------------------------------- one session

func session1(c *gal.Ctx, g genLog) {
	s := &session{c: c, obj: &tpmeventlog.TPMEventLog{}, addr: map[*Event]int{}, tblSeen: map[string]bool{}, p: g.p, a: g.a, shape: g.shape}
	ptrs := make([]*Event, len(g.events))
	for i, e := range g.events {
		if _, dup := s.addr[e]; !dup {
			s.newObj(e)
		}
		ptrs[i] = e
		s.evs = append(s.evs, s.addr[e])
	}
	s.setSlice(ptrs)
	s.capView = append([]*Event(nil), s.obj.Events[:cap(s.obj.Events)]...)
	s.heap0, s.evs0 = s.heapLit(), natsLit(s.evs)
	s.initEvs = append([]int(nil), s.evs...)
	s.initVals = append([]evVal(nil), s.shadow...)
	s.initLog = logJSON(s.oracleLog())

	mainCall := func() {
		k := c.Rng.Intn(8)
		if k >= 2 && k < 5 && hashSize(s.a) > 0 {
			// a wrong-length digest in the bank: Replay may fold it or refuse it, FilterEvents must refuse it
			l := s.oracleLog()
			for _, i := range selIdx(l, s.p, s.a) {
				if len(l[i].Digest.Digest) != hashSize(s.a) {
					k = 0
				}
			}
		}
		switch k {
		case 0, 1:
			s.doFilter(s.p, s.a)
		default:
			s.doReplay(s.p, s.a)
		}
	}
	anyCall := func() {
		switch c.Rng.Intn(12) {
		case 0:
			s.doReplay(pcrChoices[c.Rng.Intn(len(pcrChoices))], s.a)
		case 1:
			s.doReplay(pcr.ID(c.Rng.Intn(2)), []Alg{0x4, 0xB, s.a}[c.Rng.Intn(3)])
		case 2:
			s.doFilter(pcr.ID(c.Rng.Intn(2)), []Alg{0x4, 0xB, s.a}[c.Rng.Intn(3)])
		case 3:
			s.doFromParsed()
		default:
			mainCall()
		}
	}

	// first the question that is asked again later, then rounds of (edits, calls)
	mainCall()
	if c.Rng.Intn(4) == 0 {
		anyCall()
	}
	rounds := 2 + c.Rng.Intn(4)
	for k := 0; k < rounds && !s.failed; k++ {
		ne := 1
		if c.Rng.Intn(3) == 0 {
			ne = 2 + c.Rng.Intn(2)
		}
		for i := 0; i < ne && !s.failed; i++ {
			s.oneEdit()
		}
		if c.Rng.Intn(6) == 0 && !s.failed {
			s.scribble()
		}
		if s.failed {
			break
		}
		if c.Rng.Intn(5) == 0 {
			anyCall()
		} else {
			mainCall()
		}
		if !s.failed && c.Rng.Intn(4) == 0 {
			anyCall() // also the same question twice in a row
		}
	}

	// the results kept by the harness, read again at the end
	keptLits := make([]string, len(s.kept))
	for i, k := range s.kept {
		switch {
		case k.kind == keptNone:
			keptLits[i] = "ONone"
		case k.kind == keptReplay && !k.scribbled:
			keptLits[i] = "OReplay " + robs(k.r, gal.Bytes(k.val))
		case k.kind == keptFilter && !k.scribbled:
			keptLits[i] = "OFilter " + robs(k.r, s.addrsLit(k.ptrs))
		default:
			keptLits[i] = k.lit
		}
	}
	// the memory as it is at the end, read from the real objects
	heapF := make([]string, len(s.objs))
	for i, e := range s.objs {
		heapF[i] = evLit(e)
	}
	lit := "CSession " + tblLit(s.tbl) + " " + s.heap0 + " " + s.evs0 + " " + gal.List(s.steps) + " " + gal.List(keptLits) + " " +
		gal.List(heapF) + " " + s.addrsLit(s.obj.Events)
	in := map[string]interface{}{"one_log_object": true, "initial_log": s.initLog, "main_pcr": int(s.p), "main_alg": int(s.a), "steps": s.script}
	ci := c.Add("session/"+s.shape, lit, map[string]interface{}{"call": "session on one *TPMEventLog", "input": in}, s.nontrivial)
	c.Count(fmt.Sprintf("session-calls-after-an-edit/%d", min(s.callsAfterEdit, 6)))
	for i := 0; i < s.judged; i++ {
		c.OracleOK()
	}
	if s.failed {
		c.OracleFail(ci, s.failWhat, s.failSite, in)
	}
}
