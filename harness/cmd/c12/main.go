// C12 correspondence harness: pkg/tpmeventlog (Replay, FilterEvents, ParseLocality,
// ParseEventData) and tpm.EventLog (Replay, RestoreCommands, EventLogFromParsed)
// against Model/EventLog.v, plus an independent oracle written from the property
// text (plain TCG extend fold with Go crypto).
package main

import (
	"bytes"
	"crypto"
	_ "crypto/sha1"
	_ "crypto/sha256"
	_ "crypto/sha512"
	"encoding/binary"
	"encoding/hex"
	"errors"
	"fmt"
	"io"
	"math/big"
	"regexp"
	"strings"

	_ "golang.org/x/crypto/sha3"

	"github.com/9elements/converged-security-suite/v2/pkg/bootflow/subsystems/trustchains/tpm"
	"github.com/9elements/converged-security-suite/v2/pkg/bootflow/subsystems/trustchains/tpm/pcr"
	"github.com/9elements/converged-security-suite/v2/pkg/tpmeventlog"
	"verifharness/gal"
)

const header = "From CSS Require Import Lib.Base Lib.Cases Model.EventLog Model.EventLogSess Model.EventLogCases."

type Event = tpmeventlog.Event
type Alg = tpmeventlog.TPMAlgorithm

const evNoAction = 3

// ---------------------------------------------------------------- hashes (independent of go-tpm)

func goHashOf(a Alg) (crypto.Hash, bool) {
	switch uint16(a) {
	case 0x4:
		return crypto.SHA1, true
	case 0xB:
		return crypto.SHA256, true
	case 0xC:
		return crypto.SHA384, true
	case 0xD:
		return crypto.SHA512, true
	case 0x27:
		return crypto.SHA3_256, true
	case 0x28:
		return crypto.SHA3_384, true
	case 0x29:
		return crypto.SHA3_512, true
	}
	return 0, false
}

func hashSize(a Alg) int {
	h, ok := goHashOf(a)
	if !ok {
		return -1
	}
	return h.Size()
}

func hashOnce(a Alg, msg []byte) []byte {
	h, _ := goHashOf(a)
	w := h.New()
	w.Write(msg)
	return w.Sum(nil)
}

// hash table of a case: (alg, message) -> digest
type tblEntry struct {
	a   Alg
	msg []byte
	dg  []byte
}

func tblLit(t []tblEntry) string {
	s := make([]string, len(t))
	for i, e := range t {
		s[i] = "(" + gal.Z(int64(e.a)) + ", " + gal.Bytes(e.msg) + ", " + gal.Bytes(e.dg) + ")"
	}
	return gal.List(s)
}

// foldTCG is the property's rule: PCR := H(PCR || digest) over ds, starting from seed.
// It also returns the (message, digest) steps for the hash table of the case.
func foldTCG(a Alg, seed []byte, ds [][]byte) ([]byte, []tblEntry) {
	cur := append([]byte(nil), seed...)
	var tbl []tblEntry
	for _, d := range ds {
		msg := append(append([]byte(nil), cur...), d...)
		cur = hashOnce(a, msg)
		tbl = append(tbl, tblEntry{a, msg, cur})
	}
	return cur, tbl
}

// oracle's own reading of "well-formed startup-locality event": exactly
// "StartupLocality", one NUL, one locality byte.
func startupLocalityOf(data []byte) (byte, bool) {
	if len(data) == 17 && string(data[:16]) == "StartupLocality\x00" {
		return data[16], true
	}
	return 0, false
}

// ---------------------------------------------------------------- literals

func dgLit(d *tpmeventlog.Digest) string {
	if d == nil {
		return "None"
	}
	return "(Some (mkDg " + gal.Z(int64(d.HashAlgo)) + " " + gal.Bytes(d.Digest) + "))"
}

func evLit(e *Event) string {
	return "(mkEv " + gal.Z(int64(e.PCRIndex)) + " " + gal.Z(int64(e.Type)) + " " + gal.Bytes(e.Data) + " " + dgLit(e.Digest) + ")"
}

func logLit(l []*Event) string {
	s := make([]string, len(l))
	for i, e := range l {
		s[i] = evLit(e)
	}
	return gal.List(s)
}

func enLit(e tpm.EventLogEntry) string {
	return "(mkEn " + gal.Z(int64(e.PCRIndex)) + " " + gal.Z(int64(e.HashAlgo)) + " " + gal.Bytes(e.Digest) + " " +
		gal.Z(int64(e.Type)) + " " + gal.Bytes(e.Data) + ")"
}

func enLogLit(l tpm.EventLog) string {
	s := make([]string, len(l))
	for i, e := range l {
		s[i] = enLit(e)
	}
	return gal.List(s)
}

type evJ struct {
	PCR    int     `json:"pcr"`
	Type   uint32  `json:"type"`
	Data   string  `json:"data"`
	Alg    *int    `json:"alg"`
	Digest *string `json:"digest"`
}

func evJSON(e *Event) evJ {
	j := evJ{PCR: int(e.PCRIndex), Type: uint32(e.Type), Data: hex.EncodeToString(e.Data)}
	if e.Digest != nil {
		a := int(e.Digest.HashAlgo)
		d := hex.EncodeToString(e.Digest.Digest)
		j.Alg, j.Digest = &a, &d
	}
	return j
}

func logJSON(l []*Event) []evJ {
	r := make([]evJ, len(l))
	for i, e := range l {
		r[i] = evJSON(e)
	}
	return r
}

func enLogJSON(l tpm.EventLog) []evJ {
	r := make([]evJ, len(l))
	for i, e := range l {
		a := int(e.HashAlgo)
		d := hex.EncodeToString(e.Digest)
		r[i] = evJ{PCR: int(e.PCRIndex), Type: uint32(e.Type), Data: hex.EncodeToString(e.Data), Alg: &a, Digest: &d}
	}
	return r
}

// ---------------------------------------------------------------- observation

type res struct {
	panicked bool
	pmsg     string
	err      error
}

func errCode(err error) int64 {
	var e1 tpmeventlog.ErrNotSupportedHashAlgo
	var e2 tpmeventlog.ErrInvalidDigestLength
	var e3 tpmeventlog.ErrNotSupportedIndex
	var e4 tpmeventlog.ErrUnexpectedEventType
	var e5 tpmeventlog.ErrLocality
	switch {
	case errors.As(err, &e1):
		return 1
	case errors.As(err, &e2):
		return 2
	case errors.As(err, &e3):
		return 3
	case errors.As(err, &e4):
		return 4
	case errors.As(err, &e5):
		return 5
	case strings.HasPrefix(err.Error(), "PCR"):
		return 6
	case strings.HasPrefix(err.Error(), "event type"):
		return 7
	}
	return 99
}

func robs(r res, okLit string) string {
	switch {
	case r.panicked:
		return "RPanic"
	case r.err != nil:
		return "(RErr " + gal.Z(errCode(r.err)) + ")"
	}
	return "(ROk " + okLit + ")"
}

func outcomeStr(r res) string {
	switch {
	case r.panicked:
		return "panic: " + r.pmsg
	case r.err != nil:
		return "error: " + r.err.Error()
	}
	return "ok"
}

// ---------------------------------------------------------------- generators: bytes

func rbytes(c *gal.Ctx, n int) []byte {
	b := make([]byte, n)
	for i := range b {
		b[i] = byte(c.Rng.Intn(256))
	}
	return b
}

var localityBytes = []byte{0, 1, 2, 3, 4, 0x80, 0xff}

func rloc(c *gal.Ctx) byte {
	if c.Rng.Intn(4) == 0 {
		return byte(c.Rng.Intn(256))
	}
	return localityBytes[c.Rng.Intn(len(localityBytes))]
}

func goodStartup(loc byte) []byte { return append([]byte("StartupLocality\x00"), loc) }

// fixedLocalityData: the systematic family of locality event data (every length 0..20 in
// several shapes, the D2 witness, trailing 0/1/2/3 bytes, wrong words).
func fixedLocalityData() [][]byte {
	var out [][]byte
	full := []byte("StartupLocality\x00\x03\x00\x07\x00")
	for n := 0; n <= 20; n++ {
		out = append(out, append([]byte(nil), full[:n]...))                                             // prefix of a good one (+ trailing garbage)
		out = append(out, bytes.Repeat([]byte{0}, n))                                                   // zeros
		out = append(out, bytes.Repeat([]byte{'S'}, n))                                                 // no NUL at all
		out = append(out, append(bytes.Repeat([]byte{'x'}, n), 0, 3))                                   // wrong word of every length
		out = append(out, append(append([]byte(nil), []byte("StartupLocality")[:min(n, 15)]...), 0, 4)) // truncated word
	}
	for _, s := range []string{
		"StartupLocality", "StartupLocality\x00", "StartupLocality\x00\x00", "StartupLocality\x00\x03",
		"StartupLocality\x00\xff", "StartupLocality\x00\x03\x04", "StartupLocality\x00\x03\x00", "StartupLocality\x00\x00\x00",
		"StartupLocality\x00\x03\x04\x05", "StartupLocalitx\x00\x03", "startuplocality\x00\x03", "StartupLocalit\x00\x03",
		"StartupLocalityy\x00\x03", "\x00StartupLocality\x00\x03", "Startup\x00Locality\x00\x03", "StartupLocality \x00\x03",
		" StartupLocality\x00\x03", "StartupLocality\x01\x03", "StartupLocality\x03", "StartupLocalityStartupLocality\x00\x03",
		"\x00", "\x00\x03", "\x03",
	} {
		out = append(out, []byte(s))
	}
	return out
}

func min(a, b int) int {
	if a < b {
		return a
	}
	return b
}

var fixedLoc = fixedLocalityData()

// randLocalityData: mostly near-misses of a startup-locality datum.
func randLocalityData(c *gal.Ctx) []byte {
	switch c.Rng.Intn(10) {
	case 0, 1, 2:
		return goodStartup(rloc(c))
	case 3, 4, 5:
		return append([]byte(nil), fixedLoc[c.Rng.Intn(len(fixedLoc))]...)
	case 6:
		return rbytes(c, c.Rng.Intn(21))
	case 7: // good one with one byte changed / removed / inserted
		d := goodStartup(rloc(c))
		i := c.Rng.Intn(len(d))
		switch c.Rng.Intn(3) {
		case 0:
			d[i] ^= byte(1 << uint(c.Rng.Intn(8)))
		case 1:
			d = append(d[:i:i], d[i+1:]...)
		default:
			d = append(d[:i:i], append([]byte{byte(c.Rng.Intn(3))}, d[i:]...)...)
		}
		return d
	case 8:
		return append([]byte("StartupLocality\x00"), rbytes(c, c.Rng.Intn(4))...)
	default:
		return append([]byte("StartupLocality"), rbytes(c, c.Rng.Intn(3))...)
	}
}

// ---------------------------------------------------------------- generators: logs

var pcrChoices = []pcr.ID{0, 1, 2, 7, 255}
var bankChoices = []Alg{0x4, 0xB, 0xC, 0xD, 0x27, 0x0, 0x5, 0x12, 0xFFFF}
var measTypes = []tpmeventlog.EventType{
	tpmeventlog.EV_POST_CODE, tpmeventlog.EV_S_CRTM_CONTENTS, tpmeventlog.EV_EFI_PLATFORM_FIRMWARE_BLOB2,
	tpmeventlog.EV_S_CRTM_VERSION, tpmeventlog.EV_SEPARATOR, tpmeventlog.EV_PREBOOT_CERT, tpmeventlog.EV_UNUSED,
	tpmeventlog.EV_EFI_EVENT_BASE,
}

func rMeasType(c *gal.Ctx) tpmeventlog.EventType {
	if c.Rng.Intn(8) == 0 {
		t := tpmeventlog.EventType(c.Rng.Uint32())
		if t == evNoAction {
			t = 4
		}
		return t
	}
	return measTypes[c.Rng.Intn(len(measTypes))]
}

func rMainBank(c *gal.Ctx) Alg {
	switch c.Rng.Intn(10) {
	case 0, 1, 2, 3:
		return 0x4
	case 4, 5, 6, 7:
		return 0xB
	case 8:
		return 0xC
	default:
		return []Alg{0xD, 0x27, 0x28, 0x29}[c.Rng.Intn(4)]
	}
}

func digestLen(a Alg) int {
	if n := hashSize(a); n > 0 {
		return n
	}
	return 20
}

func rEventData(c *gal.Ctx) []byte {
	switch c.Rng.Intn(4) {
	case 0:
		return nil
	case 1:
		return []byte{}
	case 2:
		return rbytes(c, 1+c.Rng.Intn(6))
	default:
		return randLocalityData(c)
	}
}

func measEvent(c *gal.Ctx, p pcr.ID, a Alg) *Event {
	return &Event{PCRIndex: p, Type: rMeasType(c), Data: rEventData(c), Digest: &tpmeventlog.Digest{HashAlgo: a, Digest: rbytes(c, digestLen(a))}}
}

func startupEvent(c *gal.Ctx, p pcr.ID, a Alg, data []byte) *Event {
	// the digest of a startup event is usually zeros, sometimes random: it must never matter
	d := make([]byte, digestLen(a))
	if c.Rng.Intn(3) == 0 {
		d = rbytes(c, digestLen(a))
	}
	return &Event{PCRIndex: p, Type: evNoAction, Data: data, Digest: &tpmeventlog.Digest{HashAlgo: a, Digest: d}}
}

// noise: an event that the (p, a) replay must ignore
func noiseEvent(c *gal.Ctx, p pcr.ID, a Alg) *Event {
	for {
		var e *Event
		switch c.Rng.Intn(6) {
		case 0: // same PCR, nil digest pointer (any type, also EV_NO_ACTION)
			e = &Event{PCRIndex: p, Type: rMeasType(c), Data: rEventData(c)}
			if c.Rng.Intn(2) == 0 {
				e.Type = evNoAction
			}
		case 1: // same PCR, other bank, right or wrong length for that bank
			b := bankChoices[c.Rng.Intn(len(bankChoices))]
			e = measEvent(c, p, b)
			if c.Rng.Intn(3) == 0 {
				e.Digest.Digest = rbytes(c, c.Rng.Intn(70))
			}
			if c.Rng.Intn(4) == 0 {
				e.Type = evNoAction
				e.Data = randLocalityData(c)
			}
		case 2, 3: // other PCR, same bank (also with a wrong digest length, also startup events)
			q := pcrChoices[c.Rng.Intn(len(pcrChoices))]
			e = measEvent(c, q, a)
			if c.Rng.Intn(4) == 0 {
				e.Digest.Digest = rbytes(c, c.Rng.Intn(70))
			}
			if c.Rng.Intn(4) == 0 {
				e.Type = evNoAction
				e.Data = randLocalityData(c)
			}
		default: // other PCR, other bank
			e = measEvent(c, pcr.ID(c.Rng.Intn(256)), bankChoices[c.Rng.Intn(len(bankChoices))])
		}
		if e.PCRIndex == p && e.Digest != nil && e.Digest.HashAlgo == a {
			continue
		}
		return e
	}
}

type genLog struct {
	events []*Event
	p      pcr.ID
	a      Alg
	shape  string
}

// wellFormed builds a log that the property says must be replayed for (p, a):
// measurement events with right-length digests, optionally led by one startup event (PCR0),
// interleaved with noise of other banks / PCRs / nil digests.
func wellFormed(c *gal.Ctx) genLog {
	p := pcr.ID(c.Rng.Intn(2))
	a := rMainBank(c)
	var sel []*Event
	shape := "wf"
	if p == 0 && c.Rng.Intn(3) != 0 {
		sel = append(sel, startupEvent(c, p, a, goodStartup(rloc(c))))
		shape = "wf+startup"
	}
	n := c.Rng.Intn(7)
	if c.Rng.Intn(8) == 0 {
		n = 0
	}
	for i := 0; i < n; i++ {
		sel = append(sel, measEvent(c, p, a))
	}
	return genLog{interleave(c, sel, p, a), p, a, shape}
}

func interleave(c *gal.Ctx, sel []*Event, p pcr.ID, a Alg) []*Event {
	var out []*Event
	noise := c.Rng.Intn(3) // 0: none, 1: little, 2: a lot
	for i := 0; i <= len(sel); i++ {
		k := 0
		switch noise {
		case 1:
			k = c.Rng.Intn(2)
		case 2:
			k = c.Rng.Intn(4)
		}
		for j := 0; j < k; j++ {
			out = append(out, noiseEvent(c, p, a))
		}
		if i < len(sel) {
			out = append(out, sel[i])
		}
	}
	return out
}

func selIdx(l []*Event, p pcr.ID, a Alg) []int {
	var r []int
	for i, e := range l {
		if e.PCRIndex == p && e.Digest != nil && e.Digest.HashAlgo == a {
			r = append(r, i)
		}
	}
	return r
}

// broken takes a well-formed log and damages it in one of the ways the property names.
func broken(c *gal.Ctx) genLog {
	g := wellFormed(c)
	l := g.events
	idx := selIdx(l, g.p, g.a)
	pick := func() int {
		if len(idx) == 0 {
			return -1
		}
		return idx[c.Rng.Intn(len(idx))]
	}
	insertAt := func(pos int, e *Event) {
		l = append(l[:pos:pos], append([]*Event{e}, l[pos:]...)...)
	}
	switch k := c.Rng.Intn(12); k {
	case 0: // wrong digest length on one selected event (also the last one, also a startup one)
		if i := pick(); i >= 0 {
			n := digestLen(g.a)
			l[i].Digest.Digest = rbytes(c, []int{0, 1, n - 1, n + 1, 2 * n, 19, 20, 21, 32, 48}[c.Rng.Intn(10)])
		}
		g.shape = "wrong-digest-len"
	case 1: // late startup event (after at least one measurement)
		if len(idx) > 0 {
			pos := idx[c.Rng.Intn(len(idx))] + 1
			insertAt(pos, startupEvent(c, g.p, g.a, goodStartup(rloc(c))))
		}
		g.shape = "late-startup"
	case 2: // duplicate startup event
		insertAt(0, startupEvent(c, g.p, g.a, goodStartup(rloc(c))))
		insertAt(c.Rng.Intn(2), startupEvent(c, g.p, g.a, goodStartup(rloc(c))))
		g.shape = "dup-startup"
	case 3, 4: // malformed leading startup data (every length, D2 witness, ...)
		insertAt(0, startupEvent(c, g.p, g.a, randLocalityData(c)))
		g.shape = "leading-noaction-anydata"
	case 5: // unsupported PCR index
		q := []pcr.ID{2, 7, 255, pcr.ID(2 + c.Rng.Intn(254))}[c.Rng.Intn(4)]
		for _, i := range idx {
			l[i].PCRIndex = q
		}
		g.p = q
		g.shape = "pcr>=2"
	case 6: // unsupported / bogus algorithm, events carry that algorithm
		b := []Alg{0, 5, 0x12, 0x10, 0xFFFF, Alg(c.Rng.Intn(0x10000))}[c.Rng.Intn(6)]
		for _, i := range idx {
			l[i].Digest.HashAlgo = b
		}
		g.a = b
		g.shape = "bogus-alg"
	case 7: // late startup AND a wrong digest length after it: which error wins
		if len(idx) > 0 {
			pos := idx[c.Rng.Intn(len(idx))] + 1
			insertAt(pos, startupEvent(c, g.p, g.a, goodStartup(rloc(c))))
			e := measEvent(c, g.p, g.a)
			e.Digest.Digest = rbytes(c, c.Rng.Intn(40))
			l = append(l, e)
		}
		g.shape = "late-startup+wrong-len"
	case 8: // PCR1 led by a startup event
		for _, i := range idx {
			l[i].PCRIndex = 1
		}
		g.p = 1
		insertAt(0, startupEvent(c, 1, g.a, goodStartup(rloc(c))))
		g.shape = "pcr1-startup"
	case 9: // nil digest on a selected event (it silently leaves the bank)
		if i := pick(); i >= 0 {
			l[i].Digest = nil
		}
		g.shape = "nil-digest"
	case 10: // malformed startup + wrong length later: the length error is reported first
		insertAt(0, startupEvent(c, g.p, g.a, randLocalityData(c)))
		e := measEvent(c, g.p, g.a)
		e.Digest.Digest = rbytes(c, c.Rng.Intn(40))
		l = append(l, e)
		g.shape = "bad-startup+wrong-len"
	default: // a startup event with a wrong digest length
		e := startupEvent(c, g.p, g.a, goodStartup(rloc(c)))
		e.Digest.Digest = rbytes(c, c.Rng.Intn(40))
		insertAt(0, e)
		g.shape = "startup-wrong-len"
	}
	g.events = l
	return g
}

func randomLog(c *gal.Ctx) genLog {
	n := c.Rng.Intn(9)
	var l []*Event
	for i := 0; i < n; i++ {
		e := &Event{PCRIndex: pcrChoices[c.Rng.Intn(len(pcrChoices))], Data: rEventData(c)}
		if c.Rng.Intn(3) == 0 {
			e.Type = evNoAction
			e.Data = randLocalityData(c)
		} else {
			e.Type = rMeasType(c)
		}
		if c.Rng.Intn(8) != 0 {
			a := bankChoices[c.Rng.Intn(len(bankChoices))]
			n := digestLen(a)
			if c.Rng.Intn(6) == 0 {
				n = c.Rng.Intn(70)
			}
			e.Digest = &tpmeventlog.Digest{HashAlgo: a, Digest: rbytes(c, n)}
		}
		l = append(l, e)
	}
	return genLog{l, pcrChoices[c.Rng.Intn(len(pcrChoices))], bankChoices[c.Rng.Intn(len(bankChoices))], "random"}
}

// ---------------------------------------------------------------- Replay / FilterEvents

// replayExpectation: what the property text says about Replay(l, p, a), computed from the
// log alone (no call of the code under test): the events of that PCR and bank, the seed, the
// TCG fold over the measurement events, and whether the log is one that must be replayed.
type replayExpectation struct {
	size       int
	idx        []int
	seed, want []byte
	tbl        []tblEntry
	mustAccept bool
}

func expectReplay(l []*Event, p pcr.ID, a Alg) replayExpectation {
	size := hashSize(a)
	idx := selIdx(l, p, a)
	var seed []byte
	var ds [][]byte
	lengthsOK := true
	startupLeading, startupElsewhere := false, false
	wellFormedStartup := false
	if size > 0 {
		seed = make([]byte, size)
		for k, i := range idx {
			e := l[i]
			if len(e.Digest.Digest) != size {
				lengthsOK = false
			}
			if e.Type == evNoAction {
				if k == 0 {
					startupLeading = true
					if b, ok := startupLocalityOf(e.Data); ok && p == 0 {
						wellFormedStartup = true
						seed[size-1] = b
					}
				} else {
					startupElsewhere = true
				}
				continue
			}
			ds = append(ds, e.Digest.Digest)
		}
	}
	var want []byte
	var tbl []tblEntry
	if size > 0 {
		want, tbl = foldTCG(a, seed, ds)
	}
	mustAccept := size > 0 && (p == 0 || p == 1) && lengthsOK && !startupElsewhere && (!startupLeading || wellFormedStartup)
	return replayExpectation{size, idx, seed, want, tbl, mustAccept}
}

type replayIn struct {
	Log []evJ `json:"log"`
	PCR int   `json:"pcr"`
	Alg int   `json:"alg"`
}

func callReplay(l []*Event, p pcr.ID, a Alg, w io.Writer) ([]byte, res) {
	var v []byte
	var r res
	r.panicked, r.pmsg = gal.Recover(func() {
		v, r.err = tpmeventlog.Replay(&tpmeventlog.TPMEventLog{Events: l}, p, a, w)
	})
	return v, r
}

func replay1(c *gal.Ctx, g genLog, p pcr.ID, a Alg) {
	l := g.events
	var w io.Writer
	if c.Rng.Intn(2) == 0 {
		w = &bytes.Buffer{}
	}
	v, r := callReplay(l, p, a, w)

	// ---- what the property says, computed independently
	ex := expectReplay(l, p, a)
	idx, tbl := ex.idx, ex.tbl

	in := replayIn{logJSON(l), int(p), int(a)}
	ci := c.Add("replay/"+g.shape, "CReplay "+tblLit(tbl)+" "+logLit(l)+" "+gal.Z(int64(p))+" "+gal.Z(int64(a))+" "+robs(r, gal.Bytes(v)),
		map[string]interface{}{"call": "tpmeventlog.Replay", "input": in, "outcome": outcomeStr(r), "value": hex.EncodeToString(v)}, len(idx) > 0)
	c.Count("replay-outcome/" + strings.SplitN(outcomeStr(r), ":", 2)[0])

	const site = "pkg/tpmeventlog/replay.go Replay"
	if what := judgeReplay(ex, p, a, v, r); what != "" {
		c.OracleFail(ci, what, site, in)
		return
	}
	if r.err == nil {
		// no-action events never contribute a digest: changing their digests (same length) changes nothing
		changed := false
		l2 := make([]*Event, len(l))
		for i, e := range l {
			l2[i] = e
			if e.Type == evNoAction && e.Digest != nil {
				cp := *e
				d := append([]byte(nil), e.Digest.Digest...)
				for j := range d {
					d[j] ^= 0xA5
				}
				cp.Digest = &tpmeventlog.Digest{HashAlgo: e.Digest.HashAlgo, Digest: d}
				l2[i] = &cp
				changed = true
			}
		}
		if changed {
			v2, r2 := callReplay(l2, p, a, nil)
			if r2.panicked || r2.err != nil || !bytes.Equal(v2, v) {
				c.OracleFail(ci, fmt.Sprintf("changing only the digests of EV_NO_ACTION events changed the replay: %x -> %x (%s)", v, v2, outcomeStr(r2)), site, in)
				return
			}
		}
	}
	c.OracleOK()
}

// judgeReplay: the property's verdict on one Replay call ("" = holds): never a panic; a
// returned value is the TCG fold over the measurement events of that PCR and bank; a log of
// right-length measurement events, optionally led by one well-formed startup event, is replayed.
func judgeReplay(ex replayExpectation, p pcr.ID, a Alg, v []byte, r res) string {
	switch {
	case r.panicked:
		return "Replay panicked (" + r.pmsg + "): every log must be replayed or rejected with an error"
	case r.err == nil:
		switch {
		case ex.size <= 0:
			return "Replay returned a value for an algorithm without a hash function"
		case !bytes.Equal(v, ex.want):
			return fmt.Sprintf("Replay returned %x, the TCG fold over the measurement events of PCR%d/alg 0x%x seeded with %x is %x", v, p, uint16(a), ex.seed, ex.want)
		}
	default:
		if ex.mustAccept {
			return "a log of right-length measurement events (optionally led by one well-formed startup-locality event) was rejected: " + r.err.Error()
		}
	}
	return ""
}

type filterIn struct {
	Log []evJ `json:"log"`
	PCR int   `json:"pcr"`
	Alg int   `json:"alg"`
}

func filter1(c *gal.Ctx, g genLog, p pcr.ID, a Alg) {
	l := g.events
	var out []*Event
	var r res
	r.panicked, r.pmsg = gal.Recover(func() {
		out, r.err = (&tpmeventlog.TPMEventLog{Events: l}).FilterEvents(p, a)
	})
	idx := selIdx(l, p, a)
	in := filterIn{logJSON(l), int(p), int(a)}
	ci := c.Add("filter/"+g.shape, "CFilter "+logLit(l)+" "+gal.Z(int64(p))+" "+gal.Z(int64(a))+" "+robs(r, logLit(out)),
		map[string]interface{}{"call": "FilterEvents", "input": in, "outcome": outcomeStr(r), "returned": len(out)}, len(idx) > 0)
	const site = "pkg/tpmeventlog/replay.go FilterEvents"
	size := hashSize(a)
	switch {
	case r.panicked:
		c.OracleFail(ci, "FilterEvents panicked: "+r.pmsg, site, in)
	case r.err == nil:
		// exactly the events of that PCR and bank, same pointers, same order, all of the right length
		ok := len(out) == len(idx) && size > 0
		for k := 0; ok && k < len(idx); k++ {
			ok = out[k] == l[idx[k]] && len(out[k].Digest.Digest) == size
		}
		if !ok {
			c.OracleFail(ci, "FilterEvents did not return exactly the events of that PCR and algorithm with right-length digests, in log order", site, in)
		} else {
			c.OracleOK()
		}
	default:
		bad := size <= 0
		for _, i := range idx {
			if len(l[i].Digest.Digest) != size {
				bad = true
			}
		}
		if !bad {
			c.OracleFail(ci, "FilterEvents rejected a log whose events of that PCR and algorithm all have right-length digests: "+r.err.Error(), site, in)
		} else {
			c.OracleOK()
		}
	}
}

// ---------------------------------------------------------------- ParseLocality

func locality1(c *gal.Ctx, data []byte, kind string) {
	var b uint8
	var r res
	r.panicked, r.pmsg = gal.Recover(func() { b, r.err = tpmeventlog.ParseLocality(data) })
	in := map[string]interface{}{"data": hex.EncodeToString(data), "text": fmt.Sprintf("%q", data)}
	ci := c.Add("locality/"+kind, "CLocality "+gal.Bytes(data)+" "+robs(r, gal.Z(int64(b))),
		map[string]interface{}{"call": "ParseLocality", "input": in, "outcome": outcomeStr(r), "locality": b}, len(data) > 0)
	const site = "pkg/tpmeventlog/replay.go ParseLocality"
	want, ok := startupLocalityOf(data)
	switch {
	case r.panicked:
		c.OracleFail(ci, "ParseLocality panicked: "+r.pmsg, site, in)
	case r.err == nil && (!ok || b != want):
		c.OracleFail(ci, fmt.Sprintf("ParseLocality accepted %q as locality %d; only \"StartupLocality\" NUL <byte> is a startup-locality datum", data, b), site, in)
	case r.err != nil && ok:
		c.OracleFail(ci, "ParseLocality rejected a well-formed startup-locality datum: "+r.err.Error(), site, in)
	default:
		c.OracleOK()
	}
}

// ---------------------------------------------------------------- ParseEventData

const physBase = uint64(0x100000000)

var fvRE = regexp.MustCompile(`^Fv\(([0-9A-Fa-f]{8}-[0-9A-Fa-f]{4}-[0-9A-Fa-f]{4}-[0-9A-Fa-f]{4}-[0-9A-Fa-f]{12})\)$`)

var imageSizes = []uint64{0x1000000, 0x1000000, 0x1000000, 0x800000, 0x2000000, 0x10000, 0x1000000, 0x400000, 0x80000000, 0xC0000000, 0, 1, 0xFFFFFFFF, 0x100000000, 0x100000001, 0x100001000, 0xFFFFFFFFFFFFFFFF, 0x8000000000000000}

func le64(v uint64) []byte {
	b := make([]byte, 8)
	binary.LittleEndian.PutUint64(b, v)
	return b
}

func rImageValue(c *gal.Ctx, isz uint64, wantOffset bool) uint64 {
	lo := physBase - isz // may wrap, as in the code under test; only used to pick interesting values
	switch c.Rng.Intn(12) {
	case 0:
		return lo
	case 1:
		return lo - 1
	case 2:
		return physBase - 1
	case 3:
		return physBase
	case 4:
		return isz
	case 5:
		return isz + 1
	case 6:
		return 0
	case 7:
		return c.Rng.Uint64()
	}
	if wantOffset && isz > 0 && isz <= physBase {
		return lo + uint64(c.Rng.Int63n(int64(isz)))
	}
	if isz == 0 {
		return 0
	}
	if isz == ^uint64(0) {
		return c.Rng.Uint64()
	}
	return c.Rng.Uint64() % (isz + 1)
}

// a value inside [lo, hi] (inclusive), hi >= lo
func rIn(c *gal.Ctx, lo, hi uint64) uint64 {
	span := hi - lo
	if span == ^uint64(0) {
		return c.Rng.Uint64()
	}
	return lo + c.Rng.Uint64()%(span+1)
}

// rPair returns the two 64-bit fields as they are laid out in the event data
// (first field, second field); the code expects (length, offset) but adapts to (offset, length).
func rPair(c *gal.Ctx, isz uint64) (uint64, uint64) {
	validLen := rIn(c, 0, isz)
	validOff := rImageValue(c, isz, true)
	if isz > 0 && isz <= physBase {
		validOff = rIn(c, physBase-isz, physBase-1)
	}
	var length, offset uint64
	switch c.Rng.Intn(12) {
	case 0, 1, 2, 3, 4, 5:
		length, offset = validLen, validOff
	case 6: // small length (valid both as a length and, for big images, never as an offset)
		length, offset = uint64(c.Rng.Intn(0x1000)), validOff
	case 7:
		length, offset = rImageValue(c, isz, false), validOff
	case 8:
		length, offset = validLen, rImageValue(c, isz, true)
	case 9: // both fields inside the window: valid in either order when the image is >= 2 GiB
		length, offset = validOff, validOff
	default:
		length, offset = rImageValue(c, isz, false), rImageValue(c, isz, true)
	}
	if c.Rng.Intn(3) == 0 {
		return offset, length
	}
	return length, offset
}

var guidAlphabet = "0123456789abcdefABCDEF"

func rGuidString(c *gal.Ctx) string {
	b := []byte("01234567-89AB-CDEF-0123-456789ABCDEF")
	for i := range b {
		if b[i] != '-' {
			b[i] = guidAlphabet[c.Rng.Intn(len(guidAlphabet))]
		}
	}
	switch c.Rng.Intn(8) {
	case 0: // a non-hex character
		b[c.Rng.Intn(len(b))] = "gG-_ zx/:@`"[c.Rng.Intn(11)]
	case 1: // hyphen moved
		i, j := c.Rng.Intn(len(b)), c.Rng.Intn(len(b))
		b[i], b[j] = b[j], b[i]
	case 2: // hyphen replaced by a hex digit (decodes to too many / odd number of digits)
		b[[]int{8, 13, 18, 23}[c.Rng.Intn(4)]] = 'a'
	}
	return string(b)
}

func rDescription(c *gal.Ctx) []byte {
	var d []byte
	switch c.Rng.Intn(8) {
	case 0:
		d = []byte("FV_BB_AFTER_MEMORY\x00")
	case 1, 2, 3:
		d = []byte("Fv(" + rGuidString(c) + ")")
		switch c.Rng.Intn(8) {
		case 0:
			d[0] = 'f'
		case 1:
			d[len(d)-1] = '('
		case 2:
			d = append(d, ')')
		case 3:
			d = d[:len(d)-2]
			d = append(d, ')')
		}
	case 4:
		d = rbytes(c, c.Rng.Intn(45))
	case 5:
		d = []byte{}
	default:
		d = []byte("Fv(" + rGuidString(c) + ")")
	}
	n := len(d)
	switch c.Rng.Intn(6) {
	case 0:
		n++
	case 1:
		n--
	case 2:
		n = c.Rng.Intn(256)
	}
	return append([]byte{byte(n)}, d...)
}

type ped struct {
	ev  *Event
	isz uint64
}

func rParseEventDataInput(c *gal.Ctx) ped {
	isz := imageSizes[c.Rng.Intn(len(imageSizes))]
	if c.Rng.Intn(10) == 0 {
		isz = c.Rng.Uint64() >> uint(c.Rng.Intn(64))
	}
	e := &Event{}
	switch c.Rng.Intn(8) {
	case 0:
		e.PCRIndex = pcrChoices[c.Rng.Intn(len(pcrChoices))]
	}
	switch c.Rng.Intn(10) {
	case 0:
		e.Type = evNoAction
	case 1:
		e.Type = tpmeventlog.EV_S_CRTM_CONTENTS
	case 2:
		e.Type = rMeasType(c)
	case 3, 4, 5:
		e.Type = tpmeventlog.EV_POST_CODE
	default:
		e.Type = tpmeventlog.EV_EFI_PLATFORM_FIRMWARE_BLOB2
	}
	if e.Type == evNoAction {
		e.Data = randLocalityData(c)
		return ped{e, isz}
	}
	var data []byte
	switch c.Rng.Intn(6) {
	case 0: // no description
	case 1: // short garbage
		data = rbytes(c, c.Rng.Intn(20))
	default:
		data = rDescription(c)
	}
	npairs := c.Rng.Intn(4)
	for i := 0; i < npairs; i++ {
		length, offset := rPair(c, isz)
		data = append(data, le64(length)...)
		data = append(data, le64(offset)...)
	}
	if c.Rng.Intn(12) == 0 && len(data) > 0 { // cut: misaligned tail
		data = data[:len(data)-1-c.Rng.Intn(min(len(data), 9))]
	}
	e.Data = data
	if c.Rng.Intn(4) == 0 {
		e.Digest = &tpmeventlog.Digest{HashAlgo: 4, Digest: rbytes(c, 20)}
	}
	return ped{e, isz}
}

func parseData1(c *gal.Ctx, in ped, kind string) {
	var out *tpmeventlog.EventDataParsed
	var r res
	r.panicked, r.pmsg = gal.Recover(func() { out, r.err = tpmeventlog.ParseEventData(in.ev, in.isz) })
	lit := ""
	if !r.panicked && r.err == nil {
		rs := make([]string, len(out.Ranges))
		for i, x := range out.Ranges {
			rs[i] = gal.Pair(gal.U(x.Offset), gal.U(x.Length))
		}
		loc := "None"
		if out.TPMInitLocality != nil {
			loc = "(Some " + gal.Z(int64(*out.TPMInitLocality)) + ")"
		}
		descr := "None"
		if out.Description != nil {
			descr = "(Some " + gal.Str(*out.Description) + ")"
		}
		gs := make([]string, len(out.FvGUIDs))
		for i, g := range out.FvGUIDs {
			gs[i] = gal.Bytes(g[:])
		}
		lit = "(mkParsed " + gal.List(rs) + " " + loc + " " + descr + " " + gal.List(gs) + ")"
	}
	inj := map[string]interface{}{"event": evJSON(in.ev), "image_size": fmt.Sprintf("0x%x", in.isz)}
	ci := c.Add("parsedata/"+kind, "CParseData "+evLit(in.ev)+" "+gal.U(in.isz)+" "+robs(r, lit),
		map[string]interface{}{"call": "ParseEventData", "input": inj, "outcome": outcomeStr(r)}, len(in.ev.Data) > 0)
	const site = "pkg/tpmeventlog/parse_event_data.go ParseEventData"
	note := ""
	if kind == "reused-event" {
		note = " [ONE *Event re-used: it was parsed before and edited in place since; the input is the event as it is at this call]"
	}
	if r.panicked {
		c.OracleFail(ci, "ParseEventData panicked: "+r.pmsg+note, site, inj)
		return
	}
	if r.err != nil {
		c.Count("parsedata-outcome/error")
		c.OracleOK()
		return
	}
	c.Count(fmt.Sprintf("parsedata-ranges/%d", len(out.Ranges)))
	// sanity from the documentation of the function: every returned range lies in the
	// image mapped below 4 GiB and is one of the trailing 16-byte pairs, last pair first.
	data := in.ev.Data
	isz := new(big.Int).SetUint64(in.isz)
	base := new(big.Int).SetUint64(physBase)
	lo := new(big.Int).Sub(base, isz)
	if lo.Sign() < 0 {
		lo.Add(lo, new(big.Int).Lsh(big.NewInt(1), 64)) // the code computes in uint64
	}
	validPair := func(length, offset uint64) bool { // documentation: length <= image size, offset inside the mapped image
		off, ln := new(big.Int).SetUint64(offset), new(big.Int).SetUint64(length)
		return off.Cmp(lo) >= 0 && off.Cmp(base) < 0 && ln.Cmp(isz) <= 0
	}
	ok := true
	what := ""
	if in.ev.Type == evNoAction {
		if len(out.Ranges) != 0 || out.Description != nil || len(out.FvGUIDs) != 0 {
			ok, what = false, "a startup-locality event has no ranges and no description"
		}
	} else {
		if len(out.Ranges)*16 > len(data) {
			ok, what = false, "more ranges than 16-byte pairs in the event data"
		}
		for i := 0; ok && i < len(out.Ranges); i++ {
			x := out.Ranges[i]
			pair := data[len(data)-16*(i+1) : len(data)-16*i]
			f0, f1 := binary.LittleEndian.Uint64(pair[:8]), binary.LittleEndian.Uint64(pair[8:])
			switch {
			case validPair(f0, f1): // (length, offset) is the expected order
				if x.Length != f0 || x.Offset != f1 {
					ok, what = false, fmt.Sprintf("range %d: the pair (length 0x%x, offset 0x%x) is valid as it stands but was reported as offset 0x%x, length 0x%x", i, f0, f1, x.Offset, x.Length)
				}
			case validPair(f1, f0):
				if x.Length != f1 || x.Offset != f0 {
					ok, what = false, fmt.Sprintf("range %d: the pair is valid only as (offset 0x%x, length 0x%x) but was reported as offset 0x%x, length 0x%x", i, f0, f1, x.Offset, x.Length)
				}
			default:
				ok, what = false, fmt.Sprintf("range %d (offset 0x%x, length 0x%x) is not a (length, offset) pair inside the image window of the %d-th 16 bytes from the end", i, x.Offset, x.Length, i+1)
			}
		}
		rest := data
		if ok {
			rest = data[:len(data)-16*len(out.Ranges)]
			if len(rest) >= 16 {
				f0, f1 := binary.LittleEndian.Uint64(rest[len(rest)-16:len(rest)-8]), binary.LittleEndian.Uint64(rest[len(rest)-8:])
				if validPair(f0, f1) || validPair(f1, f0) {
					ok, what = false, fmt.Sprintf("stopped after %d range(s) although the next 16 bytes (0x%x, 0x%x) are a valid (length, offset) pair", len(out.Ranges), f0, f1)
				}
			}
		}
		if ok {
			hasDescr := len(rest) > 0 && int(rest[0]) == len(rest)-1
			switch {
			case hasDescr && (out.Description == nil || *out.Description != string(rest[1:])):
				ok, what = false, "the length-prefixed description at the head of the event data was not reported"
			case !hasDescr && out.Description != nil:
				ok, what = false, "description is not the length-prefixed head of the event data"
			}
			// Fv(<guid>) descriptions
			if ok {
				var descr string
				if out.Description != nil {
					descr = *out.Description
				}
				if m := fvRE.FindStringSubmatch(descr); m != nil {
					if len(out.FvGUIDs) != 1 || !strings.EqualFold(out.FvGUIDs[0].String(), m[1]) {
						ok, what = false, "description Fv(<guid>) did not yield exactly that GUID"
					}
				} else if len(out.FvGUIDs) != 0 && !(len(descr) == 40 && strings.HasPrefix(descr, "Fv(") && strings.HasSuffix(descr, ")")) {
					ok, what = false, "a GUID was reported for a description that is not Fv(<36 characters>)"
				}
			}
		}
	}
	if ok && out.TPMInitLocality != nil {
		b, good := startupLocalityOf(data)
		if !good || b != *out.TPMInitLocality || in.ev.Type != evNoAction || in.ev.PCRIndex != 0 {
			ok, what = false, "TPMInitLocality reported for something that is not a PCR0 startup-locality event"
		}
	}
	if !ok {
		c.OracleFail(ci, "ParseEventData: "+what+note, site, inj)
	} else {
		c.OracleOK()
	}
}

// ---------------------------------------------------------------- tpm.EventLog

func rEntries(c *gal.Ctx) (tpm.EventLog, Alg) {
	a := rMainBank(c)
	var l tpm.EventLog
	n := c.Rng.Intn(9)
	if c.Rng.Intn(3) == 0 {
		n = 2 + c.Rng.Intn(3)
	}
	for i := 0; i < n; i++ {
		var e tpm.EventLogEntry
		switch c.Rng.Intn(10) {
		case 0:
			e.PCRIndex = pcrChoices[c.Rng.Intn(len(pcrChoices))]
		}
		e.HashAlgo = a
		if c.Rng.Intn(6) == 0 {
			e.HashAlgo = bankChoices[c.Rng.Intn(len(bankChoices))]
		}
		dl := digestLen(e.HashAlgo)
		if c.Rng.Intn(8) == 0 {
			dl = []int{0, 1, 19, 21, 33, 70}[c.Rng.Intn(6)] // EventLog.Replay does not validate lengths
		}
		e.Digest = rbytes(c, dl)
		if c.Rng.Intn(4) == 0 || (i == 0 && c.Rng.Intn(2) == 0) {
			e.Type = evNoAction
			e.Data = randLocalityData(c)
		} else {
			e.Type = rMeasType(c)
			e.Data = rEventData(c)
		}
		l = append(l, e)
	}
	return l, a
}

type tpmIn struct {
	Log      []evJ `json:"log"`
	PCR      int   `json:"pcr"`
	Alg      int   `json:"alg"`
	Locality int   `json:"locality"`
}

func tpmMeas(l tpm.EventLog, p pcr.ID, a Alg) [][]byte {
	var ds [][]byte
	for _, e := range l {
		if e.PCRIndex == p && e.HashAlgo == a && e.Type != evNoAction {
			ds = append(ds, e.Digest)
		}
	}
	return ds
}

func tpmReplay1(c *gal.Ctx, l tpm.EventLog, p pcr.ID, a Alg, loc uint8, kind string) {
	var v []byte
	var r res
	r.panicked, r.pmsg = gal.Recover(func() { v = l.Replay(p, a, loc) })
	size := hashSize(a)
	var want []byte
	var tbl []tblEntry
	ds := tpmMeas(l, p, a)
	if size > 0 {
		seed := make([]byte, size)
		seed[size-1] = loc
		want, tbl = foldTCG(a, seed, ds)
	}
	in := tpmIn{enLogJSON(l), int(p), int(a), int(loc)}
	ci := c.Add("tpmreplay/"+kind, "CTpmReplay "+tblLit(tbl)+" "+enLogLit(l)+" "+gal.Z(int64(p))+" "+gal.Z(int64(a))+" "+gal.Z(int64(loc))+" "+robs(r, gal.Bytes(v)),
		map[string]interface{}{"call": "tpm.EventLog.Replay", "input": in, "outcome": outcomeStr(r), "value": hex.EncodeToString(v)}, len(ds) > 0)
	c.Count(fmt.Sprintf("tpmreplay-measurements/%d", min(len(ds), 4)))
	const site = "pkg/bootflow/subsystems/trustchains/tpm/event_log.go EventLog.Replay"
	note := ""
	if kind == "reused-slice" {
		note = " [ONE tpm.EventLog slice re-used: it was replayed before and its entries were edited in place since; the input is the slice as it is at this call]"
	}
	switch {
	case p != 0 || size <= 0:
		// documented: panics for PCRs other than 0 and for unsupported algorithms
		if !r.panicked && size <= 0 {
			c.OracleFail(ci, "EventLog.Replay returned a value for an algorithm without a hash function"+note, site, in)
		} else {
			c.OracleOK()
		}
	case r.panicked:
		c.OracleFail(ci, "EventLog.Replay panicked for PCR0 and a supported algorithm: "+r.pmsg+note, site, in)
	case !bytes.Equal(v, want):
		c.OracleFail(ci, fmt.Sprintf("EventLog.Replay returned %x; the TCG fold over the %d non-EV_NO_ACTION entries of PCR0/alg 0x%x seeded with zeros||%d is %x", v, len(ds), uint16(a), loc, want)+note, site, in)
	default:
		c.OracleOK()
	}
}

func cmdLit(cmd tpm.Command) (string, bool) {
	switch x := cmd.(type) {
	case *tpm.CommandInit:
		return "CmdInit " + gal.Z(int64(x.Locality)), true
	case *tpm.CommandExtend:
		return "CmdExtend " + gal.Z(int64(x.PCRIndex)) + " " + gal.Z(int64(x.HashAlgo)) + " " + gal.Bytes(x.Digest), true
	case *tpm.CommandEventLogAdd:
		return "CmdLogAdd " + gal.Z(int64(x.PCRIndex)) + " " + gal.Z(int64(x.HashAlgo)) + " " + gal.Bytes(x.Digest) + " " +
			gal.Z(int64(x.Type)) + " " + gal.Bytes(x.Data), true
	}
	return "", false
}

func restore1(c *gal.Ctx, l tpm.EventLog) {
	var cmds []tpm.Command
	panicked, pmsg := gal.Recover(func() { cmds = l.RestoreCommands() })
	in := map[string]interface{}{"log": enLogJSON(l)}
	const site = "pkg/bootflow/subsystems/trustchains/tpm/event_log.go EventLog.RestoreCommands"
	lits := make([]string, 0, len(cmds))
	unknown := false
	for _, cm := range cmds {
		s, ok := cmdLit(cm)
		if !ok {
			unknown = true
			s = "CmdInit (-1)"
		}
		lits = append(lits, s)
	}
	ci := c.Add("restore", "CRestore "+enLogLit(l)+" "+gal.List(lits),
		map[string]interface{}{"call": "tpm.EventLog.RestoreCommands", "input": in, "commands": len(cmds), "panicked": panicked}, len(l) > 0)
	if panicked || unknown {
		c.OracleFail(ci, "RestoreCommands panicked or returned an unknown command: "+pmsg, site, in)
		return
	}
	// no-action entries never contribute a digest: the extends are exactly the other entries, in order;
	// every init is the locality of a well-formed PCR0 startup entry, in order.
	var wantExt [][]byte
	var wantInit []byte
	for _, e := range l {
		if e.Type == evNoAction {
			if b, ok := startupLocalityOf(e.Data); ok && e.PCRIndex == 0 {
				wantInit = append(wantInit, b)
			}
			continue
		}
		wantExt = append(wantExt, e.Digest)
	}
	var gotExt [][]byte
	var gotInit []byte
	for _, cm := range cmds {
		switch x := cm.(type) {
		case *tpm.CommandExtend:
			gotExt = append(gotExt, x.Digest)
		case *tpm.CommandInit:
			gotInit = append(gotInit, x.Locality)
		}
	}
	ok := len(gotExt) == len(wantExt) && bytes.Equal(gotInit, wantInit)
	for i := 0; ok && i < len(wantExt); i++ {
		ok = bytes.Equal(gotExt[i], wantExt[i])
	}
	if !ok {
		c.OracleFail(ci, "RestoreCommands: the extend commands are not exactly the non-EV_NO_ACTION entries (or the inits not exactly the well-formed PCR0 startup entries)", site, in)
	} else {
		c.OracleOK()
	}
}

func fromParsed1(c *gal.Ctx, g genLog) {
	l := g.events
	var out tpm.EventLog
	var r res
	r.panicked, r.pmsg = gal.Recover(func() { out = tpm.EventLogFromParsed(&tpmeventlog.TPMEventLog{Events: l}) })
	anyNil := false
	for _, e := range l {
		if e.Digest == nil {
			anyNil = true
		}
	}
	in := map[string]interface{}{"log": logJSON(l)}
	ci := c.Add("fromparsed", "CFromParsed "+logLit(l)+" "+robs(r, enLogLit(out)),
		map[string]interface{}{"call": "tpm.EventLogFromParsed", "input": in, "outcome": outcomeStr(r)}, len(l) > 0)
	if r.panicked && !anyNil {
		c.OracleFail(ci, "EventLogFromParsed panicked on a log without nil digests: "+r.pmsg, "pkg/bootflow/subsystems/trustchains/tpm/event_log.go EventLogFromParsed", in)
		return
	}
	c.OracleOK()
	if r.panicked {
		return
	}
	// the two replays agree: whenever tpmeventlog.Replay returns a value for PCR0, the
	// bootflow EventLog.Replay with the locality of the leading startup event (0 without one)
	// returns the same value.
	for _, a := range []Alg{g.a, 0x4, 0xB} {
		if hashSize(a) <= 0 {
			continue
		}
		v, rr := callReplay(l, 0, a, nil)
		if rr.panicked || rr.err != nil {
			continue
		}
		var loc uint8
		if idx := selIdx(l, 0, a); len(idx) > 0 && l[idx[0]].Type == evNoAction {
			loc, _ = startupLocalityOf(l[idx[0]].Data)
		}
		var v2 []byte
		p2, m2 := gal.Recover(func() { v2 = out.Replay(0, a, loc) })
		if p2 || !bytes.Equal(v, v2) {
			c.OracleFail(ci, fmt.Sprintf("tpmeventlog.Replay(PCR0, alg 0x%x) = %x but EventLogFromParsed(log).Replay(0, alg, %d) = %x %s", uint16(a), v, loc, v2, m2),
				"tpmeventlog.Replay vs tpm.EventLog.Replay", map[string]interface{}{"log": logJSON(l), "alg": int(a), "locality": loc})
		} else {
			c.OracleOK()
		}
	}
}

// ---------------------------------------------------------------- main

func main() {
	c := gal.New("C12", header, 360)

	// every hash the model's hash_size table lists must be linked into this binary
	for _, a := range []Alg{0x4, 0xB, 0xC, 0xD, 0x27, 0x28, 0x29} {
		h, ok := goHashOf(a)
		if _, err := a.Hash(); err != nil || !ok || !h.Available() {
			panic(fmt.Sprintf("hash for algorithm 0x%x is not available in the harness binary: %v", uint16(a), err))
		}
	}

	// ---- fixed witnesses of the three fixed defects and of the cumulative-hash defect
	fixedWitnesses(c)

	// ---- ParseLocality: the systematic family, then random near-misses
	for _, d := range fixedLoc {
		locality1(c, d, "fixed")
	}
	locality1(c, nil, "fixed")
	for i, n := 0, c.Scale(250, 3000); i < n; i++ {
		locality1(c, randLocalityData(c), "random")
	}

	// ---- every fixed locality datum as the leading PCR0 event of a SHA1 and a SHA256 log
	for i, d := range fixedLoc {
		a := []Alg{0x4, 0xB}[i%2]
		sel := []*Event{startupEvent(c, 0, a, d)}
		for k := 0; k < i%3; k++ {
			sel = append(sel, measEvent(c, 0, a))
		}
		g := genLog{sel, 0, a, "leading-noaction-fixeddata"}
		replay1(c, g, 0, a)
	}

	// ---- Replay / FilterEvents on generated logs
	n := c.Scale(800, 9000)
	for i := 0; i < n; i++ {
		var g genLog
		switch {
		case i%10 < 4:
			g = wellFormed(c)
		case i%10 < 9:
			g = broken(c)
		default:
			g = randomLog(c)
		}
		replay1(c, g, g.p, g.a)
		// the same log asked for another PCR / bank (multi-bank logs, unsupported queries)
		q := pcrChoices[c.Rng.Intn(len(pcrChoices))]
		b := bankChoices[c.Rng.Intn(len(bankChoices))]
		switch c.Rng.Intn(3) {
		case 0:
			replay1(c, g, q, g.a)
		case 1:
			replay1(c, g, g.p, b)
		default:
			replay1(c, g, q, b)
		}
		if i%2 == 0 {
			filter1(c, g, g.p, g.a)
		} else if i%4 == 1 {
			filter1(c, g, q, b)
		}
		if i%4 == 0 {
			fromParsed1(c, g)
		}
		// ---- a session on ONE log object (spread over the shards): calls, in-place edits, calls
		if i%6 == 3 {
			var gs genLog
			switch k := c.Rng.Intn(10); {
			case k < 2:
				for t := 0; t < 20; t++ {
					if gs = wellFormed(c); gs.shape == "wf+startup" {
						gs.shape = "wf+startup/locality"
						break
					}
				}
			case k < 6:
				gs = wellFormed(c)
			case k < 9:
				gs = broken(c)
			default:
				gs = randomLog(c)
			}
			session1(c, gs)
		}
	}

	// ---- ParseEventData
	for i, n := 0, c.Scale(900, 10000); i < n; i++ {
		parseData1(c, rParseEventDataInput(c), "random")
		if i%30 == 7 {
			parseDataReuse(c) // one *Event parsed again after in-place edits
		}
	}

	// ---- tpm.EventLog.Replay / RestoreCommands
	for i, n := 0, c.Scale(500, 6000); i < n; i++ {
		l, a := rEntries(c)
		loc := rloc(c)
		switch c.Rng.Intn(12) {
		case 0:
			tpmReplay1(c, l, pcrChoices[1+c.Rng.Intn(4)], a, loc, "pcr!=0")
		case 1:
			tpmReplay1(c, l, 0, []Alg{0, 5, 0x12, 0xFFFF}[c.Rng.Intn(4)], loc, "bogus-alg")
		default:
			tpmReplay1(c, l, 0, a, loc, "pcr0")
		}
		if i%2 == 0 {
			restore1(c, l)
		}
		if i%24 == 5 {
			tpmReuse(c) // one tpm.EventLog slice replayed again after in-place edits
		}
	}

	c.Finish("generated parsed logs ([]*tpmeventlog.Event built directly): well-formed (0..6 measurement events, optional leading startup event, " +
		"interleaved other-bank/other-PCR/nil-digest noise), one-defect variants (wrong digest length, late/duplicate/malformed startup event, PCR>=2, " +
		"bogus algorithm, PCR1 startup, nil digest) and random logs, each replayed for its own and for a foreign (PCR, algorithm); locality data of every " +
		"length 0..20 in 5 shapes plus near-misses; ParseEventData inputs with 0..3 (length,offset) pairs valid/invalid/swapped/boundary for 18 image sizes and " +
		"length-prefixed descriptions incl. Fv(<guid>); tpm.EventLog entries with unchecked digest lengths. Histories: ~130 sessions on ONE *TPMEventLog object " +
		"(heap of Event objects + log.Events with spare capacity; first the main (PCR, bank) question, then 2-5 rounds of 1-3 in-place edits by the owner -- entries swapped / replaced, " +
		"PCR index, algorithm, digest object, digest byte, digest length, nil digest, event type, locality byte changed through the pointer, foreign event moved into the bank, " +
		"new slice of the same length, append, remove, remove+append, reslice, clear+refill of the same array, bank repaired, initial log restored, caller overwrites a returned result -- " +
		"followed by Replay / FilterEvents / EventLogFromParsed on the same object; every call judged on the log as it is at that moment, the object compared with the harness's " +
		"own record after every call, every returned result compared with a private copy after every later step); one tpm.EventLog slice / one *Event re-used by " +
		"EventLog.Replay / ParseEventData after in-place edits. A case is non-trivial when at least one event of the " +
		"queried PCR/bank exists (ParseLocality/ParseEventData: non-empty data; session: a call after an edit finds events of its PCR/bank); distinct = distinct Gallina literal")
}

func fixedWitnesses(c *gal.Ctx) {
	sha1, sha256 := Alg(0x4), Alg(0xB)
	d := func(a Alg, b byte) *tpmeventlog.Digest {
		return &tpmeventlog.Digest{HashAlgo: a, Digest: bytes.Repeat([]byte{b}, digestLen(a))}
	}
	// D3: PCR0 without any event of the bank: the value is zeros (not nil)
	for _, a := range []Alg{sha1, sha256, 0xC} {
		replay1(c, genLog{nil, 0, a, "fixed"}, 0, a)
		replay1(c, genLog{nil, 1, a, "fixed"}, 1, a)
		replay1(c, genLog{[]*Event{{PCRIndex: 1, Type: 1, Digest: d(a, 1)}}, 0, a, "fixed"}, 0, a)
	}
	// every supported bank once: startup event + two measurements on PCR0, two measurements on PCR1
	for _, a := range []Alg{0x4, 0xB, 0xC, 0xD, 0x27, 0x28, 0x29} {
		l := []*Event{
			{PCRIndex: 0, Type: evNoAction, Data: goodStartup(3), Digest: d(a, 0)},
			{PCRIndex: 1, Type: tpmeventlog.EV_S_CRTM_VERSION, Digest: d(a, 2)},
			{PCRIndex: 0, Type: tpmeventlog.EV_POST_CODE, Digest: d(a, 1)},
			{PCRIndex: 0, Type: tpmeventlog.EV_S_CRTM_CONTENTS, Digest: d(a, 0xff)},
			{PCRIndex: 1, Type: tpmeventlog.EV_SEPARATOR, Digest: d(a, 0)},
		}
		replay1(c, genLog{l, 0, a, "fixed"}, 0, a)
		replay1(c, genLog{l, 1, a, "fixed"}, 1, a)
		replay1(c, genLog{l, 2, a, "fixed"}, 2, a)
		fromParsed1(c, genLog{l, 0, a, "fixed"})
	}
	// D2: "StartupLocality" without NUL as the leading PCR0 event
	g := genLog{[]*Event{{PCRIndex: 0, Type: evNoAction, Data: []byte("StartupLocality"), Digest: d(sha1, 0)}, {PCRIndex: 0, Type: 1, Digest: d(sha1, 7)}}, 0, sha1, "fixed"}
	replay1(c, g, 0, sha1)
	filter1(c, g, 0, sha1)
	parseData1(c, ped{&Event{PCRIndex: 0, Type: evNoAction, Data: []byte("StartupLocality")}, 0x1000000}, "fixed")
	parseData1(c, ped{&Event{PCRIndex: 0, Type: evNoAction, Data: []byte("StartupLocality\x00\x03")}, 0x1000000}, "fixed")
	// the example of the source comment: FV_BB_AFTER_MEMORY, offset 0xffac0000, length 0x70000
	ex, _ := hex.DecodeString("1246565f42425f41465445525f4d454d4f5259000000acff000000000000070000000000")
	parseData1(c, ped{&Event{PCRIndex: 0, Type: tpmeventlog.EV_POST_CODE, Data: ex}, 0x1000000}, "fixed")
	parseData1(c, ped{&Event{PCRIndex: 0, Type: tpmeventlog.EV_EFI_PLATFORM_FIRMWARE_BLOB2, Data: ex}, 0x10000}, "fixed")
	fv := append([]byte{40}, []byte("Fv(01234567-89AB-CDEF-0123-456789ABCDEF)")...)
	parseData1(c, ped{&Event{PCRIndex: 0, Type: tpmeventlog.EV_POST_CODE, Data: fv}, 0x1000000}, "fixed")
	parseData1(c, ped{&Event{PCRIndex: 0, Type: tpmeventlog.EV_POST_CODE, Data: append(append([]byte(nil), fv...), ex[19:]...)}, 0x1000000}, "fixed")
	// D4 / cumulative hash: startup entry + 1, 2, 3 measurement entries in the bootflow log
	for _, a := range []Alg{sha1, sha256} {
		for nm := 0; nm <= 3; nm++ {
			var l tpm.EventLog
			l.Add(tpm.CommandExtend{PCRIndex: 0, HashAlgo: a, Digest: make([]byte, digestLen(a))}, evNoAction, []byte("StartupLocality\x00\x03"))
			for k := 0; k < nm; k++ {
				l.Add(tpm.CommandExtend{PCRIndex: 0, HashAlgo: a, Digest: bytes.Repeat([]byte{byte(k + 1)}, digestLen(a))}, tpmeventlog.EV_POST_CODE, nil)
			}
			tpmReplay1(c, l, 0, a, 3, "fixed")
			restore1(c, l)
		}
	}
}
