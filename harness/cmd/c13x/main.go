package main

import (
	"context"
	"crypto/sha1"
	"encoding/binary"
	"fmt"
	"time"

	"github.com/9elements/converged-security-suite/v2/pkg/bootflow/actors"
	"github.com/9elements/converged-security-suite/v2/pkg/bootflow/actors/intelactors"
	"github.com/9elements/converged-security-suite/v2/pkg/bootflow/bootengine"
	"github.com/9elements/converged-security-suite/v2/pkg/bootflow/datasources"
	"github.com/9elements/converged-security-suite/v2/pkg/bootflow/steps/commonsteps"
	"github.com/9elements/converged-security-suite/v2/pkg/bootflow/steps/intelsteps"
	"github.com/9elements/converged-security-suite/v2/pkg/bootflow/steps/tpmsteps"
	"github.com/9elements/converged-security-suite/v2/pkg/bootflow/subsystems/trustchains/intelpch"
	"github.com/9elements/converged-security-suite/v2/pkg/bootflow/subsystems/trustchains/tpm"
	"github.com/9elements/converged-security-suite/v2/pkg/bootflow/subsystems/trustchains/tpm/pcrbruteforcer"
	"github.com/9elements/converged-security-suite/v2/pkg/bootflow/systemartifacts/biosimage"
	"github.com/9elements/converged-security-suite/v2/pkg/bootflow/systemartifacts/txtpublic"
	"github.com/9elements/converged-security-suite/v2/pkg/bootflow/types"
	"github.com/9elements/converged-security-suite/v2/pkg/registers"
	"github.com/9elements/converged-security-suite/v2/pkg/tpmeventlog"
	ffsConsts "github.com/9elements/converged-security-suite/v2/pkg/uefi/ffs/consts"
	"github.com/9elements/converged-security-suite/v2/testdata/firmware"
	"github.com/linuxboot/fiano/pkg/guid"
	"verifharness/gal"
)

var testFlow = types.NewFlow("unit-test-flow", types.Steps{
	commonsteps.SetActor(intelactors.PCH{}),
	commonsteps.SetActor(intelactors.ACM{}),
	tpmsteps.InitTPM(3, true),
	intelsteps.MeasurePCR0DATA{},
	commonsteps.SetActor(actors.PEI{}),
	tpmsteps.Measure(0, tpmeventlog.EV_S_CRTM_VERSION, datasources.Bytes([]byte{0x1e, 0xfb, 0x6b, 0x54})),
	tpmsteps.Measure(0, tpmeventlog.EV_EFI_PLATFORM_FIRMWARE_BLOB2, datasources.UEFIGUIDFirst([]guid.GUID{ffsConsts.GUIDDXEContainer, ffsConsts.GUIDDXE})),
	tpmsteps.Measure(0, tpmeventlog.EV_SEPARATOR, datasources.Bytes{0, 0, 0, 0}),
	commonsteps.SetActor(actors.DXE{}),
})

func dummyBoot() (*tpm.TPM, *bootengine.BootProcess) {
	tpmInstance := tpm.NewTPM()
	s := types.NewState()
	s.IncludeSubSystem(tpmInstance)
	s.IncludeSubSystem(intelpch.NewPCH())
	s.IncludeSystemArtifact(biosimage.New(firmware.FakeIntelFirmware))
	s.IncludeSystemArtifact(txtpublic.New(registers.Registers{
		registers.ParseACMPolicyStatusRegister(0x0000000200108681),
	}))
	s.SetFlow(testFlow)
	process := bootengine.NewBootProcess(s)
	return tpmInstance, process
}

func recFromSim(t *tpm.TPM, alg tpmeventlog.TPMAlgorithm) *tpmeventlog.TPMEventLog {
	r := &tpmeventlog.TPMEventLog{}
	for _, e := range t.EventLog {
		r.Events = append(r.Events, &tpmeventlog.Event{PCRIndex: e.PCRIndex, Type: e.Type, Data: append([]byte(nil), e.Data...),
			Digest: &tpmeventlog.Digest{HashAlgo: e.HashAlgo, Digest: append([]byte(nil), e.Digest...)}})
	}
	return r
}

func run(name string, p *bootengine.BootProcess, log *tpmeventlog.TPMEventLog, alg tpmeventlog.TPMAlgorithm, st pcrbruteforcer.SettingsReproduceEventLog) {
	t0 := time.Now()
	var res pcrbruteforcer.ReproduceEventLogResult
	var reg *registers.ACMPolicyStatus
	var issues []pcrbruteforcer.Issue
	var err error
	pan, msg := gal.Recover(func() {
		res, reg, issues, err = pcrbruteforcer.ReproduceEventLog(context.Background(), p, log, alg, st)
	})
	fmt.Printf("== %s: %v panic=%v %s err=%v reg=%v nissues=%d\n", name, time.Since(t0), pan, msg, err, reg, len(issues))
	for _, i := range issues {
		s := i.Error()
		if len(s) > 200 {
			s = s[:200]
		}
		fmt.Printf("   issue %T: %s\n", i, s)
	}
	for _, e := range res {
		fmt.Printf("   st=%d calc=%v exp=%v m=%v\n", e.Status, e.Calculated != nil, e.Expected != nil, e.Measurement != nil)
	}
}

func main() {
	ctx := context.Background()
	tp, p := dummyBoot()
	p.Finish(ctx)
	for i, e := range tp.EventLog {
		fmt.Printf("sim[%d] pcr=%d alg=%v type=%v digest=%x data=%x\n", i, e.PCRIndex, e.HashAlgo, e.Type, e.Digest, e.Data)
	}
	for i, c := range tp.CommandLog {
		fmt.Printf("cmd[%d] %T %v\n", i, c.Command, c.Command)
	}
	st := pcrbruteforcer.DefaultSettingsReproduceEventLog()
	st.MaxDigestRangeGuesses = 10
	st.MaxACMPolicyLinearDistance = 8
	alg := tpmeventlog.TPMAlgorithmSHA1
	run("identical", p, recFromSim(tp, alg), alg, st)
	run("identical256", p, recFromSim(tp, alg), tpmeventlog.TPMAlgorithmSHA256, st)

	// no-action digest changed
	l := recFromSim(tp, alg)
	for _, e := range l.Events {
		if e.Type == tpmeventlog.EV_NO_ACTION && e.Digest.HashAlgo == alg {
			e.Digest.Digest[0] = 1
			break
		}
	}
	run("noaction-digest", p, l, alg, st)

	// D20
	l = recFromSim(tp, alg)
	for _, e := range l.Events {
		if e.Type == tpmeventlog.EV_EFI_PLATFORM_FIRMWARE_BLOB2 && e.Digest.HashAlgo == alg {
			e.Digest.Digest[0] ^= 1
			d := make([]byte, 32)
			binary.LittleEndian.PutUint64(d[0:], 16)
			binary.LittleEndian.PutUint64(d[8:], 0xffff0000)
			binary.LittleEndian.PutUint64(d[16:], 16)
			binary.LittleEndian.PutUint64(d[24:], 0xffff1000)
			e.Data = d
			break
		}
	}
	run("d20", p, l, alg, st)
	// one pair, range beyond image end
	l = recFromSim(tp, alg)
	for _, e := range l.Events {
		if e.Type == tpmeventlog.EV_EFI_PLATFORM_FIRMWARE_BLOB2 && e.Digest.HashAlgo == alg {
			e.Digest.Digest[0] ^= 1
			d := make([]byte, 16)
			binary.LittleEndian.PutUint64(d[0:], 0x10000)
			binary.LittleEndian.PutUint64(d[8:], 0xfffffff0)
			e.Data = d
			break
		}
	}
	run("beyond-end", p, l, alg, st)
	// inserted entry with digest of a piece of image
	l = recFromSim(tp, alg)
	h := sha1.Sum(firmware.FakeIntelFirmware[0x100:0x200])
	ins := &tpmeventlog.Event{PCRIndex: 0, Type: tpmeventlog.EV_POST_CODE, Digest: &tpmeventlog.Digest{HashAlgo: alg, Digest: h[:]}}
	l.Events = append(l.Events[:3], append([]*tpmeventlog.Event{ins}, l.Events[3:]...)...)
	run("insert-piece", p, l, alg, st)
	st.MaxDigestRangeGuesses = 0
	run("insert-piece-guess0", p, l, alg, st)
}
