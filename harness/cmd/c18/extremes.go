package main

// The two ends of the value domain of a signed manifest FILE that ordinary shapes
// practically never reach:
//
//   - LENGTH.  "arbitrary hash lists / IBB segment lists": the formats count IBB
//     segments in one byte, carry platform / PCD data behind 16-bit sizes and keep
//     the offset of the signature in 16 bits, so well-formed signed files range from
//     half a KiB to 64 KiB and more.  sizeLadder signs manifests whose files have
//     EXACTLY 2^k-1, 2^k and 2^k+1 bytes for every k from 11 up to what the kind
//     can hold, and a file close to the largest the kind can hold.
//   - CONTENT AT THE END OF THE FILE.  A signed file ends with the signature value,
//     bytes nobody chooses.  trailingBytes signs a long series of ordinary
//     manifests of every kind, so that the last byte of the file (and the first
//     byte of the signature value) runs through practically all 256 values --
//     0xFF (erased flash), 0x00 (padding), white space, ... -- and judges every one.
//
// Oracle (first clause of the property, for each of these files): signed by the
// suite with a supported key => NewKM/NewBPM reads it, VerifyKM/VerifyBPM accepts
// it, the stored signature is valid (crypto/rsa) for the stored signed portion,
// what the suite parsed writes back to the very same bytes, NewBPMAndKM loads it
// together with its partner; and single-bit changes next to the 2^k positions, at
// the end of the signed portion and at the end of the file are refused.

import (
	"bytes"
	"crypto/sha256"
	"errors"
	"fmt"
	"io"
	"runtime"
	"sort"
	"sync"

	"github.com/9elements/converged-security-suite/v2/pkg/provisioning/bootguard"
	"github.com/linuxboot/fiano/pkg/intel/metadata/bg/bgbootpolicy"
	"github.com/linuxboot/fiano/pkg/intel/metadata/bg/bgkey"
	"github.com/linuxboot/fiano/pkg/intel/metadata/cbnt"
	"github.com/linuxboot/fiano/pkg/intel/metadata/cbnt/cbntbootpolicy"
	"github.com/linuxboot/fiano/pkg/intel/metadata/cbnt/cbntkey"
	"github.com/linuxboot/fiano/pkg/intel/metadata/common/bgheader"
)

// refParse: fiano's reader applied to the WHOLE file, without the suite's
// constructors -- DetectBGV for the generation, Manifest.ReadFrom on a reader over
// exactly the bytes of `file`, an error that wraps io.EOF is not an error (the
// rule NewKM/NewBPM state for themselves; the model's [parse]).
func refParse(doc int, file []byte) (*bootguard.BootGuard, error) {
	v, err := bgheader.DetectBGV(bytes.NewReader(file))
	if err != nil {
		return nil, err
	}
	b := &bootguard.BootGuard{Version: v}
	rd := bytes.NewReader(file)
	var rerr error
	switch {
	case v == bgheader.Version10 && doc == 0:
		b.VData.BGkm = bgkey.NewManifest()
		_, rerr = b.VData.BGkm.ReadFrom(rd)
	case v == bgheader.Version10:
		b.VData.BGbpm = bgbootpolicy.NewManifest()
		_, rerr = b.VData.BGbpm.ReadFrom(rd)
	case v == bgheader.Version20 && doc == 0:
		b.VData.CBNTkm = cbntkey.NewManifest()
		_, rerr = b.VData.CBNTkm.ReadFrom(rd)
	case v == bgheader.Version20:
		b.VData.CBNTbpm = cbntbootpolicy.NewManifest()
		_, rerr = b.VData.CBNTbpm.ReadFrom(rd)
	default:
		return nil, fmt.Errorf("unknown generation")
	}
	if rerr != nil && !errors.Is(rerr, io.EOF) {
		return nil, rerr
	}
	return b, nil
}

func (r *run) extremes() {
	keep := len(r.signed)
	r.shipLimit = 9000
	r.need3072()
	r.sizeLadder()
	r.shipLimit = 0
	r.trailingBytes()
	// the files of this stage are judged here; the later stages keep their own selection
	r.signed = r.signed[:keep]
}

// describeFile: a failing input names the file in full up to 12 KiB (and the first
// three longer ones of the stage in full as well), later ones by length and digest.
func (r *run) describeFile(file []byte) map[string]interface{} {
	d := map[string]interface{}{"file_len": len(file), "file_sha256": fmt.Sprintf("%x", sha256.Sum256(file))}
	if len(file) <= 12288 || r.longHex < 3 {
		d["signed_file_hex"] = hexs(file)
		if len(file) > 12288 {
			r.longHex++
		}
	}
	return d
}

// ---------------------------------------------------------------------------
// file lengths
// ---------------------------------------------------------------------------

type ladderKind struct {
	name     string
	gen, doc int
	// a manifest with a platform data element (its data is what sets the length)
	build    func() (*bootguard.BootGuard, shapeDesc, error)
	max      int // largest file the kind is asked to hold
}

func (r *run) sizeLadder() {
	c := r.c
	rg := c.Rng
	setData := func(b *bootguard.BootGuard, n int) {
		switch {
		case b.VData.BGbpm != nil:
			b.VData.BGbpm.PME.Data = rbytes(rg, n)
			b.VData.BGbpm.PME.DataSize = uint16(n)
		case b.VData.CBNTbpm != nil:
			b.VData.CBNTbpm.PME.Data = rbytes(rg, n)
		}
	}
	segs := func() int { return []int{255, 255, 200 + rg.Intn(56), rg.Intn(8)}[rg.Intn(4)] }
	kinds := []ladderKind{
		{name: "bgbpm", gen: 1, doc: 1, max: 1<<16 + 1, build: func() (*bootguard.BootGuard, shapeDesc, error) {
			return buildBgBPM(rg, segs(), true)
		}},
		{name: "cbntbpm", gen: 2, doc: 1, max: 61000, build: func() (*bootguard.BootGuard, shapeDesc, error) {
			return buildCbntBPM(rg, segs(), 1+rg.Intn(4), rg.Intn(2) == 0, rg.Intn(2) == 0, true, rg.Intn(2) == 0)
		}},
	}
	fails := 0
	for _, k := range kinds {
		// the targets: 2^k-1, 2^k, 2^k+1 and the largest file of the kind
		var targets []int
		for e := 11; 1<<e+1 <= k.max; e++ {
			targets = append(targets, 1<<e-1, 1<<e, 1<<e+1)
		}
		if len(targets) == 0 || targets[len(targets)-1] < k.max {
			targets = append(targets, k.max)
		}
		for ti, target := range targets {
			keyName := []string{"B", "E"}[ti%2]
			scheme, hash := "RSASSA", "SHA256"
			if k.gen == 2 && ti%3 == 1 {
				scheme, hash = "RSAPSS", "SHA384"
			}
			if k.gen == 2 && ti%5 == 4 {
				hash = "AlgNull"
			}
			// a first signing with one byte of platform data tells what the rest of this
			// shape weighs; the object is then given the data that makes the file hit the
			// target and is signed again (SignBPM starts from an empty signature element)
			b, d, err := k.build()
			if err != nil {
				c.OracleFail(-1, "cannot build "+k.name+": "+err.Error(), "harness", nil)
				continue
			}
			setData(b, 1)
			probe, perr := b.SignBPM(scheme, hash, r.keys[keyName])
			if perr != nil {
				c.OracleFail(-1, fmt.Sprintf("SignBPM failed on a small %s: %v", k.name, perr), "bootguard.SignBPM", d)
				continue
			}
			n := 1 + target - len(probe)
			if n < 1 {
				c.Count("ladder/target-below-fixed-part")
				continue
			}
			setData(b, n)
			d["pme_bytes"] = n
			d["target_len"] = target
			sf := r.signOne(b, 1, scheme, hash, keyName, d, false, fmt.Sprintf("ladder-%s-%d", k.name, target))
			if sf == nil {
				fails++
				continue
			}
			if len(sf.file) != target {
				c.Count("ladder/length-off-target")
			}
			c.Count(fmt.Sprintf("ladder/%s-len-2^%d", k.name, log2(len(sf.file))))
			if !r.judgeExtreme(sf, keyName) {
				fails++
			}
		}
	}
	// CBnT key manifests: the hash list is what grows (44 bytes per SHA-256 entry);
	// counts that put the file just below and just above every 2^k, and a long one
	for _, cnt := range []int{30, 34, 78, 82, 170, 176, 356, 362, 730, 736, 1300} {
		kk, bk := []string{"A", "D"}[cnt%4/2], "B"
		scheme, pk := "RSASSA", cbnt.AlgSHA256
		if cnt%3 == 0 {
			scheme, pk = "RSAPSS", cbnt.AlgSHA384
		}
		b, d, err := buildCbntKM(rg, pubOf(r.keys[kk]), pubOf(r.keys[bk]), pk, []string{"SHA256", "SHA384", "SM3"}[cnt%3], cnt)
		if err != nil {
			c.OracleFail(-1, "cannot build a long CBnT KM: "+err.Error(), "harness", nil)
			continue
		}
		d["bpmkey"] = bk
		sf := r.signOne(b, 0, scheme, "", kk, d, false, fmt.Sprintf("ladder-cbntkm-%d", cnt))
		if sf == nil {
			fails++
			continue
		}
		c.Count(fmt.Sprintf("ladder/cbntkm-len-2^%d", log2(len(sf.file))))
		if !r.judgeExtreme(sf, kk) {
			fails++
		}
	}
	c.Rep.Extra["ladder_failing_files"] = fails
}

func log2(n int) int {
	e := 0
	for n > 1 {
		n >>= 1
		e++
	}
	return e
}

// judgeExtreme: what signOne does not look at.  Returns false when a check failed.
func (r *run) judgeExtreme(sf *signedFile, keyName string) bool {
	c := r.c
	good := sf.verifies
	site := "bootguard.New" + docName(sf.doc)
	in := func(extra map[string]interface{}) map[string]interface{} {
		m := r.describeFile(sf.file)
		m["shape"] = sf.desc
		for k, v := range extra {
			m[k] = v
		}
		return m
	}
	// (1) what the suite parsed writes back to the same bytes
	var back []byte
	var err error
	p, _ := recoverCall(func() {
		var b *bootguard.BootGuard
		b, err = newDoc(sf.doc, sf.file)
		if err == nil {
			if sf.doc == 0 {
				back, err = b.WriteKM()
			} else {
				back, err = b.WriteBPM()
			}
		}
	})
	switch {
	case p || err != nil:
		// signOne has reported the refusal already when the file does not verify
		if sf.verifies {
			c.OracleFail(-1, fmt.Sprintf("a %s signed by the suite (%d bytes) cannot be read and written back: panic=%v err=%v", docName(sf.doc), len(sf.file), p, err), site, in(nil))
		}
		good = false
	case !bytes.Equal(back, sf.file):
		c.OracleFail(-1, fmt.Sprintf("a %s signed by the suite (%d bytes) is not what New%s + Write%s give back (%d bytes, first difference at byte %d): the suite does not hold the file as stored", docName(sf.doc), len(sf.file), docName(sf.doc), docName(sf.doc), len(back), firstDiff(back, sf.file)), site, in(nil))
		good = false
	default:
		c.OracleOK()
	}
	// (2) together with a partner through NewBPMAndKM
	if partner := r.partnerOf(sf); partner != nil {
		bpm, km := sf.file, partner
		if sf.doc == 0 {
			bpm, km = partner, sf.file
		}
		var verr, kerr error
		p, _ := recoverCall(func() {
			var b *bootguard.BootGuard
			b, err = bootguard.NewBPMAndKM(bytes.NewReader(bpm), bytes.NewReader(km))
			if err == nil {
				verr, kerr = b.VerifyBPM(), b.VerifyKM()
			}
		})
		if p || err != nil || verr != nil || kerr != nil {
			c.OracleFail(-1, fmt.Sprintf("a %s signed by the suite (%d bytes) is not accepted through NewBPMAndKM with a verifying partner: panic=%v load=%v VerifyBPM=%v VerifyKM=%v", docName(sf.doc), len(sf.file), p, err, verr, kerr), "bootguard.NewBPMAndKM", in(map[string]interface{}{"partner_hex": hexs(partner)}))
			good = false
		} else {
			c.OracleOK()
		}
	}
	// (3) single-bit changes at the far end and next to the 2^k positions
	if sf.verifies {
		for _, pos := range r.extremePositions(sf) {
			bit := pos*8 + c.Rng.Intn(8)
			mut := flip(sf.file, bit)
			out, _ := suiteVerifyFile(sf.doc, mut)
			if out == oOk {
				c.OracleFail(-1, fmt.Sprintf("bit %d (byte %d, %s) of a signed %s of %d bytes changed and the suite still accepts the file", bit, pos, sf.lay.region(pos), docName(sf.doc), len(sf.file)), "bootguard.Verify"+docName(sf.doc), in(map[string]interface{}{"bit": bit}))
				good = false
			} else {
				c.OracleOK()
			}
		}
	}
	return good
}

func firstDiff(a, b []byte) int {
	for i := 0; i < len(a) && i < len(b); i++ {
		if a[i] != b[i] {
			return i
		}
	}
	if len(a) < len(b) {
		return len(a)
	}
	return len(b)
}

// partnerOf: a small verifying file of the other document, same generation
func (r *run) partnerOf(sf *signedFile) []byte {
	for _, o := range r.signed {
		if o.gen == sf.gen && o.doc != sf.doc && o.verifies && o.by == "suite" && len(o.file) < 2048 {
			return o.file
		}
	}
	return nil
}

// extremePositions: bytes of the signed DATA (long opaque fields: platform data, hash
// buffers, segment addresses -- never a size or offset field, which fiano recomputes:
// open finding on normalised fields), of the key value and of the signature value
// that lie next to a 2^k position, at the end of the data and at the end of the file.
func (r *run) extremePositions(sf *signedFile) []int {
	lay := sf.lay
	// the long data field at the end of the signed portion
	dataEnd := lay.signedEnd
	if sf.doc == 1 && sf.gen == 2 {
		dataEnd -= 12 // header of the signature element
	}
	if sf.doc == 0 {
		dataEnd = 0 // a KM's signed portion ends with its hash list: entries of 32..60 bytes, use key and signature only
	}
	dataStart := dataEnd
	if n, ok := sf.desc["pme_bytes"].(int); ok {
		dataStart = dataEnd - n
	}
	cand := []int{len(sf.file) - 1, lay.sigData[0], lay.keyData[1] - 1, dataEnd - 1, dataStart}
	for e := 10; 1<<e < len(sf.file); e++ {
		cand = append(cand, 1<<e-1, 1<<e)
	}
	seen := map[int]bool{}
	var res []int
	for _, p := range cand {
		if p < 0 || p >= len(sf.file) || seen[p] {
			continue
		}
		reg := lay.region(p)
		if (p >= dataStart && p < dataEnd) || reg == "pubkey" && p >= lay.keyData[0]+4 || reg == "sigvalue" {
			seen[p] = true
			res = append(res, p)
		}
	}
	sort.Ints(res)
	return res
}

// ---------------------------------------------------------------------------
// the bytes at the end of the file
// ---------------------------------------------------------------------------

type tbJob struct {
	gen, doc     int
	b            *bootguard.BootGuard
	scheme, hash string
	keyName      string
	desc         shapeDesc
}

type tbResult struct {
	file           []byte
	signErr        error
	panicked       bool
	pmsg           string
	lay            layout
	layErr         error
	raw            bool
	out            int // NewX + VerifyX
	back           bool
	last, sigFirst int
}

func (r *run) trailingBytes() {
	c := r.c
	rg := c.Rng
	perKind := c.Scale(1200, 4000)
	var jobs []tbJob
	for i := 0; i < perKind; i++ {
		for kind := 0; kind < 4; kind++ {
			gen, doc := 1+kind/2, kind%2
			forceEdge = 0
			var b *bootguard.BootGuard
			var d shapeDesc
			var err error
			scheme, hash := "RSASSA", "SHA256"
			if gen == 2 && i%2 == 1 {
				scheme, hash = "RSAPSS", "SHA384"
			}
			keyName := "A"
			switch {
			case gen == 1 && doc == 0:
				b, d, err = buildBgKM(rg, pubOf(r.keys["A"]), pubOf(r.keys["B"]), "SHA256")
			case gen == 1:
				keyName = "B"
				b, d, err = buildBgBPM(rg, i%4, i%3 == 0)
			case doc == 0:
				pk, _ := cbnt.GetAlgFromString(hash)
				b, d, err = buildCbntKM(rg, pubOf(r.keys["A"]), pubOf(r.keys["B"]), pk, "SHA256", i%3)
			default:
				keyName = "B"
				b, d, err = buildCbntBPM(rg, i%4, 1+i%2, i%2 == 0, i%5 == 0, i%3 == 0, i%7 == 0)
			}
			if err != nil {
				c.OracleFail(-1, "cannot build a manifest: "+err.Error(), "harness", nil)
				continue
			}
			d["series"] = i
			jobs = append(jobs, tbJob{gen, doc, b, scheme, hash, keyName, d})
		}
	}
	// signing and judging touch nothing but the job's own object: spread over the cores
	res := make([]tbResult, len(jobs))
	workers := runtime.NumCPU()
	if workers > 8 {
		workers = 8
	}
	var wg sync.WaitGroup
	next := make(chan int, len(jobs))
	for i := range jobs {
		next <- i
	}
	close(next)
	for w := 0; w < workers; w++ {
		wg.Add(1)
		go func() {
			defer wg.Done()
			for i := range next {
				res[i] = r.trailingOne(jobs[i])
			}
		}()
	}
	wg.Wait()

	type cover struct {
		last, sigFirst [256]int
		files, bad     int
	}
	cov := map[string]*cover{}
	shipped := map[string]int{}
	for i, j := range jobs {
		q := res[i]
		kind := fmt.Sprintf("gen%d-%s", j.gen, docName(j.doc))
		cv := cov[kind]
		if cv == nil {
			cv = &cover{}
			cov[kind] = cv
		}
		cv.files++
		j.desc["scheme"], j.desc["hash"], j.desc["key"] = j.scheme, j.hash, j.keyName
		site := "bootguard.New" + docName(j.doc)
		var what string
		switch {
		case q.panicked || q.signErr != nil:
			what, site = fmt.Sprintf("Sign%s failed on a supported request: panic=%v %s err=%v", docName(j.doc), q.panicked, q.pmsg, q.signErr), "bootguard.Sign"+docName(j.doc)
		case q.layErr != nil:
			what, site = "signed file does not have the documented layout: "+q.layErr.Error(), "bootguard.Sign"+docName(j.doc)
		case q.out != oOk && q.raw:
			what = fmt.Sprintf("a %s signed by the suite is refused by New%s/Verify%s although the stored signature is valid (crypto/rsa) for the stored signed portion; the file ends with byte %#02x, its signature value starts with %#02x", docName(j.doc), docName(j.doc), docName(j.doc), q.last, q.sigFirst)
		case q.out != oOk:
			what, site = fmt.Sprintf("a %s signed by the suite does not verify with the suite (stored signature not valid for the stored signed portion either); the file ends with byte %#02x", docName(j.doc), q.last), "bootguard.Sign"+docName(j.doc)
		case !q.raw:
			what, site = "the suite accepts its own signed file although the stored signature is not valid (crypto/rsa) for the stored signed portion", "bootguard.Verify"+docName(j.doc)
		case !q.back:
			what = fmt.Sprintf("a %s signed by the suite is not what New%s + Write%s give back; the file ends with byte %#02x, its signature value starts with %#02x", docName(j.doc), docName(j.doc), docName(j.doc), q.last, q.sigFirst)
		}
		if q.file != nil {
			cv.last[q.last]++
			cv.sigFirst[q.sigFirst]++
		}
		// correspondence cases: the first file of each kind that ends with a filler or
		// white-space byte or whose signature value starts with a zero byte, every
		// failing file (up to five per kind), and a few others
		var tags []string
		if q.file != nil && q.layErr == nil {
			if q.last == 0xff || q.last == 0 || q.last == 0x20 || q.last == 0x0a {
				tags = append(tags, fmt.Sprintf("%s/last-%02x", kind, q.last))
			}
			if q.sigFirst == 0 || q.sigFirst == 0xff {
				tags = append(tags, fmt.Sprintf("%s/sigfirst-%02x", kind, q.sigFirst))
			}
		}
		ship := (what != "" && q.file != nil && cv.bad < 5) || i < 8
		for _, t := range tags {
			if shipped[t] == 0 {
				ship = true
			}
			shipped[t]++
		}
		idx := -1
		if ship && q.file != nil {
			_, idx = r.addVerifyCase("verify/series-"+kind, j.doc, q.file, map[string]interface{}{"file": "suite-signed series", "shape": j.desc, "last_byte": q.last, "sig_first_byte": q.sigFirst}, true)
		}
		if what == "" {
			c.OracleOK()
			continue
		}
		cv.bad++
		if cv.bad > 5 {
			c.Count("series/further-failing-files-" + kind)
			continue
		}
		in := map[string]interface{}{"shape": j.desc}
		if q.file != nil {
			in["signed_file_hex"] = hexs(q.file)
			in["last_byte"] = q.last
		}
		c.OracleFail(idx, what, site, in)
	}
	// what the series reached (a property of the generator: notes, never failures)
	summary := map[string]interface{}{}
	for kind, cv := range cov {
		nl, nf := 0, 0
		for v := 0; v < 256; v++ {
			if cv.last[v] > 0 {
				nl++
			}
			if cv.sigFirst[v] > 0 {
				nf++
			}
		}
		summary[kind] = map[string]int{"files": cv.files, "failing": cv.bad, "last_byte_values": nl, "sig_first_byte_values": nf, "ending_ff": cv.last[0xff], "ending_00": cv.last[0], "sig_starting_00": cv.sigFirst[0]}
		if cv.last[0xff] == 0 || cv.last[0] == 0 {
			c.Rep.Notes = append(c.Rep.Notes, fmt.Sprintf("series %s: no signed file ending with 0xff / 0x00 among %d (files ending 0xff: %d, 0x00: %d)", kind, cv.files, cv.last[0xff], cv.last[0]))
		}
	}
	c.Rep.Extra["series"] = summary
}

// trailingOne runs in a worker: the suite signs, the suite reads and verifies, the
// standard library judges the stored bytes.  No access to the case context.
func (r *run) trailingOne(j tbJob) (q tbResult) {
	pre, err := prepared(j.b, j.doc)
	if err != nil {
		q.signErr = err
		return
	}
	q.panicked, q.pmsg = recoverCall(func() {
		if j.doc == 0 {
			q.file, q.signErr = j.b.SignKM(j.scheme, r.keys[j.keyName])
		} else {
			q.file, q.signErr = j.b.SignBPM(j.scheme, j.hash, r.keys[j.keyName])
		}
	})
	if q.panicked || q.signErr != nil {
		q.file = nil
		return
	}
	ksOff, signedEnd := signedLayoutOffsets(j.gen, j.doc, pre)
	q.lay, q.layErr = parseLayout(q.file, j.gen, j.doc, signedEnd, ksOff)
	q.last = int(q.file[len(q.file)-1])
	if q.layErr != nil {
		return
	}
	q.sigFirst = int(q.file[q.lay.sigData[0]])
	q.raw = q.lay.rawValid(q.file)
	q.out, _ = suiteVerifyFile(j.doc, q.file)
	recoverCall(func() {
		b, err := newDoc(j.doc, q.file)
		if err != nil {
			return
		}
		var back []byte
		if j.doc == 0 {
			back, err = b.WriteKM()
		} else {
			back, err = b.WriteBPM()
		}
		q.back = err == nil && bytes.Equal(back, q.file)
	})
	return
}
