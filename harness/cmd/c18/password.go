package main

import (
	"bytes"
	"crypto"
	"crypto/aes"
	"crypto/cipher"
	"crypto/ecdsa"
	"crypto/elliptic"
	"crypto/rand"
	"crypto/rsa"
	"crypto/sha256"
	"crypto/x509"
	"encoding/pem"
	"fmt"
	"os"
	"strings"

	"github.com/9elements/converged-security-suite/v2/pkg/provisioning/bootguard"
	"verifharness/gal"
)

func suiteEncrypt(k crypto.PrivateKey, password string) ([]byte, error) {
	f, err := os.CreateTemp("", "c18enc")
	if err != nil {
		return nil, err
	}
	defer os.Remove(f.Name())
	err = bootguard.WritePrivKeyToFileVerif(k, f, password)
	f.Close()
	if err != nil {
		return nil, err
	}
	return os.ReadFile(f.Name())
}

// independent AES-256-GCM with key SHA-256(password)
func stdOpen(key, nonce, ct []byte) ([]byte, bool) {
	bc, err := aes.NewCipher(key)
	if err != nil {
		return nil, false
	}
	g, err := cipher.NewGCM(bc)
	if err != nil || len(nonce) != g.NonceSize() {
		return nil, false
	}
	p, err := g.Open(nil, nonce, ct, nil)
	return p, err == nil
}

func stdSeal(key, nonce, pt []byte) []byte {
	bc, _ := aes.NewCipher(key)
	g, _ := cipher.NewGCM(bc)
	return g.Seal(nil, nonce, pt, nil)
}

// does the text hold a PEM block (not CERTIFICATE) with a PKCS#8 or PKCS#1 private key? (crypto/x509 only)
func stdParsesAsKey(p []byte) bool {
	for {
		blk, rest := pem.Decode(p)
		if blk == nil {
			return false
		}
		if blk.Type != "CERTIFICATE" {
			if k, err := x509.ParsePKCS8PrivateKey(blk.Bytes); err == nil {
				_, ok := k.(crypto.Signer)
				return ok
			}
			_, err := x509.ParsePKCS1PrivateKey(blk.Bytes)
			return err == nil
		}
		p = rest
	}
}

func samePublic(k interface{}, want crypto.PublicKey) bool {
	s, ok := k.(crypto.Signer)
	if !ok {
		return false
	}
	switch w := want.(type) {
	case *rsa.PublicKey:
		return w.Equal(s.Public())
	case *ecdsa.PublicKey:
		return w.Equal(s.Public())
	}
	return false
}

type optBytes struct {
	ok bool
	b  []byte
}

// decryptCase: DecryptPrivKey(data, pw) as a correspondence case; returns the outcome and the key
func (r *run) decryptCase(kind string, data []byte, pw string, descr map[string]interface{}, nontrivial bool) (int, interface{}, int) {
	var k interface{}
	var err error
	out := oOk
	p, _ := recoverCall(func() { k, err = bootguard.DecryptPrivKey(data, pw) })
	switch {
	case p:
		out = oPanic
	case err != nil:
		out = oErr
	}
	key := sha256.Sum256([]byte(pw))
	hpw := gal.List([]string{gal.Pair(bzStr(pw), bz(key[:]))})
	var ot, pt []string
	addPT := func(b []byte) {
		pt = append(pt, gal.Pair(bz(b), gal.Bool(stdParsesAsKey(b))))
	}
	if pw == "" {
		addPT(data)
	} else if len(data) >= 12 {
		plain, ok := stdOpen(key[:], data[:12], data[12:])
		v := "None"
		if ok {
			v = "(Some " + bz(plain) + ")"
			addPT(plain)
		}
		ot = append(ot, fmt.Sprintf("(%s, %s, %s, %s)", bz(key[:]), bz(data[:12]), bz(data[12:]), v))
	}
	lit := fmt.Sprintf("CDecrypt %s %s %s %s %s %s", bz(data), bzStr(pw), hpw, gal.List(ot), gal.List(pt), obsUnit(out))
	descr["outcome"] = out
	idx := r.c.Add(kind, lit, descr, nontrivial)
	return out, k, idx
}

func (r *run) passwords() {
	c := r.c
	ec, err := ecdsa.GenerateKey(elliptic.P256(), rand.Reader)
	if err != nil {
		panic(err)
	}
	long := strings.Repeat("x", 700)
	pws := []string{"", "a", "A", "password", "password ", " password", "pässwörd", "pässwörd", "\x00", "a\x00", "日本語パスワード", long, long + "y"}
	type keyT struct {
		name string
		k    crypto.Signer
	}
	keys := []keyT{{"ecc-p256", ec}}
	if c.Thorough() {
		keys = append(keys, keyT{"rsa-A", r.keys["A"]})
	}
	var sampleEnc []byte
	for _, kt := range keys {
		for _, pw := range pws {
			enc, err := suiteEncrypt(kt.k, pw)
			if err != nil {
				c.OracleFail(-1, "writePrivKeyToFile failed: "+err.Error(), "bootguard.writePrivKeyToFile", map[string]interface{}{"password_hex": hexs([]byte(pw))})
				continue
			}
			plainPEM := pemOf(kt.k)
			// the wrapped file is nonce ++ AES-256-GCM(SHA-256(pw), nonce, PEM); with an empty password the PEM itself
			kk := sha256.Sum256([]byte(pw))
			okEnc := false
			var st []string
			if pw == "" {
				okEnc = bytes.Equal(enc, plainPEM)
			} else if len(enc) > 12 {
				ct := stdSeal(kk[:], enc[:12], plainPEM)
				okEnc = bytes.Equal(enc[12:], ct)
				st = append(st, fmt.Sprintf("(%s, %s, %s, %s)", bz(kk[:]), bz(enc[:12]), bz(plainPEM), bz(ct)))
			}
			idx := c.Add("encrypt", fmt.Sprintf("CEncrypt %s %s %s %s %s", bzStr(pw), bz(plainPEM), bz(enc),
				gal.List([]string{gal.Pair(bzStr(pw), bz(kk[:]))}), gal.List(st)),
				map[string]interface{}{"key": kt.name, "password_hex": hexs([]byte(pw)), "encrypted": pw != ""}, pw != "")
			if okEnc {
				c.OracleOK()
			} else {
				c.OracleFail(idx, "wrapped private key is not nonce || AES-256-GCM(SHA-256(password), nonce, PKCS#8 PEM)", "bootguard.encryptPrivFile", map[string]interface{}{"password_hex": hexs([]byte(pw)), "file_hex": hexs(enc)})
			}
			if pw == "password" && kt.name == "ecc-p256" {
				sampleEnc = enc
			}
			for _, pw2 := range pws {
				out, k, idx := r.decryptCase("decrypt/pair", enc, pw2, map[string]interface{}{"key": kt.name, "enc_password_hex": hexs([]byte(pw)), "dec_password_hex": hexs([]byte(pw2))}, true)
				want := pw == pw2
				got := out == oOk && samePublic(k, kt.k.Public())
				switch {
				case want && got, !want && out == oErr:
					c.OracleOK()
				case out == oPanic:
					c.OracleFail(idx, "DecryptPrivKey panics instead of returning a key or an error", "bootguard.DecryptPrivKey", map[string]interface{}{"enc_password_hex": hexs([]byte(pw)), "dec_password_hex": hexs([]byte(pw2)), "file_hex": hexs(enc)})
				case want:
					c.OracleFail(idx, "private key does not decrypt with its own password", "bootguard.DecryptPrivKey", map[string]interface{}{"password_hex": hexs([]byte(pw)), "file_hex": hexs(enc), "outcome": out})
				default:
					c.OracleFail(idx, "private key decrypts with a different password", "bootguard.DecryptPrivKey", map[string]interface{}{"enc_password_hex": hexs([]byte(pw)), "dec_password_hex": hexs([]byte(pw2)), "file_hex": hexs(enc)})
				}
			}
		}
	}
	if sampleEnc == nil {
		return
	}
	// tampering with the wrapped file: every bit, truncations, extension
	sampled := 0
	for bit := 0; bit < len(sampleEnc)*8; bit++ {
		mut := flip(sampleEnc, bit)
		var err error
		p, _ := recoverCall(func() { _, err = bootguard.DecryptPrivKey(mut, "password") })
		if !p && err == nil {
			_, _, idx := r.decryptCase("decrypt/tampered-accepted", mut, "password", map[string]interface{}{"bit": bit}, true)
			c.OracleFail(idx, fmt.Sprintf("wrapped private key with bit %d flipped still decrypts", bit), "bootguard.DecryptPrivKey", map[string]interface{}{"bit": bit, "password": "password", "file_hex": hexs(sampleEnc)})
			continue
		}
		c.OracleOK()
		c.Count("decrypt-sweep/bitflip")
		if bit%89 == 0 && sampled < 30 {
			sampled++
			r.decryptCase("decrypt/tampered", mut, "password", map[string]interface{}{"bit": bit}, true)
		}
	}
	for n := 0; n <= 40 && n < len(sampleEnc); n++ {
		for _, pw := range []string{"password", ""} {
			out, _, idx := r.decryptCase("decrypt/truncated", sampleEnc[:n], pw, map[string]interface{}{"length": n, "password": pw}, n >= 12)
			switch out {
			case oOk:
				c.OracleFail(idx, "truncated wrapped key decrypts", "bootguard.DecryptPrivKey", map[string]interface{}{"length": n})
			case oPanic:
				// repaired by 4423a4c: a wrong/short key file is an error value, never a panic
				c.OracleFail(idx, fmt.Sprintf("DecryptPrivKey panics on a key file of %d bytes (password %q) instead of returning an error", n, pw), "bootguard.DecryptPrivKey", map[string]interface{}{"length": n, "password": pw, "file_hex": hexs(sampleEnc[:n])})
			default:
				c.OracleOK()
			}
		}
	}
	for _, mut := range [][]byte{append(append([]byte(nil), sampleEnc...), 0), sampleEnc[:len(sampleEnc)-1], append([]byte{0}, sampleEnc...), sampleEnc[1:]} {
		out, _, idx := r.decryptCase("decrypt/resized", mut, "password", map[string]interface{}{"length": len(mut)}, true)
		if out == oOk {
			c.OracleFail(idx, "resized wrapped key decrypts", "bootguard.DecryptPrivKey", map[string]interface{}{"file_hex": hexs(mut)})
		} else {
			c.OracleOK()
		}
	}
	// a clear-text key given a password: must not be taken as is
	out, _, idx := r.decryptCase("decrypt/plain-with-password", pemOf(ec), "password", map[string]interface{}{}, true)
	if out == oOk {
		c.OracleFail(idx, "clear-text PEM accepted although a password was given", "bootguard.DecryptPrivKey", nil)
	} else {
		c.OracleOK()
	}
}
