// C18 correspondence harness: pkg/provisioning/bootguard (sign / verify / binding /
// private-key wrapping) against Model/Manifest.v, plus the finite sweeps that carry
// the assurance for the clauses resting on third-party crypto and codecs.
package main

import (
	"bytes"
	"crypto/ecdsa"
	"crypto/rsa"
	"fmt"
	"os"
	"time"

	"github.com/9elements/converged-security-suite/v2/pkg/provisioning/bootguard"
	"github.com/linuxboot/fiano/pkg/intel/metadata/bg/bgbootpolicy"
	"github.com/linuxboot/fiano/pkg/intel/metadata/cbnt"
	"github.com/linuxboot/fiano/pkg/intel/metadata/cbnt/cbntbootpolicy"
	log "github.com/sirupsen/logrus"
	"verifharness/gal"
)

const header = "From CSS Require Import Lib.Base Lib.Cases Model.Manifest Model.ManifestOrder Model.ManifestCases.\nFrom Coq Require Import Init.Byte."

// finding ids (KNOWN_FINDINGS.json, open).  Repaired and therefore ordinary
// failures when they come back: C18-bg10-signbpm-cut (ee4d7c9),
// C18-binding-failopen (24a2a40), the DecryptPrivKey panic on short input (4423a4c).
const (
	fNormalised = "C18-verify-reserialised-normalised-fields"
	fHashLabel  = "C18-cbnt-sign-hash-label"
	fNullPkHash = "C18-cbnt-km-null-pkhash"
)

type signedFile struct {
	name     string
	gen, doc int
	file     []byte
	lay      layout
	desc     shapeDesc
	verifies bool
	by       string // "suite", "artifact" or "harness" (BG 1.0 BPM signed with fiano's SetSignature over [:PMSEOffset()], independently of SignBPM)
}

type run struct {
	c           *gal.Ctx
	keys        map[string]*rsa.PrivateKey   // RSA keys by name (A, B, C: 2048; D, E: 3072)
	ecc         map[string]*ecdsa.PrivateKey // ECC keys by name (P, P2: P-256; Q, Q2: P-224)
	big         chan genResult               // RSA-3072 generation in flight
	sigtab      map[string][]int             // scheme ids fiano signs with, per generation and key
	nosweep     map[string]bool              // signed files left out of the bit-flip sweep
	signed      []*signedFile
	known       map[string]int
	shipLimit   int // largest re-serialisation that still becomes a correspondence case (0: 4096)
	longHex     int // long files written out in full in a failing input so far
	structFails int // failing inputs found by the structural stage (the first thirty are recorded in full)
}

func schemeID(s string) int {
	if s == "RSAPSS" {
		return algRSAPSS
	}
	return algRSASSA
}

func schemeHashOf(scheme int) int {
	if scheme == algRSAPSS {
		return algSHA384
	}
	return algSHA256
}

func hashID(s string) int {
	switch s {
	case "SHA1":
		return algSHA1
	case "SHA256":
		return algSHA256
	case "SHA384":
		return algSHA384
	case "SM3":
		return algSM3
	case "AlgNull":
		return algNull
	}
	return 0
}

func docName(d int) string {
	if d == 0 {
		return "KM"
	}
	return "BPM"
}

// addVerifyCase: NewKM/NewBPM + VerifyKM/VerifyBPM on `file`, with the tables of
// the model filled from fiano directly. Returns the suite's outcome.
func (r *run) addVerifyCase(kind string, doc int, file []byte, descr map[string]interface{}, nontrivial bool) (int, int) {
	out, _ := suiteVerifyFile(doc, file)
	var pp *pman
	var vt []vtEntry
	// the table of the model's [parse] is fiano's own reader on the WHOLE file (refParse
	// calls DetectBGV and Manifest.ReadFrom directly, not NewKM/NewBPM): what the suite's
	// constructors hand to the codec is part of the glue under test
	b, err := func() (b *bootguard.BootGuard, err error) {
		p, _ := recoverCall(func() { b, err = refParse(doc, file) })
		if p {
			return nil, fmt.Errorf("panic")
		}
		return
	}()
	if err == nil && b != nil {
		var pm pman
		var perr error
		p, _ := recoverCall(func() { pm, perr = pmanOf(b, doc) })
		if !p && perr == nil {
			pp = &pm
			seen := map[string]bool{}
			add := func(buf []byte, n int) {
				if n < 0 || n > len(buf) {
					n = len(buf)
				}
				k := string(buf[:n])
				if seen[k] {
					return
				}
				seen[k] = true
				ok := false
				recoverCall(func() { ok = ksVerify(b, doc, buf[:n]) })
				vt = append(vt, vtEntry{append([]byte(nil), buf[:n]...), ok})
			}
			add(pm.ser, pm.keysig)
			add(pm.ser, pm.pmse)
			add(pm.ser, pm.pmseks)
			add(file, pm.keysig)
			add(file, pm.pmse)
		}
	}
	descr["doc"] = docName(doc)
	descr["outcome"] = out
	limit := 4096
	if r.shipLimit > limit {
		limit = r.shipLimit
	}
	if pp != nil && len(pp.ser) > limit {
		// a truncated/garbage file whose count fields make fiano allocate thousands of
		// empty entries: the literal would be megabytes; the oracle still sees the outcome
		r.c.Count("verify/oversized-reserialisation-not-shipped")
		return out, -1
	}
	pl := &pool{}
	fileRef := pl.ref(file)
	lit := pl.wrap(fmt.Sprintf("CVerifyFile %d %s %s %s %s", doc, fileRef, optPman(pp, pl), vtLit(vt, pl), obsUnit(out)))
	idx := r.c.Add(kind, lit, descr, nontrivial)
	return out, idx
}

// prepared: what SignKM/SignBPM are to serialise first -- the manifest with an EMPTY
// signature element.  Computed on a copy, so that a signed BPM object that is signed
// again reaches the code under test as it is (old key and signature still in place).
func prepared(b *bootguard.BootGuard, doc int) (pman, error) {
	pb := b
	if doc == 1 {
		if genOf(b) == 1 {
			m2 := *b.VData.BGbpm
			m2.PMSE = *bgbootpolicy.NewSignature()
			pb = &bootguard.BootGuard{Version: b.Version, VData: bootguard.VersionedData{BGbpm: &m2}}
		} else {
			m2 := *b.VData.CBNTbpm
			m2.PMSE = *cbntbootpolicy.NewSignature()
			pb = &bootguard.BootGuard{Version: b.Version, VData: bootguard.VersionedData{CBNTbpm: &m2}}
		}
	}
	return pmanOf(pb, doc)
}

// where the documented layout puts the KeySignature of the file SignKM/SignBPM
// produce from the prepared structure, and where the signed portion ends
func signedLayoutOffsets(gen, doc int, pre pman) (ksOff, signedEnd int) {
	switch {
	case doc == 0:
		return pre.keysig, pre.keysig
	case gen == 1:
		return pre.pmse + 9, pre.pmse // "__PMSG__" + version
	}
	return pre.pmse + 12, pre.pmse + 12 // "__PMSG__" + version + var0 + element size
}

// hash algorithms the tool offers for signatures / digests (bg-prov help texts:
// "SHA1, SHA256, SHA384, SM3")
var offeredHash = map[int]bool{algSHA1: true, algSHA256: true, algSHA384: true, algSM3: true}

func isNullAlg(a int) bool { return a == algNull || a == 0 }

// onlyFieldRewritten: the two byte strings differ, and only inside ONE 16-bit
// little-endian field that held `was` and now holds `now`.
func onlyFieldRewritten(before, after []byte, was, now int) bool {
	if len(before) != len(after) {
		return false
	}
	first, last := -1, -1
	for i := range before {
		if before[i] != after[i] {
			if first < 0 {
				first = i
			}
			last = i
		}
	}
	if first < 0 || last-first > 1 {
		return false
	}
	for _, p := range []int{first, first - 1} {
		if p >= 0 && p+2 <= len(before) && last < p+2 && le16(before[p:]) == was && le16(after[p:]) == now {
			return true
		}
	}
	return false
}

// signOne runs SignKM/SignBPM of the suite on b, with the scheme and hash NAMES as
// the caller of bg-prov would give them, and checks the first clause.  The request
// must be one the property covers (RSA-2048/3072 key, a scheme the tool offers for
// the manifest's generation, a hash the tool offers or a null name that leaves the
// choice to the scheme): signing has to succeed and the result has to verify.
func (r *run) signOne(b *bootguard.BootGuard, doc int, scheme, hashName, keyName string, desc shapeDesc, fullSearch bool, name string) *signedFile {
	c := r.c
	key := r.keys[keyName]
	gen := genOf(b)
	desc["scheme"], desc["hash"], desc["key"], desc["keybits"] = scheme, hashName, keyName, key.N.BitLen()
	pre, err := prepared(b, doc)
	if err != nil {
		c.OracleFail(-1, "cannot serialise the constructed manifest: "+err.Error(), "harness", desc)
		return nil
	}
	sch, _ := algByName(gen, scheme)
	// what the tool was ASKED to record as hash algorithm: the hash name for a CBnT
	// BPM, the KM's own PubKeyHashAlg for a CBnT KM; BG 1.0 has no such choice
	reqID := 0
	switch {
	case gen == 2 && doc == 1:
		reqID, _ = algByName(2, hashName)
	case gen == 2 && doc == 0:
		reqID = pre.pkhash
	}
	reqNull := isNullAlg(reqID)
	var out []byte
	var serr error
	p, pmsg := recoverCall(func() {
		if doc == 0 {
			out, serr = b.SignKM(scheme, key)
		} else {
			out, serr = b.SignBPM(scheme, hashName, key)
		}
	})
	if p || serr != nil {
		o := oErr
		if p {
			o = oPanic
		}
		idx := r.entryCase(gen, doc, pre, scheme, hashName, keyName, o, 0, 0, desc)
		c.OracleFail(idx, fmt.Sprintf("Sign%s failed on a supported key/scheme/hash request (%s, %q): panic=%v %s err=%v", docName(doc), scheme, hashName, p, pmsg, serr), "bootguard.Sign"+docName(doc), desc)
		return nil
	}
	// independent layout of the produced file
	ksOff, signedEnd := signedLayoutOffsets(gen, doc, pre)
	lay, lerr := parseLayout(out, gen, doc, signedEnd, ksOff)
	if lerr != nil {
		c.OracleFail(-1, "signed file does not have the documented layout: "+lerr.Error(), "bootguard.Sign"+docName(doc), desc)
		return nil
	}
	lens := signedLens(pre.ser, out, lay, schemeHashOf(sch), []int{signedEnd, pre.keysig, pre.pmse, pre.pmseks}, fullSearch)
	sl := -1
	if len(lens) == 1 {
		sl = lens[0]
	}
	lit := fmt.Sprintf("CSign %d %d %s %d %d %d %d", gen, doc, pman{nil, pre.keysig, pre.pmse, pre.pmseks, pre.pkhash}.lit(), sch, reqID, sl, lay.hashAlg)
	d2 := shapeDesc{}
	for k, v := range desc {
		d2[k] = v
	}
	d2["signed_len"], d2["stored_hash"], d2["expected_signed_len"], d2["requested_hash"] = sl, lay.hashAlg, signedEnd, reqID
	idx := c.Add(fmt.Sprintf("sign/gen%d-%s", gen, docName(doc)), lit, d2, true)
	r.entryCase(gen, doc, pre, scheme, hashName, keyName, oOk, sl, lay.hashAlg, d2)

	sf := &signedFile{name: name, gen: gen, doc: doc, file: out, lay: lay, desc: d2, by: "suite"}
	vout, _ := r.addVerifyCase(fmt.Sprintf("verify/signed-gen%d-%s", gen, docName(doc)), doc, out, map[string]interface{}{"file": "suite-signed " + name, "shape": desc}, true)
	sf.verifies = vout == oOk
	raw := lay.rawValid(out)
	input := map[string]interface{}{"shape": d2, "signed_file_hex": hexs(out)}
	// the signed portion as the file stores it is what was serialised before signing
	stable := len(out) >= signedEnd && len(pre.ser) >= signedEnd && bytes.Equal(out[:signedEnd], pre.ser[:signedEnd])
	hn := map[int]string{algSHA1: "SHA1", algSHA256: "SHA256", algSHA384: "SHA384", algSM3: "SM3", algNull: "AlgNull", 0: "AlgUnknown"}
	switch {
	case vout == oOk && raw && sl == signedEnd:
		c.OracleOK()
	case vout == oOk && !raw:
		c.OracleFail(idx, "suite accepts its own signed file although the stored signature is not valid (crypto/rsa) for the stored signed portion", "bootguard.Verify"+docName(doc), input)
	case gen == 1 && doc == 1 && sl != signedEnd && vout != oOk:
		// the repaired defect C18-bg10-signbpm-cut (or a relative of it): an ordinary failure
		c.OracleFail(idx, fmt.Sprintf("BG 1.0 BPM signed by the suite does not verify with the suite: SignBPM signed the first %v bytes (PMSE.KeySignatureOffset() = %d), VerifyBPM checks the first %d (PMSEOffset()); the signature must cover the manifest up to the signature element", lens, pre.pmseks, signedEnd), "bootguard.SignBPM", input)
	case gen == 2 && vout == oErr && sl == signedEnd && stable && lay.scheme == sch &&
		!reqNull && offeredHash[reqID] && reqID != schemeHashOf(sch) && lay.hashAlg == reqID:
		// EXACTLY the open finding: the pair the tool was asked for -- an explicit hash the
		// tool offers that is not the digest fiano hard-wires for the scheme -- was recorded
		// as asked, and cannot verify because the signature is over the scheme's own digest
		r.known[fHashLabel]++
		c.OracleFailKnown(idx, fHashLabel, fmt.Sprintf("CBnT %s signed with %s/%s does not verify: the signature is over the %s digest the scheme hard-wires but Signature.HashAlg says %#x", docName(doc), scheme, hn[reqID], hn[schemeHashOf(sch)], lay.hashAlg), "bootguard.Sign"+docName(doc), input)
	case gen == 2 && doc == 0 && vout == oErr && sl == signedEnd && lay.scheme == sch &&
		reqNull && lay.hashAlg == schemeHashOf(sch) &&
		len(out) >= signedEnd && len(pre.ser) >= signedEnd && onlyFieldRewritten(pre.ser[:signedEnd], out[:signedEnd], pre.pkhash, lay.hashAlg):
		// EXACTLY the open finding: the label is the scheme's own digest (nothing wrong with
		// it), the only change in the signed portion is the PubKeyHashAlg field, rewritten
		// from null to that label after the signature was computed
		r.known[fNullPkHash]++
		c.OracleFailKnown(idx, fNullPkHash, "CBnT KM with a null PubKeyHashAlg does not verify after SignKM: SetSignature overwrites the (signed) PubKeyHashAlg field after the signature was computed", "bootguard.SignKM", input)
	case gen == 2 && vout != oOk && sl == signedEnd && reqNull && lay.hashAlg != schemeHashOf(sch):
		c.OracleFail(idx, fmt.Sprintf("CBnT %s signed with %s and the hash choice left to the scheme (%s) does not verify: the signature is over the %s digest of the signed portion, but the signature element names hash algorithm %#x -- the suite replaced the null request by an algorithm of its own before signing", docName(doc), scheme, map[bool]string{true: fmt.Sprintf("hash name %q", hashName), false: fmt.Sprintf("PubKeyHashAlg %#x", reqID)}[doc == 1], hn[schemeHashOf(sch)], lay.hashAlg), "bootguard.Sign"+docName(doc), input)
	case gen == 2 && vout != oOk && sl == signedEnd && !reqNull && lay.hashAlg != reqID:
		c.OracleFail(idx, fmt.Sprintf("CBnT %s signed with %s/%s does not verify and the signature element names hash algorithm %#x, not the requested one: the suite changed the requested algorithm", docName(doc), scheme, hn[reqID], lay.hashAlg), "bootguard.Sign"+docName(doc), input)
	default:
		c.OracleFail(idx, fmt.Sprintf("manifest signed by the suite (a file of %d bytes ending with byte %#02x) does not verify with the suite (outcome %d, signature covers %v bytes, expected %d, raw-valid %v, requested hash %#x, stored hash %#x, signed portion as serialised before signing: %v)", len(out), out[len(out)-1], vout, lens, signedEnd, raw, reqID, lay.hashAlg, stable), "bootguard.Sign"+docName(doc)+"/Verify"+docName(doc), input)
	}
	r.signed = append(r.signed, sf)
	return sf
}

func main() {
	log.SetOutput(os.Stderr)
	log.SetLevel(log.PanicLevel) // the default: branches log an error per call
	c := gal.New("C18", header, 60)
	defer func() {
		if rec := recover(); rec != nil {
			fmt.Println("harness panic:", rec)
			panic(rec)
		}
	}()
	r := &run{c: c, keys: map[string]*rsa.PrivateKey{}, ecc: map[string]*ecdsa.PrivateKey{}, known: map[string]int{}, sigtab: map[string][]int{}, nosweep: map[string]bool{}}
	t0 := time.Now()
	// the process configuration as the harness finds it, before any call of the package
	c.Add("session/configuration", fmt.Sprintf("CConf lib_default_conf %s []", confLit()), map[string]interface{}{"at": "process start"}, true)
	r.makeKeys()
	c.Rep.Extra["keygen_seconds"] = time.Since(t0).Seconds()

	stage := map[string]float64{}
	timed := func(name string, f func()) {
		t := time.Now()
		f()
		stage[name] = time.Since(t).Seconds()
	}
	timed("signAll", r.signAll)
	timed("artifacts", r.artifacts)
	timed("extremes", r.extremes)
	timed("sweeps", r.sweeps)
	timed("structural", r.structural)
	timed("binding", r.binding)
	timed("lifecycles", r.lifecycles)
	timed("passwords", r.passwords)
	timed("detectAndStruct", r.detectAndStruct)
	c.Rep.Extra["stage_seconds"] = stage

	c.Rep.Extra["known_finding_hits"] = r.known
	c.Rep.Extra["seconds"] = time.Since(t0).Seconds()
	c.Finish("BG 1.0 and CBnT 2.0 KM/BPM built with fiano constructors + bootguard.NewVData/GetBPMPubHash (random SVN/ID/revision/flags, 0-4 KM hashes, 0-6 IBB segments, 1-3 digests, optional TXT/PCD/PM/reserved elements), signed by SignKM/SignBPM with EVERY key size the tool generates in EVERY tier (RSA-2048 and RSA-3072 from GenRSAKey, as KM key and as BPM key, and both mixed-size pairs) x {RSASSA,RSAPSS} x {SHA256,SHA384,SHA1,SM3} and verified by NewKM/NewBPM+VerifyKM/VerifyBPM; " +
		"the signing entry points called with NAMES in any letter case: null/unknown hash names (ALGNULL, ALGUNKNOWN) for the CBnT SignBPM with both schemes and both key sizes, null/unknown PubKeyHashAlg for the CBnT SignKM, hash arguments of the BG 1.0 SignBPM (which has no hash choice), scheme names the tool does not offer (refused, or signed so that it verifies), names that are not hashes and ECC P-224/P-256 keys from GenECCKey (outside the quantifier: counted; nothing unverifiable may be accepted); the two GetAlgFromString tables on 46 names; " +
		"the two far ends of the domain of a signed FILE: LENGTH -- BG 1.0 and CBnT BPMs with up to 255 IBB segments and a platform data element sized so that the signed file has exactly 2^k-1, 2^k, 2^k+1 bytes for every k from 11 up to 16 (BG 1.0) resp. 15 (CBnT, plus a 61000-byte file: the signature offset is a 16-bit field), CBnT KMs with 30..1300 hash entries (1.9..58 KiB), RSA-2048 and RSA-3072, both schemes, explicit and null hash names, each signed by the suite and judged through NewX+VerifyX, NewX+WriteX == file, NewBPMAndKM with a verifying partner, bit flips next to every 2^k position / at the end of the signed data / in the last byte of the file (files up to 9000 bytes are correspondence cases too); CONTENT at the end of the file -- series of 1200 (thorough: 4000) ordinary manifests of each of the four kinds signed by the suite (8 workers), every one judged (NewX+VerifyX, crypto/rsa on the stored bytes, NewX+WriteX == file), so that the last byte of the file runs through practically all 256 values (0xFF, 0x00, white space ...; reached values are in extra.series) and the signature value starts with 0x00 in some; the first file per kind ending with 0xff/0x00/0x20/0x0a or whose signature starts with 0x00/0xff becomes a correspondence case; the [parse] table of EVERY verify-file case is fiano's reader called by the harness on the whole file (DetectBGV + Manifest.ReadFrom, not NewKM/NewBPM), keyed by the file bytes; " +
		"STRUCTURAL mutants of signed BPMs of both generations (rich manifests with every optional element and one or two IBB elements, RSA-2048 and RSA-3072, plus BPMs of the signing stage), cut at the documented structure IDs: every exchange of neighbouring elements (header and signature element included), wider exchanges, reversal, moves, every element left out, repeated behind itself and elsewhere, a chunk of StructInfo size with an unknown structure ID at every boundary (also several, with an exchange, with a payload) -- judged through NewBPM, NewBPMAndKM and NewBPMAndKMFromBIOS (file inside a hand-written firmware image) + VerifyBPM; SESSIONS: one per hardware-free entry point of pkg/provisioning/bootguard (42), the entry point called with every generation x argument variant (succeeding and failing calls: missing / random / valid images, manifests with exchanged elements, truncated KMs, unknown names, nil arguments), other entry points in between, and after EVERY call a panel (signed BPM of each generation, 6 structural mutants of each incl. an exchange of neighbours, bit-flipped BPMs, a signed KM and a bit-flipped KM) judged again; the same mutants under the configuration the tools' main() sets up by default (cbnt.StrictOrderCheck=false); the process configuration read after every call; " +
		"single-bit mutants of signed files (quick: per kind and key size all bits of 2 resp. 1 files, a stride over 3 more; thorough: all bits of every file); KM x BPM key pairs over five keys of both sizes for KMHasBPMHash/BPMKeyMatchKMHash, on structures and through NewBPMAndKM on files; life cycles of ONE manifest object (KM: fresh / without hash / parsed from a signed file / written and read back / the shipped artifact, then 3-8 steps of GetBPMPubHash with another key (either size, ECC P-256) or algorithm, failing GetBPMPubHash calls (unknown name, non-hash name, null name, empty name, ed25519 and P-224 keys), SignKM, WriteKM+NewKM, KMSVN change, ending with SignKM; BPM: signed (explicit or null hash name), re-read, BPMSVN change, signed again with another key/scheme) with the binding check on the structures after every GetBPMPubHash and through NewBPMAndKM on the files after every signing, judged against the LAST key placed / LAST signer (ECC: must fail closed), plus Verify on the object and on its written file after every change; 13x13 password pairs, bit flips and truncations of the wrapped key; DetectBGV and unknown-Version cases. " +
		"A case is non-trivial when it reaches a signature/hash/AEAD decision; distinct = distinct Gallina literal. Sweeps are oracle checks; a sample of mutants becomes correspondence cases.")
}

// the embedded test material shipped with the repository
func (r *run) artifacts() {
	c := r.c
	repo := os.Getenv("VERIF_REPO")
	if repo == "" {
		repo = "/repo"
	}
	for _, n := range []string{"km.signed", "km.unsigned"} {
		data, err := os.ReadFile(repo + "/pkg/provisioning/bootguard/test_artifacts/" + n)
		if err != nil {
			c.Count("artifact-missing")
			continue
		}
		out, _ := r.addVerifyCase("verify/artifact", 0, data, map[string]interface{}{"file": "test_artifacts/" + n}, true)
		c.Rep.Extra["artifact_"+n] = out
		if n == "km.signed" && out == oOk {
			// a verifying KM of unknown provenance: usable for the tamper sweep
			if b, err := bootguard.NewKM(bytes.NewReader(data)); err == nil {
				pm, _ := pmanOf(b, 0)
				if lay, err := parseLayout(data, genOf(b), 0, pm.keysig, pm.keysig); err == nil && lay.rawValid(data) {
					r.signed = append(r.signed, &signedFile{name: "artifact-km.signed", gen: genOf(b), doc: 0, file: data, lay: lay, desc: shapeDesc{"file": "test_artifacts/km.signed"}, verifies: true, by: "artifact"})
				}
			}
		}
	}
	_ = cbnt.AlgNull
}
