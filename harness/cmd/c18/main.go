package main

import (
	"bytes"
	"crypto/rand"
	"crypto/rsa"
	"fmt"

	"github.com/9elements/converged-security-suite/v2/pkg/provisioning/bootguard"
	"github.com/linuxboot/fiano/pkg/intel/metadata/bg"
	"github.com/linuxboot/fiano/pkg/intel/metadata/bg/bgbootpolicy"
	"github.com/linuxboot/fiano/pkg/intel/metadata/bg/bgkey"
	"github.com/linuxboot/fiano/pkg/intel/metadata/cbnt"
	"github.com/linuxboot/fiano/pkg/intel/metadata/cbnt/cbntbootpolicy"
	"github.com/linuxboot/fiano/pkg/intel/metadata/cbnt/cbntkey"
	"github.com/linuxboot/fiano/pkg/intel/metadata/common/bgheader"
)

func must(err error) {
	if err != nil {
		panic(err)
	}
}

func sweep(name string, file []byte, verify func([]byte) error) {
	acc := []int{}
	for i := 0; i < len(file)*8; i++ {
		m := append([]byte(nil), file...)
		m[i/8] ^= 1 << (i % 8)
		var err error
		func() {
			defer func() {
				if r := recover(); r != nil {
					err = fmt.Errorf("panic %v", r)
				}
			}()
			err = verify(m)
		}()
		if err == nil {
			acc = append(acc, i)
		}
	}
	fmt.Printf("%s: len %d, accepted mutants: %d: ", name, len(file), len(acc))
	last := -2
	for _, a := range acc {
		if a/8 != last {
			fmt.Printf(" byte%d:", a/8)
			last = a / 8
		}
		fmt.Printf("%d", a%8)
	}
	fmt.Println()
}

func verifyKM(b []byte) error {
	g, err := bootguard.NewKM(bytes.NewReader(b))
	if err != nil {
		return err
	}
	return g.VerifyKM()
}
func verifyBPM(b []byte) error {
	g, err := bootguard.NewBPM(bytes.NewReader(b))
	if err != nil {
		return err
	}
	return g.VerifyBPM()
}

func main() {
	kA, _ := rsa.GenerateKey(rand.Reader, 2048)
	kB, _ := rsa.GenerateKey(rand.Reader, 2048)
	// ---- BG 1.0 KM
	{
		var b bootguard.BootGuard
		b.Version = bgheader.Version10
		b.VData.BGkm = bgkey.NewManifest()
		b.VData.BGkm.KMSVN = 3
		b.VData.BGkm.KMID = 7
		must(b.GetBPMPubHash(kB.Public(), "SHA256"))
		must(b.VData.BGkm.KeyAndSignature.Key.SetPubKey(kA.Public()))
		un, err := b.WriteKM()
		must(err)
		fmt.Println("bg km unsigned len", len(un), "kso", b.VData.BGkm.KeyAndSignatureOffset())
		g, err := bootguard.NewKM(bytes.NewReader(un))
		must(err)
		signed, err := g.SignKM("RSASSA", kA)
		must(err)
		fmt.Println("bg km verify:", verifyKM(signed))
		sweep("bgkm", signed, verifyKM)
		// BPM
		var p bootguard.BootGuard
		p.Version = bgheader.Version10
		p.VData.BGbpm = bgbootpolicy.NewManifest()
		p.VData.BGbpm.BPMH = *bgbootpolicy.NewBPMH()
		p.VData.BGbpm.BPMSVN = 2
		p.VData.BGbpm.SE = make([]bgbootpolicy.SE, 1)
		p.VData.BGbpm.SE[0] = *bgbootpolicy.NewSE()
		p.VData.BGbpm.SE[0].Digest.HashAlg = bg.AlgSHA256
		p.VData.BGbpm.SE[0].Digest.HashBuffer = make([]byte, 32)
		p.VData.BGbpm.SE[0].IBBSegments = []bgbootpolicy.IBBSegment{{Flags: 0, Base: 0xfff00000, Size: 0x1000}}
		unb, err := p.WriteBPM()
		must(err)
		fmt.Println("bg bpm unsigned len", len(unb), "pmseoff", p.VData.BGbpm.PMSEOffset(), "ksoff", p.VData.BGbpm.PMSE.KeySignatureOffset())
		gp := &p
		_ = unb
		{
			sb, err := gp.SignBPM("RSASSA", "SHA256", kB)
			fmt.Println("SignBPM err", err, len(sb))
			if err == nil {
				fmt.Println("bg bpm verify:", verifyBPM(sb))
				sweep("bgbpm", sb, verifyBPM)
				both, err := bootguard.NewBPMAndKM(bytes.NewReader(sb), bytes.NewReader(signed))
				must(err)
				ok, err := both.BPMKeyMatchKMHash()
				fmt.Println("match:", ok, err)
			}
		}
	}
	// ---- CBnT KM
	for _, sa := range []string{"RSASSA", "RSAPSS"} {
		for _, ha := range []string{"SHA256", "SHA384", "SHA1", "AlgNull"} {
			var b bootguard.BootGuard
			b.Version = bgheader.Version20
			b.VData.CBNTkm = cbntkey.NewManifest()
			b.VData.CBNTkm.KMSVN = 3
			b.VData.CBNTkm.KMID = 7
			b.VData.CBNTkm.PubKeyHashAlg, _ = cbnt.GetAlgFromString(ha)
			must(b.GetBPMPubHash(kB.Public(), "SHA256"))
			must(b.VData.CBNTkm.KeyAndSignature.Key.SetPubKey(kA.Public()))
			un, err := b.WriteKM()
			must(err)
			g, err := bootguard.NewKM(bytes.NewReader(un))
			must(err)
			signed, err := g.SignKM(sa, kA)
			if err != nil {
				fmt.Println("cbnt km", sa, ha, "sign err", err)
				continue
			}
			fmt.Println("cbnt km", sa, ha, "verify:", verifyKM(signed))
			if sa == "RSASSA" && ha == "SHA256" {
				sweep("cbntkm", signed, verifyKM)
			}
			var p bootguard.BootGuard
			p.Version = bgheader.Version20
			p.VData.CBNTbpm = cbntbootpolicy.NewManifest()
			p.VData.CBNTbpm.SE = make([]cbntbootpolicy.SE, 1)
			p.VData.CBNTbpm.SE[0] = *cbntbootpolicy.NewSE()
			p.VData.CBNTbpm.SE[0].DigestList.List = []cbnt.HashStructure{{HashAlg: cbnt.AlgSHA256, HashBuffer: make([]byte, 32)}}
			p.VData.CBNTbpm.SE[0].DigestList.Size = 1
			p.VData.CBNTbpm.SE[0].IBBSegments = []cbntbootpolicy.IBBSegment{{Flags: 0, Base: 0xfff00000, Size: 0x1000}}
			p.VData.CBNTbpm.TXTE = cbntbootpolicy.NewTXT()
			unb, err := p.WriteBPM()
			must(err)
			gp := &p
			gp2, err := bootguard.NewBPM(bytes.NewReader(unb[:p.VData.CBNTbpm.KeySignatureOffset]))
			fmt.Println("cbnt NewBPM(cut):", err, gp2 != nil)
			sb, err := gp.SignBPM(sa, ha, kB)
			if err != nil {
				fmt.Println("cbnt bpm", sa, ha, "sign err", err)
				continue
			}
			fmt.Println("cbnt bpm", sa, ha, "verify:", verifyBPM(sb))
			if sa == "RSASSA" && ha == "SHA256" {
				sweep("cbntbpm", sb, verifyBPM)
				both, err := bootguard.NewBPMAndKM(bytes.NewReader(sb), bytes.NewReader(signed))
				must(err)
				ok, err := both.BPMKeyMatchKMHash()
				fmt.Println("match:", ok, err)
			}
		}
	}
}
