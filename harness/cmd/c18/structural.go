package main

// Structural mutants of signed boot policy manifests, judged in a process with a
// HISTORY and under the CONFIGURATIONS the suite's tools run with.
//
// A boot policy manifest file is a sequence of elements (header, IBB element(s),
// optional TXT / reserved / platform-config / platform-manufacturer elements,
// signature element), each starting with an 8-byte structure ID.  The bit-flip
// sweep never produces a file in which whole elements were exchanged, repeated,
// left out, or in which a chunk with a structure ID no reader knows was put
// between two elements; and no other stage asks whether the verdict on a file
// depends on what ELSE the process did before (other entry points of
// pkg/provisioning/bootguard, succeeding or failing) or on the process-wide
// configuration the tools set up in main().
//
// The oracle is written from the property text only: "a manifest file is accepted
// by verification only if the signature is valid for the signed portion of the
// file exactly as stored" -- for every file judged here the harness locates the
// signature element in the file's own bytes (last "__PMSG__"), takes everything
// in front of it as the signed portion as stored (document #575623: up to and
// including the signature element's header for CBnT, up to the signature element
// for BG 1.0), and asks crypto/rsa whether the stored signature is valid for it
// under the stored key.  The verdict is a function of the file's bytes: it must
// not change with the history of the process; and "a manifest signed by the suite
// verifies with the suite" holds in every state of the process as well.
//
// Model side (Model/ManifestOrder.v): the process configuration carried through
// the history ([ep_conf]: no entry point writes it -- CConf cases hold what the
// harness read from fiano's two package variables after every call), and the
// element loop of fiano's generated Manifest.ReadFrom together with the order
// WriteTo writes in ([order_verdict] -- COrder cases: the suite's verdict on a
// file put together from whole elements must be the model's).

import (
	"bytes"
	"crypto/rsa"
	"encoding/binary"
	"fmt"
	"math/rand"
	"os"
	"path/filepath"
	"strings"
	"time"

	"github.com/9elements/converged-security-suite/v2/pkg/provisioning/bootguard"
	"github.com/9elements/converged-security-suite/v2/pkg/tools"
	"github.com/linuxboot/fiano/pkg/intel/metadata/bg"
	"github.com/linuxboot/fiano/pkg/intel/metadata/bg/bgbootpolicy"
	"github.com/linuxboot/fiano/pkg/intel/metadata/cbnt"
	"github.com/linuxboot/fiano/pkg/intel/metadata/cbnt/cbntbootpolicy"
	"github.com/linuxboot/fiano/pkg/intel/metadata/common/bgheader"
	"verifharness/gal"
)

// open findings of the unchanged code this stage reconfirms (KNOWN_FINDINGS.json)
const (
	fSkipped  = "C18-verify-unknown-element-skipped"
	fOrderOff = "C18-verify-element-order-unchecked-by-default"
)

// the documented order of the elements of a boot policy manifest
var elemOrder = map[int][]string{
	1: {"__ACBP__", "__IBBS__", "__PMDA__", "__PMSG__"},
	2: {"__ACBP__", "__IBBS__", "__TXTS__", "__PFRS__", "__PCDS__", "__PMDA__", "__PMSG__"},
}

// only the IBB element may occur more than once
const kindSE = 1

func structInfoSize(gen int) int {
	if gen == 1 {
		return 9 // ID + version
	}
	return 12 // ID + version + variable + element size
}

func kindOfID(gen int, id string) int {
	for i, n := range elemOrder[gen] {
		if n == id {
			return i
		}
	}
	return -1
}

func sigKind(gen int) int { return len(elemOrder[gen]) - 1 }

// elt: one element of a file.  kind = position of its structure ID in the
// documented order (-1: an ID no reader knows), uid = number of the element in
// the signed file it was taken from (>= 100: a chunk the harness made up).
type elt struct {
	kind, uid int
	data      []byte
	whole     bool // a whole element of the signed file, or a made-up chunk of exactly StructInfo size
}

func looksLikeID(b []byte) bool {
	if len(b) < 8 || b[0] != '_' || b[1] != '_' || b[6] != '_' || b[7] != '_' {
		return false
	}
	for _, c := range b[2:6] {
		if c < 'A' || c > 'Z' {
			return false
		}
	}
	return true
}

// splitBPM cuts a signed BPM at the structure IDs it contains.  ok only when the
// file is what the layout says: header first, known IDs in documented order, the
// signature element last.
func splitBPM(gen int, file []byte) ([]elt, bool) {
	var pos []int
	for i := 0; i+8 <= len(file); i++ {
		if looksLikeID(file[i:]) {
			pos = append(pos, i)
			if string(file[i:i+8]) == "__PMSG__" {
				break // key and signature bytes follow
			}
		}
	}
	if len(pos) < 3 || pos[0] != 0 {
		return nil, false
	}
	var els []elt
	prev := -1
	for i, p := range pos {
		end := len(file)
		if i+1 < len(pos) {
			end = pos[i+1]
		}
		k := kindOfID(gen, string(file[p:p+8]))
		if k < 0 || k < prev || (k == prev && k != kindSE) {
			return nil, false
		}
		prev = k
		els = append(els, elt{kind: k, uid: i, data: file[p:end], whole: true})
	}
	if els[0].kind != 0 || els[len(els)-1].kind != sigKind(gen) {
		return nil, false
	}
	return els, true
}

func joinElts(els []elt) []byte {
	var out []byte
	for _, e := range els {
		out = append(out, e.data...)
	}
	return out
}

func eltsLit(els []elt) string {
	s := make([]string, len(els))
	for i, e := range els {
		s[i] = fmt.Sprintf("(%s, %d)", gal.Z(int64(e.kind)), e.uid)
	}
	return gal.List(s)
}

func eltsHuman(gen int, els []elt) []string {
	var s []string
	off := 0
	for _, e := range els {
		id := "(unknown ID)"
		if len(e.data) >= 8 {
			id = fmt.Sprintf("%q", e.data[:8])
		}
		src := fmt.Sprintf("element %d of the signed file", e.uid)
		if e.uid >= 100 {
			src = "chunk made up by the harness"
		}
		s = append(s, fmt.Sprintf("offset %d: %s, %d bytes (%s)", off, id, len(e.data), src))
		off += len(e.data)
	}
	return s
}

// ---- structural mutants ----

type smut struct {
	name string
	els  []elt
}

func (m smut) modelled() bool {
	for _, e := range m.els {
		if !e.whole {
			return false
		}
	}
	return true
}

// the known elements are the signed elements in the signed order, and every other
// piece is a made-up chunk of StructInfo size with an unknown ID
func (m smut) onlyUnknownChunksAdded(orig []elt) bool {
	i, added := 0, 0
	for _, e := range m.els {
		switch {
		case e.kind >= 0:
			if i >= len(orig) || e.uid != orig[i].uid {
				return false
			}
			i++
		case e.whole:
			added++
		default:
			return false
		}
	}
	return i == len(orig) && added > 0
}

// the known elements follow the documented order (only the IBB element repeats)
func (m smut) inDocumentedOrder() bool {
	prev := -1
	for _, e := range m.els {
		if e.kind < 0 {
			continue
		}
		if e.kind < prev || (e.kind == prev && e.kind != kindSE) {
			return false
		}
		prev = e.kind
	}
	return true
}

func junkChunk(rg *rand.Rand, gen int, version byte, uid int, payload int) elt {
	d := make([]byte, structInfoSize(gen)+payload)
	for {
		id := fmt.Sprintf("__%c%c%c%c__", 'A'+rg.Intn(26), 'A'+rg.Intn(26), 'A'+rg.Intn(26), 'A'+rg.Intn(26))
		if kindOfID(gen, id) < 0 && id != "__KEYM__" {
			copy(d, id)
			break
		}
	}
	if rg.Intn(4) == 0 {
		// an ID that does not even look like one
		copy(d, rbytes(rg, 8))
		d[0] |= 0x80
	}
	d[8] = version
	if gen == 2 {
		d[9] = byte(rg.Intn(2))
		binary.LittleEndian.PutUint16(d[10:], uint16(len(d)))
	}
	for i := structInfoSize(gen); i < len(d); i++ {
		d[i] = byte(rg.Intn(256))
	}
	return elt{kind: -1, uid: uid, data: d, whole: payload == 0}
}

func cloneElts(e []elt) []elt { return append([]elt(nil), e...) }

func insertElt(els []elt, at int, e elt) []elt {
	out := append([]elt(nil), els[:at]...)
	out = append(out, e)
	return append(out, els[at:]...)
}

// structuralMutants: every adjacent exchange, every deletion, every repetition and
// every position for an unknown chunk, plus a random sample of wider rearrangements.
func structuralMutants(rg *rand.Rand, gen int, orig []elt, full bool) []smut {
	n := len(orig)
	var ms []smut
	add := func(name string, els []elt) {
		if !bytes.Equal(joinElts(els), joinElts(orig)) {
			ms = append(ms, smut{name, els})
		}
	}
	idOf := func(e elt) string { return string(e.data[:8]) }
	for i := 0; i+1 < n; i++ {
		e := cloneElts(orig)
		e[i], e[i+1] = e[i+1], e[i]
		add(fmt.Sprintf("elements %d (%s) and %d (%s) exchanged", i, idOf(orig[i]), i+1, idOf(orig[i+1])), e)
	}
	for t := 0; t < 3 && n > 3; t++ {
		i := rg.Intn(n)
		j := rg.Intn(n)
		if i == j || i+1 == j || j+1 == i {
			continue
		}
		e := cloneElts(orig)
		e[i], e[j] = e[j], e[i]
		add(fmt.Sprintf("elements %d (%s) and %d (%s) exchanged", i, idOf(orig[i]), j, idOf(orig[j])), e)
	}
	if n > 3 {
		// the elements between header and signature element in reverse order / rotated
		e := cloneElts(orig)
		for i, j := 1, n-2; i < j; i, j = i+1, j-1 {
			e[i], e[j] = e[j], e[i]
		}
		add("elements between header and signature element in reverse order", e)
		e = append(append(append([]elt{}, orig[0]), orig[2:n-1]...), orig[1], orig[n-1])
		add("element 1 moved in front of the signature element", e)
		e = append(append(append([]elt{}, orig[0], orig[n-2]), orig[1:n-2]...), orig[n-1])
		add(fmt.Sprintf("element %d moved behind the header", n-2), e)
	}
	for i := 1; i+1 < n; i++ {
		e := append(cloneElts(orig[:i]), orig[i+1:]...)
		add(fmt.Sprintf("element %d (%s) left out", i, idOf(orig[i])), e)
		// repeated: directly behind itself, and somewhere else
		add(fmt.Sprintf("element %d (%s) repeated directly behind itself", i, idOf(orig[i])), insertElt(orig, i+1, orig[i]))
		at := 1 + rg.Intn(n-1)
		if at != i && at != i+1 {
			add(fmt.Sprintf("element %d (%s) repeated in front of element %d", i, idOf(orig[i]), at), insertElt(orig, at, orig[i]))
		}
	}
	ver := orig[0].data[8]
	uid := 100
	for at := 0; at <= n; at++ {
		if !full && at != 0 && at != n && rg.Intn(2) == 0 {
			continue
		}
		uid++
		where := "behind the signature element"
		if at < n {
			where = fmt.Sprintf("in front of element %d (%s)", at, idOf(orig[at]))
		}
		add(fmt.Sprintf("chunk of StructInfo size (%d bytes) with an unknown structure ID %s", structInfoSize(gen), where), insertElt(orig, at, junkChunk(rg, gen, ver, uid, 0)))
	}
	if n > 2 {
		// two chunks; a chunk together with an exchange; a chunk with a payload
		a, b := 1+rg.Intn(n-1), 1+rg.Intn(n-1)
		e := insertElt(orig, a, junkChunk(rg, gen, ver, 150, 0))
		add("two chunks with unknown structure IDs", insertElt(e, b, junkChunk(rg, gen, ver, 151, 0)))
		if n > 3 {
			e = cloneElts(orig)
			i := 1 + rg.Intn(n-3)
			e[i], e[i+1] = e[i+1], e[i]
			add(fmt.Sprintf("elements %d and %d exchanged and a chunk with an unknown structure ID", i, i+1), insertElt(e, 1+rg.Intn(n-1), junkChunk(rg, gen, ver, 152, 0)))
		}
		// a chunk with a payload that is not a whole number of StructInfo records (the reader
		// loses its footing: not modelled), and one that is (read as that many records)
		add("chunk with an unknown structure ID and a payload", insertElt(orig, 1+rg.Intn(n-1), junkChunk(rg, gen, ver, 153, 1+rg.Intn(structInfoSize(gen)-1))))
		e = cloneElts(orig)
		at := 1 + rg.Intn(n-1)
		k := 2 + rg.Intn(3)
		for j := 0; j < k; j++ {
			e = insertElt(e, at, junkChunk(rg, gen, ver, 160+j, 0))
		}
		add(fmt.Sprintf("%d chunks of StructInfo size with unknown structure IDs in a row in front of element %d", k, at), e)
	}
	return ms
}

// ---- a session: one process state, one signed file, the things judged in it ----

type sess struct {
	r      *run
	gen    int
	sf     *signedFile
	orig   []elt
	c0     string   // the model's configuration at the start (Gallina)
	cfgOff bool     // the harness switched the CBnT order check off, as the tools' main() does by default
	hist   []string // entry constructors (model)
	human  []string // the same, readable: part of every failing input
	emit   map[string]bool
	global *[]string // every call of the stage so far (phase 1b appends its own)
	ncalls int       // how many calls that is
}

// historyView: the calls made so far as they go into a failing input -- the first
// few and the most recent ones in full (the panel is judged after every call, so
// the call that changed a verdict is among the last)
func historyView(h []string) []string {
	if len(h) <= 40 {
		return append([]string(nil), h...)
	}
	v := append([]string(nil), h[:8]...)
	v = append(v, fmt.Sprintf("... %d more calls (same seed, same order on a re-run) ...", len(h)-32))
	return append(v, h[len(h)-24:]...)
}

func (r *run) newSess(sf *signedFile, orig []elt) *sess {
	return &sess{r: r, gen: sf.gen, sf: sf, orig: orig, c0: "lib_default_conf", emit: map[string]bool{}}
}

func (s *sess) configNote() string {
	if s.cfgOff {
		return "cbnt.StrictOrderCheck = false, assigned by the harness the way main() of bg-prov / bg-suite / txt-prov / txt-suite assigns it when --manifest-strict-order-check is not given (the flag's default)"
	}
	return "process configuration as the libraries initialise it; the harness assigned nothing"
}

func (s *sess) input(name string, file []byte, extra map[string]interface{}) map[string]interface{} {
	m := map[string]interface{}{
		"gen": s.gen, "signed_file": s.sf.name, "signed_file_hex": hexs(s.sf.file), "shape": s.sf.desc,
		"judged_file": name, "judged_file_hex": hexs(file),
		"calls_made_before_in_this_process": append([]string(nil), s.human...),
		"configuration":                     s.configNote(),
	}
	for k, v := range extra {
		m[k] = v
	}
	return m
}

// the signed portion as THIS file stores it, and whether the stored signature is
// valid for it (crypto/rsa)
func bpmRawValid(gen int, file []byte) (bool, int) {
	p := bytes.LastIndex(file, []byte("__PMSG__"))
	if p < 0 {
		return false, -1
	}
	signedEnd, ksOff := p, p+9
	if gen == 2 {
		signedEnd, ksOff = p+12, p+12
	}
	if ksOff > len(file) {
		return false, signedEnd
	}
	lay, err := parseLayout(file, gen, 1, signedEnd, ksOff)
	if err != nil {
		return false, signedEnd
	}
	return lay.rawValid(file), signedEnd
}

func reserialised(doc int, file []byte) []byte {
	var out []byte
	recoverCall(func() {
		if b, err := newDoc(doc, file); err == nil {
			if pm, err := pmanOf(b, doc); err == nil {
				out = pm.ser
			}
		}
	})
	return out
}

// judge one structural mutant (or the signed file itself) in the current state
func (s *sess) judge(m smut, emit bool) int {
	c := s.r.c
	file := joinElts(m.els)
	same := bytes.Equal(file, s.sf.file)
	out, msg := suiteVerifyFile(1, file)
	raw, signedEnd := bpmRawValid(s.gen, file)
	kind := fmt.Sprintf("order/gen%d", s.gen)
	if s.cfgOff {
		kind += "-tool-default-config"
	}
	idx := -1
	if emit && m.modelled() {
		lit := fmt.Sprintf("COrder %d %s %s %s %s %s", s.gen, s.c0, gal.List(s.hist), eltsLit(s.orig), eltsLit(m.els), obsUnit(out))
		if !s.emit[lit] {
			s.emit[lit] = true
			idx = c.Add(kind, lit, map[string]interface{}{"signed_file": s.sf.name, "judged_file": m.name, "elements": eltsHuman(s.gen, m.els), "history": append([]string(nil), s.human...), "configuration": s.configNote(), "outcome": out}, true)
		}
	}
	extra := map[string]interface{}{"elements_of_signed_file": eltsHuman(s.gen, s.orig), "elements_of_judged_file": eltsHuman(s.gen, m.els), "signed_portion_as_stored_ends_at": signedEnd, "suite_says": msg}
	switch {
	case same && out != oOk:
		s.r.failHit(idx, fmt.Sprintf("a BPM signed by the suite does not verify with the suite any more (outcome %d: %s) after %d other call(s) in this process", out, msg, s.ncalls), "bootguard.NewBPM/VerifyBPM", s.input(m.name, file, extra))
	case out != oOk || raw:
		c.OracleOK()
		if out != oOk && raw {
			c.Count("order/valid-for-stored-portion-but-refused")
		}
	default:
		// accepted although the stored signature is not valid for the stored signed portion
		re := reserialised(1, file)
		sameAsSigned := re != nil && bytes.Equal(re, s.sf.file)
		what := fmt.Sprintf("BPM (gen %d) accepted although its signed portion as stored is not what was signed: %s; %d call(s) of other entry points before", s.gen, m.name, s.ncalls)
		switch {
		case m.onlyUnknownChunksAdded(s.orig) && sameAsSigned:
			// EXACTLY the open finding: nothing but chunks of StructInfo size with IDs no
			// reader knows were added, the reader skips them without a trace, and VerifyBPM
			// checks the re-serialisation (= the signed file), not the bytes that were read
			s.r.knownHit(idx, fSkipped, what, "bootguard.NewBPM/VerifyBPM", s.input(m.name, file, extra))
		case s.cfgOff && s.gen == 2 && m.modelled() && sameAsSigned && !m.inDocumentedOrder():
			// EXACTLY the open finding: the harness (as the tools do by default) switched the
			// CBnT order check off, the file consists of whole elements of the signed file out
			// of their documented order, and the re-serialisation is the signed file
			s.r.knownHit(idx, fOrderOff, what, "bootguard.NewBPM/VerifyBPM", s.input(m.name, file, extra))
		default:
			s.r.failHit(idx, what, "bootguard.NewBPM/VerifyBPM", s.input(m.name, file, extra))
		}
	}
	return out
}

// knownHit files a reconfirmation of an open finding: the first few with their full
// input, the rest counted (every one of them is the same defect once more)
func (r *run) knownHit(idx int, id, what, site string, input interface{}) {
	r.known[id]++
	if r.known[id] <= 12 || idx >= 0 && r.known[id] <= 40 {
		r.c.OracleFailKnown(idx, id, what, site, input)
		return
	}
	r.c.OracleOK()
	r.c.Count("order/known-finding-reconfirmed/" + id)
}

// failHit files a failing input found by this stage: the first thirty in full, the rest
// counted (a broken reader fails on hundreds of the files judged here)
func (r *run) failHit(idx int, what, site string, input interface{}) {
	r.structFails++
	if r.structFails <= 30 {
		r.c.OracleFail(idx, what, site, input)
		return
	}
	r.c.Rep.OracleChecks++
	r.c.Count("order/further-failing-inputs-not-recorded")
}

// verifyVia: the BPM `file` through another constructor of the package, then VerifyBPM
func verifyVia(via int, file, km []byte, im *interMat) (int, string) {
	var err error
	p, pm := recoverCall(func() {
		var b *bootguard.BootGuard
		if via == 1 {
			b, err = bootguard.NewBPMAndKM(bytes.NewReader(file), bytes.NewReader(km))
		} else {
			path := filepath.Join(im.dir, "judged-image.bin")
			if err = os.WriteFile(path, fitImage(km, file), 0o600); err != nil {
				return
			}
			f := im.tmp("judged-image.json")
			defer f.Close()
			b, err = bootguard.NewBPMAndKMFromBIOS(path, f)
		}
		if err == nil {
			err = b.VerifyBPM()
		}
	})
	switch {
	case p:
		return oPanic, pm
	case err != nil:
		return oErr, err.Error()
	}
	return oOk, ""
}

// judgeVia: same oracle, the file reaches VerifyBPM through NewBPMAndKM and through
// NewBPMAndKMFromBIOS
func (s *sess) judgeVia(m smut, km []byte, im *interMat, image bool) {
	c := s.r.c
	file := joinElts(m.els)
	same := bytes.Equal(file, s.sf.file)
	raw, signedEnd := bpmRawValid(s.gen, file)
	for via, name := range []string{"", "NewBPMAndKM", "NewBPMAndKMFromBIOS"} {
		if via == 0 || via == 2 && (!image || len(file) > 0x3000) {
			continue
		}
		s.human, s.ncalls = historyView(*s.global), len(*s.global)
		out, msg := verifyVia(via, file, km, im)
		*s.global = append(*s.global, fmt.Sprintf("%s(%s: %s) + VerifyBPM -> outcome %d", name, s.sf.name, m.name, out))
		c.Count("order/via-" + name)
		extra := map[string]interface{}{"constructor": name, "key_manifest_hex": hexs(km), "elements_of_signed_file": eltsHuman(s.gen, s.orig), "elements_of_judged_file": eltsHuman(s.gen, m.els), "signed_portion_as_stored_ends_at": signedEnd, "suite_says": msg}
		switch {
		case same && out != oOk:
			s.r.failHit(-1, fmt.Sprintf("a BPM signed by the suite does not verify when read with %s (outcome %d: %s)", name, out, msg), "bootguard."+name+"/VerifyBPM", s.input(m.name, file, extra))
		case out != oOk || raw:
			c.OracleOK()
		default:
			re := reserialised(1, file)
			what := fmt.Sprintf("BPM (gen %d) read with %s is accepted by VerifyBPM although its signed portion as stored is not what was signed: %s", s.gen, name, m.name)
			if m.onlyUnknownChunksAdded(s.orig) && re != nil && bytes.Equal(re, s.sf.file) {
				s.r.knownHit(-1, fSkipped, what, "bootguard."+name+"/VerifyBPM", s.input(m.name, file, extra))
			} else {
				s.r.failHit(-1, what, "bootguard."+name+"/VerifyBPM", s.input(m.name, file, extra))
			}
		}
	}
}

// judgeBytes: any other file (bit-flipped BPM or KM), same oracle
func (s *sess) judgeBytes(name string, doc int, orig *signedFile, file []byte) {
	c := s.r.c
	out, msg := suiteVerifyFile(doc, file)
	same := bytes.Equal(file, orig.file)
	raw := len(file) == len(orig.file) && orig.lay.rawValid(file)
	switch {
	case same && out != oOk:
		s.r.failHit(-1, fmt.Sprintf("a %s signed by the suite does not verify with the suite any more (outcome %d: %s) after %d other call(s) in this process", docName(doc), out, msg, s.ncalls), "bootguard.Verify"+docName(doc), s.input(name, file, map[string]interface{}{"file_signed": orig.name}))
	case out != oOk || raw:
		c.OracleOK()
	default:
		re := reserialised(doc, file)
		diff := 0
		for i := range file {
			if file[i] != orig.file[i] {
				diff++
			}
		}
		if re != nil && diff == 1 && bytes.Equal(re, orig.file) {
			// a single byte of a field Rehash recomputes: the open finding of the sweep
			s.r.knownHit(-1, fNormalised, "tampered "+docName(doc)+" accepted: a field that Rehash recomputes was changed", "bootguard.Verify"+docName(doc), s.input(name, file, nil))
			return
		}
		s.r.failHit(-1, fmt.Sprintf("tampered %s accepted (%s): the stored signature is not valid for the stored signed portion; %d call(s) of other entry points before", docName(doc), name, s.ncalls), "bootguard.Verify"+docName(doc), s.input(name, file, map[string]interface{}{"file_signed": orig.name, "file_signed_hex": hexs(orig.file)}))
	}
}

// ---- material ----

// rich BPMs: every optional element present, now and then two IBB elements
func (r *run) structMaterial() []*signedFile {
	c := r.c
	rg := c.Rng
	var res []*signedFile
	type spec struct {
		gen          int
		key          string
		scheme, hash string
		twoSE        bool
		res          bool
	}
	specs := []spec{
		{2, "B", "RSASSA", "SHA256", false, false},
		{2, "E", "RSAPSS", "SHA384", true, true},
		{2, "A", "RSAPSS", "ALGNULL", false, true},
		{1, "B", "RSASSA", "", false, false},
		{1, "E", "RSASSA", "", true, false},
	}
	if c.Thorough() {
		specs = append(specs, spec{2, "D", "RSASSA", "ALGUNKNOWN", true, false}, spec{1, "A", "RSASSA", "", true, false})
	}
	for i, sp := range specs {
		var b *bootguard.BootGuard
		var d shapeDesc
		var err error
		if sp.gen == 2 {
			b, d, err = buildCbntBPM(rg, 1+rg.Intn(3), 1+rg.Intn(2), true, true, true, sp.res)
			if err == nil && sp.twoSE {
				se2 := b.VData.CBNTbpm.SE[0]
				se2.IBBEntryPoint ^= 0x10
				se2.IBBSegments = append([]cbntbootpolicy.IBBSegment{{Base: 0xffe00000, Size: 0x1000}}, se2.IBBSegments...)
				b.VData.CBNTbpm.SE = append(b.VData.CBNTbpm.SE, se2)
			}
		} else {
			b, d, err = buildBgBPM(rg, 1+rg.Intn(3), true)
			if err == nil && sp.twoSE {
				se2 := b.VData.BGbpm.SE[0]
				se2.IBBEntryPoint ^= 0x10
				se2.IBBSegments = append([]bgbootpolicy.IBBSegment{{Base: 0xffe00000, Size: 0x1000}}, se2.IBBSegments...)
				b.VData.BGbpm.SE = append(b.VData.BGbpm.SE, se2)
			}
		}
		if err != nil {
			c.OracleFail(-1, "cannot build a BPM: "+err.Error(), "harness", nil)
			continue
		}
		d["two_ibb_elements"] = sp.twoSE
		name := fmt.Sprintf("rich-bpm-gen%d-%s-%d", sp.gen, sp.key, i)
		r.nosweep[name] = true
		sf := r.signOne(b, 1, sp.scheme, sp.hash, sp.key, d, false, name)
		if sf != nil && sf.verifies && sf.lay.rawValid(sf.file) {
			res = append(res, sf)
		}
	}
	return res
}

// ---- other entry points of the package, called in between ----

type interMat struct {
	dir      string
	bpmFile  map[int][]byte
	kmFile   map[int][]byte
	permuted map[int][]byte
	image    []byte
	imgPath  string
	garbage  string
	missing  string
	keys     []*rsa.PrivateKey
	null     *os.File // where the output of Print* goes
}

// a 64 KiB BIOS-region-only image: ACM, KM and BPM blobs, a FIT (header, startup
// ACM, KM, BPM records) and the FIT pointer 0x40 below 4 GiB; written from the FIT
// layout, not with the library
func fitImage(km, bpm []byte) []byte {
	n := 0x10000
	img := bytes.Repeat([]byte{0xff}, n)
	phys := func(off int) uint64 { return (uint64(1) << 32) - uint64(n) + uint64(off) }
	acm := make([]byte, 0x400)
	binary.LittleEndian.PutUint16(acm[0:], 2)
	binary.LittleEndian.PutUint32(acm[4:], 0xa1)
	binary.LittleEndian.PutUint32(acm[24:], 0x100) // size in dwords
	copy(img[0x1000:], acm)
	copy(img[0x2000:], km)
	copy(img[0x4000:], bpm)
	type ent struct {
		addr uint64
		size uint32
		typ  byte
	}
	es := []ent{
		{binary.LittleEndian.Uint64([]byte("_FIT_   ")), 4, 0x00},
		{phys(0x1000), 0, 0x02},
		{phys(0x2000), uint32(len(km)), 0x0b},
		{phys(0x4000), uint32(len(bpm)), 0x0c},
	}
	tbl := 0x8000
	for i, e := range es {
		o := tbl + 16*i
		binary.LittleEndian.PutUint64(img[o:], e.addr)
		img[o+8], img[o+9], img[o+10], img[o+11] = byte(e.size), byte(e.size>>8), byte(e.size>>16), 0
		binary.LittleEndian.PutUint16(img[o+12:], 0x0100)
		img[o+14], img[o+15] = e.typ, 0
	}
	binary.LittleEndian.PutUint64(img[n-0x40:], phys(tbl))
	return img
}

func (r *run) interMaterial(files []*signedFile) *interMat {
	m := &interMat{bpmFile: map[int][]byte{}, kmFile: map[int][]byte{}, permuted: map[int][]byte{}}
	m.dir, _ = os.MkdirTemp("", "c18inter")
	for _, sf := range files {
		if m.bpmFile[sf.gen] == nil {
			m.bpmFile[sf.gen] = sf.file
			if els, ok := splitBPM(sf.gen, sf.file); ok && len(els) > 3 {
				e := cloneElts(els)
				e[1], e[2] = e[2], e[1]
				m.permuted[sf.gen] = joinElts(e)
			}
		}
	}
	for _, sf := range r.signed {
		if sf.doc == 0 && sf.verifies && sf.by == "suite" && m.kmFile[sf.gen] == nil {
			m.kmFile[sf.gen] = sf.file
		}
	}
	if m.kmFile[2] != nil && m.bpmFile[2] != nil {
		m.image = fitImage(m.kmFile[2], m.bpmFile[2])
	} else {
		m.image = bytes.Repeat([]byte{0xff}, 0x10000)
	}
	m.imgPath = filepath.Join(m.dir, "image.bin")
	os.WriteFile(m.imgPath, m.image, 0o600)
	m.garbage = filepath.Join(m.dir, "garbage.bin")
	os.WriteFile(m.garbage, rbytes(r.c.Rng, 0x2000), 0o600)
	m.missing = filepath.Join(m.dir, "no-such-image.bin")
	m.keys = []*rsa.PrivateKey{r.keys["A"], r.keys["B"]}
	return m
}

func (m *interMat) tmp(name string) *os.File {
	f, err := os.Create(filepath.Join(m.dir, name))
	if err != nil {
		return nil
	}
	return f
}

// a fresh BootGuard value holding a BPM and a KM of the generation
func (m *interMat) fresh(gen int) *bootguard.BootGuard {
	if m.bpmFile[gen] == nil || m.kmFile[gen] == nil {
		return &bootguard.BootGuard{}
	}
	b, err := bootguard.NewBPMAndKM(bytes.NewReader(m.bpmFile[gen]), bytes.NewReader(m.kmFile[gen]))
	if err != nil || b == nil {
		return &bootguard.BootGuard{}
	}
	return b
}

// entry points, in the order of Model/ManifestOrder.v [entry]
var entryNames = []string{
	"ENewVData", "ENewBPM", "ENewKM", "ENewBPMAndKM", "ENewBPMAndKMFromBIOS",
	"EValidateBPM", "EValidateKM", "EPrintBPM", "EPrintKM", "EWriteKM", "EWriteBPM",
	"EWriteJSON", "EReadJSON", "EStitchKM", "EStitchBPM", "ESignKM", "ESignBPM",
	"EVerifyKM", "EVerifyBPM", "ECalculateNEMSize", "EGetBPMPubHash", "EGetIBBsDigest",
	"ECreateIBBDigest", "EBPMCryptoSecure", "EKMCryptoSecure", "EKMHasBPMHash",
	"EBPMKeyMatchKMHash", "EStrictSaneBPMSecurityProps", "ESaneBPMSecurityProps",
	"EIBBsMatchBPMDigest", "EValidateMEAgainstManifests", "ECreateIBBSegments",
	"EGenRSAKey", "EGenECCKey", "EDecryptPrivKey", "EReadPubKey",
	"EWriteCBnTStructures", "EPrintStructures", "EParseFITEntries", "EStitchFITEntries",
	"EStrictSaneBootGuardProvisioning", "ESaneMEBootGuardProvisioning",
}

// intermezzo calls entry point `which` with arguments drawn from rg; returns what
// was called and how it ended.  Output the callee prints goes to /dev/null.
func (m *interMat) intermezzo(rg *rand.Rand, which, gen, v int) string {
	var what string
	var err error
	call := func(desc string, f func()) {
		what = desc
		f()
	}
	stdout := os.Stdout
	if m.null == nil {
		m.null, _ = os.OpenFile(os.DevNull, os.O_WRONLY, 0)
	}
	if m.null != nil {
		os.Stdout = m.null
		defer func() { os.Stdout = stdout }()
	}
	p, pmsg := recoverCall(func() {
		b := m.fresh(gen)
		image := m.image
		imgPath := m.imgPath
		if v == 2 {
			image = rbytes(rg, 0x1800)
			imgPath = m.garbage
		}
		switch entryNames[which] {
		case "ENewVData":
			call(fmt.Sprintf("NewVData(variant %d)", v), func() {
				switch v {
				case 0:
					_, err = bootguard.NewVData(bootguard.VersionedData{})
				case 1:
					_, err = bootguard.NewVData(bootguard.VersionedData{BGbpm: bgbootpolicy.NewManifest()})
				default:
					_, err = bootguard.NewVData(bootguard.VersionedData{CBNTbpm: cbntbootpolicy.NewManifest(), BGbpm: bgbootpolicy.NewManifest()})
				}
			})
		case "ENewBPM":
			files := [][]byte{m.bpmFile[gen], m.permuted[gen], rbytes(rg, 40), m.kmFile[gen], nil}
			i := []int{0, 1, 2 + rg.Intn(3)}[v]
			call(fmt.Sprintf("NewBPM(gen %d, %s)", gen, []string{"signed BPM", "signed BPM with two elements exchanged", "40 random bytes", "a key manifest", "nil reader"}[i]), func() {
				if files[i] == nil && i == 4 {
					_, err = bootguard.NewBPM(nil)
				} else {
					_, err = bootguard.NewBPM(bytes.NewReader(files[i]))
				}
			})
		case "ENewKM":
			files := [][]byte{m.kmFile[gen], rbytes(rg, 40), m.bpmFile[gen]}
			i := v
			call(fmt.Sprintf("NewKM(gen %d, %s)", gen, []string{"signed KM", "40 random bytes", "a boot policy manifest"}[i]), func() {
				_, err = bootguard.NewKM(bytes.NewReader(files[i]))
			})
		case "ENewBPMAndKM":
			call(fmt.Sprintf("NewBPMAndKM(variant %d, gen %d)", v, gen), func() {
				switch v {
				case 0:
					_, err = bootguard.NewBPMAndKM(bytes.NewReader(m.bpmFile[gen]), bytes.NewReader(m.kmFile[gen]))
				case 1: // generations differ
					_, err = bootguard.NewBPMAndKM(bytes.NewReader(m.bpmFile[gen]), bytes.NewReader(m.kmFile[3-gen]))
				default: // a BPM whose elements are out of order, a truncated KM
					km := m.kmFile[gen]
					_, err = bootguard.NewBPMAndKM(bytes.NewReader(m.permuted[gen]), bytes.NewReader(km[:len(km)/2]))
				}
			})
		case "ENewBPMAndKMFromBIOS":
			paths := []string{m.imgPath, m.missing, m.garbage}
			call(fmt.Sprintf("NewBPMAndKMFromBIOS(%s)", []string{"image with FIT, KM, BPM, ACM", "a file that does not exist", "8 KiB of random bytes"}[v]), func() {
				f := m.tmp("frombios.json")
				defer f.Close()
				_, err = bootguard.NewBPMAndKMFromBIOS(paths[v], f)
			})
		case "EValidateBPM":
			call(fmt.Sprintf("ValidateBPM(gen %d)", gen), func() { err = b.ValidateBPM() })
		case "EValidateKM":
			call(fmt.Sprintf("ValidateKM(gen %d)", gen), func() { err = b.ValidateKM() })
		case "EPrintBPM":
			call(fmt.Sprintf("PrintBPM(gen %d)", gen), func() { b.PrintBPM() })
		case "EPrintKM":
			call(fmt.Sprintf("PrintKM(gen %d)", gen), func() { b.PrintKM() })
		case "EWriteKM":
			call(fmt.Sprintf("WriteKM(gen %d)", gen), func() { _, err = b.WriteKM() })
		case "EWriteBPM":
			call(fmt.Sprintf("WriteBPM(gen %d)", gen), func() { _, err = b.WriteBPM() })
		case "EWriteJSON":
			call(fmt.Sprintf("WriteJSON(gen %d)", gen), func() {
				f := m.tmp("vdata.json")
				defer f.Close()
				err = b.WriteJSON(f)
			})
		case "EReadJSON":
			call(fmt.Sprintf("ReadJSON(variant %d, gen %d)", v, gen), func() {
				switch v {
				case 0:
					f := m.tmp("vdata2.json")
					werr := b.WriteJSON(f)
					f.Close()
					if werr == nil {
						err = (&bootguard.BootGuard{}).ReadJSON(f.Name())
					}
				case 1:
					err = b.ReadJSON(m.missing)
				default:
					err = b.ReadJSON(m.garbage)
				}
			})
		case "EStitchKM":
			call(fmt.Sprintf("StitchKM(gen %d, variant %d)", gen, v), func() {
				if v == 0 {
					_, err = b.StitchKM(&m.keys[0].PublicKey, rbytes(rg, 256))
				} else {
					_, err = b.StitchKM(nil, nil)
				}
			})
		case "EStitchBPM":
			call(fmt.Sprintf("StitchBPM(gen %d, variant %d)", gen, v), func() {
				if v == 0 {
					_, err = b.StitchBPM(&m.keys[1].PublicKey, rbytes(rg, 256))
				} else {
					_, err = b.StitchBPM(nil, rbytes(rg, 3))
				}
			})
		case "ESignKM":
			call(fmt.Sprintf("SignKM(gen %d, variant %d)", gen, v), func() {
				_, err = b.SignKM([]string{"RSASSA", "RSAPSS", "NOSUCH"}[v], m.keys[0])
			})
		case "ESignBPM":
			call(fmt.Sprintf("SignBPM(gen %d, variant %d)", gen, v), func() {
				_, err = b.SignBPM([]string{"RSASSA", "RSAPSS", "RSASSA"}[v], []string{"SHA256", "SHA384", "NOSUCH"}[v], m.keys[1])
			})
		case "EVerifyKM":
			call(fmt.Sprintf("VerifyKM(gen %d)", gen), func() { err = b.VerifyKM() })
		case "EVerifyBPM":
			call(fmt.Sprintf("VerifyBPM(gen %d)", gen), func() { err = b.VerifyBPM() })
		case "ECalculateNEMSize":
			call(fmt.Sprintf("CalculateNEMSize(gen %d, variant %d)", gen, v), func() {
				var acm *tools.ACM
				if v == 0 {
					acm, _ = tools.ParseACM(bytes.NewReader(m.image[0x1000:0x1400]))
				}
				_, err = b.CalculateNEMSize(image, acm)
			})
		case "EGetBPMPubHash":
			call(fmt.Sprintf("GetBPMPubHash(gen %d, variant %d)", gen, v), func() {
				err = b.GetBPMPubHash(&m.keys[1].PublicKey, []string{"SHA256", "SHA1", "NOSUCH"}[v])
			})
		case "EGetIBBsDigest":
			call(fmt.Sprintf("GetIBBsDigest(gen %d, variant %d)", gen, v), func() { _, err = b.GetIBBsDigest(image, []string{"SHA256", "SHA384", "SHA256"}[v]) })
		case "ECreateIBBDigest":
			call(fmt.Sprintf("CreateIBBDigest(gen %d, variant %d)", gen, v), func() { err = b.CreateIBBDigest([]string{m.imgPath, m.missing, m.garbage}[v]) })
		case "EBPMCryptoSecure":
			call(fmt.Sprintf("BPMCryptoSecure(gen %d)", gen), func() { _, err = b.BPMCryptoSecure() })
		case "EKMCryptoSecure":
			call(fmt.Sprintf("KMCryptoSecure(gen %d)", gen), func() { _, err = b.KMCryptoSecure() })
		case "EKMHasBPMHash":
			call(fmt.Sprintf("KMHasBPMHash(gen %d)", gen), func() { _, err = b.KMHasBPMHash() })
		case "EBPMKeyMatchKMHash":
			call(fmt.Sprintf("BPMKeyMatchKMHash(gen %d)", gen), func() { _, err = b.BPMKeyMatchKMHash() })
		case "EStrictSaneBPMSecurityProps":
			call(fmt.Sprintf("StrictSaneBPMSecurityProps(gen %d)", gen), func() { _, err = b.StrictSaneBPMSecurityProps() })
		case "ESaneBPMSecurityProps":
			call(fmt.Sprintf("SaneBPMSecurityProps(gen %d)", gen), func() { _, err = b.SaneBPMSecurityProps() })
		case "EIBBsMatchBPMDigest":
			call(fmt.Sprintf("IBBsMatchBPMDigest(gen %d, variant %d)", gen, v), func() { _, err = b.IBBsMatchBPMDigest(image) })
		case "EValidateMEAgainstManifests":
			call(fmt.Sprintf("ValidateMEAgainstManifests(gen %d)", gen), func() {
				_, err = b.ValidateMEAgainstManifests(&bootguard.FirmwareStatus6{KMSVN: uint32(rg.Intn(16)), BPMSVN: uint32(rg.Intn(16))})
			})
		case "ECreateIBBSegments":
			call(fmt.Sprintf("CreateIBBSegments(gen %d, variant %d)", gen, v), func() { err = b.CreateIBBSegments(uint8(rg.Intn(2)), uint16(rg.Intn(4)), imgPath) })
		case "EGenRSAKey":
			call("GenRSAKey(a size the tool does not offer)", func() { err = bootguard.GenRSAKey([]int{1024, 0, 4096}[v], "pw", nil, nil, nil, nil) })
		case "EGenECCKey":
			call(fmt.Sprintf("GenECCKey(variant %d)", v), func() {
				if v == 0 {
					var f [4]*os.File
					for i := range f {
						f[i] = m.tmp(fmt.Sprintf("ecc%d.pem", i))
						defer f[i].Close()
					}
					err = bootguard.GenECCKey(256, "pw", f[0], f[1], f[2], f[3])
				} else {
					err = bootguard.GenECCKey(123, "pw", nil, nil, nil, nil)
				}
			})
		case "EDecryptPrivKey":
			call(fmt.Sprintf("DecryptPrivKey(variant %d)", v), func() {
				_, err = bootguard.DecryptPrivKey([][]byte{pemOf(m.keys[0]), rbytes(rg, 40), rbytes(rg, 5)}[v], []string{"", "pw", "pw"}[v])
			})
		case "EReadPubKey":
			call(fmt.Sprintf("ReadPubKey(variant %d)", v), func() { _, err = bootguard.ReadPubKey([]string{m.missing, m.garbage, m.imgPath}[v]) })
		case "EWriteCBnTStructures":
			call(fmt.Sprintf("WriteCBnTStructures(variant %d)", v), func() {
				var f [3]*os.File
				for i := range f {
					f[i] = m.tmp(fmt.Sprintf("cbnt%d.bin", i))
					defer f[i].Close()
				}
				err = bootguard.WriteCBnTStructures(image, f[0], f[1], f[2])
			})
		case "EPrintStructures":
			call(fmt.Sprintf("PrintStructures(variant %d)", v), func() { err = bootguard.PrintStructures(image) })
		case "EParseFITEntries":
			call(fmt.Sprintf("ParseFITEntries(variant %d)", v), func() { _, _, _, err = bootguard.ParseFITEntries(image) })
		case "EStitchFITEntries":
			call(fmt.Sprintf("StitchFITEntries(variant %d)", v), func() {
				p := filepath.Join(m.dir, "stitch.bin")
				os.WriteFile(p, image, 0o600)
				if v == 1 {
					p = m.missing
				}
				err = bootguard.StitchFITEntries(p, nil, m.bpmFile[2], m.kmFile[2])
			})
		case "EStrictSaneBootGuardProvisioning":
			call("StrictSaneBootGuardProvisioning", func() {
				_, err = bootguard.StrictSaneBootGuardProvisioning(bgheader.BootGuardVersion(gen), &bootguard.FirmwareStatus6{}, &bootguard.BGInfo{})
			})
		case "ESaneMEBootGuardProvisioning":
			call("SaneMEBootGuardProvisioning", func() {
				_, err = bootguard.SaneMEBootGuardProvisioning(bgheader.BootGuardVersion(gen), &bootguard.FirmwareStatus6{BootGuardDisable: v == 1}, &bootguard.BGInfo{})
			})
		}
	})
	switch {
	case p:
		return what + " -> panic " + pmsg
	case err != nil:
		e := err.Error()
		if len(e) > 80 {
			e = e[:80] + "..."
		}
		return what + " -> error: " + e
	}
	return what + " -> ok"
}

func confLit() string {
	return fmt.Sprintf("(mk_pconf %s %s)", gal.Bool(bg.StrictOrderCheck), gal.Bool(cbnt.StrictOrderCheck))
}

// ---- the stage ----

func (r *run) structural() {
	c := r.c
	rg := c.Rng
	phase := map[string]float64{}
	last := time.Now()
	lap := func(name string) {
		phase[name] = time.Since(last).Seconds()
		last = time.Now()
	}
	defer func() { c.Rep.Extra["structural_phase_seconds"] = phase }()
	files := r.structMaterial()
	type split struct {
		sf  *signedFile
		els []elt
	}
	var mats []split
	for _, sf := range files {
		if els, ok := splitBPM(sf.gen, sf.file); ok && bytes.Equal(joinElts(els), sf.file) {
			mats = append(mats, split{sf, els})
		} else {
			c.OracleFail(-1, "a BPM signed by the suite does not consist of the documented elements in the documented order", "bootguard.SignBPM", map[string]interface{}{"file_hex": hexs(sf.file), "shape": sf.desc})
		}
	}
	// BPMs of the main signing stage as well (fewer elements, other shapes)
	extra := map[int]int{}
	for _, sf := range r.signed {
		if sf.doc == 1 && sf.verifies && sf.lay.rawValid(sf.file) && !strings.HasPrefix(sf.name, "rich-") && extra[sf.gen] < c.Scale(2, 8) && rg.Intn(3) == 0 {
			if els, ok := splitBPM(sf.gen, sf.file); ok && bytes.Equal(joinElts(els), sf.file) {
				extra[sf.gen]++
				mats = append(mats, split{sf, els})
			}
		}
	}
	if len(mats) == 0 {
		c.OracleFail(-1, "no verifying BPM to take apart", "harness", nil)
		return
	}
	c.Rep.Extra["structural_files"] = len(mats)
	lap("material")

	// ---- 1. every structural mutant, no other call in between
	nmut := 0
	for _, m := range mats {
		c.Begin("structural mutants of "+m.sf.name, "bootguard.NewBPM/VerifyBPM", map[string]interface{}{"file_hex": hexs(m.sf.file)})
		s := r.newSess(m.sf, m.els)
		s.judge(smut{"the signed file itself", m.els}, true)
		for _, mu := range structuralMutants(rg, m.sf.gen, m.els, true) {
			s.judge(mu, true)
			nmut++
		}
	}
	c.Rep.Extra["structural_mutants"] = nmut
	lap("1-fresh")

	im := r.interMaterial(files)
	defer os.RemoveAll(im.dir)
	var global []string // every call since the stage began (besides NewBPM/VerifyBPM of the judgements), readable

	// ---- 1b. the same mutants through the package's other two constructors of a BPM:
	// NewBPMAndKM (bg-suite) and NewBPMAndKMFromBIOS (bg-prov read-config: the file sits in
	// a firmware image, behind a FIT record), each followed by VerifyBPM
	for _, m := range mats {
		km := im.kmFile[m.sf.gen]
		if km == nil {
			continue
		}
		c.Begin("structural mutants of "+m.sf.name+" through NewBPMAndKM / NewBPMAndKMFromBIOS", "bootguard.NewBPMAndKM/NewBPMAndKMFromBIOS/VerifyBPM", map[string]interface{}{"file_hex": hexs(m.sf.file)})
		s := r.newSess(m.sf, m.els)
		muts := append([]smut{{"the signed file itself", m.els}}, structuralMutants(rg, m.sf.gen, m.els, false)...)
		s.global = &global
		// through the firmware image (a 64 KiB file per judgement): the signed file, the first
		// exchanges of neighbours, and a random third of the rest
		for i, mu := range muts {
			s.judgeVia(mu, km, im, i < 4 || rg.Intn(3) == 0)
		}
	}

	// ---- 2. sessions: the verdicts on a panel of files (both generations, KMs too) before
	// and after calls of other entry points of the package.  One session per entry point:
	// the entry point is called with every combination of generation and argument variant
	// (succeeding and failing calls), other entry points in between; the panel is judged
	// after every single call.  The process is never reset: what the harness reports as
	// history is everything called since the stage began.
	lap("1b-other-constructors")
	var kms []*signedFile
	for _, sf := range r.signed {
		if sf.doc == 0 && sf.verifies && sf.by == "suite" && sf.lay.rawValid(sf.file) {
			kms = append(kms, sf)
		}
	}
	byGen := map[int][]split{}
	for _, m := range mats {
		byGen[m.sf.gen] = append(byGen[m.sf.gen], m)
	}
	type flipped struct {
		name string
		doc  int
		orig *signedFile
		file []byte
	}
	order := rg.Perm(len(entryNames))
	for si, which := range order {
		var subs []*sess
		var panels [][]smut
		var flips []flipped
		for gen := 1; gen <= 2; gen++ {
			if len(byGen[gen]) == 0 {
				continue
			}
			m := byGen[gen][(si+gen)%len(byGen[gen])]
			s := r.newSess(m.sf, m.els)
			all := structuralMutants(rg, gen, m.els, false)
			rg.Shuffle(len(all), func(i, j int) { all[i], all[j] = all[j], all[i] })
			panel := []smut{{"the signed file itself", m.els}}
			// always: two neighbouring elements of the signed portion exchanged (the smallest rearrangement)
			if len(m.els) >= 3 {
				e := cloneElts(m.els)
				i := 1
				if len(e) > 3 {
					i = 1 + rg.Intn(len(e)-3)
				}
				e[i], e[i+1] = e[i+1], e[i]
				panel = append(panel, smut{fmt.Sprintf("elements %d (%s) and %d (%s) exchanged", i, m.els[i].data[:8], i+1, m.els[i+1].data[:8]), e})
			}
			for _, mu := range all {
				if len(panel) >= 7 {
					break
				}
				panel = append(panel, mu)
			}
			subs = append(subs, s)
			panels = append(panels, panel)
			bit := rg.Intn(len(m.sf.file) * 8)
			flips = append(flips, flipped{fmt.Sprintf("bit %d of the signed BPM %s flipped", bit, m.sf.name), 1, m.sf, flip(m.sf.file, bit)})
		}
		if len(kms) > 0 {
			km := kms[rg.Intn(len(kms))]
			flips = append(flips, flipped{"the signed KM " + km.name + " itself", 0, km, km.file})
			bit := rg.Intn(len(km.file) * 8)
			flips = append(flips, flipped{fmt.Sprintf("bit %d of the signed KM %s flipped", bit, km.name), 0, km, flip(km.file, bit)})
		}
		turn := 0
		judgeAll := func(emit bool) {
			// after every call: the signed file, the exchange of neighbours and one more
			// mutant in turn; the whole panel at the start and at the end of the session
			turn++
			for i, s := range subs {
				s.human, s.ncalls = historyView(global), len(global)
				for k, mu := range panels[i] {
					if emit || k < 2 || k == 2+turn%(len(panels[i])-1) {
						s.judge(mu, emit)
					}
				}
			}
			for _, f := range flips {
				subs[0].judgeBytes(f.name, f.doc, f.orig, f.file)
			}
		}
		c.Begin(fmt.Sprintf("session %d (%s)", si, entryNames[which]), "pkg/provisioning/bootguard", map[string]interface{}{"calls_before": global})
		obs0 := confLit()
		judgeAll(si == 0)
		if si > 0 {
			for i, s := range subs {
				for _, mu := range panels[i] {
					s.judge(mu, false)
				}
			}
		}
		// the calls of this session
		type callSpec struct{ which, gen, v int }
		var calls []callSpec
		for gen := 1; gen <= 2; gen++ {
			for v := 0; v < 3; v++ {
				calls = append(calls, callSpec{which, gen, v})
			}
		}
		rg.Shuffle(len(calls), func(i, j int) { calls[i], calls[j] = calls[j], calls[i] })
		var seq []callSpec
		for _, cs := range calls {
			seq = append(seq, cs)
			if rg.Intn(3) == 0 {
				seq = append(seq, callSpec{rg.Intn(len(entryNames)), 1 + rg.Intn(2), rg.Intn(3)})
			}
		}
		var steps, hist []string
		for k, cs := range seq {
			c.Begin(fmt.Sprintf("session %d: %s (gen %d, variant %d)", si, entryNames[cs.which], cs.gen, cs.v), "pkg/provisioning/bootguard", map[string]interface{}{"calls_before": global})
			what := im.intermezzo(rg, cs.which, cs.gen, cs.v)
			global = append(global, what)
			hist = append(hist, entryNames[cs.which])
			for _, s := range subs {
				s.hist = hist
			}
			steps = append(steps, gal.Pair(entryNames[cs.which], confLit()))
			c.Count("session/" + entryNames[cs.which])
			judgeAll(k == len(seq)-1)
		}
		c.Add("session/configuration", fmt.Sprintf("CConf lib_default_conf %s %s", obs0, gal.List(steps)), map[string]interface{}{"session": si, "calls": global[len(global)-len(seq):]}, true)
	}
	c.Rep.Extra["session_calls"] = len(global)
	lap("2-sessions")

	// ---- 3. the configuration the suite's tools run with by default: main() of bg-prov,
	// bg-suite, txt-prov and txt-suite assigns cbnt.StrictOrderCheck from a flag whose
	// default is false; nothing in the suite touches bg.StrictOrderCheck
	before := cbnt.StrictOrderCheck
	cbnt.StrictOrderCheck = false
	func() {
		defer func() { cbnt.StrictOrderCheck = before }()
		done := map[int]int{}
		for _, m := range mats {
			if done[m.sf.gen] >= c.Scale(2, 6) {
				continue
			}
			done[m.sf.gen]++
			s := r.newSess(m.sf, m.els)
			s.cfgOff = true
			s.c0 = "(tool_conf false lib_default_conf)"
			s.ncalls = len(global) + 1
			s.human = append(historyView(global), "(main() of the tool: cbnt.StrictOrderCheck = cli.ManifestStrictOrderCheck, flag not given)")
			s.judge(smut{"the signed file itself", m.els}, true)
			for _, mu := range structuralMutants(rg, m.sf.gen, m.els, false) {
				s.judge(mu, true)
			}
		}
	}()

	lap("3-tool-default-config")
	// ---- 4. fixed witnesses of the two open findings
	for _, m := range mats {
		if m.sf.gen != 2 || len(m.els) < 4 {
			continue
		}
		ver := m.els[0].data[8]
		junk := elt{kind: -1, uid: 100, data: append(append([]byte("__JUNK__"), ver, 0), 12, 0), whole: true}
		f1 := joinElts(insertElt(m.els, 1, junk))
		out1, _ := suiteVerifyFile(1, f1)
		raw1, _ := bpmRawValid(2, f1)
		c.Probe(fSkipped, out1 == oOk && !raw1, fmt.Sprintf("CBnT BPM signed by the suite, 12 bytes '__JUNK__' 0x%02x 00 0c 00 inserted between header and IBB element (offset %d): NewBPM+VerifyBPM outcome %d, crypto/rsa on the stored signed portion: %v", ver, len(m.els[0].data), out1, raw1))
		e := cloneElts(m.els)
		e[1], e[2] = e[2], e[1]
		f2 := joinElts(e)
		outStrict, _ := suiteVerifyFile(1, f2)
		old := cbnt.StrictOrderCheck
		cbnt.StrictOrderCheck = false
		out2, _ := suiteVerifyFile(1, f2)
		cbnt.StrictOrderCheck = old
		raw2, _ := bpmRawValid(2, f2)
		c.Probe(fOrderOff, out2 == oOk && !raw2, fmt.Sprintf("CBnT BPM signed by the suite, IBB element and the element behind it exchanged: NewBPM+VerifyBPM with cbnt.StrictOrderCheck=false (what bg-prov bpm-verify runs with unless --manifest-strict-order-check is given) outcome %d, in the process as the harness found it outcome %d, crypto/rsa on the stored signed portion: %v", out2, outStrict, raw2))
		break
	}
}
