package main

import (
	"bytes"
	"fmt"

	"github.com/9elements/converged-security-suite/v2/pkg/provisioning/bootguard"
	"github.com/linuxboot/fiano/pkg/intel/metadata/bg"
	"github.com/linuxboot/fiano/pkg/intel/metadata/cbnt"
	"github.com/linuxboot/fiano/pkg/intel/metadata/cbnt/cbntkey"
	"verifharness/gal"
)

// observe KMHasBPMHash / BPMKeyMatchKMHash on a BootGuard holding both manifests
func observeBinding(b *bootguard.BootGuard) (hasO int, hasV bool, mtO int, mtV bool) {
	var err error
	p, _ := recoverCall(func() { hasV, err = b.KMHasBPMHash() })
	switch {
	case p:
		hasO = oPanic
	case err != nil:
		hasO = oErr
	}
	err = nil
	p, _ = recoverCall(func() { mtV, err = b.BPMKeyMatchKMHash() })
	switch {
	case p:
		mtO = oPanic
	case err != nil:
		mtO = oErr
	}
	return
}

func hashTable(algs []int, keydata []byte) []hashEntry {
	var ht []hashEntry
	if len(keydata) < 4 {
		return ht
	}
	seen := map[int]bool{}
	for _, a := range algs {
		if seen[a] {
			continue
		}
		seen[a] = true
		if d, ok := stdHash(a, keydata[4:]); ok {
			ht = append(ht, hashEntry{a, keydata[4:], d})
		}
	}
	return ht
}

// bindCase registers the correspondence case and runs the oracle.  expectSame: nil
// when the property makes no statement (hand-made lists), else whether the key
// whose hash was placed in the KM is the BPM signer's key.  refused: the digest
// placed is one the suite does not take as a BPM key hash (SHA1 in a BG 1.0 KM,
// "everything more secure than SHA-1"): the check has to fail, for every key.
func (r *run) bindCase(b *bootguard.BootGuard, descr map[string]interface{}, expectSame *bool, refused bool) {
	c := r.c
	hasO, hasV, mtO, mtV := observeBinding(b)
	var lit string
	var algs []int
	var keyalg int
	var keydata []byte
	if genOf(b) == 1 {
		km, bpm := b.VData.BGkm, b.VData.BGbpm
		keyalg, keydata = int(bpm.PMSE.KeySignature.Key.KeyAlg), bpm.PMSE.KeySignature.Key.Data
		algs = []int{int(km.BPKey.HashAlg)}
		lit = fmt.Sprintf("CBindBG %d %s %d %s %s %s %s", int(km.BPKey.HashAlg), bz(km.BPKey.HashBuffer), keyalg, bz(keydata),
			htLit(hashTable(algs, keydata)), obsBool(hasO, hasV), obsBool(mtO, mtV))
	} else {
		km, bpm := b.VData.CBNTkm, b.VData.CBNTbpm
		keyalg, keydata = int(bpm.PMSE.KeySignature.Key.KeyAlg), bpm.PMSE.KeySignature.Key.Data
		var hs []string
		for _, h := range km.Hash {
			algs = append(algs, int(h.Digest.HashAlg))
			hs = append(hs, fmt.Sprintf("(%s, %d, %s)", gal.U(uint64(h.Usage)), int(h.Digest.HashAlg), bz(h.Digest.HashBuffer)))
		}
		lit = fmt.Sprintf("CBindCBNT %s %d %s %s %s %s", gal.List(hs), keyalg, bz(keydata),
			htLit(hashTable(algs, keydata)), obsBool(hasO, hasV), obsBool(mtO, mtV))
	}
	descr["gen"] = genOf(b)
	descr["has"], descr["match"] = []interface{}{hasO, hasV}, []interface{}{mtO, mtV}
	idx := c.Add(fmt.Sprintf("binding/gen%d", genOf(b)), lit, descr, true)
	if expectSame == nil {
		return
	}
	has := hasO == oOk && hasV
	mt := mtO == oOk && mtV
	binding := has && mt
	// the binding check is the conjunction bg-suite runs (KM test: KMHasBPMHash, BPM
	// test: BPMKeyMatchKMHash); the BPM test alone must not report a match for
	// another key either, nor without a hash it compared
	want := *expectSame && !refused
	// the concrete input of a failure: what the KM holds and the key element of the BPM
	input := func() map[string]interface{} {
		m := map[string]interface{}{"km_state": kmStateLit(b), "bpm_key_alg": keyalg, "bpm_key_data_hex": hexs(keydata), "bpm_key_bits": (len(keydata) - 4) * 8}
		for k, v := range descr {
			m[k] = v
		}
		return m
	}
	switch {
	case binding == want && mt == want && hasO != oPanic && mtO != oPanic:
		c.OracleOK()
		if refused {
			c.Count("binding/refused-sha1-fails-closed")
		}
	case mt && !want:
		c.OracleFail(idx, fmt.Sprintf("BPMKeyMatchKMHash reports a match although the BPM signer's key is not the key whose hash the KM holds as BPM key hash (same key = %v, hash recognised = %v, KMHasBPMHash = %v): a comparison was skipped and reported as a match", *expectSame, !refused, has), "bootguard.BPMKeyMatchKMHash", input())
	default:
		c.OracleFail(idx, fmt.Sprintf("binding check wrong: BPM signer key is the key hashed into the KM = %v (hash recognised = %v), but KMHasBPMHash = %v and BPMKeyMatchKMHash = %v", *expectSame, !refused, has, mt), "bootguard.BPMKeyMatchKMHash", input())
	}
}

func (r *run) binding() {
	c := r.c
	rg := c.Rng
	// both key sizes in every tier (KM key A is RSA-2048: x = D, E are the mixed-size pairs)
	names := []string{"A", "B", "C", "D", "E"}
	tr, fa := true, false
	bp := func(v bool) *bool {
		if v {
			return &tr
		}
		return &fa
	}
	// signed BPMs, one per key and generation
	bgBPM := map[string]*bootguard.BootGuard{}
	cbBPM := map[string]*bootguard.BootGuard{}
	for i, n := range names {
		if b, _, err := buildBgBPM(rg, 1+i, i%2 == 0); err == nil {
			if _, err := b.SignBPM("RSASSA", "SHA256", r.keys[n]); err == nil {
				bgBPM[n] = b
			}
		}
		if b, _, err := buildCbntBPM(rg, 1+i, 1, true, false, false, false); err == nil {
			sch, h := "RSASSA", "SHA256"
			if i%2 == 1 {
				sch, h = "RSAPSS", "SHA384"
			}
			if _, err := b.SignBPM(sch, h, r.keys[n]); err == nil {
				cbBPM[n] = b
			}
		}
	}
	// quick tier: the same key for every key, a ring of different keys, and the pairs
	// that differ in SIZE both ways; thorough: all 25 pairs
	quickPairs := map[string]bool{"AB": true, "BC": true, "CD": true, "DE": true, "EA": true, "BA": true, "ED": true, "BE": true, "DA": true, "EB": true}
	for _, x := range names {
		for _, y := range names {
			if !c.Thorough() && x != y && !quickPairs[x+y] {
				continue
			}
			// BG 1.0
			for _, alg := range []string{"SHA256", "SHA1"} {
				km, _, err := buildBgKM(rg, pubOf(r.keys["A"]), pubOf(r.keys[x]), alg)
				if err != nil || bgBPM[y] == nil {
					continue
				}
				// GetBPMPubHash itself: the stored digest is H(alg, modulus little endian)
				want, _ := stdHash(hashID(alg), reverse(r.keys[x].N.Bytes()))
				if !bytes.Equal(km.VData.BGkm.BPKey.HashBuffer, want) || int(km.VData.BGkm.BPKey.HashAlg) != hashID(alg) {
					c.OracleFail(-1, fmt.Sprintf("GetBPMPubHash (BG 1.0) on an RSA-%d key does not store H(%s, modulus): the key manifest holds another digest", r.keys[x].N.BitLen(), alg), "bootguard.GetBPMPubHash",
						map[string]interface{}{"gen": 1, "key": x, "key_bits": r.keys[x].N.BitLen(), "hash_name": alg, "key_data_hex": hexs(keyDataOf(pubOf(r.keys[x]))), "expected_digest_hex": hexs(want), "stored": kmStateLit(km)})
				} else {
					c.OracleOK()
				}
				both, err := bootguard.NewVData(bootguard.VersionedData{BGkm: km.VData.BGkm, BGbpm: bgBPM[y].VData.BGbpm})
				if err != nil {
					continue
				}
				r.bindCase(both, map[string]interface{}{"km_hash_of": x, "km_hash_alg": alg, "bpm_signed_by": y}, bp(x == y), alg == "SHA1")
			}
			// CBnT
			for ai, alg := range []string{"SHA256", "SHA384", "SM3", "SHA1"} {
				if !c.Thorough() && ai >= 2 && x != y && !(x == "A" && y == "B") && !(x == "D" && y == "E") && !(x == "E" && y == "B") {
					continue
				}
				km, _, err := buildCbntKM(rg, pubOf(r.keys["A"]), pubOf(r.keys[x]), cbnt.AlgSHA256, alg, ai%3)
				if err != nil || cbBPM[y] == nil {
					continue
				}
				want, _ := stdHash(hashID(alg), reverse(r.keys[x].N.Bytes()))
				found := false
				for _, h := range km.VData.CBNTkm.Hash {
					if h.Usage == cbntkey.UsageBPMSigningPKD && bytes.Equal(h.Digest.HashBuffer, want) && int(h.Digest.HashAlg) == hashID(alg) {
						found = true
					}
				}
				if !found {
					c.OracleFail(-1, fmt.Sprintf("GetBPMPubHash (CBnT) on an RSA-%d key does not store H(%s, modulus) with usage BPM", r.keys[x].N.BitLen(), alg), "bootguard.GetBPMPubHash",
						map[string]interface{}{"gen": 2, "key": x, "key_bits": r.keys[x].N.BitLen(), "hash_name": alg, "key_data_hex": hexs(keyDataOf(pubOf(r.keys[x]))), "expected_digest_hex": hexs(want), "stored": kmStateLit(km)})
				} else {
					c.OracleOK()
				}
				both, err := bootguard.NewVData(bootguard.VersionedData{CBNTkm: km.VData.CBNTkm, CBNTbpm: cbBPM[y].VData.CBNTbpm})
				if err != nil {
					continue
				}
				r.bindCase(both, map[string]interface{}{"km_hash_of": x, "km_hash_alg": alg, "bpm_signed_by": y, "hashes": len(km.VData.CBNTkm.Hash)}, bp(x == y), false)
				// the same hash with a shared usage (BPM | ACM, BPM | SDEV | bit 40):
				// bit 0 is normative (Usage is a bit mask), the key is compared like any other
				if ai == 0 {
					for _, us := range []cbntkey.Usage{cbntkey.UsageBPMSigningPKD | cbntkey.UsageACMManifestSigningPKD, cbntkey.UsageBPMSigningPKD | cbntkey.UsageSDEVSigningPKD | 1<<40} {
						km2, _, _ := buildCbntKM(rg, pubOf(r.keys["A"]), pubOf(r.keys[x]), cbnt.AlgSHA256, alg, 0)
						km2.VData.CBNTkm.Hash[0].Usage = us
						both2, err := bootguard.NewVData(bootguard.VersionedData{CBNTkm: km2.VData.CBNTkm, CBNTbpm: cbBPM[y].VData.CBNTbpm})
						if err == nil {
							r.bindCase(both2, map[string]interface{}{"km_hash_of": x, "km_hash_alg": alg, "bpm_signed_by": y, "usage": uint64(us)}, bp(x == y), false)
						}
					}
					// a KM that holds NO BPM key hash (only entries of other usages, or none):
					// nothing was placed for any key, the check has to fail for every BPM
					for _, extra := range []int{0, 2} {
						km3, _, _ := buildCbntKM(rg, pubOf(r.keys["A"]), pubOf(r.keys[x]), cbnt.AlgSHA256, alg, extra)
						var rest []cbntkey.Hash
						for _, h := range km3.VData.CBNTkm.Hash {
							if !h.Usage.IsSet(cbntkey.UsageBPMSigningPKD) {
								rest = append(rest, h)
							}
						}
						km3.VData.CBNTkm.Hash = rest
						both3, err := bootguard.NewVData(bootguard.VersionedData{CBNTkm: km3.VData.CBNTkm, CBNTbpm: cbBPM[y].VData.CBNTbpm})
						if err == nil {
							r.bindCase(both3, map[string]interface{}{"km_hash_of": "(no BPM entry)", "bpm_signed_by": y, "hashes": len(rest)}, bp(false), false)
						}
					}
				}
			}
		}
	}
	// through files, as bg-suite does it (NewBPMAndKM on the FIT entries)
	perKind := map[string]int{}
	for _, sf := range r.signed {
		if sf.doc != 0 || sf.by != "suite" || !sf.verifies {
			continue
		}
		kind := fmt.Sprintf("%d/%v/%v", sf.gen, sf.desc["key"], sf.desc["bpmkey"])
		if perKind[kind] >= c.Scale(3, 1000) {
			continue
		}
		perKind[kind]++
		seenKey := map[string]bool{}
		for _, sp := range r.signed {
			if sp.doc != 1 || sp.gen != sf.gen || sp.by != "suite" || !sp.verifies {
				continue
			}
			// one BPM file per signer key: the key the KM was made for, and the others
			k := fmt.Sprint(sp.desc["key"])
			if seenKey[k] {
				continue
			}
			both, err := bootguard.NewBPMAndKM(bytes.NewReader(sp.file), bytes.NewReader(sf.file))
			if err != nil {
				continue
			}
			seenKey[k] = true
			// the KM files carry the digest of the BPM key they were made for (desc "bpmkey")
			placedKey, has := sf.desc["bpmkey"]
			same := has && placedKey == sp.desc["key"]
			refused := sf.desc["bpmhash"] == "SHA1" && sf.gen == 1
			exp := bp(same)
			if !has {
				exp = nil // a KM without hashes: nothing was placed in it
			}
			r.bindCase(both, map[string]interface{}{"km_file": sf.name, "bpm_file": sp.name, "km_hash_of": placedKey, "bpm_signed_by": sp.desc["key"]}, exp, refused)
		}
	}
	// hand-made hash structures: no statement by the property, model correspondence only
	if bgBPM["A"] != nil {
		for i := 0; i < c.Scale(24, 120); i++ {
			km, _, err := buildBgKM(rg, pubOf(r.keys["A"]), pubOf(r.keys["A"]), "SHA256")
			if err != nil {
				break
			}
			hs := &km.VData.BGkm.BPKey
			switch i % 8 {
			case 0:
				hs.HashBuffer = hs.HashBuffer[:31]
			case 1:
				hs.HashBuffer = append(hs.HashBuffer, 0)
			case 2:
				hs.HashAlg = bg.Algorithm(algSHA384)
			case 3:
				hs.HashBuffer = nil
			case 4:
				hs.HashAlg = bg.AlgSHA1
			case 5:
				hs.HashBuffer[rg.Intn(32)] ^= 1 << uint(rg.Intn(8))
			case 6:
				hs.HashAlg = bg.AlgNull
				hs.HashBuffer = rbytes(rg, 31)
			}
			bpm := *bgBPM["A"].VData.BGbpm
			switch (i / 8) % 3 {
			case 1:
				bpm.PMSE.KeySignature.Key.KeyAlg = bg.Algorithm(0x23)
			case 2:
				bpm.PMSE.KeySignature.Key.Data = bpm.PMSE.KeySignature.Key.Data[:rg.Intn(5)]
			}
			both, err := bootguard.NewVData(bootguard.VersionedData{BGkm: km.VData.BGkm, BGbpm: &bpm})
			if err == nil {
				r.bindCase(both, map[string]interface{}{"handmade": i}, nil, false)
				r.neverOpen(both, i)
			}
		}
	}
	if cbBPM["A"] != nil {
		for i := 0; i < c.Scale(32, 160); i++ {
			km, _, err := buildCbntKM(rg, pubOf(r.keys["A"]), pubOf(r.keys["A"]), cbnt.AlgSHA256, []string{"SHA256", "SHA384"}[i%2], i%4)
			if err != nil {
				break
			}
			k := km.VData.CBNTkm
			j := rg.Intn(len(k.Hash))
			switch i % 9 {
			case 0:
				k.Hash[j].Usage = cbntkey.Usage(rg.Intn(16))
			case 1:
				k.Hash[j].Digest.HashBuffer = k.Hash[j].Digest.HashBuffer[:len(k.Hash[j].Digest.HashBuffer)-1]
			case 2:
				k.Hash[j].Digest.HashAlg = cbnt.Algorithm(0x99)
			case 3:
				k.Hash = nil
			case 4:
				// a second BPM entry for another key
				d, _ := stdHash(algSHA256, reverse(r.keys["B"].N.Bytes()))
				k.Hash = append(k.Hash, cbntkey.Hash{Usage: cbntkey.UsageBPMSigningPKD, Digest: cbnt.HashStructure{HashAlg: cbnt.AlgSHA256, HashBuffer: d}})
			case 5:
				// a second, correct BPM entry under another algorithm
				d, _ := stdHash(algSHA512, reverse(r.keys["A"].N.Bytes()))
				k.Hash = append(k.Hash, cbntkey.Hash{Usage: cbntkey.UsageBPMSigningPKD, Digest: cbnt.HashStructure{HashAlg: cbnt.AlgSHA512, HashBuffer: d}})
			case 6:
				k.Hash[j].Usage |= 1 << 40
			case 7:
				k.Hash[j].Digest.HashBuffer[0] ^= 0x80
			}
			bpm := *cbBPM["A"].VData.CBNTbpm
			switch (i / 9) % 3 {
			case 1:
				bpm.PMSE.KeySignature.Key.KeyAlg = cbnt.AlgECC
			case 2:
				bpm.PMSE.KeySignature.Key.Data = bpm.PMSE.KeySignature.Key.Data[:rg.Intn(5)]
			}
			both, err := bootguard.NewVData(bootguard.VersionedData{CBNTkm: k, CBNTbpm: &bpm})
			if err == nil {
				r.bindCase(both, map[string]interface{}{"handmade": i}, nil, false)
				r.neverOpen(both, i)
			}
		}
	}
}

// neverOpen: on hand-made hash structures the property fixes no expected key, but
// one thing holds for every KM/BPM pair: BPMKeyMatchKMHash may report a match only
// if the KM holds a digest H(alg, modulus of the BPM key) -- recomputed here with
// Go's hash functions -- under the BPM-signing usage (CBnT: bit 0) resp. as BPKey.
func (r *run) neverOpen(b *bootguard.BootGuard, i int) {
	c := r.c
	_, _, mtO, mtV := observeBinding(b)
	if !(mtO == oOk && mtV) {
		c.OracleOK()
		return
	}
	holds := false
	if genOf(b) == 1 {
		km, bpm := b.VData.BGkm, b.VData.BGbpm
		kd := bpm.PMSE.KeySignature.Key.Data
		if len(kd) >= 4 {
			if d, ok := stdHash(int(km.BPKey.HashAlg), kd[4:]); ok && bytes.Equal(d, km.BPKey.HashBuffer) {
				holds = true
			}
		}
	} else {
		km, bpm := b.VData.CBNTkm, b.VData.CBNTbpm
		kd := bpm.PMSE.KeySignature.Key.Data
		for _, h := range km.Hash {
			if h.Usage&1 == 1 && len(kd) >= 4 {
				if d, ok := stdHash(int(h.Digest.HashAlg), kd[4:]); ok && bytes.Equal(d, h.Digest.HashBuffer) {
					holds = true
				}
			}
		}
	}
	if holds {
		c.OracleOK()
		return
	}
	c.OracleFail(-1, "BPMKeyMatchKMHash reports a match although the KM holds no digest of the BPM key under the BPM-signing usage", "bootguard.BPMKeyMatchKMHash", map[string]interface{}{"handmade": i, "gen": genOf(b), "km_state": kmStateLit(b)})
}
