package main

import (
	"bytes"
	"crypto"
	"crypto/rsa"
	"fmt"
	"math/rand"

	"github.com/9elements/converged-security-suite/v2/pkg/provisioning/bootguard"
	"github.com/linuxboot/fiano/pkg/intel/metadata/bg"
	"github.com/linuxboot/fiano/pkg/intel/metadata/bg/bgbootpolicy"
	"github.com/linuxboot/fiano/pkg/intel/metadata/bg/bgkey"
	"github.com/linuxboot/fiano/pkg/intel/metadata/cbnt"
	"github.com/linuxboot/fiano/pkg/intel/metadata/cbnt/cbntbootpolicy"
	"github.com/linuxboot/fiano/pkg/intel/metadata/cbnt/cbntkey"
	"github.com/linuxboot/fiano/pkg/intel/metadata/common/bgheader"
)

func rbytes(r *rand.Rand, n int) []byte {
	b := make([]byte, n)
	r.Read(b)
	return b
}

type shapeDesc map[string]interface{}

// edge8 draws a byte-sized field: boundary values now and then (the checks must not
// depend on a field being zero / all ones), random otherwise.
var forceEdge int // 1: every such field zero, 2: every such field at its maximum (shapes 0 and 1 of a run)

func edge8(r *rand.Rand, max int) int {
	switch forceEdge {
	case 1:
		return 0
	case 2:
		return max
	}
	switch r.Intn(4) {
	case 0:
		return 0
	case 1:
		return max
	}
	return r.Intn(max + 1)
}

// ---- BG 1.0 KM ----
func buildBgKM(r *rand.Rand, kmKey, bpmKey crypto.PublicKey, bpmHash string) (*bootguard.BootGuard, shapeDesc, error) {
	km := bgkey.NewManifest()
	km.KMVersion = uint8(edge8(r, 255))
	km.KMSVN = bg.SVN(edge8(r, 15))
	km.KMID = uint8(edge8(r, 255))
	b, err := bootguard.NewVData(bootguard.VersionedData{BGkm: km})
	if err != nil {
		return nil, nil, err
	}
	if err := b.GetBPMPubHash(bpmKey, bpmHash); err != nil {
		return nil, nil, err
	}
	if err := b.VData.BGkm.KeyAndSignature.Key.SetPubKey(kmKey); err != nil {
		return nil, nil, err
	}
	return b, shapeDesc{"gen": 1, "doc": "KM", "kmversion": km.KMVersion, "svn": km.KMSVN, "id": km.KMID, "bpmhash": bpmHash}, nil
}

// ---- CBnT KM ----
func buildCbntKM(r *rand.Rand, kmKey, bpmKey crypto.PublicKey, pkHash cbnt.Algorithm, bpmHash string, extra int) (*bootguard.BootGuard, shapeDesc, error) {
	km := cbntkey.NewManifest()
	km.Revision = uint8(edge8(r, 255))
	km.KMSVN = cbnt.SVN(edge8(r, 15))
	km.KMID = uint8(edge8(r, 255))
	km.PubKeyHashAlg = pkHash
	b, err := bootguard.NewVData(bootguard.VersionedData{CBNTkm: km})
	if err != nil {
		return nil, nil, err
	}
	if extra >= 0 {
		if err := b.GetBPMPubHash(bpmKey, bpmHash); err != nil {
			return nil, nil, err
		}
	} // extra < 0: a KM without any hash (like test_artifacts/km.signed)
	// other usages (FIT patch / ACM / SDEV manifests), before and after the BPM entry
	usages := []cbntkey.Usage{cbntkey.UsageFITPatchManifestSigningPKD, cbntkey.UsageACMManifestSigningPKD, cbntkey.UsageSDEVSigningPKD, cbntkey.UsageACMManifestSigningPKD | cbntkey.UsageSDEVSigningPKD}
	algs := []cbnt.Algorithm{cbnt.AlgSHA256, cbnt.AlgSHA384, cbnt.AlgSHA1, cbnt.AlgSM3}
	sizes := map[cbnt.Algorithm]int{cbnt.AlgSHA256: 32, cbnt.AlgSHA384: 48, cbnt.AlgSHA1: 20, cbnt.AlgSM3: 32}
	for i := 0; i < extra; i++ {
		a := algs[r.Intn(len(algs))]
		h := cbntkey.Hash{Usage: usages[r.Intn(len(usages))], Digest: cbnt.HashStructure{HashAlg: a, HashBuffer: rbytes(r, sizes[a])}}
		if r.Intn(2) == 0 {
			km.Hash = append(km.Hash, h)
		} else {
			km.Hash = append([]cbntkey.Hash{h}, km.Hash...)
		}
	}
	if err := km.KeyAndSignature.Key.SetPubKey(kmKey); err != nil {
		return nil, nil, err
	}
	return b, shapeDesc{"gen": 2, "doc": "KM", "revision": km.Revision, "svn": km.KMSVN, "id": km.KMID, "pkhash": int(pkHash), "bpmhash": bpmHash, "hashes": len(km.Hash)}, nil
}

// ---- BG 1.0 BPM ----
func buildBgBPM(r *rand.Rand, nseg int, pme bool) (*bootguard.BootGuard, shapeDesc, error) {
	m := bgbootpolicy.NewManifest()
	m.BPMH.PMBPMVersion = uint8(edge8(r, 255))
	m.BPMH.BPMSVN = bg.SVN(edge8(r, 15))
	m.BPMH.ACMSVNAuth = bg.SVN(edge8(r, 15))
	m.BPMH.NEMDataStack = bgbootpolicy.Size4K(edge8(r, 255))
	se := bgbootpolicy.NewSE()
	se.PBETValue = bgbootpolicy.PBETValue(edge8(r, 15))
	se.Flags = bgbootpolicy.SEFlags(edge8(r, 31))
	se.IBBMCHBAR = r.Uint64()
	se.VTdBAR = r.Uint64()
	se.PMRLBase = r.Uint32()
	se.PMRLLimit = r.Uint32()
	se.IBBEntryPoint = r.Uint32()
	// well-formed "fill" hash: 2-byte size + 32 bytes (fiano reads hashSize() = 34 bytes back)
	se.PostIBBHash.HashBuffer = append([]byte{0x20, 0x00}, rbytes(r, 32)...)
	if r.Intn(3) == 0 {
		se.Digest = bg.HashStructure{HashAlg: bg.AlgSHA1, HashBuffer: rbytes(r, 20)}
	} else {
		se.Digest = bg.HashStructure{HashAlg: bg.AlgSHA256, HashBuffer: rbytes(r, 32)}
	}
	for i := 0; i < nseg; i++ {
		se.IBBSegments = append(se.IBBSegments, bgbootpolicy.IBBSegment{Flags: uint16(r.Intn(2)), Base: 0xff000000 + uint32(r.Intn(0x1000))<<12, Size: uint32(1+r.Intn(64)) << 12})
	}
	m.SE = []bgbootpolicy.SE{*se}
	if pme {
		pm := bgbootpolicy.NewPM()
		pm.Data = rbytes(r, 1+r.Intn(24))
		pm.DataSize = uint16(len(pm.Data))
		m.PME = pm
	}
	b, err := bootguard.NewVData(bootguard.VersionedData{BGbpm: m})
	if err != nil {
		return nil, nil, err
	}
	return b, shapeDesc{"gen": 1, "doc": "BPM", "svn": m.BPMH.BPMSVN, "acmsvn": m.BPMH.ACMSVNAuth, "flags": uint32(se.Flags), "segments": nseg, "pme": pme, "digestalg": int(se.Digest.HashAlg)}, nil
}

// ---- CBnT BPM ----
func buildCbntBPM(r *rand.Rand, nseg, ndig int, txt, pcd, pme, res bool) (*bootguard.BootGuard, shapeDesc, error) {
	m := cbntbootpolicy.NewManifest()
	m.BPMH.BPMRevision = uint8(edge8(r, 255))
	m.BPMH.BPMSVN = cbnt.SVN(edge8(r, 15))
	m.BPMH.ACMSVNAuth = cbnt.SVN(edge8(r, 15))
	m.BPMH.NEMDataStack = cbntbootpolicy.Size4K(edge8(r, 255))
	se := cbntbootpolicy.NewSE()
	se.PBETValue = cbntbootpolicy.PBETValue(edge8(r, 15))
	se.Flags = cbntbootpolicy.SEFlags(edge8(r, 31))
	se.IBBMCHBAR = r.Uint64()
	se.VTdBAR = r.Uint64()
	se.DMAProtBase0 = r.Uint32()
	se.DMAProtLimit0 = r.Uint32()
	se.DMAProtBase1 = r.Uint64()
	se.DMAProtLimit1 = r.Uint64()
	se.IBBEntryPoint = r.Uint32()
	algs := []cbnt.Algorithm{cbnt.AlgSHA256, cbnt.AlgSHA384, cbnt.AlgSHA1, cbnt.AlgSM3}
	sizes := map[cbnt.Algorithm]int{cbnt.AlgSHA256: 32, cbnt.AlgSHA384: 48, cbnt.AlgSHA1: 20, cbnt.AlgSM3: 32}
	for i := 0; i < ndig; i++ {
		a := algs[(i+r.Intn(2))%len(algs)]
		se.DigestList.List = append(se.DigestList.List, cbnt.HashStructure{HashAlg: a, HashBuffer: rbytes(r, sizes[a])})
	}
	se.DigestList.Size = uint16(ndig)
	for i := 0; i < nseg; i++ {
		se.IBBSegments = append(se.IBBSegments, cbntbootpolicy.IBBSegment{Flags: uint16(r.Intn(2)), Base: 0xff000000 + uint32(r.Intn(0x1000))<<12, Size: uint32(1+r.Intn(64)) << 12})
	}
	m.SE = []cbntbootpolicy.SE{*se}
	if txt {
		t := cbntbootpolicy.NewTXT()
		t.SInitMinSVNAuth = uint8(r.Intn(256))
		t.ControlFlags = cbntbootpolicy.TXTControlFlags(r.Uint32())
		t.PwrDownInterval = cbntbootpolicy.Duration16In5Sec(r.Intn(1 << 16))
		t.ACPIBaseOffset = uint16(r.Intn(1 << 16))
		t.PwrMBaseOffset = r.Uint32()
		m.TXTE = t
	}
	if res {
		rs := cbntbootpolicy.NewReserved()
		copy(rs.ReservedData[:], rbytes(r, 32))
		m.Res = rs
	}
	if pcd {
		p := cbntbootpolicy.NewPCD()
		p.Data = rbytes(r, 1+r.Intn(24))
		m.PCDE = p
	}
	if pme {
		p := cbntbootpolicy.NewPM()
		p.Data = rbytes(r, 1+r.Intn(24))
		m.PME = p
	}
	b, err := bootguard.NewVData(bootguard.VersionedData{CBNTbpm: m})
	if err != nil {
		return nil, nil, err
	}
	return b, shapeDesc{"gen": 2, "doc": "BPM", "svn": m.BPMH.BPMSVN, "acmsvn": m.BPMH.ACMSVNAuth, "flags": uint32(se.Flags), "segments": nseg, "digests": ndig, "txt": txt, "pcd": pcd, "pme": pme, "res": res}, nil
}

// ---- observation helpers on a BootGuard value ----

func genOf(b *bootguard.BootGuard) int {
	switch b.Version {
	case bgheader.Version10:
		return 1
	case bgheader.Version20:
		return 2
	}
	return 0
}

// pmanOf serialises the structure (which rehashes it) and reads the offsets the
// glue uses.  doc: 0 = KM, 1 = BPM.
func pmanOf(b *bootguard.BootGuard, doc int) (p pman, err error) {
	if doc == 0 {
		p.ser, err = b.WriteKM()
		if err != nil {
			return
		}
		switch genOf(b) {
		case 1:
			p.keysig = int(b.VData.BGkm.KeyAndSignatureOffset())
		case 2:
			p.keysig = int(b.VData.CBNTkm.KeyAndSignatureOffset())
			p.pkhash = int(b.VData.CBNTkm.PubKeyHashAlg)
		}
		return
	}
	p.ser, err = b.WriteBPM()
	if err != nil {
		return
	}
	switch genOf(b) {
	case 1:
		p.pmse = int(b.VData.BGbpm.PMSEOffset())
		p.pmseks = int(b.VData.BGbpm.PMSE.KeySignatureOffset())
	case 2:
		p.keysig = int(b.VData.CBNTbpm.KeySignatureOffset)
		p.pmse = int(b.VData.CBNTbpm.PMSEOffset())
		p.pmseks = int(b.VData.CBNTbpm.PMSE.KeySignatureOffset())
	}
	return
}

// ksVerify is fiano's KeySignature.Verify of the structure on a message (the
// abstract verify_raw of the model, tabulated).
func ksVerify(b *bootguard.BootGuard, doc int, msg []byte) bool {
	var err error
	switch {
	case genOf(b) == 1 && doc == 0:
		err = b.VData.BGkm.KeyAndSignature.Verify(msg)
	case genOf(b) == 1 && doc == 1:
		err = b.VData.BGbpm.PMSE.Verify(msg)
	case genOf(b) == 2 && doc == 0:
		err = b.VData.CBNTkm.KeyAndSignature.Verify(msg)
	case genOf(b) == 2 && doc == 1:
		err = b.VData.CBNTbpm.PMSE.Verify(msg)
	default:
		return false
	}
	return err == nil
}

func newDoc(doc int, file []byte) (*bootguard.BootGuard, error) {
	if doc == 0 {
		return bootguard.NewKM(bytes.NewReader(file))
	}
	return bootguard.NewBPM(bytes.NewReader(file))
}

func verifyDoc(b *bootguard.BootGuard, doc int) error {
	if doc == 0 {
		return b.VerifyKM()
	}
	return b.VerifyBPM()
}

// suiteVerifyFile = NewKM/NewBPM + VerifyKM/VerifyBPM, with panics observed
func suiteVerifyFile(doc int, file []byte) (outcome int, msg string) {
	var err error
	p, pm := recoverCall(func() {
		var b *bootguard.BootGuard
		b, err = newDoc(doc, file)
		if err == nil {
			err = verifyDoc(b, doc)
		}
	})
	if p {
		return oPanic, pm
	}
	if err != nil {
		return oErr, err.Error()
	}
	return oOk, ""
}

func recoverCall(f func()) (panicked bool, msg string) {
	defer func() {
		if r := recover(); r != nil {
			panicked = true
			msg = fmt.Sprint(r)
		}
	}()
	f()
	return
}

func pubOf(k *rsa.PrivateKey) *rsa.PublicKey { return &k.PublicKey }
