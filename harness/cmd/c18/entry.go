package main

// The signing entry points called with NAMES, as bg-prov km-sign / bpm-sign pass
// their command-line arguments through: SignKM(signAlgo, key) and
// SignBPM(signAlgo, hashAlgo, key) for both generations.
//
// What the property says about a request (oracle rules, written from the text):
//   - a request it covers -- RSA-2048/3072 key, a scheme the tool offers for the
//     manifest's generation (BG 1.0: RSASSA; CBnT: RSASSA, RSAPSS; any letter case),
//     and for a CBnT BPM a hash the tool offers (SHA1, SHA256, SHA384, SM3) or a
//     null name ("ALGNULL", "ALGUNKNOWN": the caller leaves the choice to the
//     scheme) -- must be signed, and the result must verify with the suite and carry
//     a signature that crypto/rsa accepts for the stored signed portion under the
//     scheme and hash the signature element names (judged by signOne);
//   - BG 1.0 has no hash choice: with a hash or null name of its option table as
//     the hash argument of SignBPM the request is covered (must sign and verify);
//     with any other string a refusal would do, success must verify;
//   - any other scheme name may be refused; a call that reports success must have
//     produced a manifest that verifies (refused, not mis-signed);
//   - hash names that are not hash algorithms ("RSA", "RSASSA", ...) and ECC keys
//     are outside the property's quantifier: counted, not judged -- except that
//     nothing the suite accepts may carry an invalid signature.
// The model side: one CSignEntry case per call with an RSA key (Model/Manifest.v
// sign_entry: which names are parsed, what a null name turns into) and CParseName
// cases for the two GetAlgFromString tables.

import (
	"bytes"
	"crypto"
	"fmt"
	"sort"

	"github.com/9elements/converged-security-suite/v2/pkg/provisioning/bootguard"
	"github.com/linuxboot/fiano/pkg/intel/metadata/bg"
	"github.com/linuxboot/fiano/pkg/intel/metadata/cbnt"
	"verifharness/gal"
)

// every algorithm id a name of either table can stand for
var namedAlgIDs = []int{0, 1, algSHA1, algSHA256, algSHA384, algNull, algSM3, algRSASSA, algRSAPSS, 0x18, 0x1b, 0x23}

// signable: the scheme ids fiano's NewSignatureData signs with for this key (the
// abstract sign_raw of the model, tabulated by calling fiano directly).
func (r *run) signable(gen int, keyName string) []int {
	k := fmt.Sprintf("%d/%s", gen, keyName)
	if v, ok := r.sigtab[k]; ok {
		return v
	}
	key := r.keys[keyName]
	res := []int{}
	for _, id := range namedAlgIDs {
		var err error
		p, _ := recoverCall(func() {
			if gen == 1 {
				_, err = bg.NewSignatureData(bg.Algorithm(id), key, []byte("probe"))
			} else {
				_, err = cbnt.NewSignatureData(cbnt.Algorithm(id), key, []byte("probe"))
			}
		})
		if !p && err == nil {
			res = append(res, id)
		}
	}
	sort.Ints(res)
	r.sigtab[k] = res
	return res
}

// entryCase: one call of a signing entry point with an RSA key as a correspondence case.
func (r *run) entryCase(gen, doc int, pre pman, scheme, hashName, keyName string, out, sl, stored int, descr map[string]interface{}) int {
	var ids []string
	for _, id := range r.signable(gen, keyName) {
		ids = append(ids, fmt.Sprint(id))
	}
	lit := fmt.Sprintf("CSignEntry %d %d %s %s %s %s %s %d %d", gen, doc, pman{nil, pre.keysig, pre.pmse, pre.pmseks, pre.pkhash}.lit(),
		bzStr(scheme), bzStr(hashName), gal.List(ids), obsUnit(out), sl, stored)
	d := map[string]interface{}{"scheme_name": scheme, "hash_name": hashName, "key": keyName, "outcome": out}
	for k, v := range descr {
		if _, ok := d[k]; !ok {
			d[k] = v
		}
	}
	return r.c.Add(fmt.Sprintf("sign-entry/gen%d-%s", gen, docName(doc)), lit, d, true)
}

// fresh manifests of the four kinds for the name matrix
func (r *run) freshDoc(gen, doc int, kk, bk string, pk cbnt.Algorithm, i int) (*bootguard.BootGuard, shapeDesc, error) {
	rg := r.c.Rng
	var b *bootguard.BootGuard
	var d shapeDesc
	var err error
	switch {
	case gen == 1 && doc == 0:
		b, d, err = buildBgKM(rg, pubOf(r.keys[kk]), pubOf(r.keys[bk]), "SHA256")
	case gen == 1:
		b, d, err = buildBgBPM(rg, 1+i%3, i%2 == 0)
	case doc == 0:
		b, d, err = buildCbntKM(rg, pubOf(r.keys[kk]), pubOf(r.keys[bk]), pk, "SHA256", i%3)
	default:
		b, d, err = buildCbntBPM(rg, 1+i%3, 1+i%2, i%2 == 0, false, i%3 == 0, false)
	}
	if err != nil {
		return nil, nil, err
	}
	if doc == 0 {
		d["bpmkey"] = bk
	}
	// half of them through a file first (km-gen | km-sign, bpm-gen --cut | bpm-sign)
	if i%2 == 1 {
		if b2, err := roundTrip(b, doc); err == nil {
			b = b2
			d["flow"] = "file"
		}
	}
	return b, d, nil
}

// signMaybe: a request outside what the property covers (a scheme name the tool
// does not offer for this generation, a hash name that is not a hash).  It may be
// refused; success must not be a mis-signed manifest when the SCHEME was the odd
// part; a non-hash hash name is counted only.
func (r *run) signMaybe(b *bootguard.BootGuard, doc int, scheme, hashName, keyName string, desc shapeDesc, judge bool) {
	c := r.c
	gen := genOf(b)
	key := r.keys[keyName]
	pre, err := prepared(b, doc)
	if err != nil {
		return
	}
	desc["scheme"], desc["hash"], desc["key"] = scheme, hashName, keyName
	var out []byte
	var serr error
	p, pmsg := recoverCall(func() {
		if doc == 0 {
			out, serr = b.SignKM(scheme, key)
		} else {
			out, serr = b.SignBPM(scheme, hashName, key)
		}
	})
	switch {
	case p:
		idx := r.entryCase(gen, doc, pre, scheme, hashName, keyName, oPanic, 0, 0, desc)
		c.OracleFail(idx, fmt.Sprintf("Sign%s(%q, %q) panics: %s", docName(doc), scheme, hashName, pmsg), "bootguard.Sign"+docName(doc), desc)
		return
	case serr != nil:
		r.entryCase(gen, doc, pre, scheme, hashName, keyName, oErr, 0, 0, desc)
		c.OracleOK()
		c.Count("sign/refused-request")
		return
	}
	ksOff, signedEnd := signedLayoutOffsets(gen, doc, pre)
	lay, lerr := parseLayout(out, gen, doc, signedEnd, ksOff)
	sl := -1
	if lerr == nil {
		// the scheme the output names decides the digest the signature can be over
		if lens := signedLens(pre.ser, out, lay, schemeHashOf(lay.scheme), []int{signedEnd}, false); len(lens) == 1 {
			sl = lens[0]
		}
	}
	r.entryCase(gen, doc, pre, scheme, hashName, keyName, oOk, sl, lay.hashAlg, desc)
	vout, _ := suiteVerifyFile(doc, out)
	raw := lerr == nil && lay.rawValid(out)
	input := map[string]interface{}{"shape": desc, "signed_file_hex": hexs(out)}
	switch {
	case vout == oOk && !raw:
		c.OracleFail(-1, fmt.Sprintf("Sign%s(%q, %q): the suite accepts the result although the stored signature is not valid (crypto/rsa) for the stored signed portion", docName(doc), scheme, hashName), "bootguard.Verify"+docName(doc), input)
	case vout == oOk:
		c.OracleOK()
		c.Count("sign/odd-request-signed-and-verifies")
	case judge:
		c.OracleFail(-1, fmt.Sprintf("Sign%s(%q, %q) with an RSA key reports success but the result does not verify: a request the tool does not offer must be refused, not mis-signed", docName(doc), scheme, hashName), "bootguard.Sign"+docName(doc), input)
	default:
		c.OracleOK()
		c.Count("sign/non-hash-name-accepted-unverifiable (outside the quantifier)")
	}
}

// signNames: null / unknown / default hash names and odd names in EVERY signing
// entry point, for both key sizes.
func (r *run) signNames() {
	n := 0
	nosweep := func(sf *signedFile) {
		if sf != nil {
			r.nosweep[sf.name] = true
		}
	}
	for _, ks := range [][2]string{{"A", "B"}, {"D", "E"}} {
		kk, bk := ks[0], ks[1]
		// ---- CBnT SignBPM: the hash choice left to the scheme, every spelling, both schemes
		for si, scheme := range []string{"RSASSA", "RSAPSS", "rsapss", "RsaSsa"} {
			for hi, hn := range []string{"ALGNULL", "ALGUNKNOWN", "AlgNull", "algunknown", "algNULL"} {
				if si >= 2 && hi%2 == si%2 {
					continue
				}
				n++
				b, d, err := r.freshDoc(2, 1, kk, bk, cbnt.AlgSHA256, n)
				if err != nil {
					continue
				}
				sf := r.signOne(b, 1, scheme, hn, bk, d, false, fmt.Sprintf("names-cbntbpm-%s-%s-%s", bk, scheme, hn))
				if hi > 0 || si > 1 {
					nosweep(sf)
				}
			}
			// explicit hashes in another letter case
			n++
			if b, d, err := r.freshDoc(2, 1, kk, bk, cbnt.AlgSHA256, n); err == nil {
				h := map[bool]string{false: "sha256", true: "Sha384"}[schemeHashOf(mustAlg(2, scheme)) == algSHA384]
				nosweep(r.signOne(b, 1, scheme, h, bk, d, false, fmt.Sprintf("names-cbntbpm-%s-%s-%s", bk, scheme, h)))
			}
		}
		// ---- CBnT SignKM: the KM's own PubKeyHashAlg is the request; null and unknown
		for _, scheme := range []string{"RSASSA", "RSAPSS", "rsassa"} {
			for _, pk := range []cbnt.Algorithm{cbnt.AlgNull, cbnt.AlgUnknown, cbnt.AlgSHA256, cbnt.AlgSHA384} {
				if scheme == "rsassa" && pk != cbnt.AlgSHA256 {
					continue
				}
				n++
				b, d, err := r.freshDoc(2, 0, kk, bk, pk, n)
				if err != nil {
					continue
				}
				nosweep(r.signOne(b, 0, scheme, "", kk, d, false, fmt.Sprintf("names-cbntkm-%s-%s-%d", kk, scheme, int(pk))))
			}
		}
		// ---- BG 1.0: no hash choice at all.  With a hash or null name its option table
		// knows, SignBPM must sign and the result must verify; with any other string a
		// refusal would do, success must still be a manifest that verifies
		for hi, hn := range []string{"ALGNULL", "ALGUNKNOWN", "SHA1", "sha256", "algnull"} {
			n++
			b, d, err := r.freshDoc(1, 1, kk, bk, 0, n)
			if err != nil {
				continue
			}
			scheme := []string{"RSASSA", "rsassa"}[hi%2]
			nosweep(r.signOne(b, 1, scheme, hn, bk, d, false, fmt.Sprintf("names-bgbpm-%s-%s-%q", bk, scheme, hn)))
		}
		for _, hn := range []string{"", "SHA384", "no-such-hash", "RSA"} {
			n++
			if b, d, err := r.freshDoc(1, 1, kk, bk, 0, n); err == nil {
				r.signMaybe(b, 1, "RSASSA", hn, bk, d, true)
			}
		}
		n++
		if b, d, err := r.freshDoc(1, 0, kk, bk, 0, n); err == nil {
			nosweep(r.signOne(b, 0, "rsaSSA", "", kk, d, false, fmt.Sprintf("names-bgkm-%s", kk)))
		}
		// ---- scheme names the tool does not offer for RSA keys / for this generation:
		// refused, or signed so that it verifies (BG 1.0 takes ALGUNKNOWN as "pick by key type")
		for _, bad := range []string{"", "FOO", "SHA256", "ECDSA", "SM2", "RSA", "ALGNULL", "ALGUNKNOWN", "RSAPSS ", "RSAPSS"} {
			for gen := 1; gen <= 2; gen++ {
				if gen == 2 && bad == "RSAPSS" {
					continue // offered for CBnT
				}
				for doc := 0; doc <= 1; doc++ {
					if kk == "D" && (doc+gen+len(bad))%2 == 0 {
						continue
					}
					n++
					b, d, err := r.freshDoc(gen, doc, kk, bk, cbnt.AlgSHA256, n)
					if err != nil {
						continue
					}
					r.signMaybe(b, doc, bad, "SHA256", []string{kk, bk}[doc], d, true)
				}
			}
		}
		// ---- CBnT SignBPM with a hash name that is unknown (must be refused: nothing
		// can be recorded for it) or known to the parser but not a hash (counted)
		for _, hn := range []string{"", "FOO", "SHA512", "SHA-256", "ALGNULL "} {
			n++
			if b, d, err := r.freshDoc(2, 1, kk, bk, cbnt.AlgSHA256, n); err == nil {
				r.signMaybe(b, 1, "RSASSA", hn, bk, d, true)
			}
		}
		for i, hn := range []string{"RSA", "RSASSA", "RSAPSS", "ECDSA", "ECC", "SM2"} {
			if kk == "D" && i%2 == 1 {
				continue
			}
			n++
			if b, d, err := r.freshDoc(2, 1, kk, bk, cbnt.AlgSHA256, n); err == nil {
				r.signMaybe(b, 1, []string{"RSASSA", "RSAPSS"}[i%2], hn, bk, d, false)
			}
		}
	}
	r.parseNames()
	r.signECC()
}

func mustAlg(gen int, name string) int {
	v, _ := algByName(gen, name)
	return v
}

// parseNames: the two GetAlgFromString tables against the model's parse_alg, and
// against the harness's own table (algByName, written from the option help texts).
func (r *run) parseNames() {
	c := r.c
	names := []string{"ALGUNKNOWN", "RSA", "SHA1", "SHA256", "SHA384", "SHA512", "SM3", "ALGNULL", "RSASSA", "RSAPSS", "ECDSA", "ECC", "SM2",
		"algnull", "AlgNull", "algUnknown", "sha256", "Sha384", "sm3", "rsapss", "RsaSsa", "ecdsa",
		"", " ", "SHA256 ", " SHA256", "SHA-256", "SHA2", "SHA25", "SHA2566", "NULL", "ALG", "ALGNUL", "ALGNULLL", "UNKNOWN", "0", "16", "0x10", "RSA2048", "RSA3072", "z", "{", "`", "@", "[", "ALGNULL\x00"}
	for gen := 1; gen <= 2; gen++ {
		for _, nme := range names {
			var id int
			var err error
			if gen == 1 {
				var a bg.Algorithm
				a, err = bg.GetAlgFromString(nme)
				id = int(a)
			} else {
				var a cbnt.Algorithm
				a, err = cbnt.GetAlgFromString(nme)
				id = int(a)
			}
			res := "None"
			if err == nil {
				res = fmt.Sprintf("(Some %d)", id)
			}
			idx := c.Add("parse-name", fmt.Sprintf("CParseName %d %s %s", gen, bzStr(nme), res), map[string]interface{}{"gen": gen, "name": nme}, err == nil)
			want, known := algByName(gen, nme)
			if known != (err == nil) || (known && want != id) {
				c.OracleFail(idx, fmt.Sprintf("GetAlgFromString(%q) of generation %d = (%d, %v); the documented names say (%d, known %v)", nme, gen, id, err, want, known), "GetAlgFromString", map[string]interface{}{"gen": gen, "name": nme})
			} else {
				c.OracleOK()
			}
		}
	}
}

// signECC: the tool generates ECC keys too (GenECCKey 224/256), but no scheme it
// offers verifies with them (fiano verifies RSA signatures only): outside the
// property's quantifier.  Counted; the one thing that holds regardless: the suite
// must not ACCEPT such a manifest (it cannot have checked anything).
func (r *run) signECC() {
	c := r.c
	n := 0
	for _, kn := range []string{"P", "Q"} {
		key := crypto.Signer(r.ecc[kn])
		for gen := 1; gen <= 2; gen++ {
			for doc := 0; doc <= 1; doc++ {
				for _, scheme := range []string{"RSASSA", "ECDSA", "ALGUNKNOWN"} {
					n++
					b, _, err := r.freshDoc(gen, doc, "A", "B", cbnt.AlgSHA256, n)
					if err != nil {
						continue
					}
					var out []byte
					var serr error
					p, _ := recoverCall(func() {
						if doc == 0 {
							out, serr = b.SignKM(scheme, key)
						} else {
							out, serr = b.SignBPM(scheme, "SHA256", key)
						}
					})
					tag := fmt.Sprintf("ecc/gen%d-%s-%s-%s: ", gen, docName(doc), scheme, map[string]string{"P": "P256", "Q": "P224"}[kn])
					switch {
					case p:
						c.Count(tag + "panic")
						c.OracleFail(-1, fmt.Sprintf("Sign%s(%q) with an ECC key panics", docName(doc), scheme), "bootguard.Sign"+docName(doc), map[string]interface{}{"gen": gen, "scheme": scheme, "curve": kn})
					case serr != nil:
						c.Count(tag + "refused")
						c.OracleOK()
					default:
						vout, _ := suiteVerifyFile(doc, out)
						if vout == oOk {
							c.Count(tag + "signed, accepted")
							c.OracleFail(-1, fmt.Sprintf("Sign%s(%q) with an ECC key: the suite accepts the result, although it has no way to check an ECC signature", docName(doc), scheme), "bootguard.Verify"+docName(doc), map[string]interface{}{"gen": gen, "scheme": scheme, "curve": kn, "file_hex": hexs(out)})
						} else {
							c.Count(tag + "signed, not verifiable (outside the quantifier)")
							c.OracleOK()
						}
					}
				}
			}
		}
	}
	_ = bytes.Equal
}
