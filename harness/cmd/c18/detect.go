package main

import (
	"bytes"
	"fmt"

	"github.com/9elements/converged-security-suite/v2/pkg/provisioning/bootguard"
	"github.com/linuxboot/fiano/pkg/intel/metadata/common/bgheader"
)

func (r *run) detectAndStruct() {
	c := r.c
	rg := c.Rng
	// ---- DetectBGV as NewKM / NewBPM use it
	detect := func(file []byte) {
		v, err := bgheader.DetectBGV(bytes.NewReader(file))
		res := "None"
		if err == nil {
			res = fmt.Sprintf("(Some %d)", int(v))
		}
		idx := c.Add("detect", fmt.Sprintf("CDetect %s %s", bz(file), res), map[string]interface{}{"file_hex": hexs(file)}, len(file) >= 9)
		// oracle: a file is parsed as 1.0 iff its version byte is 0x1?, as 2.0 iff >= 0x20
		want := 0
		if len(file) >= 9 {
			switch {
			case file[8] >= 0x20:
				want = 2
			case file[8] >= 0x10:
				want = 1
			}
		}
		got := 0
		if err == nil {
			got = int(v)
		}
		if got != want {
			c.OracleFail(idx, fmt.Sprintf("DetectBGV = %d, version byte says %d", got, want), "bgheader.DetectBGV", map[string]interface{}{"file_hex": hexs(file)})
		} else {
			c.OracleOK()
		}
	}
	for n := 0; n <= 12; n++ {
		f := rbytes(rg, n)
		if n > 8 {
			f[8] = 0x21
		}
		detect(f)
	}
	for _, v := range []int{0, 1, 0x0f, 0x10, 0x11, 0x1f, 0x20, 0x21, 0x23, 0x7f, 0x80, 0xff} {
		f := append([]byte("__KEYM__"), byte(v), 0, 0, 0)
		detect(f)
		detect(f[:9])
	}
	// ---- garbage, empty and truncated files through the whole verify path
	nTrunc := 0
	for _, sf := range r.signed {
		if !sf.verifies || c.Rng.Intn(3) != 0 || nTrunc >= c.Scale(14, 400) {
			continue
		}
		nTrunc++
		for _, n := range []int{0, 8, 9, sf.lay.signedEnd, sf.lay.ksOff + 1, sf.lay.keyData[1], sf.lay.sigData[0], len(sf.file) - 1} {
			if n < 0 || n > len(sf.file) {
				continue
			}
			out, idx := r.addVerifyCase("verify/truncated", sf.doc, sf.file[:n], map[string]interface{}{"file": sf.name, "length": n}, n > 9)
			if out == oOk {
				c.OracleFail(idx, fmt.Sprintf("truncated manifest (%d of %d bytes) verifies", n, len(sf.file)), "bootguard.Verify"+docName(sf.doc), map[string]interface{}{"file_hex": hexs(sf.file), "length": n})
			} else {
				c.OracleOK()
			}
		}
		// the other document type's reader
		out, idx := r.addVerifyCase("verify/wrong-doc", 1-sf.doc, sf.file, map[string]interface{}{"file": sf.name}, true)
		if out == oOk {
			c.OracleFail(idx, "a "+docName(sf.doc)+" verifies as a "+docName(1-sf.doc), "bootguard.Verify", map[string]interface{}{"file_hex": hexs(sf.file)})
		} else {
			c.OracleOK()
		}
		// trailing bytes are outside everything the property names
		r.addVerifyCase("verify/trailing", sf.doc, append(append([]byte(nil), sf.file...), rbytes(rg, 1+rg.Intn(9))...), map[string]interface{}{"file": sf.name}, true)
	}
	for i := 0; i < c.Scale(20, 100); i++ {
		f := rbytes(rg, rg.Intn(200))
		if len(f) > 9 && i%2 == 0 {
			copy(f, "__KEYM__")
			f[8] = []byte{0x10, 0x21}[i/2%2]
		}
		out, idx := r.addVerifyCase("verify/garbage", i%2, f, map[string]interface{}{"file_hex": hexs(f)}, false)
		if out == oOk {
			c.OracleFail(idx, "random bytes verify as a manifest", "bootguard.Verify", map[string]interface{}{"file_hex": hexs(f)})
		} else {
			c.OracleOK()
		}
	}
	// ---- VerifyKM / VerifyBPM on BootGuard values (no file): known and unknown Version
	structCase := r.structCase
	n := 0
	for _, sf := range r.signed {
		if n >= c.Scale(10, 40) {
			break
		}
		b, err := newDoc(sf.doc, sf.file)
		if err != nil {
			continue
		}
		n++
		pm, err := pmanOf(b, sf.doc)
		if err != nil {
			continue
		}
		vt := structVT(b, sf.doc, pm)
		structCase(b, sf.gen, sf.doc, pm, vt, map[string]interface{}{"file": sf.name, "version": sf.gen})
		// same value with a Version the switch does not know: logs and returns nil
		for _, v := range []int{0, 3, 255} {
			b.Version = bgheader.BootGuardVersion(v)
			out := structCase(b, v, sf.doc, pm, vt, map[string]interface{}{"file": sf.name, "version": v})
			if out == oOk && !sf.verifies {
				c.Count("verify/struct-unknown-version-accepts-unverifiable")
			}
		}
	}
}

// structCase: VerifyKM / VerifyBPM on a BootGuard VALUE (no file), as a
// correspondence case; returns the outcome.
func (r *run) structCase(b *bootguard.BootGuard, version int, doc int, pm pman, vt []vtEntry, descr map[string]interface{}) int {
	c := r.c
	var err error
	out := oOk
	p, _ := recoverCall(func() { err = verifyDoc(b, doc) })
	switch {
	case p:
		out = oPanic
	case err != nil:
		out = oErr
	}
	descr["outcome"] = out
	pl := &pool{}
	c.Add("verify/struct", pl.wrap(fmt.Sprintf("CVerifyStruct %d %d %s %s %s", version, doc, pm.litIn(pl), vtLit(vt, pl), obsUnit(out))), descr, true)
	return out
}

// structVT tabulates fiano's KeySignature.Verify of the value on the prefixes the glue may cut
func structVT(b *bootguard.BootGuard, doc int, pm pman) []vtEntry {
	var vt []vtEntry
	seen := map[int]bool{}
	for _, k := range []int{pm.keysig, pm.pmse, pm.pmseks} {
		if k <= len(pm.ser) && !seen[k] {
			seen[k] = true
			ok := false
			recoverCall(func() { ok = ksVerify(b, doc, pm.ser[:k]) })
			vt = append(vt, vtEntry{pm.ser[:k], ok})
		}
	}
	return vt
}
