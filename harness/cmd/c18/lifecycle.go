package main

// Life cycles of ONE manifest object: multi-step sequences on a reused KM / BPM
// (GetBPMPubHash more than once, a KM parsed from an existing signed file that is
// re-keyed and re-signed, a BPM signed again with another key, fields changed
// between two signings, failing calls in between).
//
// The oracle is written from the property text only:
//   - "the key whose hash was placed in the key manifest" is the key of the last
//     GetBPMPubHash call that reported success on that object (a failing call
//     places nothing and must leave the object alone);
//   - "the key that signed the boot policy manifest" is the key of the last
//     SignBPM call on that object;
//   - the binding check (KMHasBPMHash and BPMKeyMatchKMHash, on the structures and
//     through NewBPMAndKM on the written files) succeeds exactly when the two are
//     the same key;
//   - every manifest the suite signs verifies with the suite, whatever the object
//     went through before (judged by signOne);
//   - an object whose signed portion changed after signing is accepted only if the
//     stored signature is valid (crypto/rsa) for the stored signed portion.
// The model side (Model/Manifest.v km_place / km_step) is tied by one CKmLife case
// per KM life: the state of BGkm.BPKey / CBNTkm.Hash observed after every step.

import (
	"bytes"
	"crypto"
	"crypto/ed25519"
	"crypto/rsa"
	"encoding/binary"
	"fmt"
	"os"
	"strings"

	"github.com/9elements/converged-security-suite/v2/pkg/provisioning/bootguard"
	"github.com/linuxboot/fiano/pkg/intel/metadata/bg"
	"github.com/linuxboot/fiano/pkg/intel/metadata/bg/bgbootpolicy"
	"github.com/linuxboot/fiano/pkg/intel/metadata/bg/bgkey"
	"github.com/linuxboot/fiano/pkg/intel/metadata/cbnt"
	"github.com/linuxboot/fiano/pkg/intel/metadata/cbnt/cbntbootpolicy"
	"github.com/linuxboot/fiano/pkg/intel/metadata/cbnt/cbntkey"
	"verifharness/gal"
)

// algorithm names as the tool's --bpmhashalg style options spell them, per
// generation (BG 1.0 knows fewer names); value = TPM algorithm id
func algByName(gen int, name string) (int, bool) {
	common := map[string]int{"ALGUNKNOWN": 0, "RSA": 1, "SHA1": algSHA1, "SHA256": algSHA256, "ALGNULL": algNull, "RSASSA": algRSASSA}
	v2 := map[string]int{"SHA384": algSHA384, "SM3": algSM3, "RSAPSS": algRSAPSS, "ECDSA": 0x18, "ECC": 0x23, "SM2": 0x1b}
	n := strings.ToUpper(name)
	if v, ok := common[n]; ok {
		return v, true
	}
	if gen == 2 {
		if v, ok := v2[n]; ok {
			return v, true
		}
	}
	return 0, false
}

// key data as the manifests store an RSA key: exponent (4 bytes LE) + modulus (LE)
func keyDataOf(k *rsa.PublicKey) []byte {
	d := make([]byte, 4)
	binary.LittleEndian.PutUint32(d, uint32(k.E))
	return append(d, reverse(k.N.Bytes())...)
}

// what the KM object holds about the BPM key, as a Gallina [kmstate]
func kmStateLit(b *bootguard.BootGuard) string {
	if genOf(b) == 1 {
		h := b.VData.BGkm.BPKey
		return fmt.Sprintf("(KmBG %d %s)", int(h.HashAlg), bz(h.HashBuffer))
	}
	var hs []string
	for _, h := range b.VData.CBNTkm.Hash {
		hs = append(hs, fmt.Sprintf("mk_kmhash %s %d %s", gal.U(uint64(h.Usage)), int(h.Digest.HashAlg), bz(h.Digest.HashBuffer)))
	}
	return "(KmCBNT " + gal.List(hs) + ")"
}

type placed struct {
	key, alg string
}

type life struct {
	r       *run
	gen     int
	b       *bootguard.BootGuard
	name    string
	history []string // human-readable steps, part of every failing input
	steps   []string // Gallina (kmstep * obs unit * kmstate)
	st0     string
	ht      []hashEntry
	last    *placed // nil: nothing was placed in this object (as far as the harness knows)
	prev    *placed // the key placed before the last one
	hasSig  bool
}

func (l *life) input(extra map[string]interface{}) map[string]interface{} {
	m := map[string]interface{}{"object": l.name, "gen": l.gen, "history": append([]string(nil), l.history...)}
	for k, v := range extra {
		m[k] = v
	}
	return m
}

func (l *life) keep(what string) {
	l.history = append(l.history, what)
	l.steps = append(l.steps, fmt.Sprintf("(SKeep, OOk tt, %s)", kmStateLit(l.b)))
}

// BPM material to bind against: per generation and key one BPM structure signed by
// the suite and one file NewBPMAndKM can read (BG 1.0: signed by the harness over
// the range VerifyBPM checks, since the suite's own BG 1.0 signature never verifies)
type bpmMat struct {
	obj  *bootguard.BootGuard
	file []byte
}

func (r *run) lifeBPMs(names []string) map[int]map[string]*bpmMat {
	rg := r.c.Rng
	res := map[int]map[string]*bpmMat{1: {}, 2: {}}
	for i, n := range names {
		if b, _, err := buildBgBPM(rg, 1+i%3, i%2 == 1); err == nil {
			if out, err := b.SignBPM("RSASSA", "SHA256", r.keys[n]); err == nil {
				res[1][n] = &bpmMat{obj: b, file: append([]byte(nil), out...)}
			}
		}
		if b, _, err := buildCbntBPM(rg, 1+i%3, 1+i%2, i%2 == 0, false, false, false); err == nil {
			sch, h := "RSASSA", "SHA256"
			if i%2 == 1 {
				sch, h = "RSAPSS", "SHA384"
			}
			if out, err := b.SignBPM(sch, h, r.keys[n]); err == nil {
				res[2][n] = &bpmMat{obj: b, file: append([]byte(nil), out...)}
			}
		}
	}
	// a BPM whose key element holds an ECC key (the tool generates them; no signature
	// can be checked for it, the binding functions do not look at the signature)
	for n, k := range r.ecc {
		if b, _, err := buildCbntBPM(rg, 1, 1, false, false, false, false); err == nil {
			if b.VData.CBNTbpm.PMSE.KeySignature.Key.SetPubKey(&k.PublicKey) == nil {
				res[2][n] = &bpmMat{obj: b}
			}
		}
	}
	return res
}

// isECC: names of the ECC keys
func (r *run) isECC(name string) bool { _, ok := r.ecc[name]; return ok }

// struct-level binding of the KM object against the BPM signed by key y
func (l *life) bindStruct(mats map[string]*bpmMat, y string, tag string) {
	m := mats[y]
	if m == nil {
		return
	}
	var both *bootguard.BootGuard
	var err error
	if l.gen == 1 {
		both, err = bootguard.NewVData(bootguard.VersionedData{BGkm: l.b.VData.BGkm, BGbpm: m.obj.VData.BGbpm})
	} else {
		both, err = bootguard.NewVData(bootguard.VersionedData{CBNTkm: l.b.VData.CBNTkm, CBNTbpm: m.obj.VData.CBNTbpm})
	}
	if err != nil {
		return
	}
	var kdHex string
	if l.gen == 1 {
		kdHex = hexs(m.obj.VData.BGbpm.PMSE.KeySignature.Key.Data)
	} else {
		kdHex = hexs(m.obj.VData.CBNTbpm.PMSE.KeySignature.Key.Data)
	}
	l.bind(both, y, tag, map[string]interface{}{"km_state": kmStateLit(l.b), "bpm_key_data_hex": kdHex})
}

func (l *life) bind(both *bootguard.BootGuard, y, tag string, extra map[string]interface{}) {
	tr, fa := true, false
	var exp *bool
	refused := false
	if l.last != nil {
		exp = &fa
		if l.last.key == y {
			exp = &tr
		}
		refused = l.gen == 1 && strings.EqualFold(l.last.alg, "SHA1")
		// ECC keys can be generated and placed, but the suite binds RSA keys only: the
		// check has to fail closed, for the placed key and for every other key
		// (characterised by C18_binding_non_rsa_fails_closed)
		if l.r.isECC(l.last.key) || l.r.isECC(y) {
			refused = true
		}
	}
	d := l.input(map[string]interface{}{"check": tag, "bpm_signed_by": y})
	if l.last != nil {
		d["km_hash_of"], d["km_hash_alg"] = l.last.key, l.last.alg
	} else {
		d["km_hash_of"] = "(nothing placed)"
	}
	for k, v := range extra {
		d[k] = v
	}
	l.r.bindCase(both, d, exp, refused)
}

// place = GetBPMPubHash on the object.  keyName "" + badKey: a key type the
// manifests cannot hold.
func (l *life) place(keyName, algName string, badKey bool, mats map[string]*bpmMat) {
	c := l.r.c
	var pub crypto.PublicKey
	var kd []byte
	ecc := l.r.isECC(keyName)
	switch {
	case badKey:
		p, _, _ := ed25519.GenerateKey(zeroReader{})
		pub = p
	case ecc:
		// key data as fiano's key element stores the key (third party, called directly);
		// a curve it cannot hold (P-224) is a key the manifests cannot hold
		pub = &l.r.ecc[keyName].PublicKey
		var ke cbnt.Key
		if ke.SetPubKey(pub) == nil {
			kd = ke.Data
		} else {
			badKey = true
		}
	default:
		pk := pubOf(l.r.keys[keyName])
		pub = pk
		kd = keyDataOf(pk)
	}
	before := kmStateLit(l.b)
	var err error
	p, pmsg := recoverCall(func() { err = l.b.GetBPMPubHash(pub, algName) })
	after := kmStateLit(l.b)
	alg, known := algByName(l.gen, algName)
	req := "None"
	if known {
		req = fmt.Sprintf("(Some %d)", alg)
	}
	out := oOk
	switch {
	case p:
		out = oPanic
	case err != nil:
		out = oErr
	}
	shown := keyName
	if shown == "" {
		shown = "ed25519"
	}
	what := fmt.Sprintf("GetBPMPubHash(key %s, %q) -> %s", shown, algName, []string{"ok", "error", "panic " + pmsg}[out])
	l.history = append(l.history, what)
	l.steps = append(l.steps, fmt.Sprintf("(SPlace %s %s %s, %s, %s)", gal.Bool(!badKey), req, bz(kd), obsUnit(out), after))
	if !badKey && known && len(kd) >= 4 {
		if d, ok := stdHash(alg, kd[4:]); ok {
			l.ht = append(l.ht, hashEntry{alg, kd[4:], d})
		}
	}
	if out == oPanic {
		c.OracleFail(-1, "GetBPMPubHash panics instead of returning an error: "+pmsg, "bootguard.GetBPMPubHash", l.input(map[string]interface{}{"key_data_hex": hexs(kd), "hash_name": algName}))
	}
	if out != oOk {
		// nothing was placed: the object must be what it was
		if after != before {
			c.OracleFail(-1, "a GetBPMPubHash call that reports failure changed the key manifest", "bootguard.GetBPMPubHash", l.input(map[string]interface{}{"state_before": before, "state_after": after}))
		} else {
			c.OracleOK()
		}
		return
	}
	if badKey || !known {
		c.OracleFail(-1, "GetBPMPubHash reports success for a key / hash algorithm name the manifests cannot hold", "bootguard.GetBPMPubHash", l.input(nil))
		return
	}
	if l.last != nil && (l.last.key != keyName) {
		l.prev = l.last
	}
	l.last = &placed{keyName, algName}
	l.hasSig = false // whatever signature the object carries is over the old content
	if ecc {
		// what "the hash of an ECC key" is the property does not say; the state is tied to
		// the model by the CKmLife case, the binding below has to fail closed
		l.r.c.Count("life/ecc-key-placed")
		l.bindStruct(mats, keyName, "structures after GetBPMPubHash (ECC key)")
		for n := range mats {
			if !l.r.isECC(n) && (n == "B" || n == "E") {
				l.bindStruct(mats, n, "structures after GetBPMPubHash (ECC key)")
			}
		}
		return
	}
	// the digest placed is H(alg, modulus) of THIS key, all of it, whatever its size
	want, _ := stdHash(alg, kd[4:])
	found := false
	if l.gen == 1 {
		h := l.b.VData.BGkm.BPKey
		found = int(h.HashAlg) == alg && bytes.Equal(h.HashBuffer, want)
	} else {
		for _, h := range l.b.VData.CBNTkm.Hash {
			if h.Usage == cbntkey.UsageBPMSigningPKD && int(h.Digest.HashAlg) == alg && bytes.Equal(h.Digest.HashBuffer, want) {
				found = true
			}
		}
	}
	if !found {
		c.OracleFail(-1, fmt.Sprintf("GetBPMPubHash on an RSA-%d key does not store H(%s, modulus) of the given key as the BPM-signing digest", (len(kd)-4)*8, algName), "bootguard.GetBPMPubHash", l.input(map[string]interface{}{"state_after": after, "key_data_hex": hexs(kd), "key_bits": (len(kd) - 4) * 8, "hash_name": algName, "expected_digest_hex": hexs(want)}))
	} else {
		c.OracleOK()
	}
	// binding on the structures, right away: the key just placed, and the one it replaced
	l.bindStruct(mats, keyName, "structures after GetBPMPubHash")
	other := ""
	if l.prev != nil && l.prev.key != keyName {
		other = l.prev.key
	} else {
		for n := range mats {
			if n != keyName && !l.r.isECC(n) && (other == "" || n < other) {
				other = n
			}
		}
	}
	if other != "" {
		l.bindStruct(mats, other, "structures after GetBPMPubHash")
	}
}

type zeroReader struct{}

func (zeroReader) Read(p []byte) (int, error) {
	for i := range p {
		p[i] = 0x5a
	}
	return len(p), nil
}

// staleCheck: the object as it is now, written out: the suite may accept it only if
// the stored signature is valid for the stored signed portion.
func (l *life) staleCheck(doc int, why string) {
	c := l.r.c
	pm, err := pmanOf(l.b, doc)
	if err != nil {
		return
	}
	var signedEnd, ksOff int
	switch {
	case doc == 0:
		signedEnd, ksOff = pm.keysig, pm.keysig
	case l.gen == 1:
		signedEnd, ksOff = pm.pmse, pm.pmse+9
	default:
		signedEnd, ksOff = pm.pmse+12, pm.pmse+12
	}
	file := append([]byte(nil), pm.ser...)
	lay, lerr := parseLayout(file, l.gen, doc, signedEnd, ksOff)
	out, idx := l.r.addVerifyCase("verify/life-changed-after-signing", doc, file, l.input(map[string]interface{}{"why": why}), true)
	raw := lerr == nil && lay.rawValid(file)
	if out == oOk && !raw {
		c.OracleFail(idx, fmt.Sprintf("%s changed after signing (%s) is still accepted: the stored signature is not valid for the stored signed portion", docName(doc), why), "bootguard.Verify"+docName(doc), l.input(map[string]interface{}{"file_hex": hexs(file), "why": why}))
	} else {
		c.OracleOK()
	}
	l.verifyObject(doc, why, false)
}

// verifyObject: VerifyKM / VerifyBPM on the OBJECT itself (not on a file parsed anew).
// It may accept only if what the object holds carries a valid signature; and an
// object whose written file verifies must itself verify.
func (l *life) verifyObject(doc int, why string, fileVerifies bool) {
	c := l.r.c
	pm, err := pmanOf(l.b, doc)
	if err != nil {
		return
	}
	var signedEnd, ksOff int
	switch {
	case doc == 0:
		signedEnd, ksOff = pm.keysig, pm.keysig
	case l.gen == 1:
		signedEnd, ksOff = pm.pmse, pm.pmse+9
	default:
		signedEnd, ksOff = pm.pmse+12, pm.pmse+12
	}
	lay, lerr := parseLayout(pm.ser, l.gen, doc, signedEnd, ksOff)
	raw := lerr == nil && lay.rawValid(pm.ser)
	out := l.r.structCase(l.b, l.gen, doc, pm, structVT(l.b, doc, pm), l.input(map[string]interface{}{"why": why}))
	switch {
	case out == oOk && !raw:
		c.OracleFail(-1, fmt.Sprintf("Verify%s on the object (%s) succeeds although the signature it holds is not valid for the signed portion it holds", docName(doc), why), "bootguard.Verify"+docName(doc), l.input(map[string]interface{}{"object_serialised_hex": hexs(pm.ser), "why": why}))
	case out != oOk && fileVerifies:
		c.OracleFail(-1, fmt.Sprintf("Verify%s on the object (%s) fails although the file it wrote verifies", docName(doc), why), "bootguard.Verify"+docName(doc), l.input(map[string]interface{}{"object_serialised_hex": hexs(pm.ser), "why": why}))
	default:
		c.OracleOK()
	}
}

func (l *life) finishKM() {
	lit := fmt.Sprintf("CKmLife %s %s %s", l.st0, gal.List(l.steps), htLit(l.ht))
	l.r.c.Add(fmt.Sprintf("life/gen%d-KM", l.gen), lit, map[string]interface{}{"object": l.name, "history": l.history}, true)
}

// ---- key manifests ----

func (r *run) kmLife(gen, i int, names []string, mats map[string]*bpmMat, parsedFrom []*signedFile) {
	c := r.c
	rg := c.Rng
	l := &life{r: r, gen: gen, name: fmt.Sprintf("life-km-gen%d-%d", gen, i)}
	kmKey := "A"
	pick := func() string { return names[rg.Intn(len(names))] }
	algs := []string{"SHA256", "SHA256", "SHA256", "SHA1"}
	if gen == 2 {
		algs = []string{"SHA256", "SHA384", "SM3", "SHA1", "sha256"}
	}
	pickAlg := func() string { return algs[rg.Intn(len(algs))] }
	// the scheme must fit the KM's PubKeyHashAlg for the CBnT signature to verify
	// (the other pairs are the known finding C18-cbnt-sign-hash-label, covered by signAll)
	scheme, pkName, pkAlg := "RSASSA", "SHA256", cbnt.AlgSHA256
	if gen == 2 && rg.Intn(2) == 0 {
		scheme, pkName, pkAlg = "RSAPSS", "SHA384", cbnt.AlgSHA384
	}
	// ---- where the object comes from
	start := i % 4
	if start == 2 && len(parsedFrom) == 0 {
		start = 0
	}
	switch start {
	case 0: // built a moment ago, one GetBPMPubHash call behind it, entries of other usages around it
		k0, a0 := pick(), pickAlg()
		if gen == 1 {
			b, _, err := buildBgKM(rg, pubOf(r.keys[kmKey]), pubOf(r.keys[k0]), a0)
			if err != nil {
				return
			}
			l.b = b
		} else {
			b, _, err := buildCbntKM(rg, pubOf(r.keys[kmKey]), pubOf(r.keys[k0]), pkAlg, a0, rg.Intn(4))
			if err != nil {
				return
			}
			l.b = b
		}
		l.last = &placed{k0, a0}
		l.history = append(l.history, fmt.Sprintf("new KM; GetBPMPubHash(key %s, %q); other-usage entries added", k0, a0))
	case 1: // a KM nothing was placed in yet
		if gen == 1 {
			km := bgkey.NewManifest()
			km.KMSVN = bg.SVN(edge8(rg, 15))
			km.KMID = uint8(edge8(rg, 255))
			b, err := bootguard.NewVData(bootguard.VersionedData{BGkm: km})
			if err != nil || km.KeyAndSignature.Key.SetPubKey(pubOf(r.keys[kmKey])) != nil {
				return
			}
			l.b = b
		} else {
			b, _, err := buildCbntKM(rg, pubOf(r.keys[kmKey]), nil, pkAlg, "", -1)
			if err != nil {
				return
			}
			l.b = b
		}
		l.history = append(l.history, "new KM without a BPM-key hash")
	case 2: // parsed from an existing, verifying signed file (bg-prov: km-sign output of an earlier run)
		sf := parsedFrom[rg.Intn(len(parsedFrom))]
		b, err := bootguard.NewKM(bytes.NewReader(sf.file))
		if err != nil {
			return
		}
		l.b = b
		l.hasSig = true
		if bk, ok := sf.desc["bpmkey"]; ok {
			l.last = &placed{fmt.Sprint(bk), fmt.Sprint(sf.desc["bpmhash"])}
		}
		kmKey = fmt.Sprint(sf.desc["key"])
		if gen == 2 {
			// keep signing with the pair the file was made with
			scheme, pkName = fmt.Sprint(sf.desc["scheme"]), fmt.Sprint(sf.desc["hash"])
			pkAlg = l.b.VData.CBNTkm.PubKeyHashAlg
		}
		l.history = append(l.history, "NewKM("+sf.name+")")
	case 3: // written unsigned and read back (km-gen | km-sign), then one call
		k0, a0 := pick(), pickAlg()
		var b *bootguard.BootGuard
		var err error
		if gen == 1 {
			b, _, err = buildBgKM(rg, pubOf(r.keys[kmKey]), pubOf(r.keys[k0]), a0)
		} else {
			b, _, err = buildCbntKM(rg, pubOf(r.keys[kmKey]), pubOf(r.keys[k0]), pkAlg, a0, rg.Intn(3))
		}
		if err != nil {
			return
		}
		b2, err := roundTrip(b, 0)
		if err != nil {
			return
		}
		l.b = b2
		l.last = &placed{k0, a0}
		l.history = append(l.history, fmt.Sprintf("new KM; GetBPMPubHash(key %s, %q); WriteKM; NewKM", k0, a0))
	}
	l.st0 = kmStateLit(l.b)

	sign := func() {
		if gen == 2 {
			l.b.VData.CBNTkm.PubKeyHashAlg = pkAlg
		}
		d := shapeDesc{"gen": gen, "doc": "KM", "life": l.name, "history": append([]string(nil), l.history...)}
		sf := r.signOne(l.b, 0, scheme, pkName, kmKey, d, false, fmt.Sprintf("%s-sign%d", l.name, len(l.history)))
		l.keep(fmt.Sprintf("SignKM(%s, key %s)", scheme, kmKey))
		if sf == nil {
			return
		}
		l.hasSig = true
		l.verifyObject(0, "just signed", sf.verifies)
		// the binding check through the files, as bg-suite does it: the key in place, the
		// one it replaced, one more of each size (thorough: every key)
		for yi, y := range names {
			m := mats[y]
			if m == nil {
				continue
			}
			if !c.Thorough() && !(l.last != nil && y == l.last.key) && !(l.prev != nil && y == l.prev.key) && yi != len(l.history)%len(names) && yi != (len(l.history)+3)%len(names) {
				continue
			}
			both, err := bootguard.NewBPMAndKM(bytes.NewReader(m.file), bytes.NewReader(sf.file))
			if err != nil {
				c.OracleFail(-1, "NewBPMAndKM cannot read a KM the suite signed: "+err.Error(), "bootguard.NewBPMAndKM", l.input(map[string]interface{}{"km_file_hex": hexs(sf.file)}))
				continue
			}
			l.bind(both, y, "files after SignKM", map[string]interface{}{"km_file_hex": hexs(sf.file), "bpm_file_hex": hexs(m.file)})
		}
	}
	reparse := func() {
		out, err := l.b.WriteKM()
		if err != nil {
			return
		}
		b2, err := bootguard.NewKM(bytes.NewReader(append([]byte(nil), out...)))
		if err != nil {
			c.OracleFail(-1, "NewKM cannot read what WriteKM wrote: "+err.Error(), "bootguard.NewKM", l.input(map[string]interface{}{"file_hex": hexs(out)}))
			return
		}
		l.b = b2
		l.keep("WriteKM; NewKM")
	}
	edit := func() {
		if gen == 1 {
			l.b.VData.BGkm.KMSVN = (l.b.VData.BGkm.KMSVN + 1) % 16
		} else {
			l.b.VData.CBNTkm.KMSVN = (l.b.VData.CBNTkm.KMSVN + 1) % 16
		}
		l.keep("KMSVN+1")
		if l.hasSig {
			l.staleCheck(0, "KMSVN incremented")
			l.hasSig = false
		}
	}
	placeNew := func() {
		// prefer a key other than the one in place: the re-keying case
		k := pick()
		if l.last != nil && k == l.last.key && rg.Intn(4) != 0 {
			for _, n := range names {
				if n != l.last.key {
					k = n
					break
				}
			}
			if rg.Intn(2) == 0 {
				k = names[(indexOf(names, l.last.key)+1+rg.Intn(len(names)-1))%len(names)]
			}
		}
		hadSig, before := l.hasSig, kmStateLit(l.b)
		l.place(k, pickAlg(), false, mats)
		if hadSig && kmStateLit(l.b) != before && rg.Intn(2) == 0 {
			l.staleCheck(0, "BPM key hash replaced")
		}
	}
	badPlace := func() {
		switch rg.Intn(7) {
		case 0:
			l.place(pick(), "FOO", false, mats)
		case 1:
			l.place(pick(), []string{"SHA384", "SHA512"}[gen-1], false, mats) // hash names this generation's option parser does not know
		case 2:
			l.place(pick(), "RSA", false, mats) // a name the parser knows, not a hash
		case 3:
			l.place("", "SHA256", true, mats)
		case 4:
			// the null names: there is no "default" digest for a key hash, nothing may be placed
			l.place(pick(), []string{"ALGNULL", "ALGUNKNOWN", "algnull"}[rg.Intn(3)], false, mats)
		case 5:
			l.place("Q", "SHA256", false, mats) // ECC P-224: a curve the key element cannot hold
		case 6:
			l.place(pick(), "", false, mats)
		}
	}
	eccPlace := func() {
		l.place([]string{"P", "P2"}[rg.Intn(2)], pickAlg(), false, mats)
	}
	// ---- the sequence: at least one call on the reused object, signings in between
	n := 3 + rg.Intn(4)
	placedOnce := false
	for s := 0; s < n; s++ {
		switch x := rg.Intn(21); {
		case x == 20:
			eccPlace()
		case x < 8:
			placeNew()
			placedOnce = true
		case x < 11:
			sign()
		case x < 14:
			reparse()
		case x < 17:
			edit()
		default:
			badPlace()
		}
	}
	if !placedOnce {
		placeNew()
	}
	if rg.Intn(3) == 0 {
		badPlace()
	}
	if rg.Intn(3) == 0 {
		reparse()
	}
	sign()
	l.finishKM()
}

func indexOf(l []string, s string) int {
	for i, x := range l {
		if x == s {
			return i
		}
	}
	return 0
}

// ---- boot policy manifests: signed again with another key ----

func (r *run) bpmLife(gen, i int, names []string, kmFor map[string]*bootguard.BootGuard, kmFiles map[string][]byte) {
	c := r.c
	rg := c.Rng
	l := &life{r: r, gen: gen, name: fmt.Sprintf("life-bpm-gen%d-%d", gen, i)}
	var b *bootguard.BootGuard
	var err error
	if gen == 1 {
		b, _, err = buildBgBPM(rg, 1+rg.Intn(3), rg.Intn(2) == 0)
	} else {
		b, _, err = buildCbntBPM(rg, 1+rg.Intn(3), 1+rg.Intn(2), rg.Intn(2) == 0, false, rg.Intn(3) == 0, false)
	}
	if err != nil {
		return
	}
	l.b = b
	l.history = append(l.history, "new BPM")
	signer := ""
	// pairs that verify: the scheme's own digest, or the choice left to the scheme
	combos := [][2]string{{"RSASSA", "SHA256"}, {"RSAPSS", "SHA384"}, {"RSAPSS", "ALGNULL"}, {"RSASSA", "AlgUnknown"}, {"rsapss", "algnull"}, {"RSASSA", "ALGNULL"}}
	var lastFile []byte
	sign := func(k string) {
		cb := combos[0]
		if gen == 2 {
			cb = combos[rg.Intn(len(combos))]
		} else if rg.Intn(2) == 0 {
			cb = [2]string{"RSASSA", []string{"ALGNULL", "ALGUNKNOWN", "SHA1"}[rg.Intn(3)]} // BG 1.0: there is no hash choice
		}
		d := shapeDesc{"gen": gen, "doc": "BPM", "life": l.name, "history": append([]string(nil), l.history...)}
		sf := r.signOne(l.b, 1, cb[0], cb[1], k, d, false, fmt.Sprintf("%s-sign%d", l.name, len(l.history)))
		l.history = append(l.history, fmt.Sprintf("SignBPM(%s, %s, key %s)", cb[0], cb[1], k))
		if sf == nil {
			return
		}
		signer = k
		l.hasSig = true
		lastFile = sf.file
		l.verifyObject(1, "just signed", sf.verifies)
		// binding: KM made for key z against this BPM, on the structures and through the files
		for _, z := range names {
			tr, fa := true, false
			exp := &fa
			if z == signer {
				exp = &tr
			}
			d := l.input(map[string]interface{}{"km_hash_of": z, "km_hash_alg": "SHA256", "bpm_signed_by": signer})
			var both *bootguard.BootGuard
			var err error
			if rg.Intn(2) == 0 && kmFiles[z] != nil {
				d["check"] = "files after SignBPM"
				d["km_file_hex"], d["bpm_file_hex"] = hexs(kmFiles[z]), hexs(sf.file)
				both, err = bootguard.NewBPMAndKM(bytes.NewReader(sf.file), bytes.NewReader(kmFiles[z]))
			} else if gen == 1 {
				d["check"] = "structures after SignBPM"
				both, err = bootguard.NewVData(bootguard.VersionedData{BGkm: kmFor[z].VData.BGkm, BGbpm: l.b.VData.BGbpm})
			} else {
				d["check"] = "structures after SignBPM"
				both, err = bootguard.NewVData(bootguard.VersionedData{CBNTkm: kmFor[z].VData.CBNTkm, CBNTbpm: l.b.VData.CBNTbpm})
			}
			if err != nil {
				c.OracleFail(-1, "cannot put the signed BPM next to a KM: "+err.Error(), "bootguard.NewBPMAndKM", d)
				continue
			}
			r.bindCase(both, d, exp, false)
		}
	}
	reparse := func() {
		if lastFile == nil {
			return
		}
		b2, err := bootguard.NewBPM(bytes.NewReader(lastFile))
		if err != nil {
			c.OracleFail(-1, "NewBPM cannot read a BPM the suite signed: "+err.Error(), "bootguard.NewBPM", l.input(map[string]interface{}{"file_hex": hexs(lastFile)}))
			return
		}
		l.b = b2
		l.history = append(l.history, "NewBPM(signed file)")
	}
	edit := func() {
		if gen == 1 {
			l.b.VData.BGbpm.BPMH.BPMSVN = (l.b.VData.BGbpm.BPMH.BPMSVN + 1) % 16
		} else {
			l.b.VData.CBNTbpm.BPMH.BPMSVN = (l.b.VData.CBNTbpm.BPMH.BPMSVN + 1) % 16
		}
		l.history = append(l.history, "BPMSVN+1")
		if l.hasSig {
			l.staleCheck(1, "BPMSVN incremented")
			l.hasSig = false
		}
	}
	k1 := names[rg.Intn(len(names))]
	k2 := names[(indexOf(names, k1)+1+rg.Intn(len(names)-1))%len(names)]
	sign(k1)
	if rg.Intn(2) == 0 {
		reparse()
	}
	if rg.Intn(2) == 0 {
		edit()
	}
	sign(k2)
	if rg.Intn(3) == 0 {
		reparse()
		edit()
		sign(names[rg.Intn(len(names))])
	}
	_ = bgbootpolicy.NewSignature
	_ = cbntbootpolicy.NewSignature
}

func (r *run) lifecycles() {
	c := r.c
	rg := c.Rng
	names := []string{"A", "B", "C", "D", "E"} // both key sizes, every tier
	mats := r.lifeBPMs(names)
	keep := len(r.signed)
	var parsed [3][]*signedFile
	for _, sf := range r.signed {
		if sf.doc == 0 && sf.by == "suite" && sf.verifies {
			parsed[sf.gen] = append(parsed[sf.gen], sf)
		}
	}
	// KMs made for each key, to bind re-signed BPMs against
	kmFor := map[int]map[string]*bootguard.BootGuard{1: {}, 2: {}}
	kmFiles := map[int]map[string][]byte{1: {}, 2: {}}
	for _, z := range names {
		if b, _, err := buildBgKM(rg, pubOf(r.keys["A"]), pubOf(r.keys[z]), "SHA256"); err == nil {
			kmFor[1][z] = b
			if out, err := b.SignKM("RSASSA", r.keys["A"]); err == nil {
				kmFiles[1][z] = append([]byte(nil), out...)
			}
		}
		if b, _, err := buildCbntKM(rg, pubOf(r.keys["A"]), pubOf(r.keys[z]), cbnt.AlgSHA256, "SHA256", rg.Intn(3)); err == nil {
			kmFor[2][z] = b
			if out, err := b.SignKM("RSASSA", r.keys["A"]); err == nil {
				kmFiles[2][z] = append([]byte(nil), out...)
			}
		}
	}
	nKM, nBPM := c.Scale(10, 40), c.Scale(4, 16)
	for gen := 1; gen <= 2; gen++ {
		for i := 0; i < nKM; i++ {
			c.Begin(fmt.Sprintf("KM life cycle gen %d #%d", gen, i), "bootguard.GetBPMPubHash/SignKM/NewKM", map[string]interface{}{"gen": gen, "i": i})
			r.kmLife(gen, i, names, mats[gen], parsed[gen])
		}
		for i := 0; i < nBPM; i++ {
			c.Begin(fmt.Sprintf("BPM life cycle gen %d #%d", gen, i), "bootguard.SignBPM/NewBPM", map[string]interface{}{"gen": gen, "i": i})
			r.bpmLife(gen, i, names, kmFor[gen], kmFiles[gen])
		}
	}
	// the artifact shipped with the repository: a signed CBnT KM of unknown provenance, re-keyed
	repo := os.Getenv("VERIF_REPO")
	if repo == "" {
		repo = "/repo"
	}
	if data, err := os.ReadFile(repo + "/pkg/provisioning/bootguard/test_artifacts/km.signed"); err == nil {
		if b, err := bootguard.NewKM(bytes.NewReader(data)); err == nil && genOf(b) == 2 {
			l := &life{r: r, gen: 2, b: b, name: "life-km-artifact", hasSig: true}
			l.history = append(l.history, "NewKM(test_artifacts/km.signed)")
			if len(b.VData.CBNTkm.Hash) > 0 {
				// whatever it holds was not placed by this run: no statement until a call is made
				l.history = append(l.history, fmt.Sprintf("(holds %d hash entries)", len(b.VData.CBNTkm.Hash)))
			}
			l.st0 = kmStateLit(b)
			l.place("B", "SHA256", false, mats[2])
			l.place("C", "SHA384", false, mats[2])
			b.VData.CBNTkm.PubKeyHashAlg = cbnt.AlgSHA256
			d := shapeDesc{"gen": 2, "doc": "KM", "life": l.name, "history": append([]string(nil), l.history...)}
			if sf := r.signOne(b, 0, "RSASSA", "SHA256", "A", d, false, "life-km-artifact-sign"); sf != nil {
				l.keep("SignKM(RSASSA, key A)")
				for _, y := range names {
					if m := mats[2][y]; m != nil {
						if both, err := bootguard.NewBPMAndKM(bytes.NewReader(m.file), bytes.NewReader(sf.file)); err == nil {
							l.bind(both, y, "files after SignKM", map[string]interface{}{"km_file_hex": hexs(sf.file), "bpm_file_hex": hexs(m.file)})
						}
					}
				}
			}
			l.finishKM()
		}
	}
	r.signed = r.signed[:keep]
}
