package main

import (
	"bytes"
	"crypto/rand"
	"crypto/rsa"
	"crypto/x509"
	"encoding/pem"
	"fmt"
	"os"
	"path/filepath"

	"github.com/9elements/converged-security-suite/v2/pkg/provisioning/bootguard"
	"github.com/linuxboot/fiano/pkg/intel/metadata/bg"
	"github.com/linuxboot/fiano/pkg/intel/metadata/cbnt"
)

// genPair runs the suite's own key generation (bg-prov keygen) and reads the keys
// back through DecryptPrivKey / ReadPubKey.
func (r *run) genPair(bits int, password, n1, n2 string) {
	c := r.c
	dir, err := os.MkdirTemp("", "c18keys")
	if err != nil {
		panic(err)
	}
	defer os.RemoveAll(dir)
	names := []string{"km_pub.pem", "km_priv.pem", "bpm_pub.pem", "bpm_priv.pem"}
	files := make([]*os.File, 4)
	for i, n := range names {
		files[i], err = os.Create(filepath.Join(dir, n))
		if err != nil {
			panic(err)
		}
	}
	err = bootguard.GenRSAKey(bits, password, files[0], files[1], files[2], files[3])
	for _, f := range files {
		f.Close()
	}
	if err != nil {
		c.OracleFail(-1, fmt.Sprintf("GenRSAKey(%d) failed: %v", bits, err), "bootguard.GenRSAKey", map[string]interface{}{"bits": bits})
		panic(err)
	}
	for i, name := range []string{n1, n2} {
		enc, _ := os.ReadFile(filepath.Join(dir, names[1+2*i]))
		var k interface{}
		p, pm := recoverCall(func() { k, err = bootguard.DecryptPrivKey(enc, password) })
		rk, ok := k.(*rsa.PrivateKey)
		if p || err != nil || !ok {
			c.OracleFail(-1, fmt.Sprintf("key written by GenRSAKey does not decrypt with its own password: panic=%v %s err=%v", p, pm, err), "bootguard.DecryptPrivKey", map[string]interface{}{"bits": bits, "password": password, "file_hex": hexs(enc)})
			panic("keygen")
		}
		pub, perr := bootguard.ReadPubKey(filepath.Join(dir, names[2*i]))
		rp, ok2 := pub.(*rsa.PublicKey)
		if perr != nil || !ok2 || rp.N.Cmp(rk.N) != 0 || rp.E != rk.E || rk.N.BitLen() != bits {
			c.OracleFail(-1, "public key file written by GenRSAKey does not belong to the private key / wrong size", "bootguard.GenRSAKey", map[string]interface{}{"bits": bits})
		} else {
			c.OracleOK()
		}
		// wrong password must not open it
		var werr error
		p, _ = recoverCall(func() { _, werr = bootguard.DecryptPrivKey(enc, password+"x") })
		if !p && werr == nil {
			c.OracleFail(-1, "private key written by GenRSAKey decrypts with a different password", "bootguard.DecryptPrivKey", map[string]interface{}{"bits": bits, "password": password, "tried": password + "x", "file_hex": hexs(enc)})
		} else {
			c.OracleOK()
		}
		r.keys[name] = rk
	}
}

func (r *run) makeKeys() {
	r.genPair(2048, "c18-keygen-pw", "A", "B")
	k, err := rsa.GenerateKey(rand.Reader, 2048)
	if err != nil {
		panic(err)
	}
	r.keys["C"] = k
	if r.c.Thorough() {
		r.genPair(3072, "c18-keygen-pw-3072", "D", "E")
	}
	// sizes the tool does not offer
	for _, bits := range []int{0, 1024, 2047, 4096} {
		err := bootguard.GenRSAKey(bits, "x", nil, nil, nil, nil)
		if err == nil {
			r.c.OracleFail(-1, fmt.Sprintf("GenRSAKey accepts key size %d", bits), "bootguard.GenRSAKey", map[string]interface{}{"bits": bits})
		} else {
			r.c.OracleOK()
		}
	}
}

func pemOf(k interface{}) []byte {
	b, err := x509.MarshalPKCS8PrivateKey(k)
	if err != nil {
		panic(err)
	}
	return pem.EncodeToMemory(&pem.Block{Type: "PRIVATE KEY", Bytes: b})
}

// roundTrip: write the unsigned manifest, read it back with NewKM / NewBPM (the
// bg-prov flow: km-gen | km-sign, bpm-gen --cut | bpm-sign).
func roundTrip(b *bootguard.BootGuard, doc int) (*bootguard.BootGuard, error) {
	if doc == 0 {
		un, err := b.WriteKM()
		if err != nil {
			return nil, err
		}
		return bootguard.NewKM(bytes.NewReader(un))
	}
	un, err := b.WriteBPM()
	if err != nil {
		return nil, err
	}
	if genOf(b) == 2 {
		un = un[:b.VData.CBNTbpm.KeySignatureOffset]
	} else {
		// BG 1.0: the only unsigned form NewBPM reads is the manifest up to and including
		// the header of the signature element ("__PMSG__" + version).  The bpm-gen-v1 --cut
		// output ([:PMSEOffset()], exactly the bytes to be signed, like the other three
		// --cut outputs) is for an external signer: fiano's reader insists on a signature
		// element; the uncut unsigned manifest ends in an empty key (unexpected EOF).
		un = un[:b.VData.BGbpm.PMSEOffset()+9]
	}
	return bootguard.NewBPM(bytes.NewReader(un))
}

func (r *run) signAll() {
	c := r.c
	rg := c.Rng
	kmKeys := []string{"A"}
	bpmKeys := []string{"B"}
	if c.Thorough() {
		kmKeys = append(kmKeys, "D")
		bpmKeys = append(bpmKeys, "E")
	}
	nShapes := c.Scale(6, 12)
	full := 0
	fullSearch := func() bool { full++; return full%5 == 1 || c.Thorough() }
	type combo struct{ scheme, hash string }
	main4 := []combo{{"RSASSA", "SHA256"}, {"RSAPSS", "SHA384"}, {"RSASSA", "SHA384"}, {"RSAPSS", "SHA256"}}
	odd := []combo{{"RSASSA", "SHA1"}, {"RSAPSS", "SM3"}, {"RSASSA", "AlgNull"}, {"RSAPSS", "AlgNull"}}
	for ki := range kmKeys {
		kk, bk := kmKeys[ki], bpmKeys[ki]
		for s := 0; s < nShapes; s++ {
			forceEdge = 0
			if s < 2 {
				forceEdge = s + 1
			}
			// ---- BG 1.0 KM
			bh := "SHA256"
			if s%4 == 3 {
				bh = "SHA1"
			}
			if b, d, err := buildBgKM(rg, pubOf(r.keys[kk]), pubOf(r.keys[bk]), bh); err == nil {
				if s%2 == 1 {
					if b2, err := roundTrip(b, 0); err == nil {
						b = b2
						d["flow"] = "file"
					}
				}
				r.signOne(b, 0, "RSASSA", "", kk, d, fullSearch(), fmt.Sprintf("bgkm-%s-%d", kk, s))
			} else {
				c.OracleFail(-1, "cannot build BG KM: "+err.Error(), "harness", nil)
			}
			// ---- BG 1.0 BPM
			if b, d, err := buildBgBPM(rg, s%7, s%2 == 1); err == nil {
				if s%3 == 2 {
					// unsigned manifest through a file, then bpm-sign
					if b2, err := roundTrip(b, 1); err == nil {
						b = b2
						d["flow"] = "file"
					} else {
						c.Count("bgbpm-unsigned-file-not-readable")
					}
				}
				r.signOne(b, 1, "RSASSA", "SHA256", bk, d, fullSearch(), fmt.Sprintf("bgbpm-%s-%d", bk, s))
				if s < 2 {
					r.harnessSignBgBPM(b, bk, d, fmt.Sprintf("bgbpm-h-%s-%d", bk, s))
				}
			} else {
				c.OracleFail(-1, "cannot build BG BPM: "+err.Error(), "harness", nil)
			}
			// ---- CBnT KM / BPM
			combos := []combo{main4[s%2], main4[2+s%2]}
			if s == 0 {
				combos = append(append([]combo{}, main4...), odd...)
			}
			for ci, cb := range combos {
				pk, _ := cbnt.GetAlgFromString(cb.hash)
				bpmHash := []string{"SHA256", "SHA384", "SHA1", "SM3"}[(s+ci)%4]
				extra := (s + ci) % 4
				if s == 1 && ci == 0 {
					extra = -1
				}
				if b, d, err := buildCbntKM(rg, pubOf(r.keys[kk]), pubOf(r.keys[bk]), pk, bpmHash, extra); err == nil {
					if (s+ci)%2 == 1 {
						if b2, err := roundTrip(b, 0); err == nil {
							b = b2
							d["flow"] = "file"
						}
					}
					r.signOne(b, 0, cb.scheme, cb.hash, kk, d, fullSearch(), fmt.Sprintf("cbntkm-%s-%d-%s-%s", kk, s, cb.scheme, cb.hash))
				} else {
					c.OracleFail(-1, "cannot build CBnT KM: "+err.Error(), "harness", nil)
				}
				if b, d, err := buildCbntBPM(rg, (s+ci)%7, 1+(s+ci)%3, (s+ci)%2 == 0, s%3 == 1, ci%2 == 1, s%4 == 2); err == nil {
					if (s+ci)%2 == 0 {
						if b2, err := roundTrip(b, 1); err == nil {
							b = b2
							d["flow"] = "file"
						} else {
							c.OracleFail(-1, "bpm-gen --cut output is not readable by NewBPM: "+err.Error(), "bootguard.NewBPM", d)
						}
					}
					r.signOne(b, 1, cb.scheme, cb.hash, bk, d, fullSearch(), fmt.Sprintf("cbntbpm-%s-%d-%s-%s", bk, s, cb.scheme, cb.hash))
				} else {
					c.OracleFail(-1, "cannot build CBnT BPM: "+err.Error(), "harness", nil)
				}
			}
		}
	}
	forceEdge = 0
	// scheme names the tool does not offer for RSA keys must be refused, not mis-signed
	if b, d, err := buildCbntKM(rg, pubOf(r.keys["A"]), pubOf(r.keys["B"]), cbnt.AlgSHA256, "SHA256", 0); err == nil {
		for _, bad := range []string{"", "FOO", "SHA256", "ECDSA", "SM2", "RSA"} {
			var out []byte
			var serr error
			p, _ := recoverCall(func() { out, serr = b.SignKM(bad, r.keys["A"]) })
			if !p && serr == nil {
				o, _ := suiteVerifyFile(0, out)
				if o != oOk {
					c.OracleFail(-1, fmt.Sprintf("SignKM(%q) with an RSA key reports success but the result does not verify", bad), "bootguard.SignKM", d)
					continue
				}
			}
			c.OracleOK()
			c.Count("sign/refused-scheme")
		}
	}
	_ = bg.AlgNull
}

// harnessSignBgBPM produces a BG 1.0 BPM signed over the range VerifyBPM checks
// ([:PMSEOffset()]) with fiano's own SetSignature, independently of SignBPM: the
// sweep of VerifyBPM does not depend on SignBPM cutting at the right place.
func (r *run) harnessSignBgBPM(b *bootguard.BootGuard, keyName string, desc shapeDesc, name string) {
	c := r.c
	pre, err := pmanOf(b, 1)
	if err != nil {
		return
	}
	m := b.VData.BGbpm
	if err := m.PMSE.SetSignature(bg.AlgRSASSA, r.keys[keyName], pre.ser[:pre.pmse]); err != nil {
		c.Count("bgbpm-harness-sign-failed")
		return
	}
	out, err := b.WriteBPM()
	if err != nil {
		return
	}
	lay, err := parseLayout(out, 1, 1, pre.pmse, pre.pmse+9)
	if err != nil {
		return
	}
	d2 := shapeDesc{"signed_by": "harness over [:PMSEOffset()]"}
	for k, v := range desc {
		d2[k] = v
	}
	vout, idx := r.addVerifyCase("verify/harness-signed-gen1-BPM", 1, out, map[string]interface{}{"file": "harness-signed " + name, "shape": d2}, true)
	raw := lay.rawValid(out)
	if (vout == oOk) != raw {
		c.OracleFail(idx, fmt.Sprintf("VerifyBPM (BG 1.0) outcome %d disagrees with crypto/rsa on the stored bytes (%v)", vout, raw), "bootguard.VerifyBPM", map[string]interface{}{"shape": d2, "file_hex": hexs(out)})
	} else {
		c.OracleOK()
	}
	r.signed = append(r.signed, &signedFile{name: name, gen: 1, doc: 1, file: out, lay: lay, desc: d2, verifies: vout == oOk, by: "harness"})
}
