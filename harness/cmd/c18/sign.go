package main

import (
	"bytes"
	"crypto"
	"crypto/ecdsa"
	"crypto/rand"
	"crypto/rsa"
	"crypto/x509"
	"encoding/pem"
	"fmt"
	"os"
	"path/filepath"
	"time"

	"github.com/9elements/converged-security-suite/v2/pkg/provisioning/bootguard"
	"github.com/linuxboot/fiano/pkg/intel/metadata/bg"
	"github.com/linuxboot/fiano/pkg/intel/metadata/cbnt"
)

// genFiles runs the suite's own key generation (bg-prov keygen) into a fresh
// directory; nothing but the tool's code and the file system is involved, so it may
// run beside the main thread (RSA-3072 takes a second or two per key).
var keyFileNames = []string{"km_pub.pem", "km_priv.pem", "bpm_pub.pem", "bpm_priv.pem"}

func genFiles(gen func(password string, f [4]*os.File) error, password string) (string, error) {
	dir, err := os.MkdirTemp("", "c18keys")
	if err != nil {
		return "", err
	}
	var files [4]*os.File
	for i, n := range keyFileNames {
		files[i], err = os.Create(filepath.Join(dir, n))
		if err != nil {
			return dir, err
		}
	}
	err = gen(password, files)
	for _, f := range files {
		f.Close()
	}
	return dir, err
}

// readPair reads the keys back through DecryptPrivKey / ReadPubKey and judges them.
func (r *run) readPair(dir string, gerr error, what string, bits int, password, n1, n2 string) {
	c := r.c
	defer os.RemoveAll(dir)
	if gerr != nil {
		c.OracleFail(-1, fmt.Sprintf("%s failed: %v", what, gerr), "bootguard."+what, map[string]interface{}{"bits": bits})
		panic(gerr)
	}
	for i, name := range []string{n1, n2} {
		enc, _ := os.ReadFile(filepath.Join(dir, keyFileNames[1+2*i]))
		var k interface{}
		var err error
		p, pm := recoverCall(func() { k, err = bootguard.DecryptPrivKey(enc, password) })
		sg, ok := k.(crypto.Signer)
		if p || err != nil || !ok {
			c.OracleFail(-1, fmt.Sprintf("key written by %s does not decrypt with its own password: panic=%v %s err=%v", what, p, pm, err), "bootguard.DecryptPrivKey", map[string]interface{}{"bits": bits, "password": password, "file_hex": hexs(enc)})
			panic("keygen")
		}
		pub, perr := bootguard.ReadPubKey(filepath.Join(dir, keyFileNames[2*i]))
		good := perr == nil
		switch rk := sg.(type) {
		case *rsa.PrivateKey:
			rp, ok2 := pub.(*rsa.PublicKey)
			good = good && ok2 && rp.N.Cmp(rk.N) == 0 && rp.E == rk.E && rk.N.BitLen() == bits
			r.keys[name] = rk
		case *ecdsa.PrivateKey:
			ep, ok2 := pub.(*ecdsa.PublicKey)
			good = good && ok2 && ep.Equal(&rk.PublicKey) && rk.Curve.Params().BitSize == bits
			r.ecc[name] = rk
		default:
			good = false
		}
		if !good {
			c.OracleFail(-1, "public key file written by "+what+" does not belong to the private key / wrong kind or size", "bootguard."+what, map[string]interface{}{"bits": bits})
		} else {
			c.OracleOK()
		}
		// wrong password must not open it
		var werr error
		p, _ = recoverCall(func() { _, werr = bootguard.DecryptPrivKey(enc, password+"x") })
		if !p && werr == nil {
			c.OracleFail(-1, "private key written by "+what+" decrypts with a different password", "bootguard.DecryptPrivKey", map[string]interface{}{"bits": bits, "password": password, "tried": password + "x", "file_hex": hexs(enc)})
		} else {
			c.OracleOK()
		}
	}
}

func rsaGen(bits int) func(string, [4]*os.File) error {
	return func(pw string, f [4]*os.File) error { return bootguard.GenRSAKey(bits, pw, f[0], f[1], f[2], f[3]) }
}

func eccGen(curve int) func(string, [4]*os.File) error {
	return func(pw string, f [4]*os.File) error { return bootguard.GenECCKey(curve, pw, f[0], f[1], f[2], f[3]) }
}

type genResult struct {
	dir string
	err error
}

// makeKeys: every key size and key kind the tool generates, in every tier.
//
//	A, B  RSA-2048 (GenRSAKey 2048: KM key, BPM key)   C  RSA-2048 (a third party's key)
//	D, E  RSA-3072 (GenRSAKey 3072), generated beside the main thread: need3072() joins
//	P, P2 ECC P-256 (GenECCKey 256)                    Q, Q2 ECC P-224 (GenECCKey 224)
func (r *run) makeKeys() {
	r.big = make(chan genResult, 1)
	go func() {
		dir, err := genFiles(rsaGen(3072), "c18-keygen-pw-3072")
		r.big <- genResult{dir, err}
	}()
	dir, err := genFiles(rsaGen(2048), "c18-keygen-pw")
	r.readPair(dir, err, "GenRSAKey", 2048, "c18-keygen-pw", "A", "B")
	k, err := rsa.GenerateKey(rand.Reader, 2048)
	if err != nil {
		panic(err)
	}
	r.keys["C"] = k
	dir, err = genFiles(eccGen(256), "c18-ecc")
	r.readPair(dir, err, "GenECCKey", 256, "c18-ecc", "P", "P2")
	dir, err = genFiles(eccGen(224), "")
	r.readPair(dir, err, "GenECCKey", 224, "", "Q", "Q2")
	// sizes / curves the tool does not offer
	for _, bits := range []int{0, 1024, 2047, 2049, 3071, 4096} {
		err := bootguard.GenRSAKey(bits, "x", nil, nil, nil, nil)
		if err == nil {
			r.c.OracleFail(-1, fmt.Sprintf("GenRSAKey accepts key size %d", bits), "bootguard.GenRSAKey", map[string]interface{}{"bits": bits})
		} else {
			r.c.OracleOK()
		}
	}
	for _, curve := range []int{0, 192, 255, 384, 521} {
		err := bootguard.GenECCKey(curve, "x", nil, nil, nil, nil)
		if err == nil {
			r.c.OracleFail(-1, fmt.Sprintf("GenECCKey accepts curve size %d", curve), "bootguard.GenECCKey", map[string]interface{}{"curve": curve})
		} else {
			r.c.OracleOK()
		}
	}
}

// need3072 joins the RSA-3072 generation (first use of keys D, E).
func (r *run) need3072() {
	if r.big == nil {
		return
	}
	t0 := time.Now()
	g := <-r.big
	r.big = nil
	r.c.Rep.Extra["keygen_3072_wait_seconds"] = time.Since(t0).Seconds()
	r.readPair(g.dir, g.err, "GenRSAKey", 3072, "c18-keygen-pw-3072", "D", "E")
}

func pemOf(k interface{}) []byte {
	b, err := x509.MarshalPKCS8PrivateKey(k)
	if err != nil {
		panic(err)
	}
	return pem.EncodeToMemory(&pem.Block{Type: "PRIVATE KEY", Bytes: b})
}

// roundTrip: write the unsigned manifest, read it back with NewKM / NewBPM (the
// bg-prov flow: km-gen | km-sign, bpm-gen --cut | bpm-sign).
func roundTrip(b *bootguard.BootGuard, doc int) (*bootguard.BootGuard, error) {
	if doc == 0 {
		un, err := b.WriteKM()
		if err != nil {
			return nil, err
		}
		return bootguard.NewKM(bytes.NewReader(un))
	}
	un, err := b.WriteBPM()
	if err != nil {
		return nil, err
	}
	if genOf(b) == 2 {
		un = un[:b.VData.CBNTbpm.KeySignatureOffset]
	} else {
		// BG 1.0: the only unsigned form NewBPM reads is the manifest up to and including
		// the header of the signature element ("__PMSG__" + version).  The bpm-gen-v1 --cut
		// output ([:PMSEOffset()], exactly the bytes to be signed, like the other three
		// --cut outputs) is for an external signer: fiano's reader insists on a signature
		// element; the uncut unsigned manifest ends in an empty key (unexpected EOF).
		un = un[:b.VData.BGbpm.PMSEOffset()+9]
	}
	return bootguard.NewBPM(bytes.NewReader(un))
}

func (r *run) signAll() {
	c := r.c
	rg := c.Rng
	// (KM key, BPM key) x shapes: both sizes the tool generates in EVERY tier, and the
	// two mixed pairs (a 2048-bit KM key over a 3072-bit BPM key and the reverse)
	type keySet struct {
		km, bpm string
		s0, n   int
	}
	sets := []keySet{{"A", "B", 0, c.Scale(6, 12)}, {"D", "E", 0, c.Scale(3, 12)}, {"A", "E", 2, c.Scale(2, 4)}, {"D", "B", 3, c.Scale(2, 4)}}
	full := 0
	fullSearch := func() bool { full++; return full%5 == 1 || c.Thorough() }
	type combo struct{ scheme, hash string }
	main4 := []combo{{"RSASSA", "SHA256"}, {"RSAPSS", "SHA384"}, {"RSASSA", "SHA384"}, {"RSAPSS", "SHA256"}}
	odd := []combo{{"RSASSA", "SHA1"}, {"RSAPSS", "SM3"}, {"RSASSA", "SM3"}, {"RSAPSS", "SHA1"}, {"RSASSA", "AlgNull"}, {"RSAPSS", "AlgNull"}, {"RSASSA", "ALGUNKNOWN"}, {"RSAPSS", "algunknown"}}
	for si, ks := range sets {
		if si == 1 {
			r.need3072()
		}
		kk, bk := ks.km, ks.bpm
		for s := ks.s0; s < ks.s0+ks.n; s++ {
			forceEdge = 0
			if s < 2 {
				forceEdge = s + 1
			}
			// ---- BG 1.0 KM
			bh := "SHA256"
			if s%4 == 3 {
				bh = "SHA1"
			}
			if b, d, err := buildBgKM(rg, pubOf(r.keys[kk]), pubOf(r.keys[bk]), bh); err == nil {
				d["bpmkey"] = bk
				if s%2 == 1 {
					if b2, err := roundTrip(b, 0); err == nil {
						b = b2
						d["flow"] = "file"
					}
				}
				r.signOne(b, 0, "RSASSA", "", kk, d, fullSearch(), fmt.Sprintf("bgkm-%s%s-%d", kk, bk, s))
			} else {
				c.OracleFail(-1, "cannot build BG KM: "+err.Error(), "harness", nil)
			}
			// ---- BG 1.0 BPM
			if b, d, err := buildBgBPM(rg, s%7, s%2 == 1); err == nil {
				if s%3 == 2 {
					// unsigned manifest through a file, then bpm-sign
					if b2, err := roundTrip(b, 1); err == nil {
						b = b2
						d["flow"] = "file"
					} else {
						c.Count("bgbpm-unsigned-file-not-readable")
					}
				}
				r.signOne(b, 1, "RSASSA", "SHA256", bk, d, fullSearch(), fmt.Sprintf("bgbpm-%s%s-%d", kk, bk, s))
				if s < 2 {
					r.harnessSignBgBPM(b, bk, d, fmt.Sprintf("bgbpm-h-%s%s-%d", kk, bk, s))
				}
			} else {
				c.OracleFail(-1, "cannot build BG BPM: "+err.Error(), "harness", nil)
			}
			// ---- CBnT KM / BPM
			combos := []combo{main4[s%2], main4[2+s%2]}
			if s == 0 {
				combos = append(append([]combo{}, main4...), odd...)
			}
			for ci, cb := range combos {
				pk, _ := cbnt.GetAlgFromString(cb.hash)
				bpmHash := []string{"SHA256", "SHA384", "SHA1", "SM3"}[(s+ci)%4]
				extra := (s + ci) % 4
				if s == 1 && ci == 0 {
					extra = -1
				}
				if b, d, err := buildCbntKM(rg, pubOf(r.keys[kk]), pubOf(r.keys[bk]), pk, bpmHash, extra); err == nil {
					if extra >= 0 {
						d["bpmkey"] = bk
					}
					if (s+ci)%2 == 1 {
						if b2, err := roundTrip(b, 0); err == nil {
							b = b2
							d["flow"] = "file"
						}
					}
					r.signOne(b, 0, cb.scheme, cb.hash, kk, d, fullSearch(), fmt.Sprintf("cbntkm-%s%s-%d-%s-%s", kk, bk, s, cb.scheme, cb.hash))
				} else {
					c.OracleFail(-1, "cannot build CBnT KM: "+err.Error(), "harness", nil)
				}
				if b, d, err := buildCbntBPM(rg, (s+ci)%7, 1+(s+ci)%3, (s+ci)%2 == 0, s%3 == 1, ci%2 == 1, s%4 == 2); err == nil {
					if (s+ci)%2 == 0 {
						if b2, err := roundTrip(b, 1); err == nil {
							b = b2
							d["flow"] = "file"
						} else {
							c.OracleFail(-1, "bpm-gen --cut output is not readable by NewBPM: "+err.Error(), "bootguard.NewBPM", d)
						}
					}
					r.signOne(b, 1, cb.scheme, cb.hash, bk, d, fullSearch(), fmt.Sprintf("cbntbpm-%s%s-%d-%s-%s", kk, bk, s, cb.scheme, cb.hash))
				} else {
					c.OracleFail(-1, "cannot build CBnT BPM: "+err.Error(), "harness", nil)
				}
			}
		}
	}
	r.signNames()
	forceEdge = 0
	_ = bg.AlgNull
}

// harnessSignBgBPM produces a BG 1.0 BPM signed over the range VerifyBPM checks
// ([:PMSEOffset()]) with fiano's own SetSignature, independently of SignBPM: the
// sweep of VerifyBPM does not depend on SignBPM cutting at the right place.
func (r *run) harnessSignBgBPM(b *bootguard.BootGuard, keyName string, desc shapeDesc, name string) {
	c := r.c
	pre, err := pmanOf(b, 1)
	if err != nil {
		return
	}
	m := b.VData.BGbpm
	if err := m.PMSE.SetSignature(bg.AlgRSASSA, r.keys[keyName], pre.ser[:pre.pmse]); err != nil {
		c.Count("bgbpm-harness-sign-failed")
		return
	}
	out, err := b.WriteBPM()
	if err != nil {
		return
	}
	lay, err := parseLayout(out, 1, 1, pre.pmse, pre.pmse+9)
	if err != nil {
		return
	}
	d2 := shapeDesc{"signed_by": "harness over [:PMSEOffset()]"}
	for k, v := range desc {
		d2[k] = v
	}
	vout, idx := r.addVerifyCase("verify/harness-signed-gen1-BPM", 1, out, map[string]interface{}{"file": "harness-signed " + name, "shape": d2}, true)
	raw := lay.rawValid(out)
	if (vout == oOk) != raw {
		c.OracleFail(idx, fmt.Sprintf("VerifyBPM (BG 1.0) outcome %d disagrees with crypto/rsa on the stored bytes (%v)", vout, raw), "bootguard.VerifyBPM", map[string]interface{}{"shape": d2, "file_hex": hexs(out)})
	} else {
		c.OracleOK()
	}
	r.signed = append(r.signed, &signedFile{name: name, gen: 1, doc: 1, file: out, lay: lay, desc: d2, verifies: vout == oOk, by: "harness"})
}
