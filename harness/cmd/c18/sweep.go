package main

import (
	"bytes"
	"fmt"
	"runtime"
	"sort"
	"sync"
)

// sweeps: every single-bit mutation (or a stride of them) of every verifying signed
// file must make parsing or verification fail when the bit lies in the signed
// portion, the public key value or the signature value; and whatever is accepted
// must carry a signature that is valid (crypto/rsa) for the signed portion as stored.
func (r *run) sweeps() {
	c := r.c
	// quick tier, per manifest kind AND key size: every bit of 2 files (RSA-2048) resp. 1
	// file (RSA-3072), a stride over 3 more; thorough: every bit of every file
	fullPerKind := map[string]int{}
	stridePerKind := map[string]int{}
	total, accepted := 0, 0
	for _, sf := range r.signed {
		if !sf.verifies || r.nosweep[sf.name] {
			continue
		}
		keyBytes := sf.lay.keyData[1] - sf.lay.keyData[0] - 4
		kind := fmt.Sprintf("gen%d-%s-rsa%d", sf.gen, docName(sf.doc), keyBytes*8)
		fullWanted := 2
		if keyBytes > 256 {
			fullWanted = 1
		}
		all := c.Thorough() || fullPerKind[kind] < fullWanted || sf.by == "artifact"
		if all {
			fullPerKind[kind]++
		} else {
			if stridePerKind[kind] >= 3 {
				c.Count("sweep/not-swept-in-quick-tier")
				continue
			}
			stridePerKind[kind]++
		}
		n, a := r.sweepFile(sf, all)
		total += n
		accepted += a
	}
	c.Rep.Extra["sweep_mutants"] = total
	c.Rep.Extra["sweep_accepted_mutants"] = accepted
}

func flip(file []byte, bit int) []byte {
	m := append([]byte(nil), file...)
	m[bit/8] ^= 1 << uint(bit%8)
	return m
}

func (r *run) sweepFile(sf *signedFile, all bool) (int, int) {
	c := r.c
	lay := sf.lay
	kind := fmt.Sprintf("gen%d-%s", sf.gen, docName(sf.doc))
	nbits := len(sf.file) * 8
	var positions []int
	if all {
		for i := 0; i < nbits; i++ {
			positions = append(positions, i)
		}
	} else {
		// every byte of the signed portion and of the headers with two bits, the long
		// random fields (modulus, signature value) with one rotating bit per byte
		for by := 0; by < len(sf.file); by++ {
			reg := lay.region(by)
			if reg == "pubkey" || reg == "sigvalue" {
				positions = append(positions, by*8+(by*5+c.Rng.Intn(8))%8)
			} else {
				b0 := c.Rng.Intn(8)
				positions = append(positions, by*8+b0, by*8+(b0+1+c.Rng.Intn(7))%8)
			}
		}
	}
	var normalised, unexplained, malleable, panics []int
	rejectedSample := map[string][]int{}
	// the suite's verdicts on all mutants: independent calls, computed by a pool of
	// workers; everything that draws from the PRNG or counts stays sequential below
	outs := make([]int, len(positions))
	{
		var wg sync.WaitGroup
		nw := runtime.GOMAXPROCS(0)
		if nw > 12 {
			nw = 12
		}
		chunk := (len(positions) + nw - 1) / nw
		for w := 0; w < nw; w++ {
			lo, hi := w*chunk, (w+1)*chunk
			if hi > len(positions) {
				hi = len(positions)
			}
			if lo >= hi {
				break
			}
			wg.Add(1)
			go func(lo, hi int) {
				defer wg.Done()
				for i := lo; i < hi; i++ {
					outs[i], _ = suiteVerifyFile(sf.doc, flip(sf.file, positions[i]))
				}
			}(lo, hi)
		}
		wg.Wait()
	}
	for pi, bit := range positions {
		mut := flip(sf.file, bit)
		out := outs[pi]
		reg := lay.region(bit / 8)
		c.Count("sweep/" + kind + "/" + reg)
		if out == oPanic {
			panics = append(panics, bit)
		}
		if out != oOk {
			c.OracleOK()
			if len(rejectedSample[reg]) < 3 && c.Rng.Intn(40) == 0 {
				rejectedSample[reg] = append(rejectedSample[reg], bit)
			}
			continue
		}
		raw := lay.rawValid(mut)
		if raw && !lay.claimed(bit/8) {
			// outside the three regions the property names, and the stored signature is
			// still valid for the stored signed portion: not a violation (header malleability)
			malleable = append(malleable, bit)
			c.OracleOK()
			continue
		}
		// accepted although the stored bytes do not carry a valid signature (or the
		// bit is in a region the property says must be protected)
		cause := "unexplained"
		if b, err := newDoc(sf.doc, mut); err == nil {
			if pm, err := pmanOf(b, sf.doc); err == nil && len(pm.ser) >= lay.sigData[1] &&
				bytes.Equal(pm.ser[:lay.signedEnd], sf.file[:lay.signedEnd]) &&
				bytes.Equal(pm.ser[lay.keyData[0]:lay.keyData[1]], sf.file[lay.keyData[0]:lay.keyData[1]]) &&
				bytes.Equal(pm.ser[lay.sigData[0]:lay.sigData[1]], sf.file[lay.sigData[0]:lay.sigData[1]]) &&
				lay.region(bit/8) == "signed" {
				cause = "normalised"
			}
		}
		if cause == "normalised" {
			normalised = append(normalised, bit)
		} else {
			unexplained = append(unexplained, bit)
		}
	}
	sort.Ints(normalised)
	sort.Ints(unexplained)
	sort.Ints(malleable)
	base := map[string]interface{}{"file": sf.name, "signed_by": sf.by, "shape": sf.desc, "file_hex": hexs(sf.file),
		"layout": map[string]interface{}{"signed_end": lay.signedEnd, "pubkey": lay.keyData, "sigvalue": lay.sigData, "keyhdr": lay.keyHdr, "sighdr": lay.sigHdr}}
	if len(unexplained) > 0 {
		base["accepted_bits"] = ranges(unexplained)
		base["first_accepted_bit"] = unexplained[0]
		_, idx := r.addVerifyCase("verify/mutant-accepted", sf.doc, flip(sf.file, unexplained[0]), map[string]interface{}{"file": sf.name, "bit": unexplained[0]}, true)
		c.OracleFail(idx, fmt.Sprintf("tampered %s (gen %d) accepted: flipping bit %d (byte %d, region %s) still verifies; %d such bit(s): %s", docName(sf.doc), sf.gen, unexplained[0], unexplained[0]/8, lay.region(unexplained[0]/8), len(unexplained), ranges(unexplained)), "bootguard.Verify"+docName(sf.doc), base)
	}
	if len(normalised) > 0 {
		b2 := map[string]interface{}{}
		for k, v := range base {
			b2[k] = v
		}
		b2["accepted_bits"] = ranges(normalised)
		b2["first_accepted_bit"] = normalised[0]
		r.known[fNormalised] += len(normalised)
		_, idx := r.addVerifyCase("verify/mutant-normalised", sf.doc, flip(sf.file, normalised[0]), map[string]interface{}{"file": sf.name, "bit": normalised[0]}, true)
		if len(normalised) > 1 {
			r.addVerifyCase("verify/mutant-normalised", sf.doc, flip(sf.file, normalised[len(normalised)-1]), map[string]interface{}{"file": sf.name, "bit": normalised[len(normalised)-1]}, true)
		}
		c.OracleFailKnown(idx, fNormalised, fmt.Sprintf("tampered %s (gen %d) accepted: %d bit(s) of the signed portion (%s) are overwritten by Rehash when Verify%s re-serialises the parsed structure, so the stored bytes are never checked", docName(sf.doc), sf.gen, len(normalised), ranges(normalised), docName(sf.doc)), "bootguard.Verify"+docName(sf.doc), b2)
	}
	c.Rep.Distribution["sweep-malleable-header-bits/"+kind] += len(malleable)
	if len(panics) > 0 {
		c.Rep.Distribution["sweep-panics/"+kind] += len(panics)
	}
	if ex, ok := c.Rep.Extra["malleable_header_bits_example"]; !ok || ex == nil {
		if len(malleable) > 0 {
			c.Rep.Extra["malleable_header_bits_example"] = map[string]interface{}{"file": sf.name, "bits": ranges(malleable), "layout": base["layout"]}
		}
	}
	// correspondence sample: a few rejected mutants per region, one malleable one
	for reg, bits := range rejectedSample {
		for _, bit := range bits {
			r.addVerifyCase("verify/mutant-rejected-"+reg, sf.doc, flip(sf.file, bit), map[string]interface{}{"file": sf.name, "bit": bit, "region": reg}, true)
		}
	}
	if len(malleable) > 0 {
		bit := malleable[c.Rng.Intn(len(malleable))]
		r.addVerifyCase("verify/mutant-malleable-header", sf.doc, flip(sf.file, bit), map[string]interface{}{"file": sf.name, "bit": bit}, true)
	}
	return len(positions), len(normalised) + len(unexplained) + len(malleable)
}
