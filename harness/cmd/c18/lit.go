package main

import (
	"crypto"
	"crypto/rsa"
	"crypto/sha1"
	"crypto/sha256"
	"crypto/sha512"
	"encoding/binary"
	"fmt"
	"math/big"
	"strings"

	"github.com/tjfoc/gmsm/sm3"
	"verifharness/gal"
)

// ---------- Gallina literals of the C18 case language ----------

// bz renders a byte string as `(zs [x5f; x4b; ...])` (ManifestCases.zs over the
// constructors of Coq's Byte.byte): coqc elaborates a list of constructor
// references several times faster than a list of Z numerals, and elaboration of
// the literals is what a shard's time goes into.
func bz(v []byte) string {
	if len(v) == 0 {
		return "[]"
	}
	var sb strings.Builder
	sb.Grow(5*len(v) + 8)
	sb.WriteString("(zs [")
	for i, x := range v {
		if i > 0 {
			sb.WriteString("; ")
		}
		fmt.Fprintf(&sb, "x%02x", x)
	}
	sb.WriteString("])")
	return sb.String()
}

func bzStr(s string) string { return bz([]byte(s)) }

// pool shares byte strings inside ONE case literal: a file, its re-serialisation
// and the prefixes of both that the verify table holds are written once
// (`let b0 := zs [...] in`) and referred to by name or as `(firstn n b0)`.
type pool struct {
	bases [][]byte
}

func (p *pool) ref(b []byte) string {
	if len(b) < 24 {
		return bz(b)
	}
	for i, base := range p.bases {
		if len(b) <= len(base) && bytesEq(base[:len(b)], b) {
			if len(b) == len(base) {
				return fmt.Sprintf("b%d", i)
			}
			return fmt.Sprintf("(firstn %d%%nat b%d)", len(b), i)
		}
	}
	p.bases = append(p.bases, b)
	return fmt.Sprintf("b%d", len(p.bases)-1)
}

// wrap closes the case literal `body` under the pool's let-bindings.
func (p *pool) wrap(body string) string {
	if len(p.bases) == 0 {
		return body
	}
	var sb strings.Builder
	sb.WriteString("(")
	for i, b := range p.bases {
		fmt.Fprintf(&sb, "let b%d := %s in ", i, bz(b))
	}
	sb.WriteString(body)
	sb.WriteString(")")
	return sb.String()
}

func bytesEq(a, b []byte) bool { return string(a) == string(b) }

type pman struct {
	ser                          []byte
	keysig, pmse, pmseks, pkhash int
}

func (p pman) lit() string { return p.litIn(nil) }

// litIn: the serialisation goes through the pool (only valid inside pool.wrap)
func (p pman) litIn(pl *pool) string {
	ser := bz(p.ser)
	if pl != nil && len(p.ser) > 0 {
		ser = pl.ref(p.ser)
	}
	return fmt.Sprintf("(mk_pman %s %d %d %d %d)", ser, p.keysig, p.pmse, p.pmseks, p.pkhash)
}

func optPman(p *pman, pl *pool) string {
	if p == nil {
		return "None"
	}
	return "(Some " + p.litIn(pl) + ")"
}

type vtEntry struct {
	msg []byte
	ok  bool
}

func vtLit(vt []vtEntry, pl *pool) string {
	s := make([]string, len(vt))
	for i, e := range vt {
		s[i] = gal.Pair(pl.ref(e.msg), gal.Bool(e.ok))
	}
	return gal.List(s)
}

// outcome classes as Lib/Cases.v obs
const (
	oOk = iota
	oErr
	oPanic
)

func obsUnit(o int) string {
	switch o {
	case oOk:
		return "(OOk tt)"
	case oErr:
		return "OErr"
	}
	return "OPanic"
}

func obsBool(o int, v bool) string {
	switch o {
	case oOk:
		return "(OOk " + gal.Bool(v) + ")"
	case oErr:
		return "OErr"
	}
	return "OPanic"
}

type hashEntry struct {
	alg    int
	msg, d []byte
}

func htLit(ht []hashEntry) string {
	s := make([]string, len(ht))
	for i, e := range ht {
		s[i] = fmt.Sprintf("(%d, %s, %s)", e.alg, bz(e.msg), bz(e.d))
	}
	return gal.List(s)
}

func hexs(b []byte) string { return fmt.Sprintf("%x", b) }

// ranges renders sorted bit positions compactly: "72-103,232-239"
func ranges(bits []int) string {
	var sb strings.Builder
	for i := 0; i < len(bits); {
		j := i
		for j+1 < len(bits) && bits[j+1] == bits[j]+1 {
			j++
		}
		if sb.Len() > 0 {
			sb.WriteString(",")
		}
		if j > i {
			fmt.Fprintf(&sb, "%d-%d", bits[i], bits[j])
		} else {
			fmt.Fprintf(&sb, "%d", bits[i])
		}
		i = j + 1
	}
	return sb.String()
}

// ---------- independent crypto (Go standard library / gmsm only) ----------

const (
	algRSA    = 0x01
	algSHA1   = 0x04
	algSHA256 = 0x0b
	algSHA384 = 0x0c
	algSHA512 = 0x0d
	algNull   = 0x10
	algSM3    = 0x12
	algRSASSA = 0x14
	algRSAPSS = 0x16
)

func stdHash(alg int, msg []byte) ([]byte, bool) {
	switch alg {
	case algSHA1:
		d := sha1.Sum(msg)
		return d[:], true
	case algSHA256:
		d := sha256.Sum256(msg)
		return d[:], true
	case algSHA384:
		d := sha512.Sum384(msg)
		return d[:], true
	case algSHA512:
		d := sha512.Sum512(msg)
		return d[:], true
	case algSM3:
		h := sm3.New()
		h.Write(msg)
		return h.Sum(nil), true
	}
	return nil, false
}

func reverse(b []byte) []byte {
	r := make([]byte, len(b))
	for i := range b {
		r[i] = b[len(b)-1-i]
	}
	return r
}

// layout of a signed manifest file, written from document #575623 / the BG 1.0
// layout, independent of fiano's accessors except for the start of KeySignature.
type layout struct {
	gen, doc  int
	signedEnd int // end of the portion the verifier is specified to check
	ksOff     int // KeySignature.Version
	keyHdr    [2]int
	keyData   [2]int // exponent(4, LE) + modulus (LE)
	sigHdr    [2]int
	sigData   [2]int
	scheme    int
	hashAlg   int
	total     int
}

func le16(b []byte) int { return int(binary.LittleEndian.Uint16(b)) }

// parseLayout reads the KeySignature fields of an (original, unmutated) signed file.
func parseLayout(file []byte, gen, doc, signedEnd, ksOff int) (layout, error) {
	l := layout{gen: gen, doc: doc, signedEnd: signedEnd, ksOff: ksOff, total: len(file)}
	p := ksOff + 1
	if p+5 > len(file) {
		return l, fmt.Errorf("short file (key header)")
	}
	keySize := le16(file[p+3:])
	l.keyHdr = [2]int{p, p + 5}
	l.keyData = [2]int{p + 5, p + 5 + 4 + keySize/8}
	p = l.keyData[1]
	if p+7 > len(file) {
		return l, fmt.Errorf("short file (signature header)")
	}
	l.scheme = le16(file[p:])
	sigSize := le16(file[p+3:])
	l.hashAlg = le16(file[p+5:])
	l.sigHdr = [2]int{p, p + 7}
	l.sigData = [2]int{p + 7, p + 7 + sigSize/8}
	if l.sigData[1] > len(file) {
		return l, fmt.Errorf("short file (signature data)")
	}
	return l, nil
}

// region of a byte position: what the property names, and the rest
func (l layout) region(pos int) string {
	switch {
	case pos < l.signedEnd:
		return "signed"
	case pos >= l.keyData[0] && pos < l.keyData[1]:
		return "pubkey"
	case pos >= l.sigData[0] && pos < l.sigData[1]:
		return "sigvalue"
	case pos >= l.keyHdr[0] && pos < l.keyHdr[1]:
		return "keyhdr"
	case pos >= l.sigHdr[0] && pos < l.sigHdr[1]:
		return "sighdr"
	}
	return "other"
}

func (l layout) claimed(pos int) bool {
	r := l.region(pos)
	return r == "signed" || r == "pubkey" || r == "sigvalue"
}

// rsaVerifyStd: is `sig` a valid signature of msg under (scheme, hashAlg) for the
// key stored as exponent(4 LE)+modulus(LE)?  Standard library only.
func rsaVerifyStd(keyData, sig, msg []byte, scheme, hashAlg int) bool {
	if len(keyData) < 5 {
		return false
	}
	pk := &rsa.PublicKey{N: new(big.Int).SetBytes(reverse(keyData[4:])), E: int(binary.LittleEndian.Uint32(keyData))}
	if pk.E < 2 || pk.N.Sign() <= 0 {
		return false
	}
	var h crypto.Hash
	switch hashAlg {
	case algSHA256:
		h = crypto.SHA256
	case algSHA384:
		h = crypto.SHA384
	default:
		return false
	}
	d, _ := stdHash(hashAlg, msg)
	ok := false
	func() {
		defer func() { recover() }()
		switch scheme {
		case algRSASSA:
			ok = rsa.VerifyPKCS1v15(pk, h, d, sig) == nil
		case algRSAPSS:
			ok = rsa.VerifyPSS(pk, h, d, sig, &rsa.PSSOptions{SaltLength: rsa.PSSSaltLengthAuto, Hash: h}) == nil
		}
	}()
	return ok
}

// rawValid: "the signature is valid for the signed portion of the file exactly
// as stored", evaluated on the bytes of `file` at the positions of layout l.
// BG 1.0 verification is specified as RSASSA/SHA-256 whatever HashAlg says.
func (l layout) rawValid(file []byte) bool {
	if len(file) < l.sigData[1] {
		return false
	}
	scheme, hashAlg := l.scheme, l.hashAlg
	if l.gen == 1 {
		scheme, hashAlg = algRSASSA, algSHA256
	}
	return rsaVerifyStd(file[l.keyData[0]:l.keyData[1]], file[l.sigData[0]:l.sigData[1]], file[:l.signedEnd], scheme, hashAlg)
}

// signedLen finds every prefix length of `pre` on which the signature stored in
// the file (layout l) verifies under the scheme's own digest.
func signedLens(pre []byte, file []byte, l layout, schemeHash int, candidates []int, full bool) []int {
	key := file[l.keyData[0]:l.keyData[1]]
	sig := file[l.sigData[0]:l.sigData[1]]
	var res []int
	seen := map[int]bool{}
	try := func(n int) {
		if n < 0 || n > len(pre) || seen[n] {
			return
		}
		seen[n] = true
		if rsaVerifyStd(key, sig, pre[:n], l.scheme, schemeHash) {
			res = append(res, n)
		}
	}
	for _, c := range candidates {
		try(c)
	}
	if full || len(res) == 0 {
		for n := 0; n <= len(pre); n++ {
			try(n)
		}
	}
	return res
}
