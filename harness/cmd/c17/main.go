// C17 correspondence harness: pkg/tools/lcp.go (GenLCPPolicyV2, binary.Write of
// LCPPolicy/LCPPolicy2, ParsePolicy, the flag-word decoders) against Model/LCP.v, and
// cmd/core/txt-prov (loadConfig, writePSPolicy2file; config.go in this directory) against
// Model/LCPConfig.v.
//
// The oracle below is written from the property text and the Intel TXT SDG
// (315168) tables, not from the model: it has its own offset table of the two
// layouts, its own bit table of the three flag words and compares field by field.
package main

import (
	"bytes"
	"crypto"
	_ "crypto/sha1"
	_ "crypto/sha256"
	_ "crypto/sha512"
	"encoding/binary"
	"errors"
	"fmt"
	"io"
	"strings"

	txt "github.com/9elements/converged-security-suite/v2/pkg/provisioning/txt"
	"github.com/9elements/converged-security-suite/v2/pkg/tools"
	"github.com/google/go-tpm/legacy/tpm2"
	"github.com/sirupsen/logrus"
	"verifharness/gal"
)

const header = "From CSS Require Import Lib.Base Lib.Cases Model.LCP Model.LCPConfig Model.LCPCases."

const (
	siteGen    = "pkg/tools/lcp.go:GenLCPPolicyV2/genLCPHash"
	siteParse2 = "pkg/tools/lcp.go:parsePolicy2 (hash length by HashAlg vs LCPPolicy2.PolicyHash [32]byte)"
	siteParse  = "pkg/tools/lcp.go:ParsePolicy/parsePolicy/parsePolicy2"
	siteFlags  = "pkg/tools/lcp.go:deconstruct*/Parse* flag words"
	siteWrite  = "pkg/provisioning/txt/pswrite.go:binary.Write(LittleEndian, LCPPolicy2)"

	kVersion  = "C17-version-normalised"
	kTrunc    = "C17-sha384-hash-truncated"
	kRoundtrp = "C17-sha384-roundtrip"
)

// ---------------------------------------------------------------- literals

func errClass(err error) int {
	switch {
	case errors.Is(err, io.EOF):
		return 1
	case errors.Is(err, io.ErrUnexpectedEOF):
		return 2
	case strings.Contains(err.Error(), "can't parse LCP Policy"):
		return 3
	case strings.Contains(err.Error(), "hash algorithm not supported"), strings.Contains(err.Error(), "not available"):
		return 4
	case strings.Contains(err.Error(), "invalid hash algorithm"):
		return 5
	}
	return 99
}

func u16s(v [8]uint16) string {
	s := make([]string, 8)
	for i, x := range v {
		s[i] = fmt.Sprint(x)
	}
	return gal.List(s)
}

func p1Lit(p *tools.LCPPolicy) string {
	return fmt.Sprintf("(MkP1 %d %d %d %d %d %s %d %d %d %d %d %s)", p.Version, p.HashAlg, uint8(p.PolicyType), p.SINITMinVersion,
		p.Reserved, u16s(p.DataRevocationCounters), p.PolicyControl, p.MaxSINITMinVersion, p.Reserved1, p.Reserved2, p.Reserved3, gal.Bytes(p.PolicyHash[:]))
}

func p2Lit(p *tools.LCPPolicy2) string {
	return fmt.Sprintf("(MkP2 %d %d %d %d %s %d %d %d %d %d %d %s)", p.Version, uint16(p.HashAlg), uint8(p.PolicyType), p.SINITMinVersion,
		u16s(p.DataRevocationCounters), p.PolicyControl, p.MaxSINITMinVersion, p.Reserved, p.LcpHashAlgMask, uint32(p.LcpSignAlgMask), p.Reserved2, gal.Bytes(p.PolicyHash[:]))
}

func pcBools(p tools.PolicyControl) []bool { return []bool{p.NPW, p.OwnerEnforced, p.AuxDelete, p.SinitCaps} }
func ahBools(a tools.ApprovedHashAlgorithm) []bool {
	return []bool{a.SHA1, a.SHA256, a.SHA384, a.SM3}
}
func asBools(a tools.ApprovedSignatureAlogrithm) []bool {
	return []bool{a.RSA2048SHA1, a.RSA2048SHA256, a.RSA3072SHA256, a.RSA3072SHA384, a.ECDSAP256SHA256, a.ECDSAP384SHA384, a.SM2SM2CurveSM3}
}

// ---------------------------------------------------------------- oracle tables (from the SDG, not from lcp.go)

// bit positions of the flag words
var specPC = []uint{0, 2, 31, 1}                // NPW, OwnerEnforced, AuxDelete, SinitCaps (order of pcBools)
var specAH = []uint{0, 3, 6, 5}                 // SHA1, SHA256, SHA384, SM3
var specAS = []uint{2, 3, 6, 7, 12, 13, 16}     // RSA2048SHA1 ... SM2
var specAlg = map[crypto.Hash]uint16{crypto.SHA1: 0x4, crypto.SHA256: 0xB, crypto.SHA384: 0xC} // TPM_ALG_ID
var specDigestLen = map[uint16]int{0x4: 20, 0xB: 32, 0xC: 48}

func specWord(flags []bool, bits []uint) uint32 {
	w := uint32(0)
	for i, f := range flags {
		if f {
			w |= 1 << bits[i]
		}
	}
	return w
}

func specFlags(w uint32, bits []uint) []bool {
	r := make([]bool, len(bits))
	for i, b := range bits {
		r[i] = w&(1<<b) != 0
	}
	return r
}

func put(b []byte, off, size int, v uint64) {
	for i := 0; i < size; i++ {
		b[off+i] = byte(v >> (8 * uint(i)))
	}
}

// LCP_POLICY2 (TPM 2.0 PS index), 70 bytes
func specBytes2(p *tools.LCPPolicy2) []byte {
	b := make([]byte, 70)
	put(b, 0, 2, uint64(p.Version))
	put(b, 2, 2, uint64(p.HashAlg))
	put(b, 4, 1, uint64(p.PolicyType))
	put(b, 5, 1, uint64(p.SINITMinVersion))
	for i, c := range p.DataRevocationCounters {
		put(b, 6+2*i, 2, uint64(c))
	}
	put(b, 22, 4, uint64(p.PolicyControl))
	put(b, 26, 1, uint64(p.MaxSINITMinVersion))
	put(b, 27, 1, uint64(p.Reserved))
	put(b, 28, 2, uint64(p.LcpHashAlgMask))
	put(b, 30, 4, uint64(p.LcpSignAlgMask))
	put(b, 34, 4, uint64(p.Reserved2))
	copy(b[38:], p.PolicyHash[:])
	return b
}

// LCP_POLICY (TPM 1.2), 54 bytes
func specBytes1(p *tools.LCPPolicy) []byte {
	b := make([]byte, 54)
	put(b, 0, 2, uint64(p.Version))
	put(b, 2, 1, uint64(p.HashAlg))
	put(b, 3, 1, uint64(p.PolicyType))
	put(b, 4, 1, uint64(p.SINITMinVersion))
	put(b, 5, 1, uint64(p.Reserved))
	for i, c := range p.DataRevocationCounters {
		put(b, 6+2*i, 2, uint64(c))
	}
	put(b, 22, 4, uint64(p.PolicyControl))
	put(b, 26, 1, uint64(p.MaxSINITMinVersion))
	put(b, 27, 1, uint64(p.Reserved1))
	put(b, 28, 2, uint64(p.Reserved2))
	put(b, 30, 4, uint64(p.Reserved3))
	copy(b[34:], p.PolicyHash[:])
	return b
}

func allZero(b []byte) bool {
	for _, x := range b {
		if x != 0 {
			return false
		}
	}
	return true
}

// well-formedness of a serialized policy as the property means it:
// 1 = well-formed v2 (54 bytes), 2 = well-formed v3 (70 bytes), 0 = not well-formed
func wfBytes(b []byte) int {
	if len(b) < 2 {
		return 0
	}
	ver := uint16(b[0]) | uint16(b[1])<<8
	if len(b) == 54 && ver <= 0x0204 {
		return 1
	}
	if len(b) == 70 && ver >= 0x0300 {
		alg := uint16(b[2]) | uint16(b[3])<<8
		n, ok := specDigestLen[alg]
		if !ok {
			return 0
		}
		if n < 32 && !allZero(b[38+n:]) {
			return 0 // the digest is followed by padding, which must be zero
		}
		return 2
	}
	return 0
}

// ---------------------------------------------------------------- calls into /repo

type genRes struct {
	pol      *tools.LCPPolicy2
	err      error
	panicked bool
	msg      string
}

func callGen(version uint16, h crypto.Hash, digest []byte, sinit uint8, pc tools.PolicyControl, ah tools.ApprovedHashAlgorithm, as tools.ApprovedSignatureAlogrithm) genRes {
	var r genRes
	r.panicked, r.msg = gal.Recover(func() {
		r.pol, r.err = tools.GenLCPPolicyV2(version, h, digest, sinit, pc, ah, as)
	})
	return r
}

type parseRes struct {
	p1       *tools.LCPPolicy
	p2       *tools.LCPPolicy2
	err      error
	panicked bool
	msg      string
}

func callParse(b []byte) parseRes {
	var r parseRes
	r.panicked, r.msg = gal.Recover(func() {
		r.p1, r.p2, r.err = tools.ParsePolicy(b)
	})
	return r
}

func (r parseRes) lit() string {
	switch {
	case r.panicked:
		return "RPanic"
	case r.err != nil:
		return fmt.Sprintf("(RErr %d)", errClass(r.err))
	case r.p1 != nil && r.p2 == nil:
		return "(ROk (inl " + p1Lit(r.p1) + "))"
	case r.p2 != nil && r.p1 == nil:
		return "(ROk (inr " + p2Lit(r.p2) + "))"
	}
	return "(RErr 98)" // nil,nil,nil or both set: no model outcome matches
}

func write2(p *tools.LCPPolicy2) []byte {
	var buf bytes.Buffer
	if err := binary.Write(&buf, binary.LittleEndian, *p); err != nil {
		panic(err)
	}
	return buf.Bytes()
}

func write1(p *tools.LCPPolicy) []byte {
	var buf bytes.Buffer
	if err := binary.Write(&buf, binary.LittleEndian, *p); err != nil {
		panic(err)
	}
	return buf.Bytes()
}

var sha3 = crypto.SHA3_256.Available()

// fakeTPM answers the TPM 2.0 commands WritePSIndexTPM20 issues (StartAuthSession, PolicyOR,
// PolicyCommandCode, PolicyGetDigest, FlushContext, NV_Write) with success and records the data
// of every NV_Write: these are the bytes "written to the TPM PS index".
type fakeTPM struct {
	last     []byte
	sessions uint32
	nvIndex  []uint32
	nvData   [][]byte
}

func (t *fakeTPM) Write(p []byte) (int, error) {
	t.last = append([]byte(nil), p...)
	return len(p), nil
}

func (t *fakeTPM) Read(p []byte) (int, error) {
	if len(t.last) < 10 {
		return 0, io.ErrUnexpectedEOF
	}
	code := binary.BigEndian.Uint32(t.last[6:10])
	tag := uint16(0x8001)
	var body []byte
	switch code {
	case 0x176: // TPM2_StartAuthSession -> session handle, nonceTPM
		t.sessions++
		body = binary.BigEndian.AppendUint32(body, 0x03000000+t.sessions)
		body = binary.BigEndian.AppendUint16(body, 16)
		body = append(body, make([]byte, 16)...)
	case 0x189: // TPM2_PolicyGetDigest -> TPM2B_DIGEST
		body = binary.BigEndian.AppendUint16(body, 32)
		d := make([]byte, 32)
		d[0] = byte(t.sessions)
		body = append(body, d...)
	case 0x137: // TPM2_NV_Write: authHandle, nvIndex, authorization area, TPM2B data, offset
		off := 10 + 8
		if len(t.last) >= off+4 {
			idx := binary.BigEndian.Uint32(t.last[14:18])
			off += 4 + int(binary.BigEndian.Uint32(t.last[off:]))
			if len(t.last) >= off+2 {
				n := int(binary.BigEndian.Uint16(t.last[off:]))
				if len(t.last) >= off+2+n {
					t.nvIndex = append(t.nvIndex, idx)
					t.nvData = append(t.nvData, append([]byte(nil), t.last[off+2:off+2+n]...))
				}
			}
		}
		tag = 0x8002
		body = append(body, 0, 0, 0, 0) // parameterSize
		body = append(body, 0, 0, 1, 0, 0) // nonce, attributes, hmac
	}
	resp := binary.BigEndian.AppendUint16(nil, tag)
	resp = binary.BigEndian.AppendUint32(resp, uint32(10+len(body)))
	resp = binary.BigEndian.AppendUint32(resp, 0)
	resp = append(resp, body...)
	return copy(p, resp), nil
}

// psIndexBytes runs the real provisioning path and returns what it hands to TPM2_NV_Write.
func psIndexBytes(pol *tools.LCPPolicy2) (data []byte, index uint32, err error, panicked bool, msg string) {
	t := &fakeTPM{}
	panicked, msg = gal.Recover(func() { err = txt.WritePSIndexTPM20(t, pol, make([]byte, 32)) })
	if len(t.nvData) == 1 {
		data, index = t.nvData[0], t.nvIndex[0]
	} else if err == nil && !panicked {
		err = fmt.Errorf("%d NV_Write commands seen", len(t.nvData))
	}
	return
}

// ---------------------------------------------------------------- generation

type genIn struct {
	Version uint16 `json:"version"`
	Hash    string `json:"hash"`
	Digest  string `json:"digest_hex"`
	Sinit   uint8  `json:"sinitmin"`
	PC      []bool `json:"pc_npw_owner_auxdel_sinitcaps"`
	AH      []bool `json:"apprHashes_sha1_sha256_sha384_sm3"`
	AS      []bool `json:"apprSigs"`
}

func mkPC(f []bool) tools.PolicyControl {
	return tools.PolicyControl{NPW: f[0], OwnerEnforced: f[1], AuxDelete: f[2], SinitCaps: f[3]}
}
func mkAH(f []bool) tools.ApprovedHashAlgorithm {
	return tools.ApprovedHashAlgorithm{SHA1: f[0], SHA256: f[1], SHA384: f[2], SM3: f[3]}
}
func mkAS(f []bool) tools.ApprovedSignatureAlogrithm {
	return tools.ApprovedSignatureAlogrithm{RSA2048SHA1: f[0], RSA2048SHA256: f[1], RSA3072SHA256: f[2], RSA3072SHA384: f[3], ECDSAP256SHA256: f[4], ECDSAP384SHA384: f[5], SM2SM2CurveSM3: f[6]}
}

func bitsOf(v, n int) []bool {
	r := make([]bool, n)
	for i := range r {
		r[i] = v&(1<<uint(i)) != 0
	}
	return r
}

// judgeGen is the oracle of the "generated policy carries exactly those parameters" clause.
// It returns the list of (known-id-or-"", message).
func judgeGen(in genIn, h crypto.Hash, digest []byte, r genRes) (fails [][2]string) {
	add := func(known, msg string) { fails = append(fails, [2]string{known, msg}) }
	if r.panicked {
		add("", "GenLCPPolicyV2 panicked: "+r.msg)
		return
	}
	if r.err != nil || r.pol == nil {
		add("", fmt.Sprintf("GenLCPPolicyV2 refused parameters the tool offers (err=%v)", r.err))
		return
	}
	p := r.pol
	if p.Version != in.Version {
		if in.Version < 0x300 && p.Version == 0x300 {
			add(kVersion, fmt.Sprintf("version 0x%x requested, policy carries 0x%x", in.Version, p.Version))
		} else {
			add("", fmt.Sprintf("version 0x%x requested, policy carries 0x%x", in.Version, p.Version))
		}
	}
	if uint16(p.HashAlg) != specAlg[h] {
		add("", fmt.Sprintf("hash algorithm %v requested, policy carries TPM_ALG 0x%x (want 0x%x)", h, uint16(p.HashAlg), specAlg[h]))
	}
	// the given policy hash
	if allZero(p.PolicyHash[:]) && !allZero(digest) {
		add("", "the policy hash was dropped: PolicyHash is all zero")
	} else if len(digest) <= len(p.PolicyHash) {
		if !bytes.Equal(p.PolicyHash[:len(digest)], digest) || !allZero(p.PolicyHash[len(digest):]) {
			add("", fmt.Sprintf("PolicyHash %x is not the given digest %x (zero padded)", p.PolicyHash, digest))
		}
	} else {
		if bytes.Equal(p.PolicyHash[:], digest[:len(p.PolicyHash)]) {
			add(kTrunc, fmt.Sprintf("the %d-byte digest does not fit PolicyHash [%d]byte: last %d bytes lost", len(digest), len(p.PolicyHash), len(digest)-len(p.PolicyHash)))
		} else {
			add("", fmt.Sprintf("PolicyHash %x is not a prefix of the given digest %x", p.PolicyHash, digest))
		}
	}
	if p.SINITMinVersion != in.Sinit {
		add("", fmt.Sprintf("SINITMinVersion %d requested, policy carries %d", in.Sinit, p.SINITMinVersion))
	}
	if w := specWord(in.PC, specPC); p.PolicyControl != w {
		add("", fmt.Sprintf("PolicyControl word 0x%x, flags %v encode as 0x%x", p.PolicyControl, in.PC, w))
	}
	if w := uint16(specWord(in.AH, specAH)); p.LcpHashAlgMask != w {
		add("", fmt.Sprintf("LcpHashAlgMask 0x%x, flags %v encode as 0x%x", p.LcpHashAlgMask, in.AH, w))
	}
	if w := specWord(in.AS, specAS); uint32(p.LcpSignAlgMask) != w {
		add("", fmt.Sprintf("LcpSignAlgMask 0x%x, flags %v encode as 0x%x", uint32(p.LcpSignAlgMask), in.AS, w))
	}
	// decoding is the inverse of encoding
	if got := pcBools(p.ParsePolicyControl2()); fmt.Sprint(got) != fmt.Sprint(in.PC) {
		add("", fmt.Sprintf("ParsePolicyControl2(deconstructPolicyControl(%v)) = %v", in.PC, got))
	}
	if got := ahBools(p.ParseApprovedHashAlgorithm()); fmt.Sprint(got) != fmt.Sprint(in.AH) {
		add("", fmt.Sprintf("ParseApprovedHashAlgorithm(deconstructApprovedHashAlgs(%v)) = %v", in.AH, got))
	}
	if got := asBools(p.ParseApprovedSignatureAlgorithm()); fmt.Sprint(got) != fmt.Sprint(in.AS) {
		add("", fmt.Sprintf("ParseApprovedSignatureAlgorithm(deconstructApprovedSigAlgs(%v)) = %v", in.AS, got))
	}
	return
}

func report(c *gal.Ctx, idx int, fails [][2]string, site string, input interface{}) {
	if len(fails) == 0 {
		c.OracleOK()
		return
	}
	// an unknown failure wins over known ones
	for _, f := range fails {
		if f[0] == "" {
			c.OracleFail(idx, f[1], site, input)
			return
		}
	}
	seen := map[string]bool{}
	for _, f := range fails {
		if !seen[f[0]] {
			seen[f[0]] = true
			c.OracleFailKnown(idx, f[0], f[1], site, input)
		}
	}
}

var hashName = map[crypto.Hash]string{crypto.SHA1: "SHA1", crypto.SHA256: "SHA256", crypto.SHA384: "SHA384", crypto.SHA512: "SHA512", crypto.MD5: "MD5", crypto.SHA224: "SHA224"}

// one GenLCPPolicyV2 call: correspondence case, oracle, and (when it succeeded)
// the write -> parse round trip of the generated policy.
func genCase(c *gal.Ctx, version uint16, h crypto.Hash, digest []byte, sinit uint8, pcf, ahf, asf []bool, emit bool) {
	in := genIn{version, hashName[h], fmt.Sprintf("%x", digest), sinit, pcf, ahf, asf}
	r := callGen(version, h, digest, sinit, mkPC(pcf), mkAH(ahf), mkAS(asf))
	idx := -1
	if emit {
		var res string
		switch {
		case r.panicked:
			res = "RPanic"
		case r.err != nil:
			res = fmt.Sprintf("(RErr %d)", errClass(r.err))
		default:
			res = "(ROk " + p2Lit(r.pol) + ")"
		}
		idx = c.Add("gen", fmt.Sprintf("CGen %d %d %s %d %s %s %s %s", version, uint(h), gal.Bytes(digest), sinit,
			gal.BoolList(pcf), gal.BoolList(ahf), gal.BoolList(asf), res), in, r.err == nil && !r.panicked)
	}
	_, offered := specAlg[h]
	inQuantifier := offered && len(digest) == h.Size()
	if r.panicked {
		c.OracleFail(idx, "GenLCPPolicyV2 panicked: "+r.msg, siteGen, in)
		return
	}
	if !inQuantifier {
		c.Count("gen_outside_quantifier")
		if r.err == nil && emit {
			roundTrip2(c, r.pol, "gen-outside", in, false)
		}
		return
	}
	report(c, idx, judgeGen(in, h, digest, r), siteGen, in)
	if r.err == nil && emit {
		roundTrip2(c, r.pol, "gen", in, true)
	}
}

// ---------------------------------------------------------------- serialise -> parse

func eq2(a, b *tools.LCPPolicy2) string {
	switch {
	case a.Version != b.Version:
		return "Version"
	case a.HashAlg != b.HashAlg:
		return "HashAlg"
	case a.PolicyType != b.PolicyType:
		return "PolicyType"
	case a.SINITMinVersion != b.SINITMinVersion:
		return "SINITMinVersion"
	case a.DataRevocationCounters != b.DataRevocationCounters:
		return "DataRevocationCounters"
	case a.PolicyControl != b.PolicyControl:
		return "PolicyControl"
	case a.MaxSINITMinVersion != b.MaxSINITMinVersion:
		return "MaxSINITMinVersion"
	case a.Reserved != b.Reserved:
		return "Reserved"
	case a.LcpHashAlgMask != b.LcpHashAlgMask:
		return "LcpHashAlgMask"
	case a.LcpSignAlgMask != b.LcpSignAlgMask:
		return "LcpSignAlgMask"
	case a.Reserved2 != b.Reserved2:
		return "Reserved2"
	case a.PolicyHash != b.PolicyHash:
		return "PolicyHash"
	}
	return ""
}

func eq1(a, b *tools.LCPPolicy) string {
	switch {
	case a.Version != b.Version:
		return "Version"
	case a.HashAlg != b.HashAlg:
		return "HashAlg"
	case a.PolicyType != b.PolicyType:
		return "PolicyType"
	case a.SINITMinVersion != b.SINITMinVersion:
		return "SINITMinVersion"
	case a.Reserved != b.Reserved:
		return "Reserved"
	case a.DataRevocationCounters != b.DataRevocationCounters:
		return "DataRevocationCounters"
	case a.PolicyControl != b.PolicyControl:
		return "PolicyControl"
	case a.MaxSINITMinVersion != b.MaxSINITMinVersion:
		return "MaxSINITMinVersion"
	case a.Reserved1 != b.Reserved1:
		return "Reserved1"
	case a.Reserved2 != b.Reserved2:
		return "Reserved2"
	case a.Reserved3 != b.Reserved3:
		return "Reserved3"
	case a.PolicyHash != b.PolicyHash:
		return "PolicyHash"
	}
	return ""
}

// roundTrip2: binary.Write(pol) then ParsePolicy. judge says whether the policy is a
// well-formed one of the property's quantifier.
func roundTrip2(c *gal.Ctx, pol *tools.LCPPolicy2, origin string, src interface{}, judge bool) {
	b := write2(pol)
	d := map[string]interface{}{"op": "write2+parse", "origin": origin, "source": src, "policy": fmt.Sprintf("%+v", *pol), "bytes_hex": fmt.Sprintf("%x", b)}
	idx := c.Add("enc2", fmt.Sprintf("CEnc2 %s %s", p2Lit(pol), gal.Bytes(b)), d, true)
	if !bytes.Equal(b, specBytes2(pol)) {
		c.OracleFail(idx, fmt.Sprintf("serialisation of LCPPolicy2 is %x, the LCP_POLICY2 layout gives %x", b, specBytes2(pol)), siteWrite, d)
	} else {
		c.OracleOK()
	}
	// the same policy through the provisioning code: bytes of the NV_Write to the PS index
	if judge {
		nv, nvIdx, err, pan, msg := psIndexBytes(pol)
		d2 := map[string]interface{}{"op": "WritePSIndexTPM20(fake TPM)", "origin": origin, "source": src, "policy": fmt.Sprintf("%+v", *pol)}
		if pan || err != nil {
			c.OracleFail(-1, fmt.Sprintf("WritePSIndexTPM20 on a recording TPM failed: panic=%v %s err=%v", pan, msg, err), siteWrite, d2)
		} else {
			i2 := c.Add("ps_index_write", fmt.Sprintf("CEnc2 %s %s", p2Lit(pol), gal.Bytes(nv)), d2, true)
			if !bytes.Equal(nv, specBytes2(pol)) || nvIdx != 0x01C10103 {
				c.OracleFail(i2, fmt.Sprintf("WritePSIndexTPM20 wrote %x to index 0x%x, the LCP_POLICY2 layout gives %x (PS index 0x01C10103)", nv, nvIdx, specBytes2(pol)), siteWrite, d2)
			} else {
				c.OracleOK()
			}
		}
	}
	r := callParse(b)
	idx = c.Add("parse_of_enc2", fmt.Sprintf("CParse %s %s %s", gal.Bool(sha3), gal.Bytes(b), r.lit()), d, true)
	if r.panicked {
		c.OracleFail(idx, "ParsePolicy panicked: "+r.msg, siteParse, d)
		return
	}
	if !judge || wfBytes(b) != 2 {
		c.Count("roundtrip_outside_quantifier")
		return
	}
	if r.err != nil || r.p2 == nil || r.p1 != nil {
		if n := specDigestLen[uint16(pol.HashAlg)]; n > len(pol.PolicyHash) && r.err != nil && errClass(r.err) == 2 {
			c.OracleFailKnown(idx, kRoundtrp, fmt.Sprintf("the 70-byte serialisation of a policy with HashAlg 0x%x cannot be parsed back: %v", uint16(pol.HashAlg), r.err), siteParse2, d)
		} else {
			c.OracleFail(idx, fmt.Sprintf("serialised well-formed policy does not parse back as LCPPolicy2 (err=%v)", r.err), siteParse, d)
		}
		return
	}
	if f := eq2(pol, r.p2); f != "" {
		c.OracleFail(idx, fmt.Sprintf("parse(serialise(p)) differs from p in field %s: wrote %+v, parsed %+v", f, *pol, *r.p2), siteParse, d)
		return
	}
	c.OracleOK()
}

func roundTrip1(c *gal.Ctx, pol *tools.LCPPolicy, origin string, judge bool) {
	b := write1(pol)
	d := map[string]interface{}{"op": "write1+parse", "origin": origin, "policy": fmt.Sprintf("%+v", *pol), "bytes_hex": fmt.Sprintf("%x", b)}
	idx := c.Add("enc1", fmt.Sprintf("CEnc1 %s %s", p1Lit(pol), gal.Bytes(b)), d, true)
	if !bytes.Equal(b, specBytes1(pol)) {
		c.OracleFail(idx, fmt.Sprintf("serialisation of LCPPolicy is %x, the LCP_POLICY layout gives %x", b, specBytes1(pol)), siteWrite, d)
	} else {
		c.OracleOK()
	}
	r := callParse(b)
	idx = c.Add("parse_of_enc1", fmt.Sprintf("CParse %s %s %s", gal.Bool(sha3), gal.Bytes(b), r.lit()), d, true)
	if r.panicked {
		c.OracleFail(idx, "ParsePolicy panicked: "+r.msg, siteParse, d)
		return
	}
	if !judge || wfBytes(b) != 1 {
		c.Count("roundtrip_outside_quantifier")
		return
	}
	if r.err != nil || r.p1 == nil || r.p2 != nil {
		c.OracleFail(idx, fmt.Sprintf("serialised well-formed v2 policy does not parse back as LCPPolicy (err=%v)", r.err), siteParse, d)
		return
	}
	if f := eq1(pol, r.p1); f != "" {
		c.OracleFail(idx, fmt.Sprintf("parse(serialise(p)) differs from p in field %s: wrote %+v, parsed %+v", f, *pol, *r.p1), siteParse, d)
		return
	}
	c.OracleOK()
}

// ---------------------------------------------------------------- parse -> re-serialise

func parseCase(c *gal.Ctx, kind string, b []byte) {
	r := callParse(b)
	d := map[string]interface{}{"op": "parse+write", "kind": kind, "bytes_hex": fmt.Sprintf("%x", b), "len": len(b)}
	wf := wfBytes(b)
	idx := c.Add("parse_"+kind, fmt.Sprintf("CParse %s %s %s", gal.Bool(sha3), gal.Bytes(b), r.lit()), d, len(b) >= 38)
	if r.panicked {
		c.OracleFail(idx, "ParsePolicy panicked: "+r.msg, siteParse, d)
		return
	}
	var re []byte
	if r.err == nil && r.p1 != nil {
		re = write1(r.p1)
		c.Add("enc1_of_parse", fmt.Sprintf("CEnc1 %s %s", p1Lit(r.p1), gal.Bytes(re)), d, true)
	} else if r.err == nil && r.p2 != nil {
		re = write2(r.p2)
		c.Add("enc2_of_parse", fmt.Sprintf("CEnc2 %s %s", p2Lit(r.p2), gal.Bytes(re)), d, true)
	}
	if wf == 0 {
		c.Count("parse_not_wellformed")
		if r.err == nil && r.p1 == nil && r.p2 == nil {
			c.OracleFail(idx, "ParsePolicy returned nil, nil, nil", siteParse, d)
		}
		return
	}
	if r.err != nil || (wf == 1) != (r.p1 != nil) || (wf == 2) != (r.p2 != nil) {
		alg := uint16(b[2]) | uint16(b[3])<<8
		if wf == 2 && specDigestLen[alg] > 32 && r.err != nil && errClass(r.err) == 2 {
			c.OracleFailKnown(idx, kRoundtrp, fmt.Sprintf("a 70-byte policy with HashAlg 0x%x is rejected: %v", alg, r.err), siteParse2, d)
		} else {
			c.OracleFail(idx, fmt.Sprintf("well-formed %d-byte policy is not parsed as version-%d policy (err=%v)", len(b), wf+1, r.err), siteParse, d)
		}
		return
	}
	if !bytes.Equal(re, b) {
		c.OracleFail(idx, fmt.Sprintf("re-serialising the parsed policy gives %x, original %x", re, b), siteParse, d)
		return
	}
	c.OracleOK()
}

// ---------------------------------------------------------------- random material

func randBytes(c *gal.Ctx, n int) []byte {
	b := make([]byte, n)
	c.Rng.Read(b)
	return b
}

func randDigest(c *gal.Ctx, n int) []byte {
	b := randBytes(c, n)
	if n > 0 && allZero(b) {
		b[0] = 1
	}
	if n > 0 && c.Rng.Intn(8) == 0 { // digest with a zero prefix/suffix: "all zero" must not be confused with it
		for i := 0; i < n/2; i++ {
			b[i] = 0
		}
		b[n-1] |= 1
	}
	return b
}

func randVersion(c *gal.Ctx) uint16 {
	switch c.Rng.Intn(10) {
	case 0:
		return 0x300
	case 1:
		return 0x302
	case 2:
		return 0x304
	case 3:
		return 0x306
	case 4:
		return 0x301
	case 5:
		return uint16(0x300 + c.Rng.Intn(0x100))
	case 6:
		return uint16(c.Rng.Intn(0x300)) // below 3.0
	case 7:
		return []uint16{0, 0x204, 0x2ff, 0xffff, 0x205}[c.Rng.Intn(5)]
	}
	return uint16(c.Rng.Intn(0x10000))
}

func randV1Version(c *gal.Ctx) uint16 {
	switch c.Rng.Intn(5) {
	case 0:
		return 0x204
	case 1:
		return 0x202
	case 2:
		return 0x100
	case 3:
		return 0
	}
	return uint16(c.Rng.Intn(0x205))
}

func randPol2(c *gal.Ctx, alg uint16) *tools.LCPPolicy2 {
	p := &tools.LCPPolicy2{
		Version:            uint16(0x300 + c.Rng.Intn(8)),
		HashAlg:            tpm2.Algorithm(alg),
		PolicyType:         tools.LCPPolicyType(c.Rng.Intn(2)),
		SINITMinVersion:    uint8(c.Rng.Intn(256)),
		PolicyControl:      c.Rng.Uint32(),
		MaxSINITMinVersion: uint8(c.Rng.Intn(256)),
		Reserved:           uint8(c.Rng.Intn(256)),
		LcpHashAlgMask:     uint16(c.Rng.Intn(0x10000)),
		LcpSignAlgMask:     tools.LCPPol2Sig(c.Rng.Uint32()),
		Reserved2:          c.Rng.Uint32(),
	}
	if c.Rng.Intn(4) == 0 {
		p.Version = uint16(0x300 + c.Rng.Intn(0x10000-0x300))
	}
	if c.Rng.Intn(6) == 0 {
		p.PolicyType = tools.LCPPolicyType(c.Rng.Intn(256))
	}
	for i := range p.DataRevocationCounters {
		p.DataRevocationCounters[i] = uint16(c.Rng.Intn(0x10000))
	}
	n := specDigestLen[alg]
	if n == 0 || n > 32 {
		n = 32
	}
	copy(p.PolicyHash[:], randDigest(c, n))
	return p
}

func randPol1(c *gal.Ctx) *tools.LCPPolicy {
	p := &tools.LCPPolicy{
		Version:            randV1Version(c),
		HashAlg:            uint8(c.Rng.Intn(2) * c.Rng.Intn(256)),
		PolicyType:         tools.LCPPolicyType(c.Rng.Intn(2)),
		SINITMinVersion:    uint8(c.Rng.Intn(256)),
		Reserved:           uint8(c.Rng.Intn(256)),
		PolicyControl:      c.Rng.Uint32(),
		MaxSINITMinVersion: uint8(c.Rng.Intn(256)),
		Reserved1:          uint8(c.Rng.Intn(256)),
		Reserved2:          uint16(c.Rng.Intn(0x10000)),
		Reserved3:          c.Rng.Uint32(),
	}
	for i := range p.DataRevocationCounters {
		p.DataRevocationCounters[i] = uint16(c.Rng.Intn(0x10000))
	}
	copy(p.PolicyHash[:], randDigest(c, 20))
	return p
}

// ---------------------------------------------------------------- flag words

func flagWords(c *gal.Ctx, wpc uint32, wah uint16, was uint32) {
	p1 := tools.LCPPolicy{PolicyControl: wpc}
	p2 := tools.LCPPolicy2{PolicyControl: wpc, LcpHashAlgMask: wah, LcpSignAlgMask: tools.LCPPol2Sig(was)}
	pc1 := pcBools(p1.ParsePolicyControl())
	pc2 := pcBools(p2.ParsePolicyControl2())
	ah := ahBools(p2.ParseApprovedHashAlgorithm())
	as := asBools(p2.ParseApprovedSignatureAlgorithm())
	d := map[string]interface{}{"op": "parse-flag-words", "PolicyControl": wpc, "LcpHashAlgMask": wah, "LcpSignAlgMask": was}
	idx := c.Add("flag_words", fmt.Sprintf("CFlags %d %d %d %s %s %s %s", wpc, wah, was, gal.BoolList(pc1), gal.BoolList(pc2), gal.BoolList(ah), gal.BoolList(as)), d, true)
	switch {
	case fmt.Sprint(pc1) != fmt.Sprint(specFlags(wpc, specPC)):
		c.OracleFail(idx, fmt.Sprintf("ParsePolicyControl(0x%x) = %v, SDG bits give %v", wpc, pc1, specFlags(wpc, specPC)), siteFlags, d)
	case fmt.Sprint(pc2) != fmt.Sprint(specFlags(wpc, specPC)):
		c.OracleFail(idx, fmt.Sprintf("ParsePolicyControl2(0x%x) = %v, SDG bits give %v", wpc, pc2, specFlags(wpc, specPC)), siteFlags, d)
	case fmt.Sprint(ah) != fmt.Sprint(specFlags(uint32(wah), specAH)):
		c.OracleFail(idx, fmt.Sprintf("ParseApprovedHashAlgorithm(0x%x) = %v, SDG bits give %v", wah, ah, specFlags(uint32(wah), specAH)), siteFlags, d)
	case fmt.Sprint(as) != fmt.Sprint(specFlags(was, specAS)):
		c.OracleFail(idx, fmt.Sprintf("ParseApprovedSignatureAlgorithm(0x%x) = %v, SDG bits give %v", was, as, specFlags(was, specAS)), siteFlags, d)
	default:
		c.OracleOK()
	}
}

// ---------------------------------------------------------------- main

func main() {
	c := gal.New("C17", header, 620)
	logrus.SetLevel(logrus.ErrorLevel)
	offered := []crypto.Hash{crypto.SHA1, crypto.SHA256, crypto.SHA384}

	// ---- 1. all 2^4 x 2^4 x 2^7 flag combinations through GenLCPPolicyV2 and the Parse* decoders
	// (oracle on every one; every 37th also becomes a Coq case, so do all single-flag ones)
	fixed := randDigest(c, 32)
	for n := 0; n < 1<<15; n++ {
		pcf, ahf, asf := bitsOf(n&15, 4), bitsOf((n>>4)&15, 4), bitsOf(n>>8, 7)
		single := n&(n-1) == 0
		genCase(c, 0x300, crypto.SHA256, fixed, uint8(n), pcf, ahf, asf, single || n%37 == 0 || n == 1<<15-1)
	}
	c.Rep.Extra["flag_combinations_checked_by_oracle"] = 1 << 15

	// ---- 2. GenLCPPolicyV2 over hash algs x versions x digests x flags
	ng := c.Scale(330, 4000)
	for i := 0; i < ng; i++ {
		h := offered[i%3]
		n := c.Rng.Intn(1 << 15)
		genCase(c, randVersion(c), h, randDigest(c, h.Size()), uint8(c.Rng.Intn(256)), bitsOf(n&15, 4), bitsOf((n>>4)&15, 4), bitsOf(n>>8, 7), true)
	}
	for _, v := range []uint16{0, 0x204, 0x2ff, 0x300, 0x301, 0x302, 0x304, 0x306, 0xffff} {
		for _, h := range offered {
			genCase(c, v, h, randDigest(c, h.Size()), 1, bitsOf(5, 4), bitsOf(2, 4), bitsOf(9, 7), true)
		}
	}
	// digests of non-matching length, hash algorithms the tool does not offer
	for i := 0; i < c.Scale(90, 600); i++ {
		h := []crypto.Hash{crypto.SHA1, crypto.SHA256, crypto.SHA384, crypto.SHA512, crypto.MD5, crypto.SHA224}[c.Rng.Intn(6)]
		var n int
		switch c.Rng.Intn(4) {
		case 0:
			n = []int{0, 1, 19, 20, 21, 31, 32, 33, 47, 48, 49, 64}[c.Rng.Intn(12)]
		case 1:
			n = h.Size() - 1
		case 2:
			n = h.Size() + 1 + c.Rng.Intn(20)
		default:
			n = c.Rng.Intn(70)
		}
		m := c.Rng.Intn(1 << 15)
		genCase(c, randVersion(c), h, randDigest(c, n), uint8(c.Rng.Intn(256)), bitsOf(m&15, 4), bitsOf((m>>4)&15, 4), bitsOf(m>>8, 7), true)
	}

	// ---- 3. serialise -> parse of arbitrary well-formed structs (all field values, not only generated ones)
	for i := 0; i < c.Scale(150, 2000); i++ {
		alg := []uint16{0x4, 0xB, 0xC}[i%3]
		roundTrip2(c, randPol2(c, alg), "random-struct", nil, true)
	}
	for i := 0; i < c.Scale(100, 1500); i++ {
		roundTrip1(c, randPol1(c), "random-struct", true)
	}
	// structs outside the quantifier: SHA1 policy with a non-zero tail, unknown / SHA-512 / SHA-3 algorithm ids, version below 3.0 in the v3 struct
	for i := 0; i < c.Scale(40, 400); i++ {
		p := randPol2(c, []uint16{0x4, 0xD, 0x27, 0x28, 0x29, 0x0, 0x12, uint16(c.Rng.Intn(0x10000))}[c.Rng.Intn(8)])
		copy(p.PolicyHash[:], randDigest(c, 32))
		if c.Rng.Intn(5) == 0 {
			p.Version = uint16(c.Rng.Intn(0x300))
		}
		roundTrip2(c, p, "struct-outside", nil, false)
	}
	for i := 0; i < c.Scale(20, 200); i++ {
		p := randPol1(c)
		p.Version = uint16(0x205 + c.Rng.Intn(0x10000-0x205))
		roundTrip1(c, p, "struct-outside", false)
	}

	// ---- 4. parse -> re-serialise of byte strings
	for i := 0; i < c.Scale(160, 2000); i++ { // well-formed 54-byte
		b := randBytes(c, 54)
		put(b, 0, 2, uint64(randV1Version(c)))
		parseCase(c, "wf54", b)
	}
	for i := 0; i < c.Scale(240, 3000); i++ { // well-formed 70-byte
		b := randBytes(c, 70)
		v := 0x300 + c.Rng.Intn(8)
		if c.Rng.Intn(4) == 0 {
			v = 0x300 + c.Rng.Intn(0x10000-0x300)
		}
		put(b, 0, 2, uint64(v))
		alg := []uint16{0x4, 0xB, 0xC}[i%3]
		put(b, 2, 2, uint64(alg))
		if alg == 0x4 {
			for j := 58; j < 70; j++ {
				b[j] = 0
			}
		}
		parseCase(c, "wf70", b)
	}
	// version boundaries with both lengths
	for _, v := range []uint16{0, 0x203, 0x204, 0x205, 0x2ff, 0x300, 0x301, 0xffff} {
		for _, n := range []int{54, 70} {
			b := randBytes(c, n)
			put(b, 0, 2, uint64(v))
			put(b, 2, 2, 0xB)
			parseCase(c, "version-boundary", b)
		}
	}
	// every length 0..110 for the four hash sizes (EOF at a field boundary vs inside a field, tolerated EOF at 38)
	for _, alg := range []uint16{0x4, 0xB, 0xC, 0xD} {
		full := randBytes(c, 111)
		put(full, 0, 2, 0x300)
		put(full, 2, 2, uint64(alg))
		step := c.Scale(3, 1)
		for n := 0; n <= 110; n++ {
			if n%step == 0 || n <= 40 || n == 54 || n == 58 || n == 70 || n == 86 || n == 102 || n == 57 || n == 59 || n == 69 || n == 71 || n == 85 || n == 101 {
				parseCase(c, "truncated-v3", full[:n])
			}
		}
	}
	{
		full := randBytes(c, 80)
		put(full, 0, 2, 0x204)
		for n := 0; n <= 80; n++ {
			if n <= 56 || n%4 == 0 {
				parseCase(c, "truncated-v2", full[:n])
			}
		}
	}
	// malformed: random length / random content / one byte of a well-formed policy changed
	for i := 0; i < c.Scale(160, 2000); i++ {
		var b []byte
		switch c.Rng.Intn(5) {
		case 0:
			b = randBytes(c, c.Rng.Intn(120))
		case 1: // SHA1 with non-zero tail
			b = randBytes(c, 70)
			put(b, 0, 2, uint64(0x300+c.Rng.Intn(4)))
			put(b, 2, 2, 0x4)
			b[58+c.Rng.Intn(12)] |= 1
		case 2: // unknown / unavailable algorithm id
			b = randBytes(c, []int{38, 54, 70, 86, 102}[c.Rng.Intn(5)])
			put(b, 0, 2, uint64(0x300+c.Rng.Intn(4)))
			put(b, 2, 2, uint64([]int{0, 1, 5, 0xA, 0xE, 0x12, 0x27, 0x28, 0x29, 0x10B, 0xB00, 0x40B}[c.Rng.Intn(12)]))
		case 3: // well-formed with one byte changed (mostly the header)
			b = randBytes(c, 70)
			put(b, 0, 2, 0x300)
			put(b, 2, 2, 0xB)
			b[c.Rng.Intn(6)] = byte(c.Rng.Intn(256))
		default: // wrong length for the version
			b = randBytes(c, []int{53, 55, 69, 71, 54, 70}[c.Rng.Intn(6)])
			put(b, 0, 2, uint64([]int{0x204, 0x300, 0x100, 0x302}[c.Rng.Intn(4)]))
			put(b, 2, 2, uint64([]int{0x4, 0xB, 0xC}[c.Rng.Intn(3)]))
		}
		parseCase(c, "malformed", b)
	}

	// ---- 5. raw flag words (defined and undefined bits) through the decoders
	for i := 0; i < 32; i++ {
		flagWords(c, 1<<uint(i), 1<<uint(i%16), 1<<uint(i))
	}
	flagWords(c, 0, 0, 0)
	flagWords(c, 0xffffffff, 0xffff, 0xffffffff)
	flagWords(c, 0x80000007, 0x69, 0x130cc)
	flagWords(c, 0x7ffffff8, 0xff96, 0xfffecf33)
	for i := 0; i < c.Scale(200, 3000); i++ {
		flagWords(c, c.Rng.Uint32(), uint16(c.Rng.Intn(0x10000)), c.Rng.Uint32())
	}

	// ---- 6. the policy txt-prov generates from its JSON config (loadConfig in the real txt-prov binary)
	configCases(c)

	// ---- probes of the listed findings (fixed witnesses)
	{
		d := make([]byte, 48)
		for i := range d {
			d[i] = byte(i + 1)
		}
		r := callGen(0x300, crypto.SHA384, d, 0, tools.PolicyControl{}, tools.ApprovedHashAlgorithm{}, tools.ApprovedSignatureAlogrithm{})
		trunc := r.err == nil && !r.panicked && bytes.Equal(r.pol.PolicyHash[:], d[:32])
		c.Probe(kTrunc, trunc, "GenLCPPolicyV2(0x300, SHA384, 01..30) keeps only the first 32 of the 48 digest bytes (PolicyHash is [32]byte)")
		rt := false
		if r.err == nil && !r.panicked {
			pr := callParse(write2(r.pol))
			rt = pr.err != nil && errClass(pr.err) == 2
		}
		c.Probe(kRoundtrp, rt, "ParsePolicy(binary.Write(GenLCPPolicyV2(0x300, SHA384, ...))) fails with unexpected EOF: the parser wants 48 hash bytes, the struct holds 32")
		r = callGen(0x204, crypto.SHA256, d[:32], 0, tools.PolicyControl{}, tools.ApprovedHashAlgorithm{}, tools.ApprovedSignatureAlogrithm{})
		c.Probe(kVersion, r.err == nil && !r.panicked && r.pol.Version == 0x300, "GenLCPPolicyV2(version=0x204, ...) returns a policy with Version 0x300")
	}

	c.Rep.Extra["sha3_linked"] = sha3
	c.Finish("all 2^15 flag combinations through GenLCPPolicyV2 + Parse* (oracle on all, a Coq case for every 37th and every single-flag one); " +
		"GenLCPPolicyV2 over {SHA1,SHA256,SHA384} x versions {0x300,0x302,0x304,0x306,boundaries,random} x random digests (matching and non-matching length) x random flags, " +
		"each generated policy written with binary.Write and parsed back; random well-formed LCPPolicy/LCPPolicy2 structs written and parsed back; " +
		"random well-formed 54-/70-byte strings parsed and re-serialised; every truncation length 0..110; malformed strings; raw flag words; " +
		"txt-prov loadConfig in the real binary: every flag set the config can name (documented order, reversed, shuffled), all versions x hash algorithms, " +
		"hex spellings, documented version forms, the shipped lcp.json, configs with one key outside the documentation, each generated policy through " +
		"writePSPolicy2file, WritePSIndexTPM20 and ParsePolicy. " +
		"non-trivial = the call returned a policy (gen), any serialisation case, parse input of >= 38 bytes; distinct = distinct Gallina literal")
}
