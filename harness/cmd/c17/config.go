// C17, the config path: the policy the txt-prov tool generates from its JSON config file
// (cmd/core/txt-prov/config.go loadConfig) and writes with writePSPolicy2file / WritePSIndexTPM20.
//
// loadConfig lives in a package main, which cannot be imported.  The harness therefore builds the
// real txt-prov binary of $VERIF_REPO with one extra file added by `go build -overlay`
// (txtprov_hook.go.txt, nothing is written under /repo): with C17_TXTPROV_SERVER set the binary
// answers "load this config file, write the --output file" requests on stdin/stdout.
//
// The oracle is written from the property text, the documentation of the config keys (the
// comments of configJSON, README.md, the shipped lcp.json) and the SDG bit tables of main.go;
// it has its own reading of hex strings and its own name lists.
package main

import (
	"bufio"
	"bytes"
	_ "embed"
	"encoding/hex"
	"encoding/json"
	"fmt"
	"math/big"
	"os"
	"os/exec"
	"path/filepath"
	"strings"
	"time"

	"github.com/9elements/converged-security-suite/v2/pkg/tools"
	"github.com/google/go-tpm/legacy/tpm2"
	"verifharness/gal"
)

//go:embed txtprov_hook.go.txt
var txtprovHook []byte

const (
	siteConfig  = "cmd/core/txt-prov/config.go:loadConfig (names looked up in tools.PolicyControlMap / HashMaskMap / SignMaskMap, txt.HashMapping, tools.HashAlgMap)"
	siteCfgFile = "cmd/core/txt-prov/tools.go:writePSPolicy2file"
)

// ---------------------------------------------------------------- the txt-prov process

type cfgAnswer struct {
	Panicked bool   `json:"panicked"`
	Msg      string `json:"msg"`
	Err      string `json:"err"`
	Nil      bool   `json:"nil"`

	Version            uint16    `json:"version"`
	HashAlg            uint16    `json:"hashalg"`
	PolicyType         uint8     `json:"ptype"`
	SINITMinVersion    uint8     `json:"sinit"`
	DRC                [8]uint16 `json:"drc"`
	PolicyControl      uint32    `json:"pc"`
	MaxSINITMinVersion uint8     `json:"maxsinit"`
	Reserved           uint8     `json:"reserved"`
	LcpHashAlgMask     uint16    `json:"hmask"`
	LcpSignAlgMask     uint32    `json:"smask"`
	Reserved2          uint32    `json:"res2"`
	PolicyHash         string    `json:"hash_hex"`

	FileErr      string `json:"file_err"`
	FilePanicked bool   `json:"file_panicked"`
}

func (a *cfgAnswer) policy() *tools.LCPPolicy2 {
	p := &tools.LCPPolicy2{Version: a.Version, HashAlg: tpm2.Algorithm(a.HashAlg), PolicyType: tools.LCPPolicyType(a.PolicyType),
		SINITMinVersion: a.SINITMinVersion, DataRevocationCounters: a.DRC, PolicyControl: a.PolicyControl,
		MaxSINITMinVersion: a.MaxSINITMinVersion, Reserved: a.Reserved, LcpHashAlgMask: a.LcpHashAlgMask,
		LcpSignAlgMask: tools.LCPPol2Sig(a.LcpSignAlgMask), Reserved2: a.Reserved2}
	h, _ := hex.DecodeString(a.PolicyHash)
	copy(p.PolicyHash[:], h)
	return p
}

type txtprov struct {
	dir   string
	cmd   *exec.Cmd
	in    *bufio.Writer
	lines chan string
	n     int
	dead  string
}

// startTxtprov builds cmd/core/txt-prov of the repository under test with the hook file overlaid.
func startTxtprov() (*txtprov, error) {
	repo := os.Getenv("VERIF_REPO")
	if repo == "" {
		repo = "/repo"
	}
	dir, err := os.MkdirTemp("", "c17-txtprov-")
	if err != nil {
		return nil, err
	}
	t := &txtprov{dir: dir}
	hook := filepath.Join(dir, "hook.go")
	if err := os.WriteFile(hook, txtprovHook, 0o600); err != nil {
		return t, err
	}
	ov, _ := json.Marshal(map[string]interface{}{"Replace": map[string]string{
		filepath.Join(repo, "cmd", "core", "txt-prov", "zz_c17_verif_hook.go"): hook}})
	ovf := filepath.Join(dir, "overlay.json")
	if err := os.WriteFile(ovf, ov, 0o600); err != nil {
		return t, err
	}
	bin := filepath.Join(dir, "txt-prov")
	b := exec.Command("go", "build", "-tags", "verif", "-overlay", ovf, "-o", bin, "./cmd/core/txt-prov")
	b.Dir = repo
	b.Env = append(os.Environ(), "GOFLAGS=-mod=mod", "GOPROXY=off", "GOSUMDB=off", "GOTOOLCHAIN=local", "CGO_ENABLED=0")
	if out, err := b.CombinedOutput(); err != nil {
		return t, fmt.Errorf("go build of cmd/core/txt-prov with the verification hook failed: %v: %s", err, out)
	}
	t.cmd = exec.Command(bin)
	t.cmd.Env = append(os.Environ(), "C17_TXTPROV_SERVER=1")
	t.cmd.Stderr = os.Stderr
	wp, err := t.cmd.StdinPipe()
	if err != nil {
		return t, err
	}
	rp, err := t.cmd.StdoutPipe()
	if err != nil {
		return t, err
	}
	if err := t.cmd.Start(); err != nil {
		return t, err
	}
	t.in = bufio.NewWriter(wp)
	t.lines = make(chan string, 4)
	go func() {
		sc := bufio.NewScanner(rp)
		sc.Buffer(make([]byte, 1<<16), 1<<20)
		for sc.Scan() {
			t.lines <- sc.Text()
		}
		close(t.lines)
	}()
	return t, nil
}

func (t *txtprov) stop() {
	if t.cmd != nil && t.cmd.Process != nil {
		_ = t.cmd.Process.Kill()
		_, _ = t.cmd.Process.Wait()
	}
	os.RemoveAll(t.dir)
}

// load runs loadConfig(file) and, when it returned a policy, writePSPolicy2file(policy, out)
// in the txt-prov process; file holds what that function wrote.
func (t *txtprov) load(cfgFile string) (a cfgAnswer, file []byte, err error) {
	if t.dead != "" {
		return a, nil, fmt.Errorf("%s", t.dead)
	}
	t.n++
	out := filepath.Join(t.dir, fmt.Sprintf("out-%d.bin", t.n))
	fmt.Fprintf(t.in, "%s\t%s\n", cfgFile, out)
	if err := t.in.Flush(); err != nil {
		t.dead = "the txt-prov process is gone: " + err.Error()
		return a, nil, fmt.Errorf("%s", t.dead)
	}
	select {
	case l, ok := <-t.lines:
		if !ok {
			t.dead = "the txt-prov process died while loading the config (a crash that recover() does not catch)"
			return a, nil, fmt.Errorf("%s", t.dead)
		}
		if err := json.Unmarshal([]byte(l), &a); err != nil {
			return a, nil, fmt.Errorf("unreadable answer %q: %v", l, err)
		}
	case <-time.After(30 * time.Second):
		t.dead = "loadConfig did not return within 30 s"
		_ = t.cmd.Process.Kill()
		return a, nil, fmt.Errorf("%s", t.dead)
	}
	file, _ = os.ReadFile(out)
	os.Remove(out)
	return a, file, nil
}

// ---------------------------------------------------------------- user parameters (oracle side)

// names of the config lists, in the order of pcBools / ahBools / asBools (bit positions: specPC,
// specAH, specAS).  The config offers three of the four hash-mask flags and six of the seven
// signature flags (comments of configJSON).
var cfgPCNames = []string{"NPW", "OwnerEnforced", "AuxDelete", "SinitCaps"}
var cfgAHNames = []string{"SHA1", "SHA256", "SHA384"}
var cfgASNames = []string{"RSA2048SHA1", "RSA2048SHA256", "RSA3072SHA256", "RSA3072SHA384", "ECDSAP256SHA256", "ECDSAP384SHA384"}
var cfgHashAlg = map[string]uint16{"SHA1": 0x4, "SHA256": 0xB, "SHA384": 0xC}

// cfgIn is one config file: the eight strings (after JSON decoding) and which keys are left out.
type cfgIn struct {
	Version, HashAlg, PolicyType, SINITMin, MaxSINITMin, PolicyControl, HashMask, SignMask string
	Unset                                                                                  []string `json:"keys_not_set"`
	KeyStyle                                                                               int      `json:"key_style"` // 0: the json tags, 1: the spelling of the shipped lcp.json
	Note                                                                                   string   `json:"note,omitempty"`
}

func (in *cfgIn) unset(k string) bool {
	for _, u := range in.Unset {
		if u == k {
			return true
		}
	}
	return false
}

func (in *cfgIn) fileContent() []byte {
	keys := [][2]string{{"Version", "Version"}, {"HashAlg", "HashAlg"}, {"PolicyType", "PolicyType"}, {"SINITMinVersion", "SINITMinVersion"},
		{"MaxSINITMinVersion", "MaxSINITMinVersion"}, {"PolicyControl", "PolicyControl"}, {"LCPHashAlgMask", "LcpHashAlgMask"}, {"LCPSignAlgMask", "LcpSignAlgMask"}}
	vals := []string{in.Version, in.HashAlg, in.PolicyType, in.SINITMin, in.MaxSINITMin, in.PolicyControl, in.HashMask, in.SignMask}
	var b bytes.Buffer
	b.WriteString("{\n")
	first := true
	for i, k := range keys {
		if in.unset(k[0]) {
			continue
		}
		if !first {
			b.WriteString(",\n")
		}
		first = false
		kb, _ := json.Marshal(k[in.KeyStyle])
		vb, _ := json.Marshal(vals[i])
		fmt.Fprintf(&b, "    %s: %s", kb, vb)
	}
	b.WriteString("\n}\n")
	return b.Bytes()
}

func (in *cfgIn) lit() string {
	return fmt.Sprintf("(MkCfg %s %s %s %s %s %s %s %s)", gal.Str(in.Version), gal.Str(in.HashAlg), gal.Str(in.PolicyType), gal.Str(in.SINITMin),
		gal.Str(in.MaxSINITMin), gal.Str(in.PolicyControl), gal.Str(in.HashMask), gal.Str(in.SignMask))
}

// hexValue: the number a string of hexadecimal digits denotes ("Hex value" in the config documentation)
func hexValue(s string) (*big.Int, bool) {
	if s == "" {
		return nil, false
	}
	for _, c := range s {
		if !strings.ContainsRune("0123456789abcdefABCDEF", c) {
			return nil, false
		}
	}
	return new(big.Int).SetString(s, 16)
}

// smallHex: s is a hex value of the config documentation - hex digits, bare or with one "0x" / "0X"
// in front (the form of the shipped lcp.json and of README.md) - for a value in [lo, hi]
func smallHex(s string, lo, hi int64) (int64, bool) {
	if strings.HasPrefix(s, "0x") || strings.HasPrefix(s, "0X") {
		s = s[2:]
	}
	v, ok := hexValue(s)
	if !ok || !v.IsInt64() || v.Int64() < lo || v.Int64() > hi {
		return 0, false
	}
	return v.Int64(), true
}

// nameSet reads a comma separated list of distinct names of the given list; ok = false when the
// string is anything else (unknown name, a name twice, blanks, empty items).
func nameSet(s string, names []string) (flags []bool, ok bool) {
	flags = make([]bool, len(names))
	if s == "" {
		return flags, true
	}
	for _, item := range strings.Split(s, ",") {
		found := false
		for i, n := range names {
			if item == n {
				if flags[i] {
					return nil, false
				}
				flags[i], found = true, true
			}
		}
		if !found {
			return nil, false
		}
	}
	return flags, true
}

// cfgParams: the user parameters a config file states, when it is one of the property's quantifier.
type cfgParams struct {
	version     uint16
	versionForm string // "hex" | "0x" | "unset"
	alg         uint16
	ptype       uint8
	sinit       uint8
	maxsinit    uint8
	pc, ah, as  []bool
}

func readParams(in *cfgIn) (p cfgParams, ok bool) {
	switch {
	case in.Version == "":
		// "Version field, 0x300 to 0x306 valid. If not set, 0x300 as default."
		p.version, p.versionForm = 0x300, "unset"
	default:
		v, ok := smallHex(in.Version, 0x300, 0x306)
		if !ok {
			return p, false
		}
		p.version, p.versionForm = uint16(v), "hex"
		if strings.HasPrefix(in.Version, "0x") || strings.HasPrefix(in.Version, "0X") {
			p.versionForm = "0x" // the form of the shipped lcp.json and of README.md ("Version": "0x302")
		}
	}
	if p.alg, ok = cfgHashAlg[in.HashAlg]; !ok {
		return p, false
	}
	switch in.PolicyType {
	case "Any":
		p.ptype = 1
	case "List":
		p.ptype = 0
	default:
		return p, false
	}
	p.sinit, p.maxsinit = 0, 0xff // "If not set, 0x0 as default" / "If not set, 0xff as default"
	if in.SINITMin != "" {
		v, ok := smallHex(in.SINITMin, 0, 255)
		if !ok {
			return p, false
		}
		p.sinit = uint8(v)
	}
	if in.MaxSINITMin != "" {
		v, ok := smallHex(in.MaxSINITMin, 0, 255)
		if !ok {
			return p, false
		}
		p.maxsinit = uint8(v)
	}
	if p.pc, ok = nameSet(in.PolicyControl, cfgPCNames); !ok {
		return p, false
	}
	if p.ah, ok = nameSet(in.HashMask, cfgAHNames); !ok {
		return p, false
	}
	if p.as, ok = nameSet(in.SignMask, cfgASNames); !ok {
		return p, false
	}
	p.ah = append(p.ah, false) // SM3 cannot be named
	p.as = append(p.as, false) // SM2 cannot be named
	return p, true
}

func cfgErrClass(e string) int {
	switch {
	case strings.Contains(e, "strconv.ParseUint"):
		return 6
	case strings.Contains(e, "invalid LCP Version"):
		return 7
	case strings.Contains(e, "cant determin hash algorithm"):
		return 8
	case strings.Contains(e, "invalid PolicyType"):
		return 9
	}
	return 97
}

// judgeConfig: "a policy generated from user parameters carries exactly those parameters".
func judgeConfig(in *cfgIn, want cfgParams, a *cfgAnswer) (fails [][2]string) {
	add := func(known, msg string) { fails = append(fails, [2]string{known, msg}) }
	if a.Err != "" || a.Nil {
		form := map[string]string{"hex": "", "0x": " (Version in the 0x form of the shipped lcp.json / README.md)", "unset": " (Version not set: 0x300 is the documented default)"}[want.versionForm]
		add("", fmt.Sprintf("loadConfig refused parameters the tool offers%s (err=%q nil=%v)", form, a.Err, a.Nil))
		return
	}
	p := a.policy()
	if p.Version != want.version {
		add("", fmt.Sprintf("Version %q given, policy carries 0x%x", in.Version, p.Version))
	}
	if uint16(p.HashAlg) != want.alg {
		add("", fmt.Sprintf("HashAlg %q given, policy carries TPM_ALG 0x%x (want 0x%x)", in.HashAlg, uint16(p.HashAlg), want.alg))
	}
	if uint8(p.PolicyType) != want.ptype {
		add("", fmt.Sprintf("PolicyType %q given, policy carries %d", in.PolicyType, uint8(p.PolicyType)))
	}
	if p.SINITMinVersion != want.sinit {
		add("", fmt.Sprintf("SINITMinVersion %q given, policy carries 0x%x (want 0x%x)", in.SINITMin, p.SINITMinVersion, want.sinit))
	}
	if p.MaxSINITMinVersion != want.maxsinit {
		add("", fmt.Sprintf("MaxSINITMinVersion %q given, policy carries 0x%x (want 0x%x)", in.MaxSINITMin, p.MaxSINITMinVersion, want.maxsinit))
	}
	if w := specWord(want.pc, specPC); p.PolicyControl != w {
		add("", fmt.Sprintf("PolicyControl %q given, policy carries the word 0x%x; the flags encode as 0x%x", in.PolicyControl, p.PolicyControl, w))
	}
	if w := uint16(specWord(want.ah, specAH)); p.LcpHashAlgMask != w {
		add("", fmt.Sprintf("LCPHashAlgMask %q given, policy carries the word 0x%x; the flags encode as 0x%x", in.HashMask, p.LcpHashAlgMask, w))
	}
	if w := specWord(want.as, specAS); uint32(p.LcpSignAlgMask) != w {
		add("", fmt.Sprintf("LCPSignAlgMask %q given, policy carries the word 0x%x; the flags encode as 0x%x", in.SignMask, uint32(p.LcpSignAlgMask), w))
	}
	// what the decoders of the real code say about the generated policy
	if got := pcBools(p.ParsePolicyControl2()); fmt.Sprint(got) != fmt.Sprint(want.pc) {
		add("", fmt.Sprintf("PolicyControl %q given, ParsePolicyControl2 of the policy = %v [NPW OwnerEnforced AuxDelete SinitCaps]", in.PolicyControl, got))
	}
	if got := ahBools(p.ParseApprovedHashAlgorithm()); fmt.Sprint(got) != fmt.Sprint(want.ah) {
		add("", fmt.Sprintf("LCPHashAlgMask %q given, ParseApprovedHashAlgorithm of the policy = %v", in.HashMask, got))
	}
	if got := asBools(p.ParseApprovedSignatureAlgorithm()); fmt.Sprint(got) != fmt.Sprint(want.as) {
		add("", fmt.Sprintf("LCPSignAlgMask %q given, ParseApprovedSignatureAlgorithm of the policy = %v", in.SignMask, got))
	}
	return
}

// configRoundTrip: the generated policy as the tool serialises it (the --output file, the
// NV_Write to the PS index) and ParsePolicy of those bytes.
func configRoundTrip(c *gal.Ctx, in *cfgIn, pol *tools.LCPPolicy2, a *cfgAnswer, file []byte, emit bool) {
	d := map[string]interface{}{"op": "loadConfig + writePSPolicy2file + WritePSIndexTPM20 + ParsePolicy", "config": in, "config_file": string(in.fileContent()),
		"policy": fmt.Sprintf("%+v", *pol)}
	want := specBytes2(pol)
	idx := -1
	if emit {
		idx = c.Add("config_output_file", fmt.Sprintf("CEnc2 %s %s", p2Lit(pol), gal.Bytes(file)), d, true)
	}
	switch {
	case a.FilePanicked || a.FileErr != "":
		c.OracleFail(idx, fmt.Sprintf("writePSPolicy2file failed: panic=%v %s", a.FilePanicked, a.FileErr), siteCfgFile, d)
	case !bytes.Equal(file, want):
		c.OracleFail(idx, fmt.Sprintf("the --output file holds %x, the LCP_POLICY2 layout of the generated policy is %x", file, want), siteCfgFile, d)
	default:
		c.OracleOK()
	}
	nv, nvIdx, err, pan, msg := psIndexBytes(pol)
	if pan || err != nil {
		c.OracleFail(-1, fmt.Sprintf("WritePSIndexTPM20 on a recording TPM failed: panic=%v %s err=%v", pan, msg, err), siteWrite, d)
	} else {
		i2 := -1
		if emit {
			i2 = c.Add("config_ps_index_write", fmt.Sprintf("CEnc2 %s %s", p2Lit(pol), gal.Bytes(nv)), d, true)
		}
		if !bytes.Equal(nv, want) || nvIdx != 0x01C10103 {
			c.OracleFail(i2, fmt.Sprintf("WritePSIndexTPM20 wrote %x to index 0x%x, the LCP_POLICY2 layout gives %x (PS index 0x01C10103)", nv, nvIdx, want), siteWrite, d)
		} else {
			c.OracleOK()
		}
	}
	// parse back what was written
	b := want
	if len(file) > 0 {
		b = file
	}
	r := callParse(b)
	if emit {
		idx = c.Add("parse_of_config_output", fmt.Sprintf("CParse %s %s %s", gal.Bool(sha3), gal.Bytes(b), r.lit()), d, true)
	} else {
		idx = -1
	}
	if r.panicked {
		c.OracleFail(idx, "ParsePolicy panicked: "+r.msg, siteParse, d)
		return
	}
	if r.err != nil || r.p2 == nil || r.p1 != nil {
		if specDigestLen[uint16(pol.HashAlg)] > len(pol.PolicyHash) && r.err != nil && errClass(r.err) == 2 {
			c.OracleFailKnown(idx, kRoundtrp, fmt.Sprintf("the policy loadConfig generates for HashAlg %q cannot be parsed back from its 70-byte serialisation: %v", in.HashAlg, r.err), siteParse2, d)
		} else {
			c.OracleFail(idx, fmt.Sprintf("the serialised policy of the config does not parse back as LCPPolicy2 (err=%v)", r.err), siteParse, d)
		}
		return
	}
	if f := eq2(pol, r.p2); f != "" {
		c.OracleFail(idx, fmt.Sprintf("the policy loadConfig generates for HashAlg %q, written and parsed back, differs in field %s: generated %+v, parsed %+v", in.HashAlg, f, *pol, *r.p2), siteConfig, d)
		return
	}
	c.OracleOK()
}

// configCase: one config file through the real loadConfig.
func configCase(c *gal.Ctx, t *txtprov, kind string, in *cfgIn, path string, emitRT bool) {
	content := in.fileContent()
	if path != "" {
		if b, err := os.ReadFile(path); err == nil {
			content = b
		}
	} else {
		path = filepath.Join(t.dir, "lcp-config.json")
		if err := os.WriteFile(path, content, 0o600); err != nil {
			panic(err)
		}
	}
	d := map[string]interface{}{"op": "txt-prov loadConfig(file)", "kind": kind, "config": in, "config_file": string(content)}
	c.Begin("loadConfig", siteConfig, d)
	a, file, err := t.load(path)
	if err != nil {
		c.OracleFail(-1, "loadConfig could not be observed: "+err.Error(), siteConfig, d)
		return
	}
	var res string
	switch {
	case a.Panicked:
		res = "RPanic"
	case a.Err != "":
		res = fmt.Sprintf("(RErr %d)", cfgErrClass(a.Err))
	case a.Nil:
		res = "(RErr 98)"
	default:
		res = "(ROk " + p2Lit(a.policy()) + ")"
	}
	idx := c.Add("config_"+kind, fmt.Sprintf("CConfig %s %s", in.lit(), res), d, a.Err == "" && !a.Panicked)
	if a.Panicked {
		c.OracleFail(idx, "loadConfig panicked: "+a.Msg, siteConfig, d)
		return
	}
	want, inQ := readParams(in)
	if !inQ {
		c.Count("config_outside_quantifier")
		if a.Err == "" && a.Nil {
			c.OracleFail(idx, "loadConfig returned nil, nil", siteConfig, d)
		}
		return
	}
	c.Count("config_version_form_" + want.versionForm)
	report(c, idx, judgeConfig(in, want, &a), siteConfig, d)
	if a.Err == "" && !a.Nil {
		configRoundTrip(c, in, a.policy(), &a, file, emitRT)
	}
}

// ---------------------------------------------------------------- generation

func joinFlags(c *gal.Ctx, flags []bool, names []string, order int) string {
	var l []string
	for i, f := range flags {
		if f && i < len(names) {
			l = append(l, names[i])
		}
	}
	switch order {
	case 1: // reversed
		for i, j := 0, len(l)-1; i < j; i, j = i+1, j-1 {
			l[i], l[j] = l[j], l[i]
		}
	case 2: // any order
		c.Rng.Shuffle(len(l), func(i, j int) { l[i], l[j] = l[j], l[i] })
	}
	return strings.Join(l, ",")
}

func hexForm(c *gal.Ctx, v int) string {
	s := hexDigits(c, v)
	switch c.Rng.Intn(8) {
	case 0:
		return "0x" + s
	case 1:
		return "0X" + s
	}
	return s
}

func hexDigits(c *gal.Ctx, v int) string {
	switch c.Rng.Intn(6) {
	case 0:
		return fmt.Sprintf("%X", v)
	case 1:
		return fmt.Sprintf("%02x", v)
	case 2:
		return fmt.Sprintf("%04X", v)
	case 3:
		return strings.Repeat("0", 1+c.Rng.Intn(20)) + fmt.Sprintf("%x", v)
	}
	return fmt.Sprintf("%x", v)
}

// a config of the quantifier with the given flag sets; everything else random
func randConfig(c *gal.Ctx, pc, ah, as []bool, order int) *cfgIn {
	in := &cfgIn{
		Version:       hexForm(c, 0x300+c.Rng.Intn(7)),
		HashAlg:       cfgAHNames[c.Rng.Intn(3)],
		PolicyType:    []string{"Any", "List"}[c.Rng.Intn(2)],
		PolicyControl: joinFlags(c, pc, cfgPCNames, order),
		HashMask:      joinFlags(c, ah, cfgAHNames, order),
		SignMask:      joinFlags(c, as, cfgASNames, order),
		KeyStyle:      c.Rng.Intn(2),
	}
	if c.Rng.Intn(4) != 0 {
		in.SINITMin = hexForm(c, []int{0, 1, 2, 0x7f, 0x80, 0xff, c.Rng.Intn(256), c.Rng.Intn(256)}[c.Rng.Intn(8)])
	} else if c.Rng.Intn(2) == 0 {
		in.Unset = append(in.Unset, "SINITMinVersion")
	}
	if c.Rng.Intn(4) != 0 {
		in.MaxSINITMin = hexForm(c, []int{0, 1, 0xfe, 0xff, c.Rng.Intn(256), c.Rng.Intn(256)}[c.Rng.Intn(6)])
	} else if c.Rng.Intn(2) == 0 {
		in.Unset = append(in.Unset, "MaxSINITMinVersion")
	}
	for _, k := range [][2]string{{"PolicyControl", in.PolicyControl}, {"LCPHashAlgMask", in.HashMask}, {"LCPSignAlgMask", in.SignMask}} {
		if k[1] == "" && c.Rng.Intn(2) == 0 {
			in.Unset = append(in.Unset, k[0])
		}
	}
	return in
}

func oneOf(c *gal.Ctx, l ...string) string { return l[c.Rng.Intn(len(l))] }

// spoil changes one key of a config of the quantifier into something the documentation does not offer
func spoil(c *gal.Ctx, in *cfgIn) {
	mangleName := func(n string) string {
		switch c.Rng.Intn(6) {
		case 0:
			return strings.ToLower(n)
		case 1:
			return strings.ToUpper(n) + "X"
		case 2:
			return " " + n
		case 3:
			return n + " "
		case 4:
			return n[:len(n)-1]
		}
		return strings.ToUpper(n[:1]) + strings.ToLower(n[1:]) + "_"
	}
	spoilList := func(s string, names []string, others []string) string {
		items := []string{}
		if s != "" {
			items = strings.Split(s, ",")
		}
		switch c.Rng.Intn(8) {
		case 0: // a name twice
			n := names[c.Rng.Intn(len(names))]
			items = append(items, n, n)
		case 1: // every name twice (wrap-around of the word)
			items = append(append([]string{}, names...), names...)
		case 2: // a name of another list / a flag the config does not offer
			items = append(items, others[c.Rng.Intn(len(others))])
		case 3: // blanks after the comma
			if len(items) == 0 {
				items = append(items, names[0])
			}
			return strings.Join(append(items, names[c.Rng.Intn(len(names))]), ", ")
		case 4: // empty items
			return oneOf(c, ",", s+",", ","+s, strings.Join(append(items, "", names[0]), ","))
		case 5: // another separator
			return strings.Join(append(items, names[c.Rng.Intn(len(names))]), oneOf(c, ";", " ", "|", ", "))
		default:
			items = append(items, mangleName(names[c.Rng.Intn(len(names))]))
		}
		c.Rng.Shuffle(len(items), func(i, j int) { items[i], items[j] = items[j], items[i] })
		return strings.Join(items, ",")
	}
	drop := func(k string) {
		out := in.Unset[:0]
		for _, u := range in.Unset {
			if u != k {
				out = append(out, u)
			}
		}
		in.Unset = out
	}
	switch c.Rng.Intn(8) {
	case 0:
		in.Version = oneOf(c, "2ff", "307", "0", "ffff", "204", "30", "3000", "10302", "ffff0302", "10000000000000302", "fffffffffffffffff", "ffffffffffff0303",
			"3g2", "-302", "+302", " 302", "302 ", "3_02", "0x", "0X", "x302", "X302", "0x2ff", "0x307", "0X2FF", "0x3g2", "302h", "0b11", "0o1402", "770", "30 2",
			"0x0x302", "0X0x302", "0x0X302", "0X0X302", "00x302", "0x 302", "0x-302", "0x+302", "0x10302", "0xffffffffffffffffff")
		in.Note = "version"
	case 1:
		in.HashAlg = oneOf(c, "SHA512", "sha256", "Sha1", "SHA-256", "", "SM3", "SHA256 ", " SHA1", "SHA3_256", "SHA224", "MD5", "SHA1,SHA256", "0xB", "11")
		in.Note = "hashalg"
	case 2:
		in.PolicyType = oneOf(c, "any", "ANY", "", "1", "0", "list", "LIST", "Signed", "Any ", " List", "Any,List")
		in.Note = "policytype"
	case 3:
		in.SINITMin = oneOf(c, "100", "1ff", "zz", "0x100", "0x1ff", "-1", " 5", "5 ", "ffffffffffffffffff", "10000000000000001", "1_0", "g", "0x", "0X", "0x0x10", "x10", "0x0X10")
		drop("SINITMinVersion")
		in.Note = "sinitmin"
	case 4:
		in.MaxSINITMin = oneOf(c, "100", "1fe", "zz", "0x100", "0Xfff", "-1", " 5", "ffffffffffffffffff", "10000000000000001", "f f", "0x", "0X0xff", "xff")
		drop("MaxSINITMinVersion")
		in.Note = "maxsinitmin"
	case 5:
		in.PolicyControl = spoilList(in.PolicyControl, cfgPCNames, append(append([]string{}, cfgAHNames...), "Any", "PolicyControl", "0x1", "1"))
		drop("PolicyControl")
		in.Note = "policycontrol list"
	case 6:
		in.HashMask = spoilList(in.HashMask, cfgAHNames, []string{"SM3", "SHA512", "NPW", "RSA2048SHA1", "0x8"})
		drop("LCPHashAlgMask")
		in.Note = "hash mask list"
	default:
		in.SignMask = spoilList(in.SignMask, cfgASNames, []string{"SM2SM2CurveSM3", "SM2", "RSA4096SHA512", "SHA256", "AuxDelete", "ECDSAP521SHA512"})
		drop("LCPSignAlgMask")
		in.Note = "signature mask list"
	}
}

// shippedConfig reads cmd/core/txt-prov/lcp.json of the repository under test (keys compared
// without case, as encoding/json does).
func shippedConfig() (*cfgIn, string, error) {
	repo := os.Getenv("VERIF_REPO")
	if repo == "" {
		repo = "/repo"
	}
	path := filepath.Join(repo, "cmd", "core", "txt-prov", "lcp.json")
	b, err := os.ReadFile(path)
	if err != nil {
		return nil, "", err
	}
	var m map[string]string
	if err := json.Unmarshal(b, &m); err != nil {
		return nil, "", err
	}
	in := &cfgIn{Note: "the lcp.json shipped in cmd/core/txt-prov"}
	dst := map[string]*string{"version": &in.Version, "hashalg": &in.HashAlg, "policytype": &in.PolicyType, "sinitminversion": &in.SINITMin,
		"maxsinitminversion": &in.MaxSINITMin, "policycontrol": &in.PolicyControl, "lcphashalgmask": &in.HashMask, "lcpsignalgmask": &in.SignMask}
	for k, v := range m {
		if p, ok := dst[strings.ToLower(k)]; ok {
			*p = v
		}
	}
	return in, path, nil
}

func configCases(c *gal.Ctx) {
	t, err := startTxtprov()
	if t != nil {
		defer t.stop()
	}
	if err != nil {
		c.OracleFail(-1, "the txt-prov tool could not be run: "+err.Error(), siteConfig, map[string]interface{}{"op": "go build -overlay ./cmd/core/txt-prov"})
		return
	}
	n := 0
	emit := func() bool { n++; return n%3 == 0 }

	// ---- every flag set the config can name (2^4 policy-control x 2^3 hash-mask x 2^6 signature
	// names are covered set by set, not as a product), each in the documented order, reversed and shuffled
	for i := 0; i < 64; i++ {
		for order := 0; order < 3; order++ {
			pc, ah, as := bitsOf((i+order*5)%16, 4), bitsOf((i+order*3)%8, 3), bitsOf(i, 6)
			configCase(c, t, "flagsets", randConfig(c, pc, ah, as, order), "", emit())
		}
	}
	// every single name alone, every list complete
	for i := 0; i < 4; i++ {
		configCase(c, t, "single", randConfig(c, bitsOf(1<<uint(i), 4), bitsOf(0, 3), bitsOf(0, 6), 0), "", true)
	}
	for i := 0; i < 3; i++ {
		configCase(c, t, "single", randConfig(c, bitsOf(0, 4), bitsOf(1<<uint(i), 3), bitsOf(0, 6), 0), "", true)
	}
	for i := 0; i < 6; i++ {
		configCase(c, t, "single", randConfig(c, bitsOf(0, 4), bitsOf(0, 3), bitsOf(1<<uint(i), 6), 0), "", true)
	}
	for order := 0; order < 3; order++ {
		configCase(c, t, "complete", randConfig(c, bitsOf(15, 4), bitsOf(7, 3), bitsOf(63, 6), order), "", true)
	}
	// ---- random configs of the quantifier
	for i := 0; i < c.Scale(120, 1500); i++ {
		m := c.Rng.Intn(1 << 13)
		configCase(c, t, "random", randConfig(c, bitsOf(m&15, 4), bitsOf((m>>4)&7, 3), bitsOf(m>>7, 6), 2), "", emit())
	}
	// every version x hash algorithm x policy type, values at the ends of the byte range
	for v := 0x300; v <= 0x306; v++ {
		for ai, alg := range cfgAHNames {
			in := randConfig(c, bitsOf(v&15, 4), bitsOf(ai+1, 3), bitsOf(v*7%64, 6), 2)
			in.Version, in.HashAlg, in.PolicyType = fmt.Sprintf("%x", v), alg, []string{"Any", "List"}[(v+ai)%2]
			configCase(c, t, "versions", in, "", emit())
		}
	}
	// ---- the documented forms of the version: "0x302" (shipped lcp.json, README.md), not set (default 0x300)
	for i := 0; i < 28; i++ {
		m := c.Rng.Intn(1 << 13)
		in := randConfig(c, bitsOf(m&15, 4), bitsOf((m>>4)&7, 3), bitsOf(m>>7, 6), 2)
		switch i % 4 {
		case 0:
			in.Version = fmt.Sprintf("0x%x", 0x300+i%7)
		case 1:
			in.Version = fmt.Sprintf("0X%04X", 0x300+i%7)
		case 2: // the prefix forms of the two SINIT versions
			in.SINITMin, in.MaxSINITMin = fmt.Sprintf("0x%x", c.Rng.Intn(256)), fmt.Sprintf("0X%02X", c.Rng.Intn(256))
			in.Unset = nil
		default:
			in.Version = ""
			if i%2 == 0 {
				in.Unset = append(in.Unset, "Version")
			}
		}
		configCase(c, t, "version-forms", in, "", true)
	}
	if in, path, err := shippedConfig(); err == nil {
		configCase(c, t, "shipped-lcp.json", in, path, true)
	} else {
		c.Count("shipped_lcp_json_unreadable")
	}
	// ---- a Version that is not a hex value must still be refused: a prefix alone, a second prefix,
	// half a prefix, a letter that is no hex digit, a sign (no version can be carried for them)
	for _, bad := range []string{"0x", "0X", "0x0x302", "0X0x302", "x302", "X302", "0x3g2", "0x-302", "302h"} {
		m := c.Rng.Intn(1 << 13)
		in := randConfig(c, bitsOf(m&15, 4), bitsOf((m>>4)&7, 3), bitsOf(m>>7, 6), 2)
		in.Version, in.Note = bad, "version that is not a hex value"
		configCase(c, t, "version-malformed", in, "", false)
	}
	// ---- configs with one key outside what the documentation offers (modelled, not judged)
	for i := 0; i < c.Scale(170, 2000); i++ {
		m := c.Rng.Intn(1 << 13)
		in := randConfig(c, bitsOf(m&15, 4), bitsOf((m>>4)&7, 3), bitsOf(m>>7, 6), 2)
		spoil(c, in)
		configCase(c, t, "spoiled", in, "", false)
	}

	if t.dead != "" {
		c.OracleFail(-1, t.dead, siteConfig, nil)
	}
}
