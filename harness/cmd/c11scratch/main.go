package main

import (
	"fmt"

	"github.com/9elements/converged-security-suite/v2/pkg/bootflow/systemartifacts/amdregisters"
	"github.com/9elements/converged-security-suite/v2/pkg/bootflow/systemartifacts/txtpublic"
	"github.com/9elements/converged-security-suite/v2/pkg/bootflow/types"
	"github.com/9elements/converged-security-suite/v2/pkg/registers"
	pkgbytes "github.com/linuxboot/fiano/pkg/bytes"
)

func try(name string, f func() []byte) {
	defer func() {
		if r := recover(); r != nil {
			fmt.Printf("%s: PANIC %v\n", name, r)
		}
	}()
	fmt.Printf("%s: %x\n", name, f())
}

func main() {
	var key registers.TXTPublicKey
	for i := range key {
		key[i] = byte(0xA0 + i)
	}
	t := txtpublic.New(registers.Registers{registers.ParseACMPolicyStatusRegister(0x1122334455667788), registers.ParseTXTStatus(0x0102030405060708), registers.ParseTXTErrorStatus(0x5A), registers.ParseACMStatusRegister(0xCAFEBABE), registers.ParseTXTDMAProtectedRangeRegister(0xDDCCBBAA), key,
		registers.ParseIA32PlatformID(5)})
	fmt.Printf("%T regs=%d size=%x\n", t, len(t.Registers), t.Size())
	for _, r := range t.Registers {
		fmt.Printf("  %s addr=%x bits=%d val=%v\n", r.ID(), r.Address(), r.BitSize(), r.Value())
	}
	rd := func(off int64, l int) {
		p := make([]byte, l)
		n, err := t.ReadAt(p, off)
		fmt.Printf("ReadAt(%d bytes, %#x) = %d, %v, p=%x\n", l, off, n, err, p)
	}
	rd(0, 8)
	rd(8, 1)
	rd(0, 9)
	rd(0, 4)
	rd(2, 2)
	rd(0x328, 8)
	rd(0x330, 4)
	rd(0x400, 32)
	rd(0x400, 0)
	rd(0x10, 0)
	rd(0, 0)
	rd(-1, 1)
	ref := func(rs ...pkgbytes.Range) *types.Reference {
		return &types.Reference{Artifact: t, MappedRanges: types.MappedRanges{Ranges: rs}}
	}
	try("STS", func() []byte { return ref(pkgbytes.Range{Offset: 0, Length: 8}).RawBytes() })
	try("ESTS", func() []byte { return ref(pkgbytes.Range{Offset: 8, Length: 1}).RawBytes() })
	try("STS+ESTS", func() []byte { return ref(pkgbytes.Range{Offset: 0, Length: 8}, pkgbytes.Range{Offset: 8, Length: 1}).RawBytes() })
	try("ACMSTATUS+DPR", func() []byte {
		return ref(pkgbytes.Range{Offset: 0x328, Length: 8}, pkgbytes.Range{Offset: 0x330, Length: 4}).RawBytes()
	})
	try("KEY", func() []byte { return ref(pkgbytes.Range{Offset: 0x400, Length: 32}).RawBytes() })
	try("STS half", func() []byte { return ref(pkgbytes.Range{Offset: 0, Length: 4}).RawBytes() })
	try("list", func() []byte {
		return types.References{*ref(pkgbytes.Range{Offset: 0, Length: 8}), *ref(pkgbytes.Range{Offset: 8, Length: 1})}.RawBytes()
	})

	a := amdregisters.New(registers.Registers{registers.ParseMP0C2PMsg38Register(0x38383838), registers.ParseMP0C2PMsg37Register(0x01020304), registers.ParseTXTStatus(1)})
	fmt.Printf("%T regs=%d size=%d\n", a, len(a.Registers), a.Size())
	rda := func(off int64, l int) {
		p := make([]byte, l)
		n, err := a.ReadAt(p, off)
		fmt.Printf("AMD ReadAt(%d bytes, %d) = %d, %v, p=%x\n", l, off, n, err, p)
	}
	rda(0, 4)
	rda(4, 4)
	rda(0, 8)
	rda(0, 6)
	rda(0, 9)
	rda(4, 8)
	rda(2, 2)
	rda(8, 0)
	rda(0, 0)
	fmt.Println(types.EqualSystemArtifacts(a, a), types.EqualSystemArtifacts(t, t))
	var av types.SystemArtifact = *a
	try("eq value", func() []byte { fmt.Println(types.EqualSystemArtifacts(av, av)); return nil })
}
