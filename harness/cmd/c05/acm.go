package main

import (
	"bytes"
	"encoding/binary"
	"fmt"
	"os"
	"path/filepath"

	"github.com/9elements/converged-security-suite/v2/pkg/test"
	"github.com/9elements/converged-security-suite/v2/pkg/tools"
	"github.com/9elements/go-linux-lowlevel-hw/pkg/hwapi"
	"verifharness/gal"
)

const siteSinit = "pkg/test/fit.go:SINITACMcomplyTPMSpec"

func repoFile(rel string) []byte {
	root := os.Getenv("VERIF_REPO")
	if root == "" {
		root = "/repo"
	}
	b, err := os.ReadFile(filepath.Join(root, rel))
	if err != nil {
		panic(err)
	}
	return b
}

// setTPMPresent sets the result of the package's "TPM is present" test, which
// SINITACMcomplyTPMSpec consults.
func setTPMPresent(pass bool) {
	for _, t := range test.AllTestsForVerif() {
		if t.Name == "TPM is present" {
			if pass {
				t.Result = test.ResultPass
			} else {
				t.Result = test.ResultFail
			}
			return
		}
	}
	panic("test 'TPM is present' not found")
}

// the bundled SINIT ACM with its TPM capabilities word replaced
func acmWithCaps(sample []byte, off uint32, caps uint32) []byte {
	b := append([]byte{}, sample...)
	binary.LittleEndian.PutUint32(b[off:], caps)
	return b
}

// family bits as tools/acm.go names them
const (
	famDTPM12 = 0x0001
	famDTPM20 = 0x0010
)

const sinitBase = 0x7B000000

func runSinitTPM(region []byte, tpm int, present bool) verd {
	h := txtHW(txtRegs{SinitBase: sinitBase, SinitSize: uint32(len(region))})
	h.mapMem(sinitBase, region)
	setTPMPresent(present)
	defer setTPMPresent(false)
	return run3(func() (bool, error, error) {
		return test.SINITACMcomplyTPMSpec(h, &test.PreSet{TPM: hwapi.TPMVersion(tpm)})
	})
}

func genSinitTPM(c *gal.Ctx) {
	r := c.Rng
	sample := repoFile("pkg/tools/tests/sinit_acm.bin")
	a, err := tools.ParseACM(bytes.NewReader(sample))
	if err != nil {
		panic(err)
	}
	off := a.Info.TPMInfoList
	if binary.LittleEndian.Uint32(sample[off:]) != a.TPMs.Capabilities {
		panic("TPM capabilities word not where the info table says")
	}

	// layout: 0 = the SINIT region holds the ACM only; 1 = ACM followed by zero padding
	// (both: what real firmware looks like); 2 = a second module directly behind the ACM
	add := func(kind string, layout int, caps1, caps2 uint32, tpm int, present bool) {
		region := acmWithCaps(sample, off, caps1)
		second := false
		switch layout {
		case 1:
			region = append(region, make([]byte, 0x10000)...)
		case 2:
			region = append(region, acmWithCaps(sample, off, caps2)...)
			second = true
		}
		got := runSinitTPM(region, tpm, present)
		d := map[string]interface{}{"check": "SINITACMcomplyTPMSpec", "sinitACMCapabilities": caps1, "layout": []string{"acm only", "acm + zero padding", "acm + second module"}[layout],
			"secondModuleCapabilities": caps2, "presetTPM": tpm, "tpmPresentPassed": present, "got": got}
		idx := c.Add(kind, fmt.Sprintf("CSinitTPM %d %s %d %s %s", caps1, optZ(second, uint64(caps2)), tpm, gal.Bool(present), got.lit()), d, true)
		// specification (tools/acm.go constants, Intel TXT SDG TPM capabilities field): the SINIT ACM
		// — the first module in the region — must list the family of the TPM in use
		fam := uint32(0)
		switch tpm {
		case 1:
			fam = famDTPM12
		case 2:
			fam = famDTPM20
		}
		spec := present && fam != 0 && caps1&fam != 0
		switch {
		case exact(got, spec):
			c.OracleOK()
		case got.Panic || got.E2:
			c.OracleFail(idx, fmt.Sprintf("SINITACMcomplyTPMSpec: unexpected %+v", got), siteSinit, d)
		case spec && !got.OK:
			c.OracleFail(idx, fmt.Sprintf("SINITACMcomplyTPMSpec rejects a SINIT ACM that lists the family of the TPM in use (the module at the start of the SINIT region decides, not what follows it): %+v", got), "pkg/test/memory.go:sinitACM", d)
		case !spec && got.OK && present && fam != 0 && caps1 != 0:
			c.OracleFailKnown(idx, "C05-SINITTPMSpec-precedence", "SINITACMcomplyTPMSpec accepts every non-zero capabilities word and rejects 0 only ((1 >> caps & x) parses as (1 >> caps) & x)", siteSinit, d)
		default:
			c.OracleFail(idx, fmt.Sprintf("SINITACMcomplyTPMSpec: ACM lists the TPM family in use = %v, got %+v", spec, got), siteSinit, d)
		}
	}
	orig := a.TPMs.Capabilities
	for _, tpm := range []int{1, 2, 0} {
		for _, present := range []bool{true, false} {
			add("sinit_tpm_real_layout", 0, orig, 0, tpm, present)
			add("sinit_tpm_real_layout", 1, orig, 0, tpm, present)
			// every assignment of the two family bits (and the all-zero word), same module twice
			for _, caps := range []uint32{0, famDTPM12, famDTPM20, famDTPM12 | famDTPM20, 0x1000, 0x2, 0x1100, orig} {
				add("sinit_tpm_family_bits", 2, caps, caps, tpm, present)
			}
		}
	}
	add("sinit_tpm_second_differs", 2, famDTPM12, famDTPM20, 1, true)
	add("sinit_tpm_second_differs", 2, 0, famDTPM20, 2, true)
	add("sinit_tpm_second_differs", 2, famDTPM20, 0, 2, true)
	for i := 0; i < c.Scale(24, 200); i++ {
		caps := r.Uint32()
		switch r.Intn(4) {
		case 0:
			caps &= 0x11
		case 1:
			caps = 1 << uint(r.Intn(32))
		case 2:
			caps &^= 0x11
		}
		layout := 2
		if r.Intn(6) == 0 {
			layout = r.Intn(2)
		}
		add("sinit_tpm_random", layout, caps, caps, 1+r.Intn(2), r.Intn(5) != 0)
	}
}
